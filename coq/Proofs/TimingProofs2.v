(* C10, the remaining halves: TimingMap.snaps (ms -> position -> ms round trip), TimingMap.beats (cumulative beats)
   and tempo changes handed over in any order.  Builds on SnapperProofs / TimingProofs / RederiveProofs. *)
From Coq Require Import ZArith QArith Qround Qabs List Bool Lia Lqa.
From Coq Require Import Sorting.Permutation Sorting.Sorted.
From RV Require Import Base.PyNum Timing.Snapper Timing.Snap Timing.TimingMap Timing.Integrate Timing.Domain Timing.Domain2
  Proofs.SnapperProofs Proofs.TimingProofs Proofs.RederiveProofs.
Import ListNotations.
Open Scope Q_scope.

(* ------------------------------------------------------------------ A. more facts about the snapper *)
Section Snapper2.
  Variable tbl : list Q.
  Hypothesis Hok : table_ok (1 # 96) tbl = true.

  Lemma snapper_val x : snapper_snap tbl x == snap_frac tbl (frac x) + inject_Z (Qfloor x).
  Proof. unfold snapper_snap. apply Qred_correct. Qed.

  Lemma snap_frac_in x : In (snap_frac tbl (frac x)) tbl /\ 0 <= snap_frac tbl (frac x) /\ snap_frac tbl (frac x) <= 1.
  Proof.
    pose proof (frac_range x) as [F0 F1].
    destruct (snap_frac_nearest (1 # 96) tbl Hok (frac x)) as [I _]; [lra|lra|].
    split; [exact I|]. apply (table_range (1 # 96) tbl Hok _ I).
  Qed.

  Lemma frac_small u : 0 <= u -> u < 1 -> frac u == u.
  Proof.
    intros H0 H1. destruct (frac_of_unit u 0 H0 H1) as [E _].
    assert (E2: u + inject_Z 0 == u) by (change (inject_Z 0) with 0; lra).
    rewrite <- E at 2. unfold frac. rewrite (Qfloor_comp _ _ E2), E2. reflexivity.
  Qed.

  (* the snapper commutes with integer shifts *)
  Lemma snapper_shift x y : is_intQ y -> snapper_snap tbl (x - y) == snapper_snap tbl x - y.
  Proof.
    intros [z Hz]. rewrite !snapper_val.
    assert (Ef: frac (x - y) == frac x) by (apply frac_minus_int; exists z; exact Hz).
    rewrite (snap_frac_comp (1 # 96) tbl Hok _ _ Ef).
    assert (E: x - y == x + inject_Z (- z)) by (rewrite inject_Z_opp, Hz; lra).
    rewrite (Qfloor_comp _ _ E), Qfloor_add_Z, inject_Z_plus, inject_Z_opp, Hz. lra.
  Qed.

  Lemma snapper_nonneg x : 0 <= x -> 0 <= snapper_snap tbl x.
  Proof.
    intro H. rewrite snapper_val. destruct (snap_frac_in x) as [_ [S0 _]].
    assert (L: inject_Z 0 <= x) by (change (inject_Z 0) with 0; exact H).
    apply Qfloor_resp_le in L. rewrite Qfloor_Z in L. rewrite Zle_Qle in L. change (inject_Z 0) with 0 in L. lra.
  Qed.

  (* snapping never jumps over a grid point above the argument *)
  Lemma snapper_le_grid x s : x <= s -> on_grid tbl s -> snapper_snap tbl x <= s.
  Proof.
    intros Hle [t [Hin Ht]]. rewrite snapper_val.
    pose proof (frac_range x) as [F0 F1]. destruct (snap_frac_in x) as [_ [S0 S1]].
    set (K := Qfloor x) in *. set (f := frac x) in *. set (sf := snap_frac tbl f) in *.
    assert (Ex: x == f + inject_Z K) by (unfold f, frac, K; lra).
    destruct (Qlt_le_dec (s - inject_Z K) 1) as [Hu|Hu]; [|lra].
    assert (Eu: frac s == s - inject_Z K).
    { rewrite <- (frac_minus_Z s K). apply frac_small; lra. }
    destruct (snap_frac_nearest (1 # 96) tbl Hok f) as [_ [N _]]; [lra|lra|]. specialize (N t Hin). fold sf in N.
    assert (Et: t == s - inject_Z K) by (rewrite <- Ht; exact Eu).
    destruct (Qabs_cases (f - sf)) as [[A1 A2]|[A1 A2]], (Qabs_cases (f - t)) as [[B1 B2]|[B1 B2]];
      rewrite A2, B2 in N; lra.
  Qed.

  (* snapping is monotone *)
  Lemma snapper_mono x y : x <= y -> snapper_snap tbl x <= snapper_snap tbl y.
  Proof.
    intro Hle. rewrite !snapper_val.
    pose proof (frac_range x) as [F0 F1]. pose proof (frac_range y) as [G0 G1].
    destruct (snap_frac_in x) as [Ix [S0 S1]]. destruct (snap_frac_in y) as [Iy [T0 T1]].
    pose proof (Qfloor_resp_le _ _ Hle) as HK.
    destruct (Z.eq_dec (Qfloor x) (Qfloor y)) as [EK|NK].
    - rewrite EK. assert (Hf: frac x <= frac y) by (unfold frac; rewrite EK; lra).
      destruct (Qlt_le_dec (frac x) (frac y)) as [Hlt|Hge].
      + destruct (snap_frac_nearest (1 # 96) tbl Hok (frac x)) as [_ [N1 _]]; [lra|lra|]. specialize (N1 _ Iy).
        destruct (snap_frac_nearest (1 # 96) tbl Hok (frac y)) as [_ [N2 _]]; [lra|lra|]. specialize (N2 _ Ix).
        set (f1 := frac x) in *. set (f2 := frac y) in *. set (a := snap_frac tbl f1) in *. set (b := snap_frac tbl f2) in *.
        destruct (Qlt_le_dec b a) as [Hba|Hab]; [exfalso|lra].
        destruct (Qabs_cases (f1 - a)) as [[A1 A2]|[A1 A2]], (Qabs_cases (f1 - b)) as [[B1 B2]|[B1 B2]];
          rewrite A2, B2 in N1;
          destruct (Qabs_cases (f2 - b)) as [[C1 C2]|[C1 C2]], (Qabs_cases (f2 - a)) as [[D1 D2]|[D1 D2]];
          rewrite C2, D2 in N2; lra.
      + assert (Ef: frac x == frac y) by lra. rewrite (snap_frac_comp (1 # 96) tbl Hok _ _ Ef). lra.
    - assert (HK2: (Qfloor x + 1 <= Qfloor y)%Z) by lia.
      rewrite Zle_Qle, inject_Z_plus in HK2. change (inject_Z 1) with 1 in HK2. lra.
  Qed.

  Lemma snapper_within_192 x : 192 * Qabs (snapper_snap tbl x - x) <= 1.
  Proof.
    pose proof (snapper_snap_within (1 # 96) tbl Hok x) as W.
    assert (E: Qabs (snapper_snap tbl x - x) == Qabs (x - snapper_snap tbl x)).
    { rewrite <- Qabs_opp. apply Qabs_wd. lra. }
    rewrite E. lra.
  Qed.
End Snapper2.

(* ------------------------------------------------------------------ B. sorting, generically *)
Section SortGen.
  Context {A : Type} (lt : A -> A -> bool) (le : A -> A -> Prop).
  Hypothesis lt_true : forall x y, lt x y = true -> le x y.
  Hypothesis lt_false : forall x y, lt x y = false -> le y x.
  Hypothesis le_trans : forall x y z, le x y -> le y z -> le x z.

  Lemma insert_sorted_gen x l : StronglySorted le l -> StronglySorted le (insert_by lt x l).
  Proof.
    induction l as [|y l IH]; intro Hs; cbn [insert_by]; [repeat constructor|].
    apply StronglySorted_inv in Hs. destruct Hs as [Hs Hy]. rewrite Forall_forall in Hy.
    destruct (lt y x) eqn:E; cbn [negb].
    - constructor; [apply IH; exact Hs|]. rewrite Forall_forall. intros w Hw. apply insert_by_in in Hw.
      destruct Hw as [->|Hw]; [apply lt_true; exact E|apply Hy; exact Hw].
    - apply lt_false in E. constructor; [constructor; [exact Hs|rewrite Forall_forall; exact Hy]|].
      rewrite Forall_forall. intros w [<-|Hw]; [exact E|]. eapply le_trans; [exact E|apply Hy; exact Hw].
  Qed.

  Lemma sort_sorted_gen l : StronglySorted le (sort_by lt l).
  Proof. unfold sort_by. induction l as [|x l IH]; cbn [fold_right]; [constructor|apply insert_sorted_gen; exact IH]. Qed.
End SortGen.

(* ------------------------------------------------------------------ C. TimingMap.snaps: the cursor and the un-permutation *)
Definition lookup_snap (tbl : list Q) (full : list pr) (o : Q) : option snap :=
  match skip_off_gt o full with
  | Some ((b, s) :: _) => snap_from_offset tbl o b (bs_snap s)
  | _ => None
  end.

Lemma skipo_app q l1 l2 :
  skip_off_gt q (l1 ++ l2) = match skip_off_gt q l1 with Some r => Some (r ++ l2) | None => skip_off_gt q l2 end.
Proof.
  induction l1 as [|[o s] l1 IH]; cbn [app skip_off_gt]; [reflexivity|].
  destruct (Qlt_bool q (bo_off o)); [exact IH|reflexivity].
Qed.

Lemma skipo_all_gt q l : (forall p, In p l -> q < p_t p) -> skip_off_gt q l = None.
Proof.
  induction l as [|[o s] l IH]; intro H; cbn [skip_off_gt]; [reflexivity|].
  assert (G: Qlt_bool q (bo_off o) = true) by (apply Qlt_bool_iff; apply (H (o, s)); left; reflexivity).
  rewrite G. apply IH. intros p Hin. apply H. right. exact Hin.
Qed.

Lemma skipo_suffix q cur r : skip_off_gt q cur = Some r ->
  exists pre, cur = pre ++ r /\ (forall p, In p pre -> q < p_t p).
Proof.
  revert r. induction cur as [|[o s] cur IH]; intros r H; cbn [skip_off_gt] in H; [discriminate|].
  destruct (Qlt_bool q (bo_off o)) eqn:E.
  - destruct (IH r H) as [pre [E1 E2]]. exists ((o, s) :: pre). split; [rewrite E1; reflexivity|].
    intros p [<-|Hin]; [|apply E2; exact Hin]. apply Qlt_bool_iff in E. exact E.
  - injection H as <-. exists []. split; [reflexivity|]. intros p [].
Qed.

Lemma skipo_with_dropped q pre cur : (forall p, In p pre -> q < p_t p) ->
  skip_off_gt q (pre ++ cur) = skip_off_gt q cur.
Proof. intro H. rewrite skipo_app, (skipo_all_gt q pre H). reflexivity. Qed.

Fixpoint desco (l : list (nat * Q)) : Prop :=
  match l with
  | [] => True
  | (_, q1) :: l' => (forall iq, In iq l' -> snd iq <= q1) /\ desco l'
  end.

Theorem sweep_snaps_is_lookup tbl full qs : forall pre cur,
  full = pre ++ cur ->
  (forall p iq, In p pre -> In iq qs -> snd iq < p_t p) ->
  desco qs ->
  (forall iq, In iq qs -> exists v, lookup_snap tbl full (snd iq) = Some v) ->
  exists res, sweep_snaps tbl cur qs = Some res
              /\ Forall2 (fun iq r => fst r = fst iq /\ lookup_snap tbl full (snd iq) = Some (snd r)) qs res.
Proof.
  induction qs as [|[i q] qs IH]; intros pre cur Hfull Hpre Hdesc Hdef.
  - exists []. split; [reflexivity|constructor].
  - cbn [sweep_snaps]. destruct Hdesc as [Hq Hdesc].
    destruct (Hdef (i, q) (or_introl eq_refl)) as [v Hv]. cbn [snd] in Hv.
    unfold lookup_snap in Hv. rewrite Hfull in Hv.
    rewrite (skipo_with_dropped q pre cur) in Hv by (intros p Hp; apply (Hpre p (i, q) Hp (or_introl eq_refl))).
    destruct (skip_off_gt q cur) as [[|[o s] tl]|] eqn:Es; try discriminate.
    destruct (skipo_suffix q cur _ Es) as [pre2 [Ecur Hpre2]].
    rewrite Hv.
    destruct (IH (pre ++ pre2) ((o, s) :: tl)) as [res [R1 R2]].
    + rewrite Hfull, Ecur, app_assoc. reflexivity.
    + intros p iq Hp Hiq. apply in_app_or in Hp. destruct Hp as [Hp|Hp].
      * apply (Hpre p iq Hp). right. exact Hiq.
      * apply Qle_lt_trans with q; [apply Hq; exact Hiq|apply Hpre2; exact Hp].
    + exact Hdesc.
    + intros iq Hiq. apply Hdef. right. exact Hiq.
    + rewrite R1. eexists. split; [reflexivity|]. constructor; [|exact R2]. cbn [fst snd]. split; [reflexivity|].
      unfold lookup_snap. rewrite Hfull, (skipo_with_dropped q pre cur), Es by (intros p Hp; apply (Hpre p (i, q) Hp (or_introl eq_refl))).
      exact Hv.
Qed.

Definition Ro (a b : nat * Q) : Prop := snd a <= snd b.

Lemma sort_sorted_o l : StronglySorted Ro (sort_by idx_q_lt l).
Proof.
  apply sort_sorted_gen; unfold idx_q_lt, Ro.
  - intros x y H. apply Qlt_bool_iff in H. lra.
  - intros x y H. apply Qlt_bool_false in H. exact H.
  - intros x y z H1 H2. lra.
Qed.

Lemma desco_app l x : desco l -> (forall iq, In iq l -> snd x <= snd iq) -> desco (l ++ [x]).
Proof.
  induction l as [|[i q] l IH]; intros Hd Hx; cbn [app desco].
  - destruct x. cbn. split; [intros iq []|exact I].
  - destruct Hd as [H1 H2]. split.
    + intros iq Hin. apply in_app_or in Hin. destruct Hin as [Hin|[<-|[]]]; [apply H1; exact Hin|].
      apply (Hx (i, q)). left. reflexivity.
    + apply IH; [exact H2|]. intros iq Hin. apply Hx. right. exact Hin.
Qed.

Lemma sorted_rev_desco l : StronglySorted Ro l -> desco (rev l).
Proof.
  induction l as [|x l IH]; intro Hs; [exact I|]. apply StronglySorted_inv in Hs. destruct Hs as [Hs Hx].
  cbn [rev]. apply desco_app; [apply IH; exact Hs|]. rewrite Forall_forall in Hx.
  intros iq Hin. apply in_rev in Hin. apply Hx. exact Hin.
Qed.

Lemma forall2_map_fst_gen {K V} (P : nat * K -> nat * V -> Prop) l r :
  Forall2 (fun iq x => fst x = fst iq /\ P iq x) l r -> map fst r = map fst l.
Proof. induction 1 as [|a b l r [H _] _ IH]; cbn [map]; [reflexivity|]. rewrite H, IH. reflexivity. Qed.

(* generic: sorting indexed queries, sweeping them in reverse and un-permuting is the per-query map *)
Lemma unpermute_lookup {K V} (f : K -> option V) (qs : list K) (swept : list (nat * K)) (res0 : list (nat * V)) :
  Permutation (combine (seq 0 (length qs)) qs) swept ->
  Forall2 (fun iq r => fst r = fst iq /\ f (snd iq) = Some (snd r)) swept res0 ->
  (forall q, In q qs -> exists v, f q = Some v) ->
  exists res, unpermute (length qs) res0 = Some res /\ Forall2 (fun q r => f q = Some r) qs res.
Proof.
  intros Hperm S2 Hdef. unfold unpermute.
  assert (Hnd: NoDup (map fst res0)).
  { rewrite (forall2_map_fst_gen _ _ _ S2).
    apply (Permutation_NoDup (l := map fst (combine (seq 0 (length qs)) qs))); [apply Permutation_map; exact Hperm|].
    rewrite map_fst_combine by (rewrite seq_length; reflexivity). apply seq_NoDup. }
  assert (Hmap: map (fun i => assoc_nat i res0) (seq 0 (length qs)) = map f qs).
  { apply map_seq_nth. intros i q Hi.
    assert (Hin: In (i, q) swept).
    { apply (Permutation_in _ Hperm). apply combine_seq_in. split; [lia|]. rewrite Nat.sub_0_r. exact Hi. }
    destruct (forall2_in_l _ _ _ _ S2 Hin) as [[j v] [Hr [Hj Hv]]]. cbn [fst snd] in Hj, Hv. subst j.
    rewrite (assoc_nodup i v res0 Hnd Hr). symmetry. exact Hv. }
  rewrite Hmap. apply all_some_map. exact Hdef.
Qed.

(* TimingMap.snaps = per-query lookup, in the order of the queries *)
Theorem tm_snaps_lookup tbl bcos os bcss :
  bco_to_bcs tbl (sort_by bco_lt bcos) = Some bcss ->
  let full := rev (combine (sort_by bco_lt bcos) bcss) in
  (forall o, In o os -> exists v, lookup_snap tbl full o = Some v) ->
  exists res, tm_snaps tbl bcos os = Some res /\ Forall2 (fun o r => lookup_snap tbl full o = Some r) os res.
Proof.
  intros Hb full Hdef. unfold tm_snaps. rewrite Hb. fold full.
  set (idx := combine (seq 0 (length os)) os). set (sorted := sort_by idx_q_lt idx).
  assert (Hperm: Permutation idx (rev sorted)).
  { eapply perm_trans; [apply (sort_by_perm idx_q_lt idx)|apply Permutation_rev]. }
  assert (Hin_idx: forall iq, In iq (rev sorted) -> In (snd iq) os).
  { intros [i q] Hin. apply (Permutation_in _ (Permutation_sym Hperm)) in Hin. unfold idx in Hin.
    apply in_combine_r in Hin. exact Hin. }
  destruct (sweep_snaps_is_lookup tbl full (rev sorted) [] full eq_refl) as [res0 [S1 S2]].
  - intros p iq [].
  - apply sorted_rev_desco. apply sort_sorted_o.
  - intros iq Hin. apply Hdef. apply Hin_idx. exact Hin.
  - rewrite S1. apply (unpermute_lookup (lookup_snap tbl full) os (rev sorted) res0 Hperm S2 Hdef).
Qed.

(* ------------------------------------------------------------------ D. order on normalised positions = order on beat values *)
Definition nrm (met : Q) (s : snap) : Prop := 0 <= s_b s /\ s_b s < met.
Definition sval (met : Q) (s : snap) : Q := snap_val met (s_m s) (s_b s).

Lemma Zdiff_ge1 (a b : Z) : (a < b)%Z -> 1 <= inject_Z b - inject_Z a.
Proof. intro H. pose proof (inject_Z_ge1 (b - a) ltac:(lia)) as G. rewrite inject_Z_minus in G. exact G. Qed.

Lemma sle_val met a b : 0 < met -> nrm met a -> nrm met b -> (sle a b <-> sval met a <= sval met b).
Proof.
  intros Hm [A0 A1] [B0 B1]. unfold sle, sval, snap_val. split.
  - intros [L|[L1 L2]].
    + pose proof (Zdiff_ge1 _ _ L) as G.
      assert ((inject_Z (s_m b) - inject_Z (s_m a)) * met >= 1 * met) by (apply Qmult_le_compat_r; lra). lra.
    + rewrite L1. lra.
  - intro H. destruct (Z.lt_trichotomy (s_m a) (s_m b)) as [L|[L|L]]; [left; exact L|right; split; [exact L|rewrite L in H; lra]|].
    exfalso. pose proof (Zdiff_ge1 _ _ L) as G.
    assert ((inject_Z (s_m a) - inject_Z (s_m b)) * met >= 1 * met) by (apply Qmult_le_compat_r; lra). lra.
Qed.

Lemma slt_val met a b : 0 < met -> nrm met a -> nrm met b -> (slt a b <-> sval met a < sval met b).
Proof.
  intros Hm Ha Hb. split.
  - intro H. destruct (Qlt_le_dec (sval met a) (sval met b)) as [L|G]; [exact L|].
    exfalso. apply (slt_not_sle _ _ H). apply (sle_val met b a Hm Hb Ha). exact G.
  - intro H. destruct (sle_total b a) as [L|G]; [|exact G].
    apply (sle_val met b a Hm Hb Ha) in L. lra.
Qed.

Lemma seg_beats_sval met a b : seg_beats met a b == sval met b - sval met a.
Proof. unfold seg_beats, sval, snap_val. rewrite inject_Z_minus. ring. Qed.

Lemma seg_beats_self met a : seg_beats met a a == 0.
Proof. unfold seg_beats. rewrite Z.sub_diag. change (inject_Z 0) with 0. ring. Qed.

Lemma sle_antisym_ssim a b : sle a b -> sle b a -> ssim a b.
Proof. unfold sle, ssim. intros [A|[A1 A2]] [B|[B1 B2]]; try lia. split; [exact A1|lra]. Qed.

(* ------------------------------------------------------------------ E. one Snap.from_offset *)
Section FromOffset.
  Variable tbl : list Q.
  Hypothesis Hok : table_ok (1 # 96) tbl = true.

  (* Snap.from_offset(o, bco, bcs) = position of the change + the snapped number of beats since the change *)
  Lemma from_offset_spec P cs o :
    0 < bo_bpm P -> 0 < bo_met P -> is_intQ (bo_met P) ->
    (0 <= s_m cs)%Z -> 0 <= s_b cs -> bo_off P <= o ->
    exists r, snap_from_offset tbl o P cs = Some r
      /\ sval (bo_met P) r == sval (bo_met P) cs + snapper_snap tbl ((o - bo_off P) / beat_len (bo_bpm P))
      /\ nrm (bo_met P) r /\ s_met r = bo_met P /\ (0 <= s_m r)%Z.
  Proof.
    intros Hbpm Hmet Hint Hcm Hcb Ho.
    set (met := bo_met P) in *. pose proof (beat_len_pos _ Hbpm) as Hbl. set (bl := beat_len (bo_bpm P)) in *.
    unfold snap_from_offset. fold met. fold bl.
    set (del := o - bo_off P). assert (Hdel: 0 <= del) by (unfold del; lra).
    set (D := del / bl).
    assert (HD: 0 <= D) by (unfold D; apply Qle_shift_div_l; lra).
    assert (Edel: del == bl * D) by (unfold D; field; lra).
    set (ml := measure_len (bo_bpm P) met). assert (Eml: ml == bl * met) by reflexivity.
    assert (Ediv: del / ml == D / met) by (rewrite Edel, Eml; field; split; lra).
    set (k := qfloordiv del ml).
    assert (Ek: k = qfloordiv D met) by (unfold k, qfloordiv; apply Qfloor_comp; exact Ediv).
    assert (Hk: (0 <= k)%Z).
    { rewrite Ek. unfold qfloordiv. assert (L0: inject_Z 0 <= D / met) by (change (inject_Z 0) with 0; apply Qle_shift_div_l; lra).
      apply Qfloor_resp_le in L0. rewrite Qfloor_Z in L0. exact L0. }
    set (x := (del - inject_Z k * ml) / bl).
    assert (Ex: x == D - inject_Z k * met) by (unfold x; rewrite Edel, Eml; field; lra).
    assert (Ebeat: snapper_snap tbl x == snapper_snap tbl D - inject_Z k * met).
    { rewrite (snapper_snap_comp tbl Hok x _ Ex). apply (snapper_shift tbl Hok). apply is_int_mul. exact Hint. }
    set (beat := snapper_snap tbl x) in *.
    pose proof (snapper_nonneg tbl Hok D HD) as HS.
    assert (Hval: snap_val met (k + s_m cs) (beat + s_b cs) == sval met cs + snapper_snap tbl D).
    { unfold sval, snap_val. rewrite inject_Z_plus, Ebeat. ring. }
    assert (Hnn: 0 <= snap_val met (k + s_m cs) (beat + s_b cs)).
    { rewrite Hval. unfold sval, snap_val.
      assert (0 <= inject_Z (s_m cs)) by (change 0 with (inject_Z 0); rewrite <- Zle_Qle; exact Hcm).
      assert (0 <= inject_Z (s_m cs) * met) by (apply Qmult_le_0_compat; lra). lra. }
    assert (Hm0: (0 <= k + s_m cs)%Z) by lia.
    destruct (snap_norm_defined _ _ _ Hm0 Hmet Hnn) as [r Hr].
    exists r. split; [exact Hr|].
    destruct (snap_norm_value _ _ _ _ Hm0 Hmet Hr) as [V1 [V2 [V3 [V4 V5]]]].
    split; [unfold sval at 1; rewrite V1; exact Hval|]. split; [split; assumption|]. split; assumption.
  Qed.
End FromOffset.

(* ------------------------------------------------------------------ F. chains of (stored offset, re-derived change) pairs on the grid *)
Section Chain.
  Variable tbl : list Q.
  Hypothesis Hok : table_ok (1 # 96) tbl = true.

  Definition pnode (p : pr) : Prop :=
    bo_bpm (fst p) = bs_bpm (snd p) /\ bo_met (fst p) = bs_met (snd p) /\ node_ok (snd p).
  Definition p_bl (p : pr) : Q := beat_len (bs_bpm (snd p)).
  Definition p_met (p : pr) : Q := bs_met (snd p).

  Fixpoint gchain (p0 : pr) (rest : list pr) : Prop :=
    match rest with
    | [] => True
    | p1 :: rest' =>
        step_ok tbl (snd p0) (snd p1) /\ pnode p1
        /\ p_t p1 == p_t p0 + p_bl p0 * seg_beats (p_met p0) (p_s p0) (p_s p1)
        /\ gchain p1 rest'
    end.

  Lemma pnode_facts p : pnode p ->
    0 < bs_bpm (snd p) /\ 0 < p_met p /\ is_intQ (p_met p) /\ nrm (p_met p) (p_s p) /\ (0 <= s_m (p_s p))%Z /\ 0 < p_bl p.
  Proof.
    intros [_ [_ [[Hbpm [Hmet Heq]] [Hm [Hb0 [Hb1 Hint]]]]]]. unfold p_met, p_s, p_bl, nrm.
    repeat split; try assumption. apply beat_len_pos. exact Hbpm.
  Qed.

  (* the time (stored offset) strictly increases along a chain *)
  Lemma gchain_t_lt p0 p1 rest : pnode p0 -> gchain p0 (p1 :: rest) -> p_t p0 < p_t p1.
  Proof.
    intros H0 [[Hlt [Hc [Hcb _]]] [H1 [Et _]]].
    destruct (pnode_facts p0 H0) as [_ [Hmet [_ [[_ Hb1] [_ Hbl]]]]].
    destruct (pnode_facts p1 H1) as [_ [_ [_ [[Hc0 _] _]]]].
    pose proof (seg_beats_pos (p_met p0) _ _ Hmet Hlt Hc0 Hb1) as Hpos. fold (p_s p0) (p_s p1) in Hpos.
    assert (0 < p_bl p0 * seg_beats (p_met p0) (p_s p0) (p_s p1)) by (apply Qmult_lt_0_compat; assumption). lra.
  Qed.

  Lemma gchain_all_t_lt rest : forall p0 p, pnode p0 -> gchain p0 rest -> In p rest -> p_t p0 < p_t p.
  Proof.
    induction rest as [|p1 rest IH]; intros p0 p H0 Hg Hin; [destruct Hin|].
    pose proof (gchain_t_lt p0 p1 rest H0 Hg) as L. destruct Hg as [_ [H1 [_ Hg]]].
    destruct Hin as [<-|Hin]; [exact L|]. specialize (IH p1 p H1 Hg Hin). lra.
  Qed.

  Lemma gchain_all_slt rest : forall p0 p, gchain p0 rest -> In p rest -> slt (p_s p0) (p_s p).
  Proof.
    induction rest as [|p1 rest IH]; intros p0 p Hg Hin; [destruct Hin|].
    destruct Hg as [[Hlt _] [_ [_ Hg]]]. destruct Hin as [<-|Hin]; [exact Hlt|].
    apply (slt_trans_le _ (p_s p1)); [exact Hlt|apply (IH p1 p Hg Hin)].
  Qed.

  Lemma gchain_consistent rest : forall p0, gchain p0 rest -> consistent p0 rest.
  Proof. induction rest as [|p1 rest IH]; intros p0 Hg; [exact I|]. destruct Hg as [_ [_ [Et Hg]]]. split; [exact Et|apply IH; exact Hg]. Qed.

  (* the change active at time o (forward walk), with the next change if any *)
  Fixpoint active_tn (p0 : pr) (rest : list pr) (o : Q) : pr * option pr :=
    match rest with
    | [] => (p0, None)
    | p1 :: rest' => if Qle_bool (p_t p1) o then active_tn p1 rest' o else (p0, Some p1)
    end.

  Lemma active_tn_props rest : forall p0 o, pnode p0 -> gchain p0 rest -> p_t p0 <= o ->
    let a := fst (active_tn p0 rest o) in
    In a (p0 :: rest) /\ pnode a /\ p_t a <= o /\ sle (p_s p0) (p_s a)
    /\ (forall n, snd (active_tn p0 rest o) = Some n ->
          o < p_t n /\ step_ok tbl (snd a) (snd n) /\ pnode n
          /\ p_t n == p_t a + p_bl a * seg_beats (p_met a) (p_s a) (p_s n)).
  Proof.
    induction rest as [|p1 rest IH]; intros p0 o H0 Hg Ho; cbn [active_tn].
    - cbn [fst snd]. split; [left; reflexivity|]. split; [exact H0|]. split; [exact Ho|]. split; [right; split; [reflexivity|lra]|].
      intros n Hn. discriminate.
    - destruct Hg as [Hst [H1 [Et Hg]]]. destruct (Qle_bool (p_t p1) o) eqn:E.
      + apply Qle_bool_iff in E. destruct (IH p1 o H1 Hg E) as [I1 [I2 [I3 [I4 I5]]]].
        split; [right; exact I1|]. split; [exact I2|]. split; [exact I3|]. split; [|exact I5].
        destruct Hst as [Hlt _]. eapply sle_trans; [apply slt_sle; exact Hlt|exact I4].
      + apply Qle_bool_false in E. cbn [fst snd]. split; [left; reflexivity|]. split; [exact H0|]. split; [exact Ho|].
        split; [right; split; [reflexivity|lra]|]. intros n Hn. injection Hn as <-. split; [exact E|]. split; [exact Hst|]. split; [exact H1|exact Et].
  Qed.

  (* the code's backward scan (fresh cursor) finds the same change *)
  Lemma backward_off rest : forall p0 o, pnode p0 -> gchain p0 rest -> p_t p0 <= o ->
    exists tl, skip_off_gt o (rev (p0 :: rest)) = Some (fst (active_tn p0 rest o) :: tl).
  Proof.
    induction rest as [|p1 rest IH]; intros p0 o H0 Hg Ho.
    - destruct p0 as [b s]. cbn [rev app skip_off_gt active_tn fst].
      assert (E: Qlt_bool o (bo_off b) = false) by (apply Qlt_bool_false; exact Ho). rewrite E. eexists; reflexivity.
    - cbn [active_tn]. change (rev (p0 :: p1 :: rest)) with (rev (p1 :: rest) ++ [p0]). rewrite skipo_app.
      pose proof Hg as Hg0. destruct Hg as [Hst [H1 [Et Hg]]].
      destruct (Qle_bool (p_t p1) o) eqn:E.
      + apply Qle_bool_iff in E. destruct (IH p1 o H1 Hg E) as [tl Htl]. rewrite Htl. eexists; reflexivity.
      + apply Qle_bool_false in E. rewrite skipo_all_gt.
        * destruct p0 as [b s]. cbn [skip_off_gt fst].
          assert (E2: Qlt_bool o (bo_off b) = false) by (apply Qlt_bool_false; exact Ho). rewrite E2. eexists; reflexivity.
        * intros p Hin. apply in_rev in Hin. destruct Hin as [<-|Hin]; [exact E|].
          pose proof (gchain_all_t_lt rest p1 p H1 Hg Hin). lra.
  Qed.

  (* integration up to a position that lies between the active change and the next one (inclusive) *)
  Lemma time_of_go_at rest : forall p0 o r, pnode p0 -> gchain p0 rest -> p_t p0 <= o ->
    let a := fst (active_tn p0 rest o) in
    sle (p_s a) r -> (forall n, snd (active_tn p0 rest o) = Some n -> sle r (p_s n)) ->
    time_of_go (p_t p0) (snd p0) (map snd rest) r == p_t a + p_bl a * seg_beats (p_met a) (p_s a) r.
  Proof.
    induction rest as [|p1 rest IH]; intros p0 o r H0 Hg Ho; cbn [active_tn map time_of_go]; [cbn [fst snd]; reflexivity|].
    pose proof Hg as Hg0. destruct Hg as [Hst [H1 [Et Hg]]]. fold (p_s p1) (p_s p0) (p_bl p0) (p_met p0).
    destruct (Qle_bool (p_t p1) o) eqn:E.
    - apply Qle_bool_iff in E. intros Ha Hn.
      destruct (active_tn_props rest p1 o H1 Hg E) as [_ [_ [_ [Hge _]]]].
      assert (Hle: snap_le (p_s p1) r = true) by (apply snap_le_iff; eapply sle_trans; [exact Hge|exact Ha]).
      rewrite Hle. rewrite <- (IH p1 o r H1 Hg E Ha Hn). apply time_of_go_comp. rewrite Et. reflexivity.
    - cbn [fst snd]. intros Ha Hn. specialize (Hn p1 eq_refl).
      destruct (snap_le (p_s p1) r) eqn:Hle; [|reflexivity].
      apply snap_le_iff in Hle. pose proof (sle_antisym_ssim _ _ Hle Hn) as Hss.
      rewrite time_of_go_before.
      + fold (p_s p1). rewrite (seg_beats_ssim (bs_met (snd p1)) (p_s p1) (p_s p1) r (p_s p1)); [|split; reflexivity|destruct Hss; split; [auto|symmetry; auto]].
        rewrite (seg_beats_ssim (p_met p0) (p_s p0) (p_s p0) r (p_s p1)); [|split; reflexivity|destruct Hss; split; [auto|symmetry; auto]].
        rewrite seg_beats_self. unfold p_bl, p_met. ring.
      + intros c Hc. apply in_map_iff in Hc. destruct Hc as [p [<- Hp]].
        apply (sle_slt_trans _ (p_s p1)); [exact Hn|apply (gchain_all_slt rest p1 p Hg Hp)].
  Qed.

  (* the per-query result of TimingMap.snaps *)
  Theorem lookup_snap_spec rest p0 o : pnode p0 -> gchain p0 rest -> p_t p0 <= o ->
    let a := fst (active_tn p0 rest o) in
    let D := (o - p_t a) / p_bl a in
    exists r, lookup_snap tbl (rev (p0 :: rest)) o = Some r
      /\ sval (p_met a) r == sval (p_met a) (p_s a) + snapper_snap tbl D
      /\ nrm (p_met a) r /\ s_met r = p_met a /\ (0 <= s_m r)%Z
      /\ sle (p_s p0) r
      /\ time_of_go (p_t p0) (snd p0) (map snd rest) r == p_t a + p_bl a * snapper_snap tbl D.
  Proof.
    intros H0 Hg Ho. cbv zeta.
    destruct (backward_off rest p0 o H0 Hg Ho) as [tl Htl].
    destruct (active_tn_props rest p0 o H0 Hg Ho) as [Hin [Ha [Hta [Hge Hnext]]]].
    assert (Hat := time_of_go_at rest p0 o). cbv zeta in Hat.
    remember (fst (active_tn p0 rest o)) as a eqn:Ea.
    destruct (pnode_facts a Ha) as [Hbpm [Hmet [Hint [Hnrm [Hm Hbl]]]]].
    unfold lookup_snap. rewrite Htl. destruct a as [b s].
    destruct Ha as [Eb [Em Hnode]]. cbn [fst snd] in Eb, Em.
    unfold p_met, p_s, p_bl, p_t in *. cbn [fst snd] in *.
    destruct (from_offset_spec tbl Hok b (bs_snap s) o) as [r [R1 [R2 [R3 [R4 R5]]]]];
      try (rewrite ?Eb, ?Em; assumption).
    { destruct Hnrm as [N0 _]. exact N0. }
    rewrite Eb, Em in *. exists r. split; [exact R1|]. split; [exact R2|]. split; [exact R3|]. split; [exact R4|]. split; [exact R5|].
    pose proof (Qle_shift_div_l (o - bo_off b) 0 (beat_len (bs_bpm s)) Hbl) as HD0.
    assert (HD: 0 <= (o - bo_off b) / beat_len (bs_bpm s)) by (apply Qle_shift_div_l; lra).
    pose proof (snapper_nonneg tbl Hok _ HD) as HS.
    assert (Hsle: sle (bs_snap s) r).
    { apply (sle_val (bs_met s) _ _ Hmet Hnrm R3). lra. }
    split; [eapply sle_trans; [exact Hge|exact Hsle]|].
    rewrite (Hat r H0 Hg Ho).
    - rewrite seg_beats_sval, R2. ring.
    - exact Hsle.
    - intros n Hn. destruct (Hnext n Hn) as [Hon [Hst [Hpn Etn]]].
      destruct Hst as [Hlt [Hnode_n [Hnb Hgrid]]]. destruct (pnode_facts n Hpn) as [_ [_ [_ [[Hn0 _] _]]]].
      assert (Hnrm_n: nrm (bs_met s) (bs_snap (snd n))) by (split; [exact Hn0|exact Hnb]).
      apply (sle_val (bs_met s) _ _ Hmet R3 Hnrm_n). rewrite R2.
      assert (HS2: snapper_snap tbl ((o - bo_off b) / beat_len (bs_bpm s)) <= seg_beats (bs_met s) (bs_snap s) (bs_snap (snd n))).
      { apply (snapper_le_grid tbl Hok); [|exact Hgrid].
        apply Qle_shift_div_r; [exact Hbl|]. unfold p_s in Etn. lra. }
      rewrite seg_beats_sval in HS2. lra.
  Qed.
End Chain.

(* ------------------------------------------------------------------ G. from a script on the grid to its chain of pairs *)
Section ScriptChain.
  Variable tbl : list Q.
  Hypothesis Hok : table_ok (1 # 96) tbl = true.

  Lemma sim_sym_ssim x y : sim x y -> ssim (bs_snap y) (bs_snap x).
  Proof. intros [_ [_ [A [B _]]]]. split; [symmetry; exact A|symmetry; exact B]. Qed.

  Lemma node_ok_sim c' c : sim c' c -> node_ok c -> node_ok c'.
  Proof.
    intros [E1 [E2 [E3 [E4 E5]]]] [[Hbpm [Hmet Heq]] [Hm [Hb0 [Hb1 Hint]]]].
    unfold node_ok, wfc. rewrite E1, E2, E3, E4, E5. repeat split; assumption.
  Qed.

  Lemma step_ok_sim p' p c' c : sim p' p -> sim c' c -> step_ok tbl p c -> step_ok tbl p' c'.
  Proof.
    intros Sp Sc [Hlt [Hc [Hcb Hg]]].
    pose proof (sim_sym_ssim _ _ Sp) as Pp. pose proof (sim_sym_ssim _ _ Sc) as Pc.
    destruct Sp as [P1 [P2 _]]. pose proof Sc as [C1 [C2 [C3 [C4 C5]]]].
    split; [apply (slt_ssim _ _ _ _ Pp Pc Hlt)|]. split; [apply (node_ok_sim c' c Sc Hc)|].
    split; [rewrite C4, P2; exact Hcb|]. rewrite P2.
    apply (on_grid_comp tbl _ _ (seg_beats_ssim (bs_met p) _ _ _ _ Pp Pc) Hg).
  Qed.

  Lemma gchain_of_script rest : forall brest bcss P c' p,
    sim c' p -> node_ok p -> script_ok tbl p rest -> linked (bo_off P) p rest brest -> Forall2 sim bcss rest ->
    gchain tbl (P, c') (combine brest bcss).
  Proof.
    induction rest as [|c rest IH]; intros brest bcss P c' p Hsim Hp Hs Hl Hf.
    - inversion Hf; subst. destruct brest; [|destruct Hl]. exact I.
    - inversion Hf as [|c1' c1 bcss' rest0 Hc1 Hf']; subst. destruct brest as [|b brest]; [destruct Hl|].
      destruct Hl as [Lb [Lm [Loff Ll]]]. destruct Hs as [Hst Hs]. pose proof Hst as [Hlt [Hc [Hcb Hg]]].
      cbn [combine gchain]. unfold p_t, p_s, p_bl, p_met, pnode. cbn [fst snd].
      split; [apply (step_ok_sim c' p c1' c Hsim Hc1 Hst)|].
      pose proof Hc1 as [C1 [C2 _]]. pose proof Hsim as [P1 [P2 _]].
      split; [split; [congruence|split; [congruence|apply (node_ok_sim c1' c Hc1 Hc)]]|].
      split.
      + rewrite Loff, P1, P2.
        rewrite (seg_beats_ssim (bs_met p) (bs_snap c') (bs_snap p) (bs_snap c1') (bs_snap c)); [reflexivity| |];
          apply sim_ssim; assumption.
      + apply (IH brest bcss' b c1' c Hc1 Hc Hs Ll Hf').
  Qed.

  (* what from_bpm_changes_snap(reseat=False) stores and what bpm_changes_snap() re-derives from it *)
  Lemma script_pairs init c0 rest :
    node_ok c0 -> s_m (bs_snap c0) = 0%Z -> s_b (bs_snap c0) == 0 -> script_ok tbl c0 rest ->
    exists brest c0' bcss',
      let B0 := mkBco (bs_bpm c0) (bs_met c0) init in
      from_bcs init (c0 :: rest) = Some (B0 :: brest)
      /\ sort_by bco_lt (B0 :: brest) = B0 :: brest
      /\ bco_to_bcs tbl (B0 :: brest) = Some (c0' :: bcss')
      /\ sim c0' c0 /\ Forall2 sim bcss' rest /\ linked init c0 rest brest /\ length brest = length bcss'.
  Proof.
    intros H0 Hm0 Hb0 Hs.
    destruct (from_bcs_go_linked tbl rest init c0 H0 Hs) as [brest [F1 F2]].
    set (B0 := mkBco (bs_bpm c0) (bs_met c0) init).
    assert (Efrom: from_bcs init (c0 :: rest) = Some (B0 :: brest)).
    { unfold from_bcs. rewrite (sort_by_adj_ok bcs_lt (c0 :: rest) (script_adj_ok tbl c0 rest Hs)).
      rewrite Hm0. assert (Eb: Qeq_bool (s_b (bs_snap c0)) 0 = true) by (apply Qeq_bool_iff; exact Hb0).
      rewrite Eb. cbn [Z.eqb andb negb]. rewrite F1. reflexivity. }
    assert (Hl: linked (bo_off B0) c0 rest brest) by exact F2.
    assert (Esort: sort_by bco_lt (B0 :: brest) = B0 :: brest).
    { apply sort_by_adj_ok. apply (linked_adj_ok tbl rest brest B0 c0 eq_refl eq_refl H0 Hs Hl). }
    pose proof H0 as [[Hbpm [Hmet Heq]] [Hm [Hb0' [Hb1 Hint]]]].
    assert (Es0: snap_norm 0 0 (bs_met c0) = Some (mkSnap 0 (Qred 0) (bs_met c0))).
    { unfold snap_norm. change (0 <? 0)%Z with false. cbv iota. assert (E1: Qlt_bool 0 0 = false) by (apply Qlt_bool_false; lra).
      assert (E2: Qle_bool (bs_met c0) 0 = false) by (apply Qle_bool_false; exact Hmet).
      rewrite E1, E2. cbn [orb fst snd]. rewrite E1. reflexivity. }
    set (s0 := mkSnap 0 (Qred 0) (bs_met c0)).
    destruct (rederive_go tbl Hok rest brest B0 s0 c0 eq_refl eq_refl) as [bcss' [R1 R2]]; auto.
    all: try (cbn; symmetry; exact Hm0).
    all: try (cbn [s0 s_b]; rewrite Qred_correct; symmetry; exact Hb0).
    set (c0' := mkBcs (bs_bpm c0) (bs_met c0) s0).
    assert (Ebcs: bco_to_bcs tbl (B0 :: brest) = Some (c0' :: bcss')).
    { unfold bco_to_bcs. rewrite Esort. cbn [bo_met B0]. rewrite Es0. fold s0. rewrite R1. reflexivity. }
    assert (Hsim0: sim c0' c0).
    { unfold sim, c0', s0. cbn [bs_bpm bs_met bs_snap s_m s_b s_met]. split; [reflexivity|]. split; [reflexivity|].
      split; [symmetry; exact Hm0|]. split; [rewrite Qred_correct; symmetry; exact Hb0|symmetry; exact Heq]. }
    exists brest, c0', bcss'. cbv zeta. fold B0.
    split; [exact Efrom|]. split; [exact Esort|]. split; [exact Ebcs|]. split; [exact Hsim0|]. split; [exact R2|]. split; [exact F2|].
    rewrite (linked_length _ _ _ _ Hl). symmetry. apply (forall2_length _ _ _ R2).
  Qed.

  (* the spec's "change active at time o" is the pair chain's *)
  Lemma active_bridge rest : forall brest bcss t0 P c' p o,
    sim c' p -> t0 == bo_off P -> linked (bo_off P) p rest brest -> Forall2 sim bcss rest ->
    let tc := active_by_time (t0, p) (combine (change_times_go t0 p rest) rest) o in
    let a := fst (active_tn (P, c') (combine brest bcss) o) in
    fst tc == p_t a /\ sim (snd a) (snd tc).
  Proof.
    induction rest as [|c rest IH]; intros brest bcss t0 P c' p o Hsim Ht Hl Hf.
    - inversion Hf; subst. destruct brest; [|destruct Hl]. cbn. split; [exact Ht|exact Hsim].
    - inversion Hf as [|c1' c1 bcss' rest0 Hc1 Hf']; subst. destruct brest as [|b brest]; [destruct Hl|].
      destruct Hl as [Lb [Lm [Loff Ll]]].
      cbn [change_times_go combine active_by_time active_tn fst snd]. change (p_t (b, c1')) with (bo_off b).
      set (t1 := t0 + beat_len (bs_bpm p) * seg_beats (bs_met p) (bs_snap p) (bs_snap c)).
      assert (Et1: t1 == bo_off b) by (unfold t1; rewrite Loff, Ht; reflexivity).
      assert (EQ: Qle_bool t1 o = Qle_bool (bo_off b) o) by (rewrite Et1; reflexivity).
      rewrite EQ. destruct (Qle_bool (bo_off b) o).
      + apply (IH brest bcss' t1 b c1' c o Hc1 Et1 Ll Hf').
      + cbn [fst snd]. split; [exact Ht|exact Hsim].
  Qed.
End ScriptChain.

(* ------------------------------------------------------------------ H. TimingMap.snaps on a chain, then on a script *)
Lemma forall2_in_r {A B} (R : A -> B -> Prop) l r b : Forall2 R l r -> In b r -> exists a, In a l /\ R a b.
Proof.
  induction 1 as [|x y l r Hxy _ IH]; intro Hin; [destruct Hin|].
  destruct Hin as [<-|Hin]; [exists x; split; [left; reflexivity|exact Hxy]|].
  destruct (IH Hin) as [a [A1 A2]]. exists a. split; [right; exact A1|exact A2].
Qed.

Lemma forall2_compose {A B C} (P : A -> B -> Prop) (R : B -> C -> Prop) l1 l2 l3 :
  Forall2 P l1 l2 -> Forall2 R l2 l3 -> Forall2 (fun a c => exists b, P a b /\ R b c) l1 l3.
Proof.
  intro H. revert l3. induction H as [|a b l1 l2 Hab _ IH]; intros l3 H2; inversion H2; subst; constructor.
  - exists b. split; assumption.
  - apply IH. assumption.
Qed.

Lemma scaled_within bl x y : 0 < bl -> 192 * Qabs (x - y) <= 1 -> 192 * Qabs (bl * x - bl * y) <= bl.
Proof.
  intros Hbl H.
  assert (E: Qabs (bl * x - bl * y) == bl * Qabs (x - y)).
  { assert (E1: bl * x - bl * y == bl * (x - y)) by ring.
    rewrite (Qabs_wd _ _ E1), Qabs_Qmult, (Qabs_pos bl) by lra. reflexivity. }
  rewrite E.
  assert (L: bl * (192 * Qabs (x - y)) <= bl * 1) by (apply Qmult_le_l; assumption). lra.
Qed.

Section SnapsMain.
  Variable tbl : list Q.
  Hypothesis Hok : table_ok (1 # 96) tbl = true.

  (* what TimingMap.snaps returns for the time o: the position of the change active at o plus the snapped number of
     beats since that change; a normalised position under the active metronome *)
  Definition snapR (p0 : pr) (rest : list pr) (o : Q) (r : snap) : Prop :=
    let a := fst (active_tn p0 rest o) in
    let D := (o - p_t a) / p_bl a in
    sval (p_met a) r == sval (p_met a) (p_s a) + snapper_snap tbl D
    /\ nrm (p_met a) r /\ s_met r = p_met a /\ (0 <= s_m r)%Z /\ sle (p_s p0) r
    /\ time_of_go (p_t p0) (snd p0) (map snd rest) r == p_t a + p_bl a * snapper_snap tbl D.

  Theorem tm_snaps_chain bcos bcss p0 rest os :
    bco_to_bcs tbl (sort_by bco_lt bcos) = Some bcss ->
    combine (sort_by bco_lt bcos) bcss = p0 :: rest ->
    pnode p0 -> gchain tbl p0 rest -> (forall o, In o os -> p_t p0 <= o) ->
    exists ss, tm_snaps tbl bcos os = Some ss /\ Forall2 (snapR p0 rest) os ss.
  Proof.
    intros Hb Hp H0 Hg Hos.
    destruct (tm_snaps_lookup tbl bcos os bcss Hb) as [res [R1 R2]].
    - intros o Hin. rewrite Hp.
      destruct (lookup_snap_spec tbl Hok rest p0 o H0 Hg (Hos o Hin)) as [r [V1 _]]. exists r. exact V1.
    - exists res. split; [exact R1|]. cbv zeta in R2.
      apply (forall2_impl_in _ _ _ _ R2). intros o r Hin Hor.
      destruct (lookup_snap_spec tbl Hok rest p0 o H0 Hg (Hos o Hin)) as [r' [V1 V2]].
      assert (E: Some r = Some r') by (rewrite <- Hor, <- V1, Hp; reflexivity).
      injection E as ->. exact V2.
  Qed.

  (* everything the later theorems need to know about the map built from a script on the grid *)
  Lemma script_setup init c0 rest :
    node_ok c0 -> s_m (bs_snap c0) = 0%Z -> s_b (bs_snap c0) == 0 -> script_ok tbl c0 rest ->
    exists brest c0' bcss',
      let B0 := mkBco (bs_bpm c0) (bs_met c0) init in
      from_bcs init (c0 :: rest) = Some (B0 :: brest)
      /\ sort_by bco_lt (B0 :: brest) = B0 :: brest
      /\ bco_to_bcs tbl (sort_by bco_lt (B0 :: brest)) = Some (c0' :: bcss')
      /\ combine (sort_by bco_lt (B0 :: brest)) (c0' :: bcss') = (B0, c0') :: combine brest bcss'
      /\ pnode (B0, c0') /\ gchain tbl (B0, c0') (combine brest bcss')
      /\ sim c0' c0 /\ Forall2 sim bcss' rest /\ linked init c0 rest brest /\ map snd (combine brest bcss') = bcss'.
  Proof.
    intros H0 Hm0 Hb0 Hs.
    destruct (script_pairs tbl Hok init c0 rest H0 Hm0 Hb0 Hs) as [brest [c0' [bcss' [E1 [E2 [E3 [E4 [E5 [E6 E7]]]]]]]]].
    exists brest, c0', bcss'. cbv zeta in *. set (B0 := mkBco (bs_bpm c0) (bs_met c0) init) in *.
    split; [exact E1|]. split; [exact E2|]. split; [rewrite E2; exact E3|]. split; [rewrite E2; reflexivity|].
    split; [|split; [|split; [exact E4|split; [exact E5|split; [exact E6|apply map_snd_combine; exact E7]]]]].
    - unfold pnode. cbn [fst snd B0 bo_bpm bo_met]. pose proof E4 as [A [B _]].
      split; [symmetry; exact A|]. split; [symmetry; exact B|]. apply (node_ok_sim c0' c0 E4 H0).
    - apply (gchain_of_script tbl rest brest bcss' B0 c0' c0 E4 H0 Hs E6 E5).
  Qed.

  (* SPEC of the ms -> position conversion, per query *)
  Definition snap_rt_spec (init : Q) (l : list bcs) (o : Q) (s : snap) : Prop :=
    let tc := active_at_time init l o in
    192 * Qabs (time_of init l s - o) <= beat_len (bs_bpm (snd tc))
    /\ (on_grid tbl ((o - fst tc) / beat_len (bs_bpm (snd tc))) -> time_of init l s == o)
    /\ nrm (bs_met (snd tc)) s /\ s_met s = bs_met (snd tc) /\ (0 <= s_m s)%Z.

  Lemma snapR_rt init c0 rest brest c0' bcss' o r :
    let B0 := mkBco (bs_bpm c0) (bs_met c0) init in
    pnode (B0, c0') -> gchain tbl (B0, c0') (combine brest bcss') ->
    sim c0' c0 -> Forall2 sim bcss' rest -> linked init c0 rest brest -> map snd (combine brest bcss') = bcss' ->
    init <= o -> snapR (B0, c0') (combine brest bcss') o r -> snap_rt_spec init (c0 :: rest) o r.
  Proof.
    intros B0 Hp0 Hg Hsim0 Hsim Hl Hmap Ho [R1 [R2 [R3 [R4 [R5 R6]]]]].
    unfold snap_rt_spec, active_at_time. cbn [change_times combine time_of].
    assert (Hbr := active_bridge rest brest bcss' init B0 c0' c0 o Hsim0 (Qeq_refl _) Hl Hsim). cbv zeta in Hbr.
    destruct Hbr as [Bt Bs].
    destruct (active_tn_props tbl (combine brest bcss') (B0, c0') o Hp0 Hg Ho) as [_ [Ha [Hta _]]].
    set (a := fst (active_tn (B0, c0') (combine brest bcss') o)) in *.
    set (tc := active_by_time (init, c0) (combine (change_times_go init c0 rest) rest) o) in *.
    destruct (pnode_facts a Ha) as [Hbpm [Hmet [Hint [Hnrm [Hm Hbl]]]]].
    destruct Bs as [S1 [S2 _]]. unfold p_bl, p_met in *. rewrite S1, S2 in *.
    rewrite Hmap in R6. change (p_t (B0, c0')) with init in R6. cbn [snd] in R6.
    rewrite <- (time_of_go_sim rest bcss' Hsim init c0 c0' r Hsim0). rewrite R6.
    set (bl := beat_len (bs_bpm (snd tc))) in *. set (D := (o - p_t a) / bl) in *.
    assert (Eo: o == p_t a + bl * D) by (unfold D; field; lra).
    split; [|split; [|split; [exact R2|split; [exact R3|exact R4]]]].
    - assert (E: p_t a + bl * snapper_snap tbl D - o == bl * snapper_snap tbl D - bl * D) by (rewrite Eo at 1; ring).
      rewrite (Qabs_wd _ _ E). apply scaled_within; [exact Hbl|]. apply (snapper_within_192 tbl Hok).
    - intro Hgrid. assert (HgD: on_grid tbl D).
      { apply (on_grid_comp tbl ((o - fst tc) / bl)); [|exact Hgrid]. unfold D. rewrite Bt. reflexivity. }
      rewrite (snapper_on_grid tbl Hok D HgD). symmetry. exact Eo.
  Qed.

  (* MAIN (ms -> position): for a script on the grid and any millisecond queries at or after the first change, in any
     order, with duplicates, TimingMap.snaps succeeds and returns, in query order, normalised positions whose time is
     within 1/192 beat (at the active tempo) of the query and equal to it on the grid *)
  Theorem snaps_on_grid init c0 rest os :
    node_ok c0 -> s_m (bs_snap c0) = 0%Z -> s_b (bs_snap c0) == 0 -> script_ok tbl c0 rest ->
    (forall o, In o os -> init <= o) ->
    exists bcos ss, from_bcs init (c0 :: rest) = Some bcos
                    /\ tm_snaps tbl bcos os = Some ss
                    /\ Forall2 (snap_rt_spec init (c0 :: rest)) os ss
                    /\ (forall s, In s ss -> sle (bs_snap c0) s /\ 0 <= s_b s).
  Proof.
    intros H0 Hm0 Hb0 Hs Hos.
    destruct (script_setup init c0 rest H0 Hm0 Hb0 Hs) as [brest [c0' [bcss' [E1 [E2 [E3 [E4 [E5 [E6 [E7 [E8 [E9 E10]]]]]]]]]]]].
    cbv zeta in *. set (B0 := mkBco (bs_bpm c0) (bs_met c0) init) in *.
    destruct (tm_snaps_chain (B0 :: brest) (c0' :: bcss') (B0, c0') (combine brest bcss') os E3 E4 E5 E6) as [ss [S1 S2]].
    { intros o Hin. change (p_t (B0, c0')) with init. apply Hos. exact Hin. }
    exists (B0 :: brest), ss. split; [exact E1|]. split; [exact S1|]. split.
    - apply (forall2_impl_in _ _ _ _ S2). intros o r Hin HR.
      apply (snapR_rt init c0 rest brest c0' bcss' o r E5 E6 E7 E8 E9 E10 (Hos o Hin) HR).
    - intros s Hin. destruct (forall2_in_r _ _ _ _ S2 Hin) as [o [Ho [_ [[N0 _] [_ [_ [Hle _]]]]]]].
      split; [|exact N0]. change (p_s (B0, c0')) with (bs_snap c0') in Hle.
      apply (sle_ssim (bs_snap c0') (bs_snap c0) s s); [apply sim_ssim; exact E7|split; reflexivity|exact Hle].
  Qed.

  (* MAIN (ms -> position -> ms): converting the positions back with TimingMap.offsets returns the same time on the
     grid and a time within 1/192 beat otherwise *)
  Theorem ms_roundtrip init c0 rest os :
    node_ok c0 -> s_m (bs_snap c0) = 0%Z -> s_b (bs_snap c0) == 0 -> script_ok tbl c0 rest ->
    (forall o, In o os -> init <= o) ->
    exists bcos ss ts, from_bcs init (c0 :: rest) = Some bcos
      /\ tm_snaps tbl bcos os = Some ss /\ tm_offsets tbl bcos ss = Some ts
      /\ Forall2 (fun o t => let tc := active_at_time init (c0 :: rest) o in
                             192 * Qabs (t - o) <= beat_len (bs_bpm (snd tc))
                             /\ (on_grid tbl ((o - fst tc) / beat_len (bs_bpm (snd tc))) -> t == o)) os ts.
  Proof.
    intros H0 Hm0 Hb0 Hs Hos.
    destruct (snaps_on_grid init c0 rest os H0 Hm0 Hb0 Hs Hos) as [bcos [ss [F1 [F2 [F3 F4]]]]].
    destruct (offsets_on_grid tbl Hok init c0 rest ss H0 Hm0 Hb0 Hs F4) as [bcos' [ts [G1 [G2 G3]]]].
    assert (E: bcos' = bcos) by congruence. subst bcos'.
    exists bcos, ss, ts. split; [exact F1|]. split; [exact F2|]. split; [exact G2|].
    pose proof (forall2_compose _ _ _ _ _ F3 G3) as C.
    apply (forall2_impl_in _ _ _ _ C). intros o t _ [s [[A1 [A2 _]] A3]]. cbv zeta.
    split.
    - assert (E: t - o == time_of init (c0 :: rest) s - o) by (rewrite A3; reflexivity).
      rewrite (Qabs_wd _ _ E). exact A1.
    - intro Hgr. rewrite A3. apply A2. exact Hgr.
  Qed.
End SnapsMain.

(* ------------------------------------------------------------------ I. TimingMap.beats *)
Lemma all_some_seq_rel {K V} (R : K -> V -> Prop) (g : nat -> option V) qs : forall a,
  (forall i q, nth_error qs i = Some q -> exists v, g (a + i)%nat = Some v /\ R q v) ->
  exists res, all_some (map g (seq a (length qs))) = Some res /\ Forall2 R qs res.
Proof.
  induction qs as [|q qs IH]; intros a H; [exists []; split; [reflexivity|constructor]|].
  destruct (H 0%nat q eq_refl) as [v [V1 V2]]. rewrite Nat.add_0_r in V1.
  destruct (IH (S a)) as [res [R1 R2]].
  { intros i q' Hi. replace (S a + i)%nat with (a + S i)%nat by lia. apply (H (S i) q'). exact Hi. }
  exists (v :: res). cbn [length seq map all_some]. rewrite V1, R1. split; [reflexivity|constructor; assumption].
Qed.

(* un-permutation, relational form (the results need only be related to the queries) *)
Lemma unpermute_rel {K V} (R : K -> V -> Prop) (qs : list K) (swept : list (nat * K)) (res0 : list (nat * V)) :
  Permutation (combine (seq 0 (length qs)) qs) swept ->
  Forall2 (fun iq r => fst r = fst iq /\ R (snd iq) (snd r)) swept res0 ->
  exists res, unpermute (length qs) res0 = Some res /\ Forall2 R qs res.
Proof.
  intros Hperm S2. unfold unpermute.
  assert (Hnd: NoDup (map fst res0)).
  { rewrite (forall2_map_fst_gen _ _ _ S2).
    apply (Permutation_NoDup (l := map fst (combine (seq 0 (length qs)) qs))); [apply Permutation_map; exact Hperm|].
    rewrite map_fst_combine by (rewrite seq_length; reflexivity). apply seq_NoDup. }
  apply all_some_seq_rel. intros i q Hi. cbn [Nat.add].
  assert (Hin: In (i, q) swept).
  { apply (Permutation_in _ Hperm). apply combine_seq_in. split; [lia|]. rewrite Nat.sub_0_r. exact Hi. }
  destruct (forall2_in_l _ _ _ _ S2 Hin) as [[j v] [Hr [Hj Hv]]]. cbn [fst snd] in Hj, Hv. subst j.
  exists v. split; [apply (assoc_nodup i v res0 Hnd Hr)|exact Hv].
Qed.

Definition beats_inner (ss : list snap) : option (list Q) :=
  match sort_by idx_snap_lt (combine (seq 0 (length ss)) ss) with
  | [] => Some []
  | (i0, s0) :: rest =>
      let b0 := Qred (s_b s0 + inject_Z (s_m s0) * s_met s0) in
      match beats_go b0 s0 rest with
      | None => None
      | Some r => unpermute (length ss) ((i0, b0) :: r)
      end
  end.

Lemma tm_beats_unfold tbl bcos os :
  tm_beats tbl bcos os = match os with [] => Some [] | _ =>
                           match tm_snaps tbl bcos os with None => None | Some ss => beats_inner ss end end.
Proof. reflexivity. Qed.

Lemma sval_comp met met' s : met == met' -> sval met s == sval met' s.
Proof. intro E. unfold sval, snap_val. rewrite E. reflexivity. Qed.
Lemma sval_ssim met a b : ssim a b -> sval met a == sval met b.
Proof. intros [A B]. unfold sval, snap_val. rewrite A, B. reflexivity. Qed.

Section BeatsInner.
  Variable M : Q.
  Hypothesis HM : 0 < M.

  (* a position under the constant metronome M, normalised *)
  Definition good (s : snap) : Prop := s_met s == M /\ nrm M s /\ (0 <= s_m s)%Z.

  Lemma abs_beat_sval s : s_met s == M -> abs_beat s == sval M s.
  Proof. intro E. unfold abs_beat, sval, snap_val. rewrite E. reflexivity. Qed.

  Lemma beats_go_spec l : forall cur prev,
    good prev -> cur == sval M prev -> StronglySorted Rq l ->
    (forall iq, In iq l -> sle prev (snd iq) /\ good (snd iq)) ->
    exists r, beats_go cur prev l = Some r
              /\ Forall2 (fun iq ir => fst ir = fst iq /\ snd ir == sval M (snd iq)) l r.
  Proof.
    induction l as [|[i c] l IH]; intros cur prev Hp Hcur Hs Hall; [exists []; split; [reflexivity|constructor]|].
    apply StronglySorted_inv in Hs. destruct Hs as [Hs Hc]. rewrite Forall_forall in Hc.
    destruct (Hall (i, c) (or_introl eq_refl)) as [Hle Hgc]. cbn [snd] in Hle, Hgc.
    destruct Hp as [Pm [Pn Pz]]. pose proof Hgc as [Cm [Cn Cz]].
    cbn [beats_go]. unfold snap_sub.
    assert (Hmet: 0 < s_met prev) by (rewrite Pm; exact HM).
    assert (Hge: (0 <= s_m c - s_m prev)%Z) by (apply sle_m in Hle; lia).
    assert (Eval: snap_val (s_met prev) (s_m c - s_m prev) (s_b c - s_b prev) == sval M c - sval M prev).
    { unfold sval, snap_val. rewrite Pm, inject_Z_minus. ring. }
    assert (Hval: 0 <= snap_val (s_met prev) (s_m c - s_m prev) (s_b c - s_b prev)).
    { rewrite Eval. apply (sle_val M prev c HM Pn Cn) in Hle. lra. }
    destruct (snap_norm_defined _ _ _ Hge Hmet Hval) as [d Hd]. rewrite Hd.
    destruct (snap_norm_value _ _ _ _ Hge Hmet Hd) as [V1 _]. rewrite Eval in V1. unfold snap_val in V1.
    set (cur' := Qred (cur + inject_Z (s_m d) * s_met prev + s_b d)).
    assert (Ecur': cur' == sval M c) by (unfold cur'; rewrite Qred_correct, Hcur; lra).
    destruct (IH cur' c Hgc Ecur' Hs) as [r [R1 R2]].
    { intros iq Hin. split; [apply (Hc iq Hin)|apply Hall; right; exact Hin]. }
    rewrite R1. eexists. split; [reflexivity|]. constructor; [|exact R2]. cbn [fst snd]. split; [reflexivity|exact Ecur'].
  Qed.

  (* the body of TimingMap.beats after the call to snaps: cumulative beat = measure * M + beat, in query order *)
  Theorem beats_inner_spec ss : (forall s, In s ss -> good s) ->
    exists bs, beats_inner ss = Some bs /\ Forall2 (fun s b => b == sval M s) ss bs.
  Proof.
    intro Hall. unfold beats_inner.
    set (idx := combine (seq 0 (length ss)) ss).
    pose proof (sort_by_perm idx_snap_lt idx) as Hperm. pose proof (sort_sorted idx) as Hsorted.
    assert (Hgood: forall iq, In iq (sort_by idx_snap_lt idx) -> good (snd iq)).
    { intros [i q] Hin. apply (Permutation_in _ (Permutation_sym Hperm)) in Hin. apply in_combine_r in Hin. apply Hall. exact Hin. }
    destruct (sort_by idx_snap_lt idx) as [|[i0 s0] rest] eqn:Es.
    - assert (El: length idx = 0%nat) by (rewrite (Permutation_length Hperm); reflexivity).
      unfold idx in El. rewrite combine_length, seq_length, Nat.min_id in El.
      destruct ss; [|discriminate]. exists []. split; [reflexivity|constructor].
    - apply StronglySorted_inv in Hsorted. destruct Hsorted as [Hs Hc]. rewrite Forall_forall in Hc.
      pose proof (Hgood (i0, s0) (or_introl eq_refl)) as G0. cbn [snd] in G0. pose proof G0 as [Gm _].
      set (b0 := Qred (s_b s0 + inject_Z (s_m s0) * s_met s0)).
      assert (Eb0: b0 == sval M s0) by (unfold b0, sval, snap_val; rewrite Qred_correct, Gm; ring).
      destruct (beats_go_spec rest b0 s0 G0 Eb0 Hs) as [r [R1 R2]].
      { intros iq Hin. split; [apply (Hc iq Hin)|apply Hgood; right; exact Hin]. }
      cbv zeta. fold b0. rewrite R1.
      apply (unpermute_rel (fun s b => b == sval M s) ss ((i0, s0) :: rest) ((i0, b0) :: r)); [exact Hperm|].
      constructor; [cbn [fst snd]; split; [reflexivity|exact Eb0]|exact R2].
  Qed.
End BeatsInner.

Lemma forall2_combine_in {A B} (R : A -> B -> Prop) l r a b : Forall2 R l r -> In (a, b) (combine l r) -> R a b.
Proof.
  induction 1 as [|x y l r Hxy _ IH]; cbn [combine]; intro Hin; [destruct Hin|].
  destruct Hin as [E|Hin]; [injection E as <- <-; exact Hxy|apply IH; exact Hin].
Qed.

Section BeatsChain.
  Variable tbl : list Q.
  Hypothesis Hok : table_ok (1 # 96) tbl = true.
  Variable M : Q.
  Hypothesis HM : 0 < M.

  (* the cumulative beat the model assigns to time o: beats up to the active change + snapped beats since *)
  Definition cum (p0 : pr) (rest : list pr) (o : Q) : Q :=
    let a := fst (active_tn p0 rest o) in sval M (p_s a) + snapper_snap tbl ((o - p_t a) / p_bl a).

  Definition all_met (p0 : pr) (rest : list pr) : Prop := forall p, In p (p0 :: rest) -> p_met p == M.

  Lemma nrm_comp met met' s : met == met' -> nrm met s -> nrm met' s.
  Proof. intros E [A B]. split; [exact A|rewrite <- E; exact B]. Qed.

  Lemma div_mono bl x y : 0 < bl -> x <= y -> x / bl <= y / bl.
  Proof.
    intros Hbl H. apply Qle_shift_div_l; [exact Hbl|].
    assert (E: x / bl * bl == x) by (field; lra).
    assert (E2: y / bl * bl == y) by (field; lra). rewrite <- E in H. lra.
  Qed.

  Lemma cum_ge rest : forall p0 o, pnode p0 -> gchain tbl p0 rest -> all_met p0 rest -> p_t p0 <= o ->
    sval M (p_s p0) <= cum p0 rest o.
  Proof.
    intros p0 o H0 Hg Hall Ho. unfold cum.
    destruct (active_tn_props tbl rest p0 o H0 Hg Ho) as [Hin [Ha [Hta [Hge _]]]].
    set (a := fst (active_tn p0 rest o)) in *.
    destruct (pnode_facts a Ha) as [_ [_ [_ [Hna [_ Hbl]]]]]. destruct (pnode_facts p0 H0) as [_ [_ [_ [Hn0 _]]]].
    assert (L: sval M (p_s p0) <= sval M (p_s a)).
    { apply (sle_val M _ _ HM); [apply (nrm_comp (p_met p0)); [apply Hall; left; reflexivity|exact Hn0]
                                |apply (nrm_comp (p_met a)); [apply Hall; exact Hin|exact Hna]|exact Hge]. }
    assert (HD: 0 <= (o - p_t a) / p_bl a) by (apply Qle_shift_div_l; lra).
    pose proof (snapper_nonneg tbl Hok _ HD). lra.
  Qed.

  (* cumulative beats are monotone in time, for ALL times (on the grid or not) *)
  Lemma cum_mono rest : forall p0 o1 o2, pnode p0 -> gchain tbl p0 rest -> all_met p0 rest ->
    p_t p0 <= o1 -> o1 <= o2 -> cum p0 rest o1 <= cum p0 rest o2.
  Proof.
    induction rest as [|p1 rest IH]; intros p0 o1 o2 H0 Hg Hall Ho1 Hle.
    - unfold cum. cbn [active_tn fst]. destruct (pnode_facts p0 H0) as [_ [_ [_ [_ [_ Hbl]]]]].
      assert (L: (o1 - p_t p0) / p_bl p0 <= (o2 - p_t p0) / p_bl p0) by (apply div_mono; lra).
      pose proof (snapper_mono tbl Hok _ _ L). lra.
    - pose proof Hg as [Hst [H1 [Et Hg1]]].
      assert (Hall1: all_met p1 rest) by (intros p Hp; apply Hall; right; exact Hp).
      destruct (pnode_facts p0 H0) as [_ [Hmet0 [_ [Hn0 [_ Hbl]]]]].
      destruct (Qle_bool (p_t p1) o1) eqn:E1.
      + assert (E2: Qle_bool (p_t p1) o2 = true) by (apply Qle_bool_iff; apply Qle_bool_iff in E1; lra).
        unfold cum. cbn [active_tn]. rewrite E1, E2. apply Qle_bool_iff in E1. apply (IH p1 o1 o2 H1 Hg1 Hall1 E1 Hle).
      + destruct (Qle_bool (p_t p1) o2) eqn:E2.
        * (* o1 before the next change, o2 at or after it *)
          pose proof E2 as E2b. apply Qle_bool_false in E1. apply Qle_bool_iff in E2.
          apply Qle_trans with (sval M (p_s p1)).
          -- unfold cum at 1. cbn [active_tn]. assert (E1': Qle_bool (p_t p1) o1 = false) by (apply Qle_bool_false; exact E1).
             rewrite E1'. cbn [fst].
             destruct Hst as [Hlt [Hn1 [Hnb Hgrid]]].
             assert (L: (o1 - p_t p0) / p_bl p0 <= seg_beats (p_met p0) (p_s p0) (p_s p1)).
             { apply Qle_shift_div_r; [exact Hbl|]. lra. }
             pose proof (snapper_le_grid tbl Hok _ _ L Hgrid) as L2.
             rewrite seg_beats_sval in L2.
             assert (Em: p_met p0 == M) by (apply Hall; left; reflexivity).
             rewrite (sval_comp _ _ (p_s p1) Em), (sval_comp _ _ (p_s p0) Em) in L2. lra.
          -- assert (Ec: cum p0 (p1 :: rest) o2 = cum p1 rest o2) by (unfold cum; cbn [active_tn]; rewrite E2b; reflexivity).
             rewrite Ec. apply (cum_ge rest p1 o2 H1 Hg1 Hall1 E2).
        * unfold cum. cbn [active_tn]. rewrite E1, E2. cbn [fst].
          assert (L: (o1 - p_t p0) / p_bl p0 <= (o2 - p_t p0) / p_bl p0) by (apply div_mono; lra).
          pose proof (snapper_mono tbl Hok _ _ L). lra.
  Qed.

  (* TimingMap.beats on a chain with the constant metronome M *)
  Theorem tm_beats_chain bcos bcss p0 rest os :
    bco_to_bcs tbl (sort_by bco_lt bcos) = Some bcss ->
    combine (sort_by bco_lt bcos) bcss = p0 :: rest ->
    pnode p0 -> gchain tbl p0 rest -> all_met p0 rest -> (forall o, In o os -> p_t p0 <= o) ->
    exists ss bs, tm_snaps tbl bcos os = Some ss /\ tm_beats tbl bcos os = Some bs
                  /\ Forall2 (snapR tbl p0 rest) os ss
                  /\ Forall2 (fun s b => b == abs_beat s) ss bs
                  /\ Forall2 (fun o b => b == cum p0 rest o) os bs.
  Proof.
    intros Hb Hp H0 Hg Hall Hos.
    destruct (tm_snaps_chain tbl Hok bcos bcss p0 rest os Hb Hp H0 Hg Hos) as [ss [S1 S2]].
    assert (Hgood: forall s, In s ss -> good M s).
    { intros s Hin. destruct (forall2_in_r _ _ _ _ S2 Hin) as [o [Ho [_ [R2 [R3 [R4 _]]]]]].
      destruct (active_tn_props tbl rest p0 o H0 Hg (Hos o Ho)) as [Hina _].
      pose proof (Hall _ Hina) as Em. split; [rewrite R3; exact Em|]. split; [apply (nrm_comp _ _ _ Em R2)|exact R4]. }
    destruct (beats_inner_spec M HM ss Hgood) as [bs [B1 B2]].
    exists ss, bs. split; [exact S1|]. split.
    { rewrite tm_beats_unfold, S1, B1. destruct os as [|o os']; [|reflexivity].
      inversion S2; subst. inversion B2; subst. reflexivity. }
    split; [exact S2|]. split.
    - apply (forall2_impl_in _ _ _ _ B2). intros s b Hin Hb'. rewrite Hb'. symmetry. apply abs_beat_sval. apply (Hgood s Hin).
    - pose proof (forall2_compose _ _ _ _ _ S2 B2) as C.
      apply (forall2_impl_in _ _ _ _ C). intros o b Hin [s [[R1 _] Hb']]. rewrite Hb'. unfold cum.
      destruct (active_tn_props tbl rest p0 o H0 Hg (Hos o Hin)) as [Hina _].
      pose proof (Hall _ Hina) as Em. rewrite <- (sval_comp _ _ s Em), R1, (sval_comp _ _ _ Em). reflexivity.
  Qed.
End BeatsChain.

Section BeatsScript.
  Variable tbl : list Q.
  Hypothesis Hok : table_ok (1 # 96) tbl = true.
  Variable M : Q.

  Lemma bpm_factor bpm x : 0 < bpm -> x * (bpm / MIN_TO_MSEC) == x / beat_len bpm.
  Proof. intro H. unfold beat_len, MIN_TO_MSEC. field. lra. Qed.

  (* the spec's integral of bpm/60000 over time, expressed on the chain *)
  Lemma beats_bridge rest : forall brest bcss t0 P c' p o acc,
    sim c' p -> t0 == bo_off P -> node_ok p -> script_ok tbl p rest ->
    (forall c, In c (p :: rest) -> bs_met c == M) ->
    linked (bo_off P) p rest brest -> Forall2 sim bcss rest ->
    let a := fst (active_tn (P, c') (combine brest bcss) o) in
    beats_at_go acc (t0, p) (combine (change_times_go t0 p rest) rest) o
      == acc + (sval M (p_s a) - sval M (bs_snap p)) + (o - p_t a) / p_bl a.
  Proof.
    induction rest as [|c rest IH]; intros brest bcss t0 P c' p o acc Hsim Ht Hp Hs Hall Hl Hf.
    - inversion Hf; subst. destruct brest; [|destruct Hl]. cbn [change_times_go combine beats_at_go active_tn fst snd].
      unfold p_s, p_t, p_bl. cbn [fst snd]. destruct Hp as [[Hbpm _] _]. pose proof Hsim as [S1 _].
      rewrite (sval_ssim M _ _ (sim_ssim _ _ Hsim)), S1, (bpm_factor _ _ Hbpm), Ht. ring.
    - inversion Hf as [|c1' c1 bcss' rest0 Hc1 Hf']; subst. destruct brest as [|b brest]; [destruct Hl|].
      destruct Hl as [Lb [Lm [Loff Ll]]]. destruct Hs as [Hst Hs]. pose proof Hst as [Hlt [Hc _]].
      cbn [change_times_go combine beats_at_go active_tn fst snd]. change (p_t (b, c1')) with (bo_off b).
      set (t1 := t0 + beat_len (bs_bpm p) * seg_beats (bs_met p) (bs_snap p) (bs_snap c)).
      assert (Et1: t1 == bo_off b) by (unfold t1; rewrite Loff, Ht; reflexivity).
      assert (EQ: Qle_bool t1 o = Qle_bool (bo_off b) o) by (rewrite Et1; reflexivity).
      rewrite EQ. pose proof Hp as [[Hbpm _] _].
      destruct (Qle_bool (bo_off b) o).
      + rewrite (IH brest bcss' t1 b c1' c o _ Hc1 Et1 Hc Hs); [|intros x Hx; apply Hall; right; exact Hx|exact Ll|exact Hf'].
        assert (Em: bs_met p == M) by (apply Hall; left; reflexivity).
        assert (E: (t1 - t0) * (bs_bpm p / MIN_TO_MSEC) == sval M (bs_snap c) - sval M (bs_snap p)).
        { rewrite (bpm_factor _ _ Hbpm). unfold t1. rewrite seg_beats_sval, (sval_comp _ _ _ Em), (sval_comp _ _ _ Em).
          pose proof (beat_len_pos _ Hbpm). field. lra. }
        rewrite E. ring.
      + cbn [fst snd]. unfold p_s, p_t, p_bl. cbn [fst snd]. pose proof Hsim as [S1 _].
        rewrite (sval_ssim M _ _ (sim_ssim _ _ Hsim)), S1, (bpm_factor _ _ Hbpm), Ht. ring.
  Qed.

  (* MAIN (cumulative beats), constant metronome M: TimingMap.beats succeeds and returns, in query order, for every
     query time the cumulative beat  measure * M + beat  of the position TimingMap.snaps assigns to it; that number is
     within 1/192 of the integral of bpm/60000 over [init, o] and equal to it when o is on the snap grid; hence
     differences of cumulative beats of on-grid times are exactly the integrated beat distance; and cumulative beats
     are monotone in time (for all times). *)
  Theorem beats_on_grid init c0 rest os :
    node_ok c0 -> s_m (bs_snap c0) = 0%Z -> s_b (bs_snap c0) == 0 -> script_ok tbl c0 rest ->
    (forall c, In c (c0 :: rest) -> bs_met c == M) ->
    (forall o, In o os -> init <= o) ->
    let l := c0 :: rest in
    let gridt o := on_grid tbl ((o - fst (active_at_time init l o)) / beat_len (bs_bpm (snd (active_at_time init l o)))) in
    exists bcos ss bs, from_bcs init l = Some bcos
      /\ tm_snaps tbl bcos os = Some ss /\ tm_beats tbl bcos os = Some bs
      /\ Forall2 (fun s b => b == abs_beat s) ss bs
      /\ Forall2 (fun o b => 192 * Qabs (b - beats_at init l o) <= 1 /\ (gridt o -> b == beats_at init l o)) os bs
      /\ (forall o1 b1 o2 b2, In (o1, b1) (combine os bs) -> In (o2, b2) (combine os bs) ->
            gridt o1 -> gridt o2 -> b2 - b1 == beats_at init l o2 - beats_at init l o1)
      /\ (forall o1 b1 o2 b2, In (o1, b1) (combine os bs) -> In (o2, b2) (combine os bs) -> o1 <= o2 -> b1 <= b2).
  Proof.
    intros H0 Hm0 Hb0 Hs Hall Hos l gridt.
    assert (HM: 0 < M).
    { destruct H0 as [[_ [Hmet _]] _]. rewrite <- (Hall c0 (or_introl eq_refl)). exact Hmet. }
    destruct (script_setup tbl Hok init c0 rest H0 Hm0 Hb0 Hs) as [brest [c0' [bcss' [E1 [E2 [E3 [E4 [E5 [E6 [E7 [E8 [E9 E10]]]]]]]]]]]].
    cbv zeta in *. set (B0 := mkBco (bs_bpm c0) (bs_met c0) init) in *.
    set (p0 := (B0, c0')) in *. set (prs := combine brest bcss') in *.
    assert (Hallp: all_met M p0 prs).
    { intros p [<-|Hin]; unfold p_met.
      - cbn [snd p0]. destruct E7 as [_ [Em _]]. rewrite Em. apply Hall. left. reflexivity.
      - destruct p as [pb pc]. unfold prs in Hin. apply in_combine_r in Hin. cbn [snd]. destruct (forall2_in_l _ _ _ _ E8 Hin) as [c [Hc [_ [Em _]]]]. rewrite Em. apply Hall. right. exact Hc. }
    assert (Hos': forall o, In o os -> p_t p0 <= o) by (intros o Hin; change (p_t p0) with init; apply Hos; exact Hin).
    destruct (tm_beats_chain tbl Hok M HM (B0 :: brest) (c0' :: bcss') p0 prs os E3 E4 E5 E6 Hallp Hos')
      as [ss [bs [S1 [S2 [S3 [S4 S5]]]]]].
    (* the per-time facts *)
    assert (Hbeats: forall o, init <= o ->
              beats_at init l o == sval M (p_s (fst (active_tn p0 prs o))) + (o - p_t (fst (active_tn p0 prs o))) / p_bl (fst (active_tn p0 prs o))).
    { intros o Ho. unfold beats_at, l. cbn [change_times combine].
      rewrite (beats_bridge rest brest bcss' init B0 c0' c0 o 0 E7 (Qeq_refl _) H0 Hs Hall E9 E8). fold p0 prs.
      assert (Z0: sval M (bs_snap c0) == 0) by (unfold sval, snap_val; rewrite Hm0, Hb0; change (inject_Z 0) with 0; ring).
      rewrite Z0. ring. }
    assert (Hgr: forall o, init <= o -> gridt o -> on_grid tbl ((o - p_t (fst (active_tn p0 prs o))) / p_bl (fst (active_tn p0 prs o)))).
    { intros o Ho Hg. unfold gridt, active_at_time, l in Hg. cbn [change_times combine] in Hg.
      destruct (active_bridge rest brest bcss' init B0 c0' c0 o E7 (Qeq_refl _) E9 E8) as [Bt [Bs _]]. fold p0 prs in Bt, Bs.
      refine (on_grid_comp tbl _ _ _ Hg). unfold p_bl. rewrite Bs, Bt. reflexivity. }
    assert (Hval: forall o b, In (o, b) (combine os bs) -> init <= o /\ b == cum tbl M p0 prs o).
    { intros o b Hin. split; [apply Hos; apply (in_combine_l _ _ _ _ Hin)|apply (forall2_combine_in _ _ _ _ _ S5 Hin)]. }
    assert (Hexact: forall o b, In (o, b) (combine os bs) -> gridt o -> b == beats_at init l o).
    { intros o b Hin Hg. destruct (Hval o b Hin) as [Ho Hb]. rewrite Hb, (Hbeats o Ho). unfold cum.
      rewrite (snapper_on_grid tbl Hok _ (Hgr o Ho Hg)). reflexivity. }
    exists (B0 :: brest), ss, bs. split; [exact E1|]. split; [exact S1|]. split; [exact S2|]. split; [exact S4|].
    split; [|split].
    - assert (Hc: Forall2 (fun o b => In (o, b) (combine os bs)) os bs).
      { clear - S5. induction S5 as [|o b os bs _ _ IH]; constructor; [left; reflexivity|].
        apply (forall2_impl_in _ _ _ _ IH). intros a' b' _ Hin. right. exact Hin. }
      apply (forall2_impl_in _ _ _ _ Hc). intros o b _ Hin. split; [|apply (Hexact o b Hin)].
      destruct (Hval o b Hin) as [Ho Hb].
      assert (E: b - beats_at init l o == snapper_snap tbl ((o - p_t (fst (active_tn p0 prs o))) / p_bl (fst (active_tn p0 prs o)))
                                          - (o - p_t (fst (active_tn p0 prs o))) / p_bl (fst (active_tn p0 prs o))).
      { rewrite Hb, (Hbeats o Ho). unfold cum. ring. }
      rewrite (Qabs_wd _ _ E). apply (snapper_within_192 tbl Hok).
    - intros o1 b1 o2 b2 I1 I2 G1 G2. rewrite (Hexact o1 b1 I1 G1), (Hexact o2 b2 I2 G2). reflexivity.
    - intros o1 b1 o2 b2 I1 I2 Hle. destruct (Hval o1 b1 I1) as [Ho1 Hb1]. destruct (Hval o2 b2 I2) as [Ho2 Hb2].
      rewrite Hb1, Hb2. apply (cum_mono tbl Hok M HM prs p0 o1 o2 E5 E6 Hallp Ho1 Hle).
  Qed.
End BeatsScript.

(* ------------------------------------------------------------------ J. position -> ms -> position, and beats of positions *)
Section Positions.
  Variable tbl : list Q.
  Hypothesis Hok : table_ok (1 # 96) tbl = true.

  Lemma active_tn_comp rest : forall p0 o o', o == o' -> active_tn p0 rest o = active_tn p0 rest o'.
  Proof.
    induction rest as [|p1 rest IH]; intros p0 o o' E; cbn [active_tn]; [reflexivity|].
    assert (EQ: Qle_bool (p_t p1) o = Qle_bool (p_t p1) o') by (rewrite E; reflexivity).
    rewrite EQ, (IH p1 o o' E). reflexivity.
  Qed.

  (* the time of a position lies in the segment of the change active at that position *)
  Lemma active_time_of_pos rest : forall p0 q, pnode p0 -> gchain tbl p0 rest -> sle (p_s p0) q ->
    nrm (p_met (active_fwd p0 rest q)) q ->
    fst (active_tn p0 rest (p_t (active_fwd p0 rest q)
                            + p_bl (active_fwd p0 rest q) * seg_beats (p_met (active_fwd p0 rest q)) (p_s (active_fwd p0 rest q)) q))
      = active_fwd p0 rest q
    /\ p_t p0 <= p_t (active_fwd p0 rest q)
                 + p_bl (active_fwd p0 rest q) * seg_beats (p_met (active_fwd p0 rest q)) (p_s (active_fwd p0 rest q)) q.
  Proof.
    induction rest as [|p1 rest IH]; intros p0 q H0 Hg Hle; cbn [active_fwd].
    - intro Hn. cbn [active_tn fst]. split; [reflexivity|].
      destruct (pnode_facts p0 H0) as [_ [Hmet [_ [Hn0 [_ Hbl]]]]].
      apply (sle_val (p_met p0) _ _ Hmet Hn0 Hn) in Hle. rewrite seg_beats_sval.
      assert (0 <= p_bl p0 * (sval (p_met p0) q - sval (p_met p0) (p_s p0))) by (apply Qmult_le_0_compat; lra). lra.
    - pose proof Hg as [Hst [H1 [Et Hg1]]]. pose proof (gchain_t_lt tbl p0 p1 rest H0 Hg) as Hlt01.
      destruct (snap_le (p_s p1) q) eqn:E.
      + intro Hn. apply snap_le_iff in E. destruct (IH p1 q H1 Hg1 E Hn) as [I1 I2].
        cbn [active_tn]. assert (EQ: Qle_bool (p_t p1) (p_t (active_fwd p1 rest q)
                            + p_bl (active_fwd p1 rest q) * seg_beats (p_met (active_fwd p1 rest q)) (p_s (active_fwd p1 rest q)) q) = true)
          by (apply Qle_bool_iff; exact I2).
        rewrite EQ. split; [exact I1|lra].
      + intro Hn. apply slt_of_not_le in E.
        destruct (pnode_facts p0 H0) as [_ [Hmet [_ [Hn0 [_ Hbl]]]]].
        destruct Hst as [_ [Hnode1 [Hnb _]]]. destruct (pnode_facts p1 H1) as [_ [_ [_ [[Hb10 _] _]]]].
        assert (Hn1: nrm (p_met p0) (p_s p1)) by (split; [exact Hb10|exact Hnb]).
        apply (slt_val (p_met p0) _ _ Hmet Hn Hn1) in E.
        apply (sle_val (p_met p0) _ _ Hmet Hn0 Hn) in Hle.
        rewrite seg_beats_sval in Et.
        assert (Eo: p_t p0 + p_bl p0 * seg_beats (p_met p0) (p_s p0) q == p_t p0 + p_bl p0 * (sval (p_met p0) q - sval (p_met p0) (p_s p0)))
          by (rewrite seg_beats_sval; reflexivity).
        assert (L1: p_bl p0 * (sval (p_met p0) q - sval (p_met p0) (p_s p0)) < p_bl p0 * (sval (p_met p0) (p_s p1) - sval (p_met p0) (p_s p0)))
          by (apply Qmult_lt_l; lra).
        assert (L0: 0 <= p_bl p0 * (sval (p_met p0) q - sval (p_met p0) (p_s p0))) by (apply Qmult_le_0_compat; lra).
        rewrite (active_tn_comp (p1 :: rest) p0 _ _ Eo). cbn [active_tn].
        assert (EQ: Qle_bool (p_t p1) (p_t p0 + p_bl p0 * (sval (p_met p0) q - sval (p_met p0) (p_s p0))) = false)
          by (apply Qle_bool_false; lra).
        rewrite EQ. cbn [fst]. split; [reflexivity|rewrite Eo; lra].
  Qed.

  Lemma gchain_in_pnode rest : forall p0 p, pnode p0 -> gchain tbl p0 rest -> In p (p0 :: rest) -> pnode p.
  Proof.
    induction rest as [|p1 rest IH]; intros p0 p H0 Hg [<-|Hin]; try exact H0; [destruct Hin|].
    destruct Hg as [_ [H1 [_ Hg]]]. apply (IH p1 p H1 Hg Hin).
  Qed.

  (* TimingMap.snaps of the time of an on-grid position is that position *)
  Lemma snapR_of_pos rest p0 q o r : pnode p0 -> gchain tbl p0 rest -> sle (p_s p0) q ->
    let a := active_fwd p0 rest q in
    nrm (p_met a) q -> on_grid tbl (seg_beats (p_met a) (p_s a) q) ->
    o == p_t a + p_bl a * seg_beats (p_met a) (p_s a) q ->
    snapR tbl p0 rest o r -> p_t p0 <= o /\ ssim r q /\ s_met r = p_met a.
  Proof.
    intros H0 Hg Hle a Hn Hgrid Eo [R1 [R2 [R3 _]]].
    destruct (active_time_of_pos rest p0 q H0 Hg Hle Hn) as [A1 A2]. fold a in A1, A2.
    rewrite <- (active_tn_comp rest p0 _ _ Eo) in A1. rewrite A1 in R1, R2, R3.
    split; [rewrite Eo; exact A2|]. split; [|exact R3].
    destruct (active_fwd_props p0 rest q Hle) as [Hin _]. fold a in Hin.
    assert (Ha: pnode a) by (apply (gchain_in_pnode rest p0 a H0 Hg Hin)).
    destruct (pnode_facts a Ha) as [_ [Hmet [_ [_ [_ Hbl]]]]].
    assert (ED: (o - p_t a) / p_bl a == seg_beats (p_met a) (p_s a) q) by (rewrite Eo; field; lra).
    rewrite (snapper_snap_comp tbl Hok _ _ ED), (snapper_on_grid tbl Hok _ Hgrid), seg_beats_sval in R1.
    assert (EV: sval (p_met a) r == sval (p_met a) q) by lra.
    destruct R2 as [R20 R21]. destruct Hn as [Q0 Q1].
    destruct (snap_val_unique (p_met a) (s_m r) (s_b r) (s_m q) (s_b q) Hmet R20 R21 Q0 Q1 EV) as [U1 U2].
    split; assumption.
  Qed.

  (* the spec's "change active at position q" is the pair chain's *)
  Lemma active_go_bridge rest : forall brest bcss t P c' p q,
    sim c' p -> linked (bo_off P) p rest brest -> Forall2 sim bcss rest ->
    sim (snd (active_fwd (P, c') (combine brest bcss) q)) (snd (active_go t p rest q)).
  Proof.
    induction rest as [|c rest IH]; intros brest bcss t P c' p q Hsim Hl Hf.
    - inversion Hf; subst. destruct brest; [|destruct Hl]. cbn. exact Hsim.
    - inversion Hf as [|c1' c1 bcss' rest0 Hc1 Hf']; subst. destruct brest as [|b brest]; [destruct Hl|].
      destruct Hl as [_ [_ [_ Ll]]]. cbn [combine active_fwd active_go]. change (p_s (b, c1')) with (bs_snap c1').
      rewrite (snap_le_ssim _ _ q (sim_ssim _ _ Hc1)).
      destruct (snap_le (bs_snap c) q); [apply (IH brest bcss' _ b c1' c q Hc1 Ll Hf')|cbn [snd]; exact Hsim].
  Qed.

  Definition pos_ok (c0 : bcs) (rest : list bcs) (q : snap) : Prop :=
    let c := snd (active_go 0 c0 rest q) in
    sle (bs_snap c0) q /\ nrm (bs_met c) q /\ on_grid tbl (seg_beats (bs_met c) (bs_snap c) q).

  (* MAIN (position -> ms -> position): for on-grid positions (normalised under the metronome of the change active at
     them) TimingMap.snaps of their times returns the positions themselves, in query order *)
  Theorem snaps_of_offsets init c0 rest qs os :
    node_ok c0 -> s_m (bs_snap c0) = 0%Z -> s_b (bs_snap c0) == 0 -> script_ok tbl c0 rest ->
    (forall q, In q qs -> pos_ok c0 rest q) ->
    Forall2 (fun q o => o == time_of init (c0 :: rest) q) qs os ->
    (forall o, In o os -> init <= o)
    /\ exists bcos ss, from_bcs init (c0 :: rest) = Some bcos /\ tm_snaps tbl bcos os = Some ss
         /\ Forall2 (fun q s => ssim s q /\ s_met s = bs_met (snd (active_go 0 c0 rest q))) qs ss.
  Proof.
    intros H0 Hm0 Hb0 Hs Hq Hos.
    destruct (script_setup tbl Hok init c0 rest H0 Hm0 Hb0 Hs) as [brest [c0' [bcss' [E1 [E2 [E3 [E4 [E5 [E6 [E7 [E8 [E9 E10]]]]]]]]]]]].
    cbv zeta in *. set (B0 := mkBco (bs_bpm c0) (bs_met c0) init) in *.
    set (p0 := (B0, c0')) in *. set (prs := combine brest bcss') in *.
    (* per position *)
    assert (Hper: forall q o, In q qs -> o == time_of init (c0 :: rest) q ->
              let a := active_fwd p0 prs q in
              sle (p_s p0) q /\ nrm (p_met a) q /\ on_grid tbl (seg_beats (p_met a) (p_s a) q)
              /\ o == p_t a + p_bl a * seg_beats (p_met a) (p_s a) q
              /\ p_met a = bs_met (snd (active_go 0 c0 rest q))).
    { intros q o Hin Eo a. destruct (Hq q Hin) as [Q1 [Q2 Q3]].
      pose proof (active_go_bridge rest brest bcss' 0 B0 c0' c0 q E7 E9 E8) as Hb. fold p0 prs a in Hb.
      pose proof Hb as [_ [Bm _]]. pose proof (sim_ssim _ _ Hb) as Bs.
      assert (Hle: sle (p_s p0) q).
      { apply (sle_ssim (bs_snap c0) (bs_snap c0') q q); [apply sim_sym_ssim; exact E7|split; reflexivity|exact Q1]. }
      split; [exact Hle|]. unfold p_met. rewrite Bm. split; [exact Q2|]. split.
      - refine (on_grid_comp tbl _ _ _ Q3). apply seg_beats_ssim; [destruct Bs; split; [auto|symmetry; auto]|split; reflexivity].
      - split; [|reflexivity]. rewrite Eo. cbn [time_of].
        rewrite <- (time_of_go_sim rest bcss' E8 init c0 c0' q E7).
        pose proof (time_of_go_active p0 prs q (gchain_consistent tbl prs p0 E6)) as T. cbv zeta in T. fold a in T.
        change (p_t p0) with init in T. change (snd p0) with c0' in T. rewrite E10 in T.
        rewrite T. unfold p_bl, p_met. rewrite Bm. reflexivity. }
    assert (Hos': forall o, In o os -> init <= o).
    { intros o Hin. destruct (forall2_in_r _ _ _ _ Hos Hin) as [q [Hqin Eo]].
      destruct (Hper q o Hqin Eo) as [P1 [P2 [_ [P4 _]]]].
      destruct (active_time_of_pos prs p0 q E5 E6 P1 P2) as [_ A2].
      change (p_t p0) with init in A2. rewrite P4. exact A2. }
    split; [exact Hos'|].
    destruct (tm_snaps_chain tbl Hok (B0 :: brest) (c0' :: bcss') p0 prs os E3 E4 E5 E6) as [ss [S1 S2]].
    { intros o Hin. change (p_t p0) with init. apply Hos'. exact Hin. }
    exists (B0 :: brest), ss. split; [exact E1|]. split; [exact S1|].
    pose proof (forall2_compose _ _ _ _ _ Hos S2) as C.
    assert (Hc: Forall2 (fun q s => In q qs /\ exists o, o == time_of init (c0 :: rest) q /\ snapR tbl p0 prs o s) qs ss).
    { clear - C. induction C as [|q s qs ss [o [A B]] _ IH]; constructor.
      - split; [left; reflexivity|exists o; split; assumption].
      - apply (forall2_impl_in _ _ _ _ IH). intros a b _ [I1 I2]. split; [right; exact I1|exact I2]. }
    apply (forall2_impl_in _ _ _ _ Hc). intros q s _ [Hin [o [Eo HR]]].
    destruct (Hper q o Hin Eo) as [P1 [P2 [P3 [P4 P5]]]].
    destruct (snapR_of_pos prs p0 q o s E5 E6 P1 P2 P3 P4 HR) as [_ [U1 U2]].
    split; [exact U1|rewrite U2; exact P5].
  Qed.
End Positions.

Section BeatsPositions.
  Variable tbl : list Q.
  Hypothesis Hok : table_ok (1 # 96) tbl = true.
  Variable M : Q.

  (* cumulative beats of the times of on-grid positions = measure * M + beat of those positions *)
  Theorem beats_of_positions init c0 rest qs os :
    node_ok c0 -> s_m (bs_snap c0) = 0%Z -> s_b (bs_snap c0) == 0 -> script_ok tbl c0 rest ->
    (forall c, In c (c0 :: rest) -> bs_met c == M) ->
    (forall q, In q qs -> pos_ok tbl c0 rest q /\ s_met q == bs_met (snd (active_go 0 c0 rest q))) ->
    Forall2 (fun q o => o == time_of init (c0 :: rest) q) qs os ->
    exists bcos bs, from_bcs init (c0 :: rest) = Some bcos /\ tm_beats tbl bcos os = Some bs
                    /\ Forall2 (fun q b => b == abs_beat q) qs bs.
  Proof.
    intros H0 Hm0 Hb0 Hs Hall Hq Hos.
    destruct (snaps_of_offsets tbl Hok init c0 rest qs os H0 Hm0 Hb0 Hs (fun q Hin => proj1 (Hq q Hin)) Hos)
      as [Hos' [bcos [ss [F1 [F2 F3]]]]].
    destruct (beats_on_grid tbl Hok M init c0 rest os H0 Hm0 Hb0 Hs Hall Hos') as [bcos' [ss' [bs [G1 [G2 [G3 [G4 _]]]]]]].
    assert (E: bcos' = bcos) by congruence. subst bcos'. assert (E: ss' = ss) by congruence. subst ss'.
    exists bcos, bs. split; [exact F1|]. split; [exact G3|].
    pose proof (forall2_compose _ _ _ _ _ F3 G4) as C.
    assert (Hc: Forall2 (fun q b => In q qs /\ exists s, (ssim s q /\ s_met s = bs_met (snd (active_go 0 c0 rest q))) /\ b == abs_beat s) qs bs).
    { clear - C. induction C as [|q b qs bs [s [A B]] _ IH]; constructor.
      - split; [left; reflexivity|exists s; split; assumption].
      - apply (forall2_impl_in _ _ _ _ IH). intros a b' _ [I1 I2]. split; [right; exact I1|exact I2]. }
    apply (forall2_impl_in _ _ _ _ Hc). intros q b _ [Hin [s [[[U1 U2] U3] Hb]]].
    destruct (Hq q Hin) as [_ Hmq]. rewrite Hb. unfold abs_beat. rewrite U1, U2, U3, Hmq. reflexivity.
  Qed.
End BeatsPositions.

(* ------------------------------------------------------------------ K. tempo changes handed over in any order *)
Definition Dk (l : list bco) : Prop := forall x y, In x l -> In y l -> bo_off x == bo_off y -> x = y.
Definition ble (a b : bco) : Prop := bo_off a <= bo_off b.

Lemma sort_sorted_bco l : StronglySorted ble (sort_by bco_lt l).
Proof.
  apply sort_sorted_gen; unfold bco_lt, ble.
  - intros x y H. apply Qlt_bool_iff in H. lra.
  - intros x y H. apply Qlt_bool_false in H. exact H.
  - intros x y z H1 H2. lra.
Qed.

Lemma sorted_perm_eq s1 : forall s2, StronglySorted ble s1 -> StronglySorted ble s2 -> Permutation s1 s2 -> Dk s1 -> s1 = s2.
Proof.
  induction s1 as [|x t1 IH]; intros s2 H1 H2 Hp HD.
  - apply Permutation_nil in Hp. subst. reflexivity.
  - destruct s2 as [|y t2]; [apply Permutation_sym, Permutation_nil in Hp; discriminate|].
    apply StronglySorted_inv in H1. destruct H1 as [H1 Hx]. rewrite Forall_forall in Hx.
    apply StronglySorted_inv in H2. destruct H2 as [H2 Hy]. rewrite Forall_forall in Hy.
    assert (Exy: x = y).
    { assert (Ix: In x (y :: t2)) by (apply (Permutation_in _ Hp); left; reflexivity).
      assert (Iy: In y (x :: t1)) by (apply (Permutation_in _ (Permutation_sym Hp)); left; reflexivity).
      destruct Ix as [E|Ix]; [symmetry; exact E|]. destruct Iy as [E|Iy]; [exact E|].
      pose proof (Hy x Ix) as L1. pose proof (Hx y Iy) as L2. unfold ble in L1, L2.
      apply HD; [left; reflexivity|right; exact Iy|lra]. }
    subst y. f_equal. apply Permutation_cons_inv in Hp. apply (IH t2 H1 H2 Hp).
    intros a b Ha Hb. apply HD; right; assumption.
Qed.

(* MAIN (any order): a permutation of tempo changes with pairwise distinct offsets is the same timing map *)
Theorem sort_any_order l l' : Permutation l' l -> Dk l -> sort_by bco_lt l' = sort_by bco_lt l.
Proof.
  intros Hp HD. apply sorted_perm_eq; try apply sort_sorted_bco.
  - eapply perm_trans; [apply Permutation_sym, sort_by_perm|]. eapply perm_trans; [exact Hp|apply sort_by_perm].
  - assert (P: Permutation (sort_by bco_lt l') l) by (eapply perm_trans; [apply Permutation_sym, sort_by_perm|exact Hp]).
    intros x y Hx Hy. apply HD; [apply (Permutation_in _ P Hx)|apply (Permutation_in _ P Hy)].
Qed.

Theorem tm_any_order tbl l l' : Permutation l' l -> Dk l ->
  (forall qs, tm_offsets tbl l' qs = tm_offsets tbl l qs)
  /\ (forall os, tm_snaps tbl l' os = tm_snaps tbl l os)
  /\ (forall os, tm_beats tbl l' os = tm_beats tbl l os).
Proof.
  intros Hp HD. pose proof (sort_any_order l l' Hp HD) as E.
  assert (Es: forall os, tm_snaps tbl l' os = tm_snaps tbl l os) by (intro os; unfold tm_snaps; rewrite E; reflexivity).
  split; [intro qs; unfold tm_offsets; rewrite E; reflexivity|]. split; [exact Es|].
  intro os. rewrite !tm_beats_unfold, Es. reflexivity.
Qed.

Lemma distinct_offsb_sound l : distinct_offsb l = true -> Dk l.
Proof.
  induction l as [|z l IH]; intro H; [intros x y []|]. cbn [distinct_offsb] in H. apply andb_true_iff in H. destruct H as [Hz Hl].
  rewrite forallb_forall in Hz.
  assert (Hne: forall y, In y l -> ~ bo_off z == bo_off y).
  { intros y Hy E. specialize (Hz y Hy). apply negb_true_iff in Hz. apply Qeq_bool_iff in E. congruence. }
  intros x y [<-|Hx] [<-|Hy] E; [reflexivity|exfalso; apply (Hne y Hy E)|exfalso; apply (Hne x Hx); symmetry; exact E|apply (IH Hl x y Hx Hy E)].
Qed.

Section AnyOrderScript.
  Variable tbl : list Q.

  Lemma linked_offs_lt rest : forall brest off p b, node_ok p -> script_ok tbl p rest -> linked off p rest brest ->
    In b brest -> off < bo_off b.
  Proof.
    induction rest as [|c rest IH]; intros brest off p b Hp Hs Hl Hin; destruct brest as [|b1 brest]; try (destruct Hl; fail); [destruct Hin|].
    destruct Hl as [_ [_ [Loff Ll]]]. destruct Hs as [[Hlt [Hc [Hcb _]]] Hs].
    destruct Hp as [[Hbpm [Hmet _]] [_ [_ [Hb1 _]]]]. pose proof Hc as [_ [_ [Hcb0 _]]].
    pose proof (beat_len_pos _ Hbpm). pose proof (seg_beats_pos (bs_met p) _ _ Hmet Hlt Hcb0 Hb1).
    assert (0 < beat_len (bs_bpm p) * seg_beats (bs_met p) (bs_snap p) (bs_snap c)) by (apply Qmult_lt_0_compat; assumption).
    destruct Hin as [<-|Hin]; [lra|]. pose proof (IH brest (bo_off b1) c b Hc Hs Ll Hin). lra.
  Qed.

  Lemma linked_Dk rest : forall brest P p, node_ok p -> script_ok tbl p rest -> linked (bo_off P) p rest brest -> Dk (P :: brest).
  Proof.
    induction rest as [|c rest IH]; intros brest P p Hp Hs Hl; destruct brest as [|b1 brest]; try (destruct Hl; fail).
    - intros x y [<-|[]] [<-|[]] _. reflexivity.
    - pose proof (linked_offs_lt (c :: rest) (b1 :: brest) (bo_off P) p) as Hlt.
      pose proof Hl as [_ [_ [_ Ll]]]. pose proof Hs as [[_ [Hc _]] Hs'].
      pose proof (IH brest b1 c Hc Hs' Ll) as HD.
      intros x y [<-|Hx] [<-|Hy] E; [reflexivity| | |apply (HD x y Hx Hy E)]; exfalso.
      + pose proof (Hlt y Hp Hs Hl Hy) as L. lra.
      + pose proof (Hlt x Hp Hs Hl Hx) as L. lra.
  Qed.
End AnyOrderScript.

(* ------------------------------------------------------------------ L. the checkable (boolean-domain) forms, as used in Props/C10.v *)
Section Bool2.
  Variable tbl : list Q.
  Hypothesis Hok : table_ok (1 # 96) tbl = true.

  Lemma domainb_nil_sound l : domainb tbl l [] = true ->
    exists c0 rest, l = c0 :: rest /\ node_ok c0 /\ s_m (bs_snap c0) = 0%Z /\ s_b (bs_snap c0) == 0 /\ script_ok tbl c0 rest.
  Proof.
    destruct l as [|c0 rest]; [discriminate|]. unfold domainb. intro H.
    do 4 (apply andb_true_iff in H; destruct H as [H ?]).
    exists c0, rest. split; [reflexivity|]. split; [apply node_okb_sound; exact H|]. split; [apply Z.eqb_eq; assumption|].
    split; [apply Qeq_bool_iff; assumption|apply script_okb_sound; assumption].
  Qed.

  Lemma forallb_Qle init os : forallb (Qle_bool init) os = true -> forall o, In o os -> init <= o.
  Proof. rewrite forallb_forall. intros H o Hin. apply Qle_bool_iff. apply H. exact Hin. Qed.

  Lemma time_on_gridb_sound init l o : time_on_gridb tbl init l o = true ->
    on_grid tbl ((o - fst (active_at_time init l o)) / beat_len (bs_bpm (snd (active_at_time init l o)))).
  Proof. apply on_gridb_sound. Qed.

  Lemma same_met_sound c0 rest : same_met (c0 :: rest) = true -> forall c, In c (c0 :: rest) -> bs_met c == bs_met c0.
  Proof.
    cbn [same_met]. rewrite forallb_forall. intros H c [<-|Hin]; [reflexivity|]. apply Qeq_bool_iff. apply H. exact Hin.
  Qed.

  (* ms -> position (TimingMap.snaps) and back (TimingMap.offsets) *)
  Theorem snaps_roundtrip_b init l os : dom_snapsb tbl init l os = true ->
    exists bcos ss ts, from_bcs init l = Some bcos
      /\ tm_snaps tbl bcos os = Some ss /\ tm_offsets tbl bcos ss = Some ts
      /\ Forall2 (fun o s => let c := snd (active_at_time init l o) in
                    192 * Qabs (time_of init l s - o) <= beat_len (bs_bpm c)
                    /\ (time_on_gridb tbl init l o = true -> time_of init l s == o)
                    /\ (0 <= s_m s)%Z /\ 0 <= s_b s /\ s_b s < bs_met c /\ s_met s = bs_met c) os ss
      /\ Forall2 (fun o t => 192 * Qabs (t - o) <= beat_len (bs_bpm (snd (active_at_time init l o)))
                             /\ (time_on_gridb tbl init l o = true -> t == o)) os ts.
  Proof.
    unfold dom_snapsb. intro H. apply andb_true_iff in H. destruct H as [Hd Ho].
    destruct (domainb_nil_sound l Hd) as [c0 [rest [-> [H0 [Hm0 [Hb0 Hs]]]]]]. pose proof (forallb_Qle init os Ho) as Hos.
    destruct (snaps_on_grid tbl Hok init c0 rest os H0 Hm0 Hb0 Hs Hos) as [bcos [ss [F1 [F2 [F3 _]]]]].
    destruct (ms_roundtrip tbl Hok init c0 rest os H0 Hm0 Hb0 Hs Hos) as [bcos' [ss' [ts [G1 [G2 [G3 G4]]]]]].
    assert (E: bcos' = bcos) by congruence. subst bcos'. assert (E: ss' = ss) by congruence. subst ss'.
    exists bcos, ss, ts. split; [exact F1|]. split; [exact F2|]. split; [exact G3|]. split.
    - apply (forall2_impl_in _ _ _ _ F3). intros o s _ [A1 [A2 [[A3 A4] [A5 A6]]]]. cbv zeta.
      split; [exact A1|]. split; [intro Hg; apply A2; apply time_on_gridb_sound; exact Hg|]. repeat split; assumption.
    - apply (forall2_impl_in _ _ _ _ G4). intros o t _ [A1 A2]. split; [exact A1|].
      intro Hg; apply A2; apply time_on_gridb_sound; exact Hg.
  Qed.

  (* cumulative beats (TimingMap.beats), constant metronome *)
  Theorem beats_b init l os : dom_beatsb tbl init l os = true ->
    exists bcos ss bs, from_bcs init l = Some bcos
      /\ tm_snaps tbl bcos os = Some ss /\ tm_beats tbl bcos os = Some bs
      /\ Forall2 (fun s b => b == abs_beat s) ss bs
      /\ Forall2 (fun o b => 192 * Qabs (b - beats_at init l o) <= 1
                             /\ (time_on_gridb tbl init l o = true -> b == beats_at init l o)) os bs
      /\ (forall o1 b1 o2 b2, In (o1, b1) (combine os bs) -> In (o2, b2) (combine os bs) ->
            time_on_gridb tbl init l o1 = true -> time_on_gridb tbl init l o2 = true ->
            b2 - b1 == beats_at init l o2 - beats_at init l o1)
      /\ (forall o1 b1 o2 b2, In (o1, b1) (combine os bs) -> In (o2, b2) (combine os bs) -> o1 <= o2 -> b1 <= b2).
  Proof.
    unfold dom_beatsb, dom_snapsb. intro H. apply andb_true_iff in H. destruct H as [H Hsm].
    apply andb_true_iff in H. destruct H as [Hd Ho].
    destruct (domainb_nil_sound l Hd) as [c0 [rest [-> [H0 [Hm0 [Hb0 Hs]]]]]]. pose proof (forallb_Qle init os Ho) as Hos.
    destruct (beats_on_grid tbl Hok (bs_met c0) init c0 rest os H0 Hm0 Hb0 Hs (same_met_sound c0 rest Hsm) Hos)
      as [bcos [ss [bs [G1 [G2 [G3 [G4 [G5 [G6 G7]]]]]]]]].
    exists bcos, ss, bs. split; [exact G1|]. split; [exact G2|]. split; [exact G3|]. split; [exact G4|]. split; [|split; [|exact G7]].
    - apply (forall2_impl_in _ _ _ _ G5). intros o b _ [A1 A2]. split; [exact A1|].
      intro Hg. apply A2. apply time_on_gridb_sound. exact Hg.
    - intros o1 b1 o2 b2 I1 I2 T1 T2. apply (G6 o1 b1 o2 b2 I1 I2); apply time_on_gridb_sound; assumption.
  Qed.

  Lemma times_close0_sound a b : times_close 0 a b = true -> Forall2 (fun x y => y == x) a b.
  Proof.
    revert b. induction a as [|x a IH]; intros [|y b] H; cbn [times_close] in H; try discriminate; constructor.
    - apply andb_true_iff in H. destruct H as [H _]. apply Qle_bool_iff in H. revert H. qabs_goal; lra.
    - apply IH. apply andb_true_iff in H. destruct H as [_ H]. exact H.
  Qed.

  Lemma dom_posb_sound init c0 rest qs os : dom_posb tbl 0 init (c0 :: rest) qs os = true ->
    s_m (bs_snap c0) = 0%Z -> s_b (bs_snap c0) == 0 ->
    (forall q, In q qs -> pos_ok tbl c0 rest q /\ s_met q == bs_met (snd (active_go 0 c0 rest q)))
    /\ Forall2 (fun q o => o == time_of init (c0 :: rest) q) qs os.
  Proof.
    unfold dom_posb. intros H Hm0 Hb0.
    apply andb_true_iff in H. destruct H as [H Htc]. apply andb_true_iff in H. destruct H as [H Hgr].
    apply andb_true_iff in H. destruct H as [_ Hwf]. split.
    - intros q Hin. rewrite forallb_forall in Hwf, Hgr. specialize (Hwf q Hin). specialize (Hgr q Hin).
      unfold wf_query, active_met in Hwf.
      apply andb_true_iff in Hwf. destruct Hwf as [Hwf W0]. apply andb_true_iff in Hwf. destruct Hwf as [Hwf W1].
      apply andb_true_iff in Hwf. destruct Hwf as [Hwf W2].
      apply Z.leb_le in Hwf. apply Qle_bool_iff in W2. apply Qlt_bool_iff in W1. apply Qeq_bool_iff in W0.
      unfold query_on_grid in Hgr. cbv zeta in Hgr. apply on_gridb_sound in Hgr.
      split; [|exact W0]. unfold pos_ok. cbv zeta. split; [|split; [split; assumption|exact Hgr]].
      unfold sle. rewrite Hm0, Hb0. destruct (Z.eq_dec 0 (s_m q)) as [E|N]; [right; split; assumption|left; lia].
    - apply times_close0_sound in Htc. clear - Htc. remember (map (time_of init (c0 :: rest)) qs) as ts eqn:E.
      revert qs E. induction Htc as [|x y ts os Hxy _ IH]; intros qs E; destruct qs as [|q qs]; try discriminate; constructor.
      + cbn [map] in E. injection E as -> _. exact Hxy.
      + apply IH. cbn [map] in E. injection E as _ ->. reflexivity.
  Qed.

  (* position -> ms -> position *)
  Theorem snaps_of_offsets_b init l qs os : dom_posb tbl 0 init l qs os = true ->
    exists bcos ss, from_bcs init l = Some bcos /\ tm_snaps tbl bcos os = Some ss
      /\ Forall2 (fun q s => s_m s = s_m q /\ s_b s == s_b q /\ s_met s == s_met q) qs ss.
  Proof.
    intro H. pose proof H as H'. unfold dom_posb in H'. do 3 (apply andb_true_iff in H'; destruct H' as [H' ?]).
    destruct (domainb_nil_sound l H') as [c0 [rest [-> [N0 [Hm0 [Hb0 Hs]]]]]].
    destruct (dom_posb_sound init c0 rest qs os H Hm0 Hb0) as [Hq Hos].
    destruct (snaps_of_offsets tbl Hok init c0 rest qs os N0 Hm0 Hb0 Hs (fun q Hin => proj1 (Hq q Hin)) Hos)
      as [_ [bcos [ss [F1 [F2 F3]]]]].
    exists bcos, ss. split; [exact F1|]. split; [exact F2|].
    assert (Hc: Forall2 (fun q s => In q qs /\ ssim s q /\ s_met s = bs_met (snd (active_go 0 c0 rest q))) qs ss).
    { clear - F3. induction F3 as [|q s qs ss A _ IH]; constructor; [split; [left; reflexivity|exact A]|].
      apply (forall2_impl_in _ _ _ _ IH). intros a b _ [I1 I2]. split; [right; exact I1|exact I2]. }
    apply (forall2_impl_in _ _ _ _ Hc). intros q s _ [Hin [[U1 U2] U3]]. split; [exact U1|]. split; [exact U2|].
    rewrite U3. symmetry. apply (proj2 (Hq q Hin)).
  Qed.

  (* cumulative beats of the times of on-grid positions *)
  Theorem beats_positions_b init l qs os : dom_beats_posb tbl 0 init l qs os = true ->
    exists bcos bs, from_bcs init l = Some bcos /\ tm_beats tbl bcos os = Some bs
                    /\ Forall2 (fun q b => b == abs_beat q) qs bs.
  Proof.
    unfold dom_beats_posb. intro H. apply andb_true_iff in H. destruct H as [H Hsm].
    pose proof H as H'. unfold dom_posb in H'. do 3 (apply andb_true_iff in H'; destruct H' as [H' ?]).
    destruct (domainb_nil_sound l H') as [c0 [rest [-> [N0 [Hm0 [Hb0 Hs]]]]]].
    destruct (dom_posb_sound init c0 rest qs os H Hm0 Hb0) as [Hq Hos].
    apply (beats_of_positions tbl Hok (bs_met c0) init c0 rest qs os N0 Hm0 Hb0 Hs (same_met_sound c0 rest Hsm) Hq Hos).
  Qed.

  (* tempo changes in any order: the map built from a script on the grid, with its millisecond changes permuted in
     any way, converts positions by the same integration *)
  Theorem any_order_on_grid_b init l qs : domainb tbl l qs = true ->
    exists bcos, from_bcs init l = Some bcos /\
      forall bcos', Permutation bcos' bcos ->
        exists res, tm_offsets tbl bcos' qs = Some res /\ Forall2 (fun q r => r == time_of init l q) qs res.
  Proof.
    intro H. destruct (offsets_on_grid_b tbl Hok init l qs H) as [bcos [res [F1 [F2 F3]]]].
    exists bcos. split; [exact F1|]. intros bcos' Hp. exists res. split; [|exact F3].
    destruct l as [|c0 rest]; [discriminate|]. unfold domainb in H. do 4 (apply andb_true_iff in H; destruct H as [H ?]).
    apply node_okb_sound in H. apply script_okb_sound in H1. apply Z.eqb_eq in H3. apply Qeq_bool_iff in H2.
    destruct (script_pairs tbl Hok init c0 rest H H3 H2 H1) as [brest [c0' [bcss' [E1 [_ [_ [_ [_ [E6 _]]]]]]]]]. cbv zeta in E1.
    assert (E: bcos = mkBco (bs_bpm c0) (bs_met c0) init :: brest) by congruence.
    assert (HD: Dk bcos) by (rewrite E; apply (linked_Dk tbl rest brest (mkBco (bs_bpm c0) (bs_met c0) init) c0 H H1 E6)).
    destruct (tm_any_order tbl bcos bcos' Hp HD) as [A _]. rewrite A. exact F2.
  Qed.

  (* ... and in general (no grid assumption): permuting tempo changes with pairwise distinct offsets changes nothing *)
  Theorem any_order_b bcos bcos' : Permutation bcos' bcos -> distinct_offsb bcos = true ->
    (forall qs, tm_offsets tbl bcos' qs = tm_offsets tbl bcos qs)
    /\ (forall os, tm_snaps tbl bcos' os = tm_snaps tbl bcos os)
    /\ (forall os, tm_beats tbl bcos' os = tm_beats tbl bcos os).
  Proof. intros Hp Hd. apply (tm_any_order tbl bcos bcos' Hp (distinct_offsb_sound bcos Hd)). Qed.
End Bool2.
