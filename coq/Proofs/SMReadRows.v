(* C02, note data: the rows the reader extracts from the note data of a chart token (split on ',', lines without "//",
   non-empty) are the rows the reference semantics extracts (comments removed, lines stripped, non-empty), measure by
   measure, on the dialect data_ok (whole-line comments without ',', rows without blanks). *)
From Coq Require Import String ZArith QArith List Bool Lia.
From RV Require Base.Text.
From RV Require Import Base.PyNum Timing.Snapper Timing.Snap Timing.TimingMap Timing.Reseat Timing.Integrate
  Formats.SMText Formats.SM Formats.SMSpec Formats.SMReadDom Proofs.SMTextFacts Proofs.SMReadPieces.
Import ListNotations.
Open Scope Z_scope.

Definition nonemptyb (l : text) : bool := match l with [] => false | _ => true end.
(* rows of a measure: the reader's and the reference's *)
Definition RR (m : text) : list text := measure_rows m.
Definition RD (m : text) : list text := filter nonemptyb (map strip (split_on 10 m)).

Lemma measure_rows_eq m : measure_rows m = filter (fun l => negb (contains (tx "//") l) && nonemptyb l) (split_on 10 m).
Proof. reflexivity. Qed.

Lemma nonws_strip l : existsb is_ws l = false -> strip l = l.
Proof.
  intro H. apply strip_clean. apply all_nonws_clean. intros c Hc. destruct (is_ws c) eqn:E; [|reflexivity].
  assert (existsb is_ws l = true) by (apply existsb_exists; exists c; auto). congruence.
Qed.

(* per line *)
Lemma line_sim l : line_ok l = true ->
  (negb (contains (tx "//") l) && nonemptyb l) = nonemptyb (strip (bs l))
  /\ (negb (contains (tx "//") l) && nonemptyb l = true -> strip (bs l) = l).
Proof.
  unfold line_ok. destruct (contains (tx "//") l) eqn:C; intro H.
  - destruct (lstrip_decomp l) as (w & E & W & _). destruct (starts_with_eq _ _ H) as [r Er].
    rewrite E, Er, bs_ws_comment by exact W. rewrite strip_allws by exact W. split; [reflexivity|discriminate].
  - apply negb_true_iff in H. rewrite bs_no_comment by exact C. rewrite nonws_strip by exact H. split; [reflexivity|auto].
Qed.

Lemma filter_map_sim {A} (f g : A -> bool) (h : A -> A) l :
  (forall x, In x l -> f x = g (h x) /\ (f x = true -> h x = x)) -> filter f l = filter g (map h l).
Proof.
  induction l as [|x l IH]; intro H; [reflexivity|]. cbn [filter map].
  destruct (H x (or_introl eq_refl)) as [E1 E2]. rewrite <- E1. rewrite IH by (intros y Hy; apply H; right; exact Hy).
  destruct (f x) eqn:F; [rewrite (E2 eq_refl)|]; reflexivity.
Qed.

Lemma rows_sim m : forallb line_ok (split_on 10 m) = true -> RR m = RD (sc false m).
Proof.
  intro H. unfold RR, RD. rewrite measure_rows_eq. rewrite <- strip_comments_sc, lines_strip_comments, map_map.
  apply filter_map_sim. intros l Hl. rewrite forallb_forall in H. exact (line_sim l (H l Hl)).
Qed.

(* the reference rows ignore surrounding blanks of the measure text *)
Lemma RD_ws_l w s : allws w -> RD (w ++ s) = RD s.
Proof.
  induction w as [|x w IH]; intro W; [reflexivity|]. unfold allws in W. cbn [forallb] in W. apply andb_true_iff in W. destruct W as [W1 W2].
  cbn [app]. unfold RD in *. destruct (x =? 10) eqn:E.
  - apply Z.eqb_eq in E. subst x. rewrite split_on_sep. cbn [map filter]. rewrite strip_allws by reflexivity. cbn [nonemptyb]. exact (IH W2).
  - rewrite (split_on_cons 10 x _ E). specialize (IH W2).
    destruct (split_on 10 (w ++ s)) as [|h t] eqn:S; [exfalso; exact (split_on_nonempty _ _ S)|].
    destruct (split_on 10 s) as [|h' t'] eqn:S'; [exfalso; exact (split_on_nonempty _ _ S')|].
    cbn [map filter] in IH |- *. change (x :: h) with ([x] ++ h). rewrite strip_ws_l; [exact IH|]. unfold allws. cbn [forallb]. rewrite W1. reflexivity.
Qed.

Lemma allws_pieces c w : allws w -> Forall allws (split_on c w).
Proof.
  intro W. apply Forall_forall. intros p Hp. unfold allws. apply forallb_forall. intros x Hx.
  assert (In x w).
  { rewrite <- (join_split c w). revert Hp Hx. generalize (split_on c w). induction l as [|a l IH]; intros Hp Hx; [destruct Hp|].
    destruct l as [|b l].
    - destruct Hp as [<-|[]]. exact Hx.
    - change (join [c] (a :: b :: l)) with (a ++ [c] ++ join [c] (b :: l)). apply in_or_app. destruct Hp as [<-|Hp]; [left; exact Hx|].
      right. apply in_or_app. right. exact (IH Hp Hx). }
  unfold allws in W. rewrite forallb_forall in W. apply W. exact H.
Qed.

Lemma RD_allws_lines B : Forall allws B -> filter nonemptyb (map strip B) = [].
Proof. induction 1 as [|b B Hb _ IH]; [reflexivity|]. cbn [map filter]. rewrite strip_allws by exact Hb. exact IH. Qed.

Lemma RD_ws_r s w : allws w -> RD (s ++ w) = RD s.
Proof.
  intro W. unfold RD. destruct (split_on 10 w) as [|hb B] eqn:Sw; [exfalso; exact (split_on_nonempty _ _ Sw)|].
  pose proof (allws_pieces 10 w W) as F. rewrite Sw in F. inversion F as [|? ? Fh FB]; subst.
  pose proof (split_on_last_decomp 10 s) as D. remember (removelast (split_on 10 s)) as A. remember (last (split_on 10 s) []) as la.
  rewrite (split_glue 10 s A la w hb B D Sw), D.
  rewrite !map_app, !filter_app. cbn [map filter]. rewrite strip_ws_r by exact Fh. rewrite (RD_allws_lines B FB). reflexivity.
Qed.

(* the reader's rows ignore trailing blanks of the measure text, when the lines are in the dialect *)
Lemma contains_slash_app_noslash la hb : ~ In 47 hb -> contains (tx "//") (la ++ hb) = contains (tx "//") la.
Proof.
  intro N. induction la as [|x la IH].
  - cbn [app]. rewrite (contains_absent (tx "//") hb 47); [reflexivity|left; reflexivity|exact N].
  - cbn [app]. change (contains (tx "//") (x :: la ++ hb)) with (starts_with (tx "//") (x :: la ++ hb) || contains (tx "//") (la ++ hb)).
    change (contains (tx "//") (x :: la)) with (starts_with (tx "//") (x :: la) || contains (tx "//") la).
    rewrite IH, !sw_slash. f_equal. f_equal. destruct la as [|y la]; [|reflexivity]. cbn [app].
    destruct hb as [|y hb]; [reflexivity|]. destruct (47 =? y) eqn:E; [|reflexivity]. apply Z.eqb_eq in E. subst y. exfalso. apply N. left. reflexivity.
Qed.

Lemma line_ok_allws l : allws l -> line_ok l = true -> l = [].
Proof.
  intros W H. unfold line_ok in H. rewrite (no_slash_no_comment l (allws_no_slash l W)) in H. apply negb_true_iff in H.
  destruct l as [|x l]; [reflexivity|]. unfold allws in W. cbn [forallb existsb] in *. apply andb_true_iff in W. destruct W as [W1 _].
  rewrite W1 in H. discriminate.
Qed.

Lemma RR_ws_r m w : allws w -> forallb line_ok (split_on 10 (m ++ w)) = true -> RR (m ++ w) = RR m.
Proof.
  intros W H. unfold RR. rewrite !measure_rows_eq.
  destruct (split_on 10 w) as [|hb B] eqn:Sw; [exfalso; exact (split_on_nonempty _ _ Sw)|].
  pose proof (allws_pieces 10 w W) as F. rewrite Sw in F. inversion F as [|? ? Fh FB]; subst.
  pose proof (split_on_last_decomp 10 m) as D. remember (removelast (split_on 10 m)) as A. remember (last (split_on 10 m) []) as la.
  rewrite (split_glue 10 m A la w hb B D Sw) in H |- *. rewrite D.
  rewrite forallb_app in H. apply andb_true_iff in H. destruct H as [_ H]. cbn [forallb] in H. apply andb_true_iff in H. destruct H as [H1 H2].
  rewrite !filter_app. f_equal. cbn [filter].
  assert (EB : filter (fun l => negb (contains (tx "//") l) && nonemptyb l) B = []).
  { clear -FB H2. induction B as [|b B IH]; [reflexivity|]. inversion FB as [|? ? Fb FB']; subst. cbn [forallb] in H2. apply andb_true_iff in H2. destruct H2 as [H2 H3].
    cbn [filter]. rewrite (line_ok_allws b Fb H2). cbn. apply IH; assumption. }
  rewrite EB.
  destruct (contains (tx "//") la) eqn:C.
  - rewrite contains_slash_app_noslash by (apply allws_no_slash; exact Fh). rewrite C. reflexivity.
  - assert (hb = []).
    { unfold line_ok in H1. rewrite contains_slash_app_noslash in H1 by (apply allws_no_slash; exact Fh). rewrite C in H1.
      apply negb_true_iff in H1. rewrite existsb_app in H1. apply orb_false_iff in H1. destruct H1 as [_ H1].
      destruct hb as [|y hb]; [reflexivity|]. unfold allws in Fh. cbn [forallb existsb] in *. apply andb_true_iff in Fh. destruct Fh as [Fh _].
      rewrite Fh in H1. discriminate. }
    subst hb. rewrite app_nil_r, C. reflexivity.
Qed.

(* ------------------------------------------------------------------ the data field of a chart token *)
(* l = the reader's note data (the token is stripped: c6 = l ++ blanks), sc false c6 stripped = the reference's *)
Theorem data_rows c6 l w2 : data_ok c6 = true -> c6 = l ++ w2 -> allws w2 ->
  map RR (split_on 44 l) = map RD (split_on 44 (strip (sc false c6))).
Proof.
  unfold data_ok. intros H E W. apply andb_true_iff in H. destruct H as [G H]. rewrite forallb_forall in H.
  rewrite (map_split_strip_gen RD 44 (sc false c6) eq_refl RD_ws_l RD_ws_r).
  rewrite (sc_split_false 44 c6 eq_refl eq_refl G), map_map.
  transitivity (map RR (split_on 44 c6)).
  - rewrite E. rewrite (split_ws_r 44 l w2 eq_refl W). rewrite (split_on_last_decomp 44 l) at 1.
    rewrite !map_app. f_equal. cbn [map]. f_equal. symmetry. apply RR_ws_r; [exact W|].
    apply H. rewrite E, (split_ws_r 44 l w2 eq_refl W). apply in_or_app. right. left. reflexivity.
  - apply map_ext_in. intros m Hm. apply rows_sim. apply H. exact Hm.
Qed.
