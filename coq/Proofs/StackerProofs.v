(* C12: the stacker's copy stays coherent with the lists, and an edit through the stack is the per-list edit. *)
From Coq Require Import ZArith QArith Qround List Bool Lia.
From RV Require Import Base.PyNum Frame.Frame Map.Stacker Map.StackerSpec.
Import ListNotations.
Open Scope Q_scope.

(* ---------- association rows ---------- *)
Lemma alookup_aset k c r k' : alookup k' (aset k c r) = if (k' =? k)%Z then c else alookup k' r.
Proof.
  induction r as [|[k0 v0] r IH]; cbn [aset alookup].
  - rewrite (Z.eqb_sym k k'). reflexivity.
  - destruct (k0 =? k)%Z eqn:E; cbn [alookup].
    + apply Z.eqb_eq in E. subst k0. rewrite (Z.eqb_sym k k'). destruct (k' =? k)%Z; reflexivity.
    + rewrite IH. destruct (k0 =? k')%Z eqn:E2; [|reflexivity].
      apply Z.eqb_eq in E2. subst k0. rewrite E. reflexivity.
Qed.

Definition notin (k : Z) (cols : list Z) : Prop := existsb (Z.eqb k) cols = false.

Lemma col_index_none k cols : notin k cols -> col_index k cols = None.
Proof.
  unfold notin. induction cols as [|x cols IH]; cbn [existsb col_index]; auto.
  intro H. apply orb_false_iff in H. destruct H as [H1 H2]. rewrite Z.eqb_sym in H1. rewrite H1, (IH H2). reflexivity.
Qed.

Lemma map_ext_in_notin {B} (f g : Z -> B) k cols :
  notin k cols -> (forall c, (c =? k)%Z = false -> f c = g c) -> map f cols = map g cols.
Proof.
  unfold notin. induction cols as [|x cols IH]; cbn [existsb map]; auto. intros H E.
  apply orb_false_iff in H. destruct H as [H1 H2]. rewrite Z.eqb_sym in H1. rewrite (E x H1), (IH H2 E). reflexivity.
Qed.

(* restriction after a write = positional write on the restriction *)
Lemma arestrict_aset cols k c r : nodupb cols = true ->
  arestrict cols (aset k c r) = row_set cols k c (arestrict cols r).
Proof.
  unfold arestrict, row_set. induction cols as [|x cols IH]; intros Hnd; cbn [map col_index]; auto.
  cbn [nodupb] in Hnd. apply andb_true_iff in Hnd. destruct Hnd as [Hx Hnd]. apply negb_true_iff in Hx.
  rewrite alookup_aset. destruct (x =? k)%Z eqn:E.
  - apply Z.eqb_eq in E. subst x. cbn [set_nth]. f_equal.
    apply map_ext_in_notin with (k := k); auto. intros c0 Hc. rewrite alookup_aset, Hc. reflexivity.
  - specialize (IH Hnd). destruct (col_index k cols) as [i|] eqn:Ei; cbn [option_map set_nth].
    + f_equal. exact IH.
    + f_equal. exact IH.
Qed.

Lemma row_get_restrict cols k r : existsb (Z.eqb k) cols = true -> row_get cols k (arestrict cols r) = alookup k r.
Proof.
  unfold row_get, get_cell, arestrict. induction cols as [|x cols IH]; cbn [existsb col_index map]; [discriminate|].
  intro H. rewrite (Z.eqb_sym k x) in H. destruct (x =? k)%Z eqn:E.
  - apply Z.eqb_eq in E. subst x. reflexivity.
  - cbn [orb] in H. specialize (IH H). destruct (col_index k cols) as [i|]; cbn [option_map nth_error] in *; exact IH.
Qed.

Lemma row_set_notin cols k c r : notin k cols -> row_set cols k c r = r.
Proof. intro H. unfold row_set. rewrite (col_index_none k cols H). reflexivity. Qed.

(* one stacked row vs one list row, for any new cell computed from the stacked value *)
Lemma restrict_write cols k (g : cell -> cell) r : nodupb cols = true ->
  arestrict cols (aset k (g (alookup k r)) r) = row_set cols k (g (row_get cols k (arestrict cols r))) (arestrict cols r).
Proof.
  intro Hnd. rewrite arestrict_aset by exact Hnd.
  destruct (existsb (Z.eqb k) cols) eqn:E.
  - rewrite row_get_restrict by exact E. reflexivity.
  - rewrite !row_set_notin by exact E. reflexivity.
Qed.

(* ---------- whole-column assignment ---------- *)
Lemma assign_rows_restrict cols k o rows vs d sc : nodupb cols = true ->
  map (arestrict cols) (assign_rows k o rows vs d sc) = list_assign cols k o (map (arestrict cols) rows) vs d sc.
Proof.
  intro Hnd. revert vs. induction rows as [|r rows IH]; intros vs; cbn [assign_rows list_assign map]; auto.
  rewrite IH. f_equal.
  apply (restrict_write cols k (fun c => cell_arith o c (if sc then d else hd d vs)) r Hnd).
Qed.

Lemma assign_rows_firstn n k o rows vs d sc :
  firstn n (assign_rows k o rows vs d sc) = assign_rows k o (firstn n rows) (firstn n vs) d sc.
Proof.
  revert rows vs. induction n as [|n IH]; intros rows vs; [reflexivity|].
  destruct rows as [|r rows]; [reflexivity|]. cbn [assign_rows firstn]. rewrite IH.
  destruct vs as [|v vs]; cbn [firstn hd tl]; [|reflexivity].
  destruct n; reflexivity.
Qed.

Lemma assign_rows_skipn n k o rows vs d sc :
  skipn n (assign_rows k o rows vs d sc) = assign_rows k o (skipn n rows) (skipn n vs) d sc.
Proof.
  revert rows vs. induction n as [|n IH]; intros rows vs; [reflexivity|].
  destruct rows as [|r rows]; cbn [assign_rows skipn]; [reflexivity|]. rewrite IH.
  destruct vs as [|v vs]; cbn [skipn tl]; [|reflexivity]. destruct n; reflexivity.
Qed.

(* ---------- conditional (loc) assignment ---------- *)
Lemma set_cols_restrict cols keys o v r : nodupb cols = true ->
  arestrict cols (set_cols keys o v r) = row_set_cols cols keys o v (arestrict cols r).
Proof.
  intro Hnd. revert r. induction keys as [|k keys IH]; intros r; cbn [set_cols row_set_cols]; auto.
  rewrite IH. f_equal. apply (restrict_write cols k (fun c => cell_arith o c v) r Hnd).
Qed.

Lemma loc_rows_restrict cols mask keys o v rows : nodupb cols = true ->
  map (arestrict cols) (loc_rows mask keys o v rows) = list_loc cols mask keys o v (map (arestrict cols) rows).
Proof.
  intro Hnd. revert mask. induction rows as [|r rows IH]; intros mask; [destruct mask; reflexivity|].
  destruct mask as [|b mask]; [reflexivity|].
  change (map (arestrict cols) ((if b then set_cols keys o v r else r) :: loc_rows mask keys o v rows)
          = (if b then row_set_cols cols keys o v (arestrict cols r) else arestrict cols r)
            :: list_loc cols mask keys o v (map (arestrict cols) rows)).
  cbn [map]. rewrite IH. f_equal.
  destruct b; auto. apply set_cols_restrict. exact Hnd.
Qed.

Lemma loc_rows_firstn n mask keys o v rows :
  firstn n (loc_rows mask keys o v rows) = loc_rows (firstn n mask) keys o v (firstn n rows).
Proof.
  revert mask rows. induction n as [|n IH]; intros mask rows; [destruct rows, mask; reflexivity|].
  destruct rows as [|r rows]; [destruct mask; reflexivity|]. destruct mask as [|b mask]; cbn [loc_rows firstn]; [reflexivity|].
  rewrite IH. reflexivity.
Qed.

Lemma loc_rows_nil_mask keys o v rows : loc_rows [] keys o v rows = rows.
Proof. destruct rows; reflexivity. Qed.
Lemma loc_rows_nil_rows mask keys o v : loc_rows mask keys o v [] = [].
Proof. destruct mask; reflexivity. Qed.

Lemma loc_rows_skipn n mask keys o v rows :
  skipn n (loc_rows mask keys o v rows) = loc_rows (skipn n mask) keys o v (skipn n rows).
Proof.
  revert mask rows. induction n as [|n IH]; intros mask rows; [reflexivity|].
  destruct rows as [|r rows]; [rewrite !loc_rows_nil_rows; reflexivity|].
  destruct mask as [|b mask].
  - change (skipn (S n) (r :: rows)) with (skipn n rows). change (skipn (S n) (@nil bool)) with (@nil bool).
    rewrite !loc_rows_nil_mask. reflexivity.
  - cbn [loc_rows skipn]. apply IH.
Qed.

(* ---------- coherence ---------- *)
(* the stacker's copy restricted to each list's columns IS that list *)
Definition coherentP (ls : list ulist) (rows : list arow) : Prop := unstack ls rows = ls.

Lemma arestrict_to_arow cols r : nodupb cols = true -> length r = length cols -> arestrict cols (to_arow cols r) = r.
Proof.
  unfold arestrict, to_arow. revert r. induction cols as [|x cols IH]; intros r Hnd Hl.
  - destruct r; [reflexivity|discriminate].
  - destruct r as [|c r]; [discriminate|]. cbn [combine map alookup]. rewrite Z.eqb_refl.
    cbn [nodupb] in Hnd. apply andb_true_iff in Hnd. destruct Hnd as [Hx Hnd]. apply negb_true_iff in Hx.
    f_equal. transitivity (map (fun c0 => alookup c0 (combine cols r)) cols).
    + apply map_ext_in_notin with (k := x); auto. intros c0 Hc. cbn [alookup]. rewrite Z.eqb_sym, Hc. reflexivity.
    + apply IH; [exact Hnd|simpl in Hl; lia].
Qed.

Lemma map_restrict_to_arow cols rows : nodupb cols = true -> (forall r, In r rows -> length r = length cols) ->
  map (fun r => arestrict cols (to_arow cols r)) rows = rows.
Proof.
  intros Hnd Hlen. induction rows as [|r rows IHr]; [reflexivity|]. cbn [map].
  rewrite arestrict_to_arow; [|exact Hnd|apply Hlen; left; reflexivity].
  f_equal. apply IHr. intros r' Hin. apply Hlen. right. exact Hin.
Qed.

Lemma wf_ulist_rows u : wf_ulist u = true ->
  nodupb (u_cols u) = true /\ forall r, In r (u_rows u) -> length r = length (u_cols u).
Proof.
  unfold wf_ulist. intro H. apply andb_true_iff in H. destruct H as [H1 H2]. split; auto.
  intros r Hin. rewrite forallb_forall in H2. specialize (H2 r Hin). apply Nat.eqb_eq in H2. exact H2.
Qed.

Lemma firstn_app_len {A} (a b : list A) : firstn (length a) (a ++ b) = a.
Proof. induction a; simpl; auto. rewrite IHa. reflexivity. Qed.
Lemma skipn_app_len {A} (a b : list A) : skipn (length a) (a ++ b) = b.
Proof. induction a; simpl; auto. Qed.

(* stack() of well-formed lists is coherent *)
Theorem stack_init_coherent ls : forallb wf_ulist ls = true -> coherentP ls (st_rows (stack_init ls)).
Proof.
  unfold coherentP, stack_init; cbn [st_rows]. induction ls as [|u ls IH]; intro Hwf; [reflexivity|].
  cbn [forallb] in Hwf. apply andb_true_iff in Hwf. destruct Hwf as [Hu Hwf].
  cbn [stack_rows flat_map unstack]. fold (stack_rows ls).
  assert (L: length (map (to_arow (u_cols u)) (u_rows u)) = length (u_rows u)) by apply map_length.
  rewrite <- L at 1 2. rewrite firstn_app_len, skipn_app_len. rewrite (IH Hwf). f_equal.
  destruct u as [cols rows]. cbn [u_cols u_rows] in *. f_equal.
  destruct (wf_ulist_rows _ Hu) as [Hnd Hlen]. cbn [u_cols u_rows] in *.
  rewrite map_map. apply map_restrict_to_arow; assumption.
Qed.

(* an edit through a coherent stack = the same assignment on each list separately *)
Theorem stack_step_refines ls rows op :
  forallb wf_ulist ls = true -> coherentP ls rows ->
  snd (stack_step ls (mkStacker (map (fun u => length (u_rows u)) ls) rows) op) = per_list op ls.
Proof.
  unfold coherentP, stack_step; cbn [snd st_rows]. revert rows op.
  induction ls as [|u ls IH]; intros rows op Hwf Hco; [destruct op as [k o [v|vs]|m cs o v]; reflexivity|].
  cbn [forallb] in Hwf. apply andb_true_iff in Hwf. destruct Hwf as [Hu Hwf].
  destruct (wf_ulist_rows _ Hu) as [Hnd _].
  cbn [unstack] in Hco. injection Hco as Hhead Htail.
  assert (Hrows: map (arestrict (u_cols u)) (firstn (length (u_rows u)) rows) = u_rows u).
  { destruct u as [cols urows]. cbn [u_cols u_rows] in *. injection Hhead as Hh. exact Hh. }
  destruct op as [k o [v|vs]|m cs o v]; cbn [stack_apply stack_assign stack_loc st_rows per_list unstack].
  - rewrite assign_rows_firstn, assign_rows_skipn, assign_rows_restrict by exact Hnd. rewrite Hrows. f_equal.
    + cbn [firstn]. destruct (length (u_rows u)); reflexivity.
    + specialize (IH (skipn (length (u_rows u)) rows) (SAssign k o (OScalar v)) Hwf Htail).
      cbn [stack_apply stack_assign st_rows] in IH. cbn [skipn]. 
      replace (skipn (length (u_rows u)) (@nil Q)) with (@nil Q) by (destruct (length (u_rows u)); reflexivity).
      exact IH.
  - rewrite assign_rows_firstn, assign_rows_skipn, assign_rows_restrict by exact Hnd. rewrite Hrows. f_equal.
    specialize (IH (skipn (length (u_rows u)) rows) (SAssign k o (OVector (skipn (length (u_rows u)) vs))) Hwf Htail).
    cbn [stack_apply stack_assign st_rows] in IH. exact IH.
  - rewrite loc_rows_firstn, loc_rows_skipn, loc_rows_restrict by exact Hnd. rewrite Hrows. f_equal.
    specialize (IH (skipn (length (u_rows u)) rows) (SLoc (skipn (length (u_rows u)) m) cs o v) Hwf Htail).
    cbn [stack_apply stack_loc st_rows] in IH. exact IH.
Qed.

(* frame conditions of the per-list assignment: lengths, columns (hence list shape) are untouched *)
Lemma list_assign_length cols k o rows vs d sc : length (list_assign cols k o rows vs d sc) = length rows.
Proof. revert vs. induction rows as [|r rows IH]; intros vs; cbn [list_assign length]; auto. Qed.
Lemma list_loc_length cols m ks o v rows : length (list_loc cols m ks o v rows) = length rows.
Proof. revert m. induction rows as [|r rows IH]; intros m; destruct m; cbn [list_loc length]; auto. Qed.

Theorem per_list_shape op ls :
  map u_cols (per_list op ls) = map u_cols ls /\
  map (fun u => length (u_rows u)) (per_list op ls) = map (fun u => length (u_rows u)) ls.
Proof.
  revert op. induction ls as [|u ls IH]; intros op; [destruct op as [k o [v|vs]|m cs o v]; split; reflexivity|].
  destruct op as [k o [v|vs]|m cs o v]; cbn [per_list map u_cols u_rows].
  - destruct (IH (SAssign k o (OScalar v))) as [A B]. rewrite A, B, list_assign_length. split; reflexivity.
  - destruct (IH (SAssign k o (OVector (skipn (length (u_rows u)) vs)))) as [A B]. rewrite A, B, list_assign_length. split; reflexivity.
  - destruct (IH (SLoc (skipn (length (u_rows u)) m) cs o v)) as [A B]. rewrite A, B, list_loc_length. split; reflexivity.
Qed.

(* a list that lacks the property is untouched *)
Lemma list_assign_notin cols k o rows vs d sc : notin k cols -> list_assign cols k o rows vs d sc = rows.
Proof.
  intro H. revert vs. induction rows as [|r rows IH]; intros vs; cbn [list_assign]; auto.
  rewrite row_set_notin by exact H. rewrite IH. reflexivity.
Qed.

(* unselected rows are untouched *)
Lemma list_loc_false cols keys o v rows m : forallb negb m = true -> list_loc cols m keys o v rows = rows.
Proof.
  revert m. induction rows as [|r rows IH]; intros m H; [destruct m; reflexivity|].
  destruct m as [|b m]; [reflexivity|]. cbn [forallb] in H. apply andb_true_iff in H. destruct H as [Hb H].
  destruct b; [discriminate|]. cbn [list_loc]. rewrite IH by exact H. reflexivity.
Qed.

(* coherence is preserved by an edit (the written-back lists agree with the stacker's new copy) *)
Lemma unstack_cols_lens ls rows :
  map u_cols (unstack ls rows) = map u_cols ls.
Proof. revert rows. induction ls as [|u ls IH]; intros rows; cbn [unstack map u_cols]; auto. rewrite IH. reflexivity. Qed.

Lemma unstack_idem ls rows :
  length rows = fold_right (fun u n => (length (u_rows u) + n)%nat) O ls ->
  unstack (unstack ls rows) rows = unstack ls rows.
Proof.
  revert rows. induction ls as [|u ls IH]; intros rows Hlen; [reflexivity|].
  cbn [fold_right] in Hlen. cbn [unstack u_cols u_rows]. rewrite map_length.
  assert (Hf: length (firstn (length (u_rows u)) rows) = length (u_rows u)) by (apply firstn_length_le; lia).
  rewrite Hf. f_equal. apply IH. rewrite skipn_length. lia.
Qed.

Lemma assign_rows_length k o rows vs d sc : length (assign_rows k o rows vs d sc) = length rows.
Proof. revert vs. induction rows as [|r rows IH]; intros vs; cbn [assign_rows length]; auto. Qed.
Lemma loc_rows_length m ks o v rows : length (loc_rows m ks o v rows) = length rows.
Proof. revert m. induction rows as [|r rows IH]; intros m; destruct m; cbn [loc_rows length]; auto. Qed.

Theorem coherence_preserved ls rows op :
  length rows = fold_right (fun u n => (length (u_rows u) + n)%nat) O ls ->
  let st' := stack_apply op (mkStacker (map (fun u => length (u_rows u)) ls) rows) in
  coherentP (unstack ls (st_rows st')) (st_rows st').
Proof.
  intros Hlen st'. unfold coherentP. apply unstack_idem.
  subst st'. destruct op as [k o [v|vs]|m cs o v]; cbn [stack_apply stack_assign stack_loc st_rows];
    rewrite ?assign_rows_length, ?loc_rows_length; exact Hlen.
Qed.
