(* C05, note section: the lines _write_notes assembles from a slot table hold, as objects of the format
   (objs_of_line of Formats/BMSSpec.v), exactly the rows of the table -- every row once, at its own measure, channel and
   measure fraction, nothing merged, nothing dropped (write_note_lines_objs). *)
From Coq Require Import ZArith QArith Qround Qabs List Bool Lia Lqa Sorting.Permutation Sorting.Sorted.
From RV Require Import Base.PyNum Timing.Snapper Timing.Snap Timing.TimingMap Timing.Integrate
  Formats.BMSText Formats.BMS Formats.BMSSpec Proofs.TimingProofs Proofs.BMSProofs.
Import ListNotations.
Open Scope Z_scope.

Local Arguments text_eqb : simpl never.

(* ================================================================ A. a filled line, read back ================================================================ *)
Lemma chunks2_concat (seq : list text) : Forall (fun t => length t = 2%nat) seq -> chunks2 (concat seq) = seq.
Proof.
  induction 1 as [|t seq Ht _ IH]; [reflexivity|]. destruct t as [|x [|y [|z r]]]; try discriminate.
  cbn [concat app chunks2]. rewrite IH. reflexivity.
Qed.

Definition obj_at (m : Z) (ch : text) (k : Z) (i : Z) (v : text) : sobj := mkObj m (Qred (inject_Z i / inject_Z k)) ch v.

Lemma objs_of_pairs_set_nth m ch k (v : text) : text_eqb v ID_NONE = false ->
  forall (l : list text) (j : nat) (i0 : Z), (j < length l)%nat -> nth j l ID_NONE = ID_NONE ->
  Permutation (objs_of_pairs m ch k i0 (set_nth j v l)) (obj_at m ch k (i0 + Z.of_nat j) v :: objs_of_pairs m ch k i0 l).
Proof.
  intros Hv. induction l as [|p l IH]; intros j i0 Hj Hn; [cbn in Hj; lia|].
  destruct j as [|j].
  - cbn [set_nth nth] in *. subst p. cbn [objs_of_pairs]. rewrite Hv, text_eqb_refl.
    replace (i0 + Z.of_nat 0) with i0 by lia. apply Permutation_refl.
  - cbn [set_nth nth length] in *. cbn [objs_of_pairs].
    specialize (IH j (i0 + 1) ltac:(lia) Hn). replace (i0 + 1 + Z.of_nat j) with (i0 + Z.of_nat (S j)) in IH by lia.
    destruct (text_eqb p ID_NONE); [exact IH|].
    eapply Permutation_trans; [apply perm_skip; exact IH|]. apply perm_swap.
Qed.

Lemma objs_of_pairs_blank m ch k : forall n i0, objs_of_pairs m ch k i0 (repeat ID_NONE n) = [].
Proof. induction n as [|n IH]; intro i0; [reflexivity|]. cbn [repeat objs_of_pairs]. rewrite text_eqb_refl. apply IH. Qed.

Definition slot_obj (s : wslot) : sobj := obj_at (ws_measure s) (ws_channel s) (ws_L s) (ws_slot s) (ws_value s).

(* filling distinct blank positions: the objects of the filled sequence are the rows put in, plus what was there *)
Lemma fill_slots_objs m ch k : forall (g : list wslot) (seq0 seq : list text),
  Forall (fun s => ws_measure s = m /\ ws_channel s = ch /\ ws_L s = k /\ text_eqb (ws_value s) ID_NONE = false) g ->
  NoDup (map ws_slot g) ->
  Forall (fun s => nth (Z.to_nat (ws_slot s)) seq0 ID_NONE = ID_NONE) g ->
  fill_slots seq0 g = Some seq ->
  Permutation (objs_of_pairs m ch k 0 seq) (map slot_obj g ++ objs_of_pairs m ch k 0 seq0).
Proof.
  induction g as [|r g IH]; intros seq0 seq Fk Nd Fb H.
  - cbn in H. inversion H; subst. apply Permutation_refl.
  - pose proof (fill_slots_in_range _ _ _ H) as Rg. cbn [fill_slots] in H.
    destruct ((ws_slot r <? 0) || (Z.of_nat (length seq0) <=? ws_slot r)); [discriminate|].
    inversion Fk as [|? ? [Em [Ec [El Ev]]] Fk']; subst. inversion Nd as [|? ? Nr Nd']; subst.
    inversion Fb as [|? ? Br Fb']; subst. inversion Rg as [|? ? Rr Rg']; subst.
    assert (Fb2 : Forall (fun s => nth (Z.to_nat (ws_slot s)) (set_nth (Z.to_nat (ws_slot r)) (ws_value r) seq0) ID_NONE = ID_NONE) g).
    { apply Forall_forall. intros s I. rewrite Forall_forall in Fb', Rg'. specialize (Fb' s I). specialize (Rg' s I).
      rewrite nth_set_nth_neq; [exact Fb'|]. intro E. apply Nr. apply in_map_iff. exists s. split; [|exact I].
      apply Z2Nat.inj in E; lia. }
    eapply Permutation_trans; [apply (IH _ _ Fk' Nd' Fb2 H)|].
    cbn [map app]. eapply Permutation_trans; [apply Permutation_app_head; apply (objs_of_pairs_set_nth _ _ _ _ Ev _ _ 0); [lia|exact Br]|].
    rewrite Z.add_0_l, Z2Nat.id by lia. unfold slot_obj at 2.
    apply Permutation_sym. apply Permutation_middle.
Qed.

Lemma channel_two (ch : text) : length ch = 2%nat -> exists a b, ch = [a; b].
Proof. destruct ch as [|a [|b [|c r]]]; try discriminate. intros _. exists a, b. reflexivity. Qed.

(* one group -> one line -> its objects *)
Lemma line_of_group_objs (g : list wslot) (r : wslot) (rest : list wslot) (line : text) :
  g = r :: rest -> 0 <= ws_measure r < 1000 -> length (ws_channel r) = 2%nat -> 0 < ws_L r ->
  Forall (fun s => ws_measure s = ws_measure r /\ ws_channel s = ws_channel r /\ ws_L s = ws_L r
                   /\ text_eqb (ws_value s) ID_NONE = false /\ length (ws_value s) = 2%nat) g ->
  NoDup (map ws_slot g) ->
  line_of_group g = Some line ->
  Permutation (objs_of_line line) (map slot_obj g).
Proof.
  intros Eg Hm Hc HL Fk Nd H. unfold line_of_group in H. rewrite Eg in H. rewrite <- Eg in H.
  destruct (fill_slots (repeat PAIR00 (Z.to_nat (ws_L r))) g) as [seq|] eqn:E; [|discriminate]. inversion H; subst line. clear H.
  destruct (channel_two _ Hc) as [a [b Ech]].
  pose proof (fill_slots_length _ _ _ E) as Len. rewrite repeat_length in Len.
  assert (F2 : Forall (fun t => length t = 2%nat) seq).
  { eapply (fill_slots_Forall (fun t => length t = 2%nat)); [| |exact E].
    - eapply Forall_impl; [|exact Fk]. intros s [_ [_ [_ [_ A]]]]. exact A.
    - apply Forall_forall. intros x Hx. apply repeat_spec in Hx. subst. reflexivity. }
  unfold objs_of_line. rewrite Ech.
  change (35 :: show3 (ws_measure r) ++ [a; b] ++ 58 :: concat seq)
    with ([35] ++ show3 (ws_measure r) ++ [a; b] ++ [58] ++ concat seq).
  rewrite (data_line_written _ a b (concat seq) Hm).
  rewrite (chunks2_concat seq F2). rewrite (concat_pairs_length seq F2), Len.
  assert (Hk : Z.of_nat (2 * Z.to_nat (ws_L r)) / 2 = ws_L r).
  { rewrite Nat2Z.inj_mul. change (Z.of_nat 2) with 2. rewrite Z.mul_comm, Z.div_mul by lia. lia. }
  rewrite Hk. rewrite <- Ech.
  eapply Permutation_trans; [apply (fill_slots_objs (ws_measure r) (ws_channel r) (ws_L r) g (repeat PAIR00 (Z.to_nat (ws_L r))) seq)|].
  - eapply Forall_impl; [|exact Fk]. intros s [A [B [C [D _]]]]. auto.
  - exact Nd.
  - pose proof (fill_slots_in_range _ _ _ E) as Rg. rewrite repeat_length in Rg.
    eapply Forall_impl; [|exact Rg]. intros s [R1 R2]. cbv beta. change PAIR00 with ID_NONE. apply nth_repeat.
  - exact E.
  - change PAIR00 with ID_NONE. rewrite objs_of_pairs_blank, app_nil_r. apply Permutation_refl.
Qed.

(* ================================================================ B. runs of equal key ================================================================ *)
Definition same_key (a b : wslot) : Prop := ws_measure a = ws_measure b /\ ws_channel a = ws_channel b /\ ws_L a = ws_L b.
Lemma slot_key_eq_iff a b : slot_key_eq a b = true <-> same_key a b.
Proof.
  unfold slot_key_eq, same_key. rewrite !andb_true_iff, !Z.eqb_eq. split.
  - intros [[A B] C]. apply text_eqb_eq in B. auto.
  - intros [A [B C]]. rewrite B. repeat split; auto. apply text_eqb_refl.
Qed.
Lemma same_key_trans a b c : same_key a b -> same_key b c -> same_key a c.
Proof. unfold same_key. intros [A [B C]] [D [E F]]. repeat split; congruence. Qed.
Lemma same_key_sym a b : same_key a b -> same_key b a.
Proof. unfold same_key. intros [A [B C]]. repeat split; congruence. Qed.

Lemma group_runs_concat : forall l cur, concat (group_runs l cur) = rev cur ++ l.
Proof.
  induction l as [|r l IH]; intro cur; cbn [group_runs].
  - destruct cur; [reflexivity|]. cbn [concat]. rewrite !app_nil_r. reflexivity.
  - destruct cur as [|c cur'].
    + rewrite IH. reflexivity.
    + destruct (slot_key_eq c r).
      * rewrite IH. cbn [rev]. rewrite <- app_assoc. reflexivity.
      * cbn [concat]. rewrite IH. reflexivity.
Qed.

Definition run_ok (g : list wslot) : Prop := exists r rest, g = r :: rest /\ Forall (same_key r) g.

Lemma run_of_rev k cur : cur <> [] -> Forall (same_key k) cur -> run_ok (rev cur).
Proof.
  intros Ne F. assert (F' : Forall (same_key k) (rev cur)) by (apply Forall_rev; exact F).
  destruct (rev cur) as [|r rest] eqn:E.
  - exfalso. apply Ne. apply (f_equal (@rev _)) in E. rewrite rev_involutive in E. exact E.
  - exists r, rest. split; [reflexivity|]. inversion F' as [|? ? Kr _]; subst.
    eapply Forall_impl; [|exact F']. intros x Kx. eapply same_key_trans; [apply same_key_sym; exact Kr|exact Kx].
Qed.

Lemma group_runs_ok : forall l cur k, Forall (same_key k) cur -> Forall run_ok (group_runs l cur).
Proof.
  induction l as [|r l IH]; intros cur k F; cbn [group_runs].
  - destruct cur as [|c cur']; [constructor|]. constructor; [|constructor]. apply (run_of_rev k); [discriminate|exact F].
  - destruct cur as [|c cur'].
    + apply (IH [r] r). constructor; [repeat split|constructor].
    + destruct (slot_key_eq c r) eqn:E.
      * apply (IH _ k). constructor; [|exact F]. inversion F; subst. apply slot_key_eq_iff in E. eapply same_key_trans; eassumption.
      * constructor; [apply (run_of_rev k); [discriminate|exact F]|]. apply (IH [r] r). constructor; [repeat split|constructor].
Qed.

(* ================================================================ C. the note section as a whole ================================================================ *)
Definition slot_wf (s : wslot) : Prop :=
  0 <= ws_measure s < 1000 /\ length (ws_channel s) = 2%nat /\ 0 <= ws_slot s < ws_L s
  /\ text_eqb (ws_value s) ID_NONE = false /\ length (ws_value s) = 2%nat.
(* identity of a written object: measure, channel, measure fraction (reduced) *)
Definition slot_key (s : wslot) : Z * text * Q := (ws_measure s, ws_channel s, Qred (inject_Z (ws_slot s) / inject_Z (ws_L s))).

Lemma fill_slots_some : forall (g : list wslot) seq, Forall (fun s => 0 <= ws_slot s < Z.of_nat (length seq)) g ->
  exists out, fill_slots seq g = Some out.
Proof.
  induction g as [|r g IH]; intros seq F; [eexists; reflexivity|]. inversion F as [|? ? [R1 R2] F']; subst. cbn [fill_slots].
  assert ((ws_slot r <? 0) = false) as -> by (apply Z.ltb_ge; exact R1).
  assert ((Z.of_nat (length seq) <=? ws_slot r) = false) as -> by (apply Z.leb_gt; exact R2). cbn [orb].
  apply IH. rewrite set_nth_length. exact F'.
Qed.

Lemma NoDup_map_weaker {A B C} (f : A -> B) (h : A -> C) (l : list A) :
  (forall x y, In x l -> In y l -> h x = h y -> f x = f y) -> NoDup (map f l) -> NoDup (map h l).
Proof.
  induction l as [|a l IH]; intros Hi N; [constructor|]. cbn [map] in *. inversion N as [|? ? Na N']; subst.
  constructor.
  - intro I. apply in_map_iff in I. destruct I as [y [Ey Iy]]. apply Na. apply in_map_iff. exists y. split; [|exact Iy].
    symmetry. apply Hi; [left; reflexivity|right; exact Iy|symmetry; exact Ey].
  - apply IH; [|exact N']. intros x y Ix Iy. apply Hi; right; assumption.
Qed.

Lemma all_some'_some {A B} (f : A -> option B) (P : A -> Prop) : (forall a, P a -> exists b, f a = Some b) ->
  forall l, Forall P l -> exists out, all_some' (map f l) = Some out /\ Forall2 (fun a b => f a = Some b) l out.
Proof.
  intros H. induction 1 as [|a l Pa _ IH]; [exists []; split; [reflexivity|constructor]|].
  destruct (H a Pa) as [b Eb]. destruct IH as [out [Eo Fo]]. exists (b :: out). cbn [map all_some']. rewrite Eb, Eo.
  split; [reflexivity|constructor; assumption].
Qed.

Lemma NoDup_app_parts {A} (a b : list A) : NoDup (a ++ b) -> NoDup a /\ NoDup b.
Proof.
  induction a as [|x a IH]; cbn [app]; intro N; [split; [constructor|exact N]|].
  inversion N as [|? ? Nx N']; subst. destruct (IH N') as [Na Nb]. split; [|exact Nb].
  constructor; [|exact Na]. intro I. apply Nx. apply in_or_app. left; exact I.
Qed.
Lemma NoDup_concat_part {A} (gs : list (list A)) : NoDup (concat gs) -> Forall (@NoDup A) gs.
Proof.
  induction gs as [|g gs IH]; intro N; [constructor|]. cbn [concat] in N. destruct (NoDup_app_parts _ _ N) as [N1 N2].
  constructor; [exact N1|apply IH; exact N2].
Qed.

Lemma concat_map_map {A B} (f : A -> B) (gs : list (list A)) : concat (map (map f) gs) = map f (concat gs).
Proof. symmetry. apply concat_map. Qed.

Theorem lines_of_slots_objs (slots : list wslot) :
  Forall slot_wf slots -> NoDup (map slot_key slots) ->
  exists ls, lines_of_slots slots = Some ls
             /\ Permutation (flat_map objs_of_line ls) (map slot_obj slots)
             /\ Forall (fun l => exists m ch data, data_line l = Some (m, ch, data)) ls.
Proof.
  intros Fw Nd. unfold lines_of_slots.
  set (sorted := sort_by slot_key_lt slots).
  assert (Ps : Permutation slots sorted) by apply sort_by_perm.
  assert (Fws : Forall slot_wf sorted).
  { apply Forall_forall. intros s I. rewrite Forall_forall in Fw. apply Fw. eapply Permutation_in; [apply Permutation_sym; exact Ps|exact I]. }
  assert (Nds : NoDup (map slot_key sorted)) by (eapply Permutation_NoDup; [apply Permutation_map; exact Ps|exact Nd]).
  set (groups := group_runs sorted []).
  assert (Ec : concat groups = sorted) by (unfold groups; rewrite group_runs_concat; reflexivity).
  assert (Fr : Forall run_ok groups) by (unfold groups; apply (group_runs_ok sorted [] (mkSlot 0 [] 0 0 [])); constructor).
  assert (Fg : Forall (fun g => Forall slot_wf g /\ NoDup (map slot_key g)) groups).
  { apply Forall_forall. intros g Ig. split.
    - apply Forall_forall. intros s Is. rewrite Forall_forall in Fws. apply Fws. rewrite <- Ec. apply in_concat. exists g. auto.
    - assert (N2 : NoDup (concat (map (map slot_key) groups))) by (rewrite concat_map_map, Ec; exact Nds).
      apply NoDup_concat_part in N2. rewrite Forall_forall in N2. apply N2. apply in_map. exact Ig. }
  (* every group gives a line holding exactly its rows *)
  assert (Hg : forall g, run_ok g /\ Forall slot_wf g /\ NoDup (map slot_key g) ->
               exists line, line_of_group g = Some line).
  { intros g [[r [rest [Eg Fk]]] [Fwg _]]. unfold line_of_group. rewrite Eg. rewrite <- Eg.
    destruct (fill_slots_some g (repeat PAIR00 (Z.to_nat (ws_L r)))) as [out Eo].
    - rewrite repeat_length. apply Forall_forall. intros s Is. rewrite Forall_forall in Fwg, Fk.
      destruct (Fwg s Is) as [_ [_ [Rs _]]]. destruct (Fk s Is) as [_ [_ EL]]. rewrite EL. lia.
    - rewrite Eo. eexists. reflexivity. }
  destruct (all_some'_some line_of_group (fun g => run_ok g /\ Forall slot_wf g /\ NoDup (map slot_key g)) Hg groups) as [ls [El F2]].
  { apply Forall_forall. intros g Ig. rewrite Forall_forall in Fr, Fg. split; [apply Fr; exact Ig|apply Fg; exact Ig]. }
  exists ls. split; [exact El|].
  assert (Hl : forall g line, In g groups -> line_of_group g = Some line ->
               Permutation (objs_of_line line) (map slot_obj g) /\ exists m ch data, data_line line = Some (m, ch, data)).
  { intros g line Ig Eline. rewrite Forall_forall in Fr, Fg. destruct (Fr g Ig) as [r [rest [Eg Fk]]]. destruct (Fg g Ig) as [Fwg Ng].
    assert (Ir : In r g) by (rewrite Eg; left; reflexivity).
    rewrite Forall_forall in Fwg. destruct (Fwg r Ir) as [Hm [Hc [Hs _]]].
    assert (Fk' : Forall (fun s => ws_measure s = ws_measure r /\ ws_channel s = ws_channel r /\ ws_L s = ws_L r
                                  /\ text_eqb (ws_value s) ID_NONE = false /\ length (ws_value s) = 2%nat) g).
    { apply Forall_forall. intros s Is. rewrite Forall_forall in Fk. destruct (Fk s Is) as [A [B C]].
      destruct (Fwg s Is) as [_ [_ [_ [D E]]]]. repeat split; auto. }
    assert (Nslot : NoDup (map ws_slot g)).
    { apply (NoDup_map_weaker slot_key ws_slot g); [|exact Ng]. intros x y Ix Iy Exy. rewrite Forall_forall in Fk.
      destruct (Fk x Ix) as [A1 [B1 C1]]. destruct (Fk y Iy) as [A2 [B2 C2]]. unfold slot_key. rewrite <- A1, <- A2, <- B1, <- B2, <- C1, <- C2, Exy. reflexivity. }
    split.
    - apply (line_of_group_objs g r rest line Eg Hm Hc ltac:(lia) Fk' Nslot Eline).
    - unfold line_of_group in Eline. rewrite Eg in Eline. rewrite <- Eg in Eline.
      destruct (fill_slots _ g) as [seq|]; [|discriminate]. inversion Eline; subst line.
      destruct (channel_two _ Hc) as [a [b Ech]]. rewrite Ech. eexists _, _, _. apply (data_line_written _ a b _ Hm). }
  split.
  - rewrite <- (Permutation_map slot_obj (Permutation_sym Ps)). fold sorted. rewrite <- Ec.
    clear - F2 Hl. assert (Hl' : forall g line, In g groups -> line_of_group g = Some line -> Permutation (objs_of_line line) (map slot_obj g))
      by (intros g line I E; apply (Hl g line I E)). clear Hl.
    induction F2 as [|g line gs ls' Eg _ IH]; [apply Permutation_refl|].
    cbn [flat_map concat]. rewrite map_app. apply Permutation_app.
    + apply Hl'; [left; reflexivity|exact Eg].
    + apply IH. intros g' line' I E. apply Hl'; [right; exact I|exact E].
  - clear - F2 Hl. induction F2 as [|g line gs ls' Eg _ IH]; [constructor|]. constructor.
    + apply (Hl g line); [left; reflexivity|exact Eg].
    + apply IH. intros g' line' I E. apply Hl; [right; exact I|exact E].
Qed.

(* ================================================================ D. from the row table ================================================================ *)
Definition row_wf (r : wrow) : Prop :=
  0 <= wr_measure r < 1000 /\ length (wr_channel r) = 2%nat /\ 0 < wr_den r /\ 0 <= wr_num r < wr_den r
  /\ text_eqb (wr_value r) ID_NONE = false /\ length (wr_value r) = 2%nat.
Definition row_pos (r : wrow) : Q := Qred (inject_Z (wr_num r) / inject_Z (wr_den r)).
Definition row_key (r : wrow) : Z * text * Q := (wr_measure r, wr_channel r, row_pos r).
Definition row_obj (r : wrow) : sobj := mkObj (wr_measure r) (row_pos r) (wr_channel r) (wr_value r).

Lemma forall2_map_eq {A B C} (f : A -> C) (g : B -> C) l r : Forall2 (fun a b => f a = g b) l r -> map f l = map g r.
Proof. induction 1; cbn; [reflexivity|]. f_equal; assumption. Qed.

Lemma forall2_mono {A B} (P Q : A -> B -> Prop) l r : (forall a b, P a b -> Q a b) -> Forall2 P l r -> Forall2 Q l r.
Proof. intros H. induction 1; constructor; auto. Qed.

Theorem write_note_lines_objs (rows : list wrow) :
  Forall row_wf rows -> NoDup (map row_key rows) ->
  exists ls, write_note_lines rows = Some ls
             /\ Permutation (flat_map objs_of_line ls) (map row_obj rows)
             /\ Forall (fun l => exists m ch data, data_line l = Some (m, ch, data)) ls.
Proof.
  intros Fw Nd. rewrite write_note_lines_unfold.
  set (slots := map (fun p => slot_of (fst p) (snd p)) (combine rows (new_dens LCM_THRESHOLD rows))).
  assert (Rel : Forall2 slot_rel rows slots).
  { apply write_slots_positions. eapply Forall_impl; [|exact Fw]. intros r [_ [_ [A [B _]]]]. auto. }
  assert (Rel2 : Forall2 (fun r s => row_wf r /\ slot_rel r s) rows slots).
  { clear - Rel Fw. induction Rel; [constructor|]. inversion Fw; subst. constructor; auto. }
  assert (Ek : map row_key rows = map slot_key slots).
  { apply forall2_map_eq. eapply forall2_mono; [|exact Rel]. intros r s [M [C [_ [_ E]]]]. unfold row_key, slot_key, row_pos.
    rewrite M, C. f_equal. apply Qred_complete. symmetry. exact E. }
  assert (Eo : map row_obj rows = map slot_obj slots).
  { apply forall2_map_eq. eapply forall2_mono; [|exact Rel]. intros r s [M [C [V [_ E]]]]. unfold row_obj, slot_obj, obj_at, row_pos.
    rewrite M, C, V. f_equal. apply Qred_complete. symmetry. exact E. }
  rewrite Ek in Nd. rewrite Eo. apply lines_of_slots_objs; [|exact Nd].
  clear - Rel2. induction Rel2 as [|r s rows slots [W [M [C [V [R _]]]]] _ IH]; [constructor|]. constructor; [|exact IH].
  destruct W as [Wm [Wc [_ [_ [Wv Wl]]]]]. unfold slot_wf. rewrite M, C, V. auto.
Qed.
