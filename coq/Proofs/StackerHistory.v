(* C12, every history: ONE stacker, any number of edits through it; after each edit the lists are exactly what the
   same edits applied to each list separately give.  (The single-step theorems of StackerProofs lifted by the
   invariant "the stacker's copy is coherent with the lists, the lists are well formed, the copy has one row per list row".) *)
From Coq Require Import ZArith QArith Qround List Bool Lia.
From RV Require Import Base.PyNum Frame.Frame Map.Stacker Map.StackerSpec Proofs.StackerProofs.
Import ListNotations.
Open Scope Q_scope.

Definition ulen (u : ulist) : nat := length (u_rows u).
Definition total (ls : list ulist) : nat := fold_right (fun u n => (length (u_rows u) + n)%nat) O ls.

(* Stacker object over a map: the copy `rows` persists across edits; every edit writes back into the lists *)
Fixpoint run_stack (ls : list ulist) (rows : list arow) (ops : list sop) : list ulist * list arow :=
  match ops with
  | [] => (ls, rows)
  | op :: ops' =>
      let st' := stack_apply op (mkStacker (map (fun u => length (u_rows u)) ls) rows) in
      run_stack (unstack ls (st_rows st')) (st_rows st') ops'
  end.

Definition per_list_all (ops : list sop) (ls : list ulist) : list ulist :=
  fold_left (fun l op => per_list op l) ops ls.

Lemma set_nth_len {A} (i : nat) (x : A) (l : list A) : length (set_nth i x l) = length l.
Proof. revert i. induction l as [|y l IH]; intros [|i]; cbn [set_nth length]; auto. Qed.

Lemma row_set_len cols k c r : length (row_set cols k c r) = length r.
Proof. unfold row_set. destruct (col_index k cols); [apply set_nth_len|reflexivity]. Qed.

Lemma row_set_cols_len cols keys o v r : length (row_set_cols cols keys o v r) = length r.
Proof. revert r. induction keys as [|k keys IH]; intros r; cbn [row_set_cols]; [reflexivity|]. rewrite IH. apply row_set_len. Qed.

Lemma list_assign_widths cols k o rows vs d sc n :
  forallb (fun r => Nat.eqb (length r) n) rows = true ->
  forallb (fun r => Nat.eqb (length r) n) (list_assign cols k o rows vs d sc) = true.
Proof.
  revert vs. induction rows as [|r rows IH]; intros vs H; cbn [list_assign forallb] in *; [reflexivity|].
  apply andb_true_iff in H. destruct H as [Hr H]. rewrite row_set_len, Hr. cbn [andb]. apply IH. exact H.
Qed.

Lemma list_loc_widths cols m ks o v rows n :
  forallb (fun r => Nat.eqb (length r) n) rows = true ->
  forallb (fun r => Nat.eqb (length r) n) (list_loc cols m ks o v rows) = true.
Proof.
  revert m. induction rows as [|r rows IH]; intros m H; [destruct m; exact H|].
  destruct m as [|b m]; [exact H|]. cbn [list_loc forallb] in *.
  apply andb_true_iff in H. destruct H as [Hr H]. apply andb_true_iff. split; [|apply IH; exact H].
  destruct b; [rewrite row_set_cols_len|]; exact Hr.
Qed.

(* well-formedness is kept by the per-list assignment *)
Lemma per_list_wf op ls : forallb wf_ulist ls = true -> forallb wf_ulist (per_list op ls) = true.
Proof.
  revert op. induction ls as [|u ls IH]; intros op H; [destruct op as [k o [v|vs]|m cs o v]; reflexivity|].
  cbn [forallb] in H. apply andb_true_iff in H. destruct H as [Hu H].
  unfold wf_ulist in Hu. apply andb_true_iff in Hu. destruct Hu as [Hnd Hw].
  destruct op as [k o [v|vs]|m cs o v]; cbn [per_list forallb]; apply andb_true_iff; split;
    try (apply IH; exact H); unfold wf_ulist; cbn [u_cols u_rows]; rewrite Hnd; cbn [andb].
  - apply list_assign_widths; exact Hw.
  - apply list_assign_widths; exact Hw.
  - apply list_loc_widths; exact Hw.
Qed.

Lemma total_of_lens a b :
  map (fun u => length (u_rows u)) a = map (fun u => length (u_rows u)) b -> total a = total b.
Proof.
  revert b. induction a as [|x a IH]; intros [|y b] H; cbn [map] in H; try discriminate; [reflexivity|].
  injection H as H1 H2. unfold total in *. cbn [fold_right]. rewrite H1, (IH b H2). reflexivity.
Qed.

Lemma stack_apply_rows_length op lens rows :
  length (st_rows (stack_apply op (mkStacker lens rows))) = length rows.
Proof.
  destruct op as [k o [v|vs]|m cs o v]; cbn [stack_apply stack_assign stack_loc st_rows];
    rewrite ?assign_rows_length, ?loc_rows_length; reflexivity.
Qed.

Lemma stack_rows_length ls : length (stack_rows ls) = total ls.
Proof.
  induction ls as [|u ls IH]; [reflexivity|]. unfold stack_rows, total in *. cbn [flat_map fold_right].
  rewrite app_length, map_length, IH. reflexivity.
Qed.

(* the invariant carried along a history *)
Definition stack_inv (ls : list ulist) (rows : list arow) : Prop :=
  forallb wf_ulist ls = true /\ coherentP ls rows /\ length rows = total ls.

Lemma stack_inv_init ls : forallb wf_ulist ls = true -> stack_inv ls (stack_rows ls).
Proof.
  intro H. split; [exact H|]. split; [exact (stack_init_coherent ls H)|apply stack_rows_length].
Qed.

Lemma stack_inv_step ls rows op :
  stack_inv ls rows ->
  let st' := stack_apply op (mkStacker (map (fun u => length (u_rows u)) ls) rows) in
  unstack ls (st_rows st') = per_list op ls /\ stack_inv (per_list op ls) (st_rows st').
Proof.
  intros [Hwf [Hco Hlen]] st'.
  assert (E : unstack ls (st_rows st') = per_list op ls).
  { pose proof (stack_step_refines ls rows op Hwf Hco) as R. unfold stack_step in R. cbn [snd] in R. exact R. }
  split; [exact E|]. split; [apply per_list_wf; exact Hwf|]. split.
  - rewrite <- E. apply (coherence_preserved ls rows op). exact Hlen.
  - subst st'. rewrite stack_apply_rows_length, Hlen. apply total_of_lens.
    symmetry. exact (proj2 (per_list_shape op ls)).
Qed.

Theorem run_stack_refines ops : forall ls rows,
  stack_inv ls rows ->
  fst (run_stack ls rows ops) = per_list_all ops ls /\ stack_inv (fst (run_stack ls rows ops)) (snd (run_stack ls rows ops)).
Proof.
  induction ops as [|op ops IH]; intros ls rows Hinv; cbn [run_stack per_list_all fold_left fst snd]; [split; [reflexivity|exact Hinv]|].
  destruct (stack_inv_step ls rows op Hinv) as [E Hinv'].
  rewrite E. apply IH. exact Hinv'.
Qed.

(* from stack(): any well-formed lists, any sequence of edits through the one stacker *)
Theorem stack_history ls ops :
  forallb wf_ulist ls = true ->
  fst (run_stack ls (st_rows (stack_init ls)) ops) = per_list_all ops ls.
Proof.
  intro H. exact (proj1 (run_stack_refines ops ls (stack_rows ls) (stack_inv_init ls H))).
Qed.

(* ... and at every point of the history the stacker's copy still agrees with the lists *)
Theorem stack_history_coherent ls ops :
  forallb wf_ulist ls = true ->
  coherentP (fst (run_stack ls (st_rows (stack_init ls)) ops)) (snd (run_stack ls (st_rows (stack_init ls)) ops)).
Proof.
  intro H. exact (proj1 (proj2 (proj2 (run_stack_refines ops ls (stack_rows ls) (stack_inv_init ls H))))).
Qed.

(* shape of every list after any history *)
Theorem per_list_all_shape ops : forall ls,
  map u_cols (per_list_all ops ls) = map u_cols ls /\
  map (fun u => length (u_rows u)) (per_list_all ops ls) = map (fun u => length (u_rows u)) ls.
Proof.
  induction ops as [|op ops IH]; intros ls; cbn [per_list_all fold_left]; [split; reflexivity|].
  destruct (IH (per_list op ls)) as [A B]. destruct (per_list_shape op ls) as [C D].
  unfold per_list_all in *. rewrite A, B, C, D. split; reflexivity.
Qed.

(* a stale SECOND stacker (taken before the edits of the first) writing back is NOT coherent in general:
   it restores its own copy of the columns it writes.  Witness: two stackers over one list, the first doubles,
   the second (created before) adds 1 to its old copy. *)
Example second_stacker_is_stale :
  let hits := mkUlist [0]%Z [[CNum 10]] in
  let ls := [hits] in
  let s2 := st_rows (stack_init ls) in                                   (* taken first, used later *)
  let ls1 := fst (run_stack ls (st_rows (stack_init ls)) [SAssign 0 AMul (OScalar 2)]) in
  fst (run_stack ls1 s2 [SAssign 0 AAdd (OScalar 1)]) = [mkUlist [0]%Z [[CNum 11]]]
  /\ per_list_all [SAssign 0 AMul (OScalar 2); SAssign 0 AAdd (OScalar 1)] ls = [mkUlist [0]%Z [[CNum 21]]].
Proof. vm_compute. split; reflexivity. Qed.
