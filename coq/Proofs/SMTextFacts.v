(* Facts about the text functions of Formats/SMText.v (split / join / strip / contains / rfind slice / comment removal),
   used by the whole-file theorems of C02 / C03.  SMText's split_on, join and strip are the functions of Base/Text.v
   (bridge lemmas below), whose lemmas are reused. *)
From Coq Require Import String ZArith QArith List Bool Lia.
From RV Require Base.Text.
From RV Require Import Formats.SMText Formats.SM Formats.SMSpec Formats.SMReadDom.
Import ListNotations.
Open Scope Z_scope.

(* ------------------------------------------------------------------ bridge to Base/Text.v *)
Lemma frev_rev {A} (l : list A) : frev l = rev l.
Proof. unfold frev. symmetry. apply rev_alt. Qed.

Lemma split_go_eq c s : forall cur,
  split_go c cur s = match Text.split_on c s with h :: t => (rev cur ++ h) :: t | [] => [] end.
Proof.
  induction s as [|x s IH]; intro cur; cbn [split_go Text.split_on].
  - rewrite frev_rev, app_nil_r. reflexivity.
  - destruct (x =? c) eqn:E.
    + rewrite frev_rev, app_nil_r. f_equal. rewrite IH. cbn [rev app].
      destruct (Text.split_on c s); reflexivity.
    + rewrite IH. cbn [rev]. destruct (Text.split_on c s) as [|h t] eqn:S.
      * exfalso. exact (Text.split_on_nonempty c s S).
      * rewrite <- app_assoc. reflexivity.
Qed.
Lemma split_on_eq c s : split_on c s = Text.split_on c s.
Proof.
  unfold split_on. rewrite split_go_eq. destruct (Text.split_on c s) eqn:S; [|reflexivity].
  exfalso. exact (Text.split_on_nonempty c s S).
Qed.
Lemma join_eq c l : join [c] l = Text.join c l.
Proof. induction l as [|a l IH]; [reflexivity|]. cbn [join Text.join]. destruct l; [reflexivity|]. rewrite IH. reflexivity. Qed.
Lemma is_ws_eq c : is_ws c = Text.is_space c.
Proof. reflexivity. Qed.
Lemma lstrip_eq s : lstrip s = Text.dropwhile is_ws s.
Proof. induction s as [|x s IH]; [reflexivity|]. cbn [lstrip Text.dropwhile]. destruct (is_ws x); auto. Qed.
Lemma rstrip_eq s : rstrip s = rev (Text.dropwhile is_ws (rev s)).
Proof. unfold rstrip. rewrite !frev_rev, lstrip_eq. reflexivity. Qed.
Lemma strip_eq s : strip s = Text.strip s.
Proof.
  unfold strip, Text.strip, Text.strip_with, Text.rstrip_with, Text.lstrip_with.
  rewrite rstrip_eq, lstrip_eq. reflexivity.
Qed.

(* ------------------------------------------------------------------ split / join *)
Lemma split_on_nil c : split_on c [] = [[]].
Proof. reflexivity. Qed.
Lemma split_on_sep c s : split_on c (c :: s) = [] :: split_on c s.
Proof. rewrite !split_on_eq. cbn [Text.split_on]. rewrite Z.eqb_refl. reflexivity. Qed.
Lemma split_on_cons c x s : (x =? c) = false ->
  split_on c (x :: s) = match split_on c s with h :: t => (x :: h) :: t | [] => [[x]] end.
Proof. intro E. rewrite !split_on_eq. cbn [Text.split_on]. rewrite E. reflexivity. Qed.
Lemma split_on_nonempty c s : split_on c s <> [].
Proof. rewrite split_on_eq. apply Text.split_on_nonempty. Qed.
Lemma split_on_no_sep c s : ~ In c s -> split_on c s = [s].
Proof. rewrite split_on_eq. apply Text.split_on_no_sep. Qed.
Lemma split_on_app c a b : ~ In c a -> split_on c (a ++ c :: b) = a :: split_on c b.
Proof. rewrite !split_on_eq. apply Text.split_on_app. Qed.
Lemma join_split c s : join [c] (split_on c s) = s.
Proof. rewrite join_eq, split_on_eq. apply Text.join_split. Qed.
Lemma split_join c l : l <> [] -> Forall (fun p => ~ In c p) l -> split_on c (join [c] l) = l.
Proof. rewrite join_eq, split_on_eq. apply Text.split_join. Qed.
Lemma split_pieces_no_sep c s : Forall (fun p => ~ In c p) (split_on c s).
Proof. rewrite split_on_eq. apply Text.split_pieces_no_sep. Qed.

(* gluing: the pieces of a ++ b are those of a and b with the last piece of a and the first of b joined *)
Lemma split_glue c a : forall A la b hb B,
  split_on c a = A ++ [la] -> split_on c b = hb :: B -> split_on c (a ++ b) = A ++ (la ++ hb) :: B.
Proof.
  induction a as [|x a IH]; intros A la b hb B Ha Hb.
  - rewrite split_on_nil in Ha. destruct A as [|? [|? ?]]; cbn in Ha; inversion Ha; subst. exact Hb.
  - cbn [app]. destruct (x =? c) eqn:E.
    + apply Z.eqb_eq in E. subst x. rewrite split_on_sep in Ha |- *.
      destruct A as [|a0 A]; cbn [app] in Ha.
      * inversion Ha as [[H1 H2]]. exfalso. exact (split_on_nonempty c a H2).
      * inversion Ha as [[H1 H2]]. subst a0. cbn [app]. f_equal. exact (IH A la b hb B H2 Hb).
    + rewrite (split_on_cons c x a E) in Ha. rewrite (split_on_cons c x (a ++ b) E).
      destruct (split_on c a) as [|h t] eqn:S; [exfalso; exact (split_on_nonempty c a S)|].
      destruct A as [|a0 A]; cbn [app] in Ha.
      * inversion Ha; subst. rewrite (IH [] h b hb B eq_refl Hb). reflexivity.
      * inversion Ha; subst. rewrite (IH (h :: A) la b hb B eq_refl Hb). reflexivity.
Qed.

Lemma last_decomp {A} (l : list A) (d : A) : l <> [] -> l = removelast l ++ [last l d].
Proof. intro H. apply app_removelast_last. exact H. Qed.

Lemma split_on_last_decomp c s : split_on c s = removelast (split_on c s) ++ [last (split_on c s) []].
Proof. apply last_decomp. apply split_on_nonempty. Qed.

(* the text is its pieces with separators put back *)
Fixpoint with_sep (c : Z) (l : list text) : text := match l with [] => [] | a :: r => a ++ c :: with_sep c r end.
Lemma join_app_last c A la : join [c] (A ++ [la]) = with_sep c A ++ la.
Proof.
  induction A as [|a A IH]; [reflexivity|]. cbn [app with_sep].
  destruct (A ++ [la]) as [|y r] eqn:E; [destruct A; discriminate|].
  change (join [c] (a :: y :: r)) with (a ++ [c] ++ join [c] (y :: r)). rewrite IH, <- app_assoc. reflexivity.
Qed.
Lemma text_of_pieces c s : s = with_sep c (removelast (split_on c s)) ++ last (split_on c s) [].
Proof. rewrite <- join_app_last, <- split_on_last_decomp, join_split. reflexivity. Qed.

(* ------------------------------------------------------------------ blanks and strip *)
Definition allws (s : text) : Prop := forallb is_ws s = true.
Definition clean (t : text) : Prop := Text.head_ok is_ws t /\ Text.head_ok is_ws (rev t).

Lemma allws_app a b : allws (a ++ b) <-> allws a /\ allws b.
Proof. unfold allws. rewrite forallb_app, andb_true_iff. tauto. Qed.
Lemma allws_rev a : allws a -> allws (rev a).
Proof.
  unfold allws. rewrite !forallb_forall. intros H x Hx. apply H. apply in_rev. exact Hx.
Qed.

Lemma lstrip_ws w s : allws w -> lstrip (w ++ s) = lstrip s.
Proof.
  induction w as [|x w IH]; intro H; [reflexivity|]. cbn [app lstrip].
  unfold allws in H. cbn [forallb] in H. apply andb_true_iff in H. destruct H as [H1 H2]. rewrite H1. apply IH. exact H2.
Qed.
Lemma lstrip_clean s : Text.head_ok is_ws s -> lstrip s = s.
Proof. destruct s as [|x s]; [reflexivity|]. cbn. intro H. rewrite H. reflexivity. Qed.
Lemma lstrip_allws w : allws w -> lstrip w = [].
Proof. intro H. rewrite <- (app_nil_r w). rewrite lstrip_ws by exact H. reflexivity. Qed.
Lemma rstrip_rev s : rstrip s = rev (lstrip (rev s)).
Proof. unfold rstrip. rewrite !frev_rev. reflexivity. Qed.
Lemma rstrip_ws s w : allws w -> rstrip (s ++ w) = rstrip s.
Proof. intro H. rewrite !rstrip_rev, rev_app_distr, lstrip_ws by (apply allws_rev; exact H). reflexivity. Qed.
Lemma rstrip_clean s : Text.head_ok is_ws (rev s) -> rstrip s = s.
Proof. intro H. rewrite rstrip_rev, lstrip_clean by exact H. apply rev_involutive. Qed.

(* lstrip splits a text into a blank prefix and the rest, which starts with a non-blank *)
Lemma lstrip_decomp s : exists w, s = w ++ lstrip s /\ allws w /\ Text.head_ok is_ws (lstrip s).
Proof.
  induction s as [|x s (w & E & W & H)].
  - exists []. repeat split.
  - cbn [lstrip]. destruct (is_ws x) eqn:X.
    + exists (x :: w). split; [cbn; congruence|]. split; [|exact H]. unfold allws. cbn [forallb]. rewrite X. exact W.
    + exists []. split; [reflexivity|]. split; [reflexivity|]. exact X.
Qed.
Lemma rstrip_decomp s : exists w, s = rstrip s ++ w /\ allws w /\ Text.head_ok is_ws (rev (rstrip s)).
Proof.
  destruct (lstrip_decomp (rev s)) as (w & E & W & H). exists (rev w). rewrite rstrip_rev. split.
  - rewrite <- rev_app_distr, <- E. symmetry. apply rev_involutive.
  - split; [apply allws_rev; exact W|]. rewrite rev_involutive. exact H.
Qed.

Lemma head_ok_app a b : a <> [] -> Text.head_ok is_ws a -> Text.head_ok is_ws (a ++ b).
Proof. destruct a; [congruence|]. auto. Qed.

(* THE characterisation of strip *)
Lemma strip_unique s w1 t w2 : s = w1 ++ t ++ w2 -> allws w1 -> allws w2 -> clean t -> strip s = t.
Proof.
  intros E W1 W2 [C1 C2]. subst s. unfold strip. rewrite lstrip_ws by exact W1.
  destruct t as [|x t].
  - cbn [app]. rewrite lstrip_allws by exact W2. reflexivity.
  - rewrite lstrip_clean by (apply head_ok_app; [discriminate|exact C1]).
    rewrite rstrip_ws by exact W2. apply rstrip_clean. exact C2.
Qed.
Lemma strip_spec s : exists w1 w2, s = w1 ++ strip s ++ w2 /\ allws w1 /\ allws w2 /\ clean (strip s).
Proof.
  destruct (lstrip_decomp s) as (w1 & E1 & W1 & H1).
  destruct (rstrip_decomp (lstrip s)) as (w2 & E2 & W2 & H2).
  exists w1, w2. unfold strip. split; [rewrite <- E2; exact E1|]. split; [exact W1|]. split; [exact W2|]. split; [|exact H2].
  destruct (rstrip (lstrip s)) as [|y r] eqn:R; [exact I|]. rewrite E2 in H1. exact H1.
Qed.
Lemma strip_clean t : clean t -> strip t = t.
Proof. intro C. apply (strip_unique t [] t []); auto; try reflexivity. rewrite app_nil_r. reflexivity. Qed.
Lemma strip_idem s : strip (strip s) = strip s.
Proof. destruct (strip_spec s) as (w1 & w2 & _ & _ & _ & C). apply strip_clean. exact C. Qed.
Lemma strip_ws_l w s : allws w -> strip (w ++ s) = strip s.
Proof. intro W. unfold strip. rewrite lstrip_ws by exact W. reflexivity. Qed.
Lemma strip_ws_r s w : allws w -> strip (s ++ w) = strip s.
Proof.
  intro W. destruct (strip_spec s) as (w1 & w2 & E & W1 & W2 & C).
  apply (strip_unique _ w1 (strip s) (w2 ++ w)); auto.
  - rewrite E at 1. rewrite <- !app_assoc. reflexivity.
  - apply allws_app. split; assumption.
Qed.
Lemma strip_allws w : allws w -> strip w = [].
Proof. intro W. apply (strip_unique w w [] []); auto; try reflexivity. rewrite app_nil_r. reflexivity. split; exact I. Qed.
Lemma strip_nil_allws s : strip s = [] -> allws s.
Proof.
  intro H. destruct (strip_spec s) as (w1 & w2 & E & W1 & W2 & _). rewrite H in E. rewrite E.
  apply allws_app. split; assumption.
Qed.
Lemma strip_lstrip s : strip (lstrip s) = strip s.
Proof. destruct (lstrip_decomp s) as (w & E & W & _). rewrite E at 2. rewrite strip_ws_l by exact W. reflexivity. Qed.
Lemma strip_rstrip s : strip (rstrip s) = strip s.
Proof. destruct (rstrip_decomp s) as (w & E & W & _). rewrite E at 2. rewrite strip_ws_r by exact W. reflexivity. Qed.

(* a clean non-empty core survives with whatever surrounds it *)
Lemma clean_cons_snoc x m y : is_ws x = false -> is_ws y = false -> clean (x :: m ++ [y]).
Proof.
  intros X Y. split; [exact X|]. change (x :: m ++ [y]) with ((x :: m) ++ [y]). rewrite rev_app_distr. exact Y.
Qed.
Lemma clean_app a b : a <> [] -> b <> [] -> Text.head_ok is_ws a -> Text.head_ok is_ws (rev b) -> clean (a ++ b).
Proof.
  intros Na Nb Ha Hb. split; [apply head_ok_app; assumption|]. rewrite rev_app_distr. apply head_ok_app; [|exact Hb].
  intro E. apply Nb. rewrite <- (rev_involutive b), E. reflexivity.
Qed.


(* ------------------------------------------------------------------ strip and split *)
Lemma not_in_allws c w : is_ws c = false -> allws w -> ~ In c w.
Proof.
  intros C W I. unfold allws in W. rewrite forallb_forall in W. rewrite (W c I) in C. discriminate.
Qed.

Lemma split_ws_l c w s : is_ws c = false -> allws w ->
  split_on c (w ++ s) = match split_on c s with h :: t => (w ++ h) :: t | [] => [] end.
Proof.
  intros C W. destruct (split_on c s) as [|h t] eqn:S; [exfalso; exact (split_on_nonempty c s S)|].
  rewrite (split_glue c w [] w s h t); [reflexivity| |exact S].
  apply split_on_no_sep. apply not_in_allws; assumption.
Qed.
Lemma split_ws_r c s w : is_ws c = false -> allws w ->
  split_on c (s ++ w) = removelast (split_on c s) ++ [last (split_on c s) [] ++ w].
Proof.
  intros C W. rewrite (split_glue c s (removelast (split_on c s)) (last (split_on c s) []) w w []).
  - reflexivity.
  - apply split_on_last_decomp.
  - apply split_on_no_sep. apply not_in_allws; assumption.
Qed.

Lemma map_strip_split_strip c p : is_ws c = false ->
  map strip (split_on c (strip p)) = map strip (split_on c p).
Proof.
  intro C. destruct (strip_spec p) as (w1 & w2 & E & W1 & W2 & _). rewrite E at 2.
  rewrite (split_ws_l c w1 _ C W1), (split_ws_r c (strip p) w2 C W2).
  rewrite (split_on_last_decomp c (strip p)) at 1.
  destruct (removelast (split_on c (strip p))) as [|h t].
  - cbn [app map]. rewrite strip_ws_l by exact W1. rewrite strip_ws_r by exact W2. reflexivity.
  - cbn [app map]. rewrite strip_ws_l by exact W1. f_equal. rewrite !map_app. cbn [map].
    rewrite strip_ws_r by exact W2. reflexivity.
Qed.

(* ------------------------------------------------------------------ contains / starts_with *)
Lemma starts_with_app p s : starts_with p (p ++ s) = true.
Proof. induction p as [|x p IH]; [reflexivity|]. cbn. rewrite Z.eqb_refl. exact IH. Qed.
Lemma starts_with_eq p s : starts_with p s = true -> exists r, s = p ++ r.
Proof.
  revert s. induction p as [|x p IH]; intros s H; [exists s; reflexivity|].
  destruct s as [|y s]; [discriminate|]. cbn in H. apply andb_true_iff in H. destruct H as [H1 H2].
  apply Z.eqb_eq in H1. subst y. destruct (IH s H2) as [r ->]. exists r. reflexivity.
Qed.
Lemma sw_slash x s : starts_with (tx "//") (x :: s) = (47 =? x) && match s with y :: _ => (47 =? y) | [] => false end.
Proof.
  change (tx "//") with [47; 47]. cbn [starts_with]. destruct s as [|y s]; [reflexivity|]. cbn [starts_with]. rewrite andb_true_r. reflexivity.
Qed.
Lemma contains_app_r sub a b : contains sub b = true -> contains sub (a ++ b) = true.
Proof.
  intro H. induction a as [|x a IH]; [exact H|]. cbn [app]. destruct sub; [reflexivity|].
  cbn [contains]. rewrite IH. apply orb_true_r.
Qed.
Lemma contains_starts sub s : starts_with sub s = true -> contains sub s = true.
Proof. intro H. destruct s; cbn [contains]; rewrite H; reflexivity. Qed.
Lemma contains_mid sub a b : contains sub (a ++ sub ++ b) = true.
Proof. apply contains_app_r. apply contains_starts. apply starts_with_app. Qed.
Lemma contains_nil_r sub : sub <> [] -> contains sub [] = false.
Proof. destruct sub; [congruence|]. reflexivity. Qed.
(* a pattern with a character that does not occur in the text does not occur *)
Lemma starts_with_in p s x : In x p -> starts_with p s = true -> In x s.
Proof. intros I H. destruct (starts_with_eq p s H) as [r ->]. apply in_or_app. left. exact I. Qed.
Lemma contains_absent sub s x : In x sub -> ~ In x s -> contains sub s = false.
Proof.
  intros I N. induction s as [|y s IH].
  - destruct sub; [destruct I|reflexivity].
  - destruct sub as [|z sub]; [destruct I|]. cbn [contains].
    destruct (starts_with (z :: sub) (y :: s)) eqn:S.
    + exfalso. apply N. exact (starts_with_in _ _ x I S).
    + cbn [orb]. apply IH. intro H. apply N. right. exact H.
Qed.
Lemma contains_app_split sub a b : contains sub (a ++ b) = false -> contains sub a = false /\ contains sub b = false.
Proof.
  intro H. split.
  - induction a as [|x a IH].
    + destruct sub; [destruct b; discriminate|reflexivity].
    + destruct sub as [|z sub]; [discriminate|]. cbn [app contains] in H |- *.
      apply orb_false_iff in H. destruct H as [H1 H2]. rewrite (IH H2), orb_false_r.
      destruct (starts_with (z :: sub) (x :: a)) eqn:S; [|reflexivity].
      destruct (starts_with_eq _ _ S) as [r E]. change (x :: a ++ b) with ((x :: a) ++ b) in H1. rewrite E, <- app_assoc, starts_with_app in H1. discriminate.
  - destruct (contains sub b) eqn:C; [|reflexivity]. rewrite (contains_app_r sub a b C) in H. discriminate.
Qed.

(* ------------------------------------------------------------------ s[s.rfind(c):] *)
Lemma from_last_go_none c s : ~ In c s -> forall best, from_last_go c s best = best.
Proof.
  induction s as [|x s IH]; intros N best; [reflexivity|]. cbn [from_last_go].
  destruct (x =? c) eqn:E; [apply Z.eqb_eq in E; exfalso; apply N; left; exact E|].
  apply IH. intro H. apply N. right. exact H.
Qed.
Lemma from_last_go_app c u t : ~ In c t -> forall best, from_last_go c (u ++ c :: t) best = Some (c :: t).
Proof.
  intro N. induction u as [|x u IH]; intro best.
  - cbn [app from_last_go]. rewrite Z.eqb_refl. apply from_last_go_none. exact N.
  - cbn [app from_last_go]. apply IH.
Qed.
Lemma slice_from_rfind_app c u t : ~ In c t -> slice_from_rfind c (u ++ c :: t) = c :: t.
Proof. intro N. unfold slice_from_rfind. rewrite from_last_go_app by exact N. reflexivity. Qed.

(* ------------------------------------------------------------------ comment removal *)
(* character automaton: incom = inside a comment *)
Fixpoint sc (incom : bool) (s : text) : text :=
  match s with
  | [] => []
  | x :: s' =>
      if x =? 10 then 10 :: sc false s'
      else if incom then sc true s'
      else if starts_with (tx "//") s then sc true s'
      else x :: sc false s'
  end.

Definition bs := before_sub (tx "//").

Lemma sc_true_line l : ~ In 10 l -> sc true l = [].
Proof.
  induction l as [|x l IH]; intro N; [reflexivity|]. cbn [sc].
  destruct (x =? 10) eqn:E; [apply Z.eqb_eq in E; exfalso; apply N; left; exact E|].
  apply IH. intro H. apply N. right. exact H.
Qed.
Lemma sc_true_line_nl l r : ~ In 10 l -> sc true (l ++ 10 :: r) = 10 :: sc false r.
Proof.
  induction l as [|x l IH]; intro N; [reflexivity|]. cbn [app sc].
  destruct (x =? 10) eqn:E; [apply Z.eqb_eq in E; exfalso; apply N; left; exact E|].
  apply IH. intro H. apply N. right. exact H.
Qed.
Lemma starts_with_app_nl l r : ~ In 10 l -> l <> [] ->
  starts_with (tx "//") (l ++ 10 :: r) = starts_with (tx "//") l.
Proof.
  intros N Ne. destruct l as [|x [|y l]]; [congruence| |].
  - cbn [app]. rewrite !sw_slash. reflexivity.
  - cbn [app]. rewrite !sw_slash. reflexivity.
Qed.
Lemma sc_false_line l : ~ In 10 l -> sc false l = bs l.
Proof.
  induction l as [|x l IH]; intro N; [reflexivity|]. cbn [sc]. unfold bs. cbn [before_sub]. fold bs.
  destruct (x =? 10) eqn:E; [apply Z.eqb_eq in E; exfalso; apply N; left; exact E|].
  assert (N' : ~ In 10 l) by (intro H; apply N; right; exact H).
  destruct (starts_with (tx "//") (x :: l)); [apply sc_true_line; exact N'|]. f_equal. apply IH. exact N'.
Qed.
Lemma sc_false_line_nl l r : ~ In 10 l -> sc false (l ++ 10 :: r) = bs l ++ 10 :: sc false r.
Proof.
  induction l as [|x l IH]; intro N; [reflexivity|]. cbn [app sc]. unfold bs. cbn [before_sub]. fold bs.
  destruct (x =? 10) eqn:E; [apply Z.eqb_eq in E; exfalso; apply N; left; exact E|].
  assert (N' : ~ In 10 l) by (intro H; apply N; right; exact H).
  change (x :: l ++ 10 :: r) with ((x :: l) ++ 10 :: r). rewrite (starts_with_app_nl (x :: l) r N) by discriminate.
  destruct (starts_with (tx "//") (x :: l)); [apply sc_true_line_nl; exact N'|]. cbn [app]. f_equal. apply IH. exact N'.
Qed.

Lemma sc_join_lines ls : ls <> [] -> Forall (fun l => ~ In 10 l) ls -> sc false (join [10] ls) = join [10] (map bs ls).
Proof.
  induction ls as [|l ls IH]; intros Ne F; [congruence|]. inversion F as [|? ? Fl Fr]; subst.
  destruct ls as [|l2 ls].
  - cbn [join map]. apply sc_false_line. exact Fl.
  - change (join [10] (l :: l2 :: ls)) with (l ++ 10 :: join [10] (l2 :: ls)).
    change (join [10] (map bs (l :: l2 :: ls))) with (bs l ++ 10 :: join [10] (map bs (l2 :: ls))).
    rewrite sc_false_line_nl by exact Fl. rewrite IH by (try discriminate; exact Fr). reflexivity.
Qed.
Theorem strip_comments_sc txt : strip_comments txt = sc false txt.
Proof.
  unfold strip_comments. fold bs. rewrite <- (join_split 10 txt) at 2.
  symmetry. apply sc_join_lines; [apply split_on_nonempty|apply split_pieces_no_sep].
Qed.

Lemma bs_no_nl l : ~ In 10 l -> ~ In 10 (bs l).
Proof.
  induction l as [|x l IH]; intros N H; [destruct H|]. unfold bs in H. cbn [before_sub] in H. fold bs in H.
  destruct (starts_with (tx "//") (x :: l)); [destruct H|]. destruct H as [H|H]; [apply N; left; exact H|].
  apply IH; [intro K; apply N; right; exact K|exact H].
Qed.
Lemma lines_strip_comments p : split_on 10 (strip_comments p) = map bs (split_on 10 p).
Proof.
  unfold strip_comments. fold bs. apply split_join.
  - destruct (split_on 10 p) eqn:E; [exfalso; exact (split_on_nonempty 10 p E)|discriminate].
  - apply Forall_forall. intros x Hx. apply in_map_iff in Hx. destruct Hx as (l & <- & Hl).
    apply bs_no_nl. pose proof (split_pieces_no_sep 10 p) as F. rewrite Forall_forall in F. apply F. exact Hl.
Qed.

Lemma bs_no_comment l : contains (tx "//") l = false -> bs l = l.
Proof.
  induction l as [|x l IH]; intro H; [reflexivity|]. unfold bs. cbn [before_sub]. fold bs.
  change (contains (tx "//") (x :: l)) with (starts_with (tx "//") (x :: l) || contains (tx "//") l) in H.
  apply orb_false_iff in H. destruct H as [H1 H2]. rewrite H1. f_equal. apply IH. exact H2.
Qed.
Lemma allws_no_slash w : allws w -> ~ In 47 w.
Proof. apply not_in_allws. reflexivity. Qed.
Lemma bs_ws_comment w r : allws w -> bs (w ++ tx "//" ++ r) = w.
Proof.
  induction w as [|x w IH]; intro W.
  - reflexivity.
  - unfold allws in W. cbn [forallb] in W. apply andb_true_iff in W. destruct W as [W1 W2].
    cbn [app]. unfold bs. cbn [before_sub]. fold bs.
    assert (S : starts_with (tx "//") (x :: w ++ tx "//" ++ r) = false).
    { rewrite sw_slash. destruct (47 =? x) eqn:E; [|reflexivity]. apply Z.eqb_eq in E. subst x. discriminate. }
    rewrite S. f_equal. apply IH. exact W2.
Qed.
Lemma sc_no_comment s : contains (tx "//") s = false -> sc false s = s.
Proof.
  induction s as [|x s IH]; intro H; [reflexivity|].
  change (contains (tx "//") (x :: s)) with (starts_with (tx "//") (x :: s) || contains (tx "//") s) in H.
  apply orb_false_iff in H. destruct H as [H1 H2]. cbn [sc]. rewrite H1, (IH H2).
  destruct (x =? 10) eqn:E; [apply Z.eqb_eq in E; subst; reflexivity|reflexivity].
Qed.

(* ------------------------------------------------------------------ comment removal commutes with splitting *)
Lemma first_piece_head c s h t : split_on c s = h :: t ->
  match h with
  | [] => s = [] \/ exists s', s = c :: s'
  | y :: _ => (y =? c) = false /\ exists s', s = y :: s'
  end.
Proof.
  destruct s as [|x s]; intro H.
  - rewrite split_on_nil in H. inversion H; subst. left. reflexivity.
  - destruct (x =? c) eqn:E.
    + apply Z.eqb_eq in E. subst x. rewrite split_on_sep in H. inversion H; subst. right. exists s. reflexivity.
    + rewrite (split_on_cons c x s E) in H. destruct (split_on c s); inversion H; subst; (split; [exact E|exists s; reflexivity]).
Qed.

Lemma sw_first_piece c x s h t : (c =? 47) = false -> split_on c s = h :: t ->
  starts_with (tx "//") (x :: h) = starts_with (tx "//") (x :: s).
Proof.
  intros C H. rewrite !sw_slash. f_equal. pose proof (first_piece_head c s h t H) as P.
  destruct h as [|y h].
  - destruct P as [->|[s' ->]]; [reflexivity|]. rewrite Z.eqb_sym. rewrite C. reflexivity.
  - destruct P as [_ [s' ->]]. reflexivity.
Qed.

Theorem sc_split c : (c =? 10) = false -> (c =? 47) = false -> forall s incom,
  sep_outside c incom s = true ->
  split_on c (sc incom s) = match split_on c s with h :: t => sc incom h :: map (sc false) t | [] => [] end.
Proof.
  intros C10 C47. induction s as [|x s IH]; intros incom G.
  - reflexivity.
  - cbn [sep_outside] in G. cbn [sc].
    destruct (split_on c s) as [|h t] eqn:S; [exfalso; exact (split_on_nonempty c s S)|].
    destruct (x =? 10) eqn:X10.
    + apply Z.eqb_eq in X10. subst x.
      assert (E : (10 =? c) = false) by (rewrite Z.eqb_sym; exact C10).
      rewrite (split_on_cons c 10 s E). rewrite S, (split_on_cons c 10 (sc false s) E), (IH false G). cbn [sc]. reflexivity.
    + destruct incom.
      * apply andb_true_iff in G. destruct G as [G1 G2]. apply negb_true_iff in G1.
        rewrite (split_on_cons c x s G1), S, (IH true G2). cbn [sc]. rewrite X10. reflexivity.
      * destruct (starts_with (tx "//") (x :: s)) eqn:SW.
        -- assert (X : (x =? c) = false).
           { rewrite sw_slash in SW. apply andb_true_iff in SW. destruct SW as [SW _]. apply Z.eqb_eq in SW. subst x.
             rewrite Z.eqb_sym. exact C47. }
           rewrite (split_on_cons c x s X), S, (IH true G). cbn [sc]. rewrite X10.
           rewrite (sw_first_piece c x s h t C47 S), SW. reflexivity.
        -- destruct (x =? c) eqn:X.
           ++ apply Z.eqb_eq in X. subst x. rewrite !split_on_sep, (IH false G), S. reflexivity.
           ++ rewrite (split_on_cons c x s X), S, (split_on_cons c x (sc false s) X), (IH false G). cbn [sc]. rewrite X10.
              rewrite (sw_first_piece c x s h t C47 S), SW. reflexivity.
Qed.

Corollary sc_split_false c s : (c =? 10) = false -> (c =? 47) = false -> sep_outside c false s = true ->
  split_on c (sc false s) = map (sc false) (split_on c s).
Proof.
  intros C1 C2 G. rewrite (sc_split c C1 C2 s false G).
  destruct (split_on c s) eqn:S; [exfalso; exact (split_on_nonempty c s S)|reflexivity].
Qed.

(* ------------------------------------------------------------------ more strip facts *)
Lemma head_ok_lstrip_app Y t : t <> [] -> Text.head_ok is_ws t -> Text.head_ok is_ws (lstrip Y ++ t).
Proof.
  intros Ne H. destruct (lstrip_decomp Y) as (w & _ & _ & HY). destruct (lstrip Y) as [|y r]; [exact H|exact HY].
Qed.
Lemma head_ok_rev_app_rstrip t R : t <> [] -> Text.head_ok is_ws (rev t) -> Text.head_ok is_ws (rev (t ++ rstrip R)).
Proof.
  intros Ne H. rewrite rev_app_distr. destruct (rstrip_decomp R) as (w & _ & _ & HR).
  destruct (rev (rstrip R)) as [|y r] eqn:E; [exact H|exact HR].
Qed.
(* a clean non-empty core in the middle: the left context is lstripped, the right context rstripped *)
Lemma strip_around Y t R : t <> [] -> clean t -> strip (Y ++ t ++ R) = lstrip Y ++ t ++ rstrip R.
Proof.
  intros Ne [C1 C2]. destruct (lstrip_decomp Y) as (w1 & E1 & W1 & _). destruct (rstrip_decomp R) as (w2 & E2 & W2 & _).
  apply (strip_unique _ w1 (lstrip Y ++ t ++ rstrip R) w2); auto.
  - rewrite E1 at 1. rewrite E2 at 1. rewrite <- !app_assoc. reflexivity.
  - split.
    + rewrite app_assoc. apply head_ok_app.
      * destruct (lstrip Y); destruct t; try congruence; discriminate.
      * apply head_ok_lstrip_app; assumption.
    + rewrite rev_app_distr. apply head_ok_app.
      * intro E. apply Ne. destruct t; [reflexivity|]. apply (f_equal (@length _)) in E. rewrite rev_length in E. cbn in E. discriminate.
      * apply head_ok_rev_app_rstrip; assumption.
Qed.
Lemma strip_suffix_clean Y t : t <> [] -> clean t -> strip (Y ++ t) = lstrip Y ++ t.
Proof.
  intros Ne C. rewrite <- (app_nil_r t) at 1. rewrite (strip_around Y t [] Ne C). cbn. rewrite app_nil_r. reflexivity.
Qed.

(* any function of a text that ignores surrounding blanks sees the same pieces before and after strip *)
Lemma map_split_strip_gen {B} (f : text -> B) c p : is_ws c = false ->
  (forall w s, allws w -> f (w ++ s) = f s) -> (forall s w, allws w -> f (s ++ w) = f s) ->
  map f (split_on c (strip p)) = map f (split_on c p).
Proof.
  intros C FL FR. destruct (strip_spec p) as (w1 & w2 & E & W1 & W2 & _). rewrite E at 2.
  rewrite (split_ws_l c w1 _ C W1), (split_ws_r c (strip p) w2 C W2).
  rewrite (split_on_last_decomp c (strip p)) at 1.
  destruct (removelast (split_on c (strip p))) as [|h t].
  - cbn [app map]. rewrite FL by exact W1. rewrite FR by exact W2. reflexivity.
  - cbn [app map]. rewrite FL by exact W1. f_equal. rewrite !map_app. cbn [map].
    rewrite FR by exact W2. reflexivity.
Qed.
Lemma map_split_rstrip_gen {B} (f : text -> B) c p : is_ws c = false ->
  (forall s w, allws w -> f (s ++ w) = f s) ->
  map f (split_on c (rstrip p)) = map f (split_on c p).
Proof.
  intros C FR. destruct (rstrip_decomp p) as (w2 & E & W2 & _). rewrite E at 2.
  rewrite (split_ws_r c (rstrip p) w2 C W2). rewrite (split_on_last_decomp c (rstrip p)) at 1.
  rewrite !map_app. cbn [map]. rewrite FR by exact W2. reflexivity.
Qed.

(* ------------------------------------------------------------------ uniqueness of a cut at a separator *)
Lemma app_sep_unique (c : Z) a b a2 b2 : ~ In c a -> ~ In c a2 -> a ++ c :: b = a2 ++ c :: b2 -> a = a2 /\ b = b2.
Proof.
  revert a2. induction a as [|x a IH]; intros a2 N N2 E.
  - destruct a2 as [|y a2]; cbn in E.
    + inversion E. auto.
    + inversion E; subst. exfalso. apply N2. left. reflexivity.
  - destruct a2 as [|y a2]; cbn in E.
    + inversion E; subst. exfalso. apply N. left. reflexivity.
    + inversion E; subst. destruct (IH a2) as [-> ->]; auto; intro H; [apply N|apply N2]; right; exact H.
Qed.
Lemma last_sep_unique (c : Z) a t a2 t2 : ~ In c t -> ~ In c t2 -> a ++ c :: t = a2 ++ c :: t2 -> t = t2.
Proof.
  intros N N2 E. pose proof (slice_from_rfind_app c a t N) as H1. rewrite E, (slice_from_rfind_app c a2 t2 N2) in H1.
  inversion H1. reflexivity.
Qed.

(* a pattern ending with a separator that occurs once in the text can only sit right before that separator *)
Lemma contains_one_sep sub (c : Z) a b : ~ In c sub -> ~ In c a -> ~ In c b ->
  contains (sub ++ [c]) (a ++ c :: b) = true -> exists a', a = a' ++ sub.
Proof.
  intros Ns Na Nb. induction a as [|x a IH]; intro H.
  - cbn [app] in H. change (contains (sub ++ [c]) (c :: b)) with (starts_with (sub ++ [c]) (c :: b) || contains (sub ++ [c]) b) in H.
    rewrite (contains_absent (sub ++ [c]) b c) in H; [|apply in_or_app; right; left; reflexivity|exact Nb].
    rewrite orb_false_r in H. destruct sub as [|z sub]; [exists []; reflexivity|].
    cbn in H. apply andb_true_iff in H. destruct H as [H _]. apply Z.eqb_eq in H. subst z. exfalso. apply Ns. left. reflexivity.
  - cbn [app] in H.
    change (contains (sub ++ [c]) (x :: a ++ c :: b)) with (starts_with (sub ++ [c]) (x :: a ++ c :: b) || contains (sub ++ [c]) (a ++ c :: b)) in H.
    apply orb_true_iff in H. destruct H as [H|H].
    + destruct (starts_with_eq _ _ H) as [r E]. rewrite <- app_assoc in E. cbn [app] in E.
      change (x :: a ++ c :: b) with ((x :: a) ++ c :: b) in E.
      destruct (app_sep_unique c (x :: a) b sub r Na Ns E) as [E1 _]. exists []. exact E1.
    + destruct IH as [a' ->]; [intro K; apply Na; right; exact K|exact H|]. exists (x :: a'). reflexivity.
Qed.

(* comment removal only deletes characters *)
Lemma sc_in x s : forall b, In x (sc b s) -> In x s.
Proof.
  induction s as [|y s IH]; intros b H; [destruct H|]. cbn [sc] in H.
  destruct (y =? 10) eqn:E.
  - apply Z.eqb_eq in E. subst y. destruct H as [H|H]; [left; exact H|right; exact (IH _ H)].
  - destruct b; [right; exact (IH _ H)|]. destruct (starts_with (tx "//") (y :: s)); [right; exact (IH _ H)|].
    destruct H as [H|H]; [left; exact H|right; exact (IH _ H)].
Qed.

Lemma allws_with_sep X : Forall allws X -> allws (with_sep 10 X).
Proof.
  induction 1 as [|x X Hx _ IH]; [reflexivity|]. cbn [with_sep]. apply allws_app. split; [exact Hx|].
  unfold allws. cbn [forallb]. exact IH.
Qed.
