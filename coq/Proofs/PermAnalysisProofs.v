(* C15, part 3: dominant_bpm, scroll_speed and sv_normalize do not depend on the row order of the tempo, SV and note
   lists (models: Algo/DominantBpm.v, Algo/ScrollSpeed.v).  For ALL charts under the documented side conditions:
     - no two tempo points at one time                                  (distinct_times, as in C19's wf_chart)
     - coincident SVs carry the same multiplier                         (svs_agreeb)        [scroll_speed only]
     - the offsets of the chart are given as reduced fractions          (canon_offsets)     [scroll_speed only;
       a condition on the REPRESENTATION of the model's inputs, not on the chart: the harness emits reduced fractions] *)
From Coq Require Import ZArith QArith Qabs List Bool Lia Lqa Permutation.
From RV Require Import Base.PyNum Algo.DominantBpm Algo.ScrollSpeed Algo.AnalysisSpec Algo.PermDomain Proofs.AnalysisProofs.
Import ListNotations.
Open Scope Q_scope.

(* ------------------------------------------------------------------ the relation and the side conditions *)
Definition opt_perm {A} (a b : option (list A)) : Prop :=
  match a, b with Some x, Some y => Permutation x y | None, None => True | _, _ => False end.

(* the same chart with the rows of its lists in another order *)
Definition an_chart_perm (c c' : chart) : Prop :=
  Permutation (c_bpms c) (c_bpms c') /\ opt_perm (c_svs c) (c_svs c') /\ Permutation (c_notes c) (c_notes c').

(* side conditions as booleans: Algo/PermDomain.v (q_same, canonb, canon_offsets, svs_agreeb) *)
Lemma q_same_eq a b : q_same a b = true -> a = b.
Proof.
  unfold q_same. intro H. apply andb_true_iff in H. destruct H as [H1 H2]. apply Z.eqb_eq in H1. apply Pos.eqb_eq in H2.
  destruct a, b. cbn in *. congruence.
Qed.
Lemma canon_eq a b : canonb a = true -> canonb b = true -> a == b -> a = b.
Proof. intros Ha Hb E. apply q_same_eq in Ha, Hb. rewrite <- Ha, <- Hb. apply Qred_complete. exact E. Qed.

(* ------------------------------------------------------------------ insertion sorts: any order of insertion *)
Section FoldPerm.
  Context {X : Type} (ins : X -> list X -> list X) (ok : X -> X -> Prop).
  Hypothesis ins_comm : forall x y l, ok x y -> ins x (ins y l) = ins y (ins x l).
  Fixpoint pairwise (l : list X) : Prop :=
    match l with [] => True | a :: t => (forall x, In x t -> ok a x) /\ pairwise t end.
  Hypothesis ok_sym : forall x y, ok x y -> ok y x.

  Lemma pairwise_perm l l' : Permutation l l' -> pairwise l -> pairwise l'.
  Proof.
    induction 1 as [|x l l' P IH|x y l|l l' l'' P1 IH1 P2 IH2]; cbn [pairwise]; auto.
    - intros [H1 H2]. split; [|auto]. intros z Hz. apply H1. apply (Permutation_in _ (Permutation_sym P)). exact Hz.
    - intros [H1 [H2 H3]]. split; [|split; [|exact H3]].
      + intros z [Hz|Hz]; [subst z; apply ok_sym, H1; left; reflexivity|apply H2; exact Hz].
      + intros z Hz. apply H1. right. exact Hz.
  Qed.

  Lemma fold_ins_perm base l l' : Permutation l l' -> pairwise l -> fold_right ins base l = fold_right ins base l'.
  Proof.
    induction 1 as [|x l l' P IH|x y l|l l' l'' P1 IH1 P2 IH2]; cbn [fold_right pairwise]; auto.
    - intros [_ H]. rewrite (IH H). reflexivity.
    - intros [H1 _]. apply ins_comm. apply H1. left. reflexivity.
    - intro H. rewrite (IH1 H). apply IH2. apply (pairwise_perm _ _ P1 H).
  Qed.
End FoldPerm.

(* inserting two rows with different keys commutes (any list) *)
Lemma binsert_comm (x y : Q * Q) l : ~ fst x == fst y -> binsert x (binsert y l) = binsert y (binsert x l).
Proof.
  intro Hne. induction l as [|z l IH]; cbn [binsert].
  - destruct (Qle_bool (fst x) (fst y)) eqn:E1, (Qle_bool (fst y) (fst x)) eqn:E2; qbool; try reflexivity; exfalso; lra.
  - destruct (Qle_bool (fst y) (fst z)) eqn:E1, (Qle_bool (fst x) (fst z)) eqn:E2; cbn [binsert]; rewrite ?E1, ?E2.
    + destruct (Qle_bool (fst x) (fst y)) eqn:E3, (Qle_bool (fst y) (fst x)) eqn:E4; qbool; try reflexivity; exfalso; lra.
    + destruct (Qle_bool (fst x) (fst y)) eqn:E3; qbool; [exfalso; lra|reflexivity].
    + destruct (Qle_bool (fst y) (fst x)) eqn:E3; qbool; [exfalso; lra|reflexivity].
    + rewrite IH. reflexivity.
Qed.
Lemma bsort_fold l : bsort l = fold_right binsert [] l.
Proof. induction l as [|x l IH]; cbn [bsort fold_right]; [reflexivity|]. rewrite IH. reflexivity. Qed.

Definition key_ne (x y : Q * Q) : Prop := ~ fst x == fst y.
Lemma key_ne_sym x y : key_ne x y -> key_ne y x.
Proof. unfold key_ne. intros H E. apply H. symmetry. exact E. Qed.

Lemma qdistinct_pairwise (l : list (Q * Q)) : qdistinct (map fst l) -> pairwise key_ne l.
Proof.
  induction l as [|a l IH]; cbn [map qdistinct pairwise]; [auto|]. intros [H1 H2]. split; [|auto].
  intros x Hx. apply H1. apply in_map. exact Hx.
Qed.

(* m.bpms.sorted() is the same list for every row order when no two tempo points share a time *)
Lemma bsort_perm_eq l l' : Permutation l l' -> qdistinct (map fst l) -> bsort l = bsort l'.
Proof.
  intros Hp Hd. rewrite !bsort_fold. apply (fold_ins_perm binsert key_ne); auto using key_ne_sym, qdistinct_pairwise.
  intros x y t H. apply binsert_comm. exact H.
Qed.

(* ------------------------------------------------------------------ max / min of a permuted list *)
Definition oq_rel (a b : option Q) : Prop := match a, b with Some x, Some y => x == y | None, None => True | _, _ => False end.

Lemma qmax_list_perm l l' : Permutation l l' -> oq_rel (qmax_list l) (qmax_list l').
Proof.
  intro Hp. destruct (qmax_list l) as [m|] eqn:E, (qmax_list l') as [m'|] eqn:E'; cbn.
  - destruct (qmax_list_spec _ _ E) as [I1 M1]. destruct (qmax_list_spec _ _ E') as [I2 M2].
    pose proof (M2 m (Permutation_in _ Hp I1)). pose proof (M1 m' (Permutation_in _ (Permutation_sym Hp) I2)). lra.
  - destruct l' as [|a t]; [apply Permutation_sym, Permutation_nil in Hp; subst; discriminate|].
    destruct (qmax_list_some (a :: t)) as [x Hx]; [discriminate|congruence].
  - destruct l as [|a t]; [apply Permutation_nil in Hp; subst; discriminate|].
    destruct (qmax_list_some (a :: t)) as [x Hx]; [discriminate|congruence].
  - exact I.
Qed.

Lemma qmin_list_spec l m : qmin_list l = Some m -> In m l /\ forall x, In x l -> m <= x.
Proof.
  revert m. induction l as [|a l IH]; intros m H; cbn [qmin_list] in H; [discriminate|].
  destruct (qmin_list l) as [m'|] eqn:E.
  - destruct (IH m' eq_refl) as [I1 I2]. inversion H; subst m. unfold Qmin'.
    destruct (Qle_bool a m') eqn:E2; qbool.
    + split; [left; reflexivity|]. intros x [Hx|Hx]; [subst; lra|]. specialize (I2 x Hx). lra.
    + split; [right; exact I1|]. intros x [Hx|Hx]; [subst; lra|auto].
  - inversion H; subst. destruct l; [|cbn in E; destruct (qmin_list l); discriminate].
    split; [left; reflexivity|]. intros x [Hx|[]]. subst. lra.
Qed.
Lemma qmin_list_perm l l' : Permutation l l' -> oq_rel (qmin_list l) (qmin_list l').
Proof.
  intro Hp. destruct (qmin_list l) as [m|] eqn:E, (qmin_list l') as [m'|] eqn:E'; cbn.
  - destruct (qmin_list_spec _ _ E) as [I1 M1]. destruct (qmin_list_spec _ _ E') as [I2 M2].
    pose proof (M2 m (Permutation_in _ Hp I1)). pose proof (M1 m' (Permutation_in _ (Permutation_sym Hp) I2)). lra.
  - destruct l' as [|a t]; [apply Permutation_sym, Permutation_nil in Hp; subst; discriminate|].
    destruct (qmin_list_some (a :: t)) as [x Hx]; [discriminate|congruence].
  - destruct l as [|a t]; [apply Permutation_nil in Hp; subst; discriminate|].
    destruct (qmin_list_some (a :: t)) as [x Hx]; [discriminate|congruence].
  - exact I.
Qed.

Lemma opt_perm_rows c c' : opt_perm (c_svs c) (c_svs c') -> Permutation (sv_rows c) (sv_rows c').
Proof. unfold sv_rows, opt_perm. destruct (c_svs c), (c_svs c'); intro H; try (destruct H; fail); auto. Qed.

Lemma stack_offsets_perm c c' : an_chart_perm c c' -> Permutation (stack_offsets c) (stack_offsets c').
Proof.
  intros [Hb [Hs Hn]]. unfold stack_offsets. apply Permutation_app; [apply Permutation_map; exact Hb|].
  apply Permutation_app; [apply Permutation_map, opt_perm_rows; exact Hs|exact Hn].
Qed.

Lemma last_offset_perm c c' : an_chart_perm c c' -> oq_rel (last_offset c) (last_offset c').
Proof.
  intro H. pose proof (stack_offsets_perm c c' H) as Hs. destruct H as [_ [_ Hn]]. unfold last_offset.
  pose proof (qmax_list_perm _ _ Hn) as R. destruct (qmax_list (c_notes c)), (qmax_list (c_notes c')); cbn in R;
    [exact R|destruct R|destruct R|]. apply qmax_list_perm. exact Hs.
Qed.

(* ------------------------------------------------------------------ dominant_bpm *)
Lemma diffs_Qeq l : forall l', Forall2 Qeq l l' -> diffs l = diffs l'.
Proof.
  induction l as [|a l IH]; intros l' H; inversion H as [|a0 a' l0 t' Ea Ht]; subst; [reflexivity|].
  destruct Ht as [|b b' t t'' Eb Ht']; [reflexivity|]. rewrite !diffs_cons2. f_equal.
  - apply Qred_complete. rewrite Ea, Eb. reflexivity.
  - apply IH. constructor; assumption.
Qed.

Lemma clipped_Qeq (offs : list Q) last last' : last == last' ->
  Forall2 Qeq (map (fun o => Qmin' o last) (offs ++ [last])) (map (fun o => Qmin' o last') (offs ++ [last'])).
Proof.
  intro E. induction offs as [|o offs IH]; cbn [app map].
  - constructor; [|constructor]. unfold Qmin'. qcases.
  - constructor; [apply Qmin'_compat; exact E|exact IH].
Qed.

Theorem dominant_intervals_perm c c' : an_chart_perm c c' -> distinct_times (tempo_times c) = true ->
  dominant_intervals c' = dominant_intervals c.
Proof.
  intros H Hd. pose proof (last_offset_perm c c' H) as R. destruct H as [Hb _]. unfold dominant_intervals.
  rewrite <- (bsort_perm_eq _ _ Hb (distinct_times_sound _ Hd)).
  destruct (last_offset c) as [la|], (last_offset c') as [la'|]; cbn in R; [|destruct R|destruct R|reflexivity].
  rewrite (diffs_Qeq _ _ (clipped_Qeq (map fst (bsort (c_bpms c))) la la' R)). reflexivity.
Qed.

(* MAIN (dominant bpm): the same VALUE, whatever the row order of the tempo, SV and note lists *)
Theorem dominant_bpm_perm c c' : an_chart_perm c c' -> distinct_times (tempo_times c) = true ->
  dominant_bpm c' = dominant_bpm c.
Proof. intros H Hd. unfold dominant_bpm, dominant_groups. rewrite (dominant_intervals_perm c c' H Hd). reflexivity. Qed.

(* the side condition is needed: two tempo points at one time *)
Theorem dominant_bpm_perm_needs_distinct_refuted :
  exists c c', an_chart_perm c c' /\ dominant_bpm c' <> dominant_bpm c.
Proof.
  exists (mkChart [(0, 120); (0, 240)] None [0; 1000]), (mkChart [(0, 240); (0, 120)] None [0; 1000]).
  split; [split; [apply perm_swap|split; [exact I|apply Permutation_refl]]|]. vm_compute. discriminate.
Qed.

Lemma reference_bpm_perm c c' ov : an_chart_perm c c' -> distinct_times (tempo_times c) = true ->
  reference_bpm c' ov = reference_bpm c ov.
Proof. intros H Hd. unfold reference_bpm. rewrite (dominant_bpm_perm c c' H Hd). reflexivity. Qed.

(* ------------------------------------------------------------------ sv_normalize *)
(* MAIN (SV normalisation): the same SVs, in the order of the tempo rows *)
Theorem sv_normalize_perm c c' ov : an_chart_perm c c' -> distinct_times (tempo_times c) = true ->
  opt_perm (sv_normalize c ov) (sv_normalize c' ov).
Proof.
  intros H Hd. unfold sv_normalize. rewrite (reference_bpm_perm c c' ov H Hd). destruct H as [Hb [Hs _]].
  destruct (reference_bpm c ov) as [ref|]; [|exact I]. unfold opt_perm in Hs.
  destruct (c_svs c), (c_svs c'); cbn; [|destruct Hs|destruct Hs|exact I]. unfold sv_normalize_with. apply Permutation_map. exact Hb.
Qed.

(* ------------------------------------------------------------------ scroll_speed *)
Lemma oinsert_comm (x y : orow) l : ~ fst x == fst y -> oinsert x (oinsert y l) = oinsert y (oinsert x l).
Proof.
  intro Hne. induction l as [|z l IH]; cbn [oinsert].
  - destruct (Qle_bool (fst x) (fst y)) eqn:E1, (Qle_bool (fst y) (fst x)) eqn:E2; qbool; try reflexivity; exfalso; lra.
  - destruct (Qle_bool (fst y) (fst z)) eqn:E1, (Qle_bool (fst x) (fst z)) eqn:E2; cbn [oinsert]; rewrite ?E1, ?E2.
    + destruct (Qle_bool (fst x) (fst y)) eqn:E3, (Qle_bool (fst y) (fst x)) eqn:E4; qbool; try reflexivity; exfalso; lra.
    + destruct (Qle_bool (fst x) (fst y)) eqn:E3; qbool; [exfalso; lra|reflexivity].
    + destruct (Qle_bool (fst y) (fst x)) eqn:E3; qbool; [exfalso; lra|reflexivity].
    + rewrite IH. reflexivity.
Qed.
Lemma osort_app_fold A M : osort (A ++ M) = fold_right oinsert (osort M) A.
Proof. induction A as [|x A IH]; cbn [app osort fold_right]; [reflexivity|]. rewrite IH. reflexivity. Qed.

Definition okey_ne (x y : orow) : Prop := ~ fst x == fst y.
Lemma okey_ne_sym x y : okey_ne x y -> okey_ne y x.
Proof. unfold okey_ne. intros H E. apply H. symmetry. exact E. Qed.
Lemma qdistinct_opairwise (l : list (Q * Q)) : qdistinct (map fst l) ->
  pairwise okey_ne (map (fun r : Q * Q => (fst r, Some (snd r))) l).
Proof.
  induction l as [|a l IH]; cbn [map qdistinct pairwise]; [auto|]. intros [H1 H2]. split; [|auto].
  intros x Hx. apply in_map_iff in Hx. destruct Hx as [r [<- Hr]]. unfold okey_ne. cbn [fst]. apply H1. apply in_map. exact Hr.
Qed.

Lemma bpm_frame_perm c c' omin omax : Permutation (c_bpms c) (c_bpms c') -> qdistinct (map fst (c_bpms c)) ->
  bpm_frame c' omin omax = bpm_frame c omin omax.
Proof.
  intros Hb Hd. unfold bpm_frame. rewrite !osort_app_fold. f_equal. f_equal. f_equal. symmetry.
  apply (fold_ins_perm oinsert okey_ne); auto using okey_ne_sym, qdistinct_opairwise.
  - intros x y t H. apply oinsert_comm. exact H.
  - apply Permutation_map. exact Hb.
Qed.

(* sorting a Series of reduced fractions: only the multiset matters *)
Lemma qinsert_comm x y l : (x = y \/ ~ x == y) -> qinsert x (qinsert y l) = qinsert y (qinsert x l).
Proof.
  intros [->|Hne]; [reflexivity|]. induction l as [|z l IH]; cbn [qinsert].
  - destruct (Qle_bool x y) eqn:E1, (Qle_bool y x) eqn:E2; qbool; try reflexivity; exfalso; lra.
  - destruct (Qle_bool y z) eqn:E1, (Qle_bool x z) eqn:E2; cbn [qinsert]; rewrite ?E1, ?E2.
    + destruct (Qle_bool x y) eqn:E3, (Qle_bool y x) eqn:E4; qbool; try reflexivity; exfalso; lra.
    + destruct (Qle_bool x y) eqn:E3; qbool; [exfalso; lra|reflexivity].
    + destruct (Qle_bool y x) eqn:E3; qbool; [exfalso; lra|reflexivity].
    + rewrite IH. reflexivity.
Qed.
Lemma qsort_fold l : qsort l = fold_right qinsert [] l.
Proof. induction l as [|x l IH]; cbn [qsort fold_right]; [reflexivity|]. rewrite IH. reflexivity. Qed.
Definition q_ok (x y : Q) : Prop := x = y \/ ~ x == y.
Lemma q_ok_sym x y : q_ok x y -> q_ok y x.
Proof. intros [->|H]; [left; reflexivity|right; intro E; apply H; symmetry; exact E]. Qed.
Lemma canon_pairwise l : forallb canonb l = true -> pairwise q_ok l.
Proof.
  induction l as [|a l IH]; cbn [forallb pairwise]; [auto|]. intro H. apply andb_true_iff in H. destruct H as [Ha Hl].
  split; [|auto]. intros x Hx. rewrite forallb_forall in Hl. specialize (Hl x Hx).
  destruct (Qeq_dec a x) as [E|N]; [left; apply canon_eq; assumption|right; exact N].
Qed.
Lemma qsort_perm_eq l l' : Permutation l l' -> forallb canonb l = true -> qsort l = qsort l'.
Proof.
  intros Hp Hc. rewrite !qsort_fold. apply (fold_ins_perm qinsert q_ok); auto using q_ok_sym, canon_pairwise.
  intros x y t H. apply qinsert_comm. exact H.
Qed.

(* groupby("offset").last(): rows that share a key and agree on the value may come in any order *)
Definition agree_at (k : Q) (rows : list orow) : Prop :=
  forall r1 r2, In r1 rows -> In r2 rows -> fst r1 == k -> fst r2 == k -> snd r1 = snd r2.

Lemma last_nonnull_perm k rows rows' : Permutation rows rows' -> agree_at k rows ->
  forall acc, last_nonnull k rows acc = last_nonnull k rows' acc.
Proof.
  induction 1 as [|x l l' P IH|x y l|l l' l'' P1 IH1 P2 IH2]; intros Ha acc; cbn [last_nonnull]; auto.
  - destruct x as [o v]. assert (Ha': agree_at k l) by (intros r1 r2 H1 H2; apply Ha; right; assumption).
    destruct (Qeq_bool o k); apply IH; exact Ha'.
  - destruct x as [o v], y as [o' v']. destruct (Qeq_bool o k) eqn:E1, (Qeq_bool o' k) eqn:E2; try reflexivity.
    apply Qeq_bool_true in E1, E2.
    assert (E: v' = v) by (apply (Ha (o', v') (o, v)); [left; reflexivity|right; left; reflexivity|exact E2|exact E1]).
    subst v'. destruct v; reflexivity.
  - rewrite (IH1 Ha). apply IH2. intros r1 r2 H1 H2. apply Ha; apply (Permutation_in _ (Permutation_sym P1)); assumption.
Qed.

Lemma last_nonnull_app k A B acc : last_nonnull k (A ++ B) acc = last_nonnull k B (last_nonnull k A acc).
Proof.
  revert acc. induction A as [|[o v] A IH]; intro acc; cbn [app last_nonnull]; [reflexivity|].
  destruct (Qeq_bool o k); apply IH.
Qed.

Lemma svs_agree_sound c : svs_agreeb c = true ->
  forall k, agree_at k (map (fun r : Q * Q => (fst r, Some (snd r))) (sv_rows c)).
Proof.
  unfold svs_agreeb. intros H k r1 r2 H1 H2 E1 E2. apply in_map_iff in H1, H2.
  destruct H1 as [a [<- Ha]]. destruct H2 as [b [<- Hb]]. cbn [fst snd] in *.
  rewrite forallb_forall in H. specialize (H a Ha). rewrite forallb_forall in H. specialize (H b Hb).
  apply orb_true_iff in H. destruct H as [H|H].
  - apply negb_true_iff in H. assert (Qeq_bool (fst a) (fst b) = true) by (apply Qeq_bool_true; rewrite E1, E2; reflexivity). congruence.
  - apply q_same_eq in H. rewrite H. reflexivity.
Qed.

Lemma sv_frame_perm c c' svs svs' omin omax :
  Permutation (c_bpms c) (c_bpms c') -> Permutation svs svs' ->
  (forall k, agree_at k (map (fun r : Q * Q => (fst r, Some (snd r))) svs)) ->
  forallb canonb (map fst (c_bpms c) ++ [omin; omax] ++ map fst svs) = true ->
  sv_frame c' svs' omin omax = sv_frame c svs omin omax.
Proof.
  intros Hb Hs Ha Hc. unfold sv_frame.
  set (B := map (fun r : Q * Q => (fst r, Some 1)) (c_bpms c)). set (B' := map (fun r : Q * Q => (fst r, Some 1)) (c_bpms c')).
  set (S := map (fun r : Q * Q => (fst r, Some (snd r))) svs). set (S' := map (fun r : Q * Q => (fst r, Some (snd r))) svs').
  set (M := [(omin, Some 1); (omax, None)]).
  assert (PB: Permutation B B') by (apply Permutation_map; exact Hb).
  assert (PS: Permutation S S') by (apply Permutation_map; exact Hs).
  assert (PK: Permutation (map fst (B ++ M ++ S)) (map fst (B' ++ M ++ S'))).
  { apply Permutation_map, Permutation_app; [exact PB|]. apply Permutation_app; [apply Permutation_refl|exact PS]. }
  assert (EK: map fst (B ++ M ++ S) = map fst (c_bpms c) ++ [omin; omax] ++ map fst svs).
  { unfold B, S, M. rewrite !map_app, !map_map. reflexivity. }
  rewrite <- (qsort_perm_eq _ _ PK) by (rewrite EK; exact Hc). f_equal. apply map_ext. intro k. f_equal.
  rewrite !last_nonnull_app. rewrite <- (last_nonnull_perm k S S' PS (Ha k)). f_equal. f_equal.
  symmetry. apply last_nonnull_perm; [exact PB|]. intros r1 r2 H1 H2 _ _. unfold B in H1, H2.
  apply in_map_iff in H1, H2. destruct H1 as [? [<- _]]. destruct H2 as [? [<- _]]. reflexivity.
Qed.

Lemma canon_in l x : forallb canonb l = true -> In x l -> canonb x = true.
Proof. intros H Hx. rewrite forallb_forall in H. auto. Qed.

Lemma oq_rel_canon l l' (f : list Q -> option Q) :
  (forall m, f l = Some m -> In m l) -> (forall m, f l' = Some m -> In m l') ->
  Permutation l l' -> forallb canonb l = true -> oq_rel (f l) (f l') -> f l' = f l.
Proof.
  intros I1 I2 Hp Hc R. destruct (f l) as [m|] eqn:E, (f l') as [m'|] eqn:E'; cbn in R; [|destruct R|destruct R|reflexivity].
  f_equal. symmetry. apply canon_eq; [apply (canon_in l); auto|apply (canon_in l); [exact Hc|]|exact R].
  apply (Permutation_in _ (Permutation_sym Hp)). auto.
Qed.

(* everything of scroll_speed after the choice of the reference *)
Theorem scroll_speed_with_perm c c' ref : an_chart_perm c c' ->
  distinct_times (tempo_times c) = true -> canon_offsets c = true -> svs_agreeb c = true ->
  scroll_speed_with c' ref = scroll_speed_with c ref.
Proof.
  intros H Hd Hc Ha. pose proof (stack_offsets_perm c c' H) as Hs. unfold canon_offsets in Hc.
  unfold scroll_speed_with.
  rewrite (oq_rel_canon _ _ qmin_list (fun m E => proj1 (qmin_list_spec _ m E)) (fun m E => proj1 (qmin_list_spec _ m E)) Hs Hc (qmin_list_perm _ _ Hs)).
  rewrite (oq_rel_canon _ _ qmax_list (fun m E => proj1 (qmax_list_spec _ m E)) (fun m E => proj1 (qmax_list_spec _ m E)) Hs Hc (qmax_list_perm _ _ Hs)).
  destruct (qmin_list (stack_offsets c)) as [omin|] eqn:Emin; [|reflexivity].
  destruct (qmax_list (stack_offsets c)) as [omax|] eqn:Emax; [|reflexivity].
  destruct H as [Hb [Hv Hn]]. apply distinct_times_sound in Hd. unfold tempo_times in Hd.
  rewrite (bpm_frame_perm c c' omin omax Hb Hd).
  unfold opt_perm in Hv. pose proof (svs_agree_sound c Ha) as Hag. unfold sv_rows in Hag.
  destruct (c_svs c) as [svs|] eqn:Es, (c_svs c') as [svs'|]; [|destruct Hv|destruct Hv|reflexivity].
  rewrite (sv_frame_perm c c' svs svs' omin omax Hb Hv Hag); [reflexivity|].
  apply forallb_forall. intros x Hx. apply (canon_in (stack_offsets c)); [exact Hc|].
  assert (Iv: forall y, In y (map fst svs) -> In y (stack_offsets c)).
  { intros y Hy. unfold stack_offsets, sv_rows. rewrite Es. apply in_or_app. right. apply in_or_app. left. exact Hy. }
  apply in_app_or in Hx. destruct Hx as [Hx|Hx]; [unfold stack_offsets; apply in_or_app; left; exact Hx|].
  apply in_app_or in Hx. destruct Hx as [Hx|Hx]; [|apply Iv; exact Hx].
  destruct Hx as [<-|[<-|[]]]; [apply (proj1 (qmin_list_spec _ _ Emin))|apply (proj1 (qmax_list_spec _ _ Emax))].
Qed.

(* MAIN (scroll speed): the same breakpoints with the same speeds, in the same order *)
Theorem scroll_speed_perm c c' ov : an_chart_perm c c' ->
  distinct_times (tempo_times c) = true -> canon_offsets c = true -> svs_agreeb c = true ->
  scroll_speed c' ov = scroll_speed c ov.
Proof.
  intros H Hd Hc Ha. unfold scroll_speed. rewrite (reference_bpm_perm c c' ov H Hd).
  destruct (reference_bpm c ov) as [ref|]; [|reflexivity]. apply scroll_speed_with_perm; assumption.
Qed.

(* the side condition on coincident SVs is needed: with different multipliers at one time the LAST ROW wins *)
Theorem scroll_speed_perm_needs_agree_refuted :
  exists c c' ov, an_chart_perm c c' /\ distinct_times (tempo_times c) = true /\ canon_offsets c = true
                  /\ scroll_speed c' ov <> scroll_speed c ov.
Proof.
  exists (mkChart [(0, 120)] (Some [(0, 2); (0, 3)]) [0; 1000]), (mkChart [(0, 120)] (Some [(0, 3); (0, 2)]) [0; 1000]), None.
  split; [split; [apply Permutation_refl|split; [apply perm_swap|apply Permutation_refl]]|].
  split; [vm_compute; reflexivity|]. split; [vm_compute; reflexivity|]. vm_compute. discriminate.
Qed.

(* ------------------------------------------------------------------ the boolean domain evaluated by the runner *)
Lemma remove_pair_perm x l r : remove_pair x l = Some r -> Permutation l (x :: r).
Proof.
  revert r. induction l as [|y l IH]; intros r H; cbn [remove_pair] in H; [discriminate|].
  destruct (q_same (fst x) (fst y) && q_same (snd x) (snd y)) eqn:E.
  - injection H as <-. apply andb_true_iff in E. destruct E as [E1 E2]. apply q_same_eq in E1, E2.
    destruct x, y. cbn [fst snd] in *. subst. apply Permutation_refl.
  - destruct (remove_pair x l) as [t|]; [|discriminate]. injection H as <-.
    apply perm_trans with (y :: x :: t); [apply perm_skip, IH; reflexivity|apply perm_swap].
Qed.
Lemma perm_pairsb_sound a : forall b, perm_pairsb a b = true -> Permutation a b.
Proof.
  induction a as [|x a IH]; intros b H; cbn [perm_pairsb] in H.
  - destruct b; [constructor|discriminate].
  - destruct (remove_pair x b) as [r|] eqn:E; [|discriminate].
    apply perm_trans with (x :: r); [apply perm_skip, IH; exact H|apply Permutation_sym, remove_pair_perm; exact E].
Qed.
Lemma map_pair0_inj (l l' : list Q) : Permutation (map (fun q => (q, 0)) l) (map (fun q => (q, 0)) l') -> Permutation l l'.
Proof.
  intro H. apply (Permutation_map fst) in H. rewrite !map_map in H. cbn [fst] in H. rewrite !map_id in H. exact H.
Qed.
Theorem an_chart_permb_sound c c' : an_chart_permb c c' = true -> an_chart_perm c c'.
Proof.
  unfold an_chart_permb, an_chart_perm. intro H. apply andb_true_iff in H. destruct H as [H H3].
  apply andb_true_iff in H. destruct H as [H1 H2]. split; [apply perm_pairsb_sound; exact H1|]. split.
  - unfold opt_perm. destruct (c_svs c), (c_svs c'); try discriminate; [apply perm_pairsb_sound; exact H2|exact I].
  - apply map_pair0_inj, perm_pairsb_sound. exact H3.
Qed.

(* the theorems on the boolean domain the runner evaluates on every generated case *)
Theorem dominant_bpm_perm_b c c' : dom_dominant c c' = true -> dominant_bpm c' = dominant_bpm c.
Proof.
  unfold dom_dominant. intro H. apply andb_true_iff in H. destruct H as [H1 H2].
  apply dominant_bpm_perm; [apply an_chart_permb_sound; exact H1|exact H2].
Qed.
Theorem sv_normalize_perm_b c c' ov : dom_dominant c c' = true -> opt_perm (sv_normalize c ov) (sv_normalize c' ov).
Proof.
  unfold dom_dominant. intro H. apply andb_true_iff in H. destruct H as [H1 H2].
  apply sv_normalize_perm; [apply an_chart_permb_sound; exact H1|exact H2].
Qed.
Theorem scroll_speed_perm_b c c' ov : dom_scroll c c' = true -> scroll_speed c' ov = scroll_speed c ov.
Proof.
  unfold dom_scroll, dom_dominant. intro H. apply andb_true_iff in H. destruct H as [H H4].
  apply andb_true_iff in H. destruct H as [H H3]. apply andb_true_iff in H. destruct H as [H1 H2].
  apply scroll_speed_perm; try assumption. apply an_chart_permb_sound. exact H1.
Qed.
