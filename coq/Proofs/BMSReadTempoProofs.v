(* C04: the tempo list of the chart read from a text whose tempo objects all sit on measure lines (bms_tempo_on_lines).
   No reseating is needed there: TimingMap.reseat() returns from_bpm_changes_snap of the (re-derived) script, so the read
   RETURNS and the chart's tempo list is exactly the denoted tempo script: same count, same order, each point at the
   integrated time of its change with its tempo, metronome 4 (bms_read_tempo_list_on_lines). *)
From Coq Require Import ZArith QArith Qround Qabs List Bool Lia Lqa Sorting.Permutation.
From RV Require Import Base.PyNum Timing.Snapper Timing.Snap Timing.TimingMap Timing.Reseat Timing.Integrate Timing.Domain
  Formats.BMSText Formats.BMS Formats.BMSSpec Formats.BMSGuards Proofs.SnapperProofs Proofs.TimingProofs
  Proofs.RederiveProofs Proofs.TimingProofs2 Proofs.BMSProofs Proofs.BMSDenoteProofs Proofs.BMSParseProofs
  Proofs.BMSWriteTimingProofs Proofs.BMSWriteDenoteProofs Proofs.BMSReadReturnsProofs.
Import ListNotations.
Open Scope Z_scope.

Lemma script_ok_sim tbl : forall rest' rest p' p, sim p' p -> Forall2 sim rest' rest -> script_ok tbl p rest -> script_ok tbl p' rest'.
Proof.
  induction rest' as [|c' rest' IH]; intros rest p' p Sp F Hs; inversion F as [|? c ? rest0 Sc F']; subst; [exact I|].
  destruct Hs as [St Hs]. split; [apply (step_ok_sim tbl p' p c' c Sp Sc St)|apply (IH rest0 c' c Sc F' Hs)].
Qed.

(* the millisecond form of a script (Prop-level): each tempo point at the integrated time of its change *)
Lemma script_change_times tbl (Hok : table_ok (1 # 96) tbl = true) c0 rest :
  node_ok c0 -> s_m (bs_snap c0) = 0 -> (s_b (bs_snap c0) == 0)%Q -> script_ok tbl c0 rest ->
  exists bcos, from_bcs 0 (c0 :: rest) = Some bcos
    /\ Forall2 (fun cc b => (bo_off b == time_of 0 (c0 :: rest) (bs_snap cc))%Q /\ bo_bpm b = bs_bpm cc /\ bo_met b = bs_met cc) (c0 :: rest) bcos.
Proof.
  intros H0 Hm0 Hb0 Hs.
  destruct (script_pairs tbl Hok 0 c0 rest H0 Hm0 Hb0 Hs) as [brest [c0' [bcss' [E1 [_ [_ [_ [_ [E6 _]]]]]]]]]. cbv zeta in *.
  eexists. split; [exact E1|]. constructor.
  - cbn [bo_off bo_bpm bo_met time_of]. split; [|split; reflexivity].
    rewrite time_of_go_before by (intros x I; apply (script_ok_all_slt tbl rest c0 Hs x I)).
    rewrite seg_beats_self. ring.
  - pose proof (linked_times tbl rest brest 0 c0 Hs E6) as T.
    assert (Lk : forall rest brest off p, linked off p rest brest -> Forall2 (fun cc b => bo_bpm b = bs_bpm cc /\ bo_met b = bs_met cc) rest brest).
    { induction rest0 as [|x r IH]; intros br off p L; destruct br as [|y br]; cbn [linked] in L; try contradiction; constructor.
      - destruct L as [A [B _]]. split; assumption.
      - destruct L as [_ [_ [_ L']]]. eapply IH; exact L'. }
    specialize (Lk rest brest 0%Q c0 E6).
    change (Forall2 (fun cc b => (bo_off b == time_of_go 0 c0 rest (bs_snap cc))%Q /\ bo_bpm b = bs_bpm cc /\ bo_met b = bs_met cc) rest brest).
    clear - T Lk. revert T Lk. generalize (time_of_go 0 c0 rest). intros f T Lk.
    induction T as [|cc b r br E _ IH]; inversion Lk as [|? ? ? ? K Lk']; subst; constructor; auto.
    split; [symmetry; exact E|exact K].
Qed.

Lemma times_transport (f g : snap -> Q) : (forall q, (f q == g q)%Q) -> (forall q q', ssim q q' -> (g q == g q')%Q) ->
  forall l' l bp, Forall2 sim l' l ->
  Forall2 (fun cc b => (bo_off b == f (bs_snap cc))%Q /\ bo_bpm b = bs_bpm cc /\ bo_met b = bs_met cc) l' bp ->
  Forall2 (fun cc b => (bo_off b == g (bs_snap cc))%Q /\ bo_bpm b = bs_bpm cc /\ bo_met b = bs_met cc) l bp.
Proof.
  intros Hfg Hg l' l bp S. revert bp. induction S as [|x y l' l Sxy _ IH]; intros bp Tb; inversion Tb as [|? b ? bp' [T1 [T2 T3]] Tb']; subst; constructor.
  - pose proof (sim_ssim _ _ Sxy) as Sq. destruct Sxy as [P1 [P2 _]]. split; [|split; congruence].
    rewrite T1, Hfg. apply Hg. exact Sq.
  - apply IH. exact Tb'.
Qed.

Section ReadTempo.
  Variable tbl : list Q.
  Hypothesis Hok : table_ok (1 # 96) tbl = true.

  (* reseat of a script on measure lines: the millisecond form of the script itself *)
  Lemma tm_reseat_on_lines c0 rest tm :
    node_ok c0 -> s_m (bs_snap c0) = 0 -> (s_b (bs_snap c0) == 0)%Q -> script_ok tbl c0 rest ->
    Forall (fun cc => (s_b (bs_snap cc) == 0)%Q) rest ->
    from_bcs 0 (c0 :: rest) = Some tm ->
    exists bp, tm_reseat tbl tm = Some bp
      /\ Forall2 (fun cc b => (bo_off b == time_of 0 (c0 :: rest) (bs_snap cc))%Q /\ bo_bpm b = bs_bpm cc /\ bo_met b = bs_met cc) (c0 :: rest) bp.
  Proof.
    intros H0 Hm0 Hb0 Hs Hz F.
    destruct (script_pairs tbl Hok 0 c0 rest H0 Hm0 Hb0 Hs) as [brest [c0' [bcss' [E1 [E2 [E3 [E4 [E5 _]]]]]]]]. cbv zeta in *.
    rewrite F in E1. inversion E1; subst tm. clear E1.
    (* the re-derived script is a script too *)
    pose proof (node_ok_sim c0' c0 E4 H0) as H0'. pose proof (script_ok_sim tbl bcss' rest c0' c0 E4 E5 Hs) as Hs'.
    pose proof E4 as [_ [_ [A0 [B0 _]]]].
    assert (Hm0' : s_m (bs_snap c0') = 0) by lia. assert (Hb0' : (s_b (bs_snap c0') == 0)%Q) by (rewrite B0; exact Hb0).
    destruct (script_change_times tbl Hok c0' bcss' H0' Hm0' Hb0' Hs') as [bp [Fb Tb]].
    exists bp. split.
    - unfold tm_reseat. rewrite E2, E3. cbn [bo_off]. unfold from_bcs_reseat.
      rewrite (sort_by_adj_ok bcs_lt (c0' :: bcss') (script_adj_ok tbl c0' bcss' Hs')).
      assert ((s_m (bs_snap c0') =? 0) = true) as -> by (apply Z.eqb_eq; exact Hm0').
      assert (Qeq_bool (s_b (bs_snap c0')) 0 = true) as -> by (apply Qeq_bool_iff; exact Hb0'). cbn [andb negb].
      assert (existsb (fun c => negb (Qeq_bool (s_b (bs_snap c)) 0)) (c0' :: bcss') = false) as ->; [|exact Fb].
      destruct (existsb _ (c0' :: bcss')) eqn:X; [|reflexivity]. exfalso. apply existsb_exists in X. destruct X as [x [Ix Ex]].
      apply negb_true_iff in Ex. destruct Ix as [<-|Ix].
      + assert (Qeq_bool (s_b (bs_snap c0')) 0 = true) by (apply Qeq_bool_iff; exact Hb0'). congruence.
      + destruct (forall2_in_l _ _ _ _ E5 Ix) as [y [Iy [_ [_ [_ [By _]]]]]]. rewrite Forall_forall in Hz.
        assert (Qeq_bool (s_b (bs_snap x)) 0 = true) by (apply Qeq_bool_iff; rewrite By; apply Hz; exact Iy). congruence.
    - (* transport along sim *)
      assert (S : Forall2 sim (c0' :: bcss') (c0 :: rest)) by (constructor; assumption).
      assert (Tq : forall q, (time_of 0 (c0' :: bcss') q == time_of 0 (c0 :: rest) q)%Q).
      { intro q. cbn [time_of]. apply (time_of_go_sim rest bcss' E5 0%Q c0 c0' q E4). }
      apply (times_transport (time_of 0 (c0' :: bcss')) (time_of 0 (c0 :: rest)) Tq (fun q q' Sq => time_of_qssim 0%Q (c0 :: rest) q q' Sq) _ _ _ S Tb).
  Qed.

  Lemma script_members bpm0 tempos cc : In cc (script_of bpm0 tempos) -> cc = origin_bcs bpm0 \/ In cc tempos.
  Proof.
    unfold script_of. change (fun a b : bcs => snap_lt (bs_snap a) (bs_snap b)) with bcs_lt.
    assert (P : forall x, In x (sort_by bcs_lt tempos) -> In x tempos).
    { intros x I. apply (Permutation_in _ (Permutation_sym (sort_by_perm bcs_lt tempos)) I). }
    destruct (sort_by bcs_lt tempos) as [|c r] eqn:E.
    - intros [<-|[]]. left. reflexivity.
    - destruct (at_origin (bs_snap c)); intro I.
      + right. apply P. exact I.
      + destruct I as [<-|I]; [left; reflexivity|right; apply P; exact I].
  Qed.

  (* bms_read_tempo_list_on_lines *)
  Theorem bms_read_tempo_list_on_lines (lay : layout) (mk : Z) (lines : list text) :
    layout_ok mk lay = true -> text_dom lay lines -> read_guards tbl lines = true -> bms_tempo_on_lines lines = true ->
    exists c d, bms_read tbl lay mk lines = Some c /\ bms_denote lay lines = Some d /\ chart_denotes c d
      /\ Forall2 (fun b tb => (bo_off b == fst tb)%Q /\ bo_bpm b = snd tb /\ bo_met b = 4%Q) (c_bpms c) (d_tempo d).
  Proof.
    intros Lok TD G On.
    destruct (bms_read_returns tbl Hok lay mk lines Lok TD G) as [bv [bpm0 [tempos [tm [Hb [Hp [Ht [F [Ret _]]]]]]]]].
    destruct (td_denote lay lines TD) as [d [Hd Pos]].
    destruct (bms_denote_inv lay lines d Hd) as [bv' [bpm0' [tempos' [extq [hits [holds [Hb' [Hp' [Ht' [_ [_ Rd]]]]]]]]]]].
    fold (sobjs_of lines) in Ht. rewrite Hb in Hb'. inversion Hb'; subst bv'. rewrite Hp in Hp'. inversion Hp'; subst bpm0'.
    rewrite Ht in Ht'. inversion Ht'; subst tempos'. cbv zeta in Rd. destruct Rd as [_ [_ [Rt _]]].
    pose proof (sobjs_ok lines (td_data lay lines TD)) as Fo.
    destruct (tempo_objs_facts _ _ _ Ht Fo (td_tempo_pos lay lines TD)) as [Nd [Ft Fsrc]].
    assert (Dn : domainb tbl (script_of bpm0 tempos) [] = true).
    { pose proof G as G'. unfold read_guards, tempo_on_grid in G'. fold (sobjs_of lines) in G'. rewrite Ht in G'.
      apply andb_true_iff in G'. destruct G' as [Pg _].
      apply (script_in_domain tbl bpm0 tempos [] Ft Nd); [|exact Pg|constructor].
      rewrite Rt in Pos. rewrite forallb_forall in Pos. apply Forall_forall. intros cc I. apply Qlt_bool_iff.
      apply (Pos (Qred (time_of 0 (script_of bpm0 tempos) (bs_snap cc)), bs_bpm cc)). apply in_map_iff. exists cc. split; [reflexivity|exact I]. }
    (* every change of the script sits on a measure line, metronome 4 *)
    assert (Hall : forall cc, In cc (script_of bpm0 tempos) -> (s_b (bs_snap cc) == 0)%Q /\ bs_met cc = 4%Q).
    { intros cc I. destruct (script_members bpm0 tempos cc I) as [->|It]; [split; reflexivity|].
      rewrite Forall_forall in Ft. destruct (Ft cc It) as [M _]. split; [|exact M].
      destruct (Fsrc cc It) as [o [Io Es]]. apply filter_In in Io. destruct Io as [Io Tc]. rewrite Es.
      unfold bms_tempo_on_lines in On. rewrite forallb_forall in On. specialize (On o Io). unfold tchan in Tc. rewrite Tc in On. cbn [negb orb] in On.
      apply Qeq_bool_iff in On. unfold snap_of, BEATS_PER_MEASURE. cbn [s_b]. rewrite Qred_correct, On. reflexivity. }
    destruct (domainb_nil_sound tbl _ Dn) as [c0 [rest [Es [H0 [Hm0 [Hb0 Hs]]]]]]. rewrite Es in *.
    destruct (tm_reseat_on_lines c0 rest tm H0 Hm0 Hb0 Hs) as [bp [Er Tb]]; [|exact F|].
    { apply Forall_forall. intros cc I. apply (Hall cc). right. exact I. }
    destruct (Ret bp Er) as [c [Rc Ec]].
    destruct (bms_read_text_denotes tbl Hok lay mk lines c Lok TD G Rc) as [d' [Hd' Cd]]. rewrite Hd in Hd'. inversion Hd'; subst d'.
    exists c, d. split; [exact Rc|]. split; [exact Hd|]. split; [exact Cd|]. rewrite Ec, Rt.
    apply forall2_flip_map. apply (forall2_impl_in _ _ _ _ Tb). intros cc b I [T1 [T2 T3]]. cbn [fst snd].
    split; [rewrite Qred_correct; exact T1|]. split; [exact T2|]. rewrite T3. apply (Hall cc I).
  Qed.

  Corollary bms_read_wf_tempo_list_on_lines (lay : layout) (mk : Z) (lines : list text) :
    layout_ok mk lay = true -> wf_bms_lines lay lines = true -> read_guards tbl lines = true -> bms_tempo_on_lines lines = true ->
    exists c d, bms_read tbl lay mk lines = Some c /\ bms_denote lay lines = Some d /\ chart_denotes c d
      /\ Forall2 (fun b tb => (bo_off b == fst tb)%Q /\ bo_bpm b = snd tb /\ bo_met b = 4%Q) (c_bpms c) (d_tempo d).
  Proof. intros L W G O. apply (bms_read_tempo_list_on_lines lay mk lines L (wf_text_dom lay lines W) G O). Qed.
End ReadTempo.
