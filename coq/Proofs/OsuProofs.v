(* Proofs for C01 (osu!mania codec): arithmetic of the column<->x mapping,
   code<->value inverses, int() truncation (bounds, idempotence, no drift), line-level codec theorems,
   metadata values (text after the first colon).  Whole-file theorems: Proofs/OsuRead.v, OsuWrite.v, OsuWhole.v. *)
From Coq Require Import String Ascii.
From Coq Require Import ZArith QArith Qround Qabs List Bool Lia Lqa Qfield.
From RV Require Import Base.PyNum Base.Text Formats.Osu Formats.OsuSpec.
Import ListNotations.
Open Scope Z_scope.

(* ------------------------------------------------------------------ finite sweeps as proofs *)
Definition zrange (lo : Z) (n : nat) : list Z := map (fun i => lo + Z.of_nat i) (seq 0 n).

Lemma forallb_zrange (P : Z -> bool) lo n :
  forallb P (zrange lo n) = true -> forall x, lo <= x < lo + Z.of_nat n -> P x = true.
Proof.
  intros H x Hx. rewrite forallb_forall in H. apply H. unfold zrange.
  apply in_map_iff. exists (Z.to_nat (x - lo)). split; [lia|]. apply in_seq. lia.
Qed.

Definition keys_range := zrange 1 18.
Lemma in_keys k : 1 <= k <= 18 -> forall P, forallb P keys_range = true -> P k = true.
Proof. intros Hk P H. apply (forallb_zrange P 1 18 H). simpl. lia. Qed.

(* ------------------------------------------------------------------ column <-> x *)
(* x_axis_to_column is integer arithmetic: the model's column IS the format's column, for every key
   count and every integer x (no guard) *)
Theorem x_to_col_exact k x : x_to_col x k = column_of x k.
Proof. unfold x_to_col, column_of. lia. Qed.

(* every x inside a column's range maps to that column, clamping outside *)
Theorem x_in_range_col k x c : 0 <= c < k -> in_column_range x c k -> x_to_col x k = c.
Proof. intros Hc R. unfold x_to_col, in_column_range in *. lia. Qed.
Theorem x_clamped k x : 1 <= k -> (x < 0 -> x_to_col x k = 0) /\ (512 <= x -> x_to_col x k = k - 1).
Proof.
  intro Hk. unfold x_to_col. split; intro H.
  - assert (x * k / 512 < 0) by (apply Z.div_lt_upper_bound; nia). lia.
  - assert (k <= x * k / 512) by (apply Z.div_le_lower_bound; nia). lia.
Qed.

(* writing a column and reading it back: all key counts 1..18, all columns *)
Definition inverse_ok (k : Z) : bool :=
  forallb (fun c => (x_to_col (col_to_x c k) k =? c) && (col_to_x c k * k / 512 =? c)) (zrange 0 (Z.to_nat k)).
Lemma inverse_all : forallb inverse_ok keys_range = true.
Proof. vm_compute. reflexivity. Qed.

Theorem x_col_inverse k c : 1 <= k <= 18 -> 0 <= c < k -> x_to_col (col_to_x c k) k = c.
Proof.
  intros Hk Hc. pose proof (in_keys k Hk inverse_ok inverse_all) as S. unfold inverse_ok in S.
  pose proof (forallb_zrange _ 0 (Z.to_nat k) S c ltac:(lia)) as E. simpl in E.
  apply andb_true_iff in E. destruct E as [E _]. apply Z.eqb_eq in E. exact E.
Qed.
(* the x written for a column lies inside that column's range *)
Theorem col_to_x_in_range k c : 1 <= k <= 18 -> 0 <= c < k -> in_column_range (col_to_x c k) c k.
Proof.
  intros Hk Hc. pose proof (in_keys k Hk inverse_ok inverse_all) as S. unfold inverse_ok in S.
  pose proof (forallb_zrange _ 0 (Z.to_nat k) S c ltac:(lia)) as E. simpl in E.
  apply andb_true_iff in E. destruct E as [_ E]. apply Z.eqb_eq in E. exact E.
Qed.

(* HISTORICAL: the OLD x_axis_to_column (before repo commit 36d1b4c) divided by the binary64 value of
   512 / keys; that variant mis-assigned exactly one point.  Not part of the model any more. *)
Module OldColumn.
  Definition colw_table : list Q :=
    [(512#1); (256#1); (6004799503160661#35184372088832); (128#1); (3602879701896397#35184372088832);
     (6004799503160661#70368744177664); (2573485501354569#35184372088832); (64#1);
     (2001599834386887#35184372088832); (3602879701896397#70368744177664); (3275345183542179#70368744177664);
     (6004799503160661#140737488355328); (1385722962267845#35184372088832); (2573485501354569#70368744177664);
     (4803839602528529#140737488355328); (32#1); (4238682002231055#140737488355328);
     (2001599834386887#70368744177664)]%Q.
  Definition colw (k : Z) : Q := nth (Z.to_nat (k - 1)) colw_table (512 / inject_Z k)%Q.
  Definition x_to_col_old (x k : Z) : Z := Z.max (Z.min (Qfloor (inject_Z x / colw k)) (k - 1)) 0.
  Theorem old_x_in_range_col_refuted :
    exists k x c, 1 <= k <= 18 /\ 0 <= c < k /\ in_column_range x c k /\ x_to_col_old x k <> c.
  Proof. exists 10, 256, 5. unfold in_column_range. vm_compute. repeat split; congruence. Qed.
  (* inside 0 <= x < 512 it was the only one *)
  Theorem old_only_one_point :
    forallb (fun k => forallb (fun x => ((k =? 10) && (x =? 256)) || (x_to_col_old x k =? column_of x k)) (zrange 0 512))
            keys_range = true.
  Proof. vm_compute. reflexivity. Qed.
End OldColumn.

Lemma Qfloor_div_Z a k : 0 < k -> Qfloor (inject_Z a / inject_Z k) = a / k.
Proof.
  intro H. destruct k as [|p|p]; try lia.
  unfold Qdiv, Qmult, Qinv, inject_Z, Qfloor. simpl. rewrite Z.mul_1_r. reflexivity.
Qed.
(* the writer uses the centre floor((512 c + 256) / keys) *)
Theorem col_to_x_centre c k : 0 < k -> col_to_x c k = centre_of c k.
Proof. intro H. unfold col_to_x, centre_of. apply Qfloor_div_Z. exact H. Qed.

(* ------------------------------------------------------------------ code <-> value *)
Open Scope Q_scope.
Theorem bpm_code_value_inverse v : ~ v == 0 -> 60000 / (60000 / v) == v.
Proof. intro H. field. auto. Qed.
Theorem sv_code_value_inverse v : ~ v == 0 -> (-100) / ((-100) / v) == v.
Proof. intro H. field. auto. Qed.
Lemma code_nonzero c v : ~ v == 0 -> ~ c == 0 -> ~ c / v == 0.
Proof.
  intros Hv Hc E. apply Hc. assert (X: c == c / v * v) by (field; auto). rewrite X, E. ring.
Qed.

(* ------------------------------------------------------------------ int() truncation *)
Lemma qtrunc_Z z : qtrunc (inject_Z z) = z.
Proof.
  unfold qtrunc. destruct (Qle_bool 0 (inject_Z z)) eqn:E.
  - apply Qfloor_Z.
  - change (- inject_Z z) with (inject_Z (- z)). rewrite Qfloor_Z. lia.
Qed.

(* no drift: truncating a truncated time changes nothing *)
Theorem trunc_idem x : qtrunc (inject_Z (qtrunc x)) = qtrunc x.
Proof. apply qtrunc_Z. Qed.

Lemma qtrunc_comp x y : x == y -> qtrunc x = qtrunc y.
Proof.
  intro E. unfold qtrunc. rewrite (Qleb_comp 0 0 (Qeq_refl 0) x y E).
  destruct (Qle_bool 0 y); [apply Qfloor_comp; exact E|]. f_equal. apply Qfloor_comp. rewrite E. reflexivity.
Qed.

(* int() moves a time toward zero by less than 1 ms *)
Theorem trunc_toward_zero x : time_moved_toward_zero x (inject_Z (qtrunc x)).
Proof.
  unfold time_moved_toward_zero, qtrunc. destruct (Qle_bool 0 x) eqn:E.
  - apply Qle_bool_iff in E. pose proof (Qfloor_le x) as A. pose proof (Qlt_floor x) as B.
    rewrite inject_Z_plus in B. change (inject_Z 1) with 1 in B.
    assert (P: 0 <= inject_Z (Qfloor x)).
    { change 0 with (inject_Z 0). rewrite <- Zle_Qle. change 0%Z with (Qfloor 0). apply Qfloor_resp_le. exact E. }
    rewrite (Qabs_pos x E), (Qabs_pos _ P). repeat split; try lra.
  - apply Qle_bool_false in E. pose proof (Qfloor_le (- x)) as A. pose proof (Qlt_floor (- x)) as B.
    rewrite inject_Z_plus in B. change (inject_Z 1) with 1 in B.
    assert (P: 0 <= inject_Z (Qfloor (- x))).
    { change 0 with (inject_Z 0). rewrite <- Zle_Qle. change 0%Z with (Qfloor 0). apply Qfloor_resp_le. lra. }
    rewrite inject_Z_opp.
    rewrite (Qabs_neg x) by lra. rewrite (Qabs_neg (- inject_Z (Qfloor (- x)))) by lra.
    repeat split; try lra.
Qed.
Close Scope Q_scope.

(* ------------------------------------------------------------------ text lemmas for the line codecs *)
Lemma in_join d c l : In d (join c l) -> d = c \/ exists p, In p l /\ In d p.
Proof.
  induction l as [|a l IH]; [simpl; tauto|].
  destruct l as [|b l'].
  - simpl. intro H. right. exists a. split; [left; reflexivity|exact H].
  - change (join c (a :: b :: l')) with (a ++ c :: join c (b :: l')). intro H.
    apply in_app_or in H. destruct H as [H|[H|H]].
    + right. exists a. split; [left; auto|auto].
    + left. auto.
    + destruct (IH H) as [E|[p [P1 P2]]]; [left; auto|right; exists p; split; [right; auto|auto]].
Qed.

Definition sep_free (s : text) : Prop := ~ In COMMA s /\ ~ In COLON s.

Lemma show_int_no_comma z : ~ In COMMA (show_int z).
Proof. apply show_int_no. reflexivity. Qed.
Lemma show_int_no_colon z : ~ In COLON (show_int z).
Proof. apply show_int_no. reflexivity. Qed.
Lemma count_show_int_comma z : count COMMA (show_int z) = O.
Proof. apply count_zero_iff. apply show_int_no_comma. Qed.
Lemma count_show_int_colon z : count COLON (show_int z) = O.
Proof. apply count_zero_iff. apply show_int_no_colon. Qed.

Lemma digits_lower_e s : forallb is_digit s = true -> map lower_e s = s.
Proof.
  induction s as [|c s IH]; simpl; auto. intro H. apply andb_true_iff in H. destruct H as [H1 H2].
  rewrite IH by auto. f_equal. unfold lower_e. destruct (Z.eqb_spec c 69); auto. subst. discriminate.
Qed.

Lemma parse_udec_show_nat n : 0 <= n -> exists q, parse_udec (show_nat n) = Some q /\ (q == inject_Z n)%Q.
Proof.
  intro H. pose proof (show_nat_digits n) as D. pose proof (parse_show_nat n H) as P.
  pose proof (show_nat_nonempty n) as NE. unfold parse_udec. rewrite digits_lower_e by exact D.
  rewrite split_on_no_sep by (eapply forallb_not_in; [exact D|reflexivity]).
  unfold parse_mantissa. rewrite split_on_no_sep by (eapply forallb_not_in; [exact D|reflexivity]).
  unfold parse_nat in P. destruct (show_nat n) as [|c r] eqn:S; [congruence|]. rewrite P. cbn [option_map].
  eexists. split; [reflexivity|]. rewrite Qred_correct. unfold pow10. simpl. ring.
Qed.

Lemma parse_dec_digit_head c r : is_digit c = true -> parse_dec (c :: r) = parse_udec (c :: r).
Proof.
  unfold is_digit. intro F. apply andb_true_iff in F. destruct F as [F1 F2].
  apply Z.leb_le in F1. apply Z.leb_le in F2. unfold parse_dec.
  destruct c as [|p|p]; try lia.
  do 6 (destruct p as [p|p|]; try lia; try reflexivity).
Qed.

(* float(str(z)) denotes z *)
Theorem py_float_show_int z : exists q, py_float (show_int z) = Some q /\ (q == inject_Z z)%Q.
Proof.
  unfold py_float. rewrite strip_show_int. unfold show_int. destruct (Z.ltb_spec z 0) as [L|L].
  - destruct (parse_udec_show_nat (- z) ltac:(lia)) as [q [P E]].
    cbn [parse_dec]. rewrite P. cbn [option_map]. eexists. split; [reflexivity|].
    rewrite Qred_correct, E. rewrite inject_Z_opp. ring.
  - destruct (parse_udec_show_nat z L) as [q [P E]].
    pose proof (show_nat_first_digit z) as F. destruct (show_nat z) as [|c r] eqn:S; [contradiction|].
    rewrite parse_dec_digit_head by exact F. exists q. split; auto.
Qed.

(* ------------------------------------------------------------------ hit / hold lines *)
Definition hit_params (n : note) : list text :=
  [show_int (n_ss n); show_int (n_as n); show_int (n_cs n); show_int (n_vol n); n_file n].
Definition hold_params (n : note) : list text :=
  show_int (qtrunc (n_off n + n_len n)) :: hit_params n.

Lemma params_no_comma (l : list text) : Forall (fun p => ~ In COMMA p) l -> ~ In COMMA (join COLON l).
Proof.
  intros F I. apply in_join in I. destruct I as [E|[p [P1 P2]]]; [discriminate|].
  rewrite Forall_forall in F. exact (F p P1 P2).
Qed.

Lemma hit_params_ok n : sep_free (n_file n) ->
  Forall (fun p => ~ In COMMA p) (hit_params n) /\ Forall (fun p => ~ In COLON p) (hit_params n).
Proof.
  intros [A B]. split; repeat constructor; auto using show_int_no_comma, show_int_no_colon.
Qed.
Lemma hold_params_ok n : sep_free (n_file n) ->
  Forall (fun p => ~ In COMMA p) (hold_params n) /\ Forall (fun p => ~ In COLON p) (hold_params n).
Proof.
  intro H. destruct (hit_params_ok n H) as [A B]. split; constructor; auto using show_int_no_comma, show_int_no_colon.
Qed.

Lemma count_params_colon l : Forall (fun p => ~ In COLON p) l -> count COLON (join COLON l) = pred (length l).
Proof.
  intro F. rewrite count_join. rewrite Z.eqb_refl.
  assert (S: sum_nat (map (count COLON) l) = O).
  { induction F as [|p l Hp F IH]; simpl; auto. apply count_zero_iff in Hp. rewrite Hp, IH. reflexivity. }
  rewrite S. reflexivity.
Qed.

(* what the classifiers see on a line built from 5 comma-free, colon-free fields and a parameter list *)
Lemma note_line_counts (f0 f1 f2 f3 f4 : text) (ps : list text) :
  Forall (fun p : text => ~ In COMMA p /\ ~ In COLON p) [f0; f1; f2; f3; f4] ->
  Forall (fun p => ~ In COMMA p) ps -> Forall (fun p => ~ In COLON p) ps ->
  count COMMA (join COMMA [f0; f1; f2; f3; f4; join COLON ps]) = 5%nat /\
  count COLON (join COMMA [f0; f1; f2; f3; f4; join COLON ps]) = pred (length ps).
Proof.
  intros F P1 P2.
  assert (Z5: forall p, In p [f0; f1; f2; f3; f4] -> count COMMA p = O /\ count COLON p = O).
  { intros p I. rewrite Forall_forall in F. destruct (F p I) as [A B]. split; apply count_zero_iff; auto. }
  pose proof (params_no_comma ps P1) as NC. apply count_zero_iff in NC.
  rewrite !count_join. cbn [map sum_nat fold_right length pred].
  destruct (Z5 f0 ltac:(simpl; auto)) as [a0 b0]. destruct (Z5 f1 ltac:(simpl; auto)) as [a1 b1].
  destruct (Z5 f2 ltac:(simpl; auto)) as [a2 b2]. destruct (Z5 f3 ltac:(simpl; auto)) as [a3 b3].
  destruct (Z5 f4 ltac:(simpl; auto 6)) as [a4 b4].
  rewrite a0, a1, a2, a3, a4, b0, b1, b2, b3, b4, NC, (count_params_colon ps P2).
  change (COMMA =? COMMA) with true. change (COLON =? COMMA) with false. cbn. split; [reflexivity|rewrite !Nat.add_0_r; reflexivity].
Qed.

Lemma lit_ok s : has COMMA s = false -> has COLON s = false -> ~ In COMMA s /\ ~ In COLON s.
Proof. intros A B. split; apply has_false_iff; auto. Qed.

Lemma hit_fields_ok n k (ty : text) : has COMMA ty = false -> has COLON ty = false ->
  Forall (fun p : text => ~ In COMMA p /\ ~ In COLON p)
    [show_int (col_to_x (n_col n) k); t "192"; show_int (qtrunc (n_off n)); ty; show_int (n_hs n)].
Proof.
  intros A B. repeat constructor; auto using show_int_no_comma, show_int_no_colon;
  try (apply has_false_iff; auto; reflexivity).
Qed.

(* a written hit line is classified as a hit and not as a hold; a written hold line the other way round *)
Theorem write_hit_classified n k : sep_free (n_file n) ->
  is_hit (write_hit n k) = true /\ is_hold (write_hit n k) = false.
Proof.
  intro H. destruct (hit_params_ok n H) as [P1 P2].
  destruct (note_line_counts _ _ _ _ _ (hit_params n) (hit_fields_ok n k (t "1") eq_refl eq_refl) P1 P2) as [C1 C2].
  unfold is_hit, is_hold, write_hit. fold (hit_params n). rewrite C1, C2. split; reflexivity.
Qed.
Theorem write_hold_classified n k : sep_free (n_file n) ->
  is_hold (write_hold n k) = true /\ is_hit (write_hold n k) = false.
Proof.
  intro H. destruct (hold_params_ok n H) as [P1 P2].
  destruct (note_line_counts _ _ _ _ _ (hold_params n) (hit_fields_ok n k (t "128") eq_refl eq_refl) P1 P2) as [C1 C2].
  unfold is_hit, is_hold, write_hold. fold (hit_params n). fold (hold_params n). rewrite C1, C2. split; reflexivity.
Qed.

Lemma split_note_line (f0 f1 f2 f3 f4 : text) (ps : list text) :
  Forall (fun p : text => ~ In COMMA p /\ ~ In COLON p) [f0; f1; f2; f3; f4] ->
  Forall (fun p => ~ In COMMA p) ps ->
  split_on COMMA (join COMMA [f0; f1; f2; f3; f4; join COLON ps]) = [f0; f1; f2; f3; f4; join COLON ps].
Proof.
  intros F P1. apply split_join; [discriminate|].
  rewrite Forall_forall in F.
  pose proof (proj1 (F f0 ltac:(simpl; auto))). pose proof (proj1 (F f1 ltac:(simpl; auto))).
  pose proof (proj1 (F f2 ltac:(simpl; auto))). pose proof (proj1 (F f3 ltac:(simpl; auto))).
  pose proof (proj1 (F f4 ltac:(simpl; auto 6))). pose proof (params_no_comma ps P1).
  repeat constructor; assumption.
Qed.

(* reading back a written hit line: the reader returns the note with its time truncated by int() *)
Theorem read_write_hit n k : sep_free (n_file n) ->
  exists m, read_hit (write_hit n k) k = Some m /\
    (n_off m == inject_Z (qtrunc (n_off n)))%Q /\ n_col m = x_to_col (col_to_x (n_col n) k) k /\
    n_hs m = n_hs n /\ n_ss m = n_ss n /\ n_as m = n_as n /\ n_cs m = n_cs n /\ n_vol m = n_vol n /\
    n_file m = n_file n.
Proof.
  intros H. destruct (write_hit_classified n k H) as [CL _]. destruct (hit_params_ok n H) as [P1 P2].
  destruct (py_float_show_int (qtrunc (n_off n))) as [q [Fq Eq]].
  unfold read_hit. rewrite CL. cbn [negb]. cbv zeta. unfold write_hit. fold (hit_params n).
  rewrite (split_note_line _ _ _ _ _ (hit_params n) (hit_fields_ok n k (t "1") eq_refl eq_refl) P1).
  cbn [last_text last]. rewrite (split_join COLON (hit_params n)) by (try discriminate; exact P2).
  unfold hit_params. cbn [nth_text obind]. rewrite Fq. cbn [obind]. rewrite !py_int_show_int. cbn [obind].
  eexists. split; [reflexivity|]. cbn. repeat split; auto.
Qed.

Theorem read_write_hold n k : sep_free (n_file n) ->
  exists m, read_hold (write_hold n k) k = Some m /\
    (n_off m == inject_Z (qtrunc (n_off n)))%Q /\
    (n_off m + n_len m == inject_Z (qtrunc (n_off n + n_len n)))%Q /\
    n_col m = x_to_col (col_to_x (n_col n) k) k /\
    n_hs m = n_hs n /\ n_ss m = n_ss n /\ n_as m = n_as n /\ n_cs m = n_cs n /\ n_vol m = n_vol n /\
    n_file m = n_file n.
Proof.
  intros H. destruct (write_hold_classified n k H) as [CL _]. destruct (hold_params_ok n H) as [P1 P2].
  destruct (py_float_show_int (qtrunc (n_off n))) as [q [Fq Eq]].
  destruct (py_float_show_int (qtrunc (n_off n + n_len n))) as [e [Fe Ee]].
  unfold read_hold. rewrite CL. cbn [negb]. cbv zeta. unfold write_hold. fold (hit_params n). fold (hold_params n).
  rewrite (split_note_line _ _ _ _ _ (hold_params n) (hit_fields_ok n k (t "128") eq_refl eq_refl) P1).
  cbn [last_text last]. rewrite (split_join COLON (hold_params n)) by (try discriminate; exact P2).
  unfold hold_params, hit_params. cbn [nth_text obind]. rewrite Fq, Fe. cbn [obind]. rewrite !py_int_show_int. cbn [obind].
  eexists. split; [reflexivity|]. cbn [n_off n_len n_col n_hs n_ss n_as n_cs n_vol n_file].
  repeat split; auto. rewrite Qred_correct, Eq, Ee. ring.
Qed.

(* with the column arithmetic: the column survives for every key count *)
Corollary read_write_hit_column n k : 1 <= k <= 18 -> 0 <= n_col n < k -> sep_free (n_file n) ->
  exists m, read_hit (write_hit n k) k = Some m /\ n_col m = n_col n.
Proof.
  intros Hk Hc H. destruct (read_write_hit n k H) as [m [R [_ [C _]]]].
  exists m. split; auto. rewrite C. apply x_col_inverse; auto.
Qed.

(* no drift at line level: the second generation's line IS the first generation's line *)
Theorem write_hit_generation n m k :
  (n_off m == inject_Z (qtrunc (n_off n)))%Q -> n_col m = n_col n -> n_hs m = n_hs n -> n_ss m = n_ss n ->
  n_as m = n_as n -> n_cs m = n_cs n -> n_vol m = n_vol n -> n_file m = n_file n ->
  write_hit m k = write_hit n k.
Proof.
  intros E C A1 A2 A3 A4 A5 A6. unfold write_hit.
  rewrite (qtrunc_comp _ _ E), qtrunc_Z, C, A1, A2, A3, A4, A5, A6. reflexivity.
Qed.
Theorem write_hold_generation n m k :
  (n_off m == inject_Z (qtrunc (n_off n)))%Q ->
  (n_off m + n_len m == inject_Z (qtrunc (n_off n + n_len n)))%Q ->
  n_col m = n_col n -> n_hs m = n_hs n -> n_ss m = n_ss n ->
  n_as m = n_as n -> n_cs m = n_cs n -> n_vol m = n_vol n -> n_file m = n_file n ->
  write_hold m k = write_hold n k.
Proof.
  intros E E2 C A1 A2 A3 A4 A5 A6. unfold write_hold.
  rewrite (qtrunc_comp _ _ E), (qtrunc_comp _ _ E2), !qtrunc_Z, C, A1, A2, A3, A4, A5, A6. reflexivity.
Qed.

(* ------------------------------------------------------------------ metadata: value = text after the FIRST colon *)
Lemma cut_first_app c a b : ~ In c a -> cut_first c (a ++ c :: b) = Some (a, b).
Proof.
  induction a as [|x a IH]; simpl; intro H.
  - rewrite Z.eqb_refl. reflexivity.
  - destruct (Z.eqb_spec x c) as [E|E]; [exfalso; apply H; left; auto|].
    rewrite IH by (intro I; apply H; right; exact I). reflexivity.
Qed.
Lemma cut_first_is_cut_at c s : cut_first c s = cut_at c s.
Proof. induction s as [|x s IH]; simpl; auto; try (rewrite IH; reflexivity). Qed.

(* the model's  k, *v = line.split(":", 1); v = v[0]  yields key and EVERYTHING after the first colon,
   whatever the value contains - exactly the format's cut *)
Theorem meta_value_first_colon key v : ~ In COLON key ->
  hd [] (split_once COLON (key ++ COLON :: v)) = key /\
  nth_text (split_once COLON (key ++ COLON :: v)) 1 = Some v /\
  cut_first COLON (key ++ COLON :: v) = Some (key, v).
Proof.
  intro Hk. rewrite split_once_app by exact Hk. rewrite cut_first_app by exact Hk. repeat split; reflexivity.
Qed.
(* on every line the model's (key, value) is the format's (key, value) *)
Theorem meta_line_cut line :
  match cut_first COLON line with
  | Some (k, v) => hd [] (split_once COLON line) = k /\ nth_text (split_once COLON line) 1 = Some v
  | None => hd [] (split_once COLON line) = line /\ nth_text (split_once COLON line) 1 = None
  end.
Proof.
  rewrite cut_first_is_cut_at. unfold split_once. destruct (cut_at COLON line) as [[a b]|]; split; reflexivity.
Qed.
(* HISTORICAL: the OLD parse  line.split(":")  (before repo commit ac204a5) kept only the piece between
   the first two colons *)
Theorem old_meta_value_truncated key v1 v2 : ~ In COLON key -> ~ In COLON v1 ->
  nth_text (split_on COLON (key ++ COLON :: v1 ++ COLON :: v2)) 1 = Some v1 /\
  cut_first COLON (key ++ COLON :: v1 ++ COLON :: v2) = Some (key, v1 ++ COLON :: v2).
Proof.
  intros Hk Hv. rewrite split_on_app by exact Hk. rewrite split_on_app by exact Hv.
  rewrite cut_first_app by exact Hk. split; reflexivity.
Qed.

(* the former failing inputs are now read as the format defines *)
Definition colon_witness : list text :=
  [t "[Metadata]"; t "Title:Re:Zero"; t "[Difficulty]"; t "CircleSize:4"; t "[TimingPoints]"; t "[HitObjects]"].
Theorem colon_value_reads :
  wf_read_text colon_witness = true /\
  match osu_read colon_witness, osu_denote colon_witness with
  | Some c, Some d => denotes 0 d c = true /\ meta_str (c_meta c) IX_TITLE = t "Re:Zero"
  | _, _ => False
  end.
Proof. vm_compute. repeat split; reflexivity. Qed.
Definition xcol_witness : list text :=
  [t "[Difficulty]"; t "CircleSize:10"; t "[TimingPoints]"; t "[HitObjects]"; t "256,192,0,1,0,0:0:0:0:"].
Theorem boundary_column_reads :
  wf_read_text xcol_witness = true /\
  match osu_read xcol_witness, osu_denote xcol_witness with
  | Some c, Some d => denotes 0 d c = true /\ map n_col (c_hits c) = [5]
  | _, _ => False
  end.
Proof. vm_compute. repeat split; reflexivity. Qed.

(* ------------------------------------------------------------------ read_denotes, line level:
   on EVERY line the reader's classifier accepts (not only written ones) the reader returns what the
   format defines, under the stated well-formedness of the fields the reader does not look at *)
Lemma tp_kind_fields d l : tp_kind_is d l = true ->
  exists f0 f1 f2 f3 f4 f5 f7, split_on COMMA l = [f0; f1; f2; f3; f4; f5; d; f7].
Proof.
  unfold tp_kind_is. intro H.
  destruct (split_on COMMA l) as [|f0 [|f1 [|f2 [|f3 [|f4 [|f5 [|f6 [|f7 [|f8 r]]]]]]]]]; simpl in H; try discriminate.
  apply text_eqb_eq in H. subst. repeat eexists.
Qed.

Lemma zbool_odd ki : ki = 0 \/ ki = 1 -> zbool ki = Z.odd ki.
Proof. intros [E|E]; subst; reflexivity. Qed.

Definition effects_01 (l : text) : Prop :=
  forall f ki, nth_text (split_on COMMA l) 7 = Some f -> py_int f = Some ki -> ki = 0 \/ ki = 1.

Theorem read_bpm_denotes l : is_timing_point l = true -> effects_01 l ->
  denote_tp l = option_map TPBpm (read_bpm l).
Proof.
  intros H E. unfold read_bpm. rewrite H. cbn [negb]. cbv zeta.
  destruct (tp_kind_fields _ _ H) as [f0 [f1 [f2 [f3 [f4 [f5 [f7 S]]]]]]].
  unfold effects_01 in E. rewrite S in E. specialize (E f7). cbn [nth_text] in E.
  unfold denote_tp. unfold COMMA in *. rewrite S. cbn [map nth_text obind].
  unfold py_float, py_int in *.
  change (parse_int (strip (t "1"))) with (Some 1).
  destruct (parse_dec (strip f0)) as [o|]; cbn [obind]; [|reflexivity].
  destruct (parse_dec (strip f1)) as [c|]; cbn [obind]; [|reflexivity].
  destruct (parse_int (strip f2)) as [me|]; cbn [obind].
  2:{ destruct (Qeq_bool c 0); reflexivity. }
  destruct (parse_int (strip f3)) as [ss|]; cbn [obind].
  2:{ destruct (Qeq_bool c 0); reflexivity. }
  destruct (parse_int (strip f4)) as [si|]; cbn [obind].
  2:{ destruct (Qeq_bool c 0); reflexivity. }
  destruct (parse_int (strip f5)) as [v|]; cbn [obind].
  2:{ destruct (Qeq_bool c 0); reflexivity. }
  destruct (parse_int (strip f7)) as [ki|]; cbn [obind].
  2:{ destruct (Qeq_bool c 0); reflexivity. }
  destruct (Qeq_bool c 0); [reflexivity|]. cbn [option_map Z.eqb]. 
  rewrite (zbool_odd ki (E ki eq_refl eq_refl)). reflexivity.
Qed.

Ltac split_options :=
  unfold obind; cbn beta iota;
  repeat match goal with |- context [match ?e with Some _ => _ | None => _ end] => destruct e end;
  cbn [option_map]; try reflexivity.

Definition meter_numeric (l : text) : Prop :=
  forall f, nth_text (split_on COMMA l) 2 = Some f -> exists me, py_int f = Some me.

(* (the reader ignores the meter field of an SV line; the format requires it to be an integer) *)
Theorem read_sv_denotes l : is_slider_velocity l = true -> effects_01 l -> meter_numeric l ->
  denote_tp l = option_map TPSv (read_sv l).
Proof.
  intros H E M. unfold read_sv. rewrite H. cbn [negb]. cbv zeta.
  destruct (tp_kind_fields _ _ H) as [f0 [f1 [f2 [f3 [f4 [f5 [f7 S]]]]]]].
  unfold effects_01 in E. rewrite S in E. specialize (E f7). cbn [nth_text] in E.
  unfold meter_numeric in M. rewrite S in M. destruct (M f2 eq_refl) as [me ME].
  unfold denote_tp. unfold COMMA in *. rewrite S. cbn [map nth_text].
  unfold py_float, py_int in *. rewrite ME.
  change (parse_int (strip (t "0"))) with (Some 0). unfold obind. cbn beta iota.
  destruct (parse_int (strip f7)) as [ki|] eqn:K.
  - pose proof (zbool_odd ki (E ki eq_refl eq_refl)) as Z. split_options; destruct (Qeq_bool _ 0); try reflexivity.
    cbn [option_map Z.eqb]. rewrite Z. reflexivity.
  - split_options; destruct (Qeq_bool _ 0); reflexivity.
Qed.

Lemma six_fields l : count COMMA l = 5%nat -> exists f0 f1 f2 f3 f4 ps, split_on COMMA l = [f0; f1; f2; f3; f4; ps].
Proof.
  intro H. pose proof (split_length_count COMMA l) as L. rewrite H in L.
  destruct (split_on COMMA l) as [|f0 [|f1 [|f2 [|f3 [|f4 [|f5 [|f6 r]]]]]]]; simpl in L; try discriminate.
  repeat eexists.
Qed.

Theorem read_hit_denotes l k : is_hit l = true ->
  forall f0 f1 f2 f3 f4 ps, split_on COMMA l = [f0; f1; f2; f3; f4; ps] ->
  strip ps = ps -> length (split_on COLON ps) = 5%nat ->
  (exists y, py_int f1 = Some y) ->
  (exists ty, py_int f3 = Some ty /\ Z.testbit ty 7 = false /\ Z.testbit ty 0 = true) ->
  denote_ho k l = option_map HHit (read_hit l k).
Proof.
  intros H f0 f1 f2 f3 f4 ps S SP L5 [y Y] [ty [T [B7 B0]]].
  unfold read_hit. rewrite H. cbn [negb]. cbv zeta.
  unfold denote_ho. unfold COMMA, COLON in *. rewrite S. cbn [map last_text last nth_text obind]. rewrite SP.
  destruct (split_on 58 ps) as [|c0 [|c1 [|c2 [|c3 [|c4 [|c5 r]]]]]]; simpl in L5; try discriminate.
  cbn [nth_text]. unfold py_float, py_int in *. rewrite Y, T, B7, B0. unfold obind. cbn beta iota.
  repeat match goal with |- context [match ?e with Some _ => _ | None => _ end] => destruct e end;
  cbn [option_map]; try reflexivity.
  rewrite x_to_col_exact. reflexivity.
Qed.

Theorem read_hold_denotes l k : is_hold l = true ->
  forall f0 f1 f2 f3 f4 ps, split_on COMMA l = [f0; f1; f2; f3; f4; ps] ->
  strip ps = ps -> length (split_on COLON ps) = 6%nat ->
  (exists y, py_int f1 = Some y) ->
  (exists ty, py_int f3 = Some ty /\ Z.testbit ty 7 = true) ->
  denote_ho k l = option_map HHold (read_hold l k).
Proof.
  intros H f0 f1 f2 f3 f4 ps S SP L5 [y Y] [ty [T B7]].
  unfold read_hold. rewrite H. cbn [negb]. cbv zeta.
  unfold denote_ho. unfold COMMA, COLON in *. rewrite S. cbn [map last_text last nth_text]. rewrite SP.
  destruct (split_on 58 ps) as [|c0 [|c1 [|c2 [|c3 [|c4 [|c5 [|c6 r]]]]]]]; simpl in L5; try discriminate.
  cbn [nth_text]. unfold py_float, py_int in *. rewrite Y, T, B7. split_options.
  rewrite x_to_col_exact. reflexivity.
Qed.

(* ------------------------------------------------------------------ section split *)
Lemma index_of_app x a b : ~ In x a -> index_of x (a ++ x :: b) = Some (zlen a).
Proof.
  induction a as [|y a IH]; intro H.
  - simpl. rewrite text_eqb_refl. reflexivity.
  - simpl. destruct (text_eqb y x) eqn:E.
    + apply text_eqb_eq in E. exfalso. apply H. left. exact E.
    + rewrite IH by (intro I; apply H; right; exact I). unfold zlen. simpl length. rewrite Nat2Z.inj_succ. reflexivity.
Qed.
Lemma firstn_len_app {A} (a b : list A) : firstn (length a) (a ++ b) = a.
Proof. induction a; simpl; congruence. Qed.
Lemma skipn_len_app {A} (a b : list A) : skipn (length a) (a ++ b) = b.
Proof. induction a; simpl; congruence. Qed.
Lemma norm_ok n i : 0 <= i <= n -> norm_ix n i = i.
Proof. intro H. unfold norm_ix. destruct (Z.ltb_spec i 0); lia. Qed.

Lemma take_body_until (body rest : list text) (h : text) :
  (forall l, In l body -> is_header l = false) -> is_header h = true ->
  take_body (body ++ h :: rest) = body.
Proof.
  intros NB HH. induction body as [|l body IH]; simpl.
  - rewrite HH. reflexivity.
  - rewrite (NB l (or_introl eq_refl)). rewrite IH; auto. intros l' I. apply NB. right. exact I.
Qed.
Lemma take_body_all (body : list text) : (forall l, In l body -> is_header l = false) -> take_body body = body.
Proof.
  induction body as [|l body IH]; simpl; intro NB; auto.
  rewrite (NB l (or_introl eq_refl)). rewrite IH; auto.
Qed.
Lemma section_app h a b : ~ In h a -> section h (a ++ h :: b) = Some (take_body b).
Proof.
  induction a as [|y a IH]; intro H; simpl.
  - rewrite text_eqb_refl. reflexivity.
  - destruct (text_eqb y h) eqn:E.
    + apply text_eqb_eq in E. exfalso. apply H. left. exact E.
    + apply IH. intro I. apply H. right. exact I.
Qed.

(* the model's split (index of the two headers + Python slices) and the specification's section
   function pick the same lines, on every text whose two list sections come in file order *)
Theorem section_split pre tps hos :
  ~ In TP_HEADER pre -> ~ In HO_HEADER pre -> ~ In HO_HEADER tps ->
  (forall l, In l tps -> is_header l = false) -> (forall l, In l hos -> is_header l = false) ->
  let lines := pre ++ TP_HEADER :: tps ++ HO_HEADER :: hos in
  exists ix_tp ix_ho,
    index_of TP_HEADER lines = Some ix_tp /\ index_of HO_HEADER lines = Some ix_ho /\
    py_slice_to lines ix_tp = pre /\
    py_slice lines (ix_tp + 1) ix_ho = tps /\ py_slice_from lines (ix_ho + 1) = hos /\
    section TP_HEADER lines = Some tps /\ section HO_HEADER lines = Some hos.
Proof.
  intros P1 P2 P3 NT NH lines.
  exists (zlen pre), (zlen pre + 1 + zlen tps).
  assert (L: zlen lines = zlen pre + 1 + zlen tps + 1 + zlen hos).
  { unfold lines, zlen. rewrite app_length. simpl length. rewrite app_length. simpl length. lia. }
  assert (Z0: 0 <= zlen pre /\ 0 <= zlen tps /\ 0 <= zlen hos) by (unfold zlen; lia).
  assert (E2: lines = (pre ++ TP_HEADER :: tps) ++ HO_HEADER :: hos).
  { unfold lines. rewrite <- app_assoc. reflexivity. }
  assert (E3: lines = (pre ++ [TP_HEADER]) ++ tps ++ HO_HEADER :: hos).
  { unfold lines. rewrite <- app_assoc. reflexivity. }
  repeat split.
  - apply index_of_app. exact P1.
  - rewrite E2. rewrite index_of_app.
    + f_equal. unfold zlen. rewrite app_length. simpl length. lia.
    + intro I. apply in_app_or in I. destruct I as [I|[I|I]]; [exact (P2 I)|discriminate I|exact (P3 I)].
  - unfold py_slice_to. rewrite norm_ok by lia. unfold zlen at 1. rewrite Nat2Z.id. apply firstn_len_app.
  - unfold py_slice. rewrite !norm_ok by lia.
    replace (Z.to_nat (zlen pre + 1)) with (length (pre ++ [TP_HEADER])) by (rewrite app_length; unfold zlen; simpl; lia).
    rewrite E3 at 1. rewrite skipn_len_app.
    replace (Z.to_nat (zlen pre + 1 + zlen tps - (zlen pre + 1))) with (length tps) by (unfold zlen; lia).
    apply firstn_len_app.
  - unfold py_slice_from. rewrite norm_ok by lia.
    replace (Z.to_nat (zlen pre + 1 + zlen tps + 1)) with (length ((pre ++ TP_HEADER :: tps) ++ [HO_HEADER])).
    2:{ rewrite !app_length. simpl length. unfold zlen. lia. }
    replace lines with (((pre ++ TP_HEADER :: tps) ++ [HO_HEADER]) ++ hos).
    2:{ rewrite E2. rewrite <- app_assoc. reflexivity. }
    apply skipn_len_app.
  - unfold lines. rewrite section_app by exact P1. f_equal. apply take_body_until; auto.
  - rewrite E2. rewrite section_app.
    + f_equal. apply take_body_all. exact NH.
    + intro I. apply in_app_or in I. destruct I as [I|[I|I]]; [exact (P2 I)|discriminate I|exact (P3 I)].
Qed.

(* ------------------------------------------------------------------ whole files
   The FILE-level theorems (read_denotes, write_wf, write_denotes, read after write, generation stability) are proved
   in Proofs/OsuRead.v, Proofs/OsuWrite.v and Proofs/OsuWhole.v (text lemmas in Proofs/OsuText.v) on the boolean domains
   read_domain / write_domain of Formats/OsuSpec.v, with the float printers as explicit oracle parameters.  They are
   built from the line-level theorems above (lifted through filter / omap to the list sections), the 30-key metadata
   loop against denote_key (step = meta_line_cut), background / sample events, and section_split.
   The two computed examples below use a printer of integers only and are kept as they were. *)

(* a complete concrete instance, computed: chart -> model writer (numeric tokens rendered by a concrete
   printer of integers) -> reference semantics *)
Definition render_tok (tk : wtok) : text :=
  match tk with WT s => s | WN q | WI q => show_int (Qfloor q) end.     (* only used on integral values below *)
Definition render (ls : list wline) : list text := map (fun l => concat (map render_tok l)) ls.

Definition example_meta : list mval :=
  set_nth (set_nth (set_nth (set_nth (set_nth meta_default 25 (MNum 7)) 14 (MStr (t "Re:Zero"))) 5 (MNum 1)) 13 (MNum 1)) 28 (MNum 2).
Definition example_chart : chart :=
  mkChart example_meta (t "bg.png")
          [mkSample (24565 # 2) (34 :: t "clap.wav" ++ [34]) 70]
          [mkBpm (565#1) (120#1) 4 2 1 60 false]
          [mkSv (89292#1) (2#1) 2 1 60 true]
          [mkNote (1000#1) 6 0 0 0 0 0 0 []; mkNote ((-7)#2) 0 0 2 1 3 7 40 (t "a.wav")]
          [mkNote (2001#2) 3 (21#2) 0 0 0 0 0 []].
(* the written text is well-formed and denotes the chart (times truncated toward zero) *)
Lemma example_write_denotes :
  match osu_write example_chart (t "Re:Zero") [] with
  | Some wl => write_specb 0 example_chart (t "Re:Zero") [] (file_lines (render wl)) = true
  | None => False
  end.
Proof. vm_compute. reflexivity. Qed.
(* generations: the second written text denotes the same chart as the first (lines of notes whose times
   became equal by truncation may be reordered once: holds are emitted before hits among equal times),
   and from then on the text is a fixed point: generation 3 = generation 2 character for character *)
Definition regen (ls : list text) : option (list text) :=
  match osu_read (file_lines ls) with
  | Some c => match osu_write c (meta_str (c_meta c) IX_TITLE) (meta_str (c_meta c) IX_ARTIST) with
              | Some wl => Some (render wl) | None => None end
  | None => None
  end.
Lemma example_no_drift :
  match osu_write example_chart (t "Re;Zero") [] with
  | Some wl => let g1 := render wl in
               match regen g1 with
               | Some g2 => same_denotation 0 (file_lines g1) (file_lines g2) = true
                            /\ list_eqb text_eqb g1 g2 = false
                            /\ match regen g2 with Some g3 => list_eqb text_eqb g2 g3 = true | None => False end
               | None => False end
  | None => False
  end.
Proof. vm_compute. repeat split; reflexivity. Qed.
