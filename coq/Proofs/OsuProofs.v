(* Proofs for C01 (osu!mania codec). *)
From Coq Require Import String Ascii.
From Coq Require Import ZArith QArith Qround Qabs List Bool Lia Lqa.
From RV Require Import Base.PyNum Base.Text Formats.Osu Formats.OsuSpec.
Import ListNotations.
Open Scope Z_scope.
