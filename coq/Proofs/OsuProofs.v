(* Proofs for C01 (osu!mania codec): arithmetic of the column<->x mapping,
   code<->value inverses, int() truncation (bounds, idempotence, no drift), line-level codec theorems,
   metadata values (text after the first colon).  Whole-file statements: see the _partial remarks at the end. *)
From Coq Require Import String Ascii.
From Coq Require Import ZArith QArith Qround Qabs List Bool Lia Lqa Qfield.
From RV Require Import Base.PyNum Base.Text Formats.Osu Formats.OsuSpec.
Import ListNotations.
Open Scope Z_scope.

(* ------------------------------------------------------------------ finite sweeps as proofs *)
Definition zrange (lo : Z) (n : nat) : list Z := map (fun i => lo + Z.of_nat i) (seq 0 n).

Lemma forallb_zrange (P : Z -> bool) lo n :
  forallb P (zrange lo n) = true -> forall x, lo <= x < lo + Z.of_nat n -> P x = true.
Proof.
  intros H x Hx. rewrite forallb_forall in H. apply H. unfold zrange.
  apply in_map_iff. exists (Z.to_nat (x - lo)). split; [lia|]. apply in_seq. lia.
Qed.

Definition keys_range := zrange 1 18.
Lemma in_keys k : 1 <= k <= 18 -> forall P, forallb P keys_range = true -> P k = true.
Proof. intros Hk P H. apply (forallb_zrange P 1 18 H). simpl. lia. Qed.

(* ------------------------------------------------------------------ column <-> x *)
(* x_axis_to_column is integer arithmetic: the model's column IS the format's column, for every key
   count and every integer x (no guard) *)
Theorem x_to_col_exact k x : x_to_col x k = column_of x k.
Proof. unfold x_to_col, column_of. lia. Qed.

(* every x inside a column's range maps to that column, clamping outside *)
Theorem x_in_range_col k x c : 0 <= c < k -> in_column_range x c k -> x_to_col x k = c.
Proof. intros Hc R. unfold x_to_col, in_column_range in *. lia. Qed.
Theorem x_clamped k x : 1 <= k -> (x < 0 -> x_to_col x k = 0) /\ (512 <= x -> x_to_col x k = k - 1).
Proof.
  intro Hk. unfold x_to_col. split; intro H.
  - assert (x * k / 512 < 0) by (apply Z.div_lt_upper_bound; nia). lia.
  - assert (k <= x * k / 512) by (apply Z.div_le_lower_bound; nia). lia.
Qed.

(* writing a column and reading it back: all key counts 1..18, all columns *)
Definition inverse_ok (k : Z) : bool :=
  forallb (fun c => (x_to_col (col_to_x c k) k =? c) && (col_to_x c k * k / 512 =? c)) (zrange 0 (Z.to_nat k)).
Lemma inverse_all : forallb inverse_ok keys_range = true.
Proof. vm_compute. reflexivity. Qed.

Theorem x_col_inverse k c : 1 <= k <= 18 -> 0 <= c < k -> x_to_col (col_to_x c k) k = c.
Proof.
  intros Hk Hc. pose proof (in_keys k Hk inverse_ok inverse_all) as S. unfold inverse_ok in S.
  pose proof (forallb_zrange _ 0 (Z.to_nat k) S c ltac:(lia)) as E. simpl in E.
  apply andb_true_iff in E. destruct E as [E _]. apply Z.eqb_eq in E. exact E.
Qed.
(* the x written for a column lies inside that column's range *)
Theorem col_to_x_in_range k c : 1 <= k <= 18 -> 0 <= c < k -> in_column_range (col_to_x c k) c k.
Proof.
  intros Hk Hc. pose proof (in_keys k Hk inverse_ok inverse_all) as S. unfold inverse_ok in S.
  pose proof (forallb_zrange _ 0 (Z.to_nat k) S c ltac:(lia)) as E. simpl in E.
  apply andb_true_iff in E. destruct E as [_ E]. apply Z.eqb_eq in E. exact E.
Qed.

(* HISTORICAL: the OLD x_axis_to_column (before repo commit 36d1b4c) divided by the binary64 value of
   512 / keys; that variant mis-assigned exactly one point.  Not part of the model any more. *)
Module OldColumn.
  Definition colw_table : list Q :=
    [(512#1); (256#1); (6004799503160661#35184372088832); (128#1); (3602879701896397#35184372088832);
     (6004799503160661#70368744177664); (2573485501354569#35184372088832); (64#1);
     (2001599834386887#35184372088832); (3602879701896397#70368744177664); (3275345183542179#70368744177664);
     (6004799503160661#140737488355328); (1385722962267845#35184372088832); (2573485501354569#70368744177664);
     (4803839602528529#140737488355328); (32#1); (4238682002231055#140737488355328);
     (2001599834386887#70368744177664)]%Q.
  Definition colw (k : Z) : Q := nth (Z.to_nat (k - 1)) colw_table (512 / inject_Z k)%Q.
  Definition x_to_col_old (x k : Z) : Z := Z.max (Z.min (Qfloor (inject_Z x / colw k)) (k - 1)) 0.
  Theorem old_x_in_range_col_refuted :
    exists k x c, 1 <= k <= 18 /\ 0 <= c < k /\ in_column_range x c k /\ x_to_col_old x k <> c.
  Proof. exists 10, 256, 5. unfold in_column_range. vm_compute. repeat split; congruence. Qed.
  (* inside 0 <= x < 512 it was the only one *)
  Theorem old_only_one_point :
    forallb (fun k => forallb (fun x => ((k =? 10) && (x =? 256)) || (x_to_col_old x k =? column_of x k)) (zrange 0 512))
            keys_range = true.
  Proof. vm_compute. reflexivity. Qed.
End OldColumn.

Lemma Qfloor_div_Z a k : 0 < k -> Qfloor (inject_Z a / inject_Z k) = a / k.
Proof.
  intro H. destruct k as [|p|p]; try lia.
  unfold Qdiv, Qmult, Qinv, inject_Z, Qfloor. simpl. rewrite Z.mul_1_r. reflexivity.
Qed.
(* the writer uses the centre floor((512 c + 256) / keys) *)
Theorem col_to_x_centre c k : 0 < k -> col_to_x c k = centre_of c k.
Proof. intro H. unfold col_to_x, centre_of. apply Qfloor_div_Z. exact H. Qed.

(* ------------------------------------------------------------------ code <-> value *)
Open Scope Q_scope.
Theorem bpm_code_value_inverse v : ~ v == 0 -> 60000 / (60000 / v) == v.
Proof. intro H. field. auto. Qed.
Theorem sv_code_value_inverse v : ~ v == 0 -> (-100) / ((-100) / v) == v.
Proof. intro H. field. auto. Qed.
Lemma code_nonzero c v : ~ v == 0 -> ~ c == 0 -> ~ c / v == 0.
Proof.
  intros Hv Hc E. apply Hc. assert (X: c == c / v * v) by (field; auto). rewrite X, E. ring.
Qed.

(* ------------------------------------------------------------------ int() truncation *)
Lemma qtrunc_Z z : qtrunc (inject_Z z) = z.
Proof.
  unfold qtrunc. destruct (Qle_bool 0 (inject_Z z)) eqn:E.
  - apply Qfloor_Z.
  - change (- inject_Z z) with (inject_Z (- z)). rewrite Qfloor_Z. lia.
Qed.

(* no drift: truncating a truncated time changes nothing *)
Theorem trunc_idem x : qtrunc (inject_Z (qtrunc x)) = qtrunc x.
Proof. apply qtrunc_Z. Qed.

Lemma qtrunc_comp x y : x == y -> qtrunc x = qtrunc y.
Proof.
  intro E. unfold qtrunc. rewrite (Qleb_comp 0 0 (Qeq_refl 0) x y E).
  destruct (Qle_bool 0 y); [apply Qfloor_comp; exact E|]. f_equal. apply Qfloor_comp. rewrite E. reflexivity.
Qed.

(* int() moves a time toward zero by less than 1 ms *)
Theorem trunc_toward_zero x : time_moved_toward_zero x (inject_Z (qtrunc x)).
Proof.
  unfold time_moved_toward_zero, qtrunc. destruct (Qle_bool 0 x) eqn:E.
  - apply Qle_bool_iff in E. pose proof (Qfloor_le x) as A. pose proof (Qlt_floor x) as B.
    rewrite inject_Z_plus in B. change (inject_Z 1) with 1 in B.
    assert (P: 0 <= inject_Z (Qfloor x)).
    { change 0 with (inject_Z 0). rewrite <- Zle_Qle. change 0%Z with (Qfloor 0). apply Qfloor_resp_le. exact E. }
    rewrite (Qabs_pos x E), (Qabs_pos _ P). repeat split; try lra.
  - apply Qle_bool_false in E. pose proof (Qfloor_le (- x)) as A. pose proof (Qlt_floor (- x)) as B.
    rewrite inject_Z_plus in B. change (inject_Z 1) with 1 in B.
    assert (P: 0 <= inject_Z (Qfloor (- x))).
    { change 0 with (inject_Z 0). rewrite <- Zle_Qle. change 0%Z with (Qfloor 0). apply Qfloor_resp_le. lra. }
    rewrite inject_Z_opp.
    rewrite (Qabs_neg x) by lra. rewrite (Qabs_neg (- inject_Z (Qfloor (- x)))) by lra.
    repeat split; try lra.
Qed.
Close Scope Q_scope.

(* ------------------------------------------------------------------ text lemmas for the line codecs *)
Lemma in_join d c l : In d (join c l) -> d = c \/ exists p, In p l /\ In d p.
Proof.
  induction l as [|a l IH]; [simpl; tauto|].
  destruct l as [|b l'].
  - simpl. intro H. right. exists a. split; [left; reflexivity|exact H].
  - change (join c (a :: b :: l')) with (a ++ c :: join c (b :: l')). intro H.
    apply in_app_or in H. destruct H as [H|[H|H]].
    + right. exists a. split; [left; auto|auto].
    + left. auto.
    + destruct (IH H) as [E|[p [P1 P2]]]; [left; auto|right; exists p; split; [right; auto|auto]].
Qed.

Definition sep_free (s : text) : Prop := ~ In COMMA s /\ ~ In COLON s.

Lemma show_int_no_comma z : ~ In COMMA (show_int z).
Proof. apply show_int_no. reflexivity. Qed.
Lemma show_int_no_colon z : ~ In COLON (show_int z).
Proof. apply show_int_no. reflexivity. Qed.
Lemma count_show_int_comma z : count COMMA (show_int z) = O.
Proof. apply count_zero_iff. apply show_int_no_comma. Qed.
Lemma count_show_int_colon z : count COLON (show_int z) = O.
Proof. apply count_zero_iff. apply show_int_no_colon. Qed.

Lemma digits_lower_e s : forallb is_digit s = true -> map lower_e s = s.
Proof.
  induction s as [|c s IH]; simpl; auto. intro H. apply andb_true_iff in H. destruct H as [H1 H2].
  rewrite IH by auto. f_equal. unfold lower_e. destruct (Z.eqb_spec c 69); auto. subst. discriminate.
Qed.

Lemma parse_udec_show_nat n : 0 <= n -> exists q, parse_udec (show_nat n) = Some q /\ (q == inject_Z n)%Q.
Proof.
  intro H. pose proof (show_nat_digits n) as D. pose proof (parse_show_nat n H) as P.
  pose proof (show_nat_nonempty n) as NE. unfold parse_udec. rewrite digits_lower_e by exact D.
  rewrite split_on_no_sep by (eapply forallb_not_in; [exact D|reflexivity]).
  unfold parse_mantissa. rewrite split_on_no_sep by (eapply forallb_not_in; [exact D|reflexivity]).
  unfold parse_nat in P. destruct (show_nat n) as [|c r] eqn:S; [congruence|]. rewrite P. cbn [option_map].
  eexists. split; [reflexivity|]. rewrite Qred_correct. unfold pow10. simpl. ring.
Qed.

Lemma parse_dec_digit_head c r : is_digit c = true -> parse_dec (c :: r) = parse_udec (c :: r).
Proof.
  unfold is_digit. intro F. apply andb_true_iff in F. destruct F as [F1 F2].
  apply Z.leb_le in F1. apply Z.leb_le in F2. unfold parse_dec.
  destruct c as [|p|p]; try lia.
  do 6 (destruct p as [p|p|]; try lia; try reflexivity).
Qed.

(* float(str(z)) denotes z *)
Theorem py_float_show_int z : exists q, py_float (show_int z) = Some q /\ (q == inject_Z z)%Q.
Proof.
  unfold py_float. rewrite strip_show_int. unfold show_int. destruct (Z.ltb_spec z 0) as [L|L].
  - destruct (parse_udec_show_nat (- z) ltac:(lia)) as [q [P E]].
    cbn [parse_dec]. rewrite P. cbn [option_map]. eexists. split; [reflexivity|].
    rewrite Qred_correct, E. rewrite inject_Z_opp. ring.
  - destruct (parse_udec_show_nat z L) as [q [P E]].
    pose proof (show_nat_first_digit z) as F. destruct (show_nat z) as [|c r] eqn:S; [contradiction|].
    rewrite parse_dec_digit_head by exact F. exists q. split; auto.
Qed.

(* ------------------------------------------------------------------ hit / hold lines *)
Definition hit_params (n : note) : list text :=
  [show_int (n_ss n); show_int (n_as n); show_int (n_cs n); show_int (n_vol n); n_file n].
Definition hold_params (n : note) : list text :=
  show_int (qtrunc (n_off n + n_len n)) :: hit_params n.

Lemma params_no_comma (l : list text) : Forall (fun p => ~ In COMMA p) l -> ~ In COMMA (join COLON l).
Proof.
  intros F I. apply in_join in I. destruct I as [E|[p [P1 P2]]]; [discriminate|].
  rewrite Forall_forall in F. exact (F p P1 P2).
Qed.

Lemma hit_params_ok n : sep_free (n_file n) ->
  Forall (fun p => ~ In COMMA p) (hit_params n) /\ Forall (fun p => ~ In COLON p) (hit_params n).
Proof.
  intros [A B]. split; repeat constructor; auto using show_int_no_comma, show_int_no_colon.
Qed.
Lemma hold_params_ok n : sep_free (n_file n) ->
  Forall (fun p => ~ In COMMA p) (hold_params n) /\ Forall (fun p => ~ In COLON p) (hold_params n).
Proof.
  intro H. destruct (hit_params_ok n H) as [A B]. split; constructor; auto using show_int_no_comma, show_int_no_colon.
Qed.

Lemma count_params_colon l : Forall (fun p => ~ In COLON p) l -> count COLON (join COLON l) = pred (length l).
Proof.
  intro F. rewrite count_join. rewrite Z.eqb_refl.
  assert (S: sum_nat (map (count COLON) l) = O).
  { induction F as [|p l Hp F IH]; simpl; auto. apply count_zero_iff in Hp. rewrite Hp, IH. reflexivity. }
  rewrite S. reflexivity.
Qed.

(* what the classifiers see on a line built from 5 comma-free, colon-free fields and a parameter list *)
Lemma note_line_counts (f0 f1 f2 f3 f4 : text) (ps : list text) :
  Forall (fun p : text => ~ In COMMA p /\ ~ In COLON p) [f0; f1; f2; f3; f4] ->
  Forall (fun p => ~ In COMMA p) ps -> Forall (fun p => ~ In COLON p) ps ->
  count COMMA (join COMMA [f0; f1; f2; f3; f4; join COLON ps]) = 5%nat /\
  count COLON (join COMMA [f0; f1; f2; f3; f4; join COLON ps]) = pred (length ps).
Proof.
  intros F P1 P2.
  assert (Z5: forall p, In p [f0; f1; f2; f3; f4] -> count COMMA p = O /\ count COLON p = O).
  { intros p I. rewrite Forall_forall in F. destruct (F p I) as [A B]. split; apply count_zero_iff; auto. }
  pose proof (params_no_comma ps P1) as NC. apply count_zero_iff in NC.
  rewrite !count_join. cbn [map sum_nat fold_right length pred].
  destruct (Z5 f0 ltac:(simpl; auto)) as [a0 b0]. destruct (Z5 f1 ltac:(simpl; auto)) as [a1 b1].
  destruct (Z5 f2 ltac:(simpl; auto)) as [a2 b2]. destruct (Z5 f3 ltac:(simpl; auto)) as [a3 b3].
  destruct (Z5 f4 ltac:(simpl; auto 6)) as [a4 b4].
  rewrite a0, a1, a2, a3, a4, b0, b1, b2, b3, b4, NC, (count_params_colon ps P2).
  change (COMMA =? COMMA) with true. change (COLON =? COMMA) with false. cbn. split; [reflexivity|rewrite !Nat.add_0_r; reflexivity].
Qed.

Lemma lit_ok s : has COMMA s = false -> has COLON s = false -> ~ In COMMA s /\ ~ In COLON s.
Proof. intros A B. split; apply has_false_iff; auto. Qed.

Lemma hit_fields_ok n k (ty : text) : has COMMA ty = false -> has COLON ty = false ->
  Forall (fun p : text => ~ In COMMA p /\ ~ In COLON p)
    [show_int (col_to_x (n_col n) k); t "192"; show_int (qtrunc (n_off n)); ty; show_int (n_hs n)].
Proof.
  intros A B. repeat constructor; auto using show_int_no_comma, show_int_no_colon;
  try (apply has_false_iff; auto; reflexivity).
Qed.

(* a written hit line is classified as a hit and not as a hold; a written hold line the other way round *)
Theorem write_hit_classified n k : sep_free (n_file n) ->
  is_hit (write_hit n k) = true /\ is_hold (write_hit n k) = false.
Proof.
  intro H. destruct (hit_params_ok n H) as [P1 P2].
  destruct (note_line_counts _ _ _ _ _ (hit_params n) (hit_fields_ok n k (t "1") eq_refl eq_refl) P1 P2) as [C1 C2].
  unfold is_hit, is_hold, write_hit. fold (hit_params n). rewrite C1, C2. split; reflexivity.
Qed.
Theorem write_hold_classified n k : sep_free (n_file n) ->
  is_hold (write_hold n k) = true /\ is_hit (write_hold n k) = false.
Proof.
  intro H. destruct (hold_params_ok n H) as [P1 P2].
  destruct (note_line_counts _ _ _ _ _ (hold_params n) (hit_fields_ok n k (t "128") eq_refl eq_refl) P1 P2) as [C1 C2].
  unfold is_hit, is_hold, write_hold. fold (hit_params n). fold (hold_params n). rewrite C1, C2. split; reflexivity.
Qed.

Lemma split_note_line (f0 f1 f2 f3 f4 : text) (ps : list text) :
  Forall (fun p : text => ~ In COMMA p /\ ~ In COLON p) [f0; f1; f2; f3; f4] ->
  Forall (fun p => ~ In COMMA p) ps ->
  split_on COMMA (join COMMA [f0; f1; f2; f3; f4; join COLON ps]) = [f0; f1; f2; f3; f4; join COLON ps].
Proof.
  intros F P1. apply split_join; [discriminate|].
  rewrite Forall_forall in F.
  pose proof (proj1 (F f0 ltac:(simpl; auto))). pose proof (proj1 (F f1 ltac:(simpl; auto))).
  pose proof (proj1 (F f2 ltac:(simpl; auto))). pose proof (proj1 (F f3 ltac:(simpl; auto))).
  pose proof (proj1 (F f4 ltac:(simpl; auto 6))). pose proof (params_no_comma ps P1).
  repeat constructor; assumption.
Qed.

(* reading back a written hit line: the reader returns the note with its time truncated by int() *)
Theorem read_write_hit n k : sep_free (n_file n) ->
  exists m, read_hit (write_hit n k) k = Some m /\
    (n_off m == inject_Z (qtrunc (n_off n)))%Q /\ n_col m = x_to_col (col_to_x (n_col n) k) k /\
    n_hs m = n_hs n /\ n_ss m = n_ss n /\ n_as m = n_as n /\ n_cs m = n_cs n /\ n_vol m = n_vol n /\
    n_file m = n_file n.
Proof.
  intros H. destruct (write_hit_classified n k H) as [CL _]. destruct (hit_params_ok n H) as [P1 P2].
  destruct (py_float_show_int (qtrunc (n_off n))) as [q [Fq Eq]].
  unfold read_hit. rewrite CL. cbn [negb]. cbv zeta. unfold write_hit. fold (hit_params n).
  rewrite (split_note_line _ _ _ _ _ (hit_params n) (hit_fields_ok n k (t "1") eq_refl eq_refl) P1).
  cbn [last_text last]. rewrite (split_join COLON (hit_params n)) by (try discriminate; exact P2).
  unfold hit_params. cbn [nth_text obind]. rewrite Fq. cbn [obind]. rewrite !py_int_show_int. cbn [obind].
  eexists. split; [reflexivity|]. cbn. repeat split; auto.
Qed.

Theorem read_write_hold n k : sep_free (n_file n) ->
  exists m, read_hold (write_hold n k) k = Some m /\
    (n_off m == inject_Z (qtrunc (n_off n)))%Q /\
    (n_off m + n_len m == inject_Z (qtrunc (n_off n + n_len n)))%Q /\
    n_col m = x_to_col (col_to_x (n_col n) k) k /\
    n_hs m = n_hs n /\ n_ss m = n_ss n /\ n_as m = n_as n /\ n_cs m = n_cs n /\ n_vol m = n_vol n /\
    n_file m = n_file n.
Proof.
  intros H. destruct (write_hold_classified n k H) as [CL _]. destruct (hold_params_ok n H) as [P1 P2].
  destruct (py_float_show_int (qtrunc (n_off n))) as [q [Fq Eq]].
  destruct (py_float_show_int (qtrunc (n_off n + n_len n))) as [e [Fe Ee]].
  unfold read_hold. rewrite CL. cbn [negb]. cbv zeta. unfold write_hold. fold (hit_params n). fold (hold_params n).
  rewrite (split_note_line _ _ _ _ _ (hold_params n) (hit_fields_ok n k (t "128") eq_refl eq_refl) P1).
  cbn [last_text last]. rewrite (split_join COLON (hold_params n)) by (try discriminate; exact P2).
  unfold hold_params, hit_params. cbn [nth_text obind]. rewrite Fq, Fe. cbn [obind]. rewrite !py_int_show_int. cbn [obind].
  eexists. split; [reflexivity|]. cbn [n_off n_len n_col n_hs n_ss n_as n_cs n_vol n_file].
  repeat split; auto. rewrite Qred_correct, Eq, Ee. ring.
Qed.

(* with the column arithmetic: the column survives for every key count *)
Corollary read_write_hit_column n k : 1 <= k <= 18 -> 0 <= n_col n < k -> sep_free (n_file n) ->
  exists m, read_hit (write_hit n k) k = Some m /\ n_col m = n_col n.
Proof.
  intros Hk Hc H. destruct (read_write_hit n k H) as [m [R [_ [C _]]]].
  exists m. split; auto. rewrite C. apply x_col_inverse; auto.
Qed.

(* no drift at line level: the second generation's line IS the first generation's line *)
Theorem write_hit_generation n m k :
  (n_off m == inject_Z (qtrunc (n_off n)))%Q -> n_col m = n_col n -> n_hs m = n_hs n -> n_ss m = n_ss n ->
  n_as m = n_as n -> n_cs m = n_cs n -> n_vol m = n_vol n -> n_file m = n_file n ->
  write_hit m k = write_hit n k.
Proof.
  intros E C A1 A2 A3 A4 A5 A6. unfold write_hit.
  rewrite (qtrunc_comp _ _ E), qtrunc_Z, C, A1, A2, A3, A4, A5, A6. reflexivity.
Qed.
Theorem write_hold_generation n m k :
  (n_off m == inject_Z (qtrunc (n_off n)))%Q ->
  (n_off m + n_len m == inject_Z (qtrunc (n_off n + n_len n)))%Q ->
  n_col m = n_col n -> n_hs m = n_hs n -> n_ss m = n_ss n ->
  n_as m = n_as n -> n_cs m = n_cs n -> n_vol m = n_vol n -> n_file m = n_file n ->
  write_hold m k = write_hold n k.
Proof.
  intros E E2 C A1 A2 A3 A4 A5 A6. unfold write_hold.
  rewrite (qtrunc_comp _ _ E), (qtrunc_comp _ _ E2), !qtrunc_Z, C, A1, A2, A3, A4, A5, A6. reflexivity.
Qed.

(* ------------------------------------------------------------------ metadata: value = text after the FIRST colon *)
Lemma cut_first_app c a b : ~ In c a -> cut_first c (a ++ c :: b) = Some (a, b).
Proof.
  induction a as [|x a IH]; simpl; intro H.
  - rewrite Z.eqb_refl. reflexivity.
  - destruct (Z.eqb_spec x c) as [E|E]; [exfalso; apply H; left; auto|].
    rewrite IH by (intro I; apply H; right; exact I). reflexivity.
Qed.
Lemma cut_first_is_cut_at c s : cut_first c s = cut_at c s.
Proof. induction s as [|x s IH]; simpl; auto; try (rewrite IH; reflexivity). Qed.

(* the model's  k, *v = line.split(":", 1); v = v[0]  yields key and EVERYTHING after the first colon,
   whatever the value contains - exactly the format's cut *)
Theorem meta_value_first_colon key v : ~ In COLON key ->
  hd [] (split_once COLON (key ++ COLON :: v)) = key /\
  nth_text (split_once COLON (key ++ COLON :: v)) 1 = Some v /\
  cut_first COLON (key ++ COLON :: v) = Some (key, v).
Proof.
  intro Hk. rewrite split_once_app by exact Hk. rewrite cut_first_app by exact Hk. repeat split; reflexivity.
Qed.
(* on every line the model's (key, value) is the format's (key, value) *)
Theorem meta_line_cut line :
  match cut_first COLON line with
  | Some (k, v) => hd [] (split_once COLON line) = k /\ nth_text (split_once COLON line) 1 = Some v
  | None => hd [] (split_once COLON line) = line /\ nth_text (split_once COLON line) 1 = None
  end.
Proof.
  rewrite cut_first_is_cut_at. unfold split_once. destruct (cut_at COLON line) as [[a b]|]; split; reflexivity.
Qed.
(* HISTORICAL: the OLD parse  line.split(":")  (before repo commit ac204a5) kept only the piece between
   the first two colons *)
Theorem old_meta_value_truncated key v1 v2 : ~ In COLON key -> ~ In COLON v1 ->
  nth_text (split_on COLON (key ++ COLON :: v1 ++ COLON :: v2)) 1 = Some v1 /\
  cut_first COLON (key ++ COLON :: v1 ++ COLON :: v2) = Some (key, v1 ++ COLON :: v2).
Proof.
  intros Hk Hv. rewrite split_on_app by exact Hk. rewrite split_on_app by exact Hv.
  rewrite cut_first_app by exact Hk. split; reflexivity.
Qed.

(* the former failing inputs are now read as the format defines *)
Definition colon_witness : list text :=
  [t "[Metadata]"; t "Title:Re:Zero"; t "[Difficulty]"; t "CircleSize:4"; t "[TimingPoints]"; t "[HitObjects]"].
Theorem colon_value_reads :
  wf_read_text colon_witness = true /\
  match osu_read colon_witness, osu_denote colon_witness with
  | Some c, Some d => denotes 0 d c = true /\ meta_str (c_meta c) IX_TITLE = t "Re:Zero"
  | _, _ => False
  end.
Proof. vm_compute. repeat split; reflexivity. Qed.
Definition xcol_witness : list text :=
  [t "[Difficulty]"; t "CircleSize:10"; t "[TimingPoints]"; t "[HitObjects]"; t "256,192,0,1,0,0:0:0:0:"].
Theorem boundary_column_reads :
  wf_read_text xcol_witness = true /\
  match osu_read xcol_witness, osu_denote xcol_witness with
  | Some c, Some d => denotes 0 d c = true /\ map n_col (c_hits c) = [5]
  | _, _ => False
  end.
Proof. vm_compute. repeat split; reflexivity. Qed.

(* ------------------------------------------------------------------ whole files
   read_denotes / write_wf / write_denotes / read_write_read / write_read_write at FILE level are
   _partial: proved above are the line-level statements they are assembled from (classification,
   read-back and generation equality of hit/hold lines, column and code arithmetic, truncation), and
   the refutations.  Missing for the file level: (1) the section split of the model (index of
   "[TimingPoints]" / "[HitObjects]" + slices) against OsuSpec.section on texts with canonical header
   order, (2) the 30-key metadata loop against denote_key (one step is meta_value_agrees), (3) float
   printing: bpm / SV / float attributes are written by repr / ':g', an oracle, so the written text is not
   a function of the model alone; (4) read_bpm / read_sv line lemmas for arbitrary decimal texts.
   These are covered on every run by the in-Coq correspondence (Corr/RunC01.v) where osu_denote and
   wf_osu_text are EVALUATED on the implementation's outputs. *)

(* a complete concrete instance, computed: chart -> model writer (numeric tokens rendered by a concrete
   printer of integers) -> reference semantics *)
Definition render_tok (tk : wtok) : text :=
  match tk with WT s => s | WN q => show_int (Qfloor q) end.     (* only used on integral values below *)
Definition render (ls : list wline) : list text := map (fun l => concat (map render_tok l)) ls.

Definition example_meta : list mval :=
  set_nth (set_nth (set_nth (set_nth (set_nth meta_default 25 (MNum 7)) 14 (MStr (t "Re:Zero"))) 5 (MNum 1)) 13 (MNum 1)) 28 (MNum 2).
Definition example_chart : chart :=
  mkChart example_meta (t "bg.png")
          [mkSample (24565 # 2) (34 :: t "clap.wav" ++ [34]) 70]
          [mkBpm (565#1) (120#1) 4 2 1 60 false]
          [mkSv (89292#1) (2#1) 2 1 60 true]
          [mkNote (1000#1) 6 0 0 0 0 0 0 []; mkNote ((-7)#2) 0 0 2 1 3 7 40 (t "a.wav")]
          [mkNote (2001#2) 3 (21#2) 0 0 0 0 0 []].
(* the written text is well-formed and denotes the chart (times truncated toward zero) *)
Lemma example_write_denotes :
  match osu_write example_chart (t "Re:Zero") [] with
  | Some wl => write_specb 0 example_chart (t "Re:Zero") [] (file_lines (render wl)) = true
  | None => False
  end.
Proof. vm_compute. reflexivity. Qed.
(* generations: the second written text denotes the same chart as the first (lines of notes whose times
   became equal by truncation may be reordered once: holds are emitted before hits among equal times),
   and from then on the text is a fixed point: generation 3 = generation 2 character for character *)
Definition regen (ls : list text) : option (list text) :=
  match osu_read (file_lines ls) with
  | Some c => match osu_write c (meta_str (c_meta c) IX_TITLE) (meta_str (c_meta c) IX_ARTIST) with
              | Some wl => Some (render wl) | None => None end
  | None => None
  end.
Lemma example_no_drift :
  match osu_write example_chart (t "Re;Zero") [] with
  | Some wl => let g1 := render wl in
               match regen g1 with
               | Some g2 => same_denotation 0 (file_lines g1) (file_lines g2) = true
                            /\ list_eqb text_eqb g1 g2 = false
                            /\ match regen g2 with Some g3 => list_eqb text_eqb g2 g3 = true | None => False end
               | None => False end
  | None => False
  end.
Proof. vm_compute. repeat split; reflexivity. Qed.
