(* C05, whole file, tempo rows in ANY order: bms_write_denotes_any_order.
   A chart whose tempo rows are a permutation of the rows of a chart of write_dom (time order, offsets pairwise
   distinct) is written to lines that denote it.  The writer's '#BPM' header takes the FIRST ROW's tempo and the
   '#BPMxx' ids follow row order, so the written TEXT depends on the row order; what the text denotes does not:
   TimingMap sorts the rows (C10_any_order), every tempo row becomes a channel-08 object at its own position carrying
   the id of its own '#BPMxx' line, and the object at measure 0 position 0 replaces '#BPM'. *)
From Coq Require Import ZArith QArith Qround Qabs List Bool Lia Lqa Sorting.Permutation Sorting.Sorted.
From RV Require Import Base.PyNum Timing.Snapper Timing.Snap Timing.TimingMap Timing.Integrate Timing.Domain Timing.Domain2
  Formats.BMSText Formats.BMS Formats.BMSSpec Proofs.SnapperProofs Proofs.TimingProofs Proofs.RederiveProofs Proofs.TimingProofs2
  Proofs.BMSProofs Proofs.BMSDenoteProofs Proofs.BMSParseProofs Proofs.BMSWriteProofs Proofs.BMSWriteTimingProofs
  Proofs.BMSWriteLaneProofs Proofs.BMSWriteLanesProofs Proofs.BMSWriteDenoteProofs Proofs.BMSWriteFinalProofs Proofs.BMSRoundTripProofs.
Import ListNotations.
Open Scope Z_scope.

Local Arguments text_eqb : simpl never.

(* ================================================================ A. lists ================================================================ *)
Lemma strict_sorted_NoDup {A} (R : A -> A -> Prop) l : (forall x, ~ R x x) -> StronglySorted R l -> NoDup l.
Proof.
  intros Irr Ss. induction Ss as [|a l Ss IH Fa]; constructor; [|exact IH].
  intro I. rewrite Forall_forall in Fa. apply (Irr a (Fa a I)).
Qed.

(* an association through a duplicate-free key list is positional *)
Lemma assoc_forall2 {A B C} (f : A -> B) (R : C -> A -> Prop) : forall (xs : list A) (S : list B) (l : list C),
  map f xs = S -> NoDup S -> length S = length l ->
  (forall x, In x xs -> exists cc, In (f x, cc) (combine S l) /\ R cc x) -> Forall2 R l xs.
Proof.
  induction xs as [|x xs IH]; intros S l E N L H.
  - subst S. destruct l; [constructor|discriminate].
  - destruct S as [|b S']; [discriminate|]. destruct l as [|cc0 l']; [discriminate|]. cbn [map] in E. injection E as Eb Es.
    inversion N as [|? ? Nb N']; subst. constructor.
    + destruct (H x (or_introl eq_refl)) as [cc [I Rx]]. cbn [combine] in I. destruct I as [I|I].
      * inversion I; subst. exact Rx.
      * exfalso. apply Nb. apply (in_combine_l _ _ _ _ I).
    + apply (IH (map f xs) l' eq_refl N'); [cbn in L; lia|]. intros y Iy. destruct (H y (or_intror Iy)) as [cc [I Ry]]. cbn [combine] in I.
      destruct I as [I|I]; [|exists cc; split; assumption]. exfalso. inversion I as [[E1 E2]]. apply Nb. replace (f x) with (f y) by congruence. apply in_map. exact Iy.
Qed.

Lemma map_mid_combine3 {A B C} (la : list A) (lb : list B) (lc : list C) : length la = length lb -> length lb = length lc ->
  map (fun t => fst (snd t)) (combine la (combine lb lc)) = lb.
Proof.
  revert lb lc. induction la as [|a la IH]; intros [|b lb] [|c lc] L1 L2; try discriminate; [reflexivity|].
  cbn [combine map fst snd]. f_equal. apply IH; [cbn in L1; lia|cbn in L2; lia].
Qed.
Lemma map_snd_combine {A B} (la : list A) (lb : list B) : length la = length lb -> map snd (combine la lb) = lb.
Proof. revert lb. induction la as [|a la IH]; intros [|b lb] L; try discriminate; [reflexivity|]. cbn [combine map snd]. f_equal. apply IH. cbn in L. lia. Qed.
Lemma in_combine_forall2 {A B} (P : A -> B -> Prop) la lb a b : Forall2 P la lb -> In (a, b) (combine la lb) -> P a b.
Proof. intros F I. pose proof (forall2_combine_map _ _ _ F) as G. rewrite Forall_forall in G. apply (G (a, b) I). Qed.

(* ================================================================ B. the millisecond form of a script: strictly increasing times ================================================================ *)
Lemma linked_strict tbl rest : forall brest off p, node_ok p -> script_ok tbl p rest -> linked off p rest brest ->
  StronglySorted (fun a b => bo_off a < bo_off b)%Q brest.
Proof.
  induction rest as [|c rest IH]; intros brest off p Hp Hs Hl; destruct brest as [|b1 brest]; try (destruct Hl; fail); [constructor|].
  pose proof Hl as [_ [_ [_ Ll]]]. pose proof Hs as [[_ [Hc _]] Hs'].
  constructor; [apply (IH brest (bo_off b1) c Hc Hs' Ll)|].
  apply Forall_forall. intros y Iy. apply (linked_offs_lt tbl rest brest (bo_off b1) c y Hc Hs' Ll Iy).
Qed.

Lemma from_bcs_strict tbl (Hok : table_ok (1 # 96) tbl = true) l S : domainb tbl l [] = true -> from_bcs 0 l = Some S ->
  StronglySorted (fun a b => bo_off a < bo_off b)%Q S.
Proof.
  intros Hd Hf. destruct (domainb_nil_sound tbl l Hd) as [c0 [rest [El [H0 [Hm0 [Hb0 Hs]]]]]].
  destruct (script_pairs tbl Hok 0 c0 rest H0 Hm0 Hb0 Hs) as [brest [c0' [bcss' [E1 [_ [_ [_ [_ [E6 _]]]]]]]]]. cbv zeta in E1.
  rewrite <- El, Hf in E1. injection E1 as ES. rewrite ES. constructor; [apply (linked_strict tbl rest brest 0 c0 H0 Hs E6)|].
  apply Forall_forall. intros y Iy. cbn [bo_off]. apply (linked_offs_lt tbl rest brest 0 c0 y H0 Hs E6 Iy).
Qed.

Lemma strict_Dk S : StronglySorted (fun a b => bo_off a < bo_off b)%Q S -> Dk S.
Proof.
  induction 1 as [|a l Ss IH Fa]; [intros x y []|]. rewrite Forall_forall in Fa.
  intros x y [<-|Ix] [<-|Iy] E; [reflexivity| | |apply (IH x y Ix Iy E)]; exfalso.
  - pose proof (Fa y Iy). lra.
  - pose proof (Fa x Ix). lra.
Qed.

(* ================================================================ C. the tempo side, rows in any order ================================================================ *)
(* tbcs depends on a row only through its tempo and its position *)
Definition tb2 (bs : bco * snap) : bcs := mkBcs (bo_bpm (fst bs)) BEATS_PER_MEASURE (snap_of (pobj (snd bs) CH_EXBPM [])).
Lemma tbcs_tb2 t : tbcs t = tb2 (snd t).
Proof. reflexivity. Qed.

Section TempoAny.
  Variable tbl : list Q.
  Variables (c : wchart) (l : list bcs) (S : list bco) (sb : list snap).
  Hypothesis Hdom : domainb tbl l [] = true.
  Hypothesis Hlen : (length (w_bpms c) < MAX_BPMS)%nat.
  Hypothesis H3f : Forall (fun b => bpm_3f_ok b = true) (w_bpms c).
  Hypothesis Hmet : Forall (fun b => bo_met b = 4%Q) (w_bpms c).
  Hypothesis HP : Permutation (w_bpms c) S.
  Hypothesis HND : NoDup S.
  Hypothesis Hct : Forall2 (fun cc b => (bo_off b == time_of 0 l (bs_snap cc))%Q /\ bo_bpm b = bs_bpm cc /\ bo_met b = bs_met cc) l S.
  Hypothesis Hsb : Forall2 (fun b s => exists cc, In (b, cc) (combine S l) /\ ssim s (bs_snap cc) /\ s_met s = bs_met cc) (w_bpms c) sb.

  Let n := length (w_bpms c).
  Let TR := combine (seq 1 n) (combine (w_bpms c) sb).
  Let cs := with_bpms c S.

  Lemma any_len_sb : length sb = n.
  Proof. unfold n. symmetry. apply (forall2_length _ _ _ Hsb). Qed.

  Lemma any_xb_is : XB c sb = map (fun p => pobj (snd p) CH_EXBPM (b36_pair (Z.of_nat (fst p)))) (combine (seq 1 (length sb)) sb).
  Proof.
    unfold XB. fold n. rewrite any_len_sb. rewrite (combine_combine_r (seq 1 n) (w_bpms c) sb) by (rewrite any_len_sb; reflexivity).
    rewrite map_map. reflexivity.
  Qed.

  Lemma any_tempo_objs_xb : tempo_objs (ex_table c) (XB c sb) = Some (T0 c sb).
  Proof.
    unfold XB, T0. fold n.
    assert (G : forall tr, (forall t, In t tr -> In (fst t, fst (snd t)) (combine (seq 1 n) (w_bpms c))) ->
              tempo_objs (ex_table c) (map tobj tr) = Some (map tbcs tr)).
    { induction tr as [|t tr IH]; intro H; [reflexivity|]. cbn [map]. rewrite tempo_objs_cons.
      rewrite IH by (intros t' I; apply H; right; exact I).
      assert (tempo_of_obj (ex_table c) (tobj t) = Some (Some (bo_bpm (fst (snd t))))) as ->; [|reflexivity].
      unfold tempo_of_obj, tobj, pobj. cbn [o_chan o_id].
      assert (text_eqb CH_EXBPM CH_BPM = false) as -> by reflexivity. rewrite text_eqb_refl.
      pose proof (H t (or_introl eq_refl)) as I. unfold n in I. rewrite (ex_table_lookup c _ _ Hlen I).
      rewrite Forall_forall in H3f. rewrite (bpm_3f_parse _ (H3f _ (in_combine_r _ _ _ _ I))). reflexivity. }
    apply G. intros t I.
    rewrite (combine_combine_l (seq 1 n) (w_bpms c) sb) by (rewrite any_len_sb; reflexivity).
    apply in_map_iff. exists t. split; [reflexivity|exact I].
  Qed.

  (* the rows with their ids and positions, rearranged into time order *)
  Lemma sorted_triples : exists TRs, Permutation TR TRs /\ map (fun t => fst (snd t)) TRs = S
    /\ Forall2 (fun cc t => ssim (snd (snd t)) (bs_snap cc) /\ s_met (snd (snd t)) = bs_met cc) l TRs.
  Proof.
    assert (Em : map (fun t : nat * (bco * snap) => fst (snd t)) TR = w_bpms c).
    { unfold TR. apply map_mid_combine3; [rewrite seq_length; reflexivity|fold n; rewrite any_len_sb; reflexivity]. }
    assert (P1 : Permutation S (map (fun t : nat * (bco * snap) => fst (snd t)) TR)) by (rewrite Em; apply Permutation_sym; exact HP).
    destruct (Permutation_map_inv _ _ P1) as [TRs [ES PT]]. exists TRs. split; [exact PT|]. split; [symmetry; exact ES|].
    apply (assoc_forall2 (fun t : nat * (bco * snap) => fst (snd t)) _ TRs S l (eq_sym ES) HND).
    - symmetry. apply (forall2_length _ _ _ Hct).
    - intros t It. apply (Permutation_in _ (Permutation_sym PT)) in It. unfold TR in It.
      destruct t as [e [b s]]. apply in_combine_r in It. cbn [fst snd] in *. apply (in_combine_forall2 _ _ _ _ _ Hsb It).
  Qed.

  Lemma met_S : Forall (fun b => bo_met b = 4%Q) S.
  Proof. apply Forall_forall. intros b I. rewrite Forall_forall in Hmet. apply Hmet. apply (Permutation_in _ (Permutation_sym HP) I). Qed.

  (* the time-ordered tempo script of the file, and what it says *)
  Theorem any_script : exists Ts,
    Permutation (T0 c sb) Ts
    /\ (forall bpm0 tempos, Permutation tempos (T0 c sb) -> script_of bpm0 tempos = Ts)
    /\ (forall q, time_of 0 Ts q == time_of 0 l q)%Q
    /\ Forall2 (fun b tb => (fst tb == bo_off b)%Q /\ snd tb = bo_bpm b) S (map (fun x => (Qred (time_of 0 Ts (bs_snap x)), bs_bpm x)) Ts)
    /\ Forall2 sim Ts l
    /\ NoDup (map (fun s => (s_m s, Qred (s_b s / 4))) sb).
  Proof.
    destruct sorted_triples as [TRs [PT [ES F]]].
    set (sbs := map (fun t : nat * (bco * snap) => snd (snd t)) TRs).
    assert (Hsbs : Forall2 (fun cc s => ssim s (bs_snap cc) /\ s_met s = bs_met cc) l sbs).
    { unfold sbs. clear - F. induction F; cbn [map]; constructor; auto. }
    assert (Hct' : Forall2 (fun cc b => (bo_off b == time_of 0 l (bs_snap cc))%Q /\ bo_bpm b = bs_bpm cc /\ bo_met b = bs_met cc) l (w_bpms cs)) by exact Hct.
    assert (Hmet' : Forall (fun b => bo_met b = 4%Q) (w_bpms cs)) by exact met_S.
    assert (Lsbs : length sbs = length S) by (rewrite <- (forall2_length _ _ _ Hsbs); apply (forall2_length _ _ _ Hct)).
    (* the two listings of the tempo objects *)
    assert (E1 : T0 c sb = map tb2 (combine (w_bpms c) sb)).
    { unfold T0. fold n. rewrite (map_ext _ _ tbcs_tb2), <- map_map. f_equal. apply map_snd_combine.
      rewrite seq_length, combine_length. fold n. rewrite any_len_sb. lia. }
    assert (E2 : T0 cs sbs = map tb2 (map snd TRs)).
    { unfold T0. rewrite (map_ext _ _ tbcs_tb2), <- map_map. f_equal. change (w_bpms cs) with S. rewrite map_snd_combine.
      - rewrite <- ES. unfold sbs. clear. induction TRs as [|[e [b s]] r IH]; [reflexivity|]. cbn [map combine fst snd]. f_equal. exact IH.
      - rewrite seq_length, combine_length, Lsbs. lia. }
    assert (PT0 : Permutation (T0 c sb) (T0 cs sbs)).
    { rewrite E1, E2. apply Permutation_map. assert (E3 : combine (w_bpms c) sb = map snd TR).
      { unfold TR. symmetry. apply map_snd_combine. rewrite seq_length, combine_length. fold n. rewrite any_len_sb. lia. }
      rewrite E3. apply Permutation_map. exact PT. }
    exists (T0 cs sbs). split; [exact PT0|]. split; [|split; [|split; [|split]]].
    - intros bpm0 tempos P. apply (script_written tbl cs l sbs Hdom Hct' Hmet' Hsbs bpm0 tempos). eapply Permutation_trans; eassumption.
    - apply (time_written tbl cs l sbs Hdom Hct' Hmet' Hsbs).
    - apply (tempo_written tbl cs l sbs Hdom Hct' Hmet' Hsbs).
    - apply (T0_sim tbl cs l sbs Hdom Hct' Hmet' Hsbs).
    - (* positions pairwise distinct *)
      assert (Psb : Permutation sb sbs).
      { assert (Esb : sb = map (fun t : nat * (bco * snap) => snd (snd t)) TR).
        { unfold TR. rewrite <- (map_map snd snd). rewrite map_snd_combine by (rewrite seq_length, combine_length; fold n; rewrite any_len_sb; lia).
          symmetry. apply map_snd_combine. fold n. rewrite any_len_sb. reflexivity. }
        rewrite Esb. unfold sbs. apply Permutation_map. exact PT. }
      apply (Permutation_NoDup (Permutation_map _ (Permutation_sym Psb))).
      pose proof (T0_sorted tbl cs l sbs Hdom Hct' Hmet' Hsbs) as Ss. rewrite E2, map_map in Ss.
      assert (Es : map (fun s => (s_m s, Qred (s_b s / 4))) sbs = map (fun t : nat * (bco * snap) => (s_m (snd (snd t)), Qred (s_b (snd (snd t)) / 4))) TRs).
      { unfold sbs. rewrite map_map. reflexivity. }
      rewrite Es. apply strongly_map in Ss.
      apply (sorted_keys_NoDup _ _ _ Ss). intros a b _ _ Lt E.
      pose proof (f_equal fst E) as E1'. pose proof (f_equal snd E) as E3. cbn [fst snd] in E1', E3.
      unfold LT, bcs_lt, tb2 in Lt. cbn [bs_snap] in Lt.
      change (snap_lt (snap_of (pobj (snd (snd a)) CH_EXBPM [])) (snap_of (pobj (snd (snd b)) CH_EXBPM []))) with (obj_lt (pobj (snd (snd a)) CH_EXBPM []) (pobj (snd (snd b)) CH_EXBPM [])) in Lt.
      rewrite obj_lt_pobj in Lt. apply snap_lt_iff in Lt.
      assert (X : (Qred (s_b (snd (snd a)) / 4) == Qred (s_b (snd (snd b)) / 4))%Q) by (rewrite E3; reflexivity).
      rewrite !Qred_correct in X.
      assert (Xa : (s_b (snd (snd a)) == (s_b (snd (snd a)) / 4) * 4)%Q) by field. assert (Xb : (s_b (snd (snd b)) == (s_b (snd (snd b)) / 4) * 4)%Q) by field.
      destruct Lt as [Lt|[_ Lt]]; [lia|]. rewrite Xa, Xb, X in Lt. lra.
  Qed.
End TempoAny.

(* ================================================================ D. the chart ================================================================ *)
Lemma map_snd_fun_combine {A B C} (g : B -> C) (la : list A) (lb : list B) : length la = length lb ->
  map (fun q => g (snd q)) (combine la lb) = map g lb.
Proof. intro L. rewrite <- (map_map snd g). rewrite map_snd_combine by exact L. reflexivity. Qed.

Section AnyOrder.
  Variable tbl : list Q.
  Hypothesis Hok : table_ok (1 # 96) tbl = true.
  Variables (mk : Z) (lay : layout) (dflt : text) (cs : wchart) (l : list bcs) (b0s : bco) (rests : list bco) (sh sa st sbs : list snap).
  Hypothesis D : wdom tbl mk lay dflt cs l b0s rests sh sa st sbs.
  Variable p : list bco.
  Hypothesis HP : Permutation p (w_bpms cs).
  Let c := with_bpms cs p.
  Let S := w_bpms cs.
  Let Hdom := wd_dom _ _ _ _ _ _ _ _ _ _ _ _ D.
  Let Hfrom := wd_from _ _ _ _ _ _ _ _ _ _ _ _ D.
  Let Hscr := wd_script _ _ _ _ _ _ _ _ _ _ _ _ D.
  Let CT := w_change_times tbl Hok S l Hdom Hfrom.

  Lemma S_strict : StronglySorted (fun a b => bo_off a < bo_off b)%Q S.
  Proof. apply (from_bcs_strict tbl Hok l S Hdom Hfrom). Qed.
  Lemma S_is_sort : S = sort_by bco_lt p.
  Proof. rewrite (sort_any_order S p HP (strict_Dk S S_strict)). symmetry. apply (wd_sorted _ _ _ _ _ _ _ _ _ _ _ _ D). Qed.

  Lemma any_snaps : exists sb, write_snaps tbl c = Some (mkSn sh sa st sb)
    /\ Forall2 (fun b s => exists cc, In (b, cc) (combine S l) /\ ssim s (bs_snap cc) /\ s_met s = bs_met cc) p sb.
  Proof.
    pose proof (wd_snaps _ _ _ _ _ _ _ _ _ _ _ _ D) as Sn. unfold write_snaps in Sn.
    destruct (w_change_snaps tbl Hok p S l S_is_sort Hscr Hdom Hfrom) as [sb [E4 F4]]. exists sb. split; [|exact F4].
    destruct (tm_snaps tbl (w_bpms cs) (map h_off (w_hits cs))) as [x1|] eqn:E1; [|discriminate].
    destruct (tm_snaps tbl (w_bpms cs) (map ho_off (w_holds cs))) as [x2|] eqn:E2; [|discriminate].
    destruct (tm_snaps tbl (w_bpms cs) (map (fun h => Qred (ho_off h + ho_len h)%Q) (w_holds cs))) as [x3|] eqn:E3; [|discriminate].
    destruct (tm_snaps tbl (w_bpms cs) (map bo_off (w_bpms cs))) as [x4|]; [|discriminate]. inversion Sn; subst x1 x2 x3 x4.
    unfold write_snaps. change (w_bpms c) with p. change (w_hits c) with (w_hits cs). change (w_holds c) with (w_holds cs).
    rewrite (tm_snaps_sorted tbl Hok p S l S_is_sort Hdom Hfrom (map h_off (w_hits cs))).
    rewrite (tm_snaps_sorted tbl Hok p S l S_is_sort Hdom Hfrom (map ho_off (w_holds cs))).
    rewrite (tm_snaps_sorted tbl Hok p S l S_is_sort Hdom Hfrom (map (fun h => Qred (ho_off h + ho_len h)%Q) (w_holds cs))).
    unfold S. rewrite E1, E2, E3, E4. reflexivity.
  Qed.

  Lemma p_len : (length p < MAX_BPMS)%nat.
  Proof. rewrite (Permutation_length HP). apply (wd_len _ _ _ _ _ _ _ _ _ _ _ _ D). Qed.
  Lemma p_met : Forall (fun b => bo_met b = 4%Q) p.
  Proof.
    pose proof (wd_met _ _ _ _ _ _ _ _ _ _ _ _ D) as M. rewrite Forall_forall in M. apply Forall_forall. intros b I. apply M. apply (Permutation_in _ HP I).
  Qed.
  Lemma p_3f : Forall (fun b => bpm_3f_ok b = true) p.
  Proof.
    pose proof (wd_3f _ _ _ _ _ _ _ _ _ _ _ _ D) as M. rewrite Forall_forall in M. apply Forall_forall. intros b I. apply M. apply (Permutation_in _ HP I).
  Qed.

  Section WithSb.
    Variables (sb : list snap) (b0 : bco) (rest0 : list bco).
    Hypothesis Ep : p = b0 :: rest0.
    Hypothesis Esn : write_snaps tbl c = Some (mkSn sh sa st sb).
    Hypothesis Hsb : Forall2 (fun b s => exists cc, In (b, cc) (combine S l) /\ ssim s (bs_snap cc) /\ s_met s = bs_met cc) p sb.

    Let ALL := RHc cs dflt sh ++ RAc cs dflt sa ++ RTc cs st.
    Let LF := wd_lay _ _ _ _ _ _ _ _ _ _ _ _ D.
    Let HK := wd_keys _ _ _ _ _ _ _ _ _ _ _ _ D.
    Let HLN := wd_lnobj _ _ _ _ _ _ _ _ _ _ _ _ D.

    Lemma any_sb_facts s : In s sb -> 0 <= s_m s < 1000 /\ (0 <= s_b s)%Q /\ (s_b s < 4)%Q /\ (s_met s == 4)%Q.
    Proof.
      intro I. destruct (forall2_in_r _ _ _ _ Hsb I) as [b [_ [cc [Icc [[Em Eb] Es]]]]].
      apply in_combine_r in Icc.
      destruct (script_nodes _ _ _ _ _ _ _ _ _ _ _ _ D cc Icc) as [_ [N1 [N2 [N3 _]]]].
      pose proof (wdom_met4 tbl Hok _ _ _ _ _ _ _ _ _ _ _ D cc Icc) as M4. rewrite M4 in *.
      destruct (wdom_snaps tbl Hok _ _ _ _ _ _ _ _ _ _ _ D) as [_ [_ [_ F4]]].
      destruct (forall2_in_l _ _ _ _ F4 Icc) as [s' [Is' [[Em' _] _]]].
      pose proof (wd_m2 _ _ _ _ _ _ _ _ _ _ _ _ D) as M. rewrite forallb_forall in M. pose proof (M s' Is') as M1. apply Z.ltb_lt in M1.
      rewrite Em, Eb, Es. repeat split; auto; try lia; try reflexivity.
    Qed.

    Definition bp_rows_any : list wrow := map (fun q => row_of (snd q) CH_EXBPM (b36_pair (Z.of_nat (fst q)))) (combine (seq 1 (length sb)) sb).

    Lemma any_len_sb_p : length sb = length p.
    Proof. symmetry. apply (forall2_length _ _ _ Hsb). Qed.

    Lemma any_bp_wf : Forall row_wf bp_rows_any.
    Proof.
      apply Forall_forall. intros rw I. unfold bp_rows_any in I. apply in_map_iff in I. destruct I as [[e s] [<- I]]. cbn [fst snd].
      pose proof (in_combine_l _ _ _ _ I) as Ie. pose proof (in_combine_r _ _ _ _ I) as Is. apply in_seq in Ie.
      destruct (any_sb_facts s Is) as [Hm [B0 [B4 M]]]. destruct (row_of_fields s CH_EXBPM (b36_pair (Z.of_nat e)) M) as [R1 [R2 [R3 [R4 R5]]]].
      pose proof p_len as Ln. unfold MAX_BPMS in Ln. rewrite any_len_sb_p in Ie.
      unfold row_wf. rewrite R1, R2, R3, R4, R5. repeat split; auto; try lia.
      - unfold Qle in B0. cbn in B0. lia.
      - unfold Qlt in B4. cbn in B4. lia.
      - apply b36_pair_not_none. lia.
    Qed.

    Lemma any_bp_objs : map row_obj bp_rows_any = XB c sb.
    Proof.
      rewrite (any_xb_is c l S sb Hsb). unfold bp_rows_any. rewrite map_map. apply map_ext_in. intros [e s] I. cbn [fst snd]. apply row_obj_of.
      apply (any_sb_facts s (in_combine_r _ _ _ _ I)).
    Qed.

    Let SCR := any_script tbl c l S sb Hdom p_len p_met HP (strict_sorted_NoDup _ S (fun x H => Qlt_irrefl _ H) S_strict) CT Hsb.

    Lemma any_bp_keys : NoDup (map row_key bp_rows_any).
    Proof.
      destruct SCR as [Ts [_ [_ [_ [_ [_ Nd]]]]]].
      unfold bp_rows_any. rewrite map_map.
      rewrite (map_ext_in _ (fun q : nat * snap => (fun s => (s_m s, CH_EXBPM, Qred (s_b s / 4))) (snd q))).
      2:{ intros [e s] I. cbn [fst snd]. apply row_key_of. apply (any_sb_facts s (in_combine_r _ _ _ _ I)). }
      rewrite (map_snd_fun_combine (fun s => (s_m s, CH_EXBPM, Qred (s_b s / 4)))) by (rewrite seq_length; reflexivity).
      apply (NoDup_map_weaker (fun s => (s_m s, Qred (s_b s / 4))) (fun s => (s_m s, CH_EXBPM, Qred (s_b s / 4))) sb); [|exact Nd].
      intros x y _ _ E. pose proof (f_equal (fun k : Z * text * Q => fst (fst k)) E) as E1. pose proof (f_equal (fun k : Z * text * Q => snd k) E) as E3.
      cbv beta in E1, E3. cbn [fst snd] in E1, E3. rewrite E1, E3. reflexivity.
    Qed.

    Lemma any_rows_written : write_rows tbl lay dflt c = Some (map (rn_row lay) ALL ++ bp_rows_any).
    Proof.
      unfold write_rows. rewrite Esn. unfold ALL, RHc, RAc, RTc, bp_rows_any.
      apply (write_rows_eq tbl lay dflt c sh sa st sb).
      - pose proof p_met as M. eapply Forall_impl; [|exact M]. intros b E. rewrite E. reflexivity.
      - intros h I. apply (lane_has_rev lay (h_col h)). apply (wd_hits _ _ _ _ _ _ _ _ _ _ _ _ D h I).
      - intros h I. apply (lane_has_rev lay (ho_col h)). apply (wd_holds _ _ _ _ _ _ _ _ _ _ _ _ D h I).
      - apply (lf_ex mk lay LF).
    Qed.

    Lemma any_note_lines : exists ls, write_note_lines (map (rn_row lay) ALL ++ bp_rows_any) = Some ls
      /\ Permutation (flat_map objs_of_line ls) (map (rn_obj lay) ALL ++ XB c sb)
      /\ Forall (fun ln => exists m ch data, data_line ln = Some (m, ch, data)) ls.
    Proof.
      destruct (write_note_lines_objs (map (rn_row lay) ALL ++ bp_rows_any)) as [ls [E [P F]]].
      - apply Forall_app. split; [|exact any_bp_wf]. apply Forall_forall. intros rw I. apply in_map_iff in I.
        destruct I as [n [<- In']]. apply (c_row_wf tbl Hok _ _ _ _ _ _ _ _ _ _ _ D n In').
      - rewrite map_app. apply NoDup_app_intro; [exact (c_keys tbl Hok _ _ _ _ _ _ _ _ _ _ _ D)|exact any_bp_keys|].
        intros k I1 I2. rewrite map_map in I1. apply in_map_iff in I1. destruct I1 as [n [<- In']].
        unfold bp_rows_any in I2. rewrite map_map in I2. apply in_map_iff in I2. destruct I2 as [[e s] [E Ip]]. cbn [fst snd] in E.
        rewrite (row_key_of _ _ _ (proj2 (proj2 (proj2 (any_sb_facts s (in_combine_r _ _ _ _ Ip)))))) in E.
        destruct (c_snap tbl Hok _ _ _ _ _ _ _ _ _ _ _ D n In') as [_ [_ [_ M]]]. unfold rn_row in E. rewrite (row_key_of _ _ _ M) in E.
        pose proof (f_equal (fun k : Z * text * Q => snd (fst k)) E) as E2. cbv beta in E2. cbn [fst snd] in E2.
        apply (c_chan _ _ _ _ _ _ _ _ _ _ _ _ D n In'). symmetry. exact E2.
      - exists ls. split; [exact E|]. split; [|exact F]. eapply Permutation_trans; [exact P|].
        rewrite map_app, any_bp_objs, map_map.
        apply Permutation_app_tail. rewrite (map_ext_in _ (rn_obj lay) ALL (c_row_obj tbl Hok _ _ _ _ _ _ _ _ _ _ _ D)). apply Permutation_refl.
    Qed.

    Lemma any_note_tempo o : In o (map (rn_obj lay) ALL) -> tempo_of_obj (ex_table c) o = None.
    Proof.
      intro I. apply in_map_iff in I. destruct I as [n [<- In']]. unfold tempo_of_obj, rn_obj, pobj. cbn [o_chan].
      destruct (chan_facts lay mk LF HK _ _ _ (c_col _ _ _ _ _ _ _ _ _ _ _ _ D) n In') as [_ [_ [La Ne]]].
      assert (Nb : chan lay (rn_col n) <> CH_BPM).
      { intro E. rewrite E in La. rewrite lane_of_dict, (lf_get_bpm mk lay LF) in La. discriminate. }
      rewrite (text_eqb_neq _ _ Nb), (text_eqb_neq _ _ Ne). reflexivity.
    Qed.

    Theorem any_written_file (r : Q -> text) : parse_decimal (r (bo_bpm b0)) <> None ->
      exists ls d, bms_write tbl lay dflt c = Some (header_lines c b0 ++ [WText []] ++ map WText ls)
        /\ bms_denote lay (map (render_with r) (header_lines c b0 ++ [WText []] ++ map WText ls)) = Some d
        /\ written_denotes_any tbl dflt c l d
        /\ hlookup S_BPM (d_headers d) = Some (r (bo_bpm b0)).
    Proof.
      intro Hr. destruct any_note_lines as [ls [Enl [Pobjs Fdata]]]. exists ls.
      pose proof p_len as Ln. change p with (w_bpms c) in Ln.
      pose proof (wd_misc _ _ _ _ _ _ _ _ _ _ _ _ D) as Hmisc. change (w_misc cs) with (w_misc c) in Hmisc.
      assert (Hsk : Forall (fun kv : text * text => is_b36_pair (fst kv) = true) (w_samples c)).
      { pose proof (wd_smp _ _ _ _ _ _ _ _ _ _ _ _ D) as F. eapply Forall_impl; [|exact F]. intros kv K. apply (id_ok_facts _ _ K). }
      assert (Ew : bms_write tbl lay dflt c = Some (header_lines c b0 ++ [WText []] ++ map WText ls)).
      { unfold bms_write, bms_write_with. rewrite (write_header_eq c b0 rest0 Ep Ln).
        - fold (write_rows tbl lay dflt c). rewrite any_rows_written, Enl. reflexivity.
        - intro E. destruct HLN as [B _]. change (w_lnobj c) with (w_lnobj cs) in E. rewrite E in B. discriminate. }
      destruct (written_header r c b0 Ln (proj1 HLN) Hmisc Hsk) as [EH0 EO0].
      set (lines := map (render_with r) (header_lines c b0 ++ [WText []] ++ map WText ls)).
      assert (El : lines = map (render_with r) (header_lines c b0) ++ [] :: ls).
      { unfold lines. rewrite !map_app, map_map. cbn [map render_with app]. rewrite map_id. reflexivity. }
      assert (EH : headers_of lines = hdr_table r c b0).
      { rewrite El, headers_of_app, EH0. change ([] :: ls) with ([[]] ++ ls). rewrite headers_of_app, (headers_of_data ls Fdata).
        cbn. rewrite app_nil_r. reflexivity. }
      assert (EO : flat_map objs_of_line lines = flat_map objs_of_line ls).
      { rewrite El, flat_map_app, EO0. reflexivity. }
      set (objs := flat_map objs_of_line ls) in *.
      destruct SCR as [Ts [PTs [Escr [Tw [Tmw [Tsim _]]]]]].
      assert (Et : exists tempos, tempo_objs (ex_table c) objs = Some tempos /\ Permutation tempos (T0 c sb)).
      { assert (E0 : tempo_objs (ex_table c) (map (rn_obj lay) ALL ++ XB c sb) = Some (T0 c sb)).
        { rewrite (tempo_objs_app_none _ _ _ any_note_tempo). apply (any_tempo_objs_xb c l S sb Ln p_3f Hsb). }
        destruct (tempo_objs_perm _ _ _ (Permutation_sym Pobjs) _ E0) as [tp [E1 P1]]. exists tp. split; [exact E1|apply Permutation_sym; exact P1]. }
      destruct Et as [tempos [Etp Ptp]].
      destruct (placed_lanes lay mk (w_lnobj c) LF HK _ _ _ (c_col _ _ _ _ _ _ _ _ _ _ _ _ D) (c_val _ _ _ _ _ _ _ _ _ _ _ _ D) (c_tail cs st)
                  (c_at tbl Hok _ _ _ _ _ _ _ _ _ _ _ D) (c_nd _ _ _ _ _ _ _ _ _ _ _ _ D) (c_in _ _ _ _ _ _ _ _ _ _ _ _ D) (XB c sb) objs) as [H [L [Elanes [PH PL]]]].
      { intros o I. unfold XB in I. apply in_map_iff in I. destruct I as [t [<- _]]. reflexivity. }
      { exact Pobjs. }
      destruct (parse_decimal (r (bo_bpm b0))) as [bpm0|] eqn:Eparse; [|contradiction].
      pose proof (Escr bpm0 tempos Ptp) as Escr'.
      eexists. split; [exact Ew|]. split.
      { fold lines. unfold bms_denote. rewrite EH, EO.
        rewrite (hdr_bpm r c b0), Eparse.
        rewrite (hdr_ext r c b0 Hmisc), (hdr_wav r c b0 Hmisc Hsk), (hdr_lnobj r c b0 Hmisc).
        fold objs. rewrite Etp, (ex_table_parses c p_3f), Elanes. rewrite Escr'. reflexivity. }
      unfold written_denotes_any. cbn [d_hits d_holds d_tempo d_headers d_lnobj d_wav d_bpm0].
      pose proof (wdom_snaps tbl Hok _ _ _ _ _ _ _ _ _ _ _ D) as WS. destruct WS as [F1 [F2 [F3 _]]].
      apply forall2_map_l in F1, F2, F3. destruct (lens tbl Hok _ _ _ _ _ _ _ _ _ _ _ D) as [L1 [L2 L3]].
      assert (Tm : forall o s ch v, snap_rt_spec tbl 0 l o s ->
                     time_rt tbl l o (Qred (time_of 0 Ts (snap_of (pobj s ch v))))).
      { intros o s ch v R. unfold snap_rt_spec in R. cbv zeta in R. destruct R as [A [B _]].
        assert (E : (Qred (time_of 0 Ts (snap_of (pobj s ch v))) == time_of 0 l s)%Q).
        { rewrite Qred_correct, Tw. apply time_of_qssim. apply snap_of_pobj. }
        apply (time_rt_wd tbl l o (time_of 0 l s)); [symmetry; exact E|]. split; [exact A|].
        intro G. apply B. apply (time_on_gridb_sound tbl 0 l o G). }
      split; [|apply hdr_bpm]. split; [|split; [|split; [|split]]].
      - eexists. split.
        + apply Permutation_map. apply Permutation_sym. exact PH.
        + rewrite map_map. unfold RHc. rewrite map_map.
          apply (forall2_combine_build (fun s h => snap_rt_spec tbl 0 l (h_off h) s)); [exact F1|].
          intros h s R. cbn [sh_col sh_time sh_sample fst snd]. unfold rn_obj, rn_col, rn_snap, rn_val. cbn [fst snd].
          split; [reflexivity|]. split; [apply Tm; exact R|reflexivity].
      - eexists. split.
        + apply Permutation_map. apply Permutation_sym. exact PL.
        + rewrite map_map. unfold RAc, RTc. rewrite (combine_rich _ _ sa st (w_holds cs) L2 L3). rewrite map_map.
          apply (forall2_combine_build (fun ss h => snap_rt_spec tbl 0 l (ho_off h) (fst ss) /\ snap_rt_spec tbl 0 l (Qred (ho_off h + ho_len h)) (snd ss))).
          * apply forall2_flip. apply forall2_flip in F2, F3. pose proof (forall2_zip _ _ _ _ _ F2 F3) as Z.
            apply (forall2_impl _ _ _ _ (fun ab hh Hab => Hab) Z).
          * intros h [s1 s2] [R1 R2]. cbn [fst snd]. unfold rn_obj, rn_col, rn_snap, rn_val. cbn [fst snd sl_col sl_time sl_len sl_sample pobj o_id].
            split; [reflexivity|]. split; [apply Tm; exact R1|]. split; [|reflexivity].
            eapply time_rt_wd; [|apply (Tm _ s2 (chan lay (ho_col h)) (w_lnobj cs) R2)].
            rewrite !Qred_correct. ring.
      - change (w_bpms c) with p. rewrite <- S_is_sort. exact Tmw.
      - change (w_bpms c) with p. rewrite <- S_is_sort. exists b0s, rests. split; [apply (wd_bpms _ _ _ _ _ _ _ _ _ _ _ _ D)|].
        pose proof (wd_bpms _ _ _ _ _ _ _ _ _ _ _ _ D) as Eb. pose proof CT as CT'. unfold S in CT'. rewrite Eb in CT'.
        inversion CT' as [|cc0 b' l' S' [_ [Eb0 _]] _ El1 ES1]. rewrite <- El1 in Tsim.
        inversion Tsim as [|x cc xs ls' Sx _ E1 E2]. destruct Sx as [A _]. rewrite A. symmetry. exact Eb0.
      - destruct (hdr_title r c b0) as [T1 [T2 T3]]. repeat split; auto. intros kv I. apply hdr_misc. exact I.
    Qed.
    (* the same file, described for the reader's guards (Proofs/BMSWriteGuardsProofs.v): its note lines, its tempo
       objects in text order, and the time-ordered script they sort to *)
    Theorem any_written_facts (r : Q -> text) :
      exists ls tempos Ts,
        bms_write tbl lay dflt c = Some (header_lines c b0 ++ [WText []] ++ map WText ls)
        /\ write_note_lines (map (rn_row lay) ALL ++ bp_rows_any) = Some ls
        /\ Forall row_wf (map (rn_row lay) ALL ++ bp_rows_any)
        /\ table_of S_BPM (headers_of (map (render_with r) (header_lines c b0 ++ [WText []] ++ map WText ls))) = ex_table c
        /\ flat_map objs_of_line (map (render_with r) (header_lines c b0 ++ [WText []] ++ map WText ls)) = flat_map objs_of_line ls
        /\ tempo_objs (ex_table c) (flat_map objs_of_line ls) = Some tempos /\ Permutation tempos Ts
        /\ (forall bpm0, script_of bpm0 tempos = Ts) /\ Forall2 sim Ts l.
    Proof.
      destruct any_note_lines as [ls [Enl [Pobjs Fdata]]]. exists ls.
      pose proof p_len as Ln. change p with (w_bpms c) in Ln.
      pose proof (wd_misc _ _ _ _ _ _ _ _ _ _ _ _ D) as Hmisc. change (w_misc cs) with (w_misc c) in Hmisc.
      assert (Hsk : Forall (fun kv : text * text => is_b36_pair (fst kv) = true) (w_samples c)).
      { pose proof (wd_smp _ _ _ _ _ _ _ _ _ _ _ _ D) as F. eapply Forall_impl; [|exact F]. intros kv K. apply (id_ok_facts _ _ K). }
      assert (Ew : bms_write tbl lay dflt c = Some (header_lines c b0 ++ [WText []] ++ map WText ls)).
      { unfold bms_write, bms_write_with. rewrite (write_header_eq c b0 rest0 Ep Ln).
        - fold (write_rows tbl lay dflt c). rewrite any_rows_written, Enl. reflexivity.
        - intro E. destruct HLN as [B _]. change (w_lnobj c) with (w_lnobj cs) in E. rewrite E in B. discriminate. }
      destruct (written_header r c b0 Ln (proj1 HLN) Hmisc Hsk) as [EH0 EO0].
      set (lines := map (render_with r) (header_lines c b0 ++ [WText []] ++ map WText ls)).
      assert (El : lines = map (render_with r) (header_lines c b0) ++ [] :: ls).
      { unfold lines. rewrite !map_app, map_map. cbn [map render_with app]. rewrite map_id. reflexivity. }
      assert (EH : headers_of lines = hdr_table r c b0).
      { rewrite El, headers_of_app, EH0. change ([] :: ls) with ([[]] ++ ls). rewrite headers_of_app, (headers_of_data ls Fdata).
        cbn. rewrite app_nil_r. reflexivity. }
      assert (EO : flat_map objs_of_line lines = flat_map objs_of_line ls).
      { rewrite El, flat_map_app, EO0. reflexivity. }
      destruct SCR as [Ts [PTs [Escr [_ [_ [Tsim _]]]]]].
      assert (Et : exists tempos, tempo_objs (ex_table c) (flat_map objs_of_line ls) = Some tempos /\ Permutation tempos (T0 c sb)).
      { assert (E0 : tempo_objs (ex_table c) (map (rn_obj lay) ALL ++ XB c sb) = Some (T0 c sb)).
        { rewrite (tempo_objs_app_none _ _ _ any_note_tempo). apply (any_tempo_objs_xb c l S sb Ln p_3f Hsb). }
        destruct (tempo_objs_perm _ _ _ (Permutation_sym Pobjs) _ E0) as [tp [E1 P1]]. exists tp. split; [exact E1|apply Permutation_sym; exact P1]. }
      destruct Et as [tempos [Etp Ptp]]. exists tempos, Ts.
      split; [exact Ew|]. split; [exact Enl|]. split.
      { apply Forall_app. split; [|exact any_bp_wf]. apply Forall_forall. intros rw I. apply in_map_iff in I.
        destruct I as [n [<- In']]. apply (c_row_wf tbl Hok _ _ _ _ _ _ _ _ _ _ _ D n In'). }
      split; [fold lines; rewrite EH; apply (hdr_ext r c b0 Hmisc)|]. split; [exact EO|]. split; [exact Etp|].
      split; [eapply Permutation_trans; eassumption|]. split; [intro bpm0; apply (Escr bpm0 tempos Ptp)|exact Tsim].
    Qed.
  End WithSb.
End AnyOrder.

(* ================================================================ E. the theorems ================================================================ *)
Lemma with_bpms_id c : with_bpms c (w_bpms c) = c.
Proof. destruct c. reflexivity. Qed.
Lemma with_bpms_twice c p q : with_bpms (with_bpms c p) q = with_bpms c q.
Proof. reflexivity. Qed.

Section AnyOrderFinal.
  Variable tbl : list Q.
  Hypothesis Hok : table_ok (1 # 96) tbl = true.

  (* a permutation of the tempo rows of a chart of write_dom has the same time-ordered rows *)
  Lemma write_dom_sorted_rows mk lay dflt cs p : write_dom tbl mk lay dflt cs = true -> Permutation p (w_bpms cs) ->
    sort_by bco_lt p = w_bpms cs /\ Dk (w_bpms cs).
  Proof.
    intros Hd HP. destruct (write_dom_unpack tbl mk lay dflt cs Hd) as [l [b0 [rest [sh [sa [st [sb [_ D]]]]]]]].
    split; [symmetry; apply (S_is_sort tbl Hok _ _ _ _ _ _ _ _ _ _ _ D p HP)|].
    apply strict_Dk. apply (S_strict tbl Hok _ _ _ _ _ _ _ _ _ _ _ D).
  Qed.

  (* bms_write_denotes, tempo rows in any order.  For every layout satisfying the layout obligations, every chart cs of
     write_dom and every permutation p of its tempo rows: BMSMap.write of the chart with tempo rows p succeeds, the
     reference interpreter accepts the written lines and they denote the chart -- hits and holds exactly as in
     bms_write_denotes (multisets, column, time within 1/192 beat and equal on the grid, sample), the tempo changes of the
     file are the rows in time order at the in-memory times with the in-memory tempos, the tempo in force at position 0
     is the tempo of the earliest row, header fields / WAV table / misc retained; the '#BPM' header line prints the
     FIRST ROW's tempo. *)
  Theorem bms_write_denotes_perm (mk : Z) (lay : layout) (dflt : text) (cs : wchart) (p : list bco) (r : Q -> text) :
    write_dom tbl mk lay dflt cs = true -> Permutation p (w_bpms cs) -> (forall q, parse_decimal (r q) <> None) ->
    exists ls l d, bms_write tbl lay dflt (with_bpms cs p) = Some ls /\ wscript tbl (with_bpms cs p) = Some l
      /\ wscript tbl cs = Some l
      /\ bms_denote lay (map (render_with r) ls) = Some d /\ written_denotes_any tbl dflt (with_bpms cs p) l d
      /\ exists b0 rest, p = b0 :: rest /\ hlookup S_BPM (d_headers d) = Some (r (bo_bpm b0)).
  Proof.
    intros Hd HP Hr. destruct (write_dom_unpack tbl mk lay dflt cs Hd) as [l [b0s [rests [sh [sa [st [sbs [Ew D]]]]]]]].
    destruct (any_snaps tbl Hok _ _ _ _ _ _ _ _ _ _ _ D p HP) as [sb [Esn Hsb]].
    destruct p as [|b0 rest0] eqn:Ep.
    { apply Permutation_nil in HP. rewrite (wd_bpms _ _ _ _ _ _ _ _ _ _ _ _ D) in HP. discriminate. }
    rewrite <- Ep in *.
    destruct (any_written_file tbl Hok _ _ _ _ _ _ _ _ _ _ _ D p HP sb b0 rest0 Ep Esn Hsb r (Hr _)) as [ls [d [E1 [E2 [E3 E4]]]]].
    eexists _, l, d. split; [exact E1|]. split.
    { unfold wscript. change (w_bpms (with_bpms cs p)) with p. rewrite <- (S_is_sort tbl Hok _ _ _ _ _ _ _ _ _ _ _ D p HP).
      apply (wd_script _ _ _ _ _ _ _ _ _ _ _ _ D). }
    split; [exact Ew|]. split; [exact E2|]. split; [exact E3|]. exists b0, rest0. split; [exact Ep|exact E4].
  Qed.

  (* the same on the decidable domain write_dom_any (the chart with its rows put in time order lies in write_dom) *)
  Theorem bms_write_denotes_any_order (mk : Z) (lay : layout) (dflt : text) (c : wchart) (r : Q -> text) :
    write_dom_any tbl mk lay dflt c = true -> (forall q, parse_decimal (r q) <> None) ->
    exists ls l d, bms_write tbl lay dflt c = Some ls /\ wscript tbl c = Some l
      /\ bms_denote lay (map (render_with r) ls) = Some d /\ written_denotes_any tbl dflt c l d
      /\ exists b0 rest, w_bpms c = b0 :: rest /\ hlookup S_BPM (d_headers d) = Some (r (bo_bpm b0)).
  Proof.
    intros Hd Hr. unfold write_dom_any in Hd.
    destruct (bms_write_denotes_perm mk lay dflt (time_ordered c) (w_bpms c) r Hd) as [ls [l [d [E1 [E2 [_ [E3 [E4 E5]]]]]]]].
    - unfold time_ordered. cbn [w_bpms with_bpms]. apply sort_by_perm.
    - exact Hr.
    - unfold time_ordered in *. rewrite with_bpms_twice, with_bpms_id in *. exists ls, l, d. auto.
  Qed.

  (* write_dom is the time-ordered part of write_dom_any *)
  Lemma write_dom_any_of_write_dom mk lay dflt c : write_dom tbl mk lay dflt c = true -> write_dom_any tbl mk lay dflt c = true.
  Proof.
    intro Hd. unfold write_dom_any, time_ordered.
    destruct (write_dom_sorted_rows mk lay dflt c (w_bpms c) Hd (Permutation_refl _)) as [E _]. rewrite E, with_bpms_id. exact Hd.
  Qed.
  Lemma write_dom_any_perm mk lay dflt cs p : write_dom tbl mk lay dflt cs = true -> Permutation p (w_bpms cs) ->
    write_dom_any tbl mk lay dflt (with_bpms cs p) = true.
  Proof.
    intros Hd HP. unfold write_dom_any, time_ordered. change (w_bpms (with_bpms cs p)) with p.
    destruct (write_dom_sorted_rows mk lay dflt cs p Hd HP) as [E _]. rewrite E, with_bpms_twice, with_bpms_id. exact Hd.
  Qed.

  (* the '#BPM' header line shows the initial tempo exactly when the first row is the earliest *)
  Theorem header_bpm_initial (mk : Z) (lay : layout) (dflt : text) (c : wchart) (r : Q -> text) :
    write_dom_any tbl mk lay dflt c = true -> first_row_earliest c = true -> (forall q, parse_decimal (r q) <> None) ->
    exists ls d, bms_write tbl lay dflt c = Some ls /\ bms_denote lay (map (render_with r) ls) = Some d
      /\ hlookup S_BPM (d_headers d) = Some (r (d_bpm0 d)).
  Proof.
    intros Hd Hf Hr. destruct (bms_write_denotes_any_order mk lay dflt c r Hd Hr) as [ls [l [d [E1 [_ [E3 [E4 [b0 [rest [Ep E5]]]]]]]]]].
    exists ls, d. split; [exact E1|]. split; [exact E3|]. rewrite E5. f_equal. f_equal.
    destruct E4 as [_ [_ [_ [[s0 [srest [Es E0]]] _]]]]. rewrite E0. f_equal.
    (* the first row is the head of the time-ordered rows *)
    unfold write_dom_any in Hd. destruct (write_dom_unpack tbl mk lay dflt _ Hd) as [l' [b0' [rest' [sh [sa [st [sb [_ D]]]]]]]].
    pose proof (S_strict tbl Hok _ _ _ _ _ _ _ _ _ _ _ D) as Ss. unfold time_ordered in Ss. cbn [w_bpms with_bpms] in Ss. rewrite Es in Ss.
    apply StronglySorted_inv in Ss. destruct Ss as [_ Fa]. rewrite Forall_forall in Fa.
    pose proof (sort_by_perm bco_lt (w_bpms c)) as P. rewrite Es in P.
    assert (Ib : In b0 (s0 :: srest)) by (apply (Permutation_in _ P); rewrite Ep; left; reflexivity).
    destruct Ib as [E|Ib]; [symmetry; exact E|exfalso].
    assert (Is : In s0 (w_bpms c)) by (apply (Permutation_in _ (Permutation_sym P)); left; reflexivity).
    unfold first_row_earliest in Hf. rewrite Ep in Hf, Is. rewrite forallb_forall in Hf. pose proof (Fa b0 Ib) as L.
    destruct Is as [E|Is]; [subst s0; lra|]. pose proof (Hf s0 Is) as L2. apply Qle_bool_iff in L2. lra.
  Qed.
End AnyOrderFinal.

(* ================================================================ F. read after write, rows in any order ================================================================ *)
(* written_denotes_any says at least what written_denotes says about notes and header fields *)
Lemma denotes_compose_any tbl dflt c l d c' : written_denotes_any tbl dflt c l d -> chart_denotes c' d -> read_back tbl dflt c l c'.
Proof.
  intros [[hs2 [P2 F2]] [[ls2 [Q2 G2]] [_ [_ [T1 [T2 [T3 [Ln [Wv _]]]]]]]]] [[hs1 [P1 F1]] [[ls1 [Q1 G1]] [M1 [M2 [M3 [M4 [_ [M6 _]]]]]]]].
  unfold read_back. rewrite M1, M2, M3, M4, M6, T1, T2, T3, Ln, Wv. cbn [or_empty]. split; [|split; [|repeat split; reflexivity]].
  - destruct (forall2_perm_l hit_matches hs1 hs2 (Permutation_trans P2 (Permutation_sym P1)) _ F1) as [ys [Py Fy]].
    exists ys. split; [exact Py|]. pose proof (forall2_compose _ _ _ _ _ F2 Fy) as C.
    eapply forall2_impl; [|exact C]. intros h h' [s [[A1 [A2 A3]] [B1 [B2 B3]]]]. cbv beta.
    split; [congruence|]. split; [|congruence]. apply (time_rt_wd' tbl l _ (sh_time s)); [symmetry; exact B2|exact A2].
  - destruct (forall2_perm_l hold_matches ls1 ls2 (Permutation_trans Q2 (Permutation_sym Q1)) _ G1) as [ys [Py Fy]].
    exists ys. split; [exact Py|]. pose proof (forall2_compose _ _ _ _ _ G2 Fy) as C.
    eapply forall2_impl; [|exact C]. intros h h' [s [[A1 [A2 [A3 A4]]] [B1 [B2 [B3 B4]]]]]. cbv beta.
    split; [congruence|]. split; [|split; [|congruence]].
    + apply (time_rt_wd' tbl l _ (sl_time s)); [symmetry; exact B2|exact A2].
    + apply (time_rt_wd' tbl l _ (sl_time s + sl_len s)%Q); [rewrite B2, B3; reflexivity|exact A3].
Qed.

(* BMSMap.read (BMSMap.write c) is c for tempo rows in any order (same hypotheses on the written text as bms_write_read) *)
Theorem bms_write_read_any_order tbl (Hok : table_ok (1 # 96) tbl = true) (mk : Z) (lay : layout) (dflt : text) (c : wchart) (r : Q -> text) :
  write_dom_any tbl mk lay dflt c = true -> (forall q, parse_decimal (r q) <> None) ->
  exists ls l d, bms_write tbl lay dflt c = Some ls /\ wscript tbl c = Some l
    /\ bms_denote lay (map (render_with r) ls) = Some d /\ written_denotes_any tbl dflt c l d
    /\ forall c', text_domb lay (map (render_with r) ls) = true -> read_guards tbl (map (render_with r) ls) = true ->
                  bms_read tbl lay mk (map (render_with r) ls) = Some c' -> read_back tbl dflt c l c'.
Proof.
  intros Hd Hr. destruct (bms_write_denotes_any_order tbl Hok mk lay dflt c r Hd Hr) as [ls [l [d [E1 [E2 [E3 [E4 _]]]]]]].
  exists ls, l, d. split; [exact E1|]. split; [exact E2|]. split; [exact E3|]. split; [exact E4|].
  intros c' Td G R.
  assert (Lok : layout_ok mk lay = true).
  { unfold write_dom_any, write_dom in Hd. apply andb_true_iff in Hd. destruct Hd as [Hd _]. apply andb_true_iff in Hd. destruct Hd as [Hd _].
    apply andb_true_iff in Hd. destruct Hd as [Hd _]. apply andb_true_iff in Hd. destruct Hd as [Hd _]. exact Hd. }
  destruct (bms_read_text_denotes tbl Hok lay mk _ c' Lok (text_domb_sound _ _ Td) G R) as [d' [E5 E6]].
  rewrite E3 in E5. inversion E5; subst d'. apply (denotes_compose_any tbl dflt c l d c' E4 E6).
Qed.
