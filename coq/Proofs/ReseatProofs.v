(* C11: proofs about the model of reseat_bpm_changes_snap (Timing/Reseat.v).
   A. list surgery and the one-pass shape of the loop      B. arithmetic of one gap (stepq_sem, stepq_term)
   C. termination on the whole domain (loop_no_fuel)       D. under the guard the loop is a structural function `go`
   E. `go` meets the strong structural spec (go_spec)      F. strong spec -> boolean oracle; oracle -> Prop spec; consequences
   G. domain extraction and the top-level theorems         H. refutations (the two known findings)
   I. lists given in any order                             J. from_bpm_changes_snap(init, l, reseat=True) *)
From Coq Require Import ZArith QArith Qround Qabs List Bool Lia Lqa.
From RV Require Import Base.PyNum Timing.Snapper Timing.Snap Timing.TimingMap Timing.Integrate Timing.Domain
  Timing.Reseat Timing.ReseatSpec Timing.ReseatDomain Proofs.SnapperProofs Proofs.TimingProofs Proofs.RederiveProofs.
Import ListNotations.
Open Scope Q_scope.

(* ================================================================== A. list surgery *)
Lemma nth_error_mid {A} (pre : list A) x suf : nth_error (pre ++ x :: suf) (length pre) = Some x.
Proof. induction pre as [|y pre IH]; [reflexivity|exact IH]. Qed.
Lemma nth_error_mid_S {A} (pre : list A) x y suf : nth_error (pre ++ x :: y :: suf) (S (length pre)) = Some y.
Proof. induction pre as [|z pre IH]; [reflexivity|exact IH]. Qed.
Lemma replace_at_app {A} (pre : list A) k z l : replace_at (length pre + k) z (pre ++ l) = pre ++ replace_at k z l.
Proof. induction pre as [|w pre IH]; [reflexivity|]. cbn [length app Nat.add]. destruct l; cbn [replace_at]; rewrite IH; reflexivity. Qed.
Lemma insert_at_app {A} (pre : list A) k z l : insert_at (length pre + k) z (pre ++ l) = pre ++ insert_at k z l.
Proof. induction pre as [|w pre IH]; [reflexivity|]. cbn [length app Nat.add insert_at]. rewrite IH. reflexivity. Qed.
Lemma replace_at_mid {A} (pre : list A) x y suf : replace_at (length pre) y (pre ++ x :: suf) = pre ++ y :: suf.
Proof. rewrite <- (Nat.add_0_r (length pre)). rewrite replace_at_app. reflexivity. Qed.
Lemma replace_at_mid_S {A} (pre : list A) x y z suf :
  replace_at (S (length pre)) z (pre ++ x :: y :: suf) = pre ++ x :: z :: suf.
Proof. rewrite <- (Nat.add_1_r (length pre)). rewrite replace_at_app. reflexivity. Qed.
Lemma insert_at_mid_S {A} (pre : list A) x y suf :
  insert_at (S (length pre)) y (pre ++ x :: suf) = pre ++ x :: y :: suf.
Proof. rewrite <- (Nat.add_1_r (length pre)). rewrite insert_at_app. reflexivity. Qed.
Lemma length_mid {A} (pre : list A) x suf : Nat.eqb (S (length pre)) (length (pre ++ x :: suf)) = match suf with [] => true | _ => false end.
Proof.
  rewrite app_length. cbn [length]. destruct suf as [|y suf].
  - apply Nat.eqb_eq. cbn [length]. lia.
  - apply Nat.eqb_neq. cbn [length]. lia.
Qed.
Lemma app_cons_assoc {A} (pre : list A) x suf : pre ++ x :: suf = (pre ++ [x]) ++ suf.
Proof. rewrite <- app_assoc. reflexivity. Qed.
Lemma length_snoc {A} (pre : list A) x : length (pre ++ [x]) = S (length pre).
Proof. rewrite app_length. cbn [length]. lia. Qed.

(* ------------------------------------------------------------------ one pass of the loop, list-free *)
Inductive stepres :=
| SExc                                   (* the pass raises *)
| SRep (c : bcs) (off : Q) (m : Z)       (* bcs_s[i] := c, offsets[i] := off *)
| SIns (c : bcs) (off : Q) (m : Z)       (* insert c / off at i+1 *)
| SKeep (m : Z).                         (* no branch taken *)

(* the branch logic, with the derived quantities as parameters *)
Definition stepq (thr : Q) (measure0 : Z) (bpm met o0 o1 bl ml : Q) (bq : Z) (br : Q) (mq : Z) (mr : Q) : stepres :=
  let measure := (measure0 + mq)%Z in
  if Qlt_bool 0 mr && Qle_bool mr thr then
    match snap_norm (measure - 1) 0 met with
    | None => SExc
    | Some s =>
      let c := mkBcs (Qred (bpm / (mr + 1))) met s in
      let off := Qred (inject_Z (mq - 1) * ml + o0) in
      if (mq =? 1)%Z then SRep c off measure else SIns c off (measure - 1)%Z
    end
  else if Qlt_bool 0 br && Qle_bool br thr then
    let met' := qmod (inject_Z bq) met in
    if Qeq_bool met' 0 then SExc
    else
      match snap_norm measure 0 met' with
      | None => SExc
      | Some s =>
        let c := mkBcs (Qred (bpm / ((br + met') / met'))) (Qred met') (mkSnap (s_m s) (s_b s) (Qred met')) in
        let off := Qred (o1 - met' * bl) in
        if (mq =? 0)%Z then SRep c off (measure + 1)%Z else SIns c off measure
      end
  else if Qlt_bool thr mr then
    match snap_norm measure 0 met with
    | None => SExc
    | Some s =>
      let c := mkBcs (Qred (bpm / mr)) met s in
      let off := Qred (inject_Z mq * ml + o0) in
      if (mq =? 0)%Z then SRep c off (measure + 1)%Z else SIns c off measure
    end
  else SKeep measure.

Definition q_md (bpm met o0 o1 : Q) : Q := (o1 - o0) / measure_len bpm met.
Definition q_bd (bpm o0 o1 : Q) : Q := (o1 - o0) / beat_len bpm.
Definition stepk (thr : Q) (measure0 : Z) (bpm met : Q) (o0 o1 : Q) : stepres :=
  stepq thr measure0 bpm met o0 o1 (beat_len bpm) (measure_len bpm met)
    (Qfloor (q_bd bpm o0 o1)) (Qred (q_bd bpm o0 o1 - inject_Z (Qfloor (q_bd bpm o0 o1))))
    (Qfloor (q_md bpm met o0 o1)) (Qred (q_md bpm met o0 o1 - inject_Z (Qfloor (q_md bpm met o0 o1)))).

Definition apply_step (i : nat) (l : list bcs) (offs : list Q) (r : stepres) : option (list bcs * list Q * Z) :=
  match r with
  | SExc => None
  | SRep c off m => Some (replace_at i c l, replace_at i off offs, m)
  | SIns c off m => Some (insert_at (S i) c l, insert_at (S i) off offs, m)
  | SKeep m => Some (l, offs, m)
  end.

Lemma reseat_loop_S fuel thr i measure l offs :
  reseat_loop (S fuel) thr i measure l offs =
    if Nat.eqb (S i) (length l) then ROk l
    else match nth_error l i, nth_error l (S i), nth_error offs i, nth_error offs (S i) with
      | Some b0, Some b1, Some o0, Some o1 =>
        match apply_step i l offs (stepk thr measure (bs_bpm b0) (bs_met b0) o0 o1) with
        | None => RExc
        | Some (l', offs', measure') =>
            match nth_error l' (S i) with
            | None => RExc
            | Some nx => reseat_loop fuel thr (S i) measure' (replace_at (S i) (set_snap nx measure') l') offs'
            end
        end
      | _, _, _, _ => RExc
      end.
Proof.
  cbn [reseat_loop]. destruct (Nat.eqb (S i) (length l)); [reflexivity|].
  destruct (nth_error l i) as [b0|]; [|reflexivity]. destruct (nth_error l (S i)) as [b1|]; [|reflexivity].
  destruct (nth_error offs i) as [o0|]; [|reflexivity]. destruct (nth_error offs (S i)) as [o1|]; [|reflexivity].
  unfold stepk, stepq, q_md, q_bd. cbv zeta.
  repeat match goal with
  | |- context [if ?c then _ else _] => destruct c
  | |- context [match snap_norm ?a ?b ?c with _ => _ end] => destruct (snap_norm a b c)
  end; reflexivity.
Qed.

Lemma pass_shape fuel thr pre b0 b1 suf opre o0 o1 osuf meas : length pre = length opre ->
  reseat_loop (S fuel) thr (length pre) meas (pre ++ b0 :: b1 :: suf) (opre ++ o0 :: o1 :: osuf) =
  match stepk thr meas (bs_bpm b0) (bs_met b0) o0 o1 with
  | SExc => RExc
  | SRep c off m => reseat_loop fuel thr (length (pre ++ [c])) m ((pre ++ [c]) ++ set_snap b1 m :: suf) ((opre ++ [off]) ++ o1 :: osuf)
  | SKeep m => reseat_loop fuel thr (length (pre ++ [b0])) m ((pre ++ [b0]) ++ set_snap b1 m :: suf) ((opre ++ [o0]) ++ o1 :: osuf)
  | SIns c off m => reseat_loop fuel thr (length (pre ++ [b0])) m ((pre ++ [b0]) ++ set_snap c m :: b1 :: suf) ((opre ++ [o0]) ++ off :: o1 :: osuf)
  end.
Proof.
  intro HL. rewrite reseat_loop_S. rewrite length_mid, nth_error_mid, nth_error_mid_S.
  rewrite HL, nth_error_mid, nth_error_mid_S. rewrite <- HL.
  destruct (stepk thr meas (bs_bpm b0) (bs_met b0) o0 o1) as [|c off m|c off m|m]; cbn [apply_step].
  - reflexivity.
  - rewrite replace_at_mid. rewrite nth_error_mid_S. rewrite replace_at_mid_S.
    rewrite HL, replace_at_mid, <- HL. rewrite !length_snoc, <- !app_cons_assoc. reflexivity.
  - rewrite insert_at_mid_S. rewrite nth_error_mid_S. rewrite replace_at_mid_S.
    rewrite HL, insert_at_mid_S, <- HL. rewrite !length_snoc, <- !app_cons_assoc. reflexivity.
  - rewrite nth_error_mid_S. rewrite replace_at_mid_S. rewrite !length_snoc, <- !app_cons_assoc. reflexivity.
Qed.

Lemma pass_exit fuel thr pre b0 offs meas :
  reseat_loop (S fuel) thr (length pre) meas (pre ++ [b0]) offs = ROk (pre ++ [b0]).
Proof. rewrite reseat_loop_S, length_mid. reflexivity. Qed.

(* ================================================================== B. arithmetic of one gap *)
Lemma Qle_bool_comp a b c d : a == c -> b == d -> Qle_bool a b = Qle_bool c d.
Proof.
  intros E1 E2. destruct (Qle_bool a b) eqn:X, (Qle_bool c d) eqn:Y; auto.
  - apply Qle_bool_iff in X. apply Qle_bool_false in Y. lra.
  - apply Qle_bool_iff in Y. apply Qle_bool_false in X. lra.
Qed.
Lemma Qlt_bool_comp a b c d : a == c -> b == d -> Qlt_bool a b = Qlt_bool c d.
Proof. intros. unfold Qlt_bool. f_equal. apply Qle_bool_comp; assumption. Qed.
Lemma in_window_comp thr x y : x == y -> in_window thr x = in_window thr y.
Proof. intro E. unfold in_window. rewrite (Qlt_bool_comp 0 x 0 y), (Qle_bool_comp x thr y thr); auto; reflexivity. Qed.
Lemma in_window_iff thr x : in_window thr x = true <-> 0 < x /\ x <= thr.
Proof. unfold in_window. rewrite andb_true_iff, Qlt_bool_iff, Qle_bool_iff. tauto. Qed.
Lemma in_window_false thr x : in_window thr x = false <-> (x <= 0 \/ thr < x).
Proof.
  unfold in_window. rewrite andb_false_iff, Qlt_bool_false, Qle_bool_false. tauto.
Qed.

Lemma beat_len_div bpm k : 0 < bpm -> 0 < k -> beat_len (Qred (bpm / k)) == beat_len bpm * k.
Proof. intros. unfold beat_len, MIN_TO_MSEC. rewrite Qred_correct. field. split; lra. Qed.
Lemma div_pos a b : 0 < a -> 0 < b -> 0 < a / b.
Proof. intros. apply Qlt_shift_div_l; lra. Qed.
Lemma pos_div_mul x y z : 0 < y -> z == x * y -> 0 < z -> 0 < x.
Proof.
  intros Hy E Hz. assert (Ex: x == z / y) by (rewrite E; field; lra). rewrite Ex. apply div_pos; assumption.
Qed.
Lemma inject_Z_nonneg_of z q : 0 < inject_Z z + q -> q < 1 -> (0 <= z)%Z.
Proof.
  intros H1 H2. assert (L: inject_Z (-1) < inject_Z z) by (change (inject_Z (-1)) with (-1); lra).
  rewrite <- Zlt_Qlt in L. lia.
Qed.
Lemma inject_Z_pos_of z : 0 < inject_Z z -> (1 <= z)%Z.
Proof. intro H. change 0 with (inject_Z 0) in H. rewrite <- Zlt_Qlt in H. lia. Qed.

Lemma snap_norm_seat m met : (0 <= m)%Z -> 0 < met -> snap_norm m 0 met = Some (mkSnap m 0 met).
Proof.
  intros Hm Hmet. unfold snap_norm.
  assert (Em: (m <? 0)%Z = false) by (apply Z.ltb_ge; exact Hm). rewrite Em.
  assert (E1: Qle_bool met 0 = false) by (apply Qle_bool_false; exact Hmet). rewrite E1.
  change (Qlt_bool 0 0) with false. cbn [orb fst snd]. rewrite Em. reflexivity.
Qed.

Lemma quants bpm met o0 o1 : 0 < bpm -> 0 < met ->
  let bl := beat_len bpm in let ml := measure_len bpm met in
  let md := q_md bpm met o0 o1 in let bd := q_bd bpm o0 o1 in
  let bq := Qfloor bd in let br := Qred (bd - inject_Z bq) in
  let mq := Qfloor md in let mr := Qred (md - inject_Z mq) in
  0 < bl /\ ml == bl * met /\ o1 - o0 == (inject_Z mq + mr) * ml /\ 0 <= mr /\ mr < 1 /\
  o1 - o0 == (inject_Z bq + br) * bl /\ 0 <= br /\ br < 1.
Proof.
  intros Hbpm Hmet. cbv zeta. pose proof (beat_len_pos _ Hbpm) as Hbl.
  assert (Hml: measure_len bpm met == beat_len bpm * met) by reflexivity.
  assert (Hmlp: 0 < measure_len bpm met) by (rewrite Hml; apply Qmult_lt_0_compat; assumption).
  rewrite !Qred_correct.
  pose proof (Qfloor_le (q_md bpm met o0 o1)) as F1. pose proof (Qlt_floor (q_md bpm met o0 o1)) as F2.
  pose proof (Qfloor_le (q_bd bpm o0 o1)) as G1. pose proof (Qlt_floor (q_bd bpm o0 o1)) as G2.
  rewrite inject_Z_plus in F2, G2. change (inject_Z 1) with 1 in F2, G2.
  split; [exact Hbl|]. split; [exact Hml|]. split; [|split; [lra|split; [lra|split; [|split; lra]]]].
  - unfold q_md. field. lra.
  - unfold q_bd. field. lra.
Qed.

(* a gap of exactly one measure of the current change: no branch is taken (metronome an integer) *)
Lemma stepk_whole thr m bpm met o0 o1 : 0 <= thr -> 0 < bpm -> 0 < met -> is_intQ met ->
  o1 - o0 == measure_len bpm met -> stepk thr m bpm met o0 o1 = SKeep (m + 1).
Proof.
  intros Hthr Hbpm Hmet [z Hz] Hod. pose proof (beat_len_pos _ Hbpm) as Hbl.
  assert (Hml: measure_len bpm met == beat_len bpm * met) by reflexivity.
  assert (Hmlp: 0 < measure_len bpm met) by (rewrite Hml; apply Qmult_lt_0_compat; assumption).
  assert (Emd: q_md bpm met o0 o1 == 1) by (unfold q_md; rewrite Hod; field; lra).
  assert (Ebd: q_bd bpm o0 o1 == inject_Z z) by (unfold q_bd; rewrite Hod, Hml, <- Hz; field; lra).
  assert (Emq: Qfloor (q_md bpm met o0 o1) = 1%Z) by (rewrite (Qfloor_comp _ _ Emd); reflexivity).
  assert (Ebq: Qfloor (q_bd bpm o0 o1) = z) by (rewrite (Qfloor_comp _ _ Ebd); apply Qfloor_Z).
  unfold stepk. rewrite Emq, Ebq.
  set (MR := Qred (q_md bpm met o0 o1 - inject_Z 1)). set (BR := Qred (q_bd bpm o0 o1 - inject_Z z)).
  assert (EMR: MR == 0) by (unfold MR; rewrite Qred_correct, Emd; reflexivity).
  assert (EBR: BR == 0) by (unfold BR; rewrite Qred_correct, Ebd; ring).
  unfold stepq. cbv zeta.
  assert (C1: Qlt_bool 0 MR = false) by (apply Qlt_bool_false; lra).
  assert (C2: Qlt_bool 0 BR = false) by (apply Qlt_bool_false; lra).
  assert (C3: Qlt_bool thr MR = false) by (apply Qlt_bool_false; lra).
  rewrite C1, C2, C3. reflexivity.
Qed.

(* what one pass does to a gap, semantically.  W = "a whole number of measures follows" *)
Definition gap_post (thr : Q) (meas : Z) (bpm met o0 o1 : Q) (W : Prop) (r : stepres) : Prop :=
  match r with
  | SExc => False
  | SKeep m => (meas < m)%Z /\ o1 - o0 == beat_len bpm * (inject_Z (m - meas) * met) /\ W
  | SRep c off m =>
      m = (meas + 1)%Z /\ s_m (bs_snap c) = meas /\ s_b (bs_snap c) == 0 /\ 0 < bs_bpm c /\ 0 < bs_met c /\
      o1 - o0 == beat_len (bs_bpm c) * bs_met c /\ ~ W
  | SIns c off m =>
      (meas < m)%Z /\ 0 < bs_bpm c /\ 0 < bs_met c /\
      off - o0 == beat_len bpm * (inject_Z (m - meas) * met) /\ 0 < off - o0 /\
      o1 - off == beat_len (bs_bpm c) * bs_met c /\ 0 < o1 - off /\ ~ W /\
      stepk thr m (bs_bpm c) (bs_met c) off o1 = SKeep (m + 1)
  end.

Lemma int_pos_ge1 met : is_intQ met -> 0 < met -> 1 <= met.
Proof.
  intros [z Hz] H. rewrite Hz in *. apply inject_Z_ge1. apply inject_Z_pos_of. exact H.
Qed.

Lemma qmod_small (z : Z) met : (0 <= z)%Z -> inject_Z z < met -> qmod (inject_Z z) met == inject_Z z.
Proof.
  intros Hz Hlt. assert (Hz': 0 <= inject_Z z) by (change 0 with (inject_Z 0); rewrite <- Zle_Qle; exact Hz).
  assert (Hmet: 0 < met) by lra.
  unfold qmod. assert (E: Qfloor (inject_Z z / met) = 0%Z).
  { apply Qfloor_unique; change (inject_Z 0) with 0.
    - apply Qle_shift_div_l; lra.
    - apply Qlt_shift_div_r; lra. }
  rewrite E. change (inject_Z 0) with 0. ring.
Qed.

Lemma stepq_sem thr meas bpm met o0 o1 bl ml bq br mq mr :
  0 <= thr -> 0 < bpm -> 0 < met -> is_intQ met -> (0 <= meas)%Z ->
  0 < bl -> bl == beat_len bpm -> ml == bl * met -> 0 < o1 - o0 ->
  o1 - o0 == (inject_Z mq + mr) * ml -> 0 <= mr -> mr < 1 ->
  o1 - o0 == (inject_Z bq + br) * bl -> 0 <= br -> br < 1 ->
  (if in_window thr mr then (1 <=? mq)%Z else if in_window thr br then (mq =? 0)%Z else true) = true ->
  gap_post thr meas bpm met o0 o1 (mr == 0) (stepq thr meas bpm met o0 o1 bl ml bq br mq mr).
Proof.
  intros Hthr Hbpm Hmet Hint Hmeas Hblp Hbl Hml Hodp Hmd Hmr0 Hmr1 Hbd Hbr0 Hbr1 Hg.
  assert (Hmlp : 0 < ml) by (rewrite Hml; apply Qmult_lt_0_compat; assumption).
  assert (Hmqr: 0 < inject_Z mq + mr) by (apply (pos_div_mul _ ml (o1 - o0)); assumption).
  assert (Hmq: (0 <= mq)%Z) by (apply (inject_Z_nonneg_of mq mr); assumption).
  assert (Hml': measure_len bpm met == ml) by (rewrite Hml, Hbl; reflexivity).
  unfold in_window in Hg. unfold stepq. cbv zeta.
  destruct (Qlt_bool 0 mr && Qle_bool mr thr) eqn:E1.
  { (* extend by nudging the bpm; at least one whole measure *)
    apply andb_true_iff in E1. destruct E1 as [A1 A2]. apply Qlt_bool_iff in A1. apply Qle_bool_iff in A2.
    apply Z.leb_le in Hg.
    rewrite snap_norm_seat by (try lia; assumption).
    assert (Hk: 0 < mr + 1) by lra.
    assert (Hbpm': 0 < Qred (bpm / (mr + 1))) by (rewrite Qred_correct; apply div_pos; assumption).
    pose proof (beat_len_div bpm (mr + 1) Hbpm Hk) as Hbl'.
    destruct (mq =? 1)%Z eqn:Eq.
    - apply Z.eqb_eq in Eq. cbn [gap_post bs_snap bs_bpm bs_met s_m s_b].
      split; [lia|]. split; [lia|]. split; [reflexivity|]. split; [exact Hbpm'|]. split; [exact Hmet|]. split; [|lra].
      rewrite Hbl', <- Hbl, Hmd, Hml. rewrite Eq. change (inject_Z 1) with 1. ring.
    - apply Z.eqb_neq in Eq. cbn [gap_post bs_snap bs_bpm bs_met s_m s_b].
      set (off := Qred (inject_Z (mq - 1) * ml + o0)).
      assert (Eoff: off == inject_Z (mq - 1) * ml + o0) by apply Qred_correct.
      assert (Em: (meas + mq - 1 - meas = mq - 1)%Z) by lia. rewrite Em.
      assert (H1: 1 <= inject_Z (mq - 1)) by (apply inject_Z_ge1; lia).
      assert (Hoff0: off - o0 == inject_Z (mq - 1) * ml) by (rewrite Eoff; ring).
      assert (Hoff1: o1 - off == (1 + mr) * ml).
      { assert (X: o1 - off == (o1 - o0) - (off - o0)) by ring.
        rewrite X, Hmd, Hoff0, inject_Z_minus. change (inject_Z 1) with 1. ring. }
      assert (Hp0: 0 < off - o0).
      { rewrite Hoff0. assert (1 * ml <= inject_Z (mq - 1) * ml) by (apply Qmult_le_compat_r; lra). lra. }
      assert (Hp1: 0 < o1 - off) by (rewrite Hoff1; apply Qmult_lt_0_compat; lra).
      assert (Hc: o1 - off == beat_len (Qred (bpm / (mr + 1))) * met) by (rewrite Hbl', <- Hbl, Hoff1, Hml; ring).
      split; [lia|]. split; [exact Hbpm'|]. split; [exact Hmet|].
      split; [rewrite Hoff0, Hml, <- Hbl; ring|]. split; [exact Hp0|]. split; [exact Hc|]. split; [exact Hp1|].
      split; [lra|]. apply stepk_whole; auto. }
  destruct (Qlt_bool 0 br && Qle_bool br thr) eqn:E2.
  { (* extend by a shorter metronome; only the REPLACE sub-branch (gap shorter than one measure) *)
    apply andb_true_iff in E2. destruct E2 as [A1 A2]. apply Qlt_bool_iff in A1. apply Qle_bool_iff in A2.
    apply Z.eqb_eq in Hg. subst mq. change (inject_Z 0) with 0 in *.
    assert (Hmrp: 0 < mr) by lra.
    assert (Hmrt: thr < mr).
    { apply andb_false_iff in E1. destruct E1 as [E1|E1]; [apply Qlt_bool_false in E1; lra|apply Qle_bool_false in E1; exact E1]. }
    assert (Hbqr: inject_Z bq + br == mr * met).
    { assert (X: (inject_Z bq + br) * bl == (mr * met) * bl) by (rewrite <- Hbd, Hmd, Hml; ring).
      apply Qmult_inj_r in X; [exact X|lra]. }
    assert (Hbqr0: 0 < inject_Z bq + br) by (apply (pos_div_mul _ bl (o1 - o0)); assumption).
    assert (Hbq0: (0 <= bq)%Z) by (apply (inject_Z_nonneg_of bq br); assumption).
    pose proof (int_pos_ge1 met Hint Hmet) as Hmet1.
    assert (Hmm: mr * met < met) by (assert (mr * met < 1 * met) by (apply Qmult_lt_compat_r; lra); lra).
    assert (Hbq1: (1 <= bq)%Z).
    { destruct (Z.eq_dec bq 0) as [Z0|NZ]; [|lia]. exfalso. subst bq. change (inject_Z 0) with 0 in *.
      assert (mr * 1 <= mr * met) by (apply Qmult_le_l; lra). lra. }
    pose proof (inject_Z_ge1 bq Hbq1) as Hbqq.
    assert (Hlt: inject_Z bq < met) by lra.
    pose proof (qmod_small bq met Hbq0 Hlt) as Emet'. set (met' := qmod (inject_Z bq) met) in *.
    assert (Hmet'p: 0 < met') by lra.
    assert (En: Qeq_bool met' 0 = false).
    { destruct (Qeq_bool met' 0) eqn:X; [|reflexivity]. apply Qeq_bool_iff in X. lra. }
    rewrite En. rewrite Z.add_0_r. rewrite snap_norm_seat by assumption. cbn [Z.eqb s_m s_b].
    cbn [gap_post bs_snap bs_bpm bs_met s_m s_b].
    assert (Hk: 0 < (br + met') / met') by (apply div_pos; lra).
    pose proof (beat_len_div bpm _ Hbpm Hk) as Hbl'.
    split; [reflexivity|]. split; [reflexivity|]. split; [reflexivity|].
    split; [rewrite Qred_correct; apply div_pos; assumption|]. split; [rewrite Qred_correct; exact Hmet'p|].
    split; [|lra].
    rewrite Hbl', <- Hbl, Hbd, Qred_correct, Emet'. field. lra. }
  destruct (Qlt_bool thr mr) eqn:E3.
  { (* a partial measure follows: finish the measure at a faster bpm *)
    apply Qlt_bool_iff in E3. assert (Hmrp: 0 < mr) by lra.
    rewrite snap_norm_seat by (try lia; assumption).
    assert (Hbpm': 0 < Qred (bpm / mr)) by (rewrite Qred_correct; apply div_pos; assumption).
    pose proof (beat_len_div bpm mr Hbpm Hmrp) as Hbl'.
    destruct (mq =? 0)%Z eqn:Eq.
    - apply Z.eqb_eq in Eq. cbn [gap_post bs_snap bs_bpm bs_met s_m s_b].
      split; [lia|]. split; [lia|]. split; [reflexivity|]. split; [exact Hbpm'|]. split; [exact Hmet|]. split; [|lra].
      rewrite Hbl', <- Hbl, Hmd, Hml. rewrite Eq. change (inject_Z 0) with 0. ring.
    - apply Z.eqb_neq in Eq. cbn [gap_post bs_snap bs_bpm bs_met s_m s_b].
      set (off := Qred (inject_Z mq * ml + o0)).
      assert (Eoff: off == inject_Z mq * ml + o0) by apply Qred_correct.
      assert (Em: (meas + mq - meas = mq)%Z) by lia. rewrite Em.
      assert (H1: 1 <= inject_Z mq) by (apply inject_Z_ge1; lia).
      assert (Hoff0: off - o0 == inject_Z mq * ml) by (rewrite Eoff; ring).
      assert (Hoff1: o1 - off == mr * ml).
      { assert (X: o1 - off == (o1 - o0) - (off - o0)) by ring. rewrite X, Hmd, Hoff0. ring. }
      assert (Hp0: 0 < off - o0).
      { rewrite Hoff0. assert (1 * ml <= inject_Z mq * ml) by (apply Qmult_le_compat_r; lra). lra. }
      assert (Hp1: 0 < o1 - off) by (rewrite Hoff1; apply Qmult_lt_0_compat; lra).
      assert (Hc: o1 - off == beat_len (Qred (bpm / mr)) * met) by (rewrite Hbl', <- Hbl, Hoff1, Hml; ring).
      split; [lia|]. split; [exact Hbpm'|]. split; [exact Hmet|].
      split; [rewrite Hoff0, Hml, <- Hbl; ring|]. split; [exact Hp0|]. split; [exact Hc|]. split; [exact Hp1|].
      split; [lra|]. apply stepk_whole; auto. }
  (* a whole number of measures follows *)
  apply Qlt_bool_false in E3.
  assert (Hmrz: mr == 0).
  { apply andb_false_iff in E1. destruct E1 as [E1|E1]; [apply Qlt_bool_false in E1; lra|apply Qle_bool_false in E1; lra]. }
  cbn [gap_post]. assert (Em: (meas + mq - meas = mq)%Z) by lia. rewrite Em.
  assert (H1: (1 <= mq)%Z) by (apply inject_Z_pos_of; lra).
  split; [lia|]. split; [|exact Hmrz]. rewrite Hmd, Hmrz, Hml, <- Hbl. ring.
Qed.

(* ------------------------------------------------------------------ the pass after an insertion never inserts *)
Definition not_ins (r : stepres) : Prop := match r with SIns _ _ _ => False | _ => True end.

(* a gap of between 2/3 and 1 measure: whatever branch is taken, it replaces *)
Lemma stepk_short thr m bpm met o0 o1 : 0 <= thr -> thr <= 1 # 2 -> 0 < bpm -> 0 < met ->
  (2 # 3) * measure_len bpm met <= o1 - o0 -> o1 - o0 < measure_len bpm met ->
  not_ins (stepk thr m bpm met o0 o1).
Proof.
  intros Hthr Hthr2 Hbpm Hmet Hlo Hhi. pose proof (beat_len_pos _ Hbpm) as Hbl.
  assert (Hml: measure_len bpm met == beat_len bpm * met) by reflexivity.
  assert (Hmlp: 0 < measure_len bpm met) by (rewrite Hml; apply Qmult_lt_0_compat; assumption).
  assert (L1: 2 # 3 <= q_md bpm met o0 o1) by (unfold q_md; apply Qle_shift_div_l; lra).
  assert (L2: q_md bpm met o0 o1 < 1) by (unfold q_md; apply Qlt_shift_div_r; lra).
  assert (Emq: Qfloor (q_md bpm met o0 o1) = 0%Z) by (apply Qfloor_unique; change (inject_Z 0) with 0; lra).
  unfold stepk. rewrite Emq. set (MR := Qred (q_md bpm met o0 o1 - inject_Z 0)).
  assert (EMR: MR == q_md bpm met o0 o1) by (unfold MR; rewrite Qred_correct; change (inject_Z 0) with 0; ring).
  unfold stepq. cbv zeta.
  assert (C1: Qle_bool MR thr = false) by (apply Qle_bool_false; lra). rewrite C1, andb_false_r. change (0 =? 0)%Z with true.
  repeat match goal with
  | |- context [if ?c then _ else _] => destruct c
  | |- context [match snap_norm ?a ?b ?c with _ => _ end] => destruct (snap_norm a b c)
  end; exact I.
Qed.

Lemma is_int_qmod z met : is_intQ met -> is_intQ (qmod (inject_Z z) met).
Proof.
  intros [w Hw]. unfold qmod. set (k := Qfloor (inject_Z z / met)). exists (z - k * w)%Z.
  rewrite inject_Z_minus, inject_Z_mult, Hw. reflexivity.
Qed.

Lemma stepq_term thr meas bpm met o0 o1 bl ml bq br mq mr :
  0 <= thr -> thr <= 1 # 2 -> 0 < bpm -> 0 < met -> is_intQ met ->
  0 < bl -> bl == beat_len bpm -> ml == bl * met -> 0 < o1 - o0 ->
  o1 - o0 == (inject_Z mq + mr) * ml -> 0 <= mr -> mr < 1 ->
  o1 - o0 == (inject_Z bq + br) * bl -> 0 <= br -> br < 1 ->
  match stepq thr meas bpm met o0 o1 bl ml bq br mq mr with
  | SIns c off m => not_ins (stepk thr m (bs_bpm c) (bs_met c) off o1)
  | _ => True
  end.
Proof.
  intros Hthr Hthr2 Hbpm Hmet Hint Hblp Hbl Hml Hodp Hmd Hmr0 Hmr1 Hbd Hbr0 Hbr1.
  assert (Hmlp : 0 < ml) by (rewrite Hml; apply Qmult_lt_0_compat; assumption).
  unfold stepq. cbv zeta.
  destruct (Qlt_bool 0 mr && Qle_bool mr thr) eqn:E1.
  { apply andb_true_iff in E1. destruct E1 as [A1 A2]. apply Qlt_bool_iff in A1. apply Qle_bool_iff in A2.
    destruct (snap_norm (meas + mq - 1) 0 met) as [s|]; [|exact I].
    destruct (mq =? 1)%Z; [exact I|]. cbn [bs_bpm bs_met].
    assert (Hk: 0 < mr + 1) by lra.
    assert (Hbpm': 0 < Qred (bpm / (mr + 1))) by (rewrite Qred_correct; apply div_pos; assumption).
    pose proof (beat_len_div bpm (mr + 1) Hbpm Hk) as Hbl'.
    rewrite stepk_whole; auto; [exact I|].
    rewrite Qred_correct. unfold measure_len. rewrite Hbl', <- Hbl.
    assert (X: o1 - (inject_Z (mq - 1) * ml + o0) == (o1 - o0) - inject_Z (mq - 1) * ml) by ring.
    rewrite X, Hmd, Hml, inject_Z_minus. change (inject_Z 1) with 1. ring. }
  destruct (Qlt_bool 0 br && Qle_bool br thr) eqn:E2.
  { apply andb_true_iff in E2. destruct E2 as [A1 A2]. apply Qlt_bool_iff in A1. apply Qle_bool_iff in A2.
    set (met' := qmod (inject_Z bq) met).
    destruct (Qeq_bool met' 0) eqn:En; [exact I|].
    destruct (snap_norm (meas + mq) 0 met') as [s|]; [|exact I].
    destruct (mq =? 0)%Z; [exact I|]. cbn [bs_bpm bs_met].
    assert (Hm1: 1 <= met').
    { destruct (qfloordiv_mod (inject_Z bq) met Hmet) as [_ [Q0 _]]. fold met' in Q0.
      apply int_pos_ge1; [apply is_int_qmod; exact Hint|].
      destruct (Qlt_le_dec 0 met') as [L|G]; [exact L|]. exfalso.
      assert (X: met' == 0) by lra. apply Qeq_bool_iff in X. congruence. }
    assert (Hk: 0 < (br + met') / met') by (apply div_pos; lra).
    assert (Hbpm': 0 < Qred (bpm / ((br + met') / met'))) by (rewrite Qred_correct; apply div_pos; assumption).
    pose proof (beat_len_div bpm _ Hbpm Hk) as Hbl'.
    assert (Hmet'': 0 < Qred met') by (rewrite Qred_correct; lra).
    assert (Eml2: measure_len (Qred (bpm / ((br + met') / met'))) (Qred met') == bl * (br + met')).
    { unfold measure_len. rewrite Hbl', <- Hbl, Qred_correct. field. lra. }
    assert (Eod2: o1 - Qred (o1 - met' * bl) == bl * met') by (rewrite Qred_correct; ring).
    apply stepk_short; auto; rewrite Eml2, Eod2.
    - assert (X: (2 # 3) * (bl * (br + met')) == bl * ((2 # 3) * (br + met'))) by ring. rewrite X.
      apply Qmult_le_l; [exact Hblp|]. lra.
    - apply Qmult_lt_l; [exact Hblp|]. lra. }
  destruct (Qlt_bool thr mr) eqn:E3; [|exact I].
  apply Qlt_bool_iff in E3. assert (Hmrp: 0 < mr) by lra.
  destruct (snap_norm (meas + mq) 0 met) as [s|]; [|exact I].
  destruct (mq =? 0)%Z; [exact I|]. cbn [bs_bpm bs_met].
  assert (Hbpm': 0 < Qred (bpm / mr)) by (rewrite Qred_correct; apply div_pos; assumption).
  pose proof (beat_len_div bpm mr Hbpm Hmrp) as Hbl'.
  rewrite stepk_whole; auto; [exact I|].
  rewrite Qred_correct. unfold measure_len. rewrite Hbl', <- Hbl.
  assert (X: o1 - (inject_Z mq * ml + o0) == (o1 - o0) - inject_Z mq * ml) by ring.
  rewrite X, Hmd, Hml. ring.
Qed.

(* instantiation at the model's own quantities *)
Lemma stepk_term thr meas bpm met o0 o1 :
  0 <= thr -> thr <= 1 # 2 -> 0 < bpm -> 0 < met -> is_intQ met -> 0 < o1 - o0 ->
  match stepk thr meas bpm met o0 o1 with
  | SIns c off m => not_ins (stepk thr m (bs_bpm c) (bs_met c) off o1)
  | _ => True
  end.
Proof.
  intros Hthr Hthr2 Hbpm Hmet Hint Hod.
  destruct (quants bpm met o0 o1 Hbpm Hmet) as (Q1 & Q2 & Q3 & Q4 & Q5 & Q6 & Q7 & Q8).
  unfold stepk. apply stepq_term; auto. reflexivity.
Qed.

(* ================================================================== C. termination on the whole domain *)
Definition okc (c : bcs) : Prop := 0 < bs_bpm c /\ 0 < bs_met c /\ is_intQ (bs_met c).
Lemma okc_set_snap c m : okc c -> okc (set_snap c m).
Proof. intro H. exact H. Qed.

(* every original interval costs at most two passes: the pass after an insertion never inserts *)
Lemma loop_no_fuel thr : 0 <= thr -> thr <= 1 # 2 -> forall suf osuf pre opre b0 o0 meas fuel,
  length pre = length opre -> length suf = length osuf -> okc b0 -> Forall okc suf -> incr_offs o0 osuf ->
  (2 * length suf + 1 <= fuel)%nat ->
  reseat_loop fuel thr (length pre) meas (pre ++ b0 :: suf) (opre ++ o0 :: osuf) <> RFuel.
Proof.
  intros Hthr Hthr2. induction suf as [|b1 suf IH]; intros osuf pre opre b0 o0 meas fuel HL HL2 Hb0 Hsuf Hinc Hfuel.
  - destruct fuel as [|fuel]; [cbn in Hfuel; lia|]. rewrite pass_exit. discriminate.
  - destruct osuf as [|o1 osuf]; [discriminate|]. destruct fuel as [|fuel]; [cbn in Hfuel; lia|].
    cbn [length] in Hfuel, HL2. destruct Hinc as [Ho Hinc]. destruct Hb0 as (B1 & B2 & B3).
    inversion Hsuf as [|? ? Hb1 Hsuf']; subst.
    rewrite pass_shape by assumption.
    assert (Hod: 0 < o1 - o0) by lra.
    pose proof (stepk_term thr meas (bs_bpm b0) (bs_met b0) o0 o1 Hthr Hthr2 B1 B2 B3 Hod) as T.
    destruct (stepk thr meas (bs_bpm b0) (bs_met b0) o0 o1) as [|c off m|c off m|m].
    + discriminate.
    + apply IH; auto; try (rewrite !length_snoc); try lia.
    + destruct fuel as [|fuel]; [lia|].
      rewrite pass_shape by (rewrite !length_snoc; lia). cbn [set_snap bs_bpm bs_met].
      destruct (stepk thr m (bs_bpm c) (bs_met c) off o1) as [|c2 off2 m2|c2 off2 m2|m2].
      * discriminate.
      * apply IH; auto; try (rewrite !length_snoc); try lia.
      * destruct T.
      * apply IH; auto; try (rewrite !length_snoc); try lia.
    + apply IH; auto; try (rewrite !length_snoc); try lia.
Qed.

(* ================================================================== D. under the guard the loop is a structural function *)
Fixpoint go (thr : Q) (meas : Z) (b0 : bcs) (o0 : Q) (suf : list bcs) (osuf : list Q) : list bcs :=
  match suf, osuf with
  | b1 :: suf', o1 :: osuf' =>
    match stepk thr meas (bs_bpm b0) (bs_met b0) o0 o1 with
    | SExc => [b0]
    | SRep c _ m => c :: go thr m (set_snap b1 m) o1 suf' osuf'
    | SKeep m => b0 :: go thr m (set_snap b1 m) o1 suf' osuf'
    | SIns c _ m => b0 :: set_snap c m :: go thr (m + 1) (set_snap b1 (m + 1)) o1 suf' osuf'
    end
  | _, _ => [b0]
  end.

Fixpoint good_chain (thr : Q) (meas : Z) (b0 : bcs) (o0 : Q) (suf : list bcs) (osuf : list Q) : Prop :=
  match suf, osuf with
  | b1 :: suf', o1 :: osuf' =>
    match stepk thr meas (bs_bpm b0) (bs_met b0) o0 o1 with
    | SExc => False
    | SRep c _ m => good_chain thr m (set_snap b1 m) o1 suf' osuf'
    | SKeep m => good_chain thr m (set_snap b1 m) o1 suf' osuf'
    | SIns c off m => stepk thr m (bs_bpm c) (bs_met c) off o1 = SKeep (m + 1)
                      /\ good_chain thr (m + 1) (set_snap b1 (m + 1)) o1 suf' osuf'
    end
  | [], [] => True
  | _, _ => False
  end.

Lemma loop_go thr : forall suf osuf pre opre b0 o0 meas fuel,
  length pre = length opre -> good_chain thr meas b0 o0 suf osuf -> (2 * length suf + 1 <= fuel)%nat ->
  reseat_loop fuel thr (length pre) meas (pre ++ b0 :: suf) (opre ++ o0 :: osuf)
  = ROk (pre ++ go thr meas b0 o0 suf osuf).
Proof.
  induction suf as [|b1 suf IH]; intros osuf pre opre b0 o0 meas fuel HL Hg Hfuel.
  - destruct fuel as [|fuel]; [cbn in Hfuel; lia|]. rewrite pass_exit. reflexivity.
  - destruct osuf as [|o1 osuf]; [destruct Hg|]. destruct fuel as [|fuel]; [cbn in Hfuel; lia|].
    cbn [length] in Hfuel. cbn [good_chain] in Hg. cbn [go].
    rewrite pass_shape by assumption.
    destruct (stepk thr meas (bs_bpm b0) (bs_met b0) o0 o1) as [|c off m|c off m|m].
    + destruct Hg.
    + rewrite IH; auto; try (rewrite !length_snoc); try lia. rewrite <- app_cons_assoc. reflexivity.
    + destruct Hg as [Hk Hg]. destruct fuel as [|fuel]; [lia|].
      rewrite pass_shape by (rewrite !length_snoc; lia). cbn [set_snap bs_bpm bs_met]. rewrite Hk.
      rewrite IH; auto; try (rewrite !length_snoc); try lia. rewrite <- !app_cons_assoc. reflexivity.
    + rewrite IH; auto; try (rewrite !length_snoc); try lia. rewrite <- app_cons_assoc. reflexivity.
Qed.

(* ================================================================== E. `go` meets the strong spec *)
Lemma gap_post_iff thr meas bpm met o0 o1 W W' r : (W <-> W') ->
  gap_post thr meas bpm met o0 o1 W r -> gap_post thr meas bpm met o0 o1 W' r.
Proof. intros E. destruct r; cbn [gap_post]; tauto. Qed.

(* one pass at the model's own quantities, with the guard stated on the beat distance d of the gap *)
Lemma stepk_sem thr meas bpm met o0 o1 d :
  0 <= thr -> 0 < bpm -> 0 < met -> is_intQ met -> (0 <= meas)%Z -> 0 < o1 - o0 ->
  o1 - o0 == beat_len bpm * d -> gap_okb thr met d = true ->
  gap_post thr meas bpm met o0 o1 (d / met == inject_Z (Qfloor (d / met))) (stepk thr meas bpm met o0 o1).
Proof.
  intros Hthr Hbpm Hmet Hint Hmeas Hodp Hod Hg.
  destruct (quants bpm met o0 o1 Hbpm Hmet) as (Q1 & Q2 & Q3 & Q4 & Q5 & Q6 & Q7 & Q8).
  pose proof (beat_len_pos _ Hbpm) as Hbl.
  assert (Emd: q_md bpm met o0 o1 == d / met).
  { unfold q_md, measure_len. rewrite Hod. field. lra. }
  assert (Ebd: q_bd bpm o0 o1 == d) by (unfold q_bd; rewrite Hod; field; lra).
  assert (Emq: Qfloor (q_md bpm met o0 o1) = gap_mq met d) by (apply Qfloor_comp; exact Emd).
  assert (Ebq: Qfloor (q_bd bpm o0 o1) = Qfloor d) by (apply Qfloor_comp; exact Ebd).
  assert (Emr: Qred (q_md bpm met o0 o1 - inject_Z (Qfloor (q_md bpm met o0 o1))) == gap_mr met d).
  { rewrite Qred_correct, Emq, Emd. reflexivity. }
  assert (Ebr: Qred (q_bd bpm o0 o1 - inject_Z (Qfloor (q_bd bpm o0 o1))) == gap_br d).
  { rewrite Qred_correct, Ebq, Ebd. reflexivity. }
  unfold stepk.
  eapply gap_post_iff; [|apply stepq_sem; auto; try reflexivity].
  - rewrite Emr. unfold gap_mr. split; intro H; lra.
  - rewrite (in_window_comp thr _ _ Emr), (in_window_comp thr _ _ Ebr), Emq. exact Hg.
Qed.

Fixpoint offs_ok (o0 : Q) (c0 : bcs) (cs : list bcs) (os : list Q) : Prop :=
  match cs, os with
  | [], [] => True
  | c1 :: cs', o1 :: os' =>
      o1 - o0 == beat_len (bs_bpm c0) * seg_beats (bs_met c0) (bs_snap c0) (bs_snap c1) /\ offs_ok o1 c1 cs' os'
  | _, _ => False
  end.

Lemma timeline_cons2 t0 x y r :
  timeline t0 (x :: y :: r)
  = (t0, x) :: timeline (t0 + beat_len (bs_bpm x) * seg_beats (bs_met x) (bs_snap x) (bs_snap y)) (y :: r).
Proof. reflexivity. Qed.
Lemma timeline_cons1 t0 x r : exists ts, timeline t0 (x :: r) = (t0, x) :: ts.
Proof. destruct r as [|y r]; [exists []; reflexivity|]. rewrite timeline_cons2. eexists; reflexivity. Qed.

Lemma go_spec thr : 0 <= thr -> forall suf osuf c0 b0 o0 meas,
  bs_bpm b0 = bs_bpm c0 -> bs_met b0 = bs_met c0 ->
  s_m (bs_snap b0) = meas -> s_b (bs_snap b0) == 0 -> (0 <= meas)%Z ->
  okc c0 -> Forall okc suf -> offs_ok o0 c0 suf osuf -> incr_offs o0 osuf ->
  gaps_forall (gap_okb thr) c0 suf = true ->
  good_chain thr meas b0 o0 suf osuf /\
  exists h r, go thr meas b0 o0 suf osuf = h :: r /\ s_m (bs_snap h) = meas /\ s_b (bs_snap h) == 0 /\
              incr_from meas r /\
              forall t0 u0, t0 == o0 -> u0 == o0 -> refines (timeline t0 (c0 :: suf)) (timeline u0 (h :: r)).
Proof.
  intro Hthr. induction suf as [|c1 suf IH]; intros osuf c0 b0 o0 meas Eb Em Hsm Hsb Hmeas Hc0 Hsuf Hoff Hinc Hg; subst meas.
  - destruct osuf as [|o1 osuf]; [|destruct Hoff]. split; [exact I|].
    exists b0, []. cbn [go]. split; [reflexivity|]. split; [reflexivity|]. split; [exact Hsb|]. split; [exact I|].
    intros t0 u0 Et Eu. cbn. apply rf_last; [rewrite Et, Eu; reflexivity|rewrite Eb; reflexivity].
  - destruct osuf as [|o1 osuf]; [destruct Hoff|]. destruct Hoff as [Hod Hoff]. destruct Hinc as [Ho Hinc].
    cbn [gaps_forall] in Hg. apply andb_true_iff in Hg. destruct Hg as [Hg1 Hg].
    inversion Hsuf as [|? ? Hc1 Hsuf']; subst.
    destruct Hc0 as (B1 & B2 & B3).
    assert (Hodp: 0 < o1 - o0) by lra.
    pose proof (stepk_sem thr (s_m (bs_snap b0)) (bs_bpm c0) (bs_met c0) o0 o1 _ Hthr B1 B2 B3 Hmeas Hodp Hod Hg1) as S.
    fold (whole c0 c1) in S.
    cbn [good_chain go]. rewrite Eb, Em.
    set (bl0 := beat_len (bs_bpm c0)) in *. set (d := seg_beats (bs_met c0) (bs_snap c0) (bs_snap c1)) in *.
    destruct (stepk thr (s_m (bs_snap b0)) (bs_bpm c0) (bs_met c0) o0 o1) as [|c off m|c off m|m]; cbn [gap_post] in S.
    + destruct S.
    + (* replace *)
      destruct S as (S1 & S2 & S3 & S4 & S5 & S6 & S7).
      destruct (IH osuf c1 (set_snap c1 m) o1 m) as [G (h & r & Eg & H1 & H2 & H3 & H4)]; auto; try lia; try reflexivity.
      split; [exact G|]. exists c, (h :: r). rewrite Eg.
      split; [reflexivity|]. split; [exact S2|]. split; [exact S3|].
      split; [cbn [incr_from]; split; [lia|split; [exact H2|rewrite H1; exact H3]]|].
      intros t0 u0 Et Eu. rewrite !timeline_cons2. fold bl0 d.
      destruct (timeline_cons1 (t0 + bl0 * d) c1 suf) as [ts Ets].
      assert (R := H4 (t0 + bl0 * d) (u0 + beat_len (bs_bpm c) * seg_beats (bs_met c) (bs_snap c) (bs_snap h))).
      rewrite Ets in *. apply rf_keep; [rewrite Et, Eu; reflexivity|intro W; contradiction|].
      apply R; [rewrite Et, <- Hod; ring|].
      assert (E1: o1 == o0 + beat_len (bs_bpm c) * bs_met c) by (rewrite <- S6; ring).
      unfold seg_beats. rewrite H1, S2, S1, H2, S3, Eu.
      assert (Z1: (s_m (bs_snap b0) + 1 - s_m (bs_snap b0) = 1)%Z) by lia. rewrite Z1. change (inject_Z 1) with 1.
      rewrite E1. ring.
    + (* insert *)
      destruct S as (S1 & S2 & S3 & S4 & S5 & S6 & S7 & S8 & S9).
      destruct (IH osuf c1 (set_snap c1 (m + 1)) o1 (m + 1)%Z) as [G (h & r & Eg & H1 & H2 & H3 & H4)]; auto; try lia; try reflexivity.
      split; [split; [exact S9|exact G]|]. exists b0, (set_snap c m :: h :: r). rewrite Eg.
      split; [reflexivity|]. split; [reflexivity|]. split; [exact Hsb|].
      split.
      { cbn [incr_from set_snap bs_snap s_m s_b]. split; [lia|]. split; [reflexivity|]. split; [lia|].
        split; [exact H2|]. rewrite H1. exact H3. }
      intros t0 u0 Et Eu. rewrite (timeline_cons2 t0 c0 c1), (timeline_cons2 u0 b0), (timeline_cons2 _ (set_snap c m) h).
      fold bl0 d.
      destruct (timeline_cons1 (t0 + bl0 * d) c1 suf) as [ts Ets].
      set (x := u0 + beat_len (bs_bpm b0) * seg_beats (bs_met b0) (bs_snap b0) (bs_snap (set_snap c m))).
      assert (Eoff: off == o0 + bl0 * (inject_Z (m - s_m (bs_snap b0)) * bs_met c0)) by (unfold bl0; lra).
      assert (Ex: x == off).
      { unfold x, seg_beats. cbn [set_snap bs_snap s_m s_b]. rewrite Eb, Em, Hsb, Eu, Eoff. fold bl0. ring. }
      assert (R := H4 (t0 + bl0 * d)
                      (x + beat_len (bs_bpm (set_snap c m)) * seg_beats (bs_met (set_snap c m)) (bs_snap (set_snap c m)) (bs_snap h))).
      rewrite Ets in *. apply rf_extra.
      * rewrite Et, Eu; reflexivity.
      * exact S8.
      * rewrite Eb; reflexivity.
      * rewrite Ex, Et. lra.
      * rewrite Ex, Et, <- Hod. lra.
      * apply R; [rewrite Et, <- Hod; ring|].
        assert (E1: o1 == off + beat_len (bs_bpm c) * bs_met c) by (rewrite <- S6; ring).
        unfold seg_beats. cbn [set_snap bs_snap bs_bpm bs_met s_m s_b]. rewrite H1, H2, Ex.
        assert (Z1: (m + 1 - m = 1)%Z) by lia. rewrite Z1. change (inject_Z 1) with 1. rewrite E1. ring.
    + (* keep *)
      destruct S as (S1 & S2 & S3).
      destruct (IH osuf c1 (set_snap c1 m) o1 m) as [G (h & r & Eg & H1 & H2 & H3 & H4)]; auto; try lia; try reflexivity.
      split; [exact G|]. exists b0, (h :: r). rewrite Eg.
      split; [reflexivity|]. split; [reflexivity|]. split; [exact Hsb|].
      split; [cbn [incr_from]; split; [lia|split; [exact H2|rewrite H1; exact H3]]|].
      intros t0 u0 Et Eu. rewrite !timeline_cons2. fold bl0 d.
      destruct (timeline_cons1 (t0 + bl0 * d) c1 suf) as [ts Ets].
      assert (R := H4 (t0 + bl0 * d) (u0 + beat_len (bs_bpm b0) * seg_beats (bs_met b0) (bs_snap b0) (bs_snap h))).
      rewrite Ets in *. apply rf_keep; [rewrite Et, Eu; reflexivity|intro W; rewrite Eb; reflexivity|].
      apply R; [rewrite Et, <- Hod; ring|].
      assert (E1: o1 == o0 + bl0 * (inject_Z (m - s_m (bs_snap b0)) * bs_met c0)) by (unfold bl0; lra).
      unfold seg_beats. rewrite Eb, Em, H1, H2, Hsb, Eu, E1. fold bl0. ring.
Qed.

(* ================================================================== G0. the domain wf_unseated, in Prop form *)
Fixpoint wfP_go (met : Q) (prev : snap) (l : list bcs) : Prop :=
  match l with
  | [] => True
  | c :: l' => slt prev (bs_snap c) /\ 0 < bs_bpm c /\ bs_met c == met /\ s_met (bs_snap c) == met
               /\ 0 <= s_b (bs_snap c) /\ s_b (bs_snap c) < met /\ wfP_go met (bs_snap c) l'
  end.
Lemma wf_go_P met prev l : wf_unseated_go met prev l = true -> wfP_go met prev l.
Proof.
  revert prev. induction l as [|c l IH]; intros prev H; [exact I|].
  cbn [wf_unseated_go] in H.
  apply andb_true_iff in H. destruct H as [H H7]. apply andb_true_iff in H. destruct H as [H H6].
  apply andb_true_iff in H. destruct H as [H H5]. apply andb_true_iff in H. destruct H as [H H4].
  apply andb_true_iff in H. destruct H as [H H3]. apply andb_true_iff in H. destruct H as [H1 H2].
  cbn [wfP_go]. apply snap_lt_iff in H1. apply Qlt_bool_iff in H2, H6. apply Qeq_bool_iff in H3, H4. apply Qle_bool_iff in H5.
  repeat split; auto.
Qed.
Lemma wf_unseated_P l : wf_unseated l = true ->
  exists c rest, l = c :: rest /\ s_m (bs_snap c) = 0%Z /\ s_b (bs_snap c) == 0 /\ 0 < bs_bpm c /\
    is_intQ (bs_met c) /\ 1 <= bs_met c /\ s_met (bs_snap c) == bs_met c /\ wfP_go (bs_met c) (bs_snap c) rest.
Proof.
  destruct l as [|c rest]; [discriminate|]. intro H. cbn [wf_unseated] in H.
  apply andb_true_iff in H. destruct H as [H H8]. apply andb_true_iff in H. destruct H as [H H7].
  apply andb_true_iff in H. destruct H as [H H6]. apply andb_true_iff in H. destruct H as [H H5].
  apply andb_true_iff in H. destruct H as [H H4]. apply andb_true_iff in H. destruct H as [H H3].
  apply andb_true_iff in H. destruct H as [H1 H2].
  apply Z.eqb_eq in H1. apply Qeq_bool_iff in H2, H4, H7. apply Qlt_bool_iff in H3. apply Qle_bool_iff in H5.
  exists c, rest. repeat split; auto. - eexists; exact H4. - apply wf_go_P; exact H8.
Qed.

Lemma is_intQ_comp a b : a == b -> is_intQ b -> is_intQ a.
Proof. intros E [z Hz]. exists z. rewrite E. exact Hz. Qed.

Lemma wfP_okc met prev rest : 0 < met -> is_intQ met -> wfP_go met prev rest -> Forall okc rest.
Proof.
  intros Hm Hi. revert prev. induction rest as [|c rest IH]; intros prev H; [constructor|].
  destruct H as (H1 & H2 & H3 & H4 & H5 & H6 & H7). constructor; [|apply (IH _ H7)].
  split; [exact H2|]. split; [rewrite H3; exact Hm|apply (is_intQ_comp _ met); assumption].
Qed.

Lemma wfP_adj_ok met p rest : wfP_go met (bs_snap p) rest -> adj_ok bcs_lt (p :: rest).
Proof.
  revert p. induction rest as [|c rest IH]; intros p H; [exact I|]. destruct H as (Hlt & _ & _ & _ & _ & _ & Hs).
  cbn [adj_ok]. split; [|apply IH; exact Hs]. unfold bcs_lt.
  destruct (snap_lt (bs_snap c) (bs_snap p)) eqn:E; auto. apply snap_lt_iff in E.
  exfalso. apply (slt_not_sle _ _ Hlt). apply slt_sle. exact E.
Qed.

Lemma offs_ok_length o0 c0 cs os : offs_ok o0 c0 cs os -> length cs = length os.
Proof.
  revert o0 c0 os. induction cs as [|c cs IH]; intros o0 c0 os H; destruct os as [|o os]; try destruct H; [reflexivity|].
  cbn [length]. f_equal. eapply IH; eassumption.
Qed.

(* the offsets the implementation accumulates are the integrated times *)
Lemma rel_offsets_ok met : 0 < met -> forall rest p off,
  0 < bs_bpm p -> bs_met p == met -> s_met (bs_snap p) == met -> s_b (bs_snap p) < met ->
  wfP_go met (bs_snap p) rest ->
  exists offs, rel_offsets_go off p rest = Some offs /\ offs_ok off p rest offs /\ incr_offs off offs.
Proof.
  intros Hmet. induction rest as [|c rest IH]; intros p off Hbpm Hm1 Hm2 Hb H.
  - exists []. repeat split.
  - destruct H as (H1 & H2 & H3 & H4 & H5 & H6 & H7). cbn [rel_offsets_go].
    assert (Hmp: 0 < s_met (bs_snap p)) by (rewrite Hm2; exact Hmet).
    assert (Hb': s_b (bs_snap p) < s_met (bs_snap p)) by (rewrite Hm2; exact Hb).
    pose proof (seg_beats_pos (s_met (bs_snap p)) _ _ Hmp H1 H5 Hb') as Hpos.
    assert (Hge: (0 <= s_m (bs_snap c) - s_m (bs_snap p))%Z).
    { pose proof (sle_m _ _ (slt_sle _ _ H1)). lia. }
    assert (Hval: 0 <= snap_val (s_met (bs_snap p)) (s_m (bs_snap c) - s_m (bs_snap p)) (s_b (bs_snap c) - s_b (bs_snap p))).
    { unfold snap_val. unfold seg_beats in Hpos. lra. }
    destruct (snap_norm_defined _ _ _ Hge Hmp Hval) as [d Hd].
    assert (Hsub: snap_sub (bs_snap c) (bs_snap p) = Some d) by exact Hd. rewrite Hsub.
    destruct (snap_norm_value _ _ _ _ Hge Hmp Hd) as [Ev _].
    set (off' := Qred (off + snap_offset d (bs_bpm p) (bs_met p))).
    assert (Eoff: off' - off == beat_len (bs_bpm p) * seg_beats (bs_met p) (bs_snap p) (bs_snap c)).
    { unfold off'. rewrite Qred_correct. unfold snap_offset, measure_len, seg_beats. unfold snap_val in Ev.
      rewrite Hm2 in Ev. rewrite Hm1.
      assert (X: off + (beat_len (bs_bpm p) * met * inject_Z (s_m d) + beat_len (bs_bpm p) * s_b d) - off
                 == beat_len (bs_bpm p) * (inject_Z (s_m d) * met + s_b d)) by ring.
      rewrite X, Ev. reflexivity. }
    assert (Hb6: s_b (bs_snap c) < met) by exact H6.
    destruct (IH c off' H2 H3 H4 Hb6 H7) as (offs & E1 & E2 & E3). rewrite E1.
    exists (off' :: offs). split; [reflexivity|]. split; [split; assumption|]. split; [|exact E3].
    pose proof (beat_len_pos _ Hbpm) as Hbl.
    assert (0 < beat_len (bs_bpm p) * seg_beats (bs_met p) (bs_snap p) (bs_snap c)).
    { apply Qmult_lt_0_compat; [exact Hbl|]. unfold seg_beats in *. rewrite Hm1. rewrite Hm2 in Hpos. exact Hpos. }
    lra.
Qed.

Lemma wf_prepare l : wf_unseated l = true ->
  exists c rest offs, l = c :: rest /\ sort_by bcs_lt l = l /\ rel_offsets_go 0 c rest = Some offs /\
    offs_ok 0 c rest offs /\ incr_offs 0 offs /\ okc c /\ Forall okc rest /\
    s_m (bs_snap c) = 0%Z /\ s_b (bs_snap c) == 0.
Proof.
  intro H. destruct (wf_unseated_P l H) as (c & rest & -> & H1 & H2 & H3 & H4 & H5 & H6 & H7).
  assert (Hmet: 0 < bs_met c) by lra.
  destruct (rel_offsets_ok (bs_met c) Hmet rest c 0 H3 ltac:(reflexivity) H6 ltac:(lra) H7) as (offs & E1 & E2 & E3).
  exists c, rest, offs. split; [reflexivity|]. split; [apply sort_by_adj_ok; apply (wfP_adj_ok (bs_met c)); exact H7|].
  split; [exact E1|]. split; [exact E2|]. split; [exact E3|]. split; [repeat split; assumption|].
  split; [apply (wfP_okc (bs_met c) (bs_snap c)); assumption|]. split; assumption.
Qed.

(* ================================================================== G1. termination *)
Theorem reseat_terminates_thr thr l : 0 <= thr -> thr <= 1 # 2 -> wf_unseated l = true -> reseat_with thr l <> RFuel.
Proof.
  intros Hthr Hthr2 H. destruct (wf_prepare l H) as (c & rest & offs & -> & Es & Eo & Ok & Inc & Hc & Hrest & _ & _).
  unfold reseat_with. rewrite Es, Eo.
  apply (loop_no_fuel thr Hthr Hthr2 rest offs [] [] c 0 0%Z); auto.
  - apply (offs_ok_length _ _ _ _ Ok).
  - cbn [length]. lia.
Qed.
Theorem reseat_terminates l : wf_unseated l = true -> reseat l <> RFuel.
Proof. apply reseat_terminates_thr; unfold THRESHOLD; lra. Qed.

(* ================================================================== G2. the strong spec under the guard *)
Theorem reseat_strong_thr thr l : 0 <= thr -> wf_unseated l = true -> reseat_guard thr l = true ->
  exists r, reseat_with thr l = ROk r /\ reseat_strong l r.
Proof.
  intros Hthr H Hg. destruct (wf_prepare l H) as (c & rest & offs & -> & Es & Eo & Ok & Inc & Hc & Hrest & Hm & Hb).
  unfold reseat_with. rewrite Es, Eo.
  destruct (go_spec thr Hthr rest offs c c 0 0%Z eq_refl eq_refl Hm Hb ltac:(lia) Hc Hrest Ok Inc Hg)
    as [G (h & r & Eg & H1 & H2 & H3 & H4)].
  exists (go thr 0 c 0 rest offs). split.
  - apply (loop_go thr rest offs [] [] c 0 0%Z); auto. cbn [length]. lia.
  - rewrite Eg. split; [exists h, r; repeat split; assumption|]. apply H4; reflexivity.
Qed.

(* ================================================================== F. the strong spec implies the boolean oracle *)
Lemma change_times_go_length t0 c rest : length (change_times_go t0 c rest) = length rest.
Proof. revert t0 c. induction rest as [|n rest IH]; intros t0 c; [reflexivity|]. cbn [change_times_go length]. rewrite IH. reflexivity. Qed.
Lemma change_times_length t0 l : length (change_times t0 l) = length l.
Proof. destruct l as [|c rest]; [reflexivity|]. cbn [change_times length]. rewrite change_times_go_length. reflexivity. Qed.
Lemma timeline_fst t0 l : map fst (timeline t0 l) = change_times t0 l.
Proof. unfold timeline. apply map_fst_combine. apply change_times_length. Qed.
Lemma timeline_length t0 l : length (timeline t0 l) = length l.
Proof. unfold timeline. rewrite combine_length, change_times_length. apply Nat.min_id. Qed.

(* --- lower bound: nothing of the result lies before the first original *)
Lemma refines_lower ts us : refines ts us ->
  match ts with
  | [] => True
  | (t, _) :: ts' => incr_offs t (map fst ts') -> forall x, In x (map fst us) -> t <= x
  end.
Proof.
  induction 1 as [t c u d E Eb|t c t' c' ts u d us E Eb R IH|t c t' c' ts u d x e us E W Eb L1 L2 R IH].
  - intros _ y [<-|[]]. cbn [fst]. lra.
  - cbn [map fst incr_offs In] in *. intros [I1 I2] y [<-|Hin]; [lra|]. specialize (IH I2 y Hin). lra.
  - cbn [map fst incr_offs In] in *. intros [I1 I2] y [<-|[<-|Hin]]; [lra|lra|]. specialize (IH I2 y Hin). lra.
Qed.

Lemma count_between_app a b l1 l2 : count_between a b (l1 ++ l2) = (count_between a b l1 + count_between a b l2)%nat.
Proof. induction l1 as [|x l1 IH]; [reflexivity|]. cbn [app count_between]. rewrite IH. lia. Qed.
Lemma count_between_zero a b l : (forall x, In x l -> x <= a \/ b <= x) -> count_between a b l = 0%nat.
Proof.
  induction l as [|x l IH]; intro H; [reflexivity|]. cbn [count_between]. rewrite IH by (intros y Hy; apply H; right; exact Hy).
  destruct (H x (or_introl eq_refl)) as [L|L].
  - assert (E: Qlt_bool a x = false) by (apply Qlt_bool_false; exact L). rewrite E. reflexivity.
  - assert (E: Qlt_bool x b = false) by (apply Qlt_bool_false; exact L). rewrite E, andb_false_r. reflexivity.
Qed.
Lemma count_between_one a b x : a < x -> x < b -> count_between a b [x] = 1%nat.
Proof.
  intros L1 L2. cbn [count_between]. apply Qlt_bool_iff in L1, L2. rewrite L1, L2. reflexivity.
Qed.

(* --- at most one extra point per original interval, none outside *)
Lemma refines_one_extra ts us : refines ts us ->
  match ts with
  | [] => True
  | (t, _) :: ts' => incr_offs t (map fst ts') ->
      forall done, (forall x, In x done -> x <= t) -> one_extra_go t (map fst ts') (done ++ map fst us) = true
  end.
Proof.
  induction 1 as [t c u d E Eb|t c t' c' ts u d us E Eb R IH|t c t' c' ts u d x e us E W Eb L1 L2 R IH].
  - intros _ done Hd. cbn [map one_extra_go fst]. rewrite forallb_app. apply andb_true_iff. split.
    + apply forallb_forall. intros y Hy. apply Qle_bool_iff. apply Hd; exact Hy.
    + cbn [forallb]. rewrite andb_true_r. apply Qle_bool_iff. lra.
  - cbn [map fst incr_offs]. intros [I1 I2] done Hd. cbn [map fst one_extra_go]. apply andb_true_iff. split.
    + apply Nat.leb_le. rewrite count_between_app. rewrite (count_between_zero t t' done) by (intros y Hy; left; apply Hd; exact Hy).
      change (u :: map fst us) with ([u] ++ map fst us). rewrite count_between_app.
      rewrite (count_between_zero t t' [u]) by (intros y [<-|[]]; left; lra).
      rewrite (count_between_zero t t' (map fst us)); [lia|].
      intros y Hy. right. pose proof (refines_lower _ _ R) as LB. cbn [map fst] in LB. apply LB; assumption.
    + specialize (IH I2 (done ++ [u])). rewrite <- app_assoc in IH. apply IH.
      intros y Hy. apply in_app_or in Hy. destruct Hy as [Hy|[<-|[]]]; [specialize (Hd y Hy); lra|lra].
  - cbn [map fst incr_offs]. intros [I1 I2] done Hd. cbn [map fst one_extra_go]. apply andb_true_iff. split.
    + apply Nat.leb_le. rewrite count_between_app. rewrite (count_between_zero t t' done) by (intros y Hy; left; apply Hd; exact Hy).
      change (u :: x :: map fst us) with ([u] ++ [x] ++ map fst us). rewrite !count_between_app.
      rewrite (count_between_zero t t' [u]) by (intros y [<-|[]]; left; lra).
      rewrite (count_between_one t t' x L1 L2).
      rewrite (count_between_zero t t' (map fst us)); [lia|].
      intros y Hy. right. pose proof (refines_lower _ _ R) as LB. cbn [map fst] in LB. apply LB; assumption.
    + specialize (IH I2 (done ++ [u; x])). rewrite <- app_assoc in IH. apply IH.
      intros y Hy. apply in_app_or in Hy. destruct Hy as [Hy|[<-|[<-|[]]]]; [specialize (Hd y Hy); lra|lra|lra].
Qed.

Lemma refines_length ts us : refines ts us -> (length us + 1 <= 2 * length ts)%nat.
Proof. induction 1; cbn [length] in *; lia. Qed.

(* --- every original time is a time of the result *)
Lemma mem_q_cons t u us : mem_q t us = true -> mem_q t (u :: us) = true.
Proof. unfold mem_q. cbn [existsb]. intro H. rewrite H. apply orb_true_r. Qed.
Lemma mem_q_head t u us : t == u -> mem_q t (u :: us) = true.
Proof. unfold mem_q. cbn [existsb]. intro H. apply Qeq_bool_iff in H. rewrite H. reflexivity. Qed.
Lemma forallb_imp {A} (f g : A -> bool) l : (forall x, f x = true -> g x = true) -> forallb f l = true -> forallb g l = true.
Proof.
  intros H. induction l as [|x l IH]; [reflexivity|]. cbn [forallb]. intro E. apply andb_true_iff in E. destruct E as [E1 E2].
  rewrite (H x E1), (IH E2). reflexivity.
Qed.
Lemma refines_times_kept ts us : refines ts us -> forallb (fun t => mem_q t (map fst us)) (map fst ts) = true.
Proof.
  induction 1 as [t c u d E Eb|t c t' c' ts u d us E Eb R IH|t c t' c' ts u d x e us E W Eb L1 L2 R IH].
  - cbn. apply Qeq_bool_iff in E. rewrite E. reflexivity.
  - cbn [map fst forallb]. rewrite (mem_q_head t u _ E). cbn [andb].
    apply (forallb_imp _ _ _ (fun y Hy => mem_q_cons y u _ Hy) IH).
  - cbn [map fst forallb]. rewrite (mem_q_head t u _ E). cbn [andb].
    apply (forallb_imp _ _ _ (fun y Hy => mem_q_cons y u _ (mem_q_cons y x _ Hy)) IH).
Qed.

(* --- the bpm is kept after a whole gap *)
Definition bpm_atU (U : list (Q * bcs)) (t : Q) : option Q :=
  match find (fun p => Qeq_bool (fst p) t) U with
  | Some p => Some (bs_bpm (snd p))
  | None => None
  end.
Fixpoint bpm_kept_goU (lt : list (Q * bcs)) (U : list (Q * bcs)) : bool :=
  match lt with
  | [] => true
  | (t, c) :: lt' =>
      let whole :=
        match lt' with
        | [] => true
        | (_, n) :: _ =>
            let g := seg_beats (bs_met c) (bs_snap c) (bs_snap n) / bs_met c in
            Qeq_bool g (inject_Z (Qfloor g))
        end in
      (negb whole || match bpm_atU U t with Some b => Qeq_bool b (bs_bpm c) | None => false end)
      && bpm_kept_goU lt' U
  end.
Lemma bpm_kept_go_U lt r : bpm_kept_go lt r = bpm_kept_goU lt (timeline 0 r).
Proof. induction lt as [|[t c] lt IH]; [reflexivity|]. cbn [bpm_kept_go bpm_kept_goU]. rewrite IH. reflexivity. Qed.

Lemma find_skip (done : list (Q * bcs)) t u d rest : (forall p, In p done -> fst p < t) -> u == t ->
  find (fun p => Qeq_bool (fst p) t) (done ++ (u, d) :: rest) = Some (u, d).
Proof.
  intros Hd E. induction done as [|p done IH].
  - cbn [app find fst]. apply Qeq_bool_iff in E. rewrite E. reflexivity.
  - cbn [app find]. assert (X: Qeq_bool (fst p) t = false).
    { destruct (Qeq_bool (fst p) t) eqn:Y; [|reflexivity]. apply Qeq_bool_iff in Y. specialize (Hd p (or_introl eq_refl)). lra. }
    rewrite X. apply IH. intros q Hq. apply Hd. right. exact Hq.
Qed.

Lemma refines_bpm_kept ts us : refines ts us ->
  match ts with
  | [] => True
  | (t, _) :: ts' => incr_offs t (map fst ts') ->
      forall done, (forall p, In p done -> fst p < t) -> bpm_kept_goU ts (done ++ us) = true
  end.
Proof.
  induction 1 as [t c u d E Eb|t c t' c' ts u d us E Eb R IH|t c t' c' ts u d x e us E W Eb L1 L2 R IH].
  - intros _ done Hd. cbn [bpm_kept_goU negb orb]. unfold bpm_atU. rewrite find_skip by (auto; lra).
    cbn [snd]. apply Qeq_bool_iff in Eb. rewrite Eb. reflexivity.
  - cbn [map fst incr_offs]. intros [I1 I2] done Hd.
    change (bpm_kept_goU ((t, c) :: (t', c') :: ts) (done ++ (u, d) :: us))
      with ((negb (Qeq_bool (seg_beats (bs_met c) (bs_snap c) (bs_snap c') / bs_met c)
                            (inject_Z (Qfloor (seg_beats (bs_met c) (bs_snap c) (bs_snap c') / bs_met c))))
             || match bpm_atU (done ++ (u, d) :: us) t with Some b => Qeq_bool b (bs_bpm c) | None => false end)
            && bpm_kept_goU ((t', c') :: ts) (done ++ (u, d) :: us)).
    apply andb_true_iff. split.
    + unfold bpm_atU. rewrite find_skip by (auto; lra). cbn [snd].
      destruct (Qeq_bool _ _) eqn:Wb; [|reflexivity]. cbn [negb orb]. apply Qeq_bool_iff. apply Eb. apply Qeq_bool_iff in Wb. exact Wb.
    + specialize (IH I2 (done ++ [(u, d)])). rewrite <- app_assoc in IH. apply IH.
      intros p Hp. apply in_app_or in Hp. destruct Hp as [Hp|[<-|[]]]; [specialize (Hd p Hp); lra|cbn [fst]; lra].
  - cbn [map fst incr_offs]. intros [I1 I2] done Hd.
    change (bpm_kept_goU ((t, c) :: (t', c') :: ts) (done ++ (u, d) :: (x, e) :: us))
      with ((negb (Qeq_bool (seg_beats (bs_met c) (bs_snap c) (bs_snap c') / bs_met c)
                            (inject_Z (Qfloor (seg_beats (bs_met c) (bs_snap c) (bs_snap c') / bs_met c))))
             || match bpm_atU (done ++ (u, d) :: (x, e) :: us) t with Some b => Qeq_bool b (bs_bpm c) | None => false end)
            && bpm_kept_goU ((t', c') :: ts) (done ++ (u, d) :: (x, e) :: us)).
    apply andb_true_iff. split.
    + unfold bpm_atU. rewrite find_skip by (auto; lra). cbn [snd].
      apply Qeq_bool_iff in Eb. rewrite Eb. apply orb_true_r.
    + specialize (IH I2 (done ++ [(u, d); (x, e)])). rewrite <- app_assoc in IH. apply IH.
      intros p Hp. apply in_app_or in Hp. destruct Hp as [Hp|[<-|[<-|[]]]]; [specialize (Hd p Hp); lra|cbn [fst]; lra|cbn [fst]; lra].
Qed.

(* --- an already seated list: the timeline is unchanged *)
Fixpoint all_whole (ts : list (Q * bcs)) : Prop :=
  match ts with
  | (_, c) :: (((_, c') :: _) as ts') => whole c c' /\ all_whole ts'
  | _ => True
  end.
Lemma timeline_eqb_cons t c A u d B :
  timeline_eqb ((t, c) :: A) ((u, d) :: B) = Qeq_bool t u && Qeq_bool (bs_bpm c) (bs_bpm d) && timeline_eqb A B.
Proof. reflexivity. Qed.
Lemma refines_fixpoint ts us : refines ts us -> all_whole ts -> timeline_eqb ts us = true.
Proof.
  induction 1 as [t c u d E Eb|t c t' c' ts u d us E Eb R IH|t c t' c' ts u d x e us E W Eb L1 L2 R IH].
  - intros _. cbn [timeline_eqb]. apply Qeq_bool_iff in E. assert (Eb': bs_bpm c == bs_bpm d) by (rewrite Eb; reflexivity).
    apply Qeq_bool_iff in Eb'. rewrite E, Eb'. reflexivity.
  - intros [W1 W2]. rewrite timeline_eqb_cons. apply Qeq_bool_iff in E. assert (Eb': bs_bpm c == bs_bpm d) by (rewrite (Eb W1); reflexivity).
    apply Qeq_bool_iff in Eb'. rewrite E, Eb', (IH W2). reflexivity.
  - intros [W1 _]. contradiction.
Qed.

Lemma seated_all_whole l : forall t0, (forall c, In c l -> 0 < bs_met c) ->
  forallb (fun c => Qeq_bool (s_b (bs_snap c)) 0) l = true -> all_whole (timeline t0 l).
Proof.
  induction l as [|c l IH]; intros t0 Hm Hs; [exact I|]. destruct l as [|n l]; [exact I|].
  rewrite timeline_cons2. destruct (timeline_cons1 (t0 + beat_len (bs_bpm c) * seg_beats (bs_met c) (bs_snap c) (bs_snap n)) n l) as [ts Ets].
  pose proof (IH (t0 + beat_len (bs_bpm c) * seg_beats (bs_met c) (bs_snap c) (bs_snap n))) as IH'. rewrite Ets in *.
  cbn [forallb] in Hs. apply andb_true_iff in Hs. destruct Hs as [S1 S2]. pose proof S2 as S2'.
  cbn [forallb] in S2'. apply andb_true_iff in S2'. destruct S2' as [S3 _]. apply Qeq_bool_iff in S1, S3.
  cbn [all_whole]. split; [|apply IH'; [intros x Hx; apply Hm; right; exact Hx|exact S2]].
  unfold whole. cbv zeta. pose proof (Hm c (or_introl eq_refl)) as Hmc.
  assert (Eg: seg_beats (bs_met c) (bs_snap c) (bs_snap n) / bs_met c == inject_Z (s_m (bs_snap n) - s_m (bs_snap c))).
  { unfold seg_beats. rewrite S1, S3. field. lra. }
  rewrite (Qfloor_comp _ _ Eg), Qfloor_Z. exact Eg.
Qed.

Lemma change_times_incr met : 0 < met -> forall rest p t0,
  0 < bs_bpm p -> bs_met p == met -> s_b (bs_snap p) < met -> wfP_go met (bs_snap p) rest ->
  incr_offs t0 (change_times_go t0 p rest).
Proof.
  intros Hmet. induction rest as [|c rest IH]; intros p t0 Hbpm Hm Hb H; [exact I|].
  destruct H as (H1 & H2 & H3 & H4 & H5 & H6 & H7). cbn [change_times_go incr_offs]. split; [|apply IH; auto].
  pose proof (beat_len_pos _ Hbpm) as Hbl.
  assert (Hmp: 0 < bs_met p) by (rewrite Hm; exact Hmet).
  assert (Hb': s_b (bs_snap p) < bs_met p) by (rewrite Hm; exact Hb).
  pose proof (seg_beats_pos (bs_met p) _ _ Hmp H1 H5 Hb') as Hpos.
  assert (0 < beat_len (bs_bpm p) * seg_beats (bs_met p) (bs_snap p) (bs_snap c)) by (apply Qmult_lt_0_compat; assumption).
  lra.
Qed.

Lemma incr_from_b p tl : incr_from p tl ->
  forallb (fun c => Qeq_bool (s_b (bs_snap c)) 0) tl = true /\ measures_increasing p tl = true.
Proof.
  revert p. induction tl as [|c tl IH]; intros p H; [split; reflexivity|]. destruct H as (H1 & H2 & H3).
  destruct (IH _ H3) as [A B]. cbn [forallb measures_increasing]. apply Qeq_bool_iff in H2. apply Z.ltb_lt in H1.
  rewrite H2, H1, A, B. split; reflexivity.
Qed.
Lemma SeatedP_b r : SeatedP r -> seated r = true.
Proof.
  intros (h & tl & -> & H1 & H2 & H3). destruct (incr_from_b _ _ H3) as [A B].
  unfold seated. cbn [forallb]. apply Qeq_bool_iff in H2. rewrite H2, A, H1, B. reflexivity.
Qed.

Theorem strong_specb l r : wf_unseated l = true -> reseat_strong l r -> reseat_specb l r = true.
Proof.
  intros H [HS HR]. destruct (wf_unseated_P l H) as (c & rest & -> & H1 & H2 & H3 & H4 & H5 & H6 & H7).
  assert (Hmet: 0 < bs_met c) by lra.
  pose proof (change_times_incr (bs_met c) Hmet rest c 0 H3 ltac:(reflexivity) ltac:(lra) H7) as Hinc.
  assert (Et: timeline 0 (c :: rest) = (0, c) :: combine (change_times_go 0 c rest) rest) by reflexivity.
  assert (Ef: map fst (combine (change_times_go 0 c rest) rest) = change_times_go 0 c rest).
  { apply map_fst_combine. apply change_times_go_length. }
  unfold reseat_specb.
  apply andb_true_iff; split; [apply andb_true_iff; split; [apply andb_true_iff; split; [apply andb_true_iff; split|]|]|].
  - apply SeatedP_b; exact HS.
  - unfold times_kept, times. rewrite <- !timeline_fst. apply refines_times_kept. exact HR.
  - unfold one_extra, times. cbn [change_times]. apply andb_true_iff. split; [apply andb_true_iff; split|].
    + pose proof (refines_lower _ _ HR) as LB. rewrite Et in LB. rewrite Ef, timeline_fst in LB.
      apply forallb_forall. intros x Hx. apply Qle_bool_iff. apply LB; assumption.
    + pose proof (refines_one_extra _ _ HR) as OE. rewrite Et in OE. rewrite Ef, timeline_fst in OE.
      apply (OE Hinc []). intros x [].
    + apply Nat.leb_le. pose proof (refines_length _ _ HR) as L. rewrite !timeline_length in L. lia.
  - unfold bpm_kept. rewrite bpm_kept_go_U. pose proof (refines_bpm_kept _ _ HR) as BK.
    change (combine (times (c :: rest)) (c :: rest)) with (timeline 0 (c :: rest)).
    rewrite Et in *. rewrite Ef in BK. apply (BK Hinc []). intros p [].
  - unfold fixpoint_ok. destruct (seated (c :: rest)) eqn:Es; [|reflexivity]. cbn [negb orb].
    change (combine (times (c :: rest)) (c :: rest)) with (timeline 0 (c :: rest)).
    change (combine (times r) r) with (timeline 0 r).
    apply refines_fixpoint; [exact HR|]. apply seated_all_whole.
    + intros x [<-|Hx]; [exact Hmet|]. pose proof (wfP_okc (bs_met c) (bs_snap c) rest Hmet H4 H7) as F.
      rewrite Forall_forall in F. apply (F x Hx).
    + unfold seated in Es. apply andb_true_iff in Es. apply Es.
Qed.

(* ================================================================== F2. soundness of the boolean oracle *)
Lemma b_incr_from p tl : forallb (fun c => Qeq_bool (s_b (bs_snap c)) 0) tl = true -> measures_increasing p tl = true ->
  incr_from p tl.
Proof.
  revert p. induction tl as [|c tl IH]; intros p A B; [exact I|]. cbn [forallb measures_increasing] in A, B.
  apply andb_true_iff in A. destruct A as [A1 A2]. apply andb_true_iff in B. destruct B as [B1 B2].
  cbn [incr_from]. apply Qeq_bool_iff in A1. apply Z.ltb_lt in B1. split; [exact B1|]. split; [exact A1|]. apply IH; assumption.
Qed.
Lemma seated_b_P r : seated r = true -> SeatedP r.
Proof.
  unfold seated. intro H. apply andb_true_iff in H. destruct H as [A B]. destruct r as [|h tl]; [discriminate|].
  cbn [forallb] in A. apply andb_true_iff in A. destruct A as [A1 A2]. apply andb_true_iff in B. destruct B as [B1 B2].
  exists h, tl. apply Z.eqb_eq in B1. apply Qeq_bool_iff in A1. split; [reflexivity|]. split; [exact B1|]. split; [exact A1|].
  apply b_incr_from; assumption.
Qed.

Lemma times_kept_P l r : times_kept l r = true -> TimesKeptP l r.
Proof.
  unfold times_kept, TimesKeptP. intros H t Ht. rewrite forallb_forall in H. specialize (H t Ht).
  unfold mem_q in H. apply existsb_exists in H. destruct H as [u [Hu E]]. exists u. split; [exact Hu|]. apply Qeq_bool_iff. exact E.
Qed.

Lemma one_extra_go_count orig : forall prev rt, one_extra_go prev orig rt = true ->
  forall k a b, nth_error (prev :: orig) k = Some a -> nth_error (prev :: orig) (S k) = Some b ->
  (count_between a b rt <= 1)%nat.
Proof.
  induction orig as [|t orig IH]; intros prev rt H k a b Ha Hb.
  - destruct k; discriminate.
  - cbn [one_extra_go] in H. apply andb_true_iff in H. destruct H as [H1 H2]. destruct k as [|k].
    + cbn in Ha, Hb. injection Ha as <-. injection Hb as <-. apply Nat.leb_le. exact H1.
    + apply (IH t rt H2 k a b); assumption.
Qed.
Lemma one_extra_go_upper orig : forall prev rt, one_extra_go prev orig rt = true ->
  forall b, nth_error (prev :: orig) (length orig) = Some b -> forall u, In u rt -> u <= b.
Proof.
  induction orig as [|t orig IH]; intros prev rt H b Hb u Hu.
  - cbn in Hb. injection Hb as <-. cbn [one_extra_go] in H. rewrite forallb_forall in H. apply Qle_bool_iff. apply H. exact Hu.
  - cbn [one_extra_go] in H. apply andb_true_iff in H. destruct H as [_ H2]. apply (IH t rt H2 b); assumption.
Qed.
Lemma count_pos a b ts : forall i x, nth_error ts i = Some x -> a < x -> x < b -> (1 <= count_between a b ts)%nat.
Proof.
  induction ts as [|t ts IH]; intros i x Hi L1 L2; [destruct i; discriminate|]. cbn [count_between]. destruct i as [|i].
  - cbn in Hi. injection Hi as ->. apply Qlt_bool_iff in L1, L2. rewrite L1, L2. cbn [andb]. lia.
  - cbn in Hi. specialize (IH i x Hi L1 L2). lia.
Qed.
Lemma count_at_most a b ts : (count_between a b ts <= 1)%nat -> at_most_one_between a b ts.
Proof.
  unfold at_most_one_between. induction ts as [|t ts IH]; intros H i j x y Hi Hj X1 X2 Y1 Y2; [destruct i; discriminate|].
  cbn [count_between] in H. destruct i as [|i], j as [|j].
  - reflexivity.
  - exfalso. cbn in Hi, Hj. injection Hi as ->. pose proof (count_pos a b ts j y Hj Y1 Y2).
    apply Qlt_bool_iff in X1, X2. rewrite X1, X2 in H. cbn [andb] in H. lia.
  - exfalso. cbn in Hi, Hj. injection Hj as ->. pose proof (count_pos a b ts i x Hi X1 X2).
    apply Qlt_bool_iff in Y1, Y2. rewrite Y1, Y2 in H. cbn [andb] in H. lia.
  - f_equal. cbn in Hi, Hj. apply (IH ltac:(lia) i j x y); assumption.
Qed.

Lemma one_extra_P l r : one_extra l r = true -> OneExtraP l r.
Proof.
  unfold one_extra, OneExtraP. intro H. apply andb_true_iff in H. destruct H as [H HL].
  pose proof (change_times_length 0 l) as Len. fold (times l) in Len.
  destruct (times l) as [|t0 orig] eqn:Et; [discriminate|].
  apply andb_true_iff in H. destruct H as [H1 H2]. cbn [length] in Len.
  split; [intro; subst l; discriminate|]. split; [|split; [|split]].
  - intros k a b Ha Hb. apply count_at_most. apply (one_extra_go_count orig t0 _ H2 k a b); assumption.
  - intros a u Ha Hu. cbn in Ha. injection Ha as <-. rewrite forallb_forall in H1. apply Qle_bool_iff. apply H1. exact Hu.
  - intros b u Hb Hu. replace (length l - 1)%nat with (length orig) in Hb by lia.
    apply (one_extra_go_upper orig t0 _ H2 b Hb u Hu).
  - apply Nat.leb_le. exact HL.
Qed.

Lemma nth_error_combine {A B} (a : list A) : forall (b : list B) k x y,
  nth_error (combine a b) k = Some (x, y) <-> nth_error a k = Some x /\ nth_error b k = Some y.
Proof.
  induction a as [|a0 a IH]; intros b k x y.
  - cbn [combine]. destruct k; cbn; split; [discriminate|intros [? _]; discriminate|discriminate|intros [? _]; discriminate].
  - destruct b as [|b0 b].
    + cbn [combine]. destruct k; cbn; split; try discriminate; intros [_ ?]; discriminate.
    + cbn [combine]. destruct k as [|k]; cbn [nth_error].
      * split; [intro H; injection H as -> ->; split; reflexivity|intros [H1 H2]; injection H1 as ->; injection H2 as ->; reflexivity].
      * apply IH.
Qed.

Lemma bpm_kept_go_sound r lt : bpm_kept_go lt r = true ->
  forall k t c, nth_error lt k = Some (t, c) ->
    (forall t' n, nth_error lt (S k) = Some (t', n) -> whole c n) ->
    exists p, find (fun p => Qeq_bool (fst p) t) (combine (times r) r) = Some p /\ bs_bpm (snd p) == bs_bpm c.
Proof.
  induction lt as [|[t0 c0] lt IH]; intros H k t c Hk Hw; [destruct k; discriminate|].
  destruct k as [|k].
  - cbn in Hk. injection Hk as -> ->. destruct lt as [|[t' n] lt'].
    + cbn [bpm_kept_go negb orb] in H. rewrite andb_true_r in H. unfold bpm_at in H.
      destruct (find (fun p => Qeq_bool (fst p) t) (combine (times r) r)) as [p|]; [|discriminate].
      exists p. split; [reflexivity|]. apply Qeq_bool_iff. exact H.
    + specialize (Hw t' n eq_refl). unfold whole in Hw. cbv zeta in Hw. apply Qeq_bool_iff in Hw.
      cbn [bpm_kept_go] in H. apply andb_true_iff in H. destruct H as [H _]. rewrite Hw in H. cbn [negb orb] in H.
      unfold bpm_at in H.
      destruct (find (fun p => Qeq_bool (fst p) t) (combine (times r) r)) as [p|]; [|discriminate].
      exists p. split; [reflexivity|]. apply Qeq_bool_iff. exact H.
  - cbn [bpm_kept_go] in H. apply andb_true_iff in H. destruct H as [_ H]. apply (IH H k t c Hk Hw).
Qed.

Lemma bpm_kept_P l r : bpm_kept l r = true -> BpmKeptP l r.
Proof.
  unfold bpm_kept, BpmKeptP. intros H k c t Hc Ht Hw.
  assert (Hk: nth_error (combine (times l) l) k = Some (t, c)) by (apply nth_error_combine; split; assumption).
  destruct (bpm_kept_go_sound r _ H k t c Hk) as [[u d] [Hf Hb]].
  - intros t' n Hn. apply nth_error_combine in Hn. apply Hw. apply Hn.
  - apply find_some in Hf. destruct Hf as [Hin Heq]. apply In_nth_error in Hin. destruct Hin as [j Hj].
    apply nth_error_combine in Hj. destruct Hj as [J1 J2]. cbn [fst snd] in *.
    exists j, d, u. split; [exact J2|]. split; [exact J1|]. split; [apply Qeq_bool_iff; exact Heq|exact Hb].
Qed.

Lemma timeline_eqb_P a : forall b, timeline_eqb a b = true ->
  Forall2 (fun p q => fst p == fst q /\ bs_bpm (snd p) == bs_bpm (snd q)) a b.
Proof.
  induction a as [|[t x] a IH]; intros [|[u y] b] H; try discriminate; [constructor|].
  rewrite timeline_eqb_cons in H. apply andb_true_iff in H. destruct H as [H H3]. apply andb_true_iff in H. destruct H as [H1 H2].
  constructor; [cbn [fst snd]; split; apply Qeq_bool_iff; assumption|apply IH; exact H3].
Qed.
Lemma fixpoint_ok_P l r : fixpoint_ok l r = true -> FixpointP l r.
Proof.
  unfold fixpoint_ok, FixpointP. intros H Hs. rewrite Hs in H. cbn [negb orb] in H. apply timeline_eqb_P. exact H.
Qed.

(* a `true` of the oracle means the property statement holds of (l, r); no assumption on l or r *)
Theorem reseat_specb_sound l r : reseat_specb l r = true -> ReseatSpecP l r.
Proof.
  unfold reseat_specb. intro H.
  apply andb_true_iff in H. destruct H as [H H5]. apply andb_true_iff in H. destruct H as [H H4].
  apply andb_true_iff in H. destruct H as [H H3]. apply andb_true_iff in H. destruct H as [H1 H2].
  split; [apply seated_b_P; exact H1|]. split; [apply times_kept_P; exact H2|]. split; [apply one_extra_P; exact H3|].
  split; [apply bpm_kept_P; exact H4|apply fixpoint_ok_P; exact H5].
Qed.

(* ================================================================== F3. further consequences of the strong spec *)
Lemma refines_head t c ts us : refines ((t, c) :: ts) us -> exists u d us', us = (u, d) :: us' /\ t == u.
Proof. intro R. inversion R; subst; do 3 eexists; split; try reflexivity; assumption. Qed.

(* the result's times are strictly increasing *)
Lemma refines_sorted ts us : refines ts us ->
  match ts, us with
  | (t, _) :: ts', (u, _) :: us' => incr_offs t (map fst ts') -> incr_offs u (map fst us')
  | _, _ => True
  end.
Proof.
  induction 1 as [t c u d E Eb|t c t' c' ts u d us E Eb R IH|t c t' c' ts u d x e us E W Eb L1 L2 R IH].
  - intros _. exact I.
  - cbn [map fst incr_offs]. intros [I1 I2]. destruct (refines_head _ _ _ _ R) as (u' & d' & us' & -> & E').
    cbn [map fst incr_offs]. split; [lra|]. apply IH. exact I2.
  - cbn [map fst incr_offs]. intros [I1 I2]. destruct (refines_head _ _ _ _ R) as (u' & d' & us' & -> & E').
    cbn [map fst incr_offs]. split; [lra|]. split; [lra|]. apply IH. exact I2.
Qed.

(* both ends of every original interval are result points, in order, at most two positions apart *)
Lemma refines_elapsed ts us : refines ts us ->
  forall k a b, nth_error (map fst ts) k = Some a -> nth_error (map fst ts) (S k) = Some b ->
  exists j j' u v, (j < j' <= j + 2)%nat /\ nth_error (map fst us) j = Some u /\ nth_error (map fst us) j' = Some v
                   /\ u == a /\ v == b.
Proof.
  induction 1 as [t c u d E Eb|t c t' c' ts u d us E Eb R IH|t c t' c' ts u d x e us E W Eb L1 L2 R IH]; intros k a b Ha Hb.
  - destruct k; discriminate.
  - destruct k as [|k].
    + cbn in Ha, Hb. injection Ha as <-. injection Hb as <-.
      destruct (refines_head _ _ _ _ R) as (u' & d' & us' & -> & E').
      exists 0%nat, 1%nat, u, u'. split; [lia|]. split; [reflexivity|]. split; [reflexivity|]. split; [rewrite E|rewrite E']; reflexivity.
    + cbn [map nth_error] in Ha, Hb. destruct (IH k a b Ha Hb) as (j & j' & p & q & J & J1 & J2 & J3 & J4).
      exists (S j), (S j'), p, q. split; [lia|]. split; [exact J1|]. split; [exact J2|]. split; assumption.
  - destruct k as [|k].
    + cbn in Ha, Hb. injection Ha as <-. injection Hb as <-.
      destruct (refines_head _ _ _ _ R) as (u' & d' & us' & -> & E').
      exists 0%nat, 2%nat, u, u'. split; [lia|]. split; [reflexivity|]. split; [reflexivity|]. split; [rewrite E|rewrite E']; reflexivity.
    + cbn [map nth_error] in Ha, Hb. destruct (IH k a b Ha Hb) as (j & j' & p & q & J & J1 & J2 & J3 & J4).
      exists (S (S j)), (S (S j')), p, q. split; [lia|]. split; [exact J1|]. split; [exact J2|]. split; assumption.
Qed.

Theorem strong_elapsed l r : reseat_strong l r -> ElapsedP l r.
Proof.
  intros [_ HR]. unfold ElapsedP, times. rewrite <- !timeline_fst. apply refines_elapsed. exact HR.
Qed.

Theorem strong_times_incr l r : wf_unseated l = true -> reseat_strong l r -> strictly_incr (times r).
Proof.
  intros H [_ HR]. destruct (wf_unseated_P l H) as (c & rest & -> & H1 & H2 & H3 & H4 & H5 & H6 & H7).
  assert (Hmet: 0 < bs_met c) by lra.
  pose proof (change_times_incr (bs_met c) Hmet rest c 0 H3 ltac:(reflexivity) ltac:(lra) H7) as Hinc.
  assert (Et: timeline 0 (c :: rest) = (0, c) :: combine (change_times_go 0 c rest) rest) by reflexivity.
  assert (Ef: map fst (combine (change_times_go 0 c rest) rest) = change_times_go 0 c rest).
  { apply map_fst_combine. apply change_times_go_length. }
  pose proof (refines_sorted _ _ HR) as S. rewrite Et in S, HR.
  destruct (refines_head _ _ _ _ HR) as (u & d & us' & Eu & _). rewrite Eu in S. rewrite Ef in S.
  unfold times. rewrite <- timeline_fst, Eu. cbn [map fst strictly_incr]. apply S. exact Hinc.
Qed.

(* ================================================================== G3. the property theorems *)
Theorem reseat_correct_thr thr l : 0 <= thr -> wf_unseated l = true -> reseat_guard thr l = true ->
  exists r, reseat_with thr l = ROk r /\ ReseatOK l r.
Proof.
  intros Hthr H Hg. destruct (reseat_strong_thr thr l Hthr H Hg) as (r & Er & Hs).
  exists r. split; [exact Er|]. pose proof (strong_specb l r H Hs) as Hb.
  split; [exact Hs|]. split; [exact Hb|]. split; [apply reseat_specb_sound; exact Hb|]. split; [apply strong_elapsed; exact Hs|apply (strong_times_incr l); assumption].
Qed.

(* the guard that also covers the correct extend sub-branches (priority 5) *)
Theorem reseat_correct_guarded l : wf_unseated l = true -> reseat_guard THRESHOLD l = true ->
  exists r, reseat l = ROk r /\ ReseatOK l r.
Proof. apply reseat_correct_thr. unfold THRESHOLD. lra. Qed.

Lemma gaps_forall_imp (P P' : Q -> Q -> bool) : (forall m d, P m d = true -> P' m d = true) ->
  forall rest c, gaps_forall P c rest = true -> gaps_forall P' c rest = true.
Proof.
  intros HP. induction rest as [|n rest IH]; intros c H; [reflexivity|]. cbn [gaps_forall] in *.
  apply andb_true_iff in H. destruct H as [H1 H2]. rewrite (HP _ _ H1), (IH _ H2). reflexivity.
Qed.
Lemma noext_ok thr met d : gap_noextb thr met d = true -> gap_okb thr met d = true.
Proof.
  unfold gap_noextb, gap_okb. intro H. apply andb_true_iff in H. destruct H as [H1 H2].
  apply negb_true_iff in H1, H2. rewrite H1, H2. reflexivity.
Qed.
Lemma no_extend_guard thr l : no_extend thr l = true -> reseat_guard thr l = true.
Proof. destruct l as [|c rest]; [auto|]. apply gaps_forall_imp. apply noext_ok. Qed.

Theorem reseat_correct_no_extend l : wf_unseated l = true -> no_extend THRESHOLD l = true ->
  exists r, reseat l = ROk r /\ ReseatOK l r.
Proof. intros H Hn. apply reseat_correct_guarded; [exact H|apply no_extend_guard; exact Hn]. Qed.

(* --- seated lists need no guard: every gap is a whole number of measures *)
Lemma in_window_zero thr x : x == 0 -> in_window thr x = false.
Proof. intro E. rewrite (in_window_comp thr x 0 E). reflexivity. Qed.
Lemma gap_noext_whole thr met d z : 0 < met -> is_intQ met -> d == inject_Z z * met -> gap_noextb thr met d = true.
Proof.
  intros Hmet [w Hw] Hd. unfold gap_noextb.
  assert (E1: d / met == inject_Z z) by (rewrite Hd; field; lra).
  assert (E2: d == inject_Z (z * w)) by (rewrite Hd, Hw, inject_Z_mult; reflexivity).
  rewrite (in_window_zero thr (gap_mr met d)), (in_window_zero thr (gap_br d)); [reflexivity| |].
  - unfold gap_br. rewrite (Qfloor_comp _ _ E2), Qfloor_Z, E2. ring.
  - unfold gap_mr. rewrite (Qfloor_comp _ _ E1), Qfloor_Z, E1. ring.
Qed.
Lemma seated_gaps_noext thr : forall rest c, okc c -> Forall okc rest -> s_b (bs_snap c) == 0 ->
  forallb (fun c => Qeq_bool (s_b (bs_snap c)) 0) rest = true -> gaps_forall (gap_noextb thr) c rest = true.
Proof.
  induction rest as [|n rest IH]; intros c Hc Hr Hb Hs; [reflexivity|]. cbn [gaps_forall].
  cbn [forallb] in Hs. apply andb_true_iff in Hs. destruct Hs as [S1 S2]. apply Qeq_bool_iff in S1.
  inversion Hr as [|? ? Hn Hr']; subst. destruct Hc as (C1 & C2 & C3).
  rewrite (gap_noext_whole thr (bs_met c) _ (s_m (bs_snap n) - s_m (bs_snap c))); auto.
  - cbn [andb]. apply IH; auto.
  - unfold seg_beats. rewrite S1, Hb. ring.
Qed.
Lemma seated_no_extend thr l : wf_unseated l = true -> seated l = true -> no_extend thr l = true.
Proof.
  intros H Hs. destruct (wf_prepare l H) as (c & rest & offs & -> & _ & _ & _ & _ & Hc & Hrest & Hm & Hb).
  unfold seated in Hs. apply andb_true_iff in Hs. destruct Hs as [Hs _]. cbn [forallb] in Hs.
  apply andb_true_iff in Hs. destruct Hs as [_ Hs]. apply seated_gaps_noext; assumption.
Qed.

Lemma forall2_len {A B} (R : A -> B -> Prop) a b : Forall2 R a b -> length a = length b.
Proof. induction 1; cbn [length]; congruence. Qed.
Theorem reseat_seated_fixpoint l : wf_unseated l = true -> seated l = true ->
  exists r, reseat l = ROk r /\ length r = length l /\
    Forall2 (fun p q => fst p == fst q /\ bs_bpm (snd p) == bs_bpm (snd q)) (timeline 0 l) (timeline 0 r).
Proof.
  intros H Hs. destruct (reseat_correct_no_extend l H (seated_no_extend _ l H Hs)) as (r & Er & R).
  exists r. split; [exact Er|]. destruct R as (_ & _ & (_ & _ & _ & _ & HF) & _). specialize (HF Hs).
  split; [|exact HF]. pose proof (forall2_len _ _ _ HF) as L. rewrite !timeline_length in L. symmetry. exact L.
Qed.

(* ================================================================== H. refutations: the two known findings *)
Lemma TimesKeptP_b l r : TimesKeptP l r -> times_kept l r = true.
Proof.
  unfold TimesKeptP, times_kept. intro H. apply forallb_forall. intros t Ht. destruct (H t Ht) as [u [Hu E]].
  unfold mem_q. apply existsb_exists. exists u. split; [exact Hu|]. apply Qeq_bool_iff. exact E.
Qed.

(* extend-by-metronome with insertion: 120 bpm, 4/4, second change 5.0005 beats later.  The result has tempo points
   at 0, 2000 and 2500 ms; the original change at 2500.25 ms is no longer a tempo point. *)
Definition w_metronome_insert : list bcs := [mkBcs 120 4 (mkSnap 0 0 4); mkBcs 120 4 (mkSnap 1 (2001 # 2000) 4)].
Theorem reseat_extend_metronome_insert_refuted :
  wf_unseated w_metronome_insert = true /\ reseat_guard THRESHOLD w_metronome_insert = false /\
  exists r, reseat w_metronome_insert = ROk r /\ ~ TimesKeptP w_metronome_insert r.
Proof.
  split; [vm_compute; reflexivity|]. split; [vm_compute; reflexivity|].
  eexists. split; [vm_compute; reflexivity|]. intro H. apply TimesKeptP_b in H. vm_compute in H. discriminate.
Qed.

(* two changes closer than 0.001 measure: the extend-by-bpm branch assumes a whole measure before the second one *)
Definition w_gap_exc : list bcs := [mkBcs 120 4 (mkSnap 0 0 4); mkBcs 120 4 (mkSnap 0 (1 # 1000) 4)].
Theorem reseat_gap_below_threshold_refuted_exc :
  wf_unseated w_gap_exc = true /\ reseat_guard THRESHOLD w_gap_exc = false /\ reseat w_gap_exc = RExc.
Proof. repeat split; vm_compute; reflexivity. Qed.

Definition w_gap_unseated : list bcs :=
  [mkBcs 120 4 (mkSnap 0 0 4); mkBcs 120 4 (mkSnap 1 0 4); mkBcs 120 4 (mkSnap 1 (1 # 1000) 4)].
Theorem reseat_gap_below_threshold_refuted_unseated :
  wf_unseated w_gap_unseated = true /\ reseat_guard THRESHOLD w_gap_unseated = false /\
  exists r, reseat w_gap_unseated = ROk r /\ ~ SeatedP r.
Proof.
  split; [vm_compute; reflexivity|]. split; [vm_compute; reflexivity|].
  eexists. split; [vm_compute; reflexivity|]. intro H. apply SeatedP_b in H. vm_compute in H. discriminate.
Qed.

(* ================================================================== I. lists given in any order (the function sorts) *)
Lemma reseat_sorts thr l : wf_unseated (sort_by bcs_lt l) = true ->
  reseat_with thr l = reseat_with thr (sort_by bcs_lt l).
Proof.
  intro H. destruct (wf_prepare _ H) as (c & rest & offs & E & Es & _).
  unfold reseat_with. rewrite Es. rewrite <- (Permutation.Permutation_length (sort_by_perm bcs_lt l)). reflexivity.
Qed.

Theorem reseat_terminates_any_order l : wf_unseated (sort_by bcs_lt l) = true -> reseat l <> RFuel.
Proof. intro H. unfold reseat. rewrite reseat_sorts by exact H. apply reseat_terminates. exact H. Qed.

Theorem reseat_correct_any_order l : let ls := sort_by bcs_lt l in
  wf_unseated ls = true -> reseat_guard THRESHOLD ls = true -> exists r, reseat l = ROk r /\ ReseatOK ls r.
Proof. intros ls H G. unfold reseat. rewrite reseat_sorts by exact H. apply reseat_correct_guarded; assumption. Qed.

(* ================================================================== J. from_bpm_changes_snap(initial_offset, l, reseat=True) *)
Lemma snap_norm_smet m b met s : snap_norm m b met = Some s -> s_met s = met.
Proof.
  unfold snap_norm. destruct (Qlt_bool _ 0 || (_ <? 0)%Z); [discriminate|]. intro H. injection H as <-. reflexivity.
Qed.

Definition smet_pos (c : bcs) : Prop := 0 < bs_met c /\ 0 < s_met (bs_snap c).

Lemma stepq_smet thr meas bpm met o0 o1 bl ml bq br mq mr : 0 < met ->
  match stepq thr meas bpm met o0 o1 bl ml bq br mq mr with
  | SRep c _ _ | SIns c _ _ => smet_pos c
  | _ => True
  end.
Proof.
  intro Hmet. unfold stepq. cbv zeta.
  destruct (Qlt_bool 0 mr && Qle_bool mr thr).
  { destruct (snap_norm (meas + mq - 1) 0 met) as [s|] eqn:E; [|exact I]. apply snap_norm_smet in E.
    destruct (mq =? 1)%Z; unfold smet_pos; cbn [bs_met bs_snap]; rewrite E; split; exact Hmet. }
  destruct (Qlt_bool 0 br && Qle_bool br thr).
  { destruct (Qeq_bool (qmod (inject_Z bq) met) 0) eqn:En; [exact I|].
    destruct (snap_norm (meas + mq) 0 (qmod (inject_Z bq) met)) as [s|]; [|exact I].
    assert (P: 0 < Qred (qmod (inject_Z bq) met)).
    { rewrite Qred_correct. destruct (qfloordiv_mod (inject_Z bq) met Hmet) as [_ [Q0 _]].
      destruct (Qlt_le_dec 0 (qmod (inject_Z bq) met)) as [L|G]; [exact L|]. exfalso.
      assert (X: qmod (inject_Z bq) met == 0) by lra. apply Qeq_bool_iff in X. congruence. }
    destruct (mq =? 0)%Z; unfold smet_pos; cbn [bs_met bs_snap s_met]; split; exact P. }
  destruct (Qlt_bool thr mr); [|exact I].
  destruct (snap_norm (meas + mq) 0 met) as [s|] eqn:E; [|exact I]. apply snap_norm_smet in E.
  destruct (mq =? 0)%Z; unfold smet_pos; cbn [bs_met bs_snap]; rewrite E; split; exact Hmet.
Qed.

Lemma go_smet thr : forall suf osuf b0 o0 meas, smet_pos b0 -> Forall smet_pos suf ->
  Forall smet_pos (go thr meas b0 o0 suf osuf).
Proof.
  induction suf as [|b1 suf IH]; intros osuf b0 o0 meas H0 Hs; [constructor; [exact H0|constructor]|].
  destruct osuf as [|o1 osuf]; [constructor; [exact H0|constructor]|]. cbn [go].
  inversion Hs as [|? ? H1 Hs']; subst.
  assert (H1': forall m, smet_pos (set_snap b1 m)) by (intro m; exact H1).
  pose proof (stepq_smet thr meas (bs_bpm b0) (bs_met b0) o0 o1 (beat_len (bs_bpm b0)) (measure_len (bs_bpm b0) (bs_met b0))
    (Qfloor (q_bd (bs_bpm b0) o0 o1)) (Qred (q_bd (bs_bpm b0) o0 o1 - inject_Z (Qfloor (q_bd (bs_bpm b0) o0 o1))))
    (Qfloor (q_md (bs_bpm b0) (bs_met b0) o0 o1))
    (Qred (q_md (bs_bpm b0) (bs_met b0) o0 o1 - inject_Z (Qfloor (q_md (bs_bpm b0) (bs_met b0) o0 o1)))) (proj1 H0)) as P.
  fold (stepk thr meas (bs_bpm b0) (bs_met b0) o0 o1) in P.
  destruct (stepk thr meas (bs_bpm b0) (bs_met b0) o0 o1) as [|c off m|c off m|m].
  - constructor; [exact H0|constructor].
  - constructor; [exact P|]. apply IH; auto.
  - constructor; [exact H0|]. constructor; [exact P|]. apply IH; auto.
  - constructor; [exact H0|]. apply IH; auto.
Qed.

Lemma snap_norm_zero m b met : (0 <= m)%Z -> 0 < met -> b == 0 ->
  exists d, snap_norm m b met = Some d /\ s_m d = m /\ s_b d == 0.
Proof.
  intros Hm Hmet Hb. unfold snap_norm.
  assert (Em: (m <? 0)%Z = false) by (apply Z.ltb_ge; exact Hm). rewrite Em.
  assert (E1: Qlt_bool b 0 = false) by (apply Qlt_bool_false; lra).
  assert (E2: Qle_bool met b = false) by (apply Qle_bool_false; lra).
  rewrite E1, E2. cbn [orb fst snd]. rewrite E1, Em. cbn [orb]. eexists. split; [reflexivity|].
  cbn [s_m s_b]. split; [reflexivity|]. rewrite Qred_correct. exact Hb.
Qed.

(* the TimingMap built from a seated list has its tempo points at init + (integrated time), bpm and metronome as listed *)
Definition bco_at (init : Q) (b : bco) (p : Q * bcs) : Prop :=
  bo_off b == init + fst p /\ bo_bpm b = bs_bpm (snd p) /\ bo_met b = bs_met (snd p).

Lemma from_bcs_go_seated init : forall tl p off t0,
  off == init + t0 -> s_b (bs_snap p) == 0 -> 0 < s_met (bs_snap p) -> incr_from (s_m (bs_snap p)) tl ->
  Forall smet_pos tl ->
  exists brest, from_bcs_go off p tl = Some brest /\ Forall2 (bco_at init) brest (combine (change_times_go t0 p tl) tl).
Proof.
  induction tl as [|c tl IH]; intros p off t0 Eo Hb Hm Hi Hs; [exists []; split; [reflexivity|constructor]|].
  destruct Hi as (I1 & I2 & I3). inversion Hs as [|? ? Hc Hs']; subst. cbn [from_bcs_go change_times_go combine].
  assert (Eb: s_b (bs_snap c) - s_b (bs_snap p) == 0) by (rewrite I2, Hb; ring).
  destruct (snap_norm_zero (s_m (bs_snap c) - s_m (bs_snap p)) _ _ ltac:(lia) Hm Eb) as (d & Ed & D1 & D2).
  unfold snap_sub. rewrite Ed.
  set (off' := Qred (off + snap_offset d (bs_bpm p) (bs_met p))).
  set (t1 := t0 + beat_len (bs_bpm p) * seg_beats (bs_met p) (bs_snap p) (bs_snap c)).
  assert (E1: off' == init + t1).
  { unfold off', t1. rewrite Qred_correct. unfold snap_offset, measure_len, seg_beats. rewrite D1, D2, Eo, I2, Hb. ring. }
  destruct (IH c off' t1 E1 I2 (proj2 Hc) I3 Hs') as (brest & R1 & R2). rewrite R1.
  eexists. split; [reflexivity|]. constructor; [|exact R2]. unfold bco_at. cbn [bo_off bo_bpm bo_met fst snd]. auto.
Qed.

Lemma incr_from_adj_ok : forall tl p, incr_from (s_m (bs_snap p)) tl -> adj_ok bcs_lt (p :: tl).
Proof.
  induction tl as [|c tl IH]; intros p H; [exact I|]. destruct H as (H1 & H2 & H3). cbn [adj_ok].
  split; [|apply IH; exact H3]. unfold bcs_lt, snap_lt.
  assert (A: (s_m (bs_snap c) <? s_m (bs_snap p))%Z = false) by (apply Z.ltb_ge; lia).
  assert (B: (s_m (bs_snap c) =? s_m (bs_snap p))%Z = false) by (apply Z.eqb_neq; lia).
  rewrite A, B. reflexivity.
Qed.

Lemma from_bcs_seated init r : SeatedP r -> Forall smet_pos r ->
  exists bcos, from_bcs init r = Some bcos /\ Forall2 (bco_at init) bcos (timeline 0 r).
Proof.
  intros (h & tl & -> & H1 & H2 & H3) Hs. inversion Hs as [|? ? Hh Hs']; subst.
  unfold from_bcs. rewrite sort_by_adj_ok by (apply incr_from_adj_ok; rewrite H1; exact H3).
  apply Z.eqb_eq in H1. pose proof H2 as H2'. apply Qeq_bool_iff in H2'. rewrite H1, H2'. cbn [andb negb].
  apply Z.eqb_eq in H1.
  destruct (from_bcs_go_seated init tl h init 0 ltac:(ring) H2 (proj2 Hh) ltac:(rewrite H1; exact H3) Hs') as (brest & R1 & R2).
  rewrite R1. eexists. split; [reflexivity|]. unfold timeline. cbn [change_times combine].
  constructor; [|exact R2]. unfold bco_at. cbn [bo_off bo_bpm bo_met fst snd]. split; [ring|auto].
Qed.

Lemma wfP_smet met prev rest : 0 < met -> wfP_go met prev rest -> Forall smet_pos rest.
Proof.
  intros Hm. revert prev. induction rest as [|c rest IH]; intros prev H; [constructor|].
  destruct H as (H1 & H2 & H3 & H4 & H5 & H6 & H7). constructor; [|apply (IH _ H7)].
  split; [rewrite H3|rewrite H4]; exact Hm.
Qed.

Theorem reseat_smet thr l : 0 <= thr -> wf_unseated l = true -> reseat_guard thr l = true ->
  exists r, reseat_with thr l = ROk r /\ Forall smet_pos r.
Proof.
  intros Hthr H Hg. destruct (wf_unseated_P l H) as (c0 & rest0 & E0 & _ & _ & _ & _ & W5 & W6 & W7).
  destruct (wf_prepare l H) as (c & rest & offs & -> & Es & Eo & Ok & Inc & Hc & Hrest & Hm & Hb).
  injection E0 as <- <-.
  unfold reseat_with. rewrite Es, Eo.
  destruct (go_spec thr Hthr rest offs c c 0 0%Z eq_refl eq_refl Hm Hb ltac:(lia) Hc Hrest Ok Inc Hg) as [G _].
  exists (go thr 0 c 0 rest offs). split.
  - apply (loop_go thr rest offs [] [] c 0 0%Z); auto. cbn [length]. lia.
  - assert (Hmet: 0 < bs_met c) by lra.
    apply go_smet; [split; [exact Hmet|rewrite W6; exact Hmet]|apply (wfP_smet (bs_met c) (bs_snap c)); assumption].
Qed.

Lemma existsb_negb_false {A} (f : A -> bool) l : existsb (fun x => negb (f x)) l = false -> forallb f l = true.
Proof.
  induction l as [|x l IH]; [reflexivity|]. cbn [existsb forallb]. intro H. apply orb_false_iff in H. destruct H as [H1 H2].
  apply negb_false_iff in H1. rewrite H1, (IH H2). reflexivity.
Qed.

Lemma wfP_measures met : forall rest prev, s_b prev == 0 -> wfP_go met prev rest ->
  forallb (fun c => Qeq_bool (s_b (bs_snap c)) 0) rest = true -> measures_increasing (s_m prev) rest = true.
Proof.
  induction rest as [|c rest IH]; intros prev Hp H Hs; [reflexivity|]. destruct H as (H1 & _ & _ & _ & _ & _ & H7).
  cbn [forallb] in Hs. apply andb_true_iff in Hs. destruct Hs as [S1 S2]. apply Qeq_bool_iff in S1.
  cbn [measures_increasing]. rewrite (IH (bs_snap c) S1 H7 S2), andb_true_r. apply Z.ltb_lt.
  destruct H1 as [L|[_ L]]; [exact L|lra].
Qed.
Lemma wf_seated l : wf_unseated l = true -> forallb (fun c => Qeq_bool (s_b (bs_snap c)) 0) l = true -> seated l = true.
Proof.
  intros H Hs. destruct (wf_unseated_P l H) as (c & rest & -> & H1 & H2 & _ & _ & _ & _ & H7).
  unfold seated. rewrite Hs. cbn [andb]. apply Z.eqb_eq in H1. rewrite H1. cbn [andb].
  cbn [forallb] in Hs. apply andb_true_iff in Hs. destruct Hs as [_ Hs]. apply Z.eqb_eq in H1. rewrite <- H1.
  apply (wfP_measures (bs_met c)); assumption.
Qed.

Lemma forall2_comp {A B C} (R1 : A -> B -> Prop) (R2 : B -> C -> Prop) (R3 : A -> C -> Prop) :
  (forall a b c, R1 a b -> R2 b c -> R3 a c) -> forall la lb lc, Forall2 R1 la lb -> Forall2 R2 lb lc -> Forall2 R3 la lc.
Proof.
  intros H la lb lc F1. revert lc. induction F1 as [|a b la lb Hab F1 IH]; intros lc F2; inversion F2; subst; constructor; eauto.
Qed.

Lemma forall2_refl {A} (R : A -> A -> Prop) : (forall a, R a a) -> forall l, Forall2 R l l.
Proof. intros H l. induction l; constructor; auto. Qed.

(* the TimingMap built with reseat=True: its tempo points are at init + times r with r's bpms, r = the reseated list *)

Theorem from_bcs_reseat_correct init l : wf_unseated l = true -> reseat_guard THRESHOLD l = true ->
  exists r bcos, reseat l = ROk r /\ ReseatOK l r /\ from_bcs_reseat init l = Some bcos /\
                 Forall2 (bco_near init) bcos (timeline 0 r).
Proof.
  intros H Hg. destruct (reseat_correct_guarded l H Hg) as (r & Er & OK).
  assert (Hthr: 0 <= THRESHOLD) by (unfold THRESHOLD; lra).
  destruct (reseat_smet THRESHOLD l Hthr H Hg) as (r' & Er' & Sm). unfold reseat in Er. rewrite Er in Er'. injection Er' as <-.
  destruct (wf_prepare l H) as (c & rest & offs & El & Es & _ & _ & _ & _ & _ & Hm & Hb).
  destruct (wf_unseated_P l H) as (c0 & rest0 & E0 & _ & _ & _ & _ & W5 & W6 & W7). rewrite El in E0. injection E0 as <- <-.
  assert (Hmet: 0 < bs_met c) by lra.
  unfold from_bcs_reseat. rewrite Es. rewrite El. rewrite <- El.
  apply Z.eqb_eq in Hm. pose proof Hb as Hb'. apply Qeq_bool_iff in Hb'. rewrite Hm, Hb'. cbn [andb negb].
  destruct (existsb (fun c1 => negb (Qeq_bool (s_b (bs_snap c1)) 0)) l) eqn:Ex.
  - unfold reseat. rewrite Er. destruct OK as ((HS & HR) & OK').
    destruct (from_bcs_seated init r HS Sm) as (bcos & B1 & B2).
    exists r, bcos. split; [reflexivity|]. split; [split; [split|]; assumption|]. split; [exact B1|].
    eapply forall2_comp; [|exact B2|apply (forall2_refl (fun p q : Q * bcs => fst p == fst q /\ bs_bpm (snd p) == bs_bpm (snd q)));
                                     intro a; split; reflexivity].
    intros a b c1 (A1 & A2 & A3) (C1 & C2). split; [rewrite A1, C1; reflexivity|rewrite A2; exact C2].
  - apply existsb_negb_false in Ex. pose proof (wf_seated l H Ex) as Hseat.
    assert (Sl: Forall smet_pos l).
    { rewrite El. constructor; [split; [exact Hmet|rewrite W6; exact Hmet]|apply (wfP_smet (bs_met c) (bs_snap c)); assumption]. }
    destruct (from_bcs_seated init l (seated_b_P l Hseat) Sl) as (bcos & B1 & B2).
    exists r, bcos. split; [exact Er|]. split; [exact OK|]. split; [exact B1|].
    destruct OK as (_ & _ & (_ & _ & _ & _ & HF) & _). specialize (HF Hseat).
    eapply forall2_comp; [|exact B2|exact HF].
    intros a b c1 (A1 & A2 & A3) (C1 & C2). split; [rewrite A1, C1; reflexivity|rewrite A2; exact C2].
Qed.
