(* C15, part 4: hitsound_copy (Algo/HitsoundCopy.v) does not depend on the row order of the source's or the target's note
   lists, nor on the order in which the two (unstable) sorts leave ties:
     - the result has the same notes (time, column, length, kind) as a multiset, and
     - per time the same multiset of sounds, a sound being (time, hitsound bit | named sample, volume) carried by a note
       OR played as an event sample.
   Side conditions: source volumes >= 0 (the routine writes max(volume, 0) on notes but the raw volume on event samples);
   the target's holds have a length (as in C18).  The stricter reading "the NOTES carry the same sounds" is false of the
   routine when named samples overflow the target's notes (which file lands on the note and which becomes an event sample
   follows the row order): hs_strict_refuted. *)
From Coq Require Import ZArith List Bool Arith Lia Permutation.
From RV Require Import Algo.HitsoundCopy Algo.HitsoundCopySpec Proofs.HitsoundCopyProofs.
Import ListNotations.
Open Scope Z_scope.

(* the same chart with the rows of its note lists in another order *)
Definition hmap_perm (a b : hmap) : Prop :=
  Permutation (hm_hits a) (hm_hits b) /\ Permutation (hm_holds a) (hm_holds b).

Definition src_vol_ok (src : hmap) : bool := forallb (fun r => 0 <=? hn_vol r) (all_notes src).

(* what sounds in a chart: on its notes or as event samples *)
Definition sounds (m : hmap) : list atom := note_atoms m ++ sample_atoms m.

(* ------------------------------------------------------------------ generic *)
Lemma perm_filter_h {A} (p : A -> bool) l l' : Permutation l l' -> Permutation (filter p l) (filter p l').
Proof.
  induction 1 as [|x l l' _ IH|x y l|l l' l'' _ IH1 _ IH2]; cbn [filter].
  - constructor.
  - destruct (p x); [constructor|]; exact IH.
  - destruct (p x), (p y); try apply Permutation_refl. apply perm_swap.
  - eapply perm_trans; eassumption.
Qed.

Lemma perm_concat_map {A B} (f : A -> list B) l l' : Permutation l l' -> Permutation (concat (map f l)) (concat (map f l')).
Proof.
  induction 1 as [|x l l' _ IH|x y l|l l' l'' _ IH1 _ IH2]; cbn [map concat].
  - constructor.
  - apply Permutation_app_head. exact IH.
  - rewrite !app_assoc. apply Permutation_app_tail. apply Permutation_app_comm.
  - eapply perm_trans; eassumption.
Qed.

Lemma sorted_lt_lt : forall l x y, sorted_lt (x :: l) -> In y l -> x < y.
Proof. intros l x y [H _] Hy. apply H. exact Hy. Qed.
Lemma sorted_lt_tail : forall l x, sorted_lt (x :: l) -> sorted_lt l.
Proof. intros l x [_ H]. exact H. Qed.

Lemma sorted_lt_ext (l1 : list Z) : forall l2, sorted_lt l1 -> sorted_lt l2 -> (forall x, In x l1 <-> In x l2) -> l1 = l2.
Proof.
  induction l1 as [|x l1 IH]; intros l2 H1 H2 Hi.
  - destruct l2 as [|y l2]; [reflexivity|]. exfalso. apply (proj2 (Hi y)). left. reflexivity.
  - destruct l2 as [|y l2]; [exfalso; apply (proj1 (Hi x)); left; reflexivity|].
    assert (E: x = y).
    { destruct (proj1 (Hi x) (or_introl eq_refl)) as [E|Hx]; [symmetry; exact E|].
      destruct (proj2 (Hi y) (or_introl eq_refl)) as [E|Hy]; [exact E|].
      pose proof (sorted_lt_lt _ _ _ H1 Hy). pose proof (sorted_lt_lt _ _ _ H2 Hx). lia. }
    subst y. f_equal. apply IH; [eapply sorted_lt_tail; eassumption|eapply sorted_lt_tail; eassumption|]. intro z. split; intro Hz.
    + destruct (proj1 (Hi z) (or_intror Hz)) as [E|Hz']; [|exact Hz']. subst z. pose proof (sorted_lt_lt _ _ _ H1 Hz). lia.
    + destruct (proj2 (Hi z) (or_intror Hz)) as [E|Hz']; [|exact Hz']. subst z. pose proof (sorted_lt_lt _ _ _ H2 Hz). lia.
Qed.

Lemma usort_perm l l' : Permutation l l' -> usort l = usort l'.
Proof.
  intro Hp. apply sorted_lt_ext; try apply usort_sorted. intro x. rewrite !usort_in.
  split; apply Permutation_in; [exact Hp|apply Permutation_sym; exact Hp].
Qed.

(* groups of permuted frames: the same keys, each group a permutation *)
Definition grp_rel (x y : Z * list hnote) : Prop := fst x = fst y /\ Permutation (snd x) (snd y).

Lemma group_by_perm key rows rows' : Permutation rows rows' -> Forall2 grp_rel (group_by key rows) (group_by key rows').
Proof.
  intro Hp. unfold group_by. rewrite <- (usort_perm _ _ (Permutation_map key Hp)).
  induction (usort (map key rows)) as [|k ks IH]; cbn [map]; constructor; [|exact IH].
  split; [reflexivity|]. cbn [snd]. apply perm_filter_h. exact Hp.
Qed.

(* ------------------------------------------------------------------ the plan of one time *)
Lemma file_loop_len : forall files free off vol ws ss fr,
  file_loop files free off vol = (ws, ss, fr) -> length ws = Nat.min (length files) free /\ fr = (free - length ws)%nat.
Proof.
  induction files as [|x files IH]; intros free off vol ws ss fr H; cbn [file_loop] in H.
  - inversion H; subst. cbn. split; [reflexivity|lia].
  - destruct free as [|free].
    + destruct (file_loop files 0 off vol) as [[ws' ss'] fr'] eqn:E. inversion H; subst. destruct (IH _ _ _ _ _ _ E) as [A B].
      rewrite Nat.min_0_r in *. split; [exact A|]. exact B.
    + destruct (file_loop files free off vol) as [[ws' ss'] fr'] eqn:E. inversion H; subst. destruct (IH _ _ _ _ _ _ E) as [A B].
      cbn [length]. rewrite A. split; [reflexivity|]. rewrite B, A. reflexivity.
Qed.

Lemma plan_groups_len : forall off vgs free ws ss, plan_groups off vgs free = (ws, ss) -> (length ws <= free)%nat.
Proof.
  induction vgs as [|[vol g] vgs IH]; intros free ws ss H; cbn [plan_groups] in H.
  - inversion H; subst. cbn. lia.
  - destruct (default_loop _ (count_bit 2 g) (count_bit 4 g) (count_bit 8 g) free vol) as [w1 free1] eqn:E1.
    destruct (file_loop (group_files g) free1 off vol) as [[w2 s2] free2] eqn:E2.
    destruct (plan_groups off vgs free2) as [w3 s3] eqn:E3. inversion H; subst; clear H.
    destruct (default_loop_other _ _ _ _ _ _ _ _ E1 (Nat.le_refl _)) as (_ & _ & N1 & R1).
    destruct (file_loop_len _ _ _ _ _ _ _ E2) as [N2 R2]. pose proof (IH _ _ _ E3) as N3.
    rewrite !app_length. lia.
Qed.

Lemma count_bit_perm b g g' : Permutation g g' -> count_bit b g = count_bit b g'.
Proof. intro H. unfold count_bit. apply Permutation_length, perm_filter_h. exact H. Qed.

Lemma group_files_perm g g' : Permutation g g' -> Permutation (group_files g) (group_files g').
Proof. intro H. unfold group_files. apply perm_filter_h, perm_concat_map. exact H. Qed.

Lemma wfile_time t t' k p v w : wfile (t, k, p, v) w = wfile (t', k, p, v) w.
Proof. reflexivity. Qed.

(* the writes and event samples planned for one time from permuted groups: the same hitsound bits, and the same named
   samples counted over notes and event samples together *)
Lemma plan_groups_rel t : forall vgs vgs', Forall2 grp_rel vgs vgs' -> forall free ws ss ws' ss',
  plan_groups t vgs free = (ws, ss) -> plan_groups t vgs' free = (ws', ss') ->
  (forall a, cnt (wbit a) ws = cnt (wbit a) ws')
  /\ ((forall vg, In vg vgs -> 0 <= fst vg) -> forall k p v,
        (cnt (wfile (t, k, p, v)) ws + cnt (smatch (t, k, p, v)) ss
         = cnt (wfile (t, k, p, v)) ws' + cnt (smatch (t, k, p, v)) ss')%nat).
Proof.
  induction 1 as [|[vol g] [vol' g'] vgs vgs' [Ev Hg] _ IH]; intros free ws ss ws' ss' H H'; cbn [plan_groups] in H, H'.
  - inversion H; inversion H'; subst. split; [reflexivity|]. intros _ k p v. reflexivity.
  - cbn [fst snd] in Ev, Hg. subst vol'.
    rewrite <- !(count_bit_perm _ _ _ Hg) in H'.
    destruct (default_loop _ (count_bit 2 g) (count_bit 4 g) (count_bit 8 g) free vol) as [w1 free1] eqn:E1.
    destruct (file_loop (group_files g) free1 t vol) as [[w2 s2] free2] eqn:E2.
    destruct (file_loop (group_files g') free1 t vol) as [[w2' s2'] free2'] eqn:E2'.
    destruct (file_loop_len _ _ _ _ _ _ _ E2) as [N2 R2]. destruct (file_loop_len _ _ _ _ _ _ _ E2') as [N2' R2'].
    assert (Ef: free2' = free2).
    { rewrite R2, R2', N2, N2', (Permutation_length (group_files_perm _ _ Hg)). reflexivity. }
    clear R2 R2' N2 N2'. rewrite Ef in *. clear Ef free2'.
    destruct (plan_groups t vgs free2) as [w3 s3] eqn:E3. destruct (plan_groups t vgs' free2) as [w3' s3'] eqn:E3'.
    inversion H; inversion H'; subst; clear H H'.
    destruct (IH _ _ _ _ _ E3 E3') as [I1 I2]. split.
    + intros [[[t0 k] p] v]. rewrite !cnt_app, (I1 (t0, k, p, v)).
      assert (B: forall files fr wsx ssx frx, file_loop files fr t vol = (wsx, ssx, frx) -> cnt (wbit (t0, k, p, v)) wsx = O).
      { clear. induction files as [|x files IHf]; intros fr wsx ssx frx Hx; cbn [file_loop] in Hx.
        - inversion Hx; subst. reflexivity.
        - destruct fr as [|fr].
          + destruct (file_loop files 0 t vol) as [[a b] c] eqn:E. inversion Hx; subst. apply (IHf _ _ _ _ E).
          + destruct (file_loop files fr t vol) as [[a b] c] eqn:E. inversion Hx; subst. rewrite cnt_cons. cbn [wbit].
            rewrite (IHf _ _ _ _ E). reflexivity. }
      rewrite (B _ _ _ _ _ E2), (B _ _ _ _ _ E2'). reflexivity.
    + intros Hv k p v. assert (Hvol: 0 <= vol) by (apply (Hv (vol, g)); left; reflexivity).
      destruct (file_loop_match _ _ _ _ _ _ _ k p v Hvol (group_files_nonzero g) E2) as (A2 & _).
      destruct (file_loop_match _ _ _ _ _ _ _ k p v Hvol (group_files_nonzero g') E2') as (A2' & _).
      destruct (default_loop_other _ _ _ _ _ _ _ _ E1 (Nat.le_refl _)) as (F1 & _).
      pose proof (I2 (fun vg Hin => Hv vg (or_intror Hin)) k p v) as J.
      rewrite !cnt_app, (F1 (t, k, p, v)).
      pose proof (cnt_perm _ (fm (t, k, p, v) vol) _ _ (group_files_perm _ _ Hg)) as Ep. lia.
Qed.

(* ------------------------------------------------------------------ the whole routine *)
Lemma notes_df_perm a b : hmap_perm a b -> Permutation (notes_df a) (notes_df b).
Proof. intros [H1 H2]. unfold notes_df. apply Permutation_app; [apply Permutation_map; exact H1|exact H2]. Qed.

Lemma all_notes_perm a b : hmap_perm a b -> Permutation (all_notes a) (all_notes b).
Proof. intros [H1 H2]. unfold all_notes. apply Permutation_app; assumption. Qed.

Lemma idents_perm a b : hmap_perm a b -> Permutation (idents a) (idents b).
Proof. intros [H1 H2]. unfold idents. apply Permutation_app; apply Permutation_map; assumption. Qed.

Lemma at_time_perm t l l' : Permutation l l' -> Permutation (at_time t l) (at_time t l').
Proof. apply perm_filter_h. Qed.

Section Run.
  Variables (src src' tgt tgt' : hmap) (s s' df df' d1 d1' : list hnote) (smp1 smp1' : list hsample).
  Hypothesis Hsrc : hmap_perm src src'.
  Hypothesis Htgt : hmap_perm tgt tgt'.
  Hypothesis Hvol : src_vol_ok src = true.
  Hypothesis Ps : Permutation (filter loud (notes_df src)) s.
  Hypothesis Ps' : Permutation (filter loud (notes_df src')) s'.
  Hypothesis Pd : Permutation (map reset_note (notes_df tgt)) df.
  Hypothesis Pd' : Permutation (map reset_note (notes_df tgt')) df'.
  Hypothesis Hrun : run_groups (group_by hn_off s) (df, []) = (d1, smp1).
  Hypothesis Hrun' : run_groups (group_by hn_off s') (df', []) = (d1', smp1').

  Lemma s_perm : Permutation s s'.
  Proof.
    eapply perm_trans; [apply Permutation_sym; exact Ps|]. eapply perm_trans; [|exact Ps'].
    apply perm_filter_h, notes_df_perm. exact Hsrc.
  Qed.
  Lemma df_perm : Permutation df df'.
  Proof.
    eapply perm_trans; [apply Permutation_sym; exact Pd|]. eapply perm_trans; [|exact Pd'].
    apply Permutation_map, notes_df_perm. exact Htgt.
  Qed.

  Lemma s_vol_ok r : In r s -> 0 <= hn_vol r.
  Proof.
    intro Hin. apply (Permutation_in _ (Permutation_sym Ps)) in Hin. apply filter_In in Hin. destruct Hin as [Hin _].
    unfold src_vol_ok in Hvol. rewrite forallb_forall in Hvol. unfold notes_df in Hin. unfold all_notes in Hvol.
    apply in_app_or in Hin. destruct Hin as [Hin|Hin].
    - apply in_map_iff in Hin. destruct Hin as [r0 [<- Hin]]. cbn. apply Z.leb_le, Hvol, in_or_app. left. exact Hin.
    - apply Z.leb_le, Hvol, in_or_app. right. exact Hin.
  Qed.

  Lemma one_time_perm t k p v :
    let a := (t, k, p, v) in
    cnt (bitmatch bitvals a) d1 = cnt (bitmatch bitvals a) d1'
    /\ (cnt (filematch a) d1 + cnt (smatch a) smp1 = cnt (filematch a) d1' + cnt (smatch a) smp1')%nat.
  Proof.
    intro a. destruct (time_view _ _ _ _ t Hrun) as [V1 V2]. destruct (time_view _ _ _ _ t Hrun') as [V1' V2'].
    unfold plan_at in *.
    assert (Esl: slots_at t df' = slots_at t df).
    { rewrite !slots_at_eq. apply Permutation_length, Permutation_sym, at_time_perm, df_perm. }
    rewrite Esl in *.
    destruct (plan_groups t (group_by hn_vol (at_time t s)) (slots_at t df)) as [ws ss] eqn:Ep.
    destruct (plan_groups t (group_by hn_vol (at_time t s')) (slots_at t df)) as [ws' ss'] eqn:Ep'.
    cbn [fst snd] in V1, V2, V1', V2'.
    pose proof (group_by_perm hn_vol _ _ (at_time_perm t _ _ s_perm)) as G.
    destruct (plan_groups_rel t _ _ G _ _ _ _ _ Ep Ep') as [R1 R2].
    assert (Hpos: forall vg, In vg (group_by hn_vol (at_time t s)) -> 0 <= fst vg).
    { intros [vol g] Hin. apply group_by_in in Hin. destruct Hin as [_ Hk]. cbn [fst]. apply in_map_iff in Hk.
      destruct Hk as [r [<- Hr]]. apply s_vol_ok. unfold at_time in Hr. apply filter_In in Hr. tauto. }
    specialize (R2 Hpos k p v).
    assert (Hsil : forall r, In r (at_time t df) -> silent_at t r) by (intros r Hr; apply (tgt_frame_silent tgt df t r Pd Hr)).
    assert (Hsil' : forall r, In r (at_time t df') -> silent_at t r) by (intros r Hr; apply (tgt_frame_silent tgt' df' t r Pd' Hr)).
    assert (Hlen : (length ws <= length (at_time t df))%nat) by (rewrite <- slots_at_eq; apply (plan_groups_len _ _ _ _ _ Ep)).
    assert (Hlen' : (length ws' <= length (at_time t df'))%nat).
    { rewrite <- slots_at_eq, Esl. apply (plan_groups_len _ _ _ _ _ Ep'). }
    assert (Wb : cnt (bitmatch bitvals a) d1 = cnt (wbit a) ws).
    { rewrite (cnt_at_time _ t d1) by (intros r; apply bitmatch_time). rewrite V1.
      apply (wprefix_cnt t); auto. - intros r Hr. eapply bitmatch_silent; eauto. - intros w r Hr. now apply bitmatch_written. }
    assert (Wb' : cnt (bitmatch bitvals a) d1' = cnt (wbit a) ws').
    { rewrite (cnt_at_time _ t d1') by (intros r; apply bitmatch_time). rewrite V1'.
      apply (wprefix_cnt t); auto. - intros r Hr. eapply bitmatch_silent; eauto. - intros w r Hr. now apply bitmatch_written. }
    assert (Wf : cnt (filematch a) d1 = cnt (wfile a) ws).
    { rewrite (cnt_at_time _ t d1) by (intros r; apply filematch_time). rewrite V1.
      apply (wprefix_cnt t); auto. - intros r Hr. eapply filematch_silent; eauto. - intros w r Hr. now apply filematch_written. }
    assert (Wf' : cnt (filematch a) d1' = cnt (wfile a) ws').
    { rewrite (cnt_at_time _ t d1') by (intros r; apply filematch_time). rewrite V1'.
      apply (wprefix_cnt t); auto. - intros r Hr. eapply filematch_silent; eauto. - intros w r Hr. now apply filematch_written. }
    subst a. rewrite Wb, Wb', Wf, Wf', (V2 k p v), (V2' k p v). split; [apply R1|exact R2].
  Qed.
End Run.

Lemma meq_of_perm {A} (eqb : A -> A -> bool) l l' : Permutation l l' -> meq eqb l l'.
Proof. intros H a. induction H; cbn [count]; lia. Qed.

(* MAIN *)
Theorem hitsound_copy_perm psrc ptgt psrc' ptgt' src tgt src' tgt' out out' :
  hmap_perm src src' -> hmap_perm tgt tgt' ->
  src_vol_ok src = true -> forallb (fun r => is_some (hn_len r)) (hm_holds tgt) = true ->
  hitsound_copy psrc ptgt src tgt = Some out -> hitsound_copy psrc' ptgt' src' tgt' = Some out' ->
  meq ident_eqb (idents out) (idents out') /\ meq atom_eqb (sounds out) (sounds out').
Proof.
  intros Hs Ht Hv Hl H H'. split.
  - assert (Hl': forallb (fun r => is_some (hn_len r)) (hm_holds tgt') = true).
    { rewrite forallb_forall in *. intros r Hr. apply Hl. apply (Permutation_in _ (Permutation_sym (proj2 Ht))). exact Hr. }
    pose proof (hs_notes_preserved _ _ _ _ _ Hl H) as N. pose proof (hs_notes_preserved _ _ _ _ _ Hl' H') as N'.
    unfold notes_preserved in *. intro a. rewrite (N a), (N' a). apply (meq_of_perm ident_eqb _ _ (idents_perm _ _ Ht)).
  - destruct (copy_decompose _ _ _ _ _ H) as (s & df & d1 & smp1 & Ps & Pd & Hrun & ->).
    destruct (copy_decompose _ _ _ _ _ H') as (s' & df' & d1' & smp1' & Ps' & Pd' & Hrun' & ->).
    intros [[[t k] p] v]. unfold sounds. fold acount. unfold acount. rewrite !(count_app atom_eqb).
    fold acount. unfold note_atoms. rewrite !count_note_atoms_rows, !count_sample_atoms_rows, !out_to_frame. cbn [hm_samples].
    destruct (one_time_perm src src' tgt tgt' s s' df df' d1 d1' smp1 smp1' Hs Ht Hv Ps Ps' Pd Pd' Hrun Hrun' t k p v) as [B1 B2].
    cbn zeta in B1, B2. lia.
Qed.

(* in particular with the same tie orders of the sorts and only the rows permuted, or the same rows and other tie orders *)

(* the stricter reading - the NOTES carry the same sounds, event samples compared separately - is false of the routine:
   two named samples of one volume at one time, one target note: the first row's file lands on the note *)
Theorem hs_strict_refuted :
  exists psrc ptgt src src' tgt out out',
    hmap_perm src src' /\ src_vol_ok src = true /\ wf src tgt = true /\ no_semicolon src = true
    /\ hitsound_copy psrc ptgt src tgt = Some out /\ hitsound_copy psrc ptgt src' tgt = Some out'
    /\ ~ meq atom_eqb (note_atoms out) (note_atoms out').
Proof.
  exists [0; 1]%nat, [0]%nat,
    (mkM [mkN 0 0 None 0 0 0 0 30 [1]; mkN 0 1 None 0 0 0 0 30 [2]] [] []),
    (mkM [mkN 0 1 None 0 0 0 0 30 [2]; mkN 0 0 None 0 0 0 0 30 [1]] [] []),
    (mkM [mkN 0 0 None 0 0 0 0 0 [0]] [] []).
  eexists. eexists. split; [split; [apply perm_swap|constructor]|].
  split; [vm_compute; reflexivity|]. split; [vm_compute; reflexivity|]. split; [vm_compute; reflexivity|].
  split; [vm_compute; reflexivity|]. split; [vm_compute; reflexivity|].
  intro M. specialize (M (0, 1, [1], 30)). vm_compute in M. discriminate.
Qed.

(* the guard on the source volumes is needed: with a negative volume the note gets volume 0, the event sample the raw one *)
Theorem hs_negative_volume_refuted :
  exists psrc ptgt src src' tgt out out',
    hmap_perm src src'
    /\ hitsound_copy psrc ptgt src tgt = Some out /\ hitsound_copy psrc ptgt src' tgt = Some out'
    /\ ~ meq atom_eqb (sounds out) (sounds out').
Proof.
  exists [0; 1]%nat, [0]%nat,
    (mkM [mkN 0 0 None 0 0 0 0 (-5) [1]; mkN 0 1 None 0 0 0 0 (-5) [2]] [] []),
    (mkM [mkN 0 1 None 0 0 0 0 (-5) [2]; mkN 0 0 None 0 0 0 0 (-5) [1]] [] []),
    (mkM [mkN 0 0 None 0 0 0 0 0 [0]] [] []).
  eexists. eexists. split; [split; [apply perm_swap|constructor]|].
  split; [vm_compute; reflexivity|]. split; [vm_compute; reflexivity|].
  intro M. specialize (M (0, 1, [1], 0)). vm_compute in M. discriminate.
Qed.
