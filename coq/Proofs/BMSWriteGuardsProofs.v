(* C05: the reader's guards (read_guards: tempo objects pairwise on the grid; a tempo object at the origin is the FIRST
   tempo object the text lists) hold of every written file, derived from the chart alone (write_dom_any).
   - the note lines are written in (measure, channel, line length) order, so the objects of the text come with
     non-decreasing measures (write_note_lines_sorted);
   - tempo rows lie on measure lines (measure_lines of wf_wchart): every tempo object but the one at position 0 sits at
     measure >= 1, beat 0 (tempo_positions);
   hence the first tempo object listed is the origin's, whatever the row order and whatever '#BPMxx' ids were given. *)
From Coq Require Import ZArith QArith Qround Qabs List Bool Lia Lqa Sorting.Permutation Sorting.Sorted.
From RV Require Import Base.PyNum Timing.Snapper Timing.Snap Timing.TimingMap Timing.Integrate Timing.Domain Timing.Domain2
  Formats.BMSText Formats.BMS Formats.BMSSpec Proofs.SnapperProofs Proofs.TimingProofs Proofs.RederiveProofs Proofs.TimingProofs2
  Proofs.BMSProofs Proofs.BMSDenoteProofs Proofs.BMSParseProofs Proofs.BMSWriteProofs Proofs.BMSWriteTimingProofs
  Proofs.BMSWriteLaneProofs Proofs.BMSWriteLanesProofs Proofs.BMSWriteDenoteProofs Proofs.BMSWriteFinalProofs Proofs.BMSRoundTripProofs
  Proofs.BMSWriteAnyOrderProofs.
Import ListNotations.
Open Scope Z_scope.

Local Arguments text_eqb : simpl never.

(* ================================================================ A. sorted lists ================================================================ *)
Lemma strongly_app {A} (R : A -> A -> Prop) a b : StronglySorted R a -> StronglySorted R b ->
  (forall x y, In x a -> In y b -> R x y) -> StronglySorted R (a ++ b).
Proof.
  intros Sa Sb H. induction Sa as [|x a Sa IH Fa]; [exact Sb|]. cbn [app]. constructor.
  - apply IH. intros u v Iu Iv. apply H; [right; exact Iu|exact Iv].
  - apply Forall_app. split; [exact Fa|]. apply Forall_forall. intros y Iy. apply H; [left; reflexivity|exact Iy].
Qed.
Lemma strongly_app_inv {A} (R : A -> A -> Prop) a b : StronglySorted R (a ++ b) ->
  StronglySorted R a /\ StronglySorted R b /\ (forall x y, In x a -> In y b -> R x y).
Proof.
  induction a as [|x a IH]; cbn [app]; intro S.
  - split; [constructor|]. split; [exact S|]. intros x y [].
  - apply StronglySorted_inv in S. destruct S as [S Fx]. destruct (IH S) as [Sa [Sb H]]. rewrite Forall_forall in Fx.
    split; [constructor; [exact Sa|apply Forall_forall; intros y Iy; apply Fx; apply in_or_app; left; exact Iy]|].
    split; [exact Sb|]. intros u v [<-|Iu] Iv; [apply Fx; apply in_or_app; right; exact Iv|apply H; assumption].
Qed.
Lemma strongly_const {A} (f : A -> Z) m l : (forall x, In x l -> f x = m) -> StronglySorted (fun a b => f a <= f b) l.
Proof.
  induction l as [|x l IH]; intro H; [constructor|]. constructor; [apply IH; intros y I; apply H; right; exact I|].
  apply Forall_forall. intros y I. rewrite (H x (or_introl eq_refl)), (H y (or_intror I)). lia.
Qed.

(* ================================================================ B. the objects of the note section come in measure order ================================================================ *)
Lemma objs_of_pairs_measure m ch k : forall ps i o, In o (objs_of_pairs m ch k i ps) -> o_measure o = m.
Proof.
  induction ps as [|p ps IH]; intros i o I; [contradiction|]. cbn [objs_of_pairs] in I.
  destruct (text_eqb p ID_NONE); [apply (IH _ _ I)|]. destruct I as [<-|I]; [reflexivity|apply (IH _ _ I)].
Qed.

Lemma line_of_group_measure g r rest line : g = r :: rest -> 0 <= ws_measure r < 1000 -> length (ws_channel r) = 2%nat ->
  line_of_group g = Some line -> forall o, In o (objs_of_line line) -> o_measure o = ws_measure r.
Proof.
  intros Eg Hm Hc H o I. unfold line_of_group in H. rewrite Eg in H. rewrite <- Eg in H.
  destruct (fill_slots (repeat PAIR00 (Z.to_nat (ws_L r))) g) as [seq|]; [|discriminate]. inversion H; subst line. clear H.
  destruct (channel_two _ Hc) as [a [b Ech]]. unfold objs_of_line in I. rewrite Ech in I.
  change (35 :: show3 (ws_measure r) ++ [a; b] ++ 58 :: concat seq) with ([35] ++ show3 (ws_measure r) ++ [a; b] ++ [58] ++ concat seq) in I.
  rewrite (data_line_written _ a b (concat seq) Hm) in I. apply (objs_of_pairs_measure _ _ _ _ _ _ I).
Qed.

Lemma all_some'_forall2 {A B} (f : A -> option B) : forall l out, all_some' (map f l) = Some out -> Forall2 (fun a b => f a = Some b) l out.
Proof.
  induction l as [|x l IH]; intros out H; cbn [map all_some'] in H; [inversion H; constructor|].
  destruct (f x) as [y|] eqn:E; [|discriminate]. destruct (all_some' (map f l)) as [r|]; [|discriminate]. inversion H; subst.
  constructor; [exact E|apply IH; reflexivity].
Qed.

Definition mle (a b : wslot) : Prop := ws_measure a <= ws_measure b.
Definition ole (a b : sobj) : Prop := o_measure a <= o_measure b.

Lemma sort_slots_measure slots : StronglySorted mle (sort_by slot_key_lt slots).
Proof.
  apply sort_sorted_gen; unfold mle, slot_key_lt.
  - intros x y H. apply orb_true_iff in H. destruct H as [H|H]; [apply Z.ltb_lt in H; lia|].
    apply andb_true_iff in H. destruct H as [H _]. apply Z.eqb_eq in H. lia.
  - intros x y H. apply orb_false_iff in H. destruct H as [H _]. apply Z.ltb_ge in H. exact H.
  - intros x y z. lia.
Qed.

Lemma groups_measure : forall groups ls, Forall2 (fun g l => line_of_group g = Some l) groups ls ->
  Forall run_ok groups -> Forall slot_wf (concat groups) ->
  forall y, In y (flat_map objs_of_line ls) -> exists s, In s (concat groups) /\ o_measure y = ws_measure s.
Proof.
  induction 1 as [|g line gs ls' Eg F IH]; intros Fr Fw y I; [contradiction|].
  pose proof (Forall_inv Fr) as [r [rest [Er Fk]]]. pose proof (Forall_inv_tail Fr) as Fr'. cbn [concat] in Fw. apply Forall_app in Fw. destruct Fw as [Fwg Fws].
  cbn [flat_map] in I. apply in_app_or in I. destruct I as [I|I].
  - exists r. split; [cbn [concat]; apply in_or_app; left; rewrite Er; left; reflexivity|].
    rewrite Forall_forall in Fwg. destruct (Fwg r ltac:(rewrite Er; left; reflexivity)) as [Hm [Hc _]].
    apply (line_of_group_measure g r rest line Er Hm Hc Eg y I).
  - destruct (IH Fr' Fws y I) as [s [Is E]]. exists s. split; [cbn [concat]; apply in_or_app; right; exact Is|exact E].
Qed.

Lemma groups_sorted : forall groups ls, Forall2 (fun g l => line_of_group g = Some l) groups ls ->
  Forall run_ok groups -> Forall slot_wf (concat groups) -> StronglySorted mle (concat groups) ->
  StronglySorted ole (flat_map objs_of_line ls).
Proof.
  induction 1 as [|g line gs ls' Eg F IH]; intros Fr Fw Ss; [constructor|].
  pose proof (Forall_inv Fr) as [r [rest [Er Fk]]]. pose proof (Forall_inv_tail Fr) as Fr'. cbn [concat] in Fw, Ss. pose proof Fw as Fw0. apply Forall_app in Fw. destruct Fw as [Fwg Fws].
  destruct (strongly_app_inv _ _ _ Ss) as [Sg [Sgs Cross]].
  rewrite Forall_forall in Fwg. destruct (Fwg r ltac:(rewrite Er; left; reflexivity)) as [Hm [Hc _]].
  cbn [flat_map]. apply strongly_app.
  - apply (strongly_const o_measure (ws_measure r)). intros o I. apply (line_of_group_measure g r rest line Er Hm Hc Eg o I).
  - apply IH; assumption.
  - intros x y Ix Iy. unfold ole. rewrite (line_of_group_measure g r rest line Er Hm Hc Eg x Ix).
    destruct (groups_measure gs ls' F Fr' Fws y Iy) as [s [Is E]]. rewrite E. apply (Cross r s); [rewrite Er; left; reflexivity|exact Is].
Qed.

Theorem lines_of_slots_sorted slots ls : Forall slot_wf slots -> lines_of_slots slots = Some ls ->
  StronglySorted ole (flat_map objs_of_line ls).
Proof.
  intros Fw H. unfold lines_of_slots in H. apply all_some'_forall2 in H.
  set (sorted := sort_by slot_key_lt slots) in *.
  assert (Ec : concat (group_runs sorted []) = sorted) by (rewrite group_runs_concat; reflexivity).
  apply (groups_sorted (group_runs sorted []) ls H).
  - apply (group_runs_ok sorted [] (mkSlot 0 [] 0 0 [])). constructor.
  - rewrite Ec. apply Forall_forall. intros s I. rewrite Forall_forall in Fw. apply Fw.
    apply (Permutation_in _ (Permutation_sym (sort_by_perm slot_key_lt slots)) I).
  - rewrite Ec. apply sort_slots_measure.
Qed.

Theorem write_note_lines_sorted rows ls : Forall row_wf rows -> write_note_lines rows = Some ls ->
  StronglySorted ole (flat_map objs_of_line ls).
Proof.
  intros Fw H. rewrite write_note_lines_unfold in H.
  set (slots := map (fun p => slot_of (fst p) (snd p)) (combine rows (new_dens LCM_THRESHOLD rows))) in *.
  assert (Rel : Forall2 slot_rel rows slots).
  { apply write_slots_positions. eapply Forall_impl; [|exact Fw]. intros r [_ [_ [A [B _]]]]. auto. }
  apply (lines_of_slots_sorted slots ls); [|exact H].
  assert (Rel2 : Forall2 (fun r s => row_wf r /\ slot_rel r s) rows slots).
  { clear - Rel Fw. induction Rel; [constructor|]. inversion Fw; subst. constructor; auto. }
  clear - Rel2. induction Rel2 as [|r s rows slots [W [M [C [V [R _]]]]] _ IH]; [constructor|]. constructor; [|exact IH].
  destruct W as [Wm [Wc [_ [_ [Wv Wl]]]]]. unfold slot_wf. rewrite M, C, V. auto.
Qed.

(* tempo objects are listed in the order of the text *)
Lemma tempo_objs_sorted ext : forall os ts, tempo_objs ext os = Some ts -> StronglySorted ole os ->
  StronglySorted (fun a b => s_m (bs_snap a) <= s_m (bs_snap b)) ts
  /\ (forall t, In t ts -> exists o, In o os /\ s_m (bs_snap t) = o_measure o).
Proof.
  induction os as [|o os IH]; intros ts H Ss.
  - cbn in H. inversion H; subst. split; [constructor|intros t []].
  - rewrite tempo_objs_cons in H. apply StronglySorted_inv in Ss. destruct Ss as [Ss Fo]. rewrite Forall_forall in Fo.
    destruct (tempo_objs ext os) as [tl|] eqn:E.
    2:{ destruct (tempo_of_obj ext o) as [[q|]|]; discriminate. }
    destruct (IH tl eq_refl Ss) as [St Ht].
    destruct (tempo_of_obj ext o) as [[q|]|]; try discriminate; inversion H; subst.
    + split.
      * constructor; [exact St|]. apply Forall_forall. intros t It. destruct (Ht t It) as [o' [Io' Em]]. cbn [bs_snap snap_of s_m].
        rewrite Em. apply (Fo o' Io').
      * intros t [<-|It]; [exists o; split; [left; reflexivity|reflexivity]|]. destruct (Ht t It) as [o' [Io' Em]]. exists o'. split; [right; exact Io'|exact Em].
    + split; [exact St|]. intros t It. destruct (Ht t It) as [o' [Io' Em]]. exists o'. split; [right; exact Io'|exact Em].
Qed.

(* ================================================================ C. tempo rows on measure lines: positions of the tempo objects ================================================================ *)
Open Scope Q_scope.
Lemma int_in_unit z : 0 <= 4 * inject_Z z -> 4 * inject_Z z < 4 -> z = 0%Z.
Proof.
  intros A B. assert (A' : 0 <= inject_Z z) by lra. assert (B' : inject_Z z < inject_Z 1) by (change (inject_Z 1) with 1; lra).
  change 0 with (inject_Z 0) in A'. rewrite <- Zle_Qle in A'. rewrite <- Zlt_Qlt in B'. lia.
Qed.

Lemma measure_lines_positions tbl : forall rest brest p bp,
  node_ok p -> bs_met p = 4 -> s_b (bs_snap p) == 0 -> bo_bpm bp = bs_bpm p ->
  script_ok tbl p rest -> (forall cc, In cc rest -> bs_met cc = 4) -> linked (bo_off bp) p rest brest ->
  measure_lines 0 bp brest = true ->
  Forall (fun cc => (s_m (bs_snap p) < s_m (bs_snap cc))%Z /\ s_b (bs_snap cc) == 0) rest.
Proof.
  induction rest as [|c rest IH]; intros brest p bp Np M4 B0 Eb Hs Hm Hl Hml; [constructor|].
  destruct brest as [|bc brest]; [destruct Hl|]. destruct Hl as [Lb [Lm [Loff Ll]]]. destruct Hs as [[Hlt [Nc [Hcb Hg]]] Hs].
  cbn [measure_lines] in Hml. apply andb_true_iff in Hml. destruct Hml as [Hml Hml']. apply andb_true_iff in Hml. destruct Hml as [Hk Hx].
  apply Z.ltb_lt in Hk. apply Qle_bool_iff in Hx.
  destruct Np as [[Hbpm [Hmet Heq]] [Hpm [Hpb0 [Hpb1 Hint]]]]. pose proof Nc as [[Hcbpm _] [Hcm [Hcb0 _]]].
  pose proof (beat_len_pos _ Hbpm) as BL. rewrite Eb in Hx, Hk.
  set (ml := 4 * beat_len (bs_bpm p)) in *. set (x := (bo_off bc - bo_off bp) / ml) in *. set (k := round_half_even x) in *.
  assert (MLp : 0 < ml) by (unfold ml; lra).
  assert (Ex : x == inject_Z k).
  { assert (A : Qabs (x - inject_Z k) <= 0).
    { assert (A1 : Qabs (x - inject_Z k) * ml <= 0 * ml) by lra. apply (proj1 (Qmult_le_r _ _ _ MLp)) in A1. exact A1. }
    apply Qabs_Qle_condition in A. lra. }
  assert (Es : seg_beats (bs_met p) (bs_snap p) (bs_snap c) == 4 * inject_Z k).
  { assert (X : x * 4 == seg_beats (bs_met p) (bs_snap p) (bs_snap c)).
    { unfold x, ml. rewrite Loff. field. lra. }
    rewrite Ex in X. lra. }
  unfold seg_beats in Es. rewrite M4, B0 in Es.
  assert (Eb' : s_b (bs_snap c) == 4 * inject_Z (k - (s_m (bs_snap c) - s_m (bs_snap p)))).
  { rewrite !inject_Z_minus. rewrite !inject_Z_minus in Es. lra. }
  rewrite M4 in Hcb.
  assert (Z0 : (k - (s_m (bs_snap c) - s_m (bs_snap p)) = 0)%Z) by (apply int_in_unit; lra).
  assert (Bc0 : s_b (bs_snap c) == 0) by (rewrite Eb', Z0; reflexivity).
  assert (Lt : (s_m (bs_snap p) < s_m (bs_snap c))%Z) by lia.
  constructor; [split; [exact Lt|exact Bc0]|].
  assert (IHr := IH brest c bc Nc (Hm c (or_introl eq_refl)) Bc0 Lb Hs (fun cc I => Hm cc (or_intror I)) Ll Hml').
  eapply Forall_impl; [|exact IHr]. intros cc [A B]. split; [lia|exact B].
Qed.

(* ================================================================ D. the guards of the written file ================================================================ *)
Open Scope Z_scope.
Lemma write_dom_measure_lines tbl mk lay dflt cs : write_dom tbl mk lay dflt cs = true ->
  exists b0 rest, w_bpms cs = b0 :: rest /\ measure_lines 0 b0 rest = true.
Proof.
  unfold write_dom. intro H.
  apply andb_true_iff in H. destruct H as [H _]. apply andb_true_iff in H. destruct H as [H _].
  apply andb_true_iff in H. destruct H as [H Ht]. apply andb_true_iff in H. destruct H as [_ Hwf].
  unfold tempo_dom in Ht. destruct (wscript tbl cs) as [l|]; [|discriminate].
  apply andb_true_iff in Ht. destruct Ht as [_ Hs]. apply (list_same_eq bco_same bco_same_eq) in Hs.
  unfold wf_wchart, wf_wchart_with, tempo_rows in Hwf. rewrite Hs in Hwf.
  destruct (w_bpms cs) as [|b0 rest]; [discriminate|]. exists b0, rest. split; [reflexivity|].
  destruct (write_snaps tbl cs) as [[sh sa st sb]|]; [|rewrite !andb_false_r in Hwf; discriminate].
  repeat (apply andb_true_iff in Hwf; destruct Hwf as [Hwf ?]). assumption.
Qed.

Lemma pairwise_grid_sim tbl : forall xs rest x p, sim x p -> Forall2 sim xs rest -> script_ok tbl p rest -> pairwise_grid tbl x xs = true.
Proof.
  induction xs as [|y xs IH]; intros rest x p Sx F Hs; [reflexivity|]. inversion F as [|? c ? rest' Sy F']; subst.
  destruct Hs as [[_ [_ [_ Hg]]] Hs']. cbn [pairwise_grid]. rewrite (IH rest' y c Sy F' Hs'), andb_true_r.
  destruct Hg as [t [It Et]]. apply existsb_exists. exists t. split; [exact It|]. apply Qeq_bool_iff. rewrite <- Et.
  destruct Sx as [_ [Mx [X1 [X2 _]]]]. destruct Sy as [_ [_ [Y1 [Y2 _]]]]. rewrite Mx.
  apply frac_comp. apply seg_beats_ssim; split; assumption.
Qed.

Section Guards.
  Variable tbl : list Q.
  Hypothesis Hok : table_ok (1 # 96) tbl = true.

  (* read_guards of the written file, from the chart alone: tempo objects pairwise on the grid, and the tempo object at
     the origin is the first tempo object the text lists -- for tempo rows in any order *)
  Theorem written_read_guards (mk : Z) (lay : layout) (dflt : text) (c : wchart) (r : Q -> text) (ls : list wline) :
    write_dom_any tbl mk lay dflt c = true -> bms_write tbl lay dflt c = Some ls ->
    read_guards tbl (map (render_with r) ls) = true.
  Proof.
    intros Hd Hw. unfold write_dom_any in Hd. set (cs := time_ordered c) in *.
    assert (HP : Permutation (w_bpms c) (w_bpms cs)) by (unfold cs, time_ordered; cbn [w_bpms with_bpms]; apply sort_by_perm).
    assert (Ec : with_bpms cs (w_bpms c) = c) by (unfold cs, time_ordered; rewrite with_bpms_twice, with_bpms_id; reflexivity).
    destruct (write_dom_measure_lines tbl mk lay dflt cs Hd) as [B0 [brest [EB ML]]].
    destruct (write_dom_unpack tbl mk lay dflt cs Hd) as [l [b0s [rests [sh [sa [st [sbs [_ D]]]]]]]].
    destruct (any_snaps tbl Hok _ _ _ _ _ _ _ _ _ _ _ D (w_bpms c) HP) as [sb [Esn Hsb]].
    destruct (w_bpms c) as [|b0 rest0] eqn:Ep.
    { apply Permutation_nil in HP. rewrite EB in HP. discriminate. }
    rewrite <- Ep in *.
    destruct (any_written_facts tbl Hok _ _ _ _ _ _ _ _ _ _ _ D (w_bpms c) HP sb b0 rest0 Ep Esn Hsb r)
      as [ls0 [tempos [Ts [Ew [Enl [Frow [Eh [Eo [Etp [Ptp [Escr Tsim]]]]]]]]]]].
    rewrite Ec in *.
    assert (Els : ls = header_lines c b0 ++ [WText []] ++ map WText ls0) by congruence. subst ls. clear Ew.
    (* the script and the positions of its changes *)
    pose proof (wd_dom _ _ _ _ _ _ _ _ _ _ _ _ D) as Hdom. pose proof (wd_from _ _ _ _ _ _ _ _ _ _ _ _ D) as Hfrom.
    destruct (domainb_nil_sound tbl l Hdom) as [c0 [lrest [El [N0 [Hm0 [Hb0 Hs]]]]]].
    destruct (script_pairs tbl Hok 0 c0 lrest N0 Hm0 Hb0 Hs) as [brest' [c0' [bcss' [E1 [_ [_ [_ [_ [E6 _]]]]]]]]]. cbv zeta in E1.
    rewrite <- El, Hfrom, EB in E1. injection E1 as EB0 EBr. subst brest'.
    assert (M4 : forall cc, In cc l -> bs_met cc = 4%Q) by (apply (wdom_met4 tbl Hok _ _ _ _ _ _ _ _ _ _ _ D)).
    assert (Pos : Forall (fun cc => (s_m (bs_snap c0) < s_m (bs_snap cc))%Z /\ (s_b (bs_snap cc) == 0)%Q) lrest).
    { apply (measure_lines_positions tbl lrest brest c0 B0 N0); auto.
      - apply M4. rewrite El. left. reflexivity.
      - rewrite EB0. reflexivity.
      - intros cc I. apply M4. rewrite El. right. exact I.
      - rewrite EB0. exact E6. }
    rewrite El in Tsim. inversion Tsim as [|x0 ? xs ? Sx0 Fxs ETs]. subst.
    unfold read_guards, tempo_on_grid. cbv zeta. rewrite Eh, Eo, Etp, (Escr 1%Q).
    apply andb_true_iff. split; [apply (pairwise_grid_sim tbl xs lrest x0 c0 Sx0 Fxs Hs)|].
    (* the first tempo object listed is the origin's *)
    destruct tempos as [|b1 trest]; [reflexivity|]. cbn [origin_tempo_first].
    assert (A0 : at_origin (bs_snap x0) = true).
    { apply at_origin_iff. destruct Sx0 as [_ [_ [A [B _]]]]. rewrite A, B. auto. }
    destruct (tempo_objs_sorted _ _ _ Etp (write_note_lines_sorted _ _ Frow Enl)) as [St _].
    apply StronglySorted_inv in St. destruct St as [_ Fb]. rewrite Forall_forall in Fb.
    assert (Ix : In x0 (b1 :: trest)) by (apply (Permutation_in _ (Permutation_sym Ptp)); left; reflexivity).
    assert (Ib : In b1 (x0 :: xs)) by (apply (Permutation_in _ Ptp); left; reflexivity).
    destruct Ib as [E|Ib]; [subst b1; rewrite A0; reflexivity|exfalso].
    assert (Le : s_m (bs_snap b1) <= s_m (bs_snap x0)) by (destruct Ix as [E|Ix]; [subst; lia|apply (Fb x0 Ix)]).
    destruct (forall2_in_l _ _ _ _ Fxs Ib) as [cc [Icc Scc]]. rewrite Forall_forall in Pos. destruct (Pos cc Icc) as [Lt _].
    destruct Scc as [_ [_ [Mb _]]]. destruct Sx0 as [_ [_ [Mx _]]]. lia.
  Qed.

  (* read after write with the reader's guards discharged: what remains is text_domb of the written text *)
  Theorem bms_write_read_guarded (mk : Z) (lay : layout) (dflt : text) (c : wchart) (r : Q -> text) :
    write_dom_any tbl mk lay dflt c = true -> (forall q, parse_decimal (r q) <> None) ->
    exists ls l d, bms_write tbl lay dflt c = Some ls /\ wscript tbl c = Some l
      /\ bms_denote lay (map (render_with r) ls) = Some d /\ written_denotes_any tbl dflt c l d
      /\ read_guards tbl (map (render_with r) ls) = true
      /\ forall c', text_domb lay (map (render_with r) ls) = true ->
                    bms_read tbl lay mk (map (render_with r) ls) = Some c' -> read_back tbl dflt c l c'.
  Proof.
    intros Hd Hr. destruct (bms_write_read_any_order tbl Hok mk lay dflt c r Hd Hr) as [ls [l [d [E1 [E2 [E3 [E4 E5]]]]]]].
    pose proof (written_read_guards mk lay dflt c r ls Hd E1) as G.
    exists ls, l, d. repeat (split; [assumption|]). intros c' Td R. apply (E5 c' Td G R).
  Qed.
End Guards.
