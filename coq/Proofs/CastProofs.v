(* C08: ConvertBase.cast copies the mapped source columns positionally into a frame of exactly the declared
   fields, for EVERY source frame (whatever its labels and row order). *)
From Coq Require Import ZArith QArith Qround List Bool Lia.
From RV Require Import Base.PyNum Frame.Frame Convert.Cast Map.StackerSpec.
Import ListNotations.
Open Scope Q_scope.

Lemma col_index_lt k cols i : col_index k cols = Some i -> (i < length cols)%nat.
Proof.
  revert i. induction cols as [|x cols IH]; intros i H; cbn [col_index] in H; [discriminate|].
  destruct (x =? k)%Z; [injection H as <-; simpl; lia|].
  destruct (col_index k cols) as [j|]; cbn [option_map] in H; [|discriminate].
  injection H as <-. specialize (IH j eq_refl). simpl. lia.
Qed.

Lemma col_index_inj k k' cols i : col_index k cols = Some i -> col_index k' cols = Some i -> k = k'.
Proof.
  revert i. induction cols as [|x cols IH]; intros i H H'; cbn [col_index] in *; [discriminate|].
  destruct (x =? k)%Z eqn:E, (x =? k')%Z eqn:E'.
  - apply Z.eqb_eq in E, E'. congruence.
  - injection H as <-. destruct (col_index k' cols); discriminate.
  - injection H' as <-. destruct (col_index k cols); discriminate.
  - destruct (col_index k cols) as [j|], (col_index k' cols) as [j'|]; cbn [option_map] in *; try discriminate.
    injection H as <-. injection H' as E2. subst j'. apply (IH j); reflexivity.
Qed.

Lemma nth_set_nth_same {A} i (x d : A) l : (i < length l)%nat -> nth i (set_nth i x l) d = x.
Proof. revert i. induction l as [|y l IH]; intros i H; simpl in H; [lia|]. destruct i; simpl; auto. apply IH. lia. Qed.
Lemma nth_set_nth_other {A} i j (x d : A) l : i <> j -> nth j (set_nth i x l) d = nth j l d.
Proof.
  revert i j. induction l as [|y l IH]; intros i j H; [destruct i; reflexivity|].
  destruct i as [|i], j as [|j]; cbn [set_nth nth]; try reflexivity; [congruence|]. apply IH. congruence.
Qed.
Lemma set_nth_length {A} i (x : A) l : length (set_nth i x l) = length l.
Proof. revert i. induction l as [|y l IH]; intros i; destruct i; simpl; auto. Qed.

(* rows all as wide as the columns *)
Definition widths_ok (w : nat) (rows : list (Z * row)) : Prop := forall lr, In lr rows -> length (snd lr) = w.

Lemma set_col_rows_spec i vals rows w :
  widths_ok w rows -> length vals = length rows -> (i < w)%nat ->
  map (fun lr => nth i (snd lr) CNaN) (set_col_rows i vals rows) = vals
  /\ (forall j, j <> i -> map (fun lr => nth j (snd lr) CNaN) (set_col_rows i vals rows)
                         = map (fun lr => nth j (snd lr) CNaN) rows)
  /\ widths_ok w (set_col_rows i vals rows)
  /\ map fst (set_col_rows i vals rows) = map fst rows.
Proof.
  revert vals. induction rows as [|[lab r] rows IH]; intros vals Hw Hl Hi.
  - destruct vals; [|discriminate]. cbn. repeat split; auto.
  - destruct vals as [|v vals]; [discriminate|]. cbn [set_col_rows map snd fst].
    assert (Hw': widths_ok w rows) by (intros lr Hin; apply Hw; right; exact Hin).
    assert (Hr: length r = w) by (apply (Hw (lab, r)); left; reflexivity).
    destruct (IH vals Hw' ltac:(simpl in Hl; lia) Hi) as [A [B [C D]]].
    repeat split.
    + rewrite A, nth_set_nth_same by lia. reflexivity.
    + intros j Hj. rewrite (B j Hj), nth_set_nth_other by congruence. reflexivity.
    + intros lr [<-|Hin]; [cbn [snd]; rewrite set_nth_length; exact Hr|apply C; exact Hin].
    + rewrite D. reflexivity.
Qed.

Definition frame_ok (f : frame) : Prop := nodupb (fcols f) = true /\ widths_ok (length (fcols f)) (frows f).

Lemma set_col_spec k vals f f' :
  frame_ok f -> set_col k vals f = Some f' ->
  fcols f' = fcols f /\ nrows f' = nrows f /\ labels f' = labels f /\ frame_ok f'
  /\ col_vals f' k = Some vals
  /\ (forall k', k' <> k -> col_vals f' k' = col_vals f k').
Proof.
  intros [Hnd Hw] H. unfold set_col in H. destruct (col_index k (fcols f)) as [i|] eqn:Ei; [|discriminate].
  destruct (Nat.eqb (length vals) (nrows f)) eqn:El; [|discriminate]. injection H as <-.
  apply Nat.eqb_eq in El. unfold nrows in El.
  destruct (set_col_rows_spec i vals (frows f) _ Hw El (col_index_lt _ _ _ Ei)) as [A [B [C D]]].
  cbn [fcols frows]. repeat split; auto.
  - unfold nrows; cbn [frows]. rewrite <- (map_length fst), D, map_length. reflexivity.
  - unfold col_vals, abs_rows; cbn [fcols frows]. rewrite Ei, map_map. f_equal. exact A.
  - intros k' Hk. unfold col_vals, abs_rows; cbn [fcols frows].
    destruct (col_index k' (fcols f)) as [j|] eqn:Ej; auto. rewrite !map_map. f_equal. apply B.
    intro E. subst j. apply Hk. symmetry. apply (col_index_inj _ _ _ _ Ei Ej).
Qed.

(* the fresh buffer: exactly the declared fields, n default rows *)
Lemma relabel_fst k l : map fst (relabel k l) = map (fun i => (k + Z.of_nat i)%Z) (seq 0 (length l)).
Proof.
  revert k. induction l as [|r l IH]; intros k; [reflexivity|]. cbn [relabel map length seq fst].
  rewrite IH, <- seq_shift, map_map. f_equal; [lia|]. apply map_ext. intros a. lia.
Qed.
Lemma relabel_snd k l : map snd (relabel k l) = l.
Proof. revert k. induction l as [|r l IH]; intros k; cbn; auto. rewrite IH. reflexivity. Qed.
Lemma relabel_length k (l : list row) : length (relabel k l) = length l.
Proof. rewrite <- (map_length snd), relabel_snd. reflexivity. Qed.

Lemma empty_frame_ok declared defaults n :
  nodupb declared = true -> length defaults = length declared -> frame_ok (empty_frame declared defaults n).
Proof.
  intros Hnd Hl. split; [exact Hnd|]. cbn [empty_frame fcols frows]. intros lr Hin.
  assert (In (snd lr) (map snd (relabel 0 (repeat defaults n)))) by (apply in_map; exact Hin).
  rewrite relabel_snd in H. apply repeat_spec in H. rewrite H. exact Hl.
Qed.

Lemma empty_frame_col declared defaults n d i :
  col_index d declared = Some i ->
  col_vals (empty_frame declared defaults n) d = Some (repeat (nth i defaults CNaN) n).
Proof.
  intro Hi. unfold col_vals, abs_rows, empty_frame; cbn [fcols frows]. rewrite Hi, relabel_snd. f_equal.
  induction n; simpl; auto. rewrite IHn. reflexivity.
Qed.

(* what cast guarantees, as a proposition *)
Definition targets (m : list (Z * source)) : list Z := map fst m.

Definition source_ok (src : frame) (s : source) : Prop :=
  match s with
  | FromCol c => exists vs, col_vals src c = Some vs
  | FromVals vs => length vs = nrows src
  end.
Definition source_vals (src : frame) (s : source) : option (list cell) :=
  match s with FromCol c => col_vals src c | FromVals vs => Some vs end.

Lemma col_vals_length f c vs : col_vals f c = Some vs -> length vs = nrows f.
Proof.
  unfold col_vals, nrows, abs_rows. destruct (col_index c (fcols f)); [|discriminate].
  intro H. injection H as <-. rewrite !map_length. reflexivity.
Qed.

Lemma apply_mapping_spec src mapping : forall buffer,
  frame_ok buffer -> nrows buffer = nrows src ->
  nodupb (targets mapping) = true ->
  (forall t s, In (t, s) mapping -> existsb (Z.eqb t) (fcols buffer) = true /\ source_ok src s) ->
  exists out, apply_mapping src mapping buffer = Some out
    /\ fcols out = fcols buffer /\ nrows out = nrows buffer /\ labels out = labels buffer /\ frame_ok out
    /\ (forall t s, In (t, s) mapping -> col_vals out t = source_vals src s)
    /\ (forall k, existsb (Z.eqb k) (targets mapping) = false -> col_vals out k = col_vals buffer k).
Proof.
  induction mapping as [|[t s] mapping IH]; intros buffer Hok Hn Hnd Hsrc.
  - exists buffer. cbn [apply_mapping]. split; [reflexivity|]. split; [reflexivity|]. split; [reflexivity|].
    split; [reflexivity|]. split; [exact Hok|]. split; [intros t s Hin; destruct Hin|reflexivity].
  - cbn [apply_mapping].
    destruct (Hsrc t s (or_introl eq_refl)) as [Ht Hs].
    assert (Hv: exists vs, source_vals src s = Some vs /\ length vs = nrows src).
    { destruct s as [c|vs]; cbn in *.
      - destruct Hs as [vs Hvs]. exists vs. split; auto. apply (col_vals_length _ _ _ Hvs).
      - exists vs. split; auto. }
    destruct Hv as [vs [Hvs Hlen]].
    assert (Evals: match s with FromCol c => col_vals src c | FromVals vs0 => Some vs0 end = Some vs)
      by (destruct s; exact Hvs).
    rewrite Evals.
    assert (Hset: exists b', set_col t vs buffer = Some b').
    { unfold set_col.
      assert (exists i, col_index t (fcols buffer) = Some i).
      { clear - Ht. induction (fcols buffer) as [|x cols IHc]; cbn in *; [discriminate|].
        rewrite (Z.eqb_sym t x) in Ht. destruct (x =? t)%Z; [eexists; reflexivity|].
        destruct (IHc Ht) as [i Hi]. rewrite Hi. eexists; reflexivity. }
      destruct H as [i Hi]. rewrite Hi. rewrite Hlen, <- Hn, Nat.eqb_refl. eexists; reflexivity. }
    destruct Hset as [b' Hb']. rewrite Hb'.
    destruct (set_col_spec t vs buffer b' Hok Hb') as [C1 [C2 [C3 [C4 [C5 C6]]]]].
    cbn [targets map nodupb fst] in Hnd. apply andb_true_iff in Hnd. destruct Hnd as [Hnt Hnd].
    apply negb_true_iff in Hnt.
    destruct (IH b' C4 ltac:(congruence) Hnd) as [out [O1 [O2 [O3 [O4 [O5 [O6 O7]]]]]]].
    { intros t' s' Hin. rewrite C1. apply Hsrc. right. exact Hin. }
    exists out. split; [exact O1|]. split; [congruence|]. split; [congruence|]. split; [congruence|].
    split; [exact O5|]. split.
    + intros t' s' [E|Hin]; [injection E as <- <-|apply O6; exact Hin].
      rewrite (O7 t Hnt), C5. symmetry. exact Hvs.
    + intros k Hk. cbn [targets map existsb fst] in Hk. apply orb_false_iff in Hk. destruct Hk as [Hk1 Hk2].
      rewrite (O7 k Hk2). apply C6. intro E. subst k. rewrite Z.eqb_refl in Hk1. discriminate.
Qed.

Theorem cast_exact src declared defaults mapping :
  nodupb declared = true -> length defaults = length declared ->
  nodupb (targets mapping) = true ->
  (forall t s, In (t, s) mapping -> existsb (Z.eqb t) declared = true /\ source_ok src s) ->
  exists out, cast src declared defaults mapping = Some out
    /\ fcols out = declared                                   (* exactly the declared fields *)
    /\ nrows out = nrows src                                  (* one row per source row *)
    /\ labels out = map (fun i => Z.of_nat i) (seq 0 (nrows src))   (* fresh 0..n-1 labels *)
    /\ (forall t s, In (t, s) mapping -> col_vals out t = source_vals src s)   (* positional copy *)
    /\ (forall d i, col_index d declared = Some i -> existsb (Z.eqb d) (targets mapping) = false ->
          col_vals out d = Some (repeat (nth i defaults CNaN) (nrows src))).   (* everything else default *)
Proof.
  intros Hnd Hl Hm Hsrc. unfold cast.
  pose proof (empty_frame_ok declared defaults (nrows src) Hnd Hl) as Hok.
  assert (Hn: nrows (empty_frame declared defaults (nrows src)) = nrows src).
  { unfold nrows, empty_frame; cbn [frows]. rewrite relabel_length, repeat_length. reflexivity. }
  destruct (apply_mapping_spec src mapping _ Hok Hn Hm Hsrc) as [out [O1 [O2 [O3 [O4 [O5 [O6 O7]]]]]]].
  exists out. split; [exact O1|]. split; [exact O2|]. split; [congruence|]. split; [|split].
  - rewrite O4. unfold labels, empty_frame; cbn [frows]. rewrite relabel_fst, repeat_length. reflexivity.
  - exact O6.
  - intros d i Hi Hd. rewrite (O7 d Hd). apply empty_frame_col. exact Hi.
Qed.

(* any two source frames with the same rows give the same converted values: labels are irrelevant *)
Lemma col_vals_abs f g c : fcols f = fcols g -> abs_rows f = abs_rows g -> col_vals f c = col_vals g c.
Proof. intros Hc Hr. unfold col_vals. rewrite Hc, Hr. reflexivity. Qed.
