(* C06 — resolution 0 after the first trip, and completeness of the boolean oracles.

   Every time a document of the reader's domain declares is an integer, so is every time of a written document; two
   integers less than 1 ms apart are equal.  Composing the whole-document theorems of Proofs/QuaProofs.v
   (qua_read_ok, qua_write_live_ok, wf_qua_doc_is_wf_doc) this gives, for EVERY document of the reader's domain:
     write (read d) denotes exactly what d denotes              (qua_write_after_read_exact), and
     read (write (read d)) is exactly the chart read d           (qua_read_write_read_exact),
   with multiset equality of notes / timing points / scroll velocities (Qeq on times) and equal metadata.
   Oracles: read_specb and rw_specb are complete (they accept whenever the declarative relation holds);
   write_specb / wr_specb compare positionally: complete for the positional relation, refuted for the
   permutation-closed one. *)
From Coq Require Import ZArith QArith Qround Qabs List Bool Lia Lqa Permutation.
From RV Require Import Base.PyNum Formats.Qua Formats.QuaSpec Proofs.QuaProofs.
Import ListNotations.
Open Scope Z_scope.

(* ================================================================== matching up to permutation *)
Definition pmatch {A} (R : A -> A -> Prop) (a b : list A) : Prop := exists b', Permutation b b' /\ Forall2 R a b'.

Lemma Forall2_flip {A} (R : A -> A -> Prop) a b : Forall2 R a b -> Forall2 (fun x y => R y x) b a.
Proof. induction 1; constructor; assumption. Qed.
Lemma Forall2_trans {A} (R : A -> A -> Prop) : (forall x y z, R x y -> R y z -> R x z) ->
  forall a b c, Forall2 R a b -> Forall2 R b c -> Forall2 R a c.
Proof.
  intros T a b c H. revert c. induction H as [|x y a b Hxy _ IH]; intros c H2; inversion H2; subst; constructor.
  - eapply T; eassumption.
  - apply IH. assumption.
Qed.
Lemma Forall2_impl2 {A} (R S : A -> A -> Prop) a b : (forall x y, R x y -> S x y) -> Forall2 R a b -> Forall2 S a b.
Proof. intros I H. induction H; constructor; auto. Qed.
Lemma pmatch_sym {A} (R : A -> A -> Prop) : (forall x y, R x y -> R y x) -> forall a b, pmatch R a b -> pmatch R b a.
Proof.
  intros S a b [b' [P F]]. apply Forall2_flip in F.
  destruct (Permutation_Forall2 (Permutation_sym P) F) as [a' [Pa Fa]].
  exists a'. split; [exact Pa|]. eapply Forall2_impl2; [|exact Fa]. intros x y. apply S.
Qed.
Lemma pmatch_trans {A} (R : A -> A -> Prop) : (forall x y z, R x y -> R y z -> R x z) ->
  forall a b c, pmatch R a b -> pmatch R b c -> pmatch R a c.
Proof.
  intros T a b c [b' [Pb Fb]] [c' [Pc Fc]].
  destruct (Permutation_Forall2 Pb Fc) as [c'' [Pc' Fc']].
  exists c''. split; [eapply perm_trans; eassumption|]. eapply Forall2_trans; eassumption.
Qed.
Lemma pmatch_refl {A} (R : A -> A -> Prop) : (forall x, R x x) -> forall a, pmatch R a a.
Proof. intros Rf a. exists a. split; [apply Permutation_refl|]. induction a; constructor; auto. Qed.

(* ================================================================== the equalities on notes and points are equivalences *)
Definition note_eq (x y : noteD) : Prop := note_eqb x y = true.
Definition pt_eq (x y : Q * Q) : Prop := pt_eqb x y = true.

Lemma text_eqb_leibniz x : forall y, text_eqb x y = true -> x = y.
Proof.
  induction x as [|c x IHx]; destruct y as [|c' y]; simpl; intro H; try discriminate; [reflexivity|].
  apply andb_true_iff in H. destruct H as [A B]. apply Z.eqb_eq in A. subst. f_equal. apply IHx. exact B.
Qed.
Lemma texts_eqb_eq a : forall b, texts_eqb a b = true -> a = b.
Proof.
  induction a as [|x a IH]; destruct b as [|y b]; simpl; intro H; try discriminate; [reflexivity|].
  apply andb_true_iff in H. destruct H as [H1 H2]. f_equal; [apply text_eqb_leibniz; exact H1|apply IH; exact H2].
Qed.
Lemma note_eqb_inv x y : note_eqb x y = true ->
  n_lane x = n_lane y /\ (n_start x == n_start y)%Q /\
  match n_end x, n_end y with None, None => True | Some a, Some b => (a == b)%Q | _, _ => False end /\ n_ks x = n_ks y.
Proof.
  unfold note_eqb. intro H. repeat (apply andb_true_iff in H; destruct H as [H ?]).
  split; [apply Z.eqb_eq; exact H|]. split; [apply Qeq_bool_iff; assumption|]. split; [|apply texts_eqb_eq; assumption].
  destruct (n_end x), (n_end y); simpl in *; try discriminate; auto. apply Qeq_bool_iff. assumption.
Qed.
Lemma note_eqb_intro x y : n_lane x = n_lane y -> (n_start x == n_start y)%Q ->
  match n_end x, n_end y with None, None => True | Some a, Some b => (a == b)%Q | _, _ => False end -> n_ks x = n_ks y ->
  note_eqb x y = true.
Proof.
  intros A B C D. unfold note_eqb. rewrite A, Z.eqb_refl, D, texts_eqb_refl.
  rewrite (proj2 (Qeq_bool_iff _ _) B). cbn [andb]. rewrite andb_true_r.
  destruct (n_end x), (n_end y); simpl; try contradiction; auto. apply Qeq_bool_iff. exact C.
Qed.
Lemma note_eq_sym x y : note_eq x y -> note_eq y x.
Proof.
  unfold note_eq. intro H. destruct (note_eqb_inv _ _ H) as [A [B [C D]]]. apply note_eqb_intro; auto.
  - symmetry. exact B.
  - destruct (n_end x), (n_end y); try contradiction; auto. symmetry. exact C.
Qed.
Lemma note_eq_trans x y z : note_eq x y -> note_eq y z -> note_eq x z.
Proof.
  unfold note_eq. intros H1 H2. destruct (note_eqb_inv _ _ H1) as [A [B [C D]]]. destruct (note_eqb_inv _ _ H2) as [A' [B' [C' D']]].
  apply note_eqb_intro; try congruence.
  - rewrite B. exact B'.
  - destruct (n_end x), (n_end y), (n_end z); try contradiction; auto. rewrite C. exact C'.
Qed.
Lemma pt_eq_sym x y : pt_eq x y -> pt_eq y x.
Proof.
  unfold pt_eq, pt_eqb. intro H. apply andb_true_iff in H. destruct H as [A B]. apply Qeq_bool_iff in A. apply Qeq_bool_iff in B.
  apply andb_true_iff. split; apply Qeq_bool_iff; symmetry; assumption.
Qed.
Lemma pt_eq_trans x y z : pt_eq x y -> pt_eq y z -> pt_eq x z.
Proof.
  unfold pt_eq, pt_eqb. intros H1 H2. apply andb_true_iff in H1. destruct H1 as [A B]. apply andb_true_iff in H2. destruct H2 as [A' B'].
  apply Qeq_bool_iff in A. apply Qeq_bool_iff in B. apply Qeq_bool_iff in A'. apply Qeq_bool_iff in B'.
  apply andb_true_iff. split; apply Qeq_bool_iff; [rewrite A; exact A'|rewrite B; exact B'].
Qed.

(* ================================================================== metadata values: tree_eqb true on typed values *)
Definition simple (v : ytree) : Prop :=
  match v with YMap _ => False | YList l => is_text_list l = true | _ => True end.
Definition veq (v w : ytree) : Prop :=
  match v, w with YFloat a, YFloat b => (a == b)%Q | _, _ => v = w end.
Lemma textlist_eqb_eq l : is_text_list l = true -> forall m,
  (fix go (l m : list ytree) : bool := match l, m with [] , [] => true | x :: l', y :: m' => tree_eqb true x y && go l' m' | _, _ => false end) l m = true -> m = l.
Proof.
  induction l as [|x l IH]; intros Hl m H; destruct m as [|y m]; try discriminate; [reflexivity|].
  simpl in Hl. apply andb_true_iff in Hl. destruct Hl as [Hx Hl]. apply andb_true_iff in H. destruct H as [H1 H2].
  destruct x; try discriminate. destruct y; simpl in H1; try discriminate. apply text_eqb_leibniz in H1.
  subst. f_equal. apply IH; assumption.
Qed.
Lemma tree_eqb_veq v w : simple v -> tree_eqb true v w = true -> veq v w.
Proof.
  destruct v; intros S H; destruct w; simpl in H; try discriminate; unfold veq.
  - apply Z.eqb_eq in H. subst. reflexivity.
  - apply Qeq_bool_iff. exact H.
  - reflexivity.
  - apply text_eqb_leibniz in H. subst. reflexivity.
  - apply Bool.eqb_prop in H. subst. reflexivity.
  - reflexivity.
  - simpl in S. rewrite (textlist_eqb_eq l S l0 H). reflexivity.
  - destruct S.
Qed.
Lemma veq_tree_eqb v w : simple v -> veq v w -> tree_eqb true v w = true.
Proof.
  intros S H. destruct v; try (unfold veq in H; subst w).
  - apply Z.eqb_refl.
  - destruct w; try discriminate H. apply Qeq_bool_iff. exact H.
  - reflexivity.
  - apply text_eqb_refl.
  - destruct b; reflexivity.
  - reflexivity.
  - apply tree_eqb_textlist. exact S.
  - destruct S.
Qed.
Lemma veq_sym v w : veq v w -> veq w v.
Proof. destruct v, w; unfold veq; intro H; try (symmetry; exact H); try discriminate H. Qed.
Lemma veq_trans v w u : veq v w -> veq w u -> veq v u.
Proof.
  destruct v, w; unfold veq at 1; intro H1; try discriminate H1; try (inversion H1; subst; auto; fail).
  destruct u; unfold veq; intro H2; try discriminate H2. rewrite H1. exact H2.
Qed.
Lemma veq_simple v w : veq v w -> simple v -> simple w.
Proof. destruct v, w; unfold veq; intro H; try discriminate H; try (inversion H; subst; auto; fail); auto. Qed.
Lemma veq_has_type t v w : veq v w -> has_type t v = has_type t w.
Proof. destruct v, w; unfold veq; intro H; try discriminate H; try (inversion H; subst; auto; fail); reflexivity. Qed.
Lemma has_type_simple t v : has_type t v = true -> simple v.
Proof. destruct v; simpl; intro H; try discriminate; auto. apply andb_true_iff in H. tauto. Qed.

Definition osimple (o : option ytree) : Prop := match o with Some v => simple v | None => True end.
Lemma omap_Forall {A B} (f : A -> option B) (P : B -> Prop) l : forall r,
  (forall x y, In x l -> f x = Some y -> P y) -> omap f l = Some r -> Forall P r.
Proof.
  induction l as [|x l IH]; intros r H E; simpl in E; [inversion E; constructor|].
  destruct (f x) as [y|] eqn:Ey; [|discriminate]. destruct (omap f l) as [t|] eqn:Et; [|discriminate]. inversion E; subst.
  constructor; [apply (H x y (or_introl eq_refl) Ey)|]. apply IH; [|reflexivity]. intros x' y' Hx'. apply H. right. exact Hx'.
Qed.
Lemma meta_denote_simple d decl : meta_denote d = Some decl -> Forall osimple decl.
Proof.
  rewrite meta_denote_unfold. apply omap_Forall. intros [k ty] o _. unfold meta_decl1.
  destruct (assoc k d) as [v|]; [|intro E; inversion E; exact I].
  destruct (k =? ref_tags_key).
  - destruct v; try discriminate. intro E. inversion E. simpl. apply is_text_list_map_YStr.
  - destruct (has_type ty v) eqn:Hv; [|discriminate]. intro E. inversion E. simpl. apply (has_type_simple ty v Hv).
Qed.

(* a fully declared, simple metadata block is related to two value lists => they are related to each other *)
Lemma refine_common tbl : forall dw m1 m2, all_declared dw = true -> Forall osimple dw ->
  all2 refine1 tbl (combine dw (map Some m1)) = true -> all2 refine1 tbl (combine dw (map Some m2)) = true ->
  length dw = length tbl -> length m1 = length tbl -> length m2 = length tbl ->
  all2 refine1 tbl (combine (map Some m1) (map Some m2)) = true.
Proof.
  induction tbl as [|kt tbl IH]; intros dw m1 m2 AD SD H1 H2 L0 L1 L2;
    destruct dw as [|w dw]; destruct m1 as [|a1 m1]; destruct m2 as [|a2 m2]; try discriminate; [reflexivity|].
  cbn [map combine all2] in *. apply andb_true_iff in H1. destruct H1 as [X1 H1]. apply andb_true_iff in H2. destruct H2 as [X2 H2].
  cbn [all_declared forallb] in AD. apply andb_true_iff in AD. destruct AD as [A0 AD]. inversion SD as [|? ? S0 SD']; subst.
  destruct w as [w|]; [|discriminate]. cbn [refine1] in *. cbn [osimple] in S0.
  pose proof (tree_eqb_veq _ _ S0 X1) as V1. pose proof (tree_eqb_veq _ _ S0 X2) as V2.
  rewrite (veq_tree_eqb a1 a2 (veq_simple _ _ V1 S0) (veq_trans _ _ _ (veq_sym _ _ V1) V2)). cbn [andb].
  apply (IH dw); auto.
Qed.
Lemma refine_chain tbl : forall de dw m1, all_declared dw = true -> Forall osimple dw -> Forall osimple de ->
  all2 refine1 tbl (combine de (map Some m1)) = true -> all2 refine1 tbl (combine dw (map Some m1)) = true ->
  length de = length tbl -> length dw = length tbl -> length m1 = length tbl ->
  all2 refine1 tbl (combine de dw) = true.
Proof.
  induction tbl as [|kt tbl IH]; intros de dw m1 AD SW SE H1 H2 L0 L1 L2;
    destruct de as [|v de]; destruct dw as [|w dw]; destruct m1 as [|a m1]; try discriminate; [reflexivity|].
  cbn [map combine all2] in *. apply andb_true_iff in H1. destruct H1 as [X1 H1]. apply andb_true_iff in H2. destruct H2 as [X2 H2].
  cbn [all_declared forallb] in AD. apply andb_true_iff in AD. destruct AD as [A0 AD].
  inversion SW as [|? ? S0 SW']; subst. inversion SE as [|? ? T0 SE']; subst.
  destruct w as [w|]; [|discriminate]. cbn [osimple] in S0. cbn [refine1] in X2. pose proof (tree_eqb_veq _ _ S0 X2) as V2.
  rewrite (IH de dw m1) by auto. rewrite andb_true_r.
  destruct v as [v|]; cbn [refine1] in *.
  - cbn [osimple] in T0. pose proof (tree_eqb_veq _ _ T0 X1) as V1.
    apply veq_tree_eqb; [exact T0|]. eapply veq_trans; [exact V1|apply veq_sym; exact V2].
  - rewrite (veq_has_type _ _ _ V2). exact X1.
Qed.

(* ================================================================== integer times *)
Definition is_intQ (q : Q) : Prop := exists z, (q == inject_Z z)%Q.
Definition note_int (n : noteD) : Prop := is_intQ (n_start n) /\ match n_end n with Some e => is_intQ e | None => True end.
Definition pt_int (p : Q * Q) : Prop := is_intQ (fst p).
Definition den_int (e : den) : Prop := Forall note_int (d_notes e) /\ Forall pt_int (d_bpms e) /\ Forall pt_int (d_svs e).

Lemma close_int_eq a b : is_intQ a -> is_intQ b -> (Qabs (a - b) < 1)%Q -> (a == b)%Q.
Proof.
  intros [m Em] [n En] H. rewrite Em, En in *. apply Qabs_Qlt_condition in H. destruct H as [H1 H2].
  assert (m = n); [|subst; reflexivity].
  unfold Qlt, Qminus, Qplus, Qopp, inject_Z in H1, H2. simpl in H1, H2. lia.
Qed.
Lemma is_intQ_comp a b : (a == b)%Q -> is_intQ a -> is_intQ b.
Proof. intros E [z H]. exists z. rewrite <- E. exact H. Qed.
Lemma note_int_eq x y : note_eq x y -> note_int x -> note_int y.
Proof.
  unfold note_eq. intros H [A B]. destruct (note_eqb_inv _ _ H) as [_ [S [E _]]]. split; [exact (is_intQ_comp _ _ S A)|].
  destruct (n_end x), (n_end y); try contradiction; auto. exact (is_intQ_comp _ _ E B).
Qed.
Lemma pt_int_eq x y : pt_eq x y -> pt_int x -> pt_int y.
Proof.
  unfold pt_eq, pt_eqb, pt_int. intros H A. apply andb_true_iff in H. destruct H as [H _]. apply Qeq_bool_iff in H.
  exact (is_intQ_comp _ _ H A).
Qed.
Lemma Forall2_Forall_r {A} (R : A -> A -> Prop) (P : A -> Prop) a b :
  (forall x y, R x y -> P x -> P y) -> Forall2 R a b -> Forall P a -> Forall P b.
Proof. intros I H. induction H; intro F; inversion F; subst; constructor; eauto. Qed.
Lemma pmatch_Forall {A} (R : A -> A -> Prop) (P : A -> Prop) a b :
  (forall x y, R x y -> P x -> P y) -> pmatch R a b -> Forall P a -> Forall P b.
Proof.
  intros I [b' [Pm F]] H. apply (Permutation_Forall (Permutation_sym Pm)). eapply Forall2_Forall_r; eassumption.
Qed.

(* close and integral => equal *)
Lemma note_close_int_eq x y : note_int x -> note_int y -> note_close x y -> note_eq x y.
Proof.
  intros [A B] [A' B'] [L [S [E K]]]. apply note_eqb_intro; [exact L|apply close_int_eq; assumption| |apply texts_eqb_eq; exact K].
  destruct (n_end x), (n_end y); try contradiction; auto. apply close_int_eq; assumption.
Qed.
Lemma pt_close_int_eq x y : pt_int x -> pt_int y -> pt_close x y -> pt_eq x y.
Proof.
  intros A B [C D]. unfold pt_eq, pt_eqb. apply andb_true_iff. split; apply Qeq_bool_iff; [apply close_int_eq; assumption|exact D].
Qed.
Lemma Forall2_int_eq {A} (C E : A -> A -> Prop) (P : A -> Prop) a b :
  (forall x y, P x -> P y -> C x y -> E x y) -> Forall P a -> Forall P b -> Forall2 C a b -> Forall2 E a b.
Proof. intros I Fa Fb H. induction H; inversion Fa; inversion Fb; subst; constructor; auto. Qed.

Definition den_eq' (e a : den) : Prop :=
  pmatch note_eq (d_notes e) (d_notes a) /\ pmatch pt_eq (d_bpms e) (d_bpms a) /\ pmatch pt_eq (d_svs e) (d_svs a) /\
  meta_refinesb (d_meta e) (d_meta a) = true.
Lemma den_eq_iff e a : den_eq e a <-> den_eq' e a.
Proof. reflexivity. Qed.

Lemma den_close_int_eq e a : den_int e -> den_int a -> den_close e a -> den_eq e a.
Proof.
  intros [E1 [E2 E3]] [A1 [A2 A3]] [[n' [Pn Fn]] [[b' [Pb Fb]] [[s' [Ps Fs]] M]]].
  split; [|split; [|split; [|exact M]]].
  - exists n'. split; [exact Pn|]. apply (Forall2_int_eq note_close _ note_int); auto.
    + intros; apply note_close_int_eq; assumption.
    + apply (Permutation_Forall Pn). exact A1.
  - exists b'. split; [exact Pb|]. apply (Forall2_int_eq pt_close _ pt_int); auto.
    + intros; apply pt_close_int_eq; assumption.
    + apply (Permutation_Forall Pb). exact A2.
  - exists s'. split; [exact Ps|]. apply (Forall2_int_eq pt_close _ pt_int); auto.
    + intros; apply pt_close_int_eq; assumption.
    + apply (Permutation_Forall Ps). exact A3.
Qed.
Lemma den_eq_int e a : den_eq e a -> den_int e -> den_int a.
Proof.
  intros [N [B [S _]]] [E1 [E2 E3]]. split; [|split].
  - exact (pmatch_Forall _ _ _ _ note_int_eq N E1).
  - exact (pmatch_Forall _ _ _ _ pt_int_eq B E2).
  - exact (pmatch_Forall _ _ _ _ pt_int_eq S E3).
Qed.

(* every time a document of the reader's domain declares is an integer *)
Lemma typed_int_cell allowed r k v : rec_typed allowed r -> assoc k allowed = Some is_int -> assoc k r = Some v ->
  exists z, v = YInt z.
Proof.
  intros [_ T] A E. destruct (T k v (assoc_In _ _ _ E)) as [p [Ep Hp]]. rewrite A in Ep. inversion Ep; subst p.
  destruct v; try discriminate. eauto.
Qed.
Lemma note_denote_int r n : rec_typed note_keys_in r -> note_denote (YMap r) = Some n -> note_int n.
Proof.
  intros T. unfold note_denote, get_default.
  assert (S: exists z, match assoc K_StartTime r with Some v => num v | None => Some 0%Q end = Some (inject_Z z)).
  { destruct (assoc K_StartTime r) as [v|] eqn:E; [|exists 0; reflexivity].
    destruct (typed_int_cell note_keys_in r K_StartTime v T eq_refl E) as [z ->]. exists z. reflexivity. }
  destruct S as [zs Es]. rewrite Es.
  destruct (match assoc K_Lane r with Some v => int_of v | None => Some 1 end) as [l|]; [|discriminate].
  destruct (match assoc K_KeySounds r with Some v => ks_of v | None => Some [] end) as [ks|]; [|discriminate].
  destruct (assoc K_EndTime r) as [e|] eqn:Ee.
  - destruct (typed_int_cell note_keys_in r K_EndTime e T eq_refl Ee) as [ze ->]. cbn [num]. intro H. inversion H; subst n.
    split; cbn [n_start n_end]; [exists zs; reflexivity|exists ze; reflexivity].
  - intro H. inversion H; subst n. split; cbn [n_start n_end]; [exists zs; reflexivity|exact I].
Qed.
Lemma point_denote_int allowed kval dflt r p : rec_typed allowed r -> assoc K_StartTime allowed = Some is_int ->
  point_denote kval dflt (YMap r) = Some p -> pt_int p.
Proof.
  intros T A. unfold point_denote, get_default.
  assert (S: exists z, match assoc K_StartTime r with Some v => num v | None => Some 0%Q end = Some (inject_Z z)).
  { destruct (assoc K_StartTime r) as [v|] eqn:E; [|exists 0; reflexivity].
    destruct (typed_int_cell _ _ _ _ T A E) as [z ->]. exists z. reflexivity. }
  destruct S as [zs Es]. rewrite Es.
  destruct (match assoc kval r with Some v => num v | None => Some dflt end) as [x|]; [|discriminate].
  intro H. inversion H; subst p. exists zs. reflexivity.
Qed.
Lemma section_denote_Forall {A} (f : ytree -> option A) (P : A -> Prop) allowed k d out :
  section_okb allowed k d = true -> (forall r y, rec_typed allowed r -> f (YMap r) = Some y -> P y) ->
  section_denote f k d = Some out -> Forall P out.
Proof.
  intros S H. destruct (section_inv _ _ _ S) as [l [E O]]. unfold section_denote. rewrite E.
  destruct (rec_list_inv _ _ O) as [recs [-> [_ T]]]. rewrite omap_map. apply omap_Forall.
  intros r y Hr. apply H. rewrite Forall_forall in T. apply T. exact Hr.
Qed.
Theorem qua_denote_int doc e : wf_docb doc = true -> qua_denote doc = Some e -> den_int e.
Proof.
  destruct doc as [| | | | | | |d]; try discriminate. unfold wf_docb. intro Hwf.
  do 4 (apply andb_true_iff in Hwf; destruct Hwf as [Hwf ?]). rename H1 into Sh, H0 into Sb, H into Ss.
  unfold qua_denote.
  destruct (section_denote note_denote K_HitObjects d) as [n|] eqn:En; [|discriminate].
  destruct (section_denote (point_denote K_Bpm 120%Q) K_TimingPoints d) as [b|] eqn:Eb; [|discriminate].
  destruct (section_denote (point_denote K_Multiplier 1%Q) K_SliderVelocities d) as [s|] eqn:Es; [|discriminate].
  destruct (meta_denote d) as [m|]; [|discriminate]. intro H. inversion H; subst e. clear H.
  split; [|split]; cbn [d_notes d_bpms d_svs].
  - apply (section_denote_Forall note_denote note_int _ _ _ _ Sh); [|exact En]. intros r y. apply note_denote_int.
  - apply (section_denote_Forall (point_denote K_Bpm 120%Q) pt_int _ _ _ _ Sb); [|exact Eb]. intros r y T. apply (point_denote_int tp_keys_in _ _ r y T eq_refl).
  - apply (section_denote_Forall (point_denote K_Multiplier 1%Q) pt_int _ _ _ _ Ss); [|exact Es]. intros r y T. apply (point_denote_int sv_keys_in _ _ r y T eq_refl).
Qed.

(* ================================================================== resolution 0 after the first trip *)
Lemma chart_denote_meta c a : chart_denote c = Some a ->
  d_meta a = map Some (c_meta c) /\ length (c_meta c) = length ref_meta_table.
Proof.
  unfold chart_denote. destruct (omap hit_row_denote _); [|discriminate]. destruct (omap hold_row_denote _); [|discriminate].
  destruct (omap (point_row_denote N_bpm) _); [|discriminate]. destruct (omap (point_row_denote N_multiplier) _); [|discriminate].
  destruct (Nat.eqb (length (c_meta c)) (length ref_meta_table)) eqn:E; [|discriminate].
  intro H. inversion H. split; [reflexivity|apply Nat.eqb_eq; exact E].
Qed.
Lemma meta_refinesb_inv dc ac : meta_refinesb dc ac = true ->
  all2 refine1 ref_meta_table (combine dc ac) = true /\ length dc = length ref_meta_table /\ length ac = length ref_meta_table.
Proof.
  rewrite meta_refinesb_unfold. intro H. apply andb_true_iff in H. destruct H as [H L2]. apply andb_true_iff in H. destruct H as [H L1].
  split; [exact H|]. split; apply Nat.eqb_eq; assumption.
Qed.
Lemma meta_refinesb_intro dc ac : all2 refine1 ref_meta_table (combine dc ac) = true ->
  length dc = length ref_meta_table -> length ac = length ref_meta_table -> meta_refinesb dc ac = true.
Proof. intros H L1 L2. rewrite meta_refinesb_unfold, H, L1, L2, Nat.eqb_refl. reflexivity. Qed.
Lemma qua_denote_meta_simple doc e : qua_denote doc = Some e -> Forall osimple (d_meta e).
Proof.
  destruct doc as [| | | | | | |d]; try discriminate. unfold qua_denote.
  destruct (section_denote note_denote K_HitObjects d); [|discriminate].
  destruct (section_denote (point_denote K_Bpm 120%Q) K_TimingPoints d); [|discriminate].
  destruct (section_denote (point_denote K_Multiplier 1%Q) K_SliderVelocities d); [|discriminate].
  destruct (meta_denote d) as [m|] eqn:Em; [|discriminate]. intro H. inversion H. cbn [d_meta]. exact (meta_denote_simple d m Em).
Qed.

(* what the write-after-read oracle establishes *)
Definition ReadWriteSpec (doc : ytree) (out : option ytree) : Prop :=
  exists d e a, out = Some d /\ wf_qua_docb d = true /\ qua_denote doc = Some e /\ qua_denote d = Some a /\
                den_eq e a /\ all_declared (d_meta a) = true.

(* the facts shared by the two theorems below *)
Lemma read_write_facts doc : wf_docb doc = true ->
  exists c1 d1 e a1 e1,
    Live.read doc = Some c1 /\ Live.write c1 = Some d1 /\ wf_chartb false c1 = true /\ wf_qua_docb d1 = true /\
    qua_denote doc = Some e /\ chart_denote c1 = Some a1 /\ qua_denote d1 = Some e1 /\
    den_eq e a1 /\ den_eq e1 a1 /\ all_declared (d_meta e1) = true.
Proof.
  intro H. destruct (qua_read_live_ok doc H) as [c1 [R [S T]]].
  pose proof (qua_write_live_ok c1 T) as W. destruct (Live.write c1) as [d1|] eqn:E; [|discriminate W].
  destruct (read_specb_sound _ _ S) as [c' [e [a1 [Ec [De [Da Q1]]]]]]. inversion Ec; subst c'.
  destruct (write_specb_sound _ _ W) as [d' [e1 [a1' [Ed [Wq [De1 [Da' [Q2 AD]]]]]]]]. inversion Ed; subst d'.
  rewrite Da in Da'. inversion Da'; subst a1'.
  exists c1, d1, e, a1, e1. repeat (split; [assumption|]). split; [|exact AD].
  pose proof (qua_denote_int doc e H De) as Ie.
  pose proof (den_eq_int e a1 Q1 Ie) as Ia.
  pose proof (qua_denote_int d1 e1 (wf_qua_doc_is_wf_doc d1 Wq) De1) as Ie1.
  apply den_close_int_eq; assumption.
Qed.

(* write after read, exactly: the written document denotes what the source denotes (times are integers: nothing moves) *)
Theorem qua_write_after_read_exact doc : wf_docb doc = true -> ReadWriteSpec doc (Live.read doc >>= Live.write).
Proof.
  intro H. destruct (read_write_facts doc H) as [c1 [d1 [e [a1 [e1 [R [W [_ [Wq [De [Da [De1 [Q1 [Q2 AD]]]]]]]]]]]]]].
  rewrite R. cbn [bind]. rewrite W. exists d1, e, e1. split; [reflexivity|]. repeat (split; [assumption|]). split; [|exact AD].
  destruct Q1 as [N1 [B1 [S1 M1]]]. destruct Q2 as [N2 [B2 [S2 M2]]].
  split; [|split; [|split]].
  - apply (pmatch_trans note_eq note_eq_trans _ (d_notes a1)); [exact N1|apply (pmatch_sym note_eq note_eq_sym); exact N2].
  - apply (pmatch_trans pt_eq pt_eq_trans _ (d_bpms a1)); [exact B1|apply (pmatch_sym pt_eq pt_eq_sym); exact B2].
  - apply (pmatch_trans pt_eq pt_eq_trans _ (d_svs a1)); [exact S1|apply (pmatch_sym pt_eq pt_eq_sym); exact S2].
  - destruct (chart_denote_meta _ _ Da) as [Em Lm]. rewrite Em in M1, M2.
    destruct (meta_refinesb_inv _ _ M1) as [X1 [L1 _]]. destruct (meta_refinesb_inv _ _ M2) as [X2 [L2 _]].
    apply meta_refinesb_intro; [|exact L1|exact L2].
    apply (refine_chain ref_meta_table (d_meta e) (d_meta e1) (c_meta c1)); auto.
    + exact (qua_denote_meta_simple d1 e1 De1).
    + exact (qua_denote_meta_simple doc e De).
Qed.

(* read after write after read, exactly: the chart read from the written document is the chart read from the source *)
Theorem qua_read_write_read_exact doc : wf_docb doc = true ->
  exists c1 d1 c2 a1 a2, Live.read doc = Some c1 /\ Live.write c1 = Some d1 /\ Live.read d1 = Some c2 /\
    wf_chartb false c2 = true /\ chart_denote c1 = Some a1 /\ chart_denote c2 = Some a2 /\ den_eq a1 a2.
Proof.
  intro H. destruct (read_write_facts doc H) as [c1 [d1 [e [a1 [e1 [R [W [_ [Wq [De [Da [De1 [Q1 [Q2 AD]]]]]]]]]]]]]].
  destruct (qua_read_live_ok d1 (wf_qua_doc_is_wf_doc d1 Wq)) as [c2 [R2 [S2 T2]]].
  destruct (read_specb_sound _ _ S2) as [c' [e1' [a2 [Ec [De1' [Da2 Q3]]]]]]. inversion Ec; subst c'.
  rewrite De1 in De1'. inversion De1'; subst e1'.
  exists c1, d1, c2, a1, a2. repeat (split; [assumption|]).
  destruct Q2 as [N2 [B2 [Sv2 M2]]]. destruct Q3 as [N3 [B3 [Sv3 M3]]].
  split; [|split; [|split]].
  - apply (pmatch_trans note_eq note_eq_trans _ (d_notes e1)); [apply (pmatch_sym note_eq note_eq_sym); exact N2|exact N3].
  - apply (pmatch_trans pt_eq pt_eq_trans _ (d_bpms e1)); [apply (pmatch_sym pt_eq pt_eq_sym); exact B2|exact B3].
  - apply (pmatch_trans pt_eq pt_eq_trans _ (d_svs e1)); [apply (pmatch_sym pt_eq pt_eq_sym); exact Sv2|exact Sv3].
  - destruct (chart_denote_meta _ _ Da) as [Em1 Lm1]. destruct (chart_denote_meta _ _ Da2) as [Em2 Lm2].
    rewrite Em1 in *. rewrite Em2 in *.
    destruct (meta_refinesb_inv _ _ M2) as [X2 [L2 _]]. destruct (meta_refinesb_inv _ _ M3) as [X3 _].
    apply meta_refinesb_intro; [|rewrite map_length; exact Lm1|rewrite map_length; exact Lm2].
    apply (refine_common ref_meta_table (d_meta e1) (c_meta c1) (c_meta c2)); auto.
    exact (qua_denote_meta_simple d1 e1 De1).
Qed.

(* starting from a chart: after the first write the times are integers, so the second read gives the first read's chart *)
Theorem qua_chart_second_read_exact c : wf_chartb false c = true ->
  exists d0 c1 d1 c2 a1 a2, Live.write c = Some d0 /\ Live.read d0 = Some c1 /\ Live.write c1 = Some d1 /\ Live.read d1 = Some c2 /\
    chart_denote c1 = Some a1 /\ chart_denote c2 = Some a2 /\ den_eq a1 a2.
Proof.
  intro H. destruct (qua_read_after_write c H) as [d0 [c1' [W0 [R0 [WS _]]]]].
  destruct WS as [d' [e0 [a0 [Ed [Wq _]]]]]. inversion Ed; subst d'.
  destruct (qua_read_write_read_exact d0 (wf_qua_doc_is_wf_doc d0 Wq)) as [c1 [d1 [c2 [a1 [a2 [R1 [W1 [R2 [_ [A1 [A2 Q]]]]]]]]]]].
  exists d0, c1, d1, c2, a1, a2. auto 10.
Qed.

(* ================================================================== completeness of the boolean oracles *)
Lemma perm_cons_cases {A} (y z : A) l m : Permutation (y :: l) (z :: m) ->
  (y = z /\ Permutation l m) \/ (exists l', Permutation l (z :: l') /\ Permutation m (y :: l')).
Proof.
  intro P. assert (Hz: In z (y :: l)) by (apply (Permutation_in z (Permutation_sym P)); left; reflexivity).
  destruct Hz as [E|Hz].
  - left. subst. split; [reflexivity|]. apply (Permutation_cons_inv P).
  - right. apply in_split in Hz. destruct Hz as [l1 [l2 ->]]. exists (l1 ++ l2). split.
    + apply Permutation_sym. apply Permutation_middle.
    + apply Permutation_sym. apply (Permutation_cons_inv (a := z)).
      eapply perm_trans; [|exact P]. eapply perm_trans; [apply perm_swap|]. apply perm_skip. apply Permutation_middle.
Qed.
Lemma remove1_some {A} (eqb : A -> A -> bool) x y b : In y b -> eqb x y = true -> exists b1, remove1 eqb x b = Some b1.
Proof.
  induction b as [|z b IH]; intros Hin E; [contradiction|]. simpl. destruct (eqb x z) eqn:Ez; [eauto|].
  destruct Hin as [->|Hin]; [congruence|]. destruct (IH Hin E) as [b1 ->]. eauto.
Qed.
Lemma pmatch_perm_l {A} (R : A -> A -> Prop) a a' b : Permutation a' a -> pmatch R a' b -> pmatch R a b.
Proof.
  intros P [b' [Pb F]]. destruct (Permutation_Forall2 P F) as [b'' [Pb' F']]. exists b''. split; [eapply perm_trans; eassumption|exact F'].
Qed.

Section PermEqbComplete.
  Context {A : Type} (eqb : A -> A -> bool).
  Let R (x y : A) : Prop := eqb x y = true.
  Hypothesis Rsym : forall x y, R x y -> R y x.
  Hypothesis Rtrans : forall x y z, R x y -> R y z -> R x z.

  Lemma perm_eqb_complete : forall a b, pmatch R a b -> perm_eqb eqb a b = true.
  Proof.
    induction a as [|x a IH]; intros b [b' [P F]].
    - inversion F; subst. apply Permutation_sym, Permutation_nil in P. subst. reflexivity.
    - inversion F as [|? y ? b'' Rxy F']; subst. cbn [perm_eqb].
      assert (Hy: In y b) by (apply (Permutation_in y (Permutation_sym P)); left; reflexivity).
      destruct (remove1_some eqb x y b Hy Rxy) as [b1 E1]. rewrite E1.
      destruct (remove1_perm eqb x b b1 E1) as [z [Rxz Pz]].
      apply IH.
      assert (PP: Permutation (y :: b'') (z :: b1)) by (eapply perm_trans; [apply Permutation_sym; exact P|exact Pz]).
      destruct (perm_cons_cases _ _ _ _ PP) as [[-> Pl]|[l' [Pl Pm]]].
      + exists b''. split; [apply Permutation_sym; exact Pl|exact F'].
      + apply Forall2_flip in F'. destruct (Permutation_Forall2 Pl F') as [a'' [Pa Fa]].
        inversion Fa as [|? aj ? a3 Raj Fa3]; subst.
        apply (pmatch_perm_l R a (aj :: a3) b1 (Permutation_sym Pa)).
        exists (y :: l'). split; [exact Pm|]. constructor.
        * apply (Rtrans aj z y); [exact Raj|]. apply (Rtrans z x y); [apply Rsym; exact Rxz|exact Rxy].
        * apply Forall2_flip in Fa3. exact Fa3.
  Qed.
End PermEqbComplete.

Theorem den_eqb_complete e a : den_eq e a -> den_eqb e a = true.
Proof.
  intros [N [B [S M]]]. unfold den_eqb.
  rewrite (perm_eqb_complete note_eqb note_eq_sym note_eq_trans _ _ N).
  rewrite (perm_eqb_complete pt_eqb pt_eq_sym pt_eq_trans _ _ B).
  rewrite (perm_eqb_complete pt_eqb pt_eq_sym pt_eq_trans _ _ S). rewrite M. reflexivity.
Qed.
(* the reader oracle decides its specification *)
Theorem read_specb_complete doc out : ReadSpec doc out -> read_specb doc out = true.
Proof.
  intros [c [e [a [-> [E1 [E2 Q]]]]]]. unfold read_specb. rewrite E1, E2. apply den_eqb_complete. exact Q.
Qed.
(* the write-after-read oracle: sound and complete for ReadWriteSpec *)
Theorem rw_specb_sound doc out : rw_specb doc out = true -> ReadWriteSpec doc out.
Proof.
  unfold rw_specb. destruct out as [d|]; [|discriminate]. intro H. apply andb_true_iff in H. destruct H as [W H].
  destruct (qua_denote doc) as [e|] eqn:E1; [|discriminate]. destruct (qua_denote d) as [a|] eqn:E2; [|discriminate].
  do 4 (apply andb_true_iff in H; destruct H as [H ?]).
  exists d, e, a. repeat (split; [first [reflexivity|assumption]|]). split; [|assumption].
  split; [apply perm_eqb_sound; exact H|]. split; [apply perm_eqb_sound; assumption|]. split; [apply perm_eqb_sound; assumption|assumption].
Qed.
Theorem rw_specb_complete doc out : ReadWriteSpec doc out -> rw_specb doc out = true.
Proof.
  intros [d [e [a [-> [W [E1 [E2 [[N [B [S M]]] AD]]]]]]]]. unfold rw_specb. rewrite W, E1, E2.
  rewrite (perm_eqb_complete note_eqb note_eq_sym note_eq_trans _ _ N).
  rewrite (perm_eqb_complete pt_eqb pt_eq_sym pt_eq_trans _ _ B).
  rewrite (perm_eqb_complete pt_eqb pt_eq_sym pt_eq_trans _ _ S). rewrite M, AD. reflexivity.
Qed.

(* ---- the writer oracle compares record i with row i: complete for the POSITIONAL relation ---- *)
Definition den_close_pos (e a : den) : Prop :=
  Forall2 note_close (d_notes e) (d_notes a) /\ Forall2 pt_close (d_bpms e) (d_bpms a) /\
  Forall2 pt_close (d_svs e) (d_svs a) /\ meta_refinesb (d_meta e) (d_meta a) = true.
Definition WriteSpecPos (c : chart) (out : option ytree) : Prop :=
  exists d e a, out = Some d /\ wf_qua_docb d = true /\ qua_denote d = Some e /\ chart_denote c = Some a
                /\ den_close_pos e a /\ all_declared (d_meta e) = true.
Definition WriteReadSpecPos (c : chart) (out : option chart) : Prop :=
  exists c' e a, out = Some c' /\ chart_denote c = Some e /\ chart_denote c' = Some a /\ den_close_pos e a.

Lemma Forall2_all2 {A B} (p : A -> B -> bool) (P : A -> B -> Prop) :
  (forall a b, P a b -> p a b = true) -> forall l m, Forall2 P l m -> all2 p l m = true.
Proof. intros HP l m H. induction H as [|x y l m Hxy _ IH]; [reflexivity|]. simpl. rewrite (HP _ _ Hxy), IH. reflexivity. Qed.
Lemma note_closeb_complete a b : note_close a b -> note_closeb a b = true.
Proof.
  intros [L [S [E K]]]. unfold note_closeb. rewrite L, Z.eqb_refl, K. rewrite (proj2 (lt1_true _ _) S). cbn [andb]. rewrite andb_true_r.
  destruct (n_end a), (n_end b); try contradiction; auto. apply lt1_true. exact E.
Qed.
Lemma pt_closeb_complete a b : pt_close a b -> pt_closeb a b = true.
Proof. intros [A B]. unfold pt_closeb. rewrite (proj2 (lt1_true _ _) A). apply Qeq_bool_iff. exact B. Qed.
Lemma den_closeb_iff_pos e a : den_closeb e a = true <-> den_close_pos e a.
Proof.
  unfold den_closeb, den_close_pos. split.
  - intro H. repeat (apply andb_true_iff in H; destruct H as [H ?]).
    split; [eapply all2_Forall2; [apply note_closeb_sound|exact H]|].
    split; [eapply all2_Forall2; [apply pt_closeb_sound|assumption]|].
    split; [eapply all2_Forall2; [apply pt_closeb_sound|assumption]|assumption].
  - intros [N [B [S M]]].
    rewrite (Forall2_all2 note_closeb note_close note_closeb_complete _ _ N).
    rewrite (Forall2_all2 pt_closeb pt_close pt_closeb_complete _ _ B).
    rewrite (Forall2_all2 pt_closeb pt_close pt_closeb_complete _ _ S). rewrite M. reflexivity.
Qed.
Theorem write_specb_iff_pos c out : write_specb c out = true <-> WriteSpecPos c out.
Proof.
  unfold write_specb, WriteSpecPos. split.
  - destruct out as [d|]; [|discriminate]. intro H. apply andb_true_iff in H. destruct H as [W H].
    destruct (qua_denote d) as [e|] eqn:E1; [|discriminate]. destruct (chart_denote c) as [a|] eqn:E2; [|discriminate].
    apply andb_true_iff in H. destruct H as [H1 H2]. exists d, e, a. repeat (split; [first [reflexivity|assumption]|]).
    split; [apply den_closeb_iff_pos; exact H1|exact H2].
  - intros [d [e [a [-> [W [E1 [E2 [Q AD]]]]]]]]. rewrite W, E1, E2, AD. rewrite (proj2 (den_closeb_iff_pos e a) Q). reflexivity.
Qed.
Theorem wr_specb_iff_pos c out : wr_specb c out = true <-> WriteReadSpecPos c out.
Proof.
  unfold wr_specb, WriteReadSpecPos. split.
  - destruct out as [c'|]; [|discriminate].
    destruct (chart_denote c) as [e|] eqn:E1; [|discriminate]. destruct (chart_denote c') as [a|] eqn:E2; [|discriminate].
    intro H. exists c', e, a. repeat (split; [first [reflexivity|assumption]|]). apply den_closeb_iff_pos. exact H.
  - intros [c' [e [a [-> [E1 [E2 Q]]]]]]. rewrite E1, E2. apply den_closeb_iff_pos. exact Q.
Qed.
(* the positional relation implies the declarative one (records up to order) ... *)
Lemma den_close_pos_close e a : den_close_pos e a -> den_close e a.
Proof.
  intros [N [B [S M]]]. split; [exists (d_notes a); split; [apply Permutation_refl|exact N]|].
  split; [exists (d_bpms a); split; [apply Permutation_refl|exact B]|].
  split; [exists (d_svs a); split; [apply Permutation_refl|exact S]|exact M].
Qed.

(* ... but not conversely: a correct document whose records are in another order than the chart's rows satisfies the
   declarative WriteSpec and is rejected by write_specb (the real writer keeps the order: qua_write_live_ok) *)
Definition wit_two_hits : chart :=
  let c := wit_conv_chart false false in
  mkChart (mkFrame [N_offset; N_column; N_keysounds]
             [[(N_offset, YInt 0); (N_column, YInt 0); (N_keysounds, YList [])];
              [(N_offset, YInt 10); (N_column, YInt 1); (N_keysounds, YList [])]])
          (c_holds c) (c_bpms c) (c_svs c) (c_meta c).
Definition swap_notes (d : ytree) : ytree :=
  match d with
  | YMap kvs => YMap (map (fun kv => if fst kv =? K_HitObjects
                                     then (fst kv, match snd kv with YList l => YList (rev l) | v => v end) else kv) kvs)
  | _ => d
  end.
Definition wit_swapped : option ytree := option_map swap_notes (Live.write wit_two_hits).
Definition the {A} (dflt : A) (o : option A) : A := match o with Some x => x | None => dflt end.

Theorem write_specb_complete_refuted :
  wf_chartb false wit_two_hits = true /\ WriteSpec wit_two_hits wit_swapped /\ write_specb wit_two_hits wit_swapped = false /\
  write_specb wit_two_hits (Live.write wit_two_hits) = true.
Proof.
  split; [vm_compute; reflexivity|]. split; [|split; vm_compute; reflexivity].
  set (d := the YNull wit_swapped). set (e := the (mkDen [] [] [] []) (qua_denote d)).
  set (a := the (mkDen [] [] [] []) (chart_denote wit_two_hits)).
  exists d, e, a. split; [vm_compute; reflexivity|]. split; [vm_compute; reflexivity|]. split; [vm_compute; reflexivity|].
  split; [vm_compute; reflexivity|]. split; [|vm_compute; reflexivity].
  split; [|split; [|split]].
  - exists (rev (d_notes a)). split; [apply Permutation_rev|].
    apply (all2_Forall2 note_closeb note_close note_closeb_sound). vm_compute. reflexivity.
  - exists (d_bpms a). split; [apply Permutation_refl|].
    apply (all2_Forall2 pt_closeb pt_close pt_closeb_sound). vm_compute. reflexivity.
  - exists (d_svs a). split; [apply Permutation_refl|].
    apply (all2_Forall2 pt_closeb pt_close pt_closeb_sound). vm_compute. reflexivity.
  - vm_compute. reflexivity.
Qed.

(* non-vacuity of the exactness theorems: a document with omitted keys in mixed order *)
Example exact_nontrivial :
  wf_docb wit_clean = true /\ rw_specb wit_clean (Live.read wit_clean >>= Live.write) = true /\
  match Live.read wit_clean, Live.read wit_clean >>= Live.write >>= Live.read with
  | Some c1, Some c2 => match chart_denote c1, chart_denote c2 with Some a1, Some a2 => den_eqb a1 a2 | _, _ => false end
  | _, _ => false end = true.
Proof. vm_compute. repeat split. Qed.
