(* Composition: hold buffer = per-column pairing (ojn_ln_pairing), level parsing, and the glue between
   read_pkgs_fixed (sort / dedup / dict) and the integration theorem. *)
From Coq Require Import ZArith QArith Qround List Bool Lia Lqa Permutation.
From RV Require Import Base.PyNum Base.Bytes Formats.O2J Formats.O2JSpec Generated.Tables
  Proofs.O2JProofs Proofs.O2JHeaderProofs Proofs.O2JParseProofs.
Import ListNotations.
Open Scope Z_scope.

(* ================================================================== 1. the hold buffer as a finite map *)
Fixpoint hb_get (hb : hbuf) (c : Z) : option (Q * Z * Z) :=
  match hb with [] => None | (c', v) :: r => if c' =? c then Some v else hb_get r c end.
Definition hb_nodup (hb : hbuf) : Prop := NoDup (map fst hb).

Lemma hb_get_filter hb c c' :
  hb_get (filter (fun p => negb (fst p =? c)) hb) c' = if c =? c' then None else hb_get hb c'.
Proof.
  induction hb as [|[k v] r IH]; cbn [filter hb_get fst]; [destruct (c =? c'); reflexivity|].
  destruct (Z.eqb_spec k c) as [E|E]; cbn [negb].
  - subst k. rewrite IH. destruct (Z.eqb_spec c c'); reflexivity.
  - cbn [hb_get]. rewrite IH. destruct (Z.eqb_spec k c'), (Z.eqb_spec c c'); try reflexivity. lia.
Qed.

Lemma hb_get_set hb c v c' : hb_get (hb_set hb c v) c' = if c =? c' then Some v else hb_get hb c'.
Proof. unfold hb_set. cbn [hb_get]. rewrite hb_get_filter. destruct (c =? c'); reflexivity. Qed.

Lemma hb_nodup_set hb c v : hb_nodup hb -> hb_nodup (hb_set hb c v).
Proof.
  intro H. unfold hb_nodup, hb_set. cbn [map fst]. constructor.
  - intro I. apply in_map_iff in I as ((k & w) & E & I). cbn in E. subst k. apply filter_In in I as [_ I].
    cbn in I. rewrite Z.eqb_refl in I. discriminate.
  - unfold hb_nodup in H. induction hb as [|[k w] r IH]; cbn [filter map]; [constructor|].
    inversion H as [|? ? Hn Hr]; subst. destruct (negb (fst (k, w) =? c)); [|apply IH; exact Hr].
    cbn [map fst]. constructor; [|apply IH; exact Hr].
    intro I. apply Hn. apply in_map_iff in I as (x & E & I). apply filter_In in I as [I _].
    apply in_map_iff. exists x. split; assumption.
Qed.

Lemma hb_get_notin hb c : ~ In c (map fst hb) -> hb_get hb c = None.
Proof.
  induction hb as [|[k v] r IH]; intro H; [reflexivity|]. cbn [hb_get]. cbn [map fst In] in H.
  destruct (Z.eqb_spec k c); [exfalso; apply H; auto|]. apply IH. intro; apply H; auto.
Qed.

Lemma hb_pop_spec hb c v : hb_nodup hb -> hb_get hb c = Some v ->
  exists hb1, hb_pop hb c = Some (v, hb1) /\ hb_nodup hb1
    /\ forall c', hb_get hb1 c' = if c =? c' then None else hb_get hb c'.
Proof.
  induction hb as [|[k w] r IH]; intros N G; [discriminate|].
  unfold hb_nodup in N. cbn [map fst] in N. inversion N as [|? ? Hn Hr]; subst.
  cbn [hb_get] in G. cbn [hb_pop]. destruct (Z.eqb_spec k c) as [E|E].
  - subst k. injection G as <-. exists r. split; [reflexivity|]. split; [exact Hr|].
    intro c'. cbn [hb_get]. destruct (Z.eqb_spec c c'); [subst; apply hb_get_notin; exact Hn|reflexivity].
  - destruct (IH Hr G) as (hb1 & P & N1 & G1). rewrite P. exists ((k, w) :: hb1). split; [reflexivity|]. split.
    + unfold hb_nodup. cbn [map fst]. constructor; [|exact N1].
      intro I. assert (hb_get hb1 k <> None).
      { clear - I. induction hb1 as [|[a b] t IHt]; [destruct I|]. cbn [hb_get]. cbn [map fst In] in I.
        destruct (Z.eqb_spec a k); [discriminate|]. apply IHt. destruct I; [contradiction|assumption]. }
      rewrite G1 in H. destruct (Z.eqb_spec c k); [congruence|]. rewrite (hb_get_notin r k Hn) in H. congruence.
    + intro c'. cbn [hb_get]. rewrite G1. destruct (Z.eqb_spec k c'), (Z.eqb_spec c c'); try reflexivity. lia.
Qed.

Lemma hb_all_none_nil hb : (forall c, hb_get hb c = None) -> hb = [].
Proof. destruct hb as [|[k v] r]; [reflexivity|]. intro H. specialize (H k). cbn in H. rewrite Z.eqb_refl in H. discriminate. Qed.

(* ================================================================== 2. flat walk and per-column pairing *)
Definition tev : Type := Z * (Q * Z * Z * Z).

Fixpoint walk_flat (l : list tev) (hb : hbuf) : option (list ev * hbuf) :=
  match l with
  | [] => Some ([], hb)
  | (col, (p, vol, pan, kind)) :: r =>
      if kind =? ref_kind_tap then
        match walk_flat r hb with Some (es, hb') => Some (EHit p col vol pan :: es, hb') | None => None end
      else if kind =? ref_kind_head then walk_flat r (hb_set hb col (p, vol, pan))
      else if kind =? ref_kind_tail then
        match hb_pop hb col with
        | None => None
        | Some ((hm, hvol, hpan), hb1) =>
            match walk_flat r hb1 with Some (es, hb') => Some (EHold hm p col hvol hpan :: es, hb') | None => None end
        end
      else walk_flat r hb
  end.

Lemma hb_walk_flat col evs : forall hb, hb_walk col evs hb = walk_flat (map (pair col) evs) hb.
Proof.
  induction evs as [|[[[p vol] pan] kind] r IH]; intro hb; [reflexivity|]. cbn [hb_walk map walk_flat].
  destruct (kind =? ref_kind_tap); [rewrite IH; reflexivity|].
  destruct (kind =? ref_kind_head); [apply IH|].
  destruct (kind =? ref_kind_tail); [|apply IH].
  destruct (hb_pop hb col) as [[[[hm hvol] hpan] hb1]|]; [rewrite IH|]; reflexivity.
Qed.

Lemma walk_flat_app l1 : forall l2 hb,
  walk_flat (l1 ++ l2) hb =
  match walk_flat l1 hb with
  | Some (e1, hb1) => match walk_flat l2 hb1 with Some (e2, hb2) => Some (e1 ++ e2, hb2) | None => None end
  | None => None
  end.
Proof.
  induction l1 as [|[col [[[p vol] pan] kind]] r IH]; intros l2 hb.
  - cbn [app walk_flat]. destruct (walk_flat l2 hb) as [[e2 hb2]|]; reflexivity.
  - cbn [app walk_flat].
    destruct (kind =? ref_kind_tap).
    { rewrite IH. destruct (walk_flat r hb) as [[e1 hb1]|]; [|reflexivity].
      destruct (walk_flat l2 hb1) as [[e2 hb2]|]; reflexivity. }
    destruct (kind =? ref_kind_head); [apply IH|].
    destruct (kind =? ref_kind_tail); [|apply IH].
    destruct (hb_pop hb col) as [[[[hm hvol] hpan] hb1]|]; [|reflexivity].
    rewrite IH. destruct (walk_flat r hb1) as [[e1 hb1']|]; [|reflexivity].
    destruct (walk_flat l2 hb1') as [[e2 hb2]|]; reflexivity.
Qed.

(* the events of column c, in file order *)
Definition proj (c : Z) (l : list tev) : list (Q * Z * Z * Z) :=
  flat_map (fun x => if fst x =? c then [snd x] else []) l.

(* pairing inside one column, at the level of events (positions, not yet times) *)
Fixpoint pair_ev (c : Z) (evs : list (Q * Z * Z * Z)) (open : option (Q * Z * Z)) : list ev :=
  match evs with
  | [] => []
  | (p, vol, pan, kind) :: r =>
      if kind =? ref_kind_tap then EHit p c vol pan :: pair_ev c r open
      else if kind =? ref_kind_head then pair_ev c r (Some (p, vol, pan))
      else if kind =? ref_kind_tail then
        match open with
        | Some (hp, hvol, hpan) => EHold hp p c hvol hpan :: pair_ev c r None
        | None => pair_ev c r None
        end
      else pair_ev c r open
  end.

Definition is_some {A} (o : option A) : bool := match o with Some _ => true | None => false end.

Lemma flat_map_ext_in {A B} (f g : A -> list B) l : (forall a, In a l -> f a = g a) -> flat_map f l = flat_map g l.
Proof.
  induction l as [|a r IH]; intro H; [reflexivity|]. cbn [flat_map].
  rewrite (H a (or_introl eq_refl)), IH; [reflexivity|]. intros b Hb. apply H. right. exact Hb.
Qed.

Lemma flat_map_nil {A B} (l : list A) : flat_map (fun _ => @nil B) l = [].
Proof. induction l; auto. Qed.

Lemma perm_insert_col {B} (e : B) (X : Z -> list B) c0 cs : NoDup cs -> In c0 cs ->
  Permutation (flat_map (fun c => if c =? c0 then e :: X c else X c) cs) (e :: flat_map X cs).
Proof.
  induction cs as [|a r IH]; intros N I; [destruct I|]. inversion N as [|? ? Hn Hr]; subst. cbn [flat_map].
  destruct (Z.eqb_spec a c0) as [E|E].
  - subst a. cbn [app]. apply perm_skip. apply Permutation_app_head.
    rewrite (flat_map_ext_in (fun c => if c =? c0 then e :: X c else X c) X); [reflexivity|].
    intros c Hc. destruct (Z.eqb_spec c c0); [subst; contradiction|reflexivity].
  - destruct I as [I|I]; [contradiction|]. specialize (IH Hr I).
    apply perm_trans with (X a ++ e :: flat_map X r); [apply Permutation_app_head; exact IH|].
    apply Permutation_sym, Permutation_middle.
Qed.

Section Pairing.
Variable cols : list Z.
Hypothesis cols_nodup : NoDup cols.

(* ojn_ln_pairing, core: the reader's single hold buffer walked over the file order produces, up to order,
   exactly the per-column head->tail pairing; it never fails on well-paired columns and ends empty *)
Lemma walk_flat_pairing l : forall hb,
  hb_nodup hb ->
  Forall (fun x => In (fst x) cols) l ->
  (forall c, In c cols -> pairing_ok (proj c l) (is_some (hb_get hb c)) = true) ->
  (forall c, ~ In c cols -> hb_get hb c = None) ->
  exists E hb', walk_flat l hb = Some (E, hb')
    /\ Permutation E (flat_map (fun c => pair_ev c (proj c l) (hb_get hb c)) cols)
    /\ hb' = [].
Proof.
  induction l as [|[c0 [[[p vol] pan] kind]] r IH]; intros hb N Hin Hok Hout.
  - exists [], hb. cbn [walk_flat]. split; [reflexivity|]. split.
    + rewrite (flat_map_ext_in _ (fun _ => [])); [rewrite flat_map_nil; constructor|reflexivity].
    + apply hb_all_none_nil. intro c. destruct (in_dec Z.eq_dec c cols) as [I|I]; [|apply Hout; exact I].
      specialize (Hok c I). cbn [proj flat_map pairing_ok] in Hok. destruct (hb_get hb c); [discriminate|reflexivity].
  - inversion Hin as [|? ? Hc0 Hin']; subst. cbn [fst] in Hc0.
    assert (Pr : forall c, proj c ((c0, (p, vol, pan, kind)) :: r) = if c0 =? c then (p, vol, pan, kind) :: proj c r else proj c r).
    { intro c. unfold proj. cbn [flat_map fst snd]. destruct (c0 =? c); reflexivity. }
    pose proof (Hok c0 Hc0) as Hok0. rewrite Pr, Z.eqb_refl in Hok0. cbn [pairing_ok] in Hok0.
    cbn [walk_flat].
    destruct (kind =? ref_kind_tap) eqn:K0.
    { destruct (IH hb N Hin') as (E & hb' & W & P & Hn); auto.
      { intros c Hc. specialize (Hok c Hc). rewrite Pr in Hok. destruct (Z.eqb_spec c0 c); [subst c; exact Hok0|exact Hok]. }
      rewrite W. eexists _, hb'. split; [reflexivity|]. split; [|exact Hn].
      rewrite (flat_map_ext_in _ (fun c => if c =? c0 then EHit p c0 vol pan :: pair_ev c (proj c r) (hb_get hb c)
                                           else pair_ev c (proj c r) (hb_get hb c))).
      2:{ intros c _. rewrite Pr. rewrite (Z.eqb_sym c c0). destruct (Z.eqb_spec c0 c); [subst c; cbn [pair_ev]; rewrite K0|]; reflexivity. }
      apply perm_trans with (EHit p c0 vol pan :: flat_map (fun c => pair_ev c (proj c r) (hb_get hb c)) cols).
      - apply perm_skip. exact P.
      - apply Permutation_sym. apply (perm_insert_col (EHit p c0 vol pan) (fun c => pair_ev c (proj c r) (hb_get hb c)) c0 cols cols_nodup Hc0). }
    destruct (kind =? ref_kind_head) eqn:K2.
    { apply andb_true_iff in Hok0 as [_ Hok0].
      destruct (IH (hb_set hb c0 (p, vol, pan)) (hb_nodup_set _ _ _ N) Hin') as (E & hb' & W & P & Hn).
      { intros c Hc. rewrite hb_get_set. specialize (Hok c Hc). rewrite Pr in Hok.
        destruct (Z.eqb_spec c0 c); [subst c; exact Hok0|exact Hok]. }
      { intros c Hc. rewrite hb_get_set. destruct (Z.eqb_spec c0 c); [subst; contradiction|apply Hout; exact Hc]. }
      rewrite W. exists E, hb'. split; [reflexivity|]. split; [|exact Hn].
      rewrite (flat_map_ext_in _ (fun c => pair_ev c (proj c r) (hb_get (hb_set hb c0 (p, vol, pan)) c))); [exact P|].
      intros c _. rewrite Pr, hb_get_set. destruct (Z.eqb_spec c0 c); [subst c; cbn [pair_ev]; rewrite K0, K2|]; reflexivity. }
    destruct (kind =? ref_kind_tail) eqn:K3; [|discriminate].
    apply andb_true_iff in Hok0 as [Hopen Hok0].
    destruct (hb_get hb c0) as [[[hm hvol] hpan]|] eqn:G; [|discriminate].
    destruct (hb_pop_spec hb c0 _ N G) as (hb1 & Pp & N1 & G1). rewrite Pp.
    destruct (IH hb1 N1 Hin') as (E & hb' & W & P & Hn).
    { intros c Hc. rewrite G1. specialize (Hok c Hc). rewrite Pr in Hok.
      destruct (Z.eqb_spec c0 c); [subst c; exact Hok0|exact Hok]. }
    { intros c Hc. rewrite G1. destruct (Z.eqb_spec c0 c); [reflexivity|apply Hout; exact Hc]. }
    rewrite W. eexists _, hb'. split; [reflexivity|]. split; [|exact Hn].
    rewrite (flat_map_ext_in _ (fun c => if c =? c0 then EHold hm p c0 hvol hpan :: pair_ev c (proj c r) (hb_get hb1 c)
                                         else pair_ev c (proj c r) (hb_get hb1 c))).
    2:{ intros c _. rewrite Pr, G1. rewrite (Z.eqb_sym c c0).
        destruct (Z.eqb_spec c0 c); [subst c; cbn [pair_ev]; rewrite K0, K2, K3, G|]; reflexivity. }
    apply perm_trans with (EHold hm p c0 hvol hpan :: flat_map (fun c => pair_ev c (proj c r) (hb_get hb1 c)) cols).
    + apply perm_skip. exact P.
    + apply Permutation_sym. apply (perm_insert_col _ (fun c => pair_ev c (proj c r) (hb_get hb1 c)) c0 cols cols_nodup Hc0).
Qed.
End Pairing.

(* ================================================================== 3. sorting glue *)
Open Scope Q_scope.

Lemma Qle_bool_total a b : Qle_bool a b = false -> b <= a.
Proof. intro H. apply Qle_bool_false in H. apply Qlt_le_weak. exact H. Qed.

Lemma insert_by_perm {A} (key : A -> Q) x l : Permutation (insert_by key x l) (x :: l).
Proof.
  induction l as [|y r IH]; cbn [insert_by]; [reflexivity|].
  destruct (Qle_bool (key x) (key y)); [reflexivity|].
  apply perm_trans with (y :: x :: r); [apply perm_skip; exact IH|apply perm_swap].
Qed.
Lemma sort_by_perm {A} (key : A -> Q) l : Permutation (sort_by key l) l.
Proof.
  induction l as [|x r IH]; [reflexivity|]. cbn [sort_by fold_right].
  apply perm_trans with (x :: sort_by key r); [apply insert_by_perm|apply perm_skip; exact IH].
Qed.

Fixpoint sorted_key {A} (key : A -> Q) (l : list A) : Prop :=
  match l with [] => True | x :: r => Forall (fun y => key x <= key y) r /\ sorted_key key r end.

Lemma insert_by_sorted {A} (key : A -> Q) x l : sorted_key key l -> sorted_key key (insert_by key x l).
Proof.
  induction l as [|y r IH]; intro S; cbn [insert_by]; [cbn; auto|].
  destruct S as [Sy Sr]. destruct (Qle_bool (key x) (key y)) eqn:E.
  - apply Qle_bool_iff in E. cbn [sorted_key]. split; [|split; assumption].
    constructor; [exact E|]. eapply Forall_impl; [|exact Sy]. intros a Ha. cbn beta in Ha. apply Qle_trans with (key y); auto.
  - apply Qle_bool_total in E. cbn [sorted_key]. split; [|apply IH; exact Sr].
    apply (Permutation_Forall (Permutation_sym (insert_by_perm key x r))). constructor; assumption.
Qed.
Lemma sort_by_sorted {A} (key : A -> Q) l : sorted_key key (sort_by key l).
Proof. induction l as [|x r IH]; [exact I|]. cbn [sort_by fold_right]. apply insert_by_sorted. exact IH. Qed.

Definition tempo_of (e : ev) : list (Q * Q) := match e with EBpm m b => [(m, b)] | _ => [] end.

Lemma insert_front (m b : Q) L : Forall (fun t => m <= fst t) L -> insert_by fst (m, b) L = (m, b) :: L.
Proof.
  destruct L as [|t r]; [reflexivity|]. intro H. inversion H as [|? ? H1 _]; subst. cbn [insert_by fst].
  apply Qle_bool_iff in H1. rewrite H1. reflexivity.
Qed.

Lemma tempo_of_key e t : In t (tempo_of e) -> fst t = key_of e.
Proof. destruct e; cbn; intro H; try contradiction. destruct H as [<-|[]]. reflexivity. Qed.

Lemma tempo_insert x S : sorted_key key_of S ->
  flat_map tempo_of (insert_by key_of x S)
  = match x with EBpm m b => insert_by fst (m, b) (flat_map tempo_of S) | _ => flat_map tempo_of S end.
Proof.
  induction S as [|z S' IH]; intro Hs.
  - destruct x; reflexivity.
  - destruct Hs as [Hz Hs']. cbn [insert_by]. destruct (Qle_bool (key_of x) (key_of z)) eqn:E.
    + cbn [flat_map]. destruct x as [m b| | |]; try reflexivity. cbn [tempo_of app].
      symmetry. apply insert_front. apply Qle_bool_iff in E. cbn [key_of ev_measure] in E.
      apply Forall_forall. intros t Ht. apply in_app_or in Ht as [Ht|Ht].
      * rewrite (tempo_of_key z t Ht). exact E.
      * apply in_flat_map in Ht as (e & He & Ht). rewrite (tempo_of_key e t Ht).
        rewrite Forall_forall in Hz. apply Qle_trans with (key_of z); auto.
    + cbn [flat_map]. rewrite (IH Hs'). destruct x as [m b| | |]; try reflexivity.
      destruct z as [mz bz| | |]; cbn [tempo_of app]; try reflexivity.
      cbn [insert_by fst]. cbn [key_of ev_measure] in E. rewrite E. reflexivity.
Qed.

Lemma tempo_sort l : flat_map tempo_of (sort_by key_of l) = sort_by fst (flat_map tempo_of l).
Proof.
  induction l as [|x r IH]; [reflexivity|]. cbn [sort_by fold_right].
  change (fold_right (insert_by key_of) [] r) with (sort_by key_of r).
  rewrite tempo_insert by apply sort_by_sorted. rewrite IH.
  destruct x; reflexivity.
Qed.

(* ---- sorted set of note measures ---- *)
Lemma dedup_adj_in l : forall x, In x (dedup_adj l) -> In x l.
Proof.
  induction l as [|a r IH]; intros x H; [exact H|]. cbn [dedup_adj] in H. destruct r as [|b r'].
  - exact H.
  - destruct (Qeq_bool a b); [right; apply IH; exact H|].
    destruct H as [H|H]; [left; exact H|right; apply IH; exact H].
Qed.

Lemma dedup_adj_sorted l : sorted_q l -> sorted_q (dedup_adj l).
Proof.
  induction l as [|a r IH]; intro S; [exact I|]. destruct S as [Sa Sr]. cbn [dedup_adj]. destruct r as [|b r'].
  - cbn. auto.
  - destruct (Qeq_bool a b); [apply IH; exact Sr|].
    cbn [sorted_q]. split; [|apply IH; exact Sr].
    apply Forall_forall. intros x Hx. apply dedup_adj_in in Hx. rewrite Forall_forall in Sa. apply Sa. exact Hx.
Qed.

Lemma dedup_adj_complete l : forall m, In m l -> exists k, In k (dedup_adj l) /\ k == m.
Proof.
  induction l as [|a r IH]; intros m H; [destruct H|]. cbn [dedup_adj]. destruct r as [|b r'].
  - destruct H as [<-|[]]. exists a. split; [left; reflexivity|reflexivity].
  - destruct (Qeq_bool a b) eqn:E.
    + destruct H as [<-|H]; [|apply IH; exact H].
      destruct (IH b (or_introl eq_refl)) as (k & Hk & Ek). exists k. split; [exact Hk|].
      apply Qeq_bool_iff in E. rewrite Ek, E. reflexivity.
    + destruct H as [<-|H]; [exists a; split; [left; reflexivity|reflexivity]|].
      destruct (IH m H) as (k & Hk & Ek). exists k. split; [right; exact Hk|exact Ek].
Qed.

Lemma sorted_key_id_sorted_q l : sorted_key (fun x : Q => x) l -> sorted_q l.
Proof. induction l as [|a r IH]; intro S; [exact I|]. destruct S as [A B]. split; [exact A|apply IH; exact B]. Qed.

Definition meas_of (e : ev) : list Q :=
  match e with EHit m _ _ _ => [m] | EHold m tm _ _ _ => [m; tm] | _ => [] end.

Lemma note_measures_spec notes :
  sorted_q (note_measures_of notes)
  /\ forall e m, In e notes -> In m (meas_of e) -> exists k, In k (note_measures_of notes) /\ k == m.
Proof.
  unfold note_measures_of. change (fun e => match e with EHit m _ _ _ => [m] | EHold m tm _ _ _ => [m; tm] | _ => [] end) with meas_of.
  split.
  - apply dedup_adj_sorted. apply sorted_key_id_sorted_q. apply sort_by_sorted.
  - intros e m He Hm. apply dedup_adj_complete.
    apply (Permutation_in _ (Permutation_sym (sort_by_perm (fun x => x) _))).
    apply in_flat_map. exists e. split; assumption.
Qed.

(* ================================================================== 4. read_pkgs_fixed = integration *)
Definition reduced (q : Q) : Prop := Qred q = q.
Lemma Qred_reduced q : reduced (Qred q).
Proof. unfold reduced. apply Qred_complete. apply Qred_correct. Qed.
Lemma reduced_eq q r : reduced q -> q == r -> q = Qred r.
Proof. intros H E. rewrite <- H. apply Qred_complete. exact E. Qed.

Lemma advance_done s bm bv r s' : advance s bm bv r = Some s' ->
  Forall reduced (sw_done s) -> Forall reduced (sw_done s').
Proof.
  unfold advance. destruct (qdiv_opt _ _) as [x|]; [|discriminate]. intros H F.
  assert (E : sw_done s' = sw_done s ++ [Qred (sw_offset s + min_to_msec x)]).
  { injection H as H. rewrite <- H. reflexivity. }
  rewrite E. apply Forall_app. split; [exact F|]. constructor; [apply Qred_reduced|constructor].
Qed.
Lemma while_fixed_done rest : forall nm s s', while_fixed rest nm s = Some s' ->
  Forall reduced (sw_done s) -> Forall reduced (sw_done s').
Proof.
  induction rest as [|[bm bv] r IH]; intros nm s s' H F; cbn [while_fixed] in H.
  - injection H as <-. exact F.
  - destruct (Qle_bool bm nm); [|injection H as <-; exact F].
    destruct (advance s bm bv r) as [s1|] eqn:A; [|discriminate].
    apply (IH nm s1 s' H). apply (advance_done _ _ _ _ _ A F).
Qed.
Lemma tail_fixed_done rest : forall s s', tail_fixed rest s = Some s' ->
  Forall reduced (sw_done s) -> Forall reduced (sw_done s').
Proof.
  induction rest as [|[bm bv] r IH]; intros s s' H F; cbn [tail_fixed] in H.
  - injection H as <-. exact F.
  - destruct (advance s bm bv r) as [s1|] eqn:A; [|discriminate].
    apply (IH s1 s' H). apply (advance_done _ _ _ _ _ A F).
Qed.
Lemma sweep_fixed_reduced nms : forall s dict s' dict', sweep_fixed nms s dict = Some (s', dict') ->
  Forall reduced (sw_done s) -> Forall (fun kv => reduced (snd kv)) dict ->
  Forall reduced (sw_done s') /\ Forall (fun kv => reduced (snd kv)) dict'.
Proof.
  induction nms as [|nm r IH]; intros s dict s' dict' H F D; cbn [sweep_fixed] in H.
  - injection H as <- <-. auto.
  - destruct (while_fixed (sw_rest s) nm s) as [s1|] eqn:W; [|discriminate].
    destruct (qdiv_opt _ _) as [x|]; [|discriminate].
    apply (IH _ _ _ _ H).
    + apply (while_fixed_done _ _ _ _ W F).
    + apply Forall_app. split; [exact D|]. constructor; [apply Qred_reduced|constructor].
Qed.

Section Level.
Variable init : Q.
Variable T : list (Q * Q).          (* the tempo events, sorted by position *)
Hypothesis init_nz : ~ init == 0.
Hypothesis T_nz : bpms_nonzero T.
Hypothesis T_sorted : sorted_pos 0 T.

Definition time (p : Q) : Q := ojn_time init T p.

Lemma time_compat p q : p == q -> time p == time q.
Proof. intro H. unfold time, ojn_time. apply ojn_time_go_compat; try reflexivity. exact H. Qed.

Definition hit_row (e : ev) : list hitrow :=
  match e with EHit m c v p => [mkHit c (Qred (time m)) v p] | _ => [] end.
Definition hold_row (e : ev) : list holdrow :=
  match e with EHold m tm c v p => [mkHold c (Qred (time m)) (Qred (time tm - time m)) v p] | _ => [] end.

Definition dict_good (dict : list (Q * Q)) : Prop := Forall (fun kv => snd kv = Qred (time (fst kv))) dict.

Lemma dict_get_good dict : dict_good dict -> forall m, (exists k, In k (map fst dict) /\ k == m) ->
  dict_get dict m = Some (Qred (time m)).
Proof.
  induction dict as [|[k v] r IH]; intros G m (k0 & Hk & Ek); [destruct Hk|].
  inversion G as [|? ? G1 G2]; subst. cbn [fst snd] in G1. cbn [dict_get].
  destruct (Qeq_bool k m) eqn:E.
  - apply Qeq_bool_iff in E. rewrite G1. f_equal. apply Qred_complete. apply time_compat. exact E.
  - apply IH; [exact G2|]. exists k0. split; [|exact Ek]. cbn [map fst In] in Hk. destruct Hk as [<-|Hk]; [|exact Hk].
    apply Qeq_bool_false_neq in E. contradiction.
Qed.

Lemma assign_notes_good dict notes : dict_good dict ->
  (forall e m, In e notes -> In m (meas_of e) -> exists k, In k (map fst dict) /\ k == m) ->
  assign_notes false dict notes = Some (flat_map hit_row notes, flat_map hold_row notes).
Proof.
  intros G. induction notes as [|e r IH]; intro H; [reflexivity|]. cbn [assign_notes].
  rewrite IH by (intros e' m' He' Hm'; apply (H e' m'); [right; exact He'|exact Hm']).
  destruct e as [m b|m c v p|m tm c v p|]; cbn [flat_map hit_row hold_row app]; try reflexivity.
  - rewrite (dict_get_good dict G m); [reflexivity|]. apply (H (EHit m c v p)); [left; reflexivity|left; reflexivity].
  - rewrite (dict_get_good dict G m) by (apply (H (EHold m tm c v p)); [left; reflexivity|left; reflexivity]).
    rewrite (dict_get_good dict G tm) by (apply (H (EHold m tm c v p)); [left; reflexivity|right; left; reflexivity]).
    unfold hold_length. cbn [andb].
    assert (L : Qred (Qred (time tm) - Qred (time m)) = Qred (time tm - time m))
      by (apply Qred_complete; rewrite !Qred_correct; reflexivity).
    rewrite L. reflexivity.
Qed.

Lemma bpm_rows_good : forall bpms done,
  Forall2 (fun o x => o = Qred (time (fst x))) done bpms ->
  bpm_rows bpms done = map (fun t => mkBpm (Qred (time (fst t))) (snd t)) bpms.
Proof.
  intros bpms done F. induction F as [|o [m b] done' bpms' H _ IH]; [reflexivity|].
  cbn [bpm_rows map fst snd]. cbn [fst] in H. rewrite H, IH. reflexivity.
Qed.

Lemma Forall2_compose_red done times bpms :
  Forall reduced done -> Forall2 Qeq done times -> Forall2 (fun tm x => tm == time (fst x)) times bpms ->
  Forall2 (fun o (x : Q * Q) => o = Qred (time (fst x))) done bpms.
Proof.
  intros R F1. revert bpms. induction F1 as [|o tm done' times' H1 _ IH]; intros bpms F2.
  - inversion F2; subst. constructor.
  - inversion F2 as [|? x ? bpms' H2 F2']; subst. inversion R as [|? ? R1 R2]; subst.
    constructor; [|apply IH; assumption]. apply reduced_eq; [exact R1|]. rewrite H1. exact H2.
Qed.

(* the level reader on already extracted events: the tempo list it sweeps is T *)
Theorem read_pkgs_fixed_spec pkgs :
  Forall (fun e => e <> EMeasureChange) (concat pkgs) ->
  sort_by fst (flat_map tempo_of (concat pkgs)) = T ->
  exists hs ls,
    read_pkgs_fixed pkgs init
    = Some (mkOMap hs ls (mkBpm 0 init :: map (fun t => mkBpm (Qred (time (fst t))) (snd t)) T))
    /\ Permutation hs (flat_map hit_row (concat pkgs))
    /\ Permutation ls (flat_map hold_row (concat pkgs)).
Proof.
  intros Hmc HT. unfold read_pkgs_fixed, read_pkgs_with.
  assert (E1 : existsb (fun e => match e with EMeasureChange => true | _ => false end) (concat pkgs) = false).
  { destruct (existsb _ (concat pkgs)) eqn:X; [|reflexivity]. apply existsb_exists in X as (e & He & Pe).
    rewrite Forall_forall in Hmc. specialize (Hmc e He). destruct e; try discriminate. congruence. }
  rewrite E1. set (E := concat pkgs) in *. set (S := sort_by key_of E).
  set (notes := filter (fun e => negb (is_bpm e)) S).
  assert (EB : flat_map (fun e => match e with EBpm m b => [(m, b)] | _ => [] end) S = T).
  { change (fun e => match e with EBpm m b => [(m, b)] | _ => [] end) with tempo_of. unfold S. rewrite tempo_sort. exact HT. }
  rewrite EB.
  destruct (note_measures_spec notes) as [Hsorted Hcomplete].
  destruct (fixed_sweep_correct init T init_nz T_nz (note_measures_of notes) Hsorted)
    as (s1 & dict & s2 & Hsw & Htl & Hdict & Hkeys & Hdone).
  rewrite Hsw, Htl.
  destruct (sweep_fixed_reduced _ _ _ _ _ Hsw (Forall_nil _) (Forall_nil _)) as [R1 RD].
  pose proof (tail_fixed_done _ _ _ Htl R1) as R2.
  assert (G : dict_good dict).
  { unfold dict_good. unfold dict_ok in Hdict. rewrite Forall_forall in *. intros kv Hkv. apply reduced_eq; [apply RD; exact Hkv|].
    apply (Hdict kv Hkv). }
  rewrite (assign_notes_good dict notes G).
  2:{ intros e m He Hm. rewrite Hkeys. apply (Hcomplete e m He Hm). }
  assert (BR : bpm_rows T (sw_done s2) = map (fun t => mkBpm (Qred (time (fst t))) (snd t)) T).
  { apply bpm_rows_good. apply (Forall2_compose_red _ (times_go (0, 0, init) T) _ R2 Hdone).
    apply (tempo_time_is_integral T 0 0 init T_sorted). }
  rewrite BR. eexists _, _. split; [reflexivity|].
  assert (FH : forall (B : Type) (f : ev -> list B), (forall m b, f (EBpm m b) = []) ->
               Permutation (flat_map f notes) (flat_map f E)).
  { intros B f Hf. apply perm_trans with (flat_map f S).
    - unfold notes. clear - Hf. induction S as [|e r IH]; [reflexivity|]. cbn [filter flat_map].
      destruct e; cbn [is_bpm negb flat_map]; try (apply Permutation_app_head; exact IH). rewrite Hf. exact IH.
    - apply Permutation_flat_map. apply sort_by_perm. }
  split; apply FH; reflexivity.
Qed.
End Level.

(* ================================================================== 5. one difficulty: bytes -> events *)
Open Scope Z_scope.

Fixpoint level_sem (pkgs : list fpkg) (hb : hbuf) : option (list (list ev) * hbuf) :=
  match pkgs with
  | [] => Some ([], hb)
  | p :: r =>
      match pkg_sem p hb with
      | Some (es, hb1) =>
          match level_sem r hb1 with Some (ps, hb2) => Some (es :: ps, hb2) | None => None end
      | None => None
      end
  end.

Definition tempos_ok (p : fpkg) : Prop :=
  p_channel p = ref_ch_tempo -> sparse_tempos (p_measure p) (p_n p) (p_events p) <> None.

Lemma read_level_enc pkgs : forall rest hb,
  Forall (fun p => wf_pkg p = true /\ tempos_ok p) pkgs ->
  read_level (length pkgs) (flat_map encode_pkg pkgs ++ rest) hb
  = match level_sem pkgs hb with Some (ps, hb') => Some (ps, rest, hb') | None => None end.
Proof.
  induction pkgs as [|p r IH]; intros rest hb H; [reflexivity|].
  inversion H as [|? ? [Hw Ht] Hr]; subst.
  cbn [length read_level flat_map level_sem]. rewrite <- app_assoc.
  rewrite (read_package_enc p _ hb Hw Ht).
  destruct (pkg_sem p hb) as [[es hb1]|]; [|reflexivity].
  rewrite (IH rest hb1 Hr). destruct (level_sem r hb1) as [[ps hb2]|]; reflexivity.
Qed.

Definition is_note_ch (ch : Z) : bool := (ref_ch_col0 <=? ch) && (ch <=? ref_ch_col_last).
Definition flat_notes (pkgs : list fpkg) : list tev :=
  flat_map (fun p => if is_note_ch (p_channel p)
                     then map (pair (p_channel p - ref_ch_col0)) (sparse_notes (p_measure p) (p_n p) (p_events p))
                     else []) pkgs.

Definition is_note (e : ev) : bool := match e with EHit _ _ _ _ | EHold _ _ _ _ _ => true | _ => false end.

Lemma walk_flat_notes l : forall hb E hb', walk_flat l hb = Some (E, hb') -> Forall (fun e => is_note e = true) E.
Proof.
  induction l as [|[col [[[p vol] pan] kind]] r IH]; intros hb E hb' H; cbn [walk_flat] in H.
  - injection H as <- <-. constructor.
  - destruct (kind =? ref_kind_tap).
    { destruct (walk_flat r hb) as [[es h]|] eqn:W; [|discriminate]. injection H as <- <-.
      constructor; [reflexivity|apply (IH _ _ _ W)]. }
    destruct (kind =? ref_kind_head); [apply (IH _ _ _ H)|].
    destruct (kind =? ref_kind_tail); [|apply (IH _ _ _ H)].
    destruct (hb_pop hb col) as [[[[hm hvol] hpan] hb1]|]; [|discriminate].
    destruct (walk_flat r hb1) as [[es h]|] eqn:W; [|discriminate]. injection H as <- <-.
    constructor; [reflexivity|apply (IH _ _ _ W)].
Qed.

Lemma notes_no_tempo E : Forall (fun e => is_note e = true) E ->
  flat_map tempo_of E = [] /\ filter (fun e => negb (is_bpm e)) E = E /\ Forall (fun e => e <> EMeasureChange) E.
Proof.
  induction 1 as [|e r He _ IH]; [repeat split; constructor|]. destruct IH as (A & B & C).
  destruct e; try discriminate.
  - cbn [flat_map tempo_of app filter is_bpm negb]. rewrite A, B.
    split; [reflexivity|]. split; [reflexivity|]. constructor; [discriminate|exact C].
  - cbn [flat_map tempo_of app filter is_bpm negb]. rewrite A, B.
    split; [reflexivity|]. split; [reflexivity|]. constructor; [discriminate|exact C].
Qed.

Lemma bpm_evs_props ts :
  flat_map tempo_of (bpm_evs ts) = nonzero_tempos ts
  /\ filter (fun e => negb (is_bpm e)) (bpm_evs ts) = []
  /\ Forall (fun e => e <> EMeasureChange) (bpm_evs ts).
Proof.
  unfold bpm_evs. induction (nonzero_tempos ts) as [|[m b] r (A & B & C)]; [repeat split; constructor|].
  cbn [map flat_map tempo_of app filter is_bpm negb fst snd]. rewrite A, B.
  repeat split; try reflexivity. constructor; [discriminate|exact C].
Qed.

Lemma nonzero_tempos_app a b : nonzero_tempos (a ++ b) = nonzero_tempos a ++ nonzero_tempos b.
Proof. unfold nonzero_tempos. apply filter_app. Qed.

(* the events of a difficulty: notes = the hold-buffer walk over the note slots in file order,
   tempo events = the non-zero channel-1 slots in file order *)
Lemma level_sem_walk pkgs : forall hb ts En hb',
  all_some (map pkg_tempos pkgs) = Some ts ->
  walk_flat (flat_notes pkgs) hb = Some (En, hb') ->
  exists ps, level_sem pkgs hb = Some (ps, hb')
    /\ flat_map tempo_of (concat ps) = nonzero_tempos (concat ts)
    /\ filter (fun e => negb (is_bpm e)) (concat ps) = En
    /\ Forall (fun e => e <> EMeasureChange) (concat ps).
Proof.
  induction pkgs as [|p r IH]; intros hb ts En hb' Hts Hw.
  - cbn in Hts, Hw. injection Hts as <-. injection Hw as <- <-. exists []. cbn. repeat split; constructor.
  - cbn [map all_some] in Hts. destruct (pkg_tempos p) as [t|] eqn:Et; [|discriminate].
    destruct (all_some (map pkg_tempos r)) as [ts'|] eqn:Ets; [|discriminate]. injection Hts as <-.
    unfold flat_notes in Hw. cbn [flat_map] in Hw. fold (flat_notes r) in Hw.
    cbn [level_sem]. unfold pkg_sem. fold (is_note_ch (p_channel p)).
    destruct (is_note_ch (p_channel p)) eqn:Nc.
    + rewrite walk_flat_app in Hw. rewrite hb_walk_flat.
      destruct (walk_flat (map (pair (p_channel p - ref_ch_col0)) (sparse_notes (p_measure p) (p_n p) (p_events p))) hb)
        as [[e1 hb1]|] eqn:W1; [|discriminate].
      destruct (walk_flat (flat_notes r) hb1) as [[e2 hb2]|] eqn:W2; [|discriminate]. injection Hw as <- <-.
      destruct (IH hb1 ts' e2 hb2 eq_refl W2) as (ps & L & A & B & C). rewrite L.
      exists (e1 :: ps). split; [reflexivity|].
      destruct (notes_no_tempo e1 (walk_flat_notes _ _ _ _ W1)) as (A1 & B1 & C1).
      assert (t = []).
      { unfold pkg_tempos in Et. unfold is_note_ch in Nc. apply andb_true_iff in Nc as [N1 _]. apply Z.leb_le in N1.
        destruct (Z.eqb_spec (p_channel p) ref_ch_tempo); [unfold ref_ch_tempo, ref_ch_col0 in *; lia|]. congruence. }
      subst t. cbn [concat app]. rewrite flat_map_app, filter_app, A1, B1, A, B.
      repeat split; try reflexivity. apply Forall_app; split; assumption.
    + destruct (Z.eqb_spec (p_channel p) ref_ch_tempo) as [E|E].
      * rewrite (pkg_tempos_own p E) in Et. rewrite Et.
        destruct (IH hb ts' En hb' eq_refl Hw) as (ps & L & A & B & C). rewrite L.
        exists (bpm_evs t :: ps). split; [reflexivity|].
        destruct (bpm_evs_props t) as (A1 & B1 & C1).
        cbn [concat]. rewrite flat_map_app, filter_app, A1, B1, A, B, nonzero_tempos_app.
        repeat split; try reflexivity. apply Forall_app; split; assumption.
      * destruct (IH hb ts' En hb' eq_refl Hw) as (ps & L & A & B & C). rewrite L.
        exists ([] :: ps). split; [reflexivity|].
        assert (t = []) by (unfold pkg_tempos in Et; destruct (Z.eqb_spec (p_channel p) ref_ch_tempo); congruence).
        subst t. cbn [concat app]. repeat split; assumption.
Qed.

(* the column view of the flat note list is what the specification lists per column *)
Lemma proj_flat_notes pkgs c : In c columns -> proj c (flat_notes pkgs) = flat_map (pkg_notes c) pkgs.
Proof.
  intro Hc. induction pkgs as [|p r IH]; [reflexivity|].
  unfold flat_notes, proj. cbn [flat_map]. rewrite flat_map_app.
  fold (flat_notes r). fold (proj c (flat_notes r)). rewrite IH. f_equal.
  assert (Cr : 0 <= c <= 6) by (cbn in Hc; lia).
  destruct (is_note_ch (p_channel p)) eqn:Nc.
  - unfold is_note_ch in Nc. apply andb_true_iff in Nc as [N1 N2]. apply Z.leb_le in N1. apply Z.leb_le in N2.
    destruct (Z.eq_dec (p_channel p) (ref_ch_col0 + c)) as [E|E].
    + rewrite (pkg_notes_own p c E).
      induction (sparse_notes (p_measure p) (p_n p) (p_events p)) as [|x l IHl]; [reflexivity|].
      cbn [map flat_map fst snd]. replace (p_channel p - ref_ch_col0 =? c) with true by (symmetry; apply Z.eqb_eq; lia).
      cbn [app]. f_equal. exact IHl.
    + rewrite (pkg_notes_other p c E).
      induction (sparse_notes (p_measure p) (p_n p) (p_events p)) as [|x l IHl]; [reflexivity|].
      cbn [map flat_map fst snd]. replace (p_channel p - ref_ch_col0 =? c) with false by (symmetry; apply Z.eqb_neq; lia).
      exact IHl.
  - cbn [flat_map]. symmetry. apply pkg_notes_other. unfold is_note_ch in Nc.
    unfold ref_ch_col0, ref_ch_col_last in *. apply andb_false_iff in Nc as [N|N]; [apply Z.leb_gt in N|apply Z.leb_gt in N]; lia.
Qed.

(* ================================================================== 6. one difficulty, end to end *)
Open Scope Q_scope.

Lemma all_some_inv {A} (l : list (option A)) r : all_some l = Some r -> Forall2 (fun o x => o = Some x) l r.
Proof.
  revert r; induction l as [|[a|] l IH]; intros r H; cbn [all_some] in H; try discriminate.
  - injection H as <-. constructor.
  - destruct (all_some l) as [r'|]; [|discriminate]. injection H as <-. constructor; [reflexivity|apply IH; reflexivity].
Qed.

Lemma position_nonneg m i n : (0 <= m)%Z -> (0 <= i)%Z -> (0 < n)%Z -> 0 <= position m i n.
Proof.
  intros Hm Hi Hn. unfold position. rewrite Qred_correct.
  assert (0 <= inject_Z m) by (change 0 with (inject_Z 0); rewrite <- Zle_Qle; exact Hm).
  assert (0 <= inject_Z i / inject_Z n).
  { apply Qle_shift_div_l; [change 0 with (inject_Z 0); rewrite <- Zlt_Qlt; exact Hn|].
    rewrite Qmult_0_l. change 0 with (inject_Z 0). rewrite <- Zle_Qle. exact Hi. }
  lra.
Qed.

Lemma sparse_tempos_nonneg m n sp ts lo : (0 <= m)%Z -> (0 <= lo)%Z -> sparse_ok lo n sp = true ->
  sparse_tempos m n sp = Some ts -> Forall (fun t => 0 <= fst t) ts.
Proof.
  intros Hm. revert ts lo. induction sp as [|[j bs] r IH]; intros ts lo Hlo Hs Ht.
  - cbn in Ht. injection Ht as <-. constructor.
  - apply sparse_ok_cons in Hs as (H1 & H2 & _ & _ & Hr). unfold sparse_tempos in Ht. cbn [map all_some fst snd] in Ht.
    destruct (le_float32 bs) as [v|]; [|discriminate]. fold (sparse_tempos m n r) in Ht.
    destruct (sparse_tempos m n r) as [ts'|] eqn:E; [|discriminate]. injection Ht as <-.
    constructor; [cbn [fst]; apply position_nonneg; lia|]. apply (IH ts' (j + 1)%Z); auto. lia.
Qed.

Lemma level_tempos_nonneg pkgs ts : Forall (fun p => wf_pkg p = true) pkgs ->
  all_some (map pkg_tempos pkgs) = Some ts -> Forall (fun t => 0 <= fst t) (concat ts).
Proof.
  intro Hw. revert ts. induction Hw as [|p r Hp _ IH]; intros ts H.
  - cbn in H. injection H as <-. constructor.
  - cbn [map all_some] in H. destruct (pkg_tempos p) as [t|] eqn:Et; [|discriminate].
    destruct (all_some (map pkg_tempos r)) as [ts'|]; [|discriminate]. injection H as <-.
    cbn [concat]. apply Forall_app. split; [|apply IH; reflexivity].
    unfold pkg_tempos in Et. destruct (p_channel p =? ref_ch_tempo)%Z; [|injection Et as <-; constructor].
    unfold wf_pkg in Hp. repeat (apply andb_true_iff in Hp as [Hp ?]). apply Z.leb_le in Hp.
    apply (sparse_tempos_nonneg (p_measure p) (p_n p) (p_events p) t 0%Z); auto. lia.
Qed.

Lemma sorted_key_pos (l : list (Q * Q)) lo : sorted_key fst l -> Forall (fun t => lo <= fst t) l -> sorted_pos lo l.
Proof.
  revert lo; induction l as [|x r IH]; intros lo S F; [exact I|]. destruct S as [Sx Sr].
  inversion F as [|? ? F1 F2]; subst. split; [exact F1|]. apply IH; [exact Sr|exact Sx].
Qed.

Lemma flat_map_comp {A B C} (f : B -> list C) (g : A -> list B) l :
  flat_map f (flat_map g l) = flat_map (fun x => flat_map f (g x)) l.
Proof. induction l as [|a r IH]; [reflexivity|]. cbn [flat_map]. rewrite flat_map_app, IH. reflexivity. Qed.

Lemma pair_col_rows init T c evs : forall open,
  pair_col (ojn_time init T) c evs open
  = (flat_map (hit_row init T) (pair_ev c evs open), flat_map (hold_row init T) (pair_ev c evs open)).
Proof.
  induction evs as [|[[[p vol] pan] kind] r IH]; intro open; [reflexivity|]. cbn [pair_col pair_ev].
  destruct (kind =? ref_kind_tap)%Z; [rewrite IH; reflexivity|].
  destruct (kind =? ref_kind_head)%Z; [apply IH|].
  destruct (kind =? ref_kind_tail)%Z; [|apply IH].
  destruct open as [[[hp hvol] hpan]|]; [rewrite IH; reflexivity|apply IH].
Qed.

Lemma columns_nodup : NoDup columns.
Proof. unfold columns. repeat (constructor; [cbn; intuition lia|]). constructor. Qed.

Definition map_equiv (a b : omap) : Prop :=
  Permutation (om_hits a) (om_hits b) /\ Permutation (om_holds a) (om_holds b) /\ om_bpms a = om_bpms b.

Theorem level_composition pkgs init rest : wf_level pkgs = true -> ~ init == 0 ->
  exists ps m d,
    read_level (length pkgs) (flat_map encode_pkg pkgs ++ rest) [] = Some (ps, rest, [])
    /\ read_pkgs_fixed ps init = Some m /\ denote_level init pkgs = Some d /\ map_equiv m d.
Proof.
  intros Hw Hinit. unfold wf_level in Hw. apply andb_true_iff in Hw as [Hw Hcols]. apply andb_true_iff in Hw as [Hpk Htp].
  rewrite forallb_forall in Hpk, Hcols.
  unfold wf_tempos in Htp. destruct (all_some (map pkg_tempos pkgs)) as [ts|] eqn:Ets; [|discriminate].
  apply andb_true_iff in Htp as [Hpos _].
  assert (Fpk : Forall (fun p => wf_pkg p = true) pkgs) by (apply Forall_forall; exact Hpk).
  assert (Fok : Forall (fun p => wf_pkg p = true /\ tempos_ok p) pkgs).
  { apply Forall_forall. intros p Hp. split; [apply Hpk; exact Hp|]. intros Ech.
    rewrite <- (pkg_tempos_own p Ech). pose proof (all_some_inv _ _ Ets) as F2.
    assert (In (pkg_tempos p) (map pkg_tempos pkgs)) by (apply in_map; exact Hp).
    clear - F2 H. induction F2 as [|o x l r Ho _ IH]; [destruct H|]. destruct H as [<-|H]; [congruence|apply IH; exact H]. }
  (* pairing *)
  destruct (walk_flat_pairing columns columns_nodup (flat_notes pkgs) []) as (E & hb' & Wk & PE & Hnil).
  { constructor. }
  { unfold flat_notes. apply Forall_forall. intros x Hx. apply in_flat_map in Hx as (p & Hp & Hx).
    destruct (is_note_ch (p_channel p)) eqn:Nc; [|destruct Hx].
    apply in_map_iff in Hx as (y & <- & _). cbn [fst]. unfold is_note_ch, ref_ch_col0, ref_ch_col_last in *.
    apply andb_true_iff in Nc as [N1 N2]. apply Z.leb_le in N1. apply Z.leb_le in N2. cbn. lia. }
  { intros c Hc. cbn [hb_get is_some]. rewrite (proj_flat_notes pkgs c Hc).
    specialize (Hcols c Hc). unfold wf_column in Hcols. apply andb_true_iff in Hcols as [_ H]. exact H. }
  { reflexivity. }
  subst hb'.
  destruct (level_sem_walk pkgs [] ts E [] Ets Wk) as (ps & Lsem & Htempo & Hfilter & Hmc).
  exists ps.
  set (T := sort_by fst (nonzero_tempos (concat ts))).
  assert (Tnz : bpms_nonzero T).
  { unfold bpms_nonzero, T. apply (Permutation_Forall (Permutation_sym (sort_by_perm fst _))).
    unfold nonzero_tempos. apply Forall_forall. intros t Ht. apply filter_In in Ht as [_ Ht].
    apply negb_true_iff in Ht. apply Qeq_bool_false_neq. exact Ht. }
  assert (Tsorted : sorted_pos 0 T).
  { apply sorted_key_pos; [apply sort_by_sorted|].
    unfold T. apply (Permutation_Forall (Permutation_sym (sort_by_perm fst _))).
    pose proof (level_tempos_nonneg pkgs ts Fpk Ets) as F. unfold nonzero_tempos.
    apply Forall_forall. intros t Ht. apply filter_In in Ht as [Ht _]. rewrite Forall_forall in F. apply F. exact Ht. }
  destruct (read_pkgs_fixed_spec init T Hinit Tnz Tsorted ps Hmc) as (hs & ls & Hread & Phs & Pls).
  { rewrite Htempo. reflexivity. }
  eexists _, _. split; [|split; [exact Hread|]].
  { rewrite (read_level_enc pkgs rest [] Fok), Lsem. reflexivity. }
  unfold denote_level. rewrite Ets. fold T. split; [reflexivity|].
  unfold map_equiv. cbn [om_hits om_holds om_bpms].
  assert (Rows : forall (B : Type) (f : ev -> list B), (forall m b, f (EBpm m b) = []) ->
            forall l, Permutation l (flat_map f (concat ps)) ->
            Permutation l (flat_map (fun c => flat_map f (pair_ev c (flat_map (pkg_notes c) pkgs) None)) columns)).
  { intros B f Hf l Pl. apply perm_trans with (flat_map f (concat ps)); [exact Pl|].
    apply perm_trans with (flat_map f E).
    - rewrite <- Hfilter. clear - Hf. induction (concat ps) as [|e r IH]; [reflexivity|]. cbn [filter flat_map].
      destruct e; cbn [is_bpm negb flat_map]; try (apply Permutation_app_head; exact IH). rewrite Hf. exact IH.
    - apply perm_trans with (flat_map f (flat_map (fun c => pair_ev c (proj c (flat_notes pkgs)) (hb_get [] c)) columns)).
      + apply Permutation_flat_map. exact PE.
      + rewrite flat_map_comp. rewrite (flat_map_ext_in _ (fun c => flat_map f (pair_ev c (flat_map (pkg_notes c) pkgs) None))); [reflexivity|].
        intros c Hc. rewrite (proj_flat_notes pkgs c Hc). reflexivity. }
  split; [|split].
  - rewrite flat_map_concat_map, map_map, <- flat_map_concat_map.
    rewrite (flat_map_ext_in _ (fun c => flat_map (hit_row init T) (pair_ev c (flat_map (pkg_notes c) pkgs) None))).
    + apply Rows; [reflexivity|exact Phs].
    + intros c _. rewrite pair_col_rows. reflexivity.
  - rewrite flat_map_concat_map, map_map, <- flat_map_concat_map.
    rewrite (flat_map_ext_in _ (fun c => flat_map (hold_row init T) (pair_ev c (flat_map (pkg_notes c) pkgs) None))).
    + apply Rows; [reflexivity|exact Pls].
    + intros c _. rewrite pair_col_rows. reflexivity.
  - reflexivity.
Qed.

(* ================================================================== 7. the whole file *)
Lemma read_levels_enc levels init : ~ init == 0 -> forall rest,
  Forall (fun l => wf_level l = true) levels ->
  exists lv ms ds,
    read_levels (map (fun l => Z.of_nat (length l)) levels) (flat_map (flat_map encode_pkg) levels ++ rest) [] = Some lv
    /\ all_some (map (fun pk => read_pkgs_with true false pk init) lv) = Some ms
    /\ all_some (map (denote_level init) levels) = Some ds
    /\ Forall2 map_equiv ms ds.
Proof.
  intros Hinit. induction levels as [|l r IH]; intros rest H.
  - exists [], [], []. cbn. repeat split; constructor.
  - inversion H as [|? ? Hl Hr]; subst. cbn [map read_levels flat_map]. rewrite Nat2Z.id, <- app_assoc.
    destruct (level_composition l init (flat_map (flat_map encode_pkg) r ++ rest) Hl Hinit) as (ps & m & d & R1 & R2 & R3 & R4).
    rewrite R1. destruct (IH rest Hr) as (lv & ms & ds & L1 & L2 & L3 & L4). rewrite L1.
    exists (ps :: lv), (m :: ms), (d :: ds). cbn [map all_some].
    change (read_pkgs_with true false ps init) with (read_pkgs_fixed ps init). rewrite R2, L2, R3, L3.
    repeat split; try reflexivity. constructor; assumption.
Qed.

Lemma firstn_skipn_len {A} (a b : list A) n : length a = n -> firstn n (a ++ b) = a /\ skipn n (a ++ b) = b.
Proof.
  intro H. subst n. rewrite firstn_app, skipn_app, firstn_all, skipn_all, Nat.sub_diag. cbn [firstn skipn app].
  rewrite app_nil_r. split; reflexivity.
Qed.

(* THE composition theorem: for every well-formed abstract file F and any trailing bytes, the reader
   applied to the laid-out bytes succeeds and returns what F denotes: same header, and per difficulty the
   same hits and long notes up to row order and the same tempo rows *)
Theorem ojn_read_fixed_denotes : Tables.c07.layout = ref_layout ->
  forall f trail, wf_file f = true ->
  exists o d, read_fixed (encode_file f ++ trail) = Some o /\ ojn_denote f = Some d
    /\ os_hdr o = os_hdr d /\ Forall2 map_equiv (os_maps o) (os_maps d).
Proof.
  intros L f trail Hw. unfold wf_file in Hw.
  apply andb_true_iff in Hw as [Hw Hlv]. apply andb_true_iff in Hw as [Hw Hpc]. apply andb_true_iff in Hw as [Hh Hbpm].
  pose proof (encode_header_length (f_hdr f) (package_counts f) Hh Hpc) as Len.
  unfold read_fixed, read_with, encode_file. rewrite <- app_assoc.
  destruct (firstn_skipn_len (encode_header (f_hdr f) (package_counts f))
              (flat_map (flat_map encode_pkg) (f_levels f) ++ trail) 300 Len) as [F1 F2].
  rewrite F1, F2. rewrite <- (app_nil_r (encode_header (f_hdr f) (package_counts f))).
  rewrite (ojn_header_decodes L (f_hdr f) (package_counts f) [] Hh Hpc).
  unfold ojn_denote. unfold hdr_bpm_pos in Hbpm.
  destruct (denote_hdr (f_hdr f) (package_counts f)) as [h|] eqn:Dh.
  2:{ exfalso. unfold denote_hdr in Dh. unfold wf_hdr in Hh.
      repeat match goal with H : _ && _ = true |- _ => apply andb_true_iff in H as [? ?] end.
      repeat match goal with H : f32_finite _ = true |- _ => apply f32_finite_some in H as [? _] end.
      repeat match goal with H : f32_of_bits _ = Some _ |- _ => rewrite H in Dh end. discriminate. }
  assert (Hb : oh_bpm h = f32_val (fh_bpm (f_hdr f)) /\ oh_package_count h = package_counts f).
  { unfold denote_hdr in Dh. destruct (f32_of_bits (fh_encode_version (f_hdr f))); [|discriminate].
    destruct (f32_of_bits (fh_bpm (f_hdr f))) as [b|] eqn:Eb; [|discriminate].
    apply f32_of_bits_some in Eb as [-> _]. injection Dh as <-. split; reflexivity. }
  destruct Hb as [Hb1 Hb2].
  assert (Hinit : ~ oh_bpm h == 0).
  { rewrite Hb1. destruct (f32_of_bits (fh_bpm (f_hdr f))) as [b|] eqn:Eb; [|discriminate].
    apply f32_of_bits_some in Eb as [-> _]. apply Qlt_bool_iff in Hbpm. intro C. rewrite C in Hbpm. apply (Qlt_irrefl 0). exact Hbpm. }
  rewrite Hb2. unfold package_counts at 1.
  destruct (read_levels_enc (f_levels f) (oh_bpm h) Hinit trail) as (lv & ms & ds & L1 & L2 & L3 & L4).
  { apply Forall_forall. rewrite forallb_forall in Hlv. exact Hlv. }
  rewrite L1, L2, L3. exists (mkOSet h ms), (mkOSet h ds). repeat split; auto.
Qed.

(* corollary in the declarative vocabulary of the specification: the property statement at tolerance 0 *)
Lemma q_close_refl a : q_close 0 a a = true.
Proof.
  unfold q_close. apply Qle_bool_iff. setoid_replace (a - a) with 0 by ring. apply Qle_refl.
Qed.
Lemma hit_close_refl x : hit_close 0 x x = true.
Proof. unfold hit_close. rewrite !Z.eqb_refl, q_close_refl. reflexivity. Qed.
Lemma hold_close_refl x : hold_close 0 x x = true.
Proof. unfold hold_close. rewrite !Z.eqb_refl, q_close_refl. change (0 + 0) with 0. rewrite q_close_refl. reflexivity. Qed.
Lemma bpm_close_refl x : bpm_close 0 x x = true.
Proof. unfold bpm_close. rewrite q_close_refl. rewrite (proj2 (Qeq_bool_iff _ _) (Qeq_refl _)). reflexivity. Qed.

Lemma rows_match_perm {A} (close : A -> A -> bool) (a b : list A) :
  (forall x, close x x = true) -> Permutation a b -> rows_match (fun x y => close x y = true) b a.
Proof.
  intros R P. exists b. split; [exact P|]. clear P. induction b; constructor; auto.
Qed.

Lemma zlist_eqb_refl l : zlist_eqb l l = true.
Proof. induction l; cbn; [reflexivity|]. rewrite Z.eqb_refl. exact IHl. Qed.
Lemma hdr_eqb_refl h : hdr_eqb h h = true.
Proof.
  unfold hdr_eqb. rewrite !Z.eqb_refl, !zlist_eqb_refl.
  rewrite !(proj2 (Qeq_bool_iff _ _) (Qeq_refl _)). reflexivity.
Qed.

Theorem ojn_read_fixed_meets_spec : Tables.c07.layout = ref_layout ->
  forall f trail, wf_file f = true -> OjnSpec 0 f (read_fixed (encode_file f ++ trail)).
Proof.
  intros L f trail Hw. destruct (ojn_read_fixed_denotes L f trail Hw) as (o & d & R & D & Hh & Hm).
  unfold OjnSpec. exists d, o. split; [exact D|]. split; [exact R|]. split; [rewrite Hh; apply hdr_eqb_refl|].
  clear - Hm. induction Hm as [|a b la lb (P1 & P2 & P3) _ IH]; constructor; [|exact IH].
  unfold map_matches. split; [|split].
  - apply rows_match_perm; [apply hit_close_refl|exact P1].
  - apply rows_match_perm; [apply hold_close_refl|exact P2].
  - rewrite P3. apply rows_match_perm; [apply bpm_close_refl|reflexivity].
Qed.

(* ================================================================== 8. a tempo event exactly at a note's position *)
(* B.5: the time of a position integrates every tempo event at or before it.  Whether the event sitting
   exactly AT the position is counted (<=) or not (<) cannot change the time: the segment it opens has
   length zero there.  (The event's own time is its running time either way.)  So a reader that uses the
   strict comparison in its sweep returns the same chart; the oracle rightly stays silent on it. *)
Fixpoint ojn_time_go_strict (t0 p0 bpm : Q) (tempos : list (Q * Q)) (p : Q) : Q :=
  match tempos with
  | (p1, b1) :: rest =>
      if Qlt_bool p1 p then ojn_time_go_strict (t0 + (p1 - p0) * 4 * beat_ms bpm) p1 b1 rest p
      else t0 + (p - p0) * 4 * beat_ms bpm
  | [] => t0 + (p - p0) * 4 * beat_ms bpm
  end.

Theorem ojn_time_strict_eq l : forall t p0 b p, sorted_pos p0 l ->
  ojn_time_go_strict t p0 b l p == ojn_time_go t p0 b l p.
Proof.
  induction l as [|[p1 b1] r IH]; intros t p0 b p S; cbn [ojn_time_go_strict ojn_time_go]; [reflexivity|].
  destruct S as [S1 S2]. cbn [fst] in *.
  destruct (Qlt_bool p1 p) eqn:Lt.
  - apply Qlt_bool_iff in Lt. rewrite (proj2 (Qle_bool_iff p1 p) (Qlt_le_weak _ _ Lt)). apply IH. exact S2.
  - apply Qlt_bool_false in Lt. destruct (Qle_bool p1 p) eqn:Le; [|reflexivity].
    apply Qle_bool_iff in Le. assert (E : p1 == p) by (apply Qle_antisym; assumption).
    rewrite stay_put; [rewrite E; reflexivity|exact E|].
    destruct r as [|y r']; [exact I|]. destruct S2 as [A B]. split; [rewrite <- E; exact A|exact B].
Qed.
