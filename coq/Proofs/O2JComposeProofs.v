(* Composition: hold buffer = per-column pairing (ojn_ln_pairing), level parsing, and the glue between
   read_pkgs_fixed (sort / dedup / dict) and the integration theorem. *)
From Coq Require Import ZArith QArith Qround List Bool Lia Lqa Permutation.
From RV Require Import Base.PyNum Base.Bytes Formats.O2J Formats.O2JSpec Generated.Tables
  Proofs.O2JProofs Proofs.O2JHeaderProofs Proofs.O2JParseProofs.
Import ListNotations.
Open Scope Z_scope.

(* ================================================================== 1. the hold buffer as a finite map *)
Fixpoint hb_get (hb : hbuf) (c : Z) : option (Q * Z * Z) :=
  match hb with [] => None | (c', v) :: r => if c' =? c then Some v else hb_get r c end.
Definition hb_nodup (hb : hbuf) : Prop := NoDup (map fst hb).

Lemma hb_get_filter hb c c' :
  hb_get (filter (fun p => negb (fst p =? c)) hb) c' = if c =? c' then None else hb_get hb c'.
Proof.
  induction hb as [|[k v] r IH]; cbn [filter hb_get fst]; [destruct (c =? c'); reflexivity|].
  destruct (Z.eqb_spec k c) as [E|E]; cbn [negb].
  - subst k. rewrite IH. destruct (Z.eqb_spec c c'); reflexivity.
  - cbn [hb_get]. rewrite IH. destruct (Z.eqb_spec k c'), (Z.eqb_spec c c'); try reflexivity. lia.
Qed.

Lemma hb_get_set hb c v c' : hb_get (hb_set hb c v) c' = if c =? c' then Some v else hb_get hb c'.
Proof. unfold hb_set. cbn [hb_get]. rewrite hb_get_filter. destruct (c =? c'); reflexivity. Qed.

Lemma hb_nodup_set hb c v : hb_nodup hb -> hb_nodup (hb_set hb c v).
Proof.
  intro H. unfold hb_nodup, hb_set. cbn [map fst]. constructor.
  - intro I. apply in_map_iff in I as ((k & w) & E & I). cbn in E. subst k. apply filter_In in I as [_ I].
    cbn in I. rewrite Z.eqb_refl in I. discriminate.
  - unfold hb_nodup in H. induction hb as [|[k w] r IH]; cbn [filter map]; [constructor|].
    inversion H as [|? ? Hn Hr]; subst. destruct (negb (fst (k, w) =? c)); [|apply IH; exact Hr].
    cbn [map fst]. constructor; [|apply IH; exact Hr].
    intro I. apply Hn. apply in_map_iff in I as (x & E & I). apply filter_In in I as [I _].
    apply in_map_iff. exists x. split; assumption.
Qed.

Lemma hb_get_notin hb c : ~ In c (map fst hb) -> hb_get hb c = None.
Proof.
  induction hb as [|[k v] r IH]; intro H; [reflexivity|]. cbn [hb_get]. cbn [map fst In] in H.
  destruct (Z.eqb_spec k c); [exfalso; apply H; auto|]. apply IH. intro; apply H; auto.
Qed.

Lemma hb_pop_spec hb c v : hb_nodup hb -> hb_get hb c = Some v ->
  exists hb1, hb_pop hb c = Some (v, hb1) /\ hb_nodup hb1
    /\ forall c', hb_get hb1 c' = if c =? c' then None else hb_get hb c'.
Proof.
  induction hb as [|[k w] r IH]; intros N G; [discriminate|].
  unfold hb_nodup in N. cbn [map fst] in N. inversion N as [|? ? Hn Hr]; subst.
  cbn [hb_get] in G. cbn [hb_pop]. destruct (Z.eqb_spec k c) as [E|E].
  - subst k. injection G as <-. exists r. split; [reflexivity|]. split; [exact Hr|].
    intro c'. cbn [hb_get]. destruct (Z.eqb_spec c c'); [subst; apply hb_get_notin; exact Hn|reflexivity].
  - destruct (IH Hr G) as (hb1 & P & N1 & G1). rewrite P. exists ((k, w) :: hb1). split; [reflexivity|]. split.
    + unfold hb_nodup. cbn [map fst]. constructor; [|exact N1].
      intro I. assert (hb_get hb1 k <> None).
      { clear - I. induction hb1 as [|[a b] t IHt]; [destruct I|]. cbn [hb_get]. cbn [map fst In] in I.
        destruct (Z.eqb_spec a k); [discriminate|]. apply IHt. destruct I; [contradiction|assumption]. }
      rewrite G1 in H. destruct (Z.eqb_spec c k); [congruence|]. rewrite (hb_get_notin r k Hn) in H. congruence.
    + intro c'. cbn [hb_get]. rewrite G1. destruct (Z.eqb_spec k c'), (Z.eqb_spec c c'); try reflexivity. lia.
Qed.

Lemma hb_all_none_nil hb : (forall c, hb_get hb c = None) -> hb = [].
Proof. destruct hb as [|[k v] r]; [reflexivity|]. intro H. specialize (H k). cbn in H. rewrite Z.eqb_refl in H. discriminate. Qed.

(* ================================================================== 2. flat walk and per-column pairing *)
Definition tev : Type := Z * (Q * Z * Z * Z).

Fixpoint walk_flat (l : list tev) (hb : hbuf) : option (list ev * hbuf) :=
  match l with
  | [] => Some ([], hb)
  | (col, (p, vol, pan, kind)) :: r =>
      if kind =? ref_kind_tap then
        match walk_flat r hb with Some (es, hb') => Some (EHit p col vol pan :: es, hb') | None => None end
      else if kind =? ref_kind_head then walk_flat r (hb_set hb col (p, vol, pan))
      else if kind =? ref_kind_tail then
        match hb_pop hb col with
        | None => None
        | Some ((hm, hvol, hpan), hb1) =>
            match walk_flat r hb1 with Some (es, hb') => Some (EHold hm p col hvol hpan :: es, hb') | None => None end
        end
      else walk_flat r hb
  end.

Lemma hb_walk_flat col evs : forall hb, hb_walk col evs hb = walk_flat (map (pair col) evs) hb.
Proof.
  induction evs as [|[[[p vol] pan] kind] r IH]; intro hb; [reflexivity|]. cbn [hb_walk map walk_flat].
  destruct (kind =? ref_kind_tap); [rewrite IH; reflexivity|].
  destruct (kind =? ref_kind_head); [apply IH|].
  destruct (kind =? ref_kind_tail); [|apply IH].
  destruct (hb_pop hb col) as [[[[hm hvol] hpan] hb1]|]; [rewrite IH|]; reflexivity.
Qed.

Lemma walk_flat_app l1 : forall l2 hb,
  walk_flat (l1 ++ l2) hb =
  match walk_flat l1 hb with
  | Some (e1, hb1) => match walk_flat l2 hb1 with Some (e2, hb2) => Some (e1 ++ e2, hb2) | None => None end
  | None => None
  end.
Proof.
  induction l1 as [|[col [[[p vol] pan] kind]] r IH]; intros l2 hb.
  - cbn [app walk_flat]. destruct (walk_flat l2 hb) as [[e2 hb2]|]; reflexivity.
  - cbn [app walk_flat].
    destruct (kind =? ref_kind_tap).
    { rewrite IH. destruct (walk_flat r hb) as [[e1 hb1]|]; [|reflexivity].
      destruct (walk_flat l2 hb1) as [[e2 hb2]|]; reflexivity. }
    destruct (kind =? ref_kind_head); [apply IH|].
    destruct (kind =? ref_kind_tail); [|apply IH].
    destruct (hb_pop hb col) as [[[[hm hvol] hpan] hb1]|]; [|reflexivity].
    rewrite IH. destruct (walk_flat r hb1) as [[e1 hb1']|]; [|reflexivity].
    destruct (walk_flat l2 hb1') as [[e2 hb2]|]; reflexivity.
Qed.

(* the events of column c, in file order *)
Definition proj (c : Z) (l : list tev) : list (Q * Z * Z * Z) :=
  flat_map (fun x => if fst x =? c then [snd x] else []) l.

(* pairing inside one column, at the level of events (positions, not yet times) *)
Fixpoint pair_ev (c : Z) (evs : list (Q * Z * Z * Z)) (open : option (Q * Z * Z)) : list ev :=
  match evs with
  | [] => []
  | (p, vol, pan, kind) :: r =>
      if kind =? ref_kind_tap then EHit p c vol pan :: pair_ev c r open
      else if kind =? ref_kind_head then pair_ev c r (Some (p, vol, pan))
      else if kind =? ref_kind_tail then
        match open with
        | Some (hp, hvol, hpan) => EHold hp p c hvol hpan :: pair_ev c r None
        | None => pair_ev c r None
        end
      else pair_ev c r open
  end.

Definition is_some {A} (o : option A) : bool := match o with Some _ => true | None => false end.

Lemma flat_map_ext_in {A B} (f g : A -> list B) l : (forall a, In a l -> f a = g a) -> flat_map f l = flat_map g l.
Proof.
  induction l as [|a r IH]; intro H; [reflexivity|]. cbn [flat_map].
  rewrite (H a (or_introl eq_refl)), IH; [reflexivity|]. intros b Hb. apply H. right. exact Hb.
Qed.

Lemma flat_map_nil {A B} (l : list A) : flat_map (fun _ => @nil B) l = [].
Proof. induction l; auto. Qed.

Lemma perm_insert_col {B} (e : B) (X : Z -> list B) c0 cs : NoDup cs -> In c0 cs ->
  Permutation (flat_map (fun c => if c =? c0 then e :: X c else X c) cs) (e :: flat_map X cs).
Proof.
  induction cs as [|a r IH]; intros N I; [destruct I|]. inversion N as [|? ? Hn Hr]; subst. cbn [flat_map].
  destruct (Z.eqb_spec a c0) as [E|E].
  - subst a. cbn [app]. apply perm_skip. apply Permutation_app_head.
    rewrite (flat_map_ext_in (fun c => if c =? c0 then e :: X c else X c) X); [reflexivity|].
    intros c Hc. destruct (Z.eqb_spec c c0); [subst; contradiction|reflexivity].
  - destruct I as [I|I]; [contradiction|]. specialize (IH Hr I).
    apply perm_trans with (X a ++ e :: flat_map X r); [apply Permutation_app_head; exact IH|].
    apply Permutation_sym, Permutation_middle.
Qed.

Section Pairing.
Variable cols : list Z.
Hypothesis cols_nodup : NoDup cols.

(* ojn_ln_pairing, core: the reader's single hold buffer walked over the file order produces, up to order,
   exactly the per-column head->tail pairing; it never fails on well-paired columns and ends empty *)
Lemma walk_flat_pairing l : forall hb,
  hb_nodup hb ->
  Forall (fun x => In (fst x) cols) l ->
  (forall c, In c cols -> pairing_ok (proj c l) (is_some (hb_get hb c)) = true) ->
  (forall c, ~ In c cols -> hb_get hb c = None) ->
  exists E hb', walk_flat l hb = Some (E, hb')
    /\ Permutation E (flat_map (fun c => pair_ev c (proj c l) (hb_get hb c)) cols)
    /\ hb' = [].
Proof.
  induction l as [|[c0 [[[p vol] pan] kind]] r IH]; intros hb N Hin Hok Hout.
  - exists [], hb. cbn [walk_flat]. split; [reflexivity|]. split.
    + rewrite (flat_map_ext_in _ (fun _ => [])); [rewrite flat_map_nil; constructor|reflexivity].
    + apply hb_all_none_nil. intro c. destruct (in_dec Z.eq_dec c cols) as [I|I]; [|apply Hout; exact I].
      specialize (Hok c I). cbn [proj flat_map pairing_ok] in Hok. destruct (hb_get hb c); [discriminate|reflexivity].
  - inversion Hin as [|? ? Hc0 Hin']; subst. cbn [fst] in Hc0.
    assert (Pr : forall c, proj c ((c0, (p, vol, pan, kind)) :: r) = if c0 =? c then (p, vol, pan, kind) :: proj c r else proj c r).
    { intro c. unfold proj. cbn [flat_map fst snd]. destruct (c0 =? c); reflexivity. }
    pose proof (Hok c0 Hc0) as Hok0. rewrite Pr, Z.eqb_refl in Hok0. cbn [pairing_ok] in Hok0.
    cbn [walk_flat].
    destruct (kind =? ref_kind_tap) eqn:K0.
    { destruct (IH hb N Hin') as (E & hb' & W & P & Hn); auto.
      { intros c Hc. specialize (Hok c Hc). rewrite Pr in Hok. destruct (Z.eqb_spec c0 c); [subst c; exact Hok0|exact Hok]. }
      rewrite W. eexists _, hb'. split; [reflexivity|]. split; [|exact Hn].
      rewrite (flat_map_ext_in _ (fun c => if c =? c0 then EHit p c0 vol pan :: pair_ev c (proj c r) (hb_get hb c)
                                           else pair_ev c (proj c r) (hb_get hb c))).
      2:{ intros c _. rewrite Pr. rewrite (Z.eqb_sym c c0). destruct (Z.eqb_spec c0 c); [subst c; cbn [pair_ev]; rewrite K0|]; reflexivity. }
      apply perm_trans with (EHit p c0 vol pan :: flat_map (fun c => pair_ev c (proj c r) (hb_get hb c)) cols).
      - apply perm_skip. exact P.
      - apply Permutation_sym. apply (perm_insert_col (EHit p c0 vol pan) (fun c => pair_ev c (proj c r) (hb_get hb c)) c0 cols cols_nodup Hc0). }
    destruct (kind =? ref_kind_head) eqn:K2.
    { apply andb_true_iff in Hok0 as [_ Hok0].
      destruct (IH (hb_set hb c0 (p, vol, pan)) (hb_nodup_set _ _ _ N) Hin') as (E & hb' & W & P & Hn).
      { intros c Hc. rewrite hb_get_set. specialize (Hok c Hc). rewrite Pr in Hok.
        destruct (Z.eqb_spec c0 c); [subst c; exact Hok0|exact Hok]. }
      { intros c Hc. rewrite hb_get_set. destruct (Z.eqb_spec c0 c); [subst; contradiction|apply Hout; exact Hc]. }
      rewrite W. exists E, hb'. split; [reflexivity|]. split; [|exact Hn].
      rewrite (flat_map_ext_in _ (fun c => pair_ev c (proj c r) (hb_get (hb_set hb c0 (p, vol, pan)) c))); [exact P|].
      intros c _. rewrite Pr, hb_get_set. destruct (Z.eqb_spec c0 c); [subst c; cbn [pair_ev]; rewrite K0, K2|]; reflexivity. }
    destruct (kind =? ref_kind_tail) eqn:K3; [|discriminate].
    apply andb_true_iff in Hok0 as [Hopen Hok0].
    destruct (hb_get hb c0) as [[[hm hvol] hpan]|] eqn:G; [|discriminate].
    destruct (hb_pop_spec hb c0 _ N G) as (hb1 & Pp & N1 & G1). rewrite Pp.
    destruct (IH hb1 N1 Hin') as (E & hb' & W & P & Hn).
    { intros c Hc. rewrite G1. specialize (Hok c Hc). rewrite Pr in Hok.
      destruct (Z.eqb_spec c0 c); [subst c; exact Hok0|exact Hok]. }
    { intros c Hc. rewrite G1. destruct (Z.eqb_spec c0 c); [reflexivity|apply Hout; exact Hc]. }
    rewrite W. eexists _, hb'. split; [reflexivity|]. split; [|exact Hn].
    rewrite (flat_map_ext_in _ (fun c => if c =? c0 then EHold hm p c0 hvol hpan :: pair_ev c (proj c r) (hb_get hb1 c)
                                         else pair_ev c (proj c r) (hb_get hb1 c))).
    2:{ intros c _. rewrite Pr, G1. rewrite (Z.eqb_sym c c0).
        destruct (Z.eqb_spec c0 c); [subst c; cbn [pair_ev]; rewrite K0, K2, K3, G|]; reflexivity. }
    apply perm_trans with (EHold hm p c0 hvol hpan :: flat_map (fun c => pair_ev c (proj c r) (hb_get hb1 c)) cols).
    + apply perm_skip. exact P.
    + apply Permutation_sym. apply (perm_insert_col _ (fun c => pair_ev c (proj c r) (hb_get hb1 c)) c0 cols cols_nodup Hc0).
Qed.
End Pairing.
