(* C11, lists with TIES (two or more tempo changes on one position): domain wf_ties.
   A. the domain in Prop form; offsets are non-decreasing          B. a zero-length gap takes no branch (stepk_zero)
   C. termination (loop_no_fuel_ties)                             D. go meets the strong spec with ties (go_spec_ties)
   E. refinesb decides refines                                    F. consequences of refines over non-decreasing times
   G. the property theorems                                       H. what is false with ties (first-match bpm reading)
   The strict machinery of ReseatProofs.v is reused: pass_shape, loop_go, good_chain, stepk_sem, stepk_term. *)
From Coq Require Import ZArith QArith Qround Qabs List Bool Lia Lqa.
From RV Require Import Base.PyNum Timing.Snapper Timing.Snap Timing.TimingMap Timing.Integrate Timing.Domain
  Timing.Reseat Timing.ReseatSpec Timing.ReseatDomain Proofs.SnapperProofs Proofs.TimingProofs Proofs.RederiveProofs
  Proofs.ReseatProofs.
Import ListNotations.
Open Scope Q_scope.

(* ================================================================== A. the domain wf_ties, in Prop form *)
Fixpoint wfT_go (met : Q) (prev : snap) (l : list bcs) : Prop :=
  match l with
  | [] => True
  | c :: l' => sle prev (bs_snap c) /\ 0 < bs_bpm c /\ bs_met c == met /\ s_met (bs_snap c) == met
               /\ 0 <= s_b (bs_snap c) /\ s_b (bs_snap c) < met /\ wfT_go met (bs_snap c) l'
  end.
Lemma wf_ties_go_P met prev l : wf_ties_go met prev l = true -> wfT_go met prev l.
Proof.
  revert prev. induction l as [|c l IH]; intros prev H; [exact I|].
  cbn [wf_ties_go] in H.
  apply andb_true_iff in H. destruct H as [H H7]. apply andb_true_iff in H. destruct H as [H H6].
  apply andb_true_iff in H. destruct H as [H H5]. apply andb_true_iff in H. destruct H as [H H4].
  apply andb_true_iff in H. destruct H as [H H3]. apply andb_true_iff in H. destruct H as [H1 H2].
  cbn [wfT_go]. change (snap_lt prev (bs_snap c) || snap_eq prev (bs_snap c)) with (snap_le prev (bs_snap c)) in H1.
  apply snap_le_iff in H1. apply Qlt_bool_iff in H2, H6. apply Qeq_bool_iff in H3, H4. apply Qle_bool_iff in H5.
  repeat split; auto.
Qed.
Lemma wf_ties_P l : wf_ties l = true ->
  exists c rest, l = c :: rest /\ s_m (bs_snap c) = 0%Z /\ s_b (bs_snap c) == 0 /\ 0 < bs_bpm c /\
    is_intQ (bs_met c) /\ 1 <= bs_met c /\ s_met (bs_snap c) == bs_met c /\ wfT_go (bs_met c) (bs_snap c) rest.
Proof.
  destruct l as [|c rest]; [discriminate|]. intro H. cbn [wf_ties] in H.
  apply andb_true_iff in H. destruct H as [H H8]. apply andb_true_iff in H. destruct H as [H H7].
  apply andb_true_iff in H. destruct H as [H H6]. apply andb_true_iff in H. destruct H as [H H5].
  apply andb_true_iff in H. destruct H as [H H4]. apply andb_true_iff in H. destruct H as [H H3].
  apply andb_true_iff in H. destruct H as [H1 H2].
  apply Z.eqb_eq in H1. apply Qeq_bool_iff in H2, H4, H7. apply Qlt_bool_iff in H3. apply Qle_bool_iff in H5.
  exists c, rest. repeat split; auto. - eexists; exact H4. - apply wf_ties_go_P; exact H8.
Qed.

(* the strict domain is inside the tie-tolerant one *)
Lemma wf_unseated_go_ties met prev l : wf_unseated_go met prev l = true -> wf_ties_go met prev l = true.
Proof.
  revert prev. induction l as [|c l IH]; intros prev H; [reflexivity|]. cbn [wf_unseated_go wf_ties_go] in *.
  apply andb_true_iff in H. destruct H as [H H7]. rewrite (IH _ H7), andb_true_r.
  apply andb_true_iff in H. destruct H as [H H6]. apply andb_true_iff in H. destruct H as [H H5].
  apply andb_true_iff in H. destruct H as [H H4]. apply andb_true_iff in H. destruct H as [H H3].
  apply andb_true_iff in H. destruct H as [H1 H2]. rewrite H1, H2, H3, H4, H5, H6. reflexivity.
Qed.
Theorem wf_unseated_ties l : wf_unseated l = true -> wf_ties l = true.
Proof.
  destruct l as [|c rest]; [discriminate|]. cbn [wf_unseated wf_ties]. intro H.
  apply andb_true_iff in H. destruct H as [H H8]. rewrite H, (wf_unseated_go_ties _ _ _ H8). reflexivity.
Qed.

Lemma wfT_okc met prev rest : 0 < met -> is_intQ met -> wfT_go met prev rest -> Forall okc rest.
Proof.
  intros Hm Hi. revert prev. induction rest as [|c rest IH]; intros prev H; [constructor|].
  destruct H as (H1 & H2 & H3 & H4 & H5 & H6 & H7). constructor; [|apply (IH _ H7)].
  split; [exact H2|]. split; [rewrite H3; exact Hm|apply (is_intQ_comp _ met); assumption].
Qed.
Lemma wfT_smet met prev rest : 0 < met -> wfT_go met prev rest -> Forall smet_pos rest.
Proof.
  intros Hm. revert prev. induction rest as [|c rest IH]; intros prev H; [constructor|].
  destruct H as (H1 & H2 & H3 & H4 & H5 & H6 & H7). constructor; [|apply (IH _ H7)].
  split; [rewrite H3|rewrite H4]; exact Hm.
Qed.

Lemma wfT_adj_ok met p rest : wfT_go met (bs_snap p) rest -> adj_ok bcs_lt (p :: rest).
Proof.
  revert p. induction rest as [|c rest IH]; intros p H; [exact I|]. destruct H as (Hle & _ & _ & _ & _ & _ & Hs).
  cbn [adj_ok]. split; [|apply IH; exact Hs]. unfold bcs_lt.
  destruct (snap_lt (bs_snap c) (bs_snap p)) eqn:E; auto. apply snap_lt_iff in E.
  exfalso. apply (slt_not_sle _ _ E). exact Hle.
Qed.

Lemma seg_beats_nonneg met sp sc : 0 < met -> sle sp sc -> 0 <= s_b sc -> s_b sp < met -> 0 <= seg_beats met sp sc.
Proof.
  intros Hmet [H|[H1 H2]] Hb Hp.
  - assert (X: 0 < seg_beats met sp sc) by (apply seg_beats_pos; auto; left; exact H). lra.
  - unfold seg_beats. rewrite H1, Z.sub_diag. change (inject_Z 0) with 0. lra.
Qed.

(* the offsets the implementation accumulates are the integrated times; they never decrease *)
Lemma rel_offsets_ok_ties met : 0 < met -> forall rest p off,
  0 < bs_bpm p -> bs_met p == met -> s_met (bs_snap p) == met -> s_b (bs_snap p) < met ->
  wfT_go met (bs_snap p) rest ->
  exists offs, rel_offsets_go off p rest = Some offs /\ offs_ok off p rest offs /\ mono_offs off offs.
Proof.
  intros Hmet. induction rest as [|c rest IH]; intros p off Hbpm Hm1 Hm2 Hb H.
  - exists []. repeat split.
  - destruct H as (H1 & H2 & H3 & H4 & H5 & H6 & H7). cbn [rel_offsets_go].
    assert (Hmp: 0 < s_met (bs_snap p)) by (rewrite Hm2; exact Hmet).
    assert (Hb': s_b (bs_snap p) < s_met (bs_snap p)) by (rewrite Hm2; exact Hb).
    pose proof (seg_beats_nonneg (s_met (bs_snap p)) _ _ Hmp H1 H5 Hb') as Hpos.
    assert (Hge: (0 <= s_m (bs_snap c) - s_m (bs_snap p))%Z).
    { pose proof (sle_m _ _ H1). lia. }
    assert (Hval: 0 <= snap_val (s_met (bs_snap p)) (s_m (bs_snap c) - s_m (bs_snap p)) (s_b (bs_snap c) - s_b (bs_snap p))).
    { unfold snap_val. unfold seg_beats in Hpos. lra. }
    destruct (snap_norm_defined _ _ _ Hge Hmp Hval) as [d Hd].
    assert (Hsub: snap_sub (bs_snap c) (bs_snap p) = Some d) by exact Hd. rewrite Hsub.
    destruct (snap_norm_value _ _ _ _ Hge Hmp Hd) as [Ev _].
    set (off' := Qred (off + snap_offset d (bs_bpm p) (bs_met p))).
    assert (Eoff: off' - off == beat_len (bs_bpm p) * seg_beats (bs_met p) (bs_snap p) (bs_snap c)).
    { unfold off'. rewrite Qred_correct. unfold snap_offset, measure_len, seg_beats. unfold snap_val in Ev.
      rewrite Hm2 in Ev. rewrite Hm1.
      assert (X: off + (beat_len (bs_bpm p) * met * inject_Z (s_m d) + beat_len (bs_bpm p) * s_b d) - off
                 == beat_len (bs_bpm p) * (inject_Z (s_m d) * met + s_b d)) by ring.
      rewrite X, Ev. reflexivity. }
    assert (Hb6: s_b (bs_snap c) < met) by exact H6.
    destruct (IH c off' H2 H3 H4 Hb6 H7) as (offs & E1 & E2 & E3). rewrite E1.
    exists (off' :: offs). split; [reflexivity|]. split; [split; assumption|]. split; [|exact E3].
    pose proof (beat_len_pos _ Hbpm) as Hbl.
    assert (0 <= beat_len (bs_bpm p) * seg_beats (bs_met p) (bs_snap p) (bs_snap c)).
    { apply Qmult_le_0_compat; [lra|]. unfold seg_beats in *. rewrite Hm1. rewrite Hm2 in Hpos. exact Hpos. }
    lra.
Qed.

Lemma wf_prepare_ties l : wf_ties l = true ->
  exists c rest offs, l = c :: rest /\ sort_by bcs_lt l = l /\ rel_offsets_go 0 c rest = Some offs /\
    offs_ok 0 c rest offs /\ mono_offs 0 offs /\ okc c /\ Forall okc rest /\
    s_m (bs_snap c) = 0%Z /\ s_b (bs_snap c) == 0.
Proof.
  intro H. destruct (wf_ties_P l H) as (c & rest & -> & H1 & H2 & H3 & H4 & H5 & H6 & H7).
  assert (Hmet: 0 < bs_met c) by lra.
  destruct (rel_offsets_ok_ties (bs_met c) Hmet rest c 0 H3 ltac:(reflexivity) H6 ltac:(lra) H7) as (offs & E1 & E2 & E3).
  exists c, rest, offs. split; [reflexivity|]. split; [apply sort_by_adj_ok; apply (wfT_adj_ok (bs_met c)); exact H7|].
  split; [exact E1|]. split; [exact E2|]. split; [exact E3|]. split; [repeat split; assumption|].
  split; [apply (wfT_okc (bs_met c) (bs_snap c)); assumption|]. split; assumption.
Qed.

(* ================================================================== B. a zero-length gap takes no branch *)
Lemma stepk_zero thr m bpm met o0 o1 : 0 <= thr -> 0 < bpm -> 0 < met -> o1 - o0 == 0 ->
  stepk thr m bpm met o0 o1 = SKeep m.
Proof.
  intros Hthr Hbpm Hmet Hod. pose proof (beat_len_pos _ Hbpm) as Hbl.
  assert (Hml: measure_len bpm met == beat_len bpm * met) by reflexivity.
  assert (Hmlp: 0 < measure_len bpm met) by (rewrite Hml; apply Qmult_lt_0_compat; assumption).
  assert (Emd: q_md bpm met o0 o1 == 0) by (unfold q_md; rewrite Hod; field; lra).
  assert (Ebd: q_bd bpm o0 o1 == 0) by (unfold q_bd; rewrite Hod; field; lra).
  assert (Emq: Qfloor (q_md bpm met o0 o1) = 0%Z) by (rewrite (Qfloor_comp _ _ Emd); reflexivity).
  assert (Ebq: Qfloor (q_bd bpm o0 o1) = 0%Z) by (rewrite (Qfloor_comp _ _ Ebd); reflexivity).
  unfold stepk. rewrite Emq, Ebq.
  set (MR := Qred (q_md bpm met o0 o1 - inject_Z 0)). set (BR := Qred (q_bd bpm o0 o1 - inject_Z 0)).
  assert (EMR: MR == 0) by (unfold MR; rewrite Qred_correct, Emd; reflexivity).
  assert (EBR: BR == 0) by (unfold BR; rewrite Qred_correct, Ebd; reflexivity).
  unfold stepq. cbv zeta.
  assert (C1: Qlt_bool 0 MR = false) by (apply Qlt_bool_false; lra).
  assert (C2: Qlt_bool 0 BR = false) by (apply Qlt_bool_false; lra).
  assert (C3: Qlt_bool thr MR = false) by (apply Qlt_bool_false; lra).
  rewrite C1, C2, C3. cbn [andb]. rewrite Z.add_0_r. reflexivity.
Qed.

(* ================================================================== C. termination with ties *)
Lemma loop_no_fuel_ties thr : 0 <= thr -> thr <= 1 # 2 -> forall suf osuf pre opre b0 o0 meas fuel,
  length pre = length opre -> length suf = length osuf -> okc b0 -> Forall okc suf -> mono_offs o0 osuf ->
  (2 * length suf + 1 <= fuel)%nat ->
  reseat_loop fuel thr (length pre) meas (pre ++ b0 :: suf) (opre ++ o0 :: osuf) <> RFuel.
Proof.
  intros Hthr Hthr2. induction suf as [|b1 suf IH]; intros osuf pre opre b0 o0 meas fuel HL HL2 Hb0 Hsuf Hinc Hfuel.
  - destruct fuel as [|fuel]; [cbn in Hfuel; lia|]. rewrite pass_exit. discriminate.
  - destruct osuf as [|o1 osuf]; [discriminate|]. destruct fuel as [|fuel]; [cbn in Hfuel; lia|].
    cbn [length] in Hfuel, HL2. destruct Hinc as [Ho Hinc]. destruct Hb0 as (B1 & B2 & B3).
    inversion Hsuf as [|? ? Hb1 Hsuf']; subst.
    rewrite pass_shape by assumption.
    destruct (Qlt_le_dec o0 o1) as [Hlt|Hge].
    + assert (Hod: 0 < o1 - o0) by lra.
      pose proof (stepk_term thr meas (bs_bpm b0) (bs_met b0) o0 o1 Hthr Hthr2 B1 B2 B3 Hod) as T.
      destruct (stepk thr meas (bs_bpm b0) (bs_met b0) o0 o1) as [|c off m|c off m|m].
      * discriminate.
      * apply IH; auto; try (rewrite !length_snoc); try lia.
      * destruct fuel as [|fuel]; [lia|].
        rewrite pass_shape by (rewrite !length_snoc; lia). cbn [set_snap bs_bpm bs_met].
        destruct (stepk thr m (bs_bpm c) (bs_met c) off o1) as [|c2 off2 m2|c2 off2 m2|m2].
        -- discriminate.
        -- apply IH; auto; try (rewrite !length_snoc); try lia.
        -- destruct T.
        -- apply IH; auto; try (rewrite !length_snoc); try lia.
      * apply IH; auto; try (rewrite !length_snoc); try lia.
    + assert (Hod: o1 - o0 == 0) by lra.
      rewrite (stepk_zero thr meas _ _ o0 o1 Hthr B1 B2 Hod).
      apply IH; auto; try (rewrite !length_snoc); try lia.
Qed.

Theorem reseat_terminates_ties_thr thr l : 0 <= thr -> thr <= 1 # 2 -> wf_ties l = true -> reseat_with thr l <> RFuel.
Proof.
  intros Hthr Hthr2 H. destruct (wf_prepare_ties l H) as (c & rest & offs & -> & Es & Eo & Ok & Inc & Hc & Hrest & _ & _).
  unfold reseat_with. rewrite Es, Eo.
  apply (loop_no_fuel_ties thr Hthr Hthr2 rest offs [] [] c 0 0%Z); auto.
  - apply (offs_ok_length _ _ _ _ Ok).
  - cbn [length]. lia.
Qed.
Theorem reseat_terminates_ties l : wf_ties l = true -> reseat l <> RFuel.
Proof. apply reseat_terminates_ties_thr; unfold THRESHOLD; lra. Qed.

(* ================================================================== D. `go` meets the strong spec, ties allowed *)
Definition posc (c : bcs) : Prop := 0 < bs_bpm c /\ 0 < bs_met c.

Lemma whole_zero c0 c1 : 0 < bs_met c0 -> seg_beats (bs_met c0) (bs_snap c0) (bs_snap c1) == 0 -> whole c0 c1.
Proof.
  intros Hm E. unfold whole. cbv zeta.
  assert (Eg: seg_beats (bs_met c0) (bs_snap c0) (bs_snap c1) / bs_met c0 == inject_Z 0).
  { rewrite E. change (inject_Z 0) with 0. field. lra. }
  rewrite (Qfloor_comp _ _ Eg), Qfloor_Z. exact Eg.
Qed.

Lemma go_spec_ties thr : 0 <= thr -> forall suf osuf c0 b0 o0 meas,
  bs_bpm b0 = bs_bpm c0 -> bs_met b0 = bs_met c0 ->
  s_m (bs_snap b0) = meas -> s_b (bs_snap b0) == 0 -> (0 <= meas)%Z ->
  okc c0 -> Forall okc suf -> offs_ok o0 c0 suf osuf -> mono_offs o0 osuf ->
  gaps_forall (gap_okb thr) c0 suf = true ->
  good_chain thr meas b0 o0 suf osuf /\
  exists h r, go thr meas b0 o0 suf osuf = h :: r /\ s_m (bs_snap h) = meas /\ s_b (bs_snap h) == 0 /\
              nondec_from meas r /\ Forall posc (h :: r) /\
              forall t0 u0, t0 == o0 -> u0 == o0 -> refines (timeline t0 (c0 :: suf)) (timeline u0 (h :: r)).
Proof.
  intro Hthr. induction suf as [|c1 suf IH]; intros osuf c0 b0 o0 meas Eb Em Hsm Hsb Hmeas Hc0 Hsuf Hoff Hinc Hg; subst meas.
  - destruct osuf as [|o1 osuf]; [|destruct Hoff]. split; [exact I|].
    exists b0, []. cbn [go]. split; [reflexivity|]. split; [reflexivity|]. split; [exact Hsb|]. split; [exact I|].
    split; [constructor; [|constructor]; unfold posc; rewrite Eb, Em; destruct Hc0 as (B1 & B2 & _); split; assumption|].
    intros t0 u0 Et Eu. cbn. apply rf_last; [rewrite Et, Eu; reflexivity|rewrite Eb; reflexivity].
  - destruct osuf as [|o1 osuf]; [destruct Hoff|]. destruct Hoff as [Hod Hoff]. destruct Hinc as [Ho Hinc].
    cbn [gaps_forall] in Hg. apply andb_true_iff in Hg. destruct Hg as [Hg1 Hg].
    inversion Hsuf as [|? ? Hc1 Hsuf']; subst.
    pose proof Hc0 as Hc0'. destruct Hc0 as (B1 & B2 & B3).
    assert (Pb0: posc b0) by (unfold posc; rewrite Eb, Em; split; assumption).
    cbn [good_chain go]. rewrite Eb, Em.
    set (bl0 := beat_len (bs_bpm c0)) in *. set (d := seg_beats (bs_met c0) (bs_snap c0) (bs_snap c1)) in *.
    destruct (Qlt_le_dec o0 o1) as [Hlt|Hge].
    { assert (Hodp: 0 < o1 - o0) by lra.
      pose proof (stepk_sem thr (s_m (bs_snap b0)) (bs_bpm c0) (bs_met c0) o0 o1 _ Hthr B1 B2 B3 Hmeas Hodp Hod Hg1) as S.
      fold (whole c0 c1) in S.
      destruct (stepk thr (s_m (bs_snap b0)) (bs_bpm c0) (bs_met c0) o0 o1) as [|c off m|c off m|m]; cbn [gap_post] in S.
      + destruct S.
      + (* replace *)
        destruct S as (S1 & S2 & S3 & S4 & S5 & S6 & S7).
        destruct (IH osuf c1 (set_snap c1 m) o1 m) as [G (h & r & Eg & H1 & H2 & H3 & HP & H4)]; auto; try lia; try reflexivity.
        split; [exact G|]. exists c, (h :: r). rewrite Eg.
        split; [reflexivity|]. split; [exact S2|]. split; [exact S3|].
        split; [cbn [nondec_from]; split; [lia|split; [exact H2|rewrite H1; exact H3]]|].
        split; [constructor; [split; assumption|exact HP]|].
        intros t0 u0 Et Eu. rewrite !timeline_cons2. fold bl0 d.
        destruct (timeline_cons1 (t0 + bl0 * d) c1 suf) as [ts Ets].
        assert (R := H4 (t0 + bl0 * d) (u0 + beat_len (bs_bpm c) * seg_beats (bs_met c) (bs_snap c) (bs_snap h))).
        rewrite Ets in *. apply rf_keep; [rewrite Et, Eu; reflexivity|intro W; contradiction|].
        apply R; [rewrite Et, <- Hod; ring|].
        assert (E1: o1 == o0 + beat_len (bs_bpm c) * bs_met c) by (rewrite <- S6; ring).
        unfold seg_beats. rewrite H1, S2, S1, H2, S3, Eu.
        assert (Z1: (s_m (bs_snap b0) + 1 - s_m (bs_snap b0) = 1)%Z) by lia. rewrite Z1. change (inject_Z 1) with 1.
        rewrite E1. ring.
      + (* insert *)
        destruct S as (S1 & S2 & S3 & S4 & S5 & S6 & S7 & S8 & S9).
        destruct (IH osuf c1 (set_snap c1 (m + 1)) o1 (m + 1)%Z) as [G (h & r & Eg & H1 & H2 & H3 & HP & H4)]; auto; try lia; try reflexivity.
        split; [split; [exact S9|exact G]|]. exists b0, (set_snap c m :: h :: r). rewrite Eg.
        split; [reflexivity|]. split; [reflexivity|]. split; [exact Hsb|].
        split.
        { cbn [nondec_from set_snap bs_snap s_m s_b]. split; [lia|]. split; [reflexivity|]. split; [lia|].
          split; [exact H2|]. rewrite H1. exact H3. }
        split; [constructor; [exact Pb0|constructor; [split; assumption|exact HP]]|].
        intros t0 u0 Et Eu. rewrite (timeline_cons2 t0 c0 c1), (timeline_cons2 u0 b0), (timeline_cons2 _ (set_snap c m) h).
        fold bl0 d.
        destruct (timeline_cons1 (t0 + bl0 * d) c1 suf) as [ts Ets].
        set (x := u0 + beat_len (bs_bpm b0) * seg_beats (bs_met b0) (bs_snap b0) (bs_snap (set_snap c m))).
        assert (Eoff: off == o0 + bl0 * (inject_Z (m - s_m (bs_snap b0)) * bs_met c0)) by (unfold bl0; lra).
        assert (Ex: x == off).
        { unfold x, seg_beats. cbn [set_snap bs_snap s_m s_b]. rewrite Eb, Em, Hsb, Eu, Eoff. fold bl0. ring. }
        assert (R := H4 (t0 + bl0 * d)
                        (x + beat_len (bs_bpm (set_snap c m)) * seg_beats (bs_met (set_snap c m)) (bs_snap (set_snap c m)) (bs_snap h))).
        rewrite Ets in *. apply rf_extra.
        * rewrite Et, Eu; reflexivity.
        * exact S8.
        * rewrite Eb; reflexivity.
        * rewrite Ex, Et. lra.
        * rewrite Ex, Et, <- Hod. lra.
        * apply R; [rewrite Et, <- Hod; ring|].
          assert (E1: o1 == off + beat_len (bs_bpm c) * bs_met c) by (rewrite <- S6; ring).
          unfold seg_beats. cbn [set_snap bs_snap bs_bpm bs_met s_m s_b]. rewrite H1, H2, Ex.
          assert (Z1: (m + 1 - m = 1)%Z) by lia. rewrite Z1. change (inject_Z 1) with 1. rewrite E1. ring.
      + (* keep *)
        destruct S as (S1 & S2 & S3).
        destruct (IH osuf c1 (set_snap c1 m) o1 m) as [G (h & r & Eg & H1 & H2 & H3 & HP & H4)]; auto; try lia; try reflexivity.
        split; [exact G|]. exists b0, (h :: r). rewrite Eg.
        split; [reflexivity|]. split; [reflexivity|]. split; [exact Hsb|].
        split; [cbn [nondec_from]; split; [lia|split; [exact H2|rewrite H1; exact H3]]|].
        split; [constructor; [exact Pb0|exact HP]|].
        intros t0 u0 Et Eu. rewrite !timeline_cons2. fold bl0 d.
        destruct (timeline_cons1 (t0 + bl0 * d) c1 suf) as [ts Ets].
        assert (R := H4 (t0 + bl0 * d) (u0 + beat_len (bs_bpm b0) * seg_beats (bs_met b0) (bs_snap b0) (bs_snap h))).
        rewrite Ets in *. apply rf_keep; [rewrite Et, Eu; reflexivity|intro W; rewrite Eb; reflexivity|].
        apply R; [rewrite Et, <- Hod; ring|].
        assert (E1: o1 == o0 + bl0 * (inject_Z (m - s_m (bs_snap b0)) * bs_met c0)) by (unfold bl0; lra).
        unfold seg_beats. rewrite Eb, Em, H1, H2, Hsb, Eu, E1. fold bl0. ring. }
    (* a tie: zero-length gap, no branch, the next change is seated on the SAME measure line *)
    assert (Hod0: o1 - o0 == 0) by lra.
    rewrite (stepk_zero thr (s_m (bs_snap b0)) _ _ o0 o1 Hthr B1 B2 Hod0).
    set (m := s_m (bs_snap b0)) in *.
    destruct (IH osuf c1 (set_snap c1 m) o1 m) as [G (h & r & Eg & H1 & H2 & H3 & HP & H4)]; auto; try lia; try reflexivity.
    split; [exact G|]. exists b0, (h :: r). rewrite Eg.
    split; [reflexivity|]. split; [reflexivity|]. split; [exact Hsb|].
    split; [cbn [nondec_from]; split; [lia|split; [exact H2|rewrite H1; exact H3]]|].
    split; [constructor; [exact Pb0|exact HP]|].
    intros t0 u0 Et Eu. rewrite !timeline_cons2. fold bl0 d.
    destruct (timeline_cons1 (t0 + bl0 * d) c1 suf) as [ts Ets].
    assert (R := H4 (t0 + bl0 * d) (u0 + beat_len (bs_bpm b0) * seg_beats (bs_met b0) (bs_snap b0) (bs_snap h))).
    rewrite Ets in *. apply rf_keep; [rewrite Et, Eu; reflexivity|intro W; rewrite Eb; reflexivity|].
    apply R; [rewrite Et, <- Hod; ring|].
    unfold seg_beats. fold m. rewrite H1, H2, Hsb, Eu. rewrite Z.sub_diag. change (inject_Z 0) with 0. lra.
Qed.

(* ================================================================== E. refinesb decides refines *)
Lemma wholeb_iff c n : wholeb c n = true <-> whole c n.
Proof. unfold wholeb, whole. cbv zeta. apply Qeq_bool_iff. Qed.

Lemma refinesb_step t c t' c' ts u d x e us'' :
  refinesb ((t, c) :: (t', c') :: ts) ((u, d) :: (x, e) :: us'') =
    Qeq_bool t u &&
    (if Qeq_bool x t'
     then (negb (wholeb c c') || Qeq_bool (bs_bpm d) (bs_bpm c)) && refinesb ((t', c') :: ts) ((x, e) :: us'')
     else negb (wholeb c c') && Qeq_bool (bs_bpm d) (bs_bpm c) && Qlt_bool t x && Qlt_bool x t'
          && refinesb ((t', c') :: ts) us'').
Proof. reflexivity. Qed.

Theorem refinesb_sound ts : forall us, refinesb ts us = true -> refines ts us.
Proof.
  induction ts as [|[t c] ts IH]; intros us H; [discriminate|].
  destruct ts as [|[t' c'] ts].
  - cbn [refinesb] in H. destruct us as [|[u d] [|? ?]]; try discriminate.
    apply andb_true_iff in H. destruct H as [H1 H2]. apply Qeq_bool_iff in H1, H2. apply rf_last; assumption.
  - destruct us as [|[u d] [|[x e] us'']]; try discriminate. rewrite refinesb_step in H.
    apply andb_true_iff in H. destruct H as [H1 H]. apply Qeq_bool_iff in H1.
    destruct (Qeq_bool x t') eqn:Ex.
    + apply andb_true_iff in H. destruct H as [H2 H3]. apply rf_keep; [exact H1| |apply IH; exact H3].
      intro W. apply wholeb_iff in W. rewrite W in H2. cbn [negb orb] in H2. apply Qeq_bool_iff. exact H2.
    + apply andb_true_iff in H. destruct H as [H H6]. apply andb_true_iff in H. destruct H as [H H5].
      apply andb_true_iff in H. destruct H as [H H4]. apply andb_true_iff in H. destruct H as [H2 H3].
      apply Qeq_bool_iff in H3. apply Qlt_bool_iff in H4, H5. apply negb_true_iff in H2.
      apply rf_extra; auto.
      intro W. apply wholeb_iff in W. congruence.
Qed.

Theorem refinesb_complete ts us : refines ts us -> refinesb ts us = true.
Proof.
  induction 1 as [t c u d E Eb|t c t' c' ts u d us E Eb R IH|t c t' c' ts u d x e us E W Eb L1 L2 R IH].
  - cbn [refinesb]. apply Qeq_bool_iff in E, Eb. rewrite E, Eb. reflexivity.
  - destruct (refines_head _ _ _ _ R) as (u' & d' & us' & -> & E'). rewrite refinesb_step.
    apply Qeq_bool_iff in E. rewrite E. cbn [andb].
    assert (X: Qeq_bool u' t' = true) by (apply Qeq_bool_iff; rewrite E'; reflexivity). rewrite X, IH, andb_true_r.
    destruct (wholeb c c') eqn:Wb; [|reflexivity]. cbn [negb orb]. apply Qeq_bool_iff. apply Eb. apply wholeb_iff. exact Wb.
  - rewrite refinesb_step. apply Qeq_bool_iff in E. rewrite E. cbn [andb].
    assert (X: Qeq_bool x t' = false).
    { destruct (Qeq_bool x t') eqn:Y; [|reflexivity]. apply Qeq_bool_iff in Y. lra. }
    rewrite X, IH, andb_true_r.
    assert (Wb: wholeb c c' = false).
    { destruct (wholeb c c') eqn:Y; [|reflexivity]. apply wholeb_iff in Y. contradiction. }
    apply Qeq_bool_iff in Eb. apply Qlt_bool_iff in L1, L2. rewrite Wb, Eb, L1, L2. reflexivity.
Qed.

(* ================================================================== F. consequences of refines over NON-DECREASING original times *)
Lemma mono_nth os : forall t k y, mono_offs t os -> nth_error os k = Some y -> t <= y.
Proof.
  induction os as [|o os IH]; intros t k y H Hk; [destruct k; discriminate|]. destruct H as [H1 H2]. destruct k as [|k].
  - cbn in Hk. injection Hk as <-. exact H1.
  - cbn in Hk. specialize (IH o k y H2 Hk). lra.
Qed.
Lemma nondecr_nth_head a os k y : nondecr (a :: os) -> nth_error (a :: os) k = Some y -> a <= y.
Proof.
  intros H Hk. destruct k as [|k]; [cbn in Hk; injection Hk as <-; lra|]. cbn in Hk. apply (mono_nth os a k y H Hk).
Qed.
Lemma incr_mono o os : incr_offs o os -> mono_offs o os.
Proof. revert o. induction os as [|x os IH]; intros o H; [exact I|]. destruct H as [H1 H2]. split; [lra|apply IH; exact H2]. Qed.

(* --- lower bound *)
Lemma refines_lower_m ts us : refines ts us ->
  match ts with
  | [] => True
  | (t, _) :: ts' => mono_offs t (map fst ts') -> forall x, In x (map fst us) -> t <= x
  end.
Proof.
  induction 1 as [t c u d E Eb|t c t' c' ts u d us E Eb R IH|t c t' c' ts u d x e us E W Eb L1 L2 R IH].
  - intros _ y [<-|[]]. cbn [fst]. lra.
  - cbn [map fst mono_offs In] in *. intros [I1 I2] y [<-|Hin]; [lra|]. specialize (IH I2 y Hin). lra.
  - cbn [map fst mono_offs In] in *. intros [I1 I2] y [<-|[<-|Hin]]; [lra|lra|]. specialize (IH I2 y Hin). lra.
Qed.

(* --- at most one extra point per original interval (an interval of a tie is empty), none outside *)
Lemma refines_one_extra_m ts us : refines ts us ->
  match ts with
  | [] => True
  | (t, _) :: ts' => mono_offs t (map fst ts') ->
      forall done, (forall x, In x done -> x <= t) -> one_extra_go t (map fst ts') (done ++ map fst us) = true
  end.
Proof.
  induction 1 as [t c u d E Eb|t c t' c' ts u d us E Eb R IH|t c t' c' ts u d x e us E W Eb L1 L2 R IH].
  - intros _ done Hd. cbn [map one_extra_go fst]. rewrite forallb_app. apply andb_true_iff. split.
    + apply forallb_forall. intros y Hy. apply Qle_bool_iff. apply Hd; exact Hy.
    + cbn [forallb]. rewrite andb_true_r. apply Qle_bool_iff. lra.
  - cbn [map fst mono_offs]. intros [I1 I2] done Hd. cbn [map fst one_extra_go]. apply andb_true_iff. split.
    + apply Nat.leb_le. rewrite count_between_app. rewrite (count_between_zero t t' done) by (intros y Hy; left; apply Hd; exact Hy).
      change (u :: map fst us) with ([u] ++ map fst us). rewrite count_between_app.
      rewrite (count_between_zero t t' [u]) by (intros y [<-|[]]; left; lra).
      rewrite (count_between_zero t t' (map fst us)); [lia|].
      intros y Hy. right. pose proof (refines_lower_m _ _ R) as LB. cbn [map fst] in LB. apply LB; assumption.
    + specialize (IH I2 (done ++ [u])). rewrite <- app_assoc in IH. apply IH.
      intros y Hy. apply in_app_or in Hy. destruct Hy as [Hy|[<-|[]]]; [specialize (Hd y Hy); lra|lra].
  - cbn [map fst mono_offs]. intros [I1 I2] done Hd. cbn [map fst one_extra_go]. apply andb_true_iff. split.
    + apply Nat.leb_le. rewrite count_between_app. rewrite (count_between_zero t t' done) by (intros y Hy; left; apply Hd; exact Hy).
      change (u :: x :: map fst us) with ([u] ++ [x] ++ map fst us). rewrite !count_between_app.
      rewrite (count_between_zero t t' [u]) by (intros y [<-|[]]; left; lra).
      rewrite (count_between_one t t' x L1 L2).
      rewrite (count_between_zero t t' (map fst us)); [lia|].
      intros y Hy. right. pose proof (refines_lower_m _ _ R) as LB. cbn [map fst] in LB. apply LB; assumption.
    + specialize (IH I2 (done ++ [u; x])). rewrite <- app_assoc in IH. apply IH.
      intros y Hy. apply in_app_or in Hy. destruct Hy as [Hy|[<-|[<-|[]]]]; [specialize (Hd y Hy); lra|lra|lra].
Qed.

(* --- the result's times never decrease *)
Lemma refines_sorted_m ts us : refines ts us ->
  match ts, us with
  | (t, _) :: ts', (u, _) :: us' => mono_offs t (map fst ts') -> mono_offs u (map fst us')
  | _, _ => True
  end.
Proof.
  induction 1 as [t c u d E Eb|t c t' c' ts u d us E Eb R IH|t c t' c' ts u d x e us E W Eb L1 L2 R IH].
  - intros _. exact I.
  - cbn [map fst mono_offs]. intros [I1 I2]. destruct (refines_head _ _ _ _ R) as (u' & d' & us' & -> & E').
    cbn [map fst mono_offs]. split; [lra|]. apply IH. exact I2.
  - cbn [map fst mono_offs]. intros [I1 I2]. destruct (refines_head _ _ _ _ R) as (u' & d' & us' & -> & E').
    cbn [map fst mono_offs]. split; [lra|]. split; [lra|]. apply IH. exact I2.
Qed.

(* --- two result points at one time only where the input has a tie *)
Lemma refines_tie_only ts us : refines ts us ->
  forall j u d v e, nth_error us j = Some (u, d) -> nth_error us (S j) = Some (v, e) -> u == v ->
  exists k a c b c', nth_error ts k = Some (a, c) /\ nth_error ts (S k) = Some (b, c') /\ a == u /\ b == u.
Proof.
  induction 1 as [t c u d E Eb|t c t' c' ts u d us E Eb R IH|t c t' c' ts u d x e us E W Eb L1 L2 R IH];
    intros j p dp q dq Hj Hj' Epq.
  - destruct j; discriminate.
  - destruct j as [|j].
    + cbn in Hj. injection Hj as <- <-. destruct (refines_head _ _ _ _ R) as (u' & d' & us' & -> & E').
      cbn in Hj'. injection Hj' as <- <-. exists 0%nat, t, c, t', c'. split; [reflexivity|]. split; [reflexivity|]. split; lra.
    + cbn [nth_error] in Hj, Hj'. destruct (IH j p dp q dq Hj Hj' Epq) as (k & a & ca & b & cb & K1 & K2 & K3 & K4).
      exists (S k), a, ca, b, cb. repeat split; assumption.
  - destruct j as [|[|j]].
    + cbn in Hj, Hj'. injection Hj as <- <-. injection Hj' as <- <-. lra.
    + cbn in Hj. injection Hj as <- <-. destruct (refines_head _ _ _ _ R) as (u' & d' & us' & -> & E').
      cbn in Hj'. injection Hj' as <- <-. lra.
    + cbn [nth_error] in Hj, Hj'. destruct (IH j p dp q dq Hj Hj' Epq) as (k & a & ca & b & cb & K1 & K2 & K3 & K4).
      exists (S k), a, ca, b, cb. repeat split; assumption.
Qed.

(* --- a tie of the input: two adjacent result points, same order, the earlier keeps its bpm *)
Lemma refines_tie_pair ts us : refines ts us ->
  forall k a c b c', nth_error ts k = Some (a, c) -> nth_error ts (S k) = Some (b, c') -> a == b -> whole c c' ->
  exists j u d v e, nth_error us j = Some (u, d) /\ nth_error us (S j) = Some (v, e) /\ u == a /\ v == a /\ bs_bpm d == bs_bpm c.
Proof.
  induction 1 as [t c u d E Eb|t c t' c' ts u d us E Eb R IH|t c t' c' ts u d x e us E W Eb L1 L2 R IH];
    intros k a ca b cb Hk Hk' Eab Wab.
  - destruct k; discriminate.
  - destruct k as [|k].
    + cbn in Hk, Hk'. injection Hk as <- <-. injection Hk' as <- <-.
      destruct (refines_head _ _ _ _ R) as (u' & d' & us' & -> & E').
      exists 0%nat, u, d, u', d'. split; [reflexivity|]. split; [reflexivity|]. split; [lra|]. split; [lra|]. apply Eb. exact Wab.
    + cbn [nth_error] in Hk, Hk'. destruct (IH k a ca b cb Hk Hk' Eab Wab) as (j & p & dp & q & dq & J1 & J2 & J3 & J4 & J5).
      exists (S j), p, dp, q, dq. repeat split; assumption.
  - destruct k as [|k].
    + cbn in Hk, Hk'. injection Hk as <- <-. injection Hk' as <- <-. lra.
    + cbn [nth_error] in Hk, Hk'. destruct (IH k a ca b cb Hk Hk' Eab Wab) as (j & p & dp & q & dq & J1 & J2 & J3 & J4 & J5).
      exists (S (S j)), p, dp, q, dq. repeat split; assumption.
Qed.

(* --- the bpm is kept after a whole gap (existential reading: SOME result point at that time carries it) *)
Lemma refines_bpm_keptP ts us : refines ts us ->
  forall k t c, nth_error ts k = Some (t, c) -> (forall t' n, nth_error ts (S k) = Some (t', n) -> whole c n) ->
  exists j u d, nth_error us j = Some (u, d) /\ u == t /\ bs_bpm d == bs_bpm c.
Proof.
  induction 1 as [t c u d E Eb|t c t' c' ts u d us E Eb R IH|t c t' c' ts u d x e us E W Eb L1 L2 R IH];
    intros k a ca Hk Hw.
  - destruct k as [|k]; [|destruct k; discriminate]. cbn in Hk. injection Hk as <- <-.
    exists 0%nat, u, d. split; [reflexivity|]. split; [lra|exact Eb].
  - destruct k as [|k].
    + cbn in Hk. injection Hk as <- <-. exists 0%nat, u, d. split; [reflexivity|]. split; [lra|]. apply Eb. apply (Hw t' c'). reflexivity.
    + cbn [nth_error] in Hk, Hw. destruct (IH k a ca Hk Hw) as (j & p & dp & J1 & J2 & J3).
      exists (S j), p, dp. repeat split; assumption.
  - destruct k as [|k].
    + cbn in Hk. injection Hk as <- <-. exists 0%nat, u, d. split; [reflexivity|]. split; [lra|exact Eb].
    + cbn [nth_error] in Hk, Hw. destruct (IH k a ca Hk Hw) as (j & p & dp & J1 & J2 & J3).
      exists (S (S j)), p, dp. repeat split; assumption.
Qed.

(* --- (3) the change in force: the image of the LAST change of a tie group is the last result point at that time *)
Lemma abt_cons cur p rest x : active_by_time cur (p :: rest) x = if Qle_bool (fst p) x then active_by_time p rest x else cur.
Proof. reflexivity. Qed.

Lemma refines_active ts us : refines ts us -> nondecr (map fst ts) ->
  forall k t c, nth_error ts k = Some (t, c) -> last_of_group ts k t ->
  exists j u d, nth_error us j = Some (u, d) /\ u == t /\ last_of_group us j t /\
    (forall cur x, t <= x -> (forall v e, nth_error us (S j) = Some (v, e) -> x < v) -> active_by_time cur us x = (u, d)) /\
    ((forall t' n, nth_error ts (S k) = Some (t', n) -> whole c n) ->
       bs_bpm d == bs_bpm c /\
       forall t' n v e, nth_error ts (S k) = Some (t', n) -> nth_error us (S j) = Some (v, e) -> v == t') /\
    (forall t' n v e, nth_error ts (S k) = Some (t', n) -> nth_error us (S j) = Some (v, e) -> v < t' -> bs_bpm d == bs_bpm c).
Proof.
  induction 1 as [t c u d E Eb|t c t' c' ts u d us E Eb R IH|t c t' c' ts u d x e us E W Eb L1 L2 R IH];
    intros Hm k a ca Hk Hl.
  - destruct k as [|k]; [|destruct k; discriminate]. cbn in Hk. injection Hk as <- <-.
    exists 0%nat, u, d. split; [reflexivity|]. split; [lra|]. split; [intros ? ? X; discriminate|]. split; [|split].
    + intros cur y Hy _. rewrite abt_cons. cbn [fst active_by_time].
      assert (X: Qle_bool u y = true) by (apply Qle_bool_iff; lra). rewrite X. reflexivity.
    + intros _. split; [exact Eb|]. intros ? ? ? ? X; discriminate.
    + intros ? ? ? ? X; discriminate.
  - cbn [map fst nondecr mono_offs] in Hm. destruct Hm as [I1 I2]. destruct k as [|k].
    + cbn in Hk. injection Hk as <- <-. pose proof (Hl t' c' eq_refl) as Hlt.
      destruct (refines_head _ _ _ _ R) as (u' & d' & us' & -> & E').
      exists 0%nat, u, d. split; [reflexivity|]. split; [lra|].
      split; [intros v e0 X; cbn in X; injection X as <- <-; lra|]. split; [|split].
      * intros cur y Hy Hv. specialize (Hv u' d' eq_refl). rewrite !abt_cons. cbn [fst].
        assert (X: Qle_bool u y = true) by (apply Qle_bool_iff; lra).
        assert (Y: Qle_bool u' y = false) by (apply Qle_bool_false; lra). rewrite X, Y. reflexivity.
      * intros Hw. split; [apply Eb; apply (Hw t' c'); reflexivity|].
        intros t2 n v e0 X Y. cbn in X, Y. injection X as <- <-. injection Y as <- <-. lra.
      * intros t2 n v e0 X Y. cbn in X, Y. injection X as <- <-. injection Y as <- <-. lra.
    + cbn [nth_error] in Hk.
      assert (Ha: t' <= a).
      { apply (nondecr_nth_head t' (map fst ts) k a I2). change (t' :: map fst ts) with (map fst ((t', c') :: ts)).
        rewrite (map_nth_error fst k ((t', c') :: ts) Hk). reflexivity. }
      destruct (IH I2 k a ca Hk Hl) as (j & p & dp & J1 & J2 & J3 & J4 & J5 & J6).
      exists (S j), p, dp. split; [exact J1|]. split; [exact J2|]. split; [exact J3|]. split; [|split; [exact J5|exact J6]].
      intros cur y Hy Hv. rewrite abt_cons. cbn [fst].
      assert (X: Qle_bool u y = true) by (apply Qle_bool_iff; lra). rewrite X. apply J4; assumption.
  - cbn [map fst nondecr mono_offs] in Hm. destruct Hm as [I1 I2]. destruct k as [|k].
    + cbn in Hk. injection Hk as <- <-.
      exists 0%nat, u, d. split; [reflexivity|]. split; [lra|].
      split; [intros v e0 X; cbn in X; injection X as <- <-; lra|]. split; [|split].
      * intros cur y Hy Hv. specialize (Hv x e eq_refl). rewrite !abt_cons. cbn [fst].
        assert (X: Qle_bool u y = true) by (apply Qle_bool_iff; lra).
        assert (Y: Qle_bool x y = false) by (apply Qle_bool_false; lra). rewrite X, Y. reflexivity.
      * intros Hw. exfalso. apply W. apply (Hw t' c'). reflexivity.
      * intros; exact Eb.
    + cbn [nth_error] in Hk.
      assert (Ha: t' <= a).
      { apply (nondecr_nth_head t' (map fst ts) k a I2). change (t' :: map fst ts) with (map fst ((t', c') :: ts)).
        rewrite (map_nth_error fst k ((t', c') :: ts) Hk). reflexivity. }
      destruct (IH I2 k a ca Hk Hl) as (j & p & dp & J1 & J2 & J3 & J4 & J5 & J6).
      exists (S (S j)), p, dp. split; [exact J1|]. split; [exact J2|]. split; [exact J3|]. split; [|split; [exact J5|exact J6]].
      intros cur y Hy Hv. rewrite !abt_cons. cbn [fst].
      assert (X: Qle_bool u y = true) by (apply Qle_bool_iff; lra).
      assert (Y: Qle_bool x y = true) by (apply Qle_bool_iff; lra). rewrite X, Y. apply J4; assumption.
Qed.

(* the same on the input side: entry k, last of its group, is in force until the next entry *)
Lemma active_self ts : nondecr (map fst ts) -> forall k t c, nth_error ts k = Some (t, c) -> last_of_group ts k t ->
  forall cur x, t <= x -> (forall t' n, nth_error ts (S k) = Some (t', n) -> x < t') -> active_by_time cur ts x = (t, c).
Proof.
  induction ts as [|[t0 c0] ts IH]; intros Hm k t c Hk Hl cur x Hx Hn; [destruct k; discriminate|].
  rewrite abt_cons. cbn [fst]. destruct k as [|k].
  - cbn in Hk. injection Hk as <- <-. assert (X: Qle_bool t0 x = true) by (apply Qle_bool_iff; exact Hx). rewrite X.
    destruct ts as [|[t1 c1] ts]; [reflexivity|]. rewrite abt_cons. cbn [fst].
    specialize (Hn t1 c1 eq_refl). assert (Y: Qle_bool t1 x = false) by (apply Qle_bool_false; exact Hn). rewrite Y. reflexivity.
  - cbn [nth_error] in Hk.
    assert (Ha: t0 <= t).
    { apply (nondecr_nth_head t0 (map fst ts) (S k) t Hm). cbn [nth_error]. rewrite (map_nth_error fst k ts Hk). reflexivity. }
    assert (X: Qle_bool t0 x = true) by (apply Qle_bool_iff; lra). rewrite X.
    apply (IH ltac:(destruct ts as [|[? ?] ?]; [exact I|cbn [map fst nondecr mono_offs] in *; apply Hm]) k t c Hk Hl); assumption.
Qed.

(* --- consecutive entries of a timeline: time advances by the integration rule *)
Lemma timeline_nth_step r : forall t0 j u x v y,
  nth_error (timeline t0 r) j = Some (u, x) -> nth_error (timeline t0 r) (S j) = Some (v, y) ->
  v = u + beat_len (bs_bpm x) * seg_beats (bs_met x) (bs_snap x) (bs_snap y).
Proof.
  induction r as [|x0 r IH]; intros t0 j u x v y H1 H2; [destruct j; discriminate|].
  destruct r as [|y0 r]; [destruct j as [|[|j]]; discriminate|].
  rewrite timeline_cons2 in H1, H2. destruct j as [|j].
  - cbn [nth_error] in H1, H2. injection H1 as <- <-.
    destruct (timeline_cons1 (t0 + beat_len (bs_bpm x0) * seg_beats (bs_met x0) (bs_snap x0) (bs_snap y0)) y0 r) as [ts Ets].
    rewrite Ets in H2. cbn in H2. injection H2 as <- <-. reflexivity.
  - cbn [nth_error] in H1, H2. apply (IH _ j u x v y H1 H2).
Qed.

Lemma timeline_nth t0 r k t c : nth_error (timeline t0 r) k = Some (t, c) <-> nth_error (change_times t0 r) k = Some t /\ nth_error r k = Some c.
Proof. unfold timeline. apply nth_error_combine. Qed.

Lemma nondec_from_nth tl : forall p, nondec_from p tl ->
  (forall j y, nth_error tl j = Some y -> s_b (bs_snap y) == 0 /\ (p <= s_m (bs_snap y))%Z) /\
  (forall j x y, nth_error tl j = Some x -> nth_error tl (S j) = Some y -> (s_m (bs_snap x) <= s_m (bs_snap y))%Z).
Proof.
  induction tl as [|c tl IH]; intros p H; [split; intros j; destruct j; discriminate|].
  destruct H as (H1 & H2 & H3). destruct (IH _ H3) as [A B]. split.
  - intros j y Hj. destruct j as [|j]; [cbn in Hj; injection Hj as <-; split; [exact H2|exact H1]|].
    cbn in Hj. destruct (A j y Hj) as [A1 A2]. split; [exact A1|lia].
  - intros j x y Hx Hy. destruct j as [|j].
    + cbn in Hx, Hy. injection Hx as <-. apply (A 0%nat y Hy).
    + cbn [nth_error] in Hx, Hy. apply (B j x y Hx Hy).
Qed.
Lemma SeatedWeakP_nth r : SeatedWeakP r ->
  (forall j y, nth_error r j = Some y -> s_b (bs_snap y) == 0) /\
  (forall j x y, nth_error r j = Some x -> nth_error r (S j) = Some y -> (s_m (bs_snap x) <= s_m (bs_snap y))%Z).
Proof.
  intros (h & tl & -> & H1 & H2 & H3). destruct (nondec_from_nth tl 0%Z H3) as [A B]. split.
  - intros j y Hj. destruct j as [|j]; [cbn in Hj; injection Hj as <-; exact H2|]. cbn in Hj. apply (A j y Hj).
  - intros j x y Hx Hy. destruct j as [|j].
    + cbn in Hx, Hy. injection Hx as <-. rewrite H1. apply (A 0%nat y Hy).
    + cbn [nth_error] in Hx, Hy. apply (B j x y Hx Hy).
Qed.

Lemma refines_meas_ties l r : SeatedWeakP r -> Forall posc r -> refines (timeline 0 l) (timeline 0 r) -> MeasTiesP l r.
Proof.
  intros HS HP HR j x y u v Hx Hy Hu Hv. destruct (SeatedWeakP_nth r HS) as [A B].
  assert (T1: nth_error (timeline 0 r) j = Some (u, x)) by (apply timeline_nth; split; assumption).
  assert (T2: nth_error (timeline 0 r) (S j) = Some (v, y)) by (apply timeline_nth; split; assumption).
  pose proof (timeline_nth_step r 0 j u x v y T1 T2) as Ev.
  pose proof (A j x Hx) as Bx. pose proof (A (S j) y Hy) as By. pose proof (B j x y Hx Hy) as Mxy.
  rewrite Forall_forall in HP. destruct (HP x (nth_error_In _ _ Hx)) as [Px1 Px2].
  pose proof (beat_len_pos _ Px1) as Hbl.
  set (D := (s_m (bs_snap y) - s_m (bs_snap x))%Z) in *.
  assert (Ev': v - u == beat_len (bs_bpm x) * (inject_Z D * bs_met x)).
  { rewrite Ev. unfold seg_beats. fold D. rewrite Bx, By. ring. }
  assert (HD: (0 <= D)%Z) by (unfold D; lia).
  assert (Hk: 0 < beat_len (bs_bpm x) * bs_met x) by (apply Qmult_lt_0_compat; assumption).
  assert (Ev2: v - u == inject_Z D * (beat_len (bs_bpm x) * bs_met x)) by (rewrite Ev'; ring).
  assert (Hzero: (D = 0)%Z -> u == v).
  { intro Z0. rewrite Z0 in Ev2. change (inject_Z 0) with 0 in Ev2. lra. }
  assert (Hpos: (1 <= D)%Z -> u < v).
  { intro Z1. pose proof (inject_Z_ge1 D Z1) as G.
    assert (1 * (beat_len (bs_bpm x) * bs_met x) <= inject_Z D * (beat_len (bs_bpm x) * bs_met x)) by (apply Qmult_le_compat_r; lra).
    lra. }
  assert (Hle: u <= v).
  { destruct (Z.eq_dec D 0) as [Z0|NZ]; [specialize (Hzero Z0); lra|]. assert (u < v) by (apply Hpos; lia). lra. }
  split; [exact Hle|]. split; [exact Mxy|]. split; [split|].
  - intro Em. apply Hzero. unfold D. lia.
  - intro Euv. destruct (Z.eq_dec D 0) as [Z0|NZ]; [unfold D in Z0; lia|]. assert (u < v) by (apply Hpos; lia). lra.
  - intro Euv. destruct (refines_tie_only _ _ HR j u x v y T1 T2 Euv) as (k & a & ca & b & cb & K1 & K2 & K3 & K4).
    apply timeline_nth in K1, K2. exists k, a, b. split; [apply K1|]. split; [apply K2|]. split; assumption.
Qed.

(* --- the original times never decrease *)
Lemma change_times_mono met : 0 < met -> forall rest p t0,
  0 < bs_bpm p -> bs_met p == met -> s_b (bs_snap p) < met -> wfT_go met (bs_snap p) rest ->
  mono_offs t0 (change_times_go t0 p rest).
Proof.
  intros Hmet. induction rest as [|c rest IH]; intros p t0 Hbpm Hm Hb H; [exact I|].
  destruct H as (H1 & H2 & H3 & H4 & H5 & H6 & H7). cbn [change_times_go mono_offs]. split; [|apply IH; auto].
  pose proof (beat_len_pos _ Hbpm) as Hbl.
  assert (Hmp: 0 < bs_met p) by (rewrite Hm; exact Hmet).
  assert (Hb': s_b (bs_snap p) < bs_met p) by (rewrite Hm; exact Hb).
  pose proof (seg_beats_nonneg (bs_met p) _ _ Hmp H1 H5 Hb') as Hpos.
  assert (0 <= beat_len (bs_bpm p) * seg_beats (bs_met p) (bs_snap p) (bs_snap c)) by (apply Qmult_le_0_compat; lra).
  lra.
Qed.

(* --- Prop <-> boolean, seated with ties *)
Lemma nondec_from_b p tl : nondec_from p tl ->
  forallb (fun c => Qeq_bool (s_b (bs_snap c)) 0) tl = true /\ measures_nondecreasing p tl = true.
Proof.
  revert p. induction tl as [|c tl IH]; intros p H; [split; reflexivity|]. destruct H as (H1 & H2 & H3).
  destruct (IH _ H3) as [A B]. cbn [forallb measures_nondecreasing]. apply Qeq_bool_iff in H2. apply Z.leb_le in H1.
  rewrite H2, H1, A, B. split; reflexivity.
Qed.
Lemma SeatedWeakP_b r : SeatedWeakP r -> seated_weak r = true.
Proof.
  intros (h & tl & -> & H1 & H2 & H3). destruct (nondec_from_b _ _ H3) as [A B].
  unfold seated_weak. cbn [forallb]. apply Qeq_bool_iff in H2. rewrite H2, A, H1, B. reflexivity.
Qed.
Lemma b_nondec_from p tl : forallb (fun c => Qeq_bool (s_b (bs_snap c)) 0) tl = true -> measures_nondecreasing p tl = true ->
  nondec_from p tl.
Proof.
  revert p. induction tl as [|c tl IH]; intros p A B; [exact I|]. cbn [forallb measures_nondecreasing] in A, B.
  apply andb_true_iff in A. destruct A as [A1 A2]. apply andb_true_iff in B. destruct B as [B1 B2].
  cbn [nondec_from]. apply Qeq_bool_iff in A1. apply Z.leb_le in B1. split; [exact B1|]. split; [exact A1|]. apply IH; assumption.
Qed.
Lemma seated_weak_b_P r : seated_weak r = true -> SeatedWeakP r.
Proof.
  unfold seated_weak. intro H. apply andb_true_iff in H. destruct H as [A B]. destruct r as [|h tl]; [discriminate|].
  cbn [forallb] in A. apply andb_true_iff in A. destruct A as [A1 A2]. apply andb_true_iff in B. destruct B as [B1 B2].
  exists h, tl. apply Z.eqb_eq in B1. apply Qeq_bool_iff in A1. split; [reflexivity|]. split; [exact B1|]. split; [exact A1|].
  apply b_nondec_from; assumption.
Qed.
Lemma all_pos_iff r : all_pos r = true <-> Forall posc r.
Proof.
  unfold all_pos. rewrite forallb_forall, Forall_forall. split; intros H c Hc; specialize (H c Hc).
  - apply andb_true_iff in H. destruct H as [H1 H2]. apply Qlt_bool_iff in H1, H2. split; assumption.
  - destruct H as [H1 H2]. apply Qlt_bool_iff in H1, H2. rewrite H1, H2. reflexivity.
Qed.
Lemma seated_weak_of_strict r : seated r = true -> seated_weak r = true.
Proof.
  unfold seated, seated_weak. intro H. apply andb_true_iff in H. destruct H as [A B]. rewrite A. cbn [andb].
  destruct r as [|h tl]; [discriminate|]. apply andb_true_iff in B. destruct B as [B1 B2]. rewrite B1. cbn [andb].
  clear -B2. revert B2. generalize 0%Z. induction tl as [|c tl IH]; intros p H; [reflexivity|].
  cbn [measures_increasing measures_nondecreasing] in *. apply andb_true_iff in H. destruct H as [H1 H2].
  rewrite (IH _ H2), andb_true_r. apply Z.leb_le. apply Z.ltb_lt in H1. lia.
Qed.

(* ================================================================== G. the property theorems for lists with ties *)
Lemma wf_ties_facts l : wf_ties l = true ->
  nondecr (times l) /\ Forall okc l /\ exists c rest, l = c :: rest.
Proof.
  intro H. destruct (wf_ties_P l H) as (c & rest & -> & H1 & H2 & H3 & H4 & H5 & H6 & H7).
  assert (Hmet: 0 < bs_met c) by lra. split; [|split; [|exists c, rest; reflexivity]].
  - unfold times. cbn [change_times nondecr]. apply (change_times_mono (bs_met c) Hmet rest c 0 H3 ltac:(reflexivity) ltac:(lra) H7).
  - constructor; [repeat split; assumption|apply (wfT_okc (bs_met c) (bs_snap c)); assumption].
Qed.

Lemma timeline_fst_nondecr l : nondecr (times l) -> nondecr (map fst (timeline 0 l)).
Proof. intro H. rewrite timeline_fst. exact H. Qed.

(* tied changes of a well-formed input are a whole (zero) number of measures apart *)
Lemma ties_whole l : Forall okc l -> forall k a c b c',
  nth_error (timeline 0 l) k = Some (a, c) -> nth_error (timeline 0 l) (S k) = Some (b, c') -> a == b -> whole c c'.
Proof.
  intros Hok k a c b c' K1 K2 Eab. pose proof (timeline_nth_step l 0 k a c b c' K1 K2) as Eb.
  apply timeline_nth in K1. destruct K1 as [_ K1]. rewrite Forall_forall in Hok. destruct (Hok c (nth_error_In _ _ K1)) as (P1 & P2 & _).
  pose proof (beat_len_pos _ P1) as Hbl. apply whole_zero; [exact P2|].
  assert (X: beat_len (bs_bpm c) * seg_beats (bs_met c) (bs_snap c) (bs_snap c') == beat_len (bs_bpm c) * 0) by (rewrite Eb in Eab; lra).
  apply Qmult_inj_l in X; [exact X|lra].
Qed.

Lemma active_at_by tl x p rest : tl = p :: rest -> fst p <= x -> active_at tl x = Some (active_by_time p tl x).
Proof.
  intros -> H. unfold active_at. rewrite abt_cons. apply Qle_bool_iff in H. rewrite H. reflexivity.
Qed.

(* everything that follows from seated-on-measure-lines + timeline refinement + positive result bpm/metronome *)
Theorem strong_ties_spec l r : wf_ties l = true -> reseat_strong_ties l r -> Forall posc r -> ReseatTiesP l r.
Proof.
  intros H [HS HR] HP. destruct (wf_ties_facts l H) as (Hmono & Hok & c0 & rest0 & El).
  pose proof (timeline_fst_nondecr l Hmono) as Hmono'.
  pose proof (refines_meas_ties l r HS HP HR) as HM.
  split; [exact HS|]. split; [exact HM|]. split; [|split; [|split; [|split; [|split; [|split; [|split]]]]]].
  - (* TimesKeptP *) apply times_kept_P. unfold times_kept, times. rewrite <- !timeline_fst. apply refines_times_kept. exact HR.
  - (* TiePairP *)
    intros k a c b c' K1 K2 Eab. pose proof (ties_whole l Hok k a c b c' K1 K2 Eab) as W.
    destruct (refines_tie_pair _ _ HR k a c b c' K1 K2 Eab W) as (j & u & d & v & e & J1 & J2 & J3 & J4 & J5).
    exists j, u, d, v, e. split; [exact J1|]. split; [exact J2|]. split; [exact J3|]. split; [exact J4|]. split; [exact J5|].
    pose proof J1 as J1'. pose proof J2 as J2'. apply timeline_nth in J1', J2'. destruct J1' as [T1 R1]. destruct J2' as [T2 R2].
    destruct (HM j d e u v R1 R2 T1 T2) as (_ & _ & [_ M] & _). apply M. lra.
  - (* OneExtraP *)
    apply one_extra_P. unfold one_extra, times. rewrite El. cbn [change_times]. rewrite <- El.
    assert (Et: timeline 0 l = (0, c0) :: combine (change_times_go 0 c0 rest0) rest0) by (rewrite El; reflexivity).
    assert (Ef: map fst (combine (change_times_go 0 c0 rest0) rest0) = change_times_go 0 c0 rest0).
    { apply map_fst_combine. apply change_times_go_length. }
    assert (Hinc: mono_offs 0 (change_times_go 0 c0 rest0)).
    { unfold times in Hmono. rewrite El in Hmono. exact Hmono. }
    apply andb_true_iff. split; [apply andb_true_iff; split|].
    + pose proof (refines_lower_m _ _ HR) as LB. rewrite Et in LB. rewrite Ef, timeline_fst in LB.
      apply forallb_forall. intros x Hx. apply Qle_bool_iff. apply LB; assumption.
    + pose proof (refines_one_extra_m _ _ HR) as OE. rewrite Et in OE. rewrite Ef, timeline_fst in OE.
      apply (OE Hinc []). intros x [].
    + apply Nat.leb_le. pose proof (refines_length _ _ HR) as L. rewrite !timeline_length in L. lia.
  - (* BpmKeptP *)
    intros k c t Hc Ht Hw.
    assert (K: nth_error (timeline 0 l) k = Some (t, c)) by (apply timeline_nth; split; assumption).
    destruct (refines_bpm_keptP _ _ HR k t c K) as (j & u & d & J1 & J2 & J3).
    + intros t' n Hn. apply timeline_nth in Hn. apply Hw. apply Hn.
    + apply timeline_nth in J1. destruct J1 as [T1 R1]. exists j, d, u. repeat split; assumption.
  - (* ElapsedP *) unfold ElapsedP, times. rewrite <- !timeline_fst. apply refines_elapsed. exact HR.
  - (* ActiveLastP *)
    intros k t c K Hl.
    destruct (refines_active _ _ HR Hmono' k t c K Hl) as (j & u & d & J1 & J2 & J3 & J4 & J5 & J6).
    split.
    + intros x Hx Hn.
      assert (E0: exists p rest, timeline 0 l = p :: rest /\ fst p <= x).
      { rewrite El. cbn [timeline change_times combine]. eexists; eexists. split; [reflexivity|]. cbn [fst].
        assert (Z0: 0 <= t).
        { apply (nondecr_nth_head 0 (change_times_go 0 c0 rest0) k t); [unfold times in Hmono; rewrite El in Hmono; exact Hmono|].
          apply timeline_nth in K. destruct K as [K _]. rewrite El in K. exact K. }
        lra. }
      destruct E0 as (p & rs & Ep & Hp). rewrite (active_at_by _ x p rs Ep Hp). f_equal.
      apply (active_self _ Hmono' k t c K Hl); assumption.
    + exists j, u, d. split; [exact J1|]. split; [exact J2|]. split; [exact J3|]. split; [|split; [exact J5|exact J6]].
      intros x Hx Hv.
      destruct (refines_head 0 c0 (combine (change_times_go 0 c0 rest0) rest0) (timeline 0 r)) as (u0 & d0 & us' & Eu & E0).
      { rewrite El in HR. exact HR. }
      assert (Z0: 0 <= t).
      { apply (nondecr_nth_head 0 (change_times_go 0 c0 rest0) k t); [unfold times in Hmono; rewrite El in Hmono; exact Hmono|].
        apply timeline_nth in K. destruct K as [K _]. rewrite El in K. exact K. }
      rewrite (active_at_by _ x (u0, d0) us' Eu) by (cbn [fst]; lra). f_equal. apply J4; assumption.
  - (* FixpointTiesP *)
    intro Hs. assert (TE: timeline_eqb (timeline 0 l) (timeline 0 r) = true).
    { apply refines_fixpoint; [exact HR|]. apply seated_all_whole.
      - intros x Hx. rewrite Forall_forall in Hok. apply (Hok x Hx).
      - unfold seated_weak in Hs. apply andb_true_iff in Hs. apply Hs. }
    apply timeline_eqb_P in TE. split; [|exact TE].
    pose proof (forall2_len _ _ _ TE) as L. rewrite !timeline_length in L. symmetry. exact L.
  - (* times of the result never decrease *)
    pose proof (refines_sorted_m _ _ HR) as S.
    assert (Et: timeline 0 l = (0, c0) :: combine (change_times_go 0 c0 rest0) rest0) by (rewrite El; reflexivity).
    assert (Ef: map fst (combine (change_times_go 0 c0 rest0) rest0) = change_times_go 0 c0 rest0).
    { apply map_fst_combine. apply change_times_go_length. }
    rewrite Et in S, HR. destruct (refines_head _ _ _ _ HR) as (u & d & us' & Eu & _). rewrite Eu in S. rewrite Ef in S.
    unfold times. rewrite <- timeline_fst, Eu. cbn [map fst nondecr]. apply S.
    unfold times in Hmono. rewrite El in Hmono. exact Hmono.
Qed.

(* the strong boolean oracle is SOUND for the whole statement (so a `true` on an implementation output means all of it) ... *)
Theorem reseat_tiesb_sound l r : wf_ties l = true -> reseat_tiesb l r = true -> reseat_strong_ties l r /\ ReseatTiesP l r.
Proof.
  intros H Hb. unfold reseat_tiesb in Hb. apply andb_true_iff in Hb. destruct Hb as [Hb B3]. apply andb_true_iff in Hb. destruct Hb as [B1 B2].
  unfold reseat_specb_ties in B1. apply andb_true_iff in B1. destruct B1 as [B1 _]. apply andb_true_iff in B1. destruct B1 as [B1 _].
  assert (S: reseat_strong_ties l r).
  { split; [apply seated_weak_b_P; exact B1|]. apply refinesb_sound. exact B3. }
  split; [exact S|]. apply strong_ties_spec; [exact H|exact S|apply all_pos_iff; exact B2].
Qed.

(* ... and COMPLETE for the structural spec: it accepts whatever is seated, refines the input timeline and has positive bpms *)
Theorem strong_ties_tiesb l r : wf_ties l = true -> reseat_strong_ties l r -> Forall posc r ->
  reseat_tiesb l r = true /\ reseat_specb_ties l r = true.
Proof.
  intros H S HP. pose proof (strong_ties_spec l r H S HP) as (P1 & _ & P3 & _ & P5 & _).
  destruct S as [HS HR].
  assert (B1: reseat_specb_ties l r = true).
  { unfold reseat_specb_ties. rewrite (SeatedWeakP_b r HS). cbn [andb].
    assert (X: times_kept l r = true).
    { unfold times_kept, times. rewrite <- !timeline_fst. apply refines_times_kept. exact HR. }
    rewrite X. cbn [andb].
    (* one_extra: recomputed (OneExtraP is its consequence, not its equivalent) *)
    destruct (wf_ties_facts l H) as (Hmono & _ & c0 & rest0 & El).
    unfold one_extra, times. rewrite El. cbn [change_times]. rewrite <- El.
    assert (Et: timeline 0 l = (0, c0) :: combine (change_times_go 0 c0 rest0) rest0) by (rewrite El; reflexivity).
    assert (Ef: map fst (combine (change_times_go 0 c0 rest0) rest0) = change_times_go 0 c0 rest0).
    { apply map_fst_combine. apply change_times_go_length. }
    assert (Hinc: mono_offs 0 (change_times_go 0 c0 rest0)).
    { unfold times in Hmono. rewrite El in Hmono. exact Hmono. }
    apply andb_true_iff. split; [apply andb_true_iff; split|].
    + pose proof (refines_lower_m _ _ HR) as LB. rewrite Et in LB. rewrite Ef, timeline_fst in LB.
      apply forallb_forall. intros x Hx. apply Qle_bool_iff. apply LB; assumption.
    + pose proof (refines_one_extra_m _ _ HR) as OE. rewrite Et in OE. rewrite Ef, timeline_fst in OE.
      apply (OE Hinc []). intros x [].
    + apply Nat.leb_le. pose proof (refines_length _ _ HR) as L. rewrite !timeline_length in L. lia. }
  split; [|exact B1]. unfold reseat_tiesb. rewrite B1. cbn [andb].
  apply all_pos_iff in HP. rewrite HP. cbn [andb]. apply refinesb_complete. exact HR.
Qed.

(* ------------------------------------------------------------------ the model on lists with ties *)
Theorem reseat_strong_ties_thr thr l : 0 <= thr -> wf_ties l = true -> reseat_guard thr l = true ->
  exists r, reseat_with thr l = ROk r /\ reseat_strong_ties l r /\ Forall posc r.
Proof.
  intros Hthr H Hg. destruct (wf_prepare_ties l H) as (c & rest & offs & -> & Es & Eo & Ok & Inc & Hc & Hrest & Hm & Hb).
  unfold reseat_with. rewrite Es, Eo.
  destruct (go_spec_ties thr Hthr rest offs c c 0 0%Z eq_refl eq_refl Hm Hb ltac:(lia) Hc Hrest Ok Inc Hg)
    as [G (h & r & Eg & H1 & H2 & H3 & HP & H4)].
  exists (go thr 0 c 0 rest offs). split.
  - apply (loop_go thr rest offs [] [] c 0 0%Z); auto. cbn [length]. lia.
  - rewrite Eg. split; [|exact HP]. split; [exists h, r; repeat split; assumption|]. apply H4; reflexivity.
Qed.

(* (1)+(2): under the (unchanged) guard the result exists and meets everything, for any threshold >= 0 *)
Theorem reseat_ties_correct_thr thr l : 0 <= thr -> wf_ties l = true -> reseat_guard thr l = true ->
  exists r, reseat_with thr l = ROk r /\ ReseatTiesOK l r.
Proof.
  intros Hthr H Hg. destruct (reseat_strong_ties_thr thr l Hthr H Hg) as (r & Er & S & HP).
  exists r. split; [exact Er|]. destruct (strong_ties_tiesb l r H S HP) as [B1 B2].
  split; [exact S|]. split; [exact B1|]. split; [exact B2|]. apply strong_ties_spec; assumption.
Qed.
Theorem reseat_ties_correct_guarded l : wf_ties l = true -> reseat_guard THRESHOLD l = true ->
  exists r, reseat l = ROk r /\ ReseatTiesOK l r.
Proof. apply reseat_ties_correct_thr. unfold THRESHOLD. lra. Qed.
Theorem reseat_ties_correct_no_extend l : wf_ties l = true -> no_extend THRESHOLD l = true ->
  exists r, reseat l = ROk r /\ ReseatTiesOK l r.
Proof. intros H Hn. apply reseat_ties_correct_guarded; [exact H|apply no_extend_guard; exact Hn]. Qed.

(* lists given in any order: the function sorts (stably) first *)
Lemma reseat_sorts_ties thr l : wf_ties (sort_by bcs_lt l) = true ->
  reseat_with thr l = reseat_with thr (sort_by bcs_lt l).
Proof.
  intro H. destruct (wf_prepare_ties _ H) as (c & rest & offs & E & Es & _).
  unfold reseat_with. rewrite Es. rewrite <- (Permutation.Permutation_length (sort_by_perm bcs_lt l)). reflexivity.
Qed.
Theorem reseat_terminates_ties_any_order l : wf_ties (sort_by bcs_lt l) = true -> reseat l <> RFuel.
Proof. intro H. unfold reseat. rewrite reseat_sorts_ties by exact H. apply reseat_terminates_ties. exact H. Qed.
Theorem reseat_ties_correct_any_order l : let ls := sort_by bcs_lt l in
  wf_ties ls = true -> reseat_guard THRESHOLD ls = true ->
  exists r, reseat l = ROk r /\ ReseatTiesOK ls r /\ reseat_tiesb ls r = true /\ reseat_specb_ties ls r = true.
Proof.
  intros ls H G. unfold reseat. rewrite reseat_sorts_ties by exact H.
  destruct (reseat_ties_correct_guarded ls H G) as (r & Er & OK). exists r. split; [exact Er|]. split; [exact OK|].
  destruct OK as (_ & B1 & B2 & _). split; assumption.
Qed.

(* the sort is stable: the changes on any one position keep their input order *)
Lemma insert_by_filter {A} (lt : A -> A -> bool) (p : A -> bool) :
  (forall x y, p x = true -> p y = true -> lt y x = false) ->
  forall x l, filter p (insert_by lt x l) = filter p (x :: l).
Proof.
  intros Hp x l. induction l as [|y l IH]; [reflexivity|]. cbn [insert_by].
  destruct (negb (lt y x)) eqn:E; [reflexivity|]. apply negb_false_iff in E.
  cbn [filter] in *. destruct (p x) eqn:Px.
  - destruct (p y) eqn:Py; [rewrite (Hp x y Px Py) in E; discriminate|]. exact IH.
  - destruct (p y); rewrite IH; reflexivity.
Qed.
Theorem sort_by_stable (s : snap) l :
  filter (fun c => snap_eq s (bs_snap c)) (sort_by bcs_lt l) = filter (fun c => snap_eq s (bs_snap c)) l.
Proof.
  unfold sort_by. induction l as [|x l IH]; [reflexivity|]. cbn [fold_right]. rewrite insert_by_filter.
  - cbn [filter]. rewrite IH. reflexivity.
  - intros a b Ha Hb. unfold bcs_lt, snap_lt. unfold snap_eq in Ha, Hb.
    apply andb_true_iff in Ha, Hb. destruct Ha as [A1 A2]. destruct Hb as [B1 B2].
    apply Z.eqb_eq in A1, B1. apply Qeq_bool_iff in A2, B2.
    assert (X: (s_m (bs_snap b) <? s_m (bs_snap a))%Z = false) by (apply Z.ltb_ge; lia).
    assert (Y: Qlt_bool (s_b (bs_snap b)) (s_b (bs_snap a)) = false) by (apply Qlt_bool_false; lra).
    rewrite X, Y, andb_false_r. reflexivity.
Qed.

(* (4) an already seated list, ties on a measure line allowed, needs no guard: same length, same times, same bpms *)
Lemma seated_weak_no_extend thr l : wf_ties l = true -> seated_weak l = true -> no_extend thr l = true.
Proof.
  intros H Hs. destruct (wf_prepare_ties l H) as (c & rest & offs & -> & _ & _ & _ & _ & Hc & Hrest & Hm & Hb).
  unfold seated_weak in Hs. apply andb_true_iff in Hs. destruct Hs as [Hs _]. cbn [forallb] in Hs.
  apply andb_true_iff in Hs. destruct Hs as [_ Hs]. apply seated_gaps_noext; assumption.
Qed.
Theorem reseat_seated_fixpoint_ties l : wf_ties l = true -> seated_weak l = true ->
  exists r, reseat l = ROk r /\ length r = length l /\
    Forall2 (fun p q => fst p == fst q /\ bs_bpm (snd p) == bs_bpm (snd q)) (timeline 0 l) (timeline 0 r).
Proof.
  intros H Hs. destruct (reseat_ties_correct_no_extend l H (seated_weak_no_extend _ l H Hs)) as (r & Er & R).
  exists r. split; [exact Er|]. destruct R as (_ & _ & _ & (_ & _ & _ & _ & _ & _ & _ & _ & HF & _)). exact (HF Hs).
Qed.

(* (3) packaged: after a tie the bpm in force is that of the LAST change of the tie group *)
Theorem reseat_ties_active_last l : wf_ties l = true -> reseat_guard THRESHOLD l = true ->
  exists r, reseat l = ROk r /\ ActiveLastP l r.
Proof.
  intros H G. destruct (reseat_ties_correct_guarded l H G) as (r & Er & R). exists r. split; [exact Er|].
  destruct R as (_ & _ & _ & (_ & _ & _ & _ & _ & _ & _ & HA & _)). exact HA.
Qed.

(* ================================================================== H. what is FALSE with ties *)
(* The strict-domain oracle reads "the bpm at time t" as the bpm of the FIRST result point at t (ReseatSpec.bpm_at).  With a
   tie that is the earlier of the tied changes, whose bpm is in force for no time at all: the clause `bpm_kept` (hence
   reseat_specb) rejects a correct result.  The existential reading BpmKeptP and the in-force reading ActiveLastP hold. *)
Definition w_tie_seated : list bcs :=
  [mkBcs 120 4 (mkSnap 0 0 4); mkBcs 175 4 (mkSnap 1 0 4); mkBcs 90 4 (mkSnap 1 0 4); mkBcs 200 4 (mkSnap 3 0 4)].
Theorem bpm_kept_first_match_refuted_ties :
  wf_ties w_tie_seated = true /\ reseat_guard THRESHOLD w_tie_seated = true /\
  exists r, reseat w_tie_seated = ROk r /\ bpm_kept w_tie_seated r = false /\ reseat_specb w_tie_seated r = false /\
            reseat_tiesb w_tie_seated r = true.
Proof.
  split; [vm_compute; reflexivity|]. split; [vm_compute; reflexivity|].
  eexists. split; [vm_compute; reflexivity|]. split; [vm_compute; reflexivity|]. split; vm_compute; reflexivity.
Qed.
(* result times are NOT strictly increasing with ties (they are for strict lists: strong_times_incr) *)
Theorem times_strictly_incr_refuted_ties :
  exists r, reseat w_tie_seated = ROk r /\ ~ strictly_incr (times r).
Proof.
  eexists. split; [vm_compute; reflexivity|]. cbn. intros (_ & A & _). revert A. unfold Qlt. cbn. lia.
Qed.

(* ================================================================== J. from_bpm_changes_snap(initial_offset, l, reseat=True) with ties *)
Lemma from_bcs_go_seated_weak init : forall tl p off t0,
  off == init + t0 -> s_b (bs_snap p) == 0 -> 0 < s_met (bs_snap p) -> nondec_from (s_m (bs_snap p)) tl ->
  Forall smet_pos tl ->
  exists brest, from_bcs_go off p tl = Some brest /\ Forall2 (bco_at init) brest (combine (change_times_go t0 p tl) tl).
Proof.
  induction tl as [|c tl IH]; intros p off t0 Eo Hb Hm Hi Hs; [exists []; split; [reflexivity|constructor]|].
  destruct Hi as (I1 & I2 & I3). inversion Hs as [|? ? Hc Hs']; subst. cbn [from_bcs_go change_times_go combine].
  assert (Eb: s_b (bs_snap c) - s_b (bs_snap p) == 0) by (rewrite I2, Hb; ring).
  destruct (snap_norm_zero (s_m (bs_snap c) - s_m (bs_snap p)) _ _ ltac:(lia) Hm Eb) as (d & Ed & D1 & D2).
  unfold snap_sub. rewrite Ed.
  set (off' := Qred (off + snap_offset d (bs_bpm p) (bs_met p))).
  set (t1 := t0 + beat_len (bs_bpm p) * seg_beats (bs_met p) (bs_snap p) (bs_snap c)).
  assert (E1: off' == init + t1).
  { unfold off', t1. rewrite Qred_correct. unfold snap_offset, measure_len, seg_beats. rewrite D1, D2, Eo, I2, Hb. ring. }
  destruct (IH c off' t1 E1 I2 (proj2 Hc) I3 Hs') as (brest & R1 & R2). rewrite R1.
  eexists. split; [reflexivity|]. constructor; [|exact R2]. unfold bco_at. cbn [bo_off bo_bpm bo_met fst snd]. auto.
Qed.

Lemma nondec_from_adj_ok : forall tl p, s_b (bs_snap p) == 0 -> nondec_from (s_m (bs_snap p)) tl -> adj_ok bcs_lt (p :: tl).
Proof.
  induction tl as [|c tl IH]; intros p Hp H; [exact I|]. destruct H as (H1 & H2 & H3). cbn [adj_ok].
  split; [|apply IH; assumption]. unfold bcs_lt, snap_lt.
  assert (A: (s_m (bs_snap c) <? s_m (bs_snap p))%Z = false) by (apply Z.ltb_ge; lia).
  assert (B: Qlt_bool (s_b (bs_snap c)) (s_b (bs_snap p)) = false) by (apply Qlt_bool_false; lra).
  rewrite A, B, andb_false_r. reflexivity.
Qed.

Lemma from_bcs_seated_weak init r : SeatedWeakP r -> Forall smet_pos r ->
  exists bcos, from_bcs init r = Some bcos /\ Forall2 (bco_at init) bcos (timeline 0 r).
Proof.
  intros (h & tl & -> & H1 & H2 & H3) Hs. inversion Hs as [|? ? Hh Hs']; subst.
  unfold from_bcs. rewrite sort_by_adj_ok by (apply nondec_from_adj_ok; [exact H2|rewrite H1; exact H3]).
  apply Z.eqb_eq in H1. pose proof H2 as H2'. apply Qeq_bool_iff in H2'. rewrite H1, H2'. cbn [andb negb].
  apply Z.eqb_eq in H1.
  destruct (from_bcs_go_seated_weak init tl h init 0 ltac:(ring) H2 (proj2 Hh) ltac:(rewrite H1; exact H3) Hs') as (brest & R1 & R2).
  rewrite R1. eexists. split; [reflexivity|]. unfold timeline. cbn [change_times combine].
  constructor; [|exact R2]. unfold bco_at. cbn [bo_off bo_bpm bo_met fst snd]. split; [ring|auto].
Qed.

Lemma wf_ties_smet l : wf_ties l = true -> Forall smet_pos l.
Proof.
  intro H. destruct (wf_ties_P l H) as (c & rest & -> & _ & _ & _ & _ & W5 & W6 & W7).
  assert (Hmet: 0 < bs_met c) by lra.
  constructor; [split; [exact Hmet|rewrite W6; exact Hmet]|apply (wfT_smet (bs_met c) (bs_snap c)); assumption].
Qed.

Theorem reseat_smet_ties thr l : 0 <= thr -> wf_ties l = true -> reseat_guard thr l = true ->
  exists r, reseat_with thr l = ROk r /\ Forall smet_pos r.
Proof.
  intros Hthr H Hg. pose proof (wf_ties_smet l H) as Sm.
  destruct (wf_prepare_ties l H) as (c & rest & offs & -> & Es & Eo & Ok & Inc & Hc & Hrest & Hm & Hb).
  unfold reseat_with. rewrite Es, Eo.
  destruct (go_spec_ties thr Hthr rest offs c c 0 0%Z eq_refl eq_refl Hm Hb ltac:(lia) Hc Hrest Ok Inc Hg) as [G _].
  exists (go thr 0 c 0 rest offs). split.
  - apply (loop_go thr rest offs [] [] c 0 0%Z); auto. cbn [length]. lia.
  - inversion Sm; subst. apply go_smet; assumption.
Qed.

Lemma wfT_measures_nd met : forall rest prev, wfT_go met prev rest -> measures_nondecreasing (s_m prev) rest = true.
Proof.
  induction rest as [|c rest IH]; intros prev H; [reflexivity|]. destruct H as (H1 & _ & _ & _ & _ & _ & H7).
  cbn [measures_nondecreasing]. rewrite (IH (bs_snap c) H7), andb_true_r. apply Z.leb_le. apply sle_m. exact H1.
Qed.
Lemma wf_ties_seated_weak l : wf_ties l = true -> forallb (fun c => Qeq_bool (s_b (bs_snap c)) 0) l = true -> seated_weak l = true.
Proof.
  intros H Hs. destruct (wf_ties_P l H) as (c & rest & -> & H1 & H2 & _ & _ & _ & _ & H7).
  unfold seated_weak. rewrite Hs. cbn [andb]. apply Z.eqb_eq in H1. rewrite H1. cbn [andb].
  apply Z.eqb_eq in H1. rewrite <- H1. apply (wfT_measures_nd (bs_met c)). exact H7.
Qed.

Theorem from_bcs_reseat_correct_ties init l : wf_ties l = true -> reseat_guard THRESHOLD l = true ->
  exists r bcos, reseat l = ROk r /\ ReseatTiesOK l r /\ from_bcs_reseat init l = Some bcos /\
                 Forall2 (bco_near init) bcos (timeline 0 r).
Proof.
  intros H Hg. destruct (reseat_ties_correct_guarded l H Hg) as (r & Er & OK).
  assert (Hthr: 0 <= THRESHOLD) by (unfold THRESHOLD; lra).
  destruct (reseat_smet_ties THRESHOLD l Hthr H Hg) as (r' & Er' & Sm). unfold reseat in Er. rewrite Er in Er'. injection Er' as <-.
  destruct (wf_prepare_ties l H) as (c & rest & offs & El & Es & _ & _ & _ & _ & _ & Hm & Hb).
  unfold from_bcs_reseat. rewrite Es. rewrite El. rewrite <- El.
  apply Z.eqb_eq in Hm. pose proof Hb as Hb'. apply Qeq_bool_iff in Hb'. rewrite Hm, Hb'. cbn [andb negb].
  destruct (existsb (fun c1 => negb (Qeq_bool (s_b (bs_snap c1)) 0)) l) eqn:Ex.
  - unfold reseat. rewrite Er. pose proof OK as ((HS & HR) & OK').
    destruct (from_bcs_seated_weak init r HS Sm) as (bcos & B1 & B2).
    exists r, bcos. split; [reflexivity|]. split; [exact OK|]. split; [exact B1|].
    eapply forall2_comp; [|exact B2|apply (forall2_refl (fun p q : Q * bcs => fst p == fst q /\ bs_bpm (snd p) == bs_bpm (snd q)));
                                     intro a; split; reflexivity].
    intros a b c1 (A1 & A2 & A3) (C1 & C2). split; [rewrite A1, C1; reflexivity|rewrite A2; exact C2].
  - apply existsb_negb_false in Ex. pose proof (wf_ties_seated_weak l H Ex) as Hseat.
    destruct (from_bcs_seated_weak init l (seated_weak_b_P l Hseat) (wf_ties_smet l H)) as (bcos & B1 & B2).
    exists r, bcos. split; [exact Er|]. split; [exact OK|]. split; [exact B1|].
    destruct OK as (_ & _ & _ & (_ & _ & _ & _ & _ & _ & _ & _ & HF & _)). destruct (HF Hseat) as [_ HF'].
    eapply forall2_comp; [|exact B2|exact HF'].
    intros a b c1 (A1 & A2 & A3) (C1 & C2). split; [rewrite A1, C1; reflexivity|rewrite A2; exact C2].
Qed.
