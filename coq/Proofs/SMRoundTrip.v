(* C03 o C02: reading back what was written.  Composition of the whole-file writer theorem (SMWriteWholeFile.
   sm_write_denotes: every exact rendering of the written tokens denotes the mapset) with the whole-file reader theorem
   (SMReadWhole.sm_read_spec_conf: on the reader's domain the read is the denotation): for every mapset in c03_domb and
   every exact rendering txt of its written tokens that lies in the reader's domain c02_domb (a decidable predicate on
   the text), SMMapSet.read(txt) succeeds and returns the same charts: header fields equal, per kind the same objects
   (a permutation; columns equal, times and lengths equal as numbers), the same #OFFSET. *)
From Coq Require Import String ZArith QArith Qround Qabs List Bool Lia Lqa Sorting.Permutation.
From RV Require Import Base.PyNum Timing.Snapper Timing.Snap Timing.TimingMap Timing.Reseat Timing.Integrate
  Formats.SMText Formats.SM Formats.SMSpec Formats.SMReadDom Formats.SMWriteDom
  Proofs.SMProofs Proofs.SMCanon Proofs.SMReadMeta Proofs.SMReadWhole Proofs.SMWriteWholeFile.
From RV Require SMWriteReadDom.
Import ListNotations.
Open Scope Q_scope.

(* a chart read back is the chart written *)
Definition chart_back (c' c : smchart) : Prop :=
  c_type c' = c_type c /\ c_desc c' = c_desc c /\ c_diff c' = c_diff c /\ c_meter c' = c_meter c
  /\ Forall2 Qeq (c_radar c') (c_radar c)
  /\ forall k, perm_eqv (chart_list c' k) (chart_list c k).

Lemma q_close0 a b : q_close 0 a b = true -> a == b.
Proof.
  unfold q_close. intro H. apply Qle_bool_iff in H. apply Qabs_Qle_condition in H. lra.
Qed.
Lemma list_close0 a b : list_close 0 a b = true -> Forall2 Qeq a b.
Proof.
  revert b. induction a as [|x a IH]; destruct b as [|y b]; cbn [list_close]; intro H; try discriminate; [constructor|].
  apply andb_true_iff in H. destruct H as [H1 H2]. constructor; [apply q_close0; exact H1|exact (IH b H2)].
Qed.

Lemma header_both dc c' c : header_match 0 dc c' = true -> header_match 0 dc c = true ->
  c_type c' = c_type c /\ c_desc c' = c_desc c /\ c_diff c' = c_diff c /\ c_meter c' = c_meter c /\ Forall2 Qeq (c_radar c') (c_radar c).
Proof.
  unfold header_match. intros H1 H2.
  repeat (apply andb_true_iff in H1; destruct H1 as [H1 ?]). repeat (apply andb_true_iff in H2; destruct H2 as [H2 ?]).
  repeat match goal with H : text_eqb _ _ = true |- _ => apply text_eqb_eq in H end.
  repeat match goal with H : (_ =? _)%Z = true |- _ => apply Z.eqb_eq in H end.
  repeat split; try congruence.
  match goal with A : list_close 0 (d_radar dc) (c_radar c') = true, B : list_close 0 (d_radar dc) (c_radar c) = true |- _ =>
    apply list_close0 in A; apply list_close0 in B; revert A B end.
  generalize (d_radar dc) (c_radar c') (c_radar c). clear. induction l as [|x l IH]; intros a b A B; inversion A; inversion B; subst; constructor.
  - match goal with P : x == _, Q : x == _ |- _ => rewrite <- P, <- Q end. reflexivity.
  - eapply IH; eassumption.
Qed.

Lemma chart_objs_list c k : In (k, chart_list c k) (chart_objs c).
Proof. unfold chart_objs. destruct k; cbn [chart_list In]; tauto. Qed.

Lemma Forall2_share {A B C} (R : A -> B -> Prop) (Q : A -> C -> Prop) l : forall a b,
  Forall2 R l a -> Forall2 Q l b -> Forall2 (fun x y => exists z, R z x /\ Q z y) a b.
Proof.
  induction l as [|z l IH]; intros a b H1 H2; inversion H1; inversion H2; subst; constructor; [exists z; auto|eauto].
Qed.

Theorem sm_write_read_back_gen (Hgrid : grid48_in_table (k_tbl live_conf) = true) (s : smset) : c03_domb s = true ->
  exists toks, sm_write live_conf current s = Some toks /\
    forall txt, match_toks 0 toks txt = true -> c02_domb txt = true ->
      exists s', sm_read live_conf current txt = Some s'
                 /\ Forall2 chart_back (s_maps s') (s_maps s)
                 /\ match s_offset s', s_offset s with Some a, Some b => a == b | _, _ => False end.
Proof.
  intro Hd. destruct (sm_write_denotes s Hd) as (toks & W & H). exists toks. split; [exact W|]. intros txt Hm Hc.
  destruct (H txt Hm) as (d & SD & HR & CD).
  destruct (sm_read_spec_conf live_conf _ _ live_conf_ref live_table_ok Hgrid txt Hc) as (d' & s' & SD' & SR & FR & _ & OF).
  rewrite SD in SD'. inversion SD'; subst d'. exists s'. split; [exact SR|]. split.
  - pose proof (Forall2_share _ _ _ _ _ FR CD) as F. clear -F. induction F as [|c' c l1 l2 (dc & (A & B & _) & (A' & B')) _ IH]; constructor; [|exact IH].
    destruct (header_both dc c' c A A') as (E1 & E2 & E3 & E4 & E5). unfold chart_back. repeat split; try assumption.
    intro k. destruct (B' k) as (a' & P & F2). exists a'. split; [|exact F2].
    eapply perm_trans; [exact (B (k, chart_list c' k) (chart_objs_list c' k))|exact P].
  - rewrite OF. unfold header_roundtrip in HR. repeat (apply andb_true_iff in HR; destruct HR as [HR ?]).
    destruct (s_offset s) as [o|]; [|discriminate]. apply q_close0. assumption.
Qed.

(* the written text is in the reader's domain (Proofs/SMWriteReadDom.v), so the hypothesis c02_domb txt goes away:
   for every mapset of the exact domain whose tempo beats lie on the reader's 1/48 grid (readback_guard), reading
   any exact rendering of the written tokens succeeds and returns the charts written *)
Theorem written_text_in_reader_domain (s : smset) : c03_domb s = true -> SMWriteReadDom.readback_guard s = true ->
  exists toks, sm_write live_conf current s = Some toks /\ forall txt, match_toks 0 toks txt = true -> c02_domb txt = true.
Proof.
  intros Hd Hg. destruct (sm_write_reader_facts_live s Hd) as (toks & W & H). exists toks. split; [exact W|].
  intros txt Hm. exact (SMWriteReadDom.reader_facts_in_reader_domain s txt Hg (H txt Hm)).
Qed.

Theorem sm_write_read_back (Hgrid : grid48_in_table (k_tbl live_conf) = true) (s : smset) :
  c03_domb s = true -> SMWriteReadDom.readback_guard s = true ->
  exists toks, sm_write live_conf current s = Some toks /\
    forall txt, match_toks 0 toks txt = true ->
      exists s', sm_read live_conf current txt = Some s'
                 /\ Forall2 chart_back (s_maps s') (s_maps s)
                 /\ match s_offset s', s_offset s with Some a, Some b => a == b | _, _ => False end.
Proof.
  intros Hd Hg. destruct (sm_write_read_back_gen Hgrid s Hd) as (toks & W & H). destruct (written_text_in_reader_domain s Hd Hg) as (toks' & W' & H').
  assert (toks' = toks) by congruence. subst toks'. exists toks. split; [exact W|]. intros txt Hm. exact (H txt Hm (H' txt Hm)).
Qed.
