(* The package parser inverts the package layout:
   read_package (encode_pkg p ++ rest) = the abstract meaning of the package's sparse events
   (note events walked with the hold buffer / tempo events), leaving exactly [rest]. *)
From Coq Require Import ZArith QArith Qround List Bool Lia Lqa.
From RV Require Import Base.PyNum Base.Bytes Formats.O2J Formats.O2JSpec Generated.Tables.
Import ListNotations.
Open Scope Z_scope.

(* ---- abstract per-event semantics of the hold buffer (what read_events_note does with one enabled slot) ---- *)
Fixpoint hb_walk (col : Z) (evs : list (Q * Z * Z * Z)) (hb : hbuf) : option (list ev * hbuf) :=
  match evs with
  | [] => Some ([], hb)
  | (p, vol, pan, kind) :: r =>
      if kind =? ref_kind_tap then
        match hb_walk col r hb with Some (es, hb') => Some (EHit p col vol pan :: es, hb') | None => None end
      else if kind =? ref_kind_head then hb_walk col r (hb_set hb col (p, vol, pan))
      else if kind =? ref_kind_tail then
        match hb_pop hb col with
        | None => None
        | Some ((hm, hvol, hpan), hb1) =>
            match hb_walk col r hb1 with Some (es, hb') => Some (EHold hm p col hvol hpan :: es, hb') | None => None end
        end
      else hb_walk col r hb
  end.

(* the enabled note slots of a sparse event list (what pkg_notes lists, for the package's own column) *)
Definition sparse_notes (m n : Z) (sp : list (Z * list Z)) : list (Q * Z * Z * Z) :=
  flat_map (fun e => if note_value (snd e) =? 0 then []
                     else let vp := nth 2 (snd e) 0 in
                          [(position m (fst e) n, vp / 16, vp mod 16, nth 3 (snd e) 0)]) sp.

Lemma pkg_notes_own p c : p_channel p = ref_ch_col0 + c -> pkg_notes c p = sparse_notes (p_measure p) (p_n p) (p_events p).
Proof. intro H. unfold pkg_notes. rewrite H, Z.eqb_refl. reflexivity. Qed.
Lemma pkg_notes_other p c : p_channel p <> ref_ch_col0 + c -> pkg_notes c p = [].
Proof. intro H. unfold pkg_notes. destruct (Z.eqb_spec (p_channel p) (ref_ch_col0 + c)); [contradiction|reflexivity]. Qed.

(* ---- framing ---- *)
Lemma take_bytes_app k (a rest : list Z) : length a = k -> take_bytes k (a ++ rest) = Some (a, rest).
Proof.
  intro H. unfold take_bytes. rewrite app_length.
  destruct (Nat.ltb_spec (length a + length rest) k); [lia|].
  rewrite <- H. rewrite firstn_app, firstn_all, Nat.sub_diag, skipn_app, skipn_all, Nat.sub_diag.
  cbn [firstn skipn]. rewrite app_nil_r. reflexivity.
Qed.

Definition zero4 : list Z := [0; 0; 0; 0].
Fixpoint dense (k : nat) (i : Z) (sp : list (Z * list Z)) : list (list Z) :=
  match k with
  | O => []
  | S k' =>
      match sp with
      | (j, bs) :: sp' => if j =? i then bs :: dense k' (i + 1) sp' else zero4 :: dense k' (i + 1) sp
      | [] => zero4 :: dense k' (i + 1) []
      end
  end.

Definition all4 (sp : list (Z * list Z)) : Prop := Forall (fun e => length (snd e) = 4%nat) sp.

Lemma sparse_ok_cons lo n j bs r : sparse_ok lo n ((j, bs) :: r) = true <->
  lo <= j /\ j < n /\ length bs = 4%nat /\ bytes_ok bs = true /\ sparse_ok (j + 1) n r = true.
Proof.
  cbn [sparse_ok]. rewrite !andb_true_iff, Z.leb_le, Z.ltb_lt, Nat.eqb_eq. tauto.
Qed.

Lemma sparse_ok_all4 lo n sp : sparse_ok lo n sp = true -> all4 sp.
Proof.
  revert lo; induction sp as [|[j bs] r IH]; intros lo H; constructor.
  - apply sparse_ok_cons in H. cbn. tauto.
  - apply sparse_ok_cons in H. apply (IH (j + 1)). tauto.
Qed.

Lemma enc_events_length k : forall i sp, all4 sp -> length (enc_events k i sp) = (4 * k)%nat.
Proof.
  induction k as [|k IH]; intros i sp H; [reflexivity|]. cbn [enc_events].
  destruct sp as [|[j bs] sp'].
  - rewrite app_length, IH by constructor. cbn [length]. lia.
  - inversion H as [|? ? H1 H2]; subst. cbn [snd] in H1. destruct (j =? i).
    + rewrite app_length, IH, H1 by assumption. lia.
    + rewrite app_length, IH by assumption. cbn [length]. lia.
Qed.

Lemma chunks4_enc k : forall fuel i sp, all4 sp -> (k <= fuel)%nat ->
  chunks4 fuel (enc_events k i sp) = dense k i sp.
Proof.
  induction k as [|k IH]; intros fuel i sp H Hf.
  - cbn [enc_events dense]. destruct fuel; reflexivity.
  - destruct fuel as [|fuel]; [lia|]. cbn [enc_events dense].
    destruct sp as [|[j bs] sp'].
    + cbn [app chunks4]. rewrite IH; [reflexivity|constructor|lia].
    + inversion H as [|? ? H1 H2]; subst. cbn [snd] in H1. destruct (j =? i).
      * destruct bs as [|a [|b [|c [|d [|]]]]]; try discriminate. cbn [app chunks4]. rewrite IH; [reflexivity|assumption|lia].
      * cbn [app chunks4]. rewrite IH; [reflexivity|assumption|lia].
Qed.

Lemma dense_length k : forall i sp, length (dense k i sp) = k.
Proof.
  induction k as [|k IH]; intros i sp; [reflexivity|]. cbn [dense].
  destruct sp as [|[j bs] sp']; [|destruct (j =? i)]; cbn [length]; rewrite IH; reflexivity.
Qed.

(* position as the reader computes it = position as the format states it *)
Lemma sub_measure_position (i n : nat) (cur : Z) : sub_measure i n cur = position cur (Z.of_nat i) (Z.of_nat n).
Proof. unfold sub_measure, position. apply Qred_complete. ring. Qed.

(* ---- note events: the dense walk of the reader = the sparse abstract walk ---- *)
Lemma events_note_dense k : forall (i : nat) sp n col cur hb,
  sparse_ok (Z.of_nat i) (Z.of_nat i + Z.of_nat k) sp = true ->
  events_note_go (dense k (Z.of_nat i) sp) i n col cur hb
  = hb_walk col (sparse_notes cur (Z.of_nat n) sp) hb.
Proof.
  induction k as [|k IH]; intros i sp n col cur hb H.
  - destruct sp as [|[j bs] r]; [reflexivity|]. apply sparse_ok_cons in H. lia.
  - cbn [dense]. destruct sp as [|[j bs] r].
    + cbn [events_note_go zero4]. change (le_int16 [0; 0]) with (Some 0). cbn [Z.eqb].
      replace (Z.of_nat i + 1) with (Z.of_nat (S i)) by lia. rewrite IH; [reflexivity|reflexivity].
    + pose proof H as H'. apply sparse_ok_cons in H as (Hlo & Hhi & H1 & Hb & Hr).
      destruct (Z.eqb_spec j (Z.of_nat i)) as [E|E].
      * subst j. destruct bs as [|b0 [|b1 [|b2 [|b3 [|]]]]]; try discriminate.
        cbn [events_note_go]. unfold sparse_notes. cbn [flat_map fst snd].
        fold (sparse_notes cur (Z.of_nat n) r).
        unfold note_value. cbn [firstn nth]. cbn [le_int16].
        replace (Z.of_nat i + 1) with (Z.of_nat (S i)) in * by lia.
        assert (Hr' : sparse_ok (Z.of_nat (S i)) (Z.of_nat (S i) + Z.of_nat k) r = true).
        { replace (Z.of_nat (S i) + Z.of_nat k) with (Z.of_nat i + Z.of_nat (S k)) by lia. exact Hr. }
        destruct (to_signed 16 (le_unsigned [b0; b1]) =? 0) eqn:En.
        -- cbn [app]. apply IH. exact Hr'.
        -- cbn [app hb_walk]. rewrite sub_measure_position.
           change Tables.c07.kind_hit with ref_kind_tap. change Tables.c07.kind_hold_head with ref_kind_head.
           change Tables.c07.kind_hold_tail with ref_kind_tail.
           destruct (b3 =? ref_kind_tap); [rewrite IH by exact Hr'; reflexivity|].
           destruct (b3 =? ref_kind_head); [rewrite IH by exact Hr'; reflexivity|].
           destruct (b3 =? ref_kind_tail).
           ++ destruct (hb_pop hb col) as [[[[hm hvol] hpan] hb1]|]; [|reflexivity].
              rewrite IH by exact Hr'. reflexivity.
           ++ apply IH. exact Hr'.
      * cbn [events_note_go zero4]. change (le_int16 [0; 0]) with (Some 0). cbn [Z.eqb].
        replace (Z.of_nat i + 1) with (Z.of_nat (S i)) by lia. rewrite IH; [reflexivity|].
        apply sparse_ok_cons. repeat split; auto; try lia.
        replace (Z.of_nat (S i) + Z.of_nat k) with (Z.of_nat i + Z.of_nat (S k)) by lia. exact Hr.
Qed.

(* ---- tempo events ---- *)
Definition sparse_tempos (m n : Z) (sp : list (Z * list Z)) : option (list (Q * Q)) :=
  all_some (map (fun e => match le_float32 (snd e) with
                          | Some v => Some (position m (fst e) n, v)
                          | None => None end) sp).

Lemma pkg_tempos_own p : p_channel p = ref_ch_tempo ->
  pkg_tempos p = sparse_tempos (p_measure p) (p_n p) (p_events p).
Proof. intro H. unfold pkg_tempos. rewrite H, Z.eqb_refl. reflexivity. Qed.

Definition bpm_evs (ts : list (Q * Q)) : list ev := map (fun t => EBpm (fst t) (snd t)) (nonzero_tempos ts).

Lemma events_bpm_dense k : forall (i : nat) sp n cur ts,
  sparse_ok (Z.of_nat i) (Z.of_nat i + Z.of_nat k) sp = true ->
  sparse_tempos cur (Z.of_nat n) sp = Some ts ->
  events_bpm_go (dense k (Z.of_nat i) sp) i n cur = Some (bpm_evs ts).
Proof.
  induction k as [|k IH]; intros i sp n cur ts H Ht.
  - destruct sp as [|[j bs] r].
    + cbn in Ht. injection Ht as <-. reflexivity.
    + apply sparse_ok_cons in H. lia.
  - cbn [dense]. destruct sp as [|[j bs] r].
    + cbn in Ht. injection Ht as <-. cbn [events_bpm_go zero4].
      change (le_float32 [0; 0; 0; 0]) with (Some (Qred 0)).
      replace (Z.of_nat i + 1) with (Z.of_nat (S i)) by lia.
      rewrite (IH (S i) [] n cur []); [reflexivity|reflexivity|reflexivity].
    + apply sparse_ok_cons in H as (Hlo & Hhi & H1 & Hb & Hr).
      destruct (Z.eqb_spec j (Z.of_nat i)) as [E|E].
      * subst j. unfold sparse_tempos in Ht. cbn [map all_some fst snd] in Ht.
        destruct (le_float32 bs) as [v|] eqn:Ev; [|discriminate].
        fold (sparse_tempos cur (Z.of_nat n) r) in Ht.
        destruct (sparse_tempos cur (Z.of_nat n) r) as [ts'|] eqn:Et; [|discriminate]. injection Ht as <-.
        cbn [events_bpm_go]. rewrite Ev.
        replace (Z.of_nat i + 1) with (Z.of_nat (S i)) in * by lia.
        rewrite (IH (S i) r n cur ts'); [| |exact Et].
        2:{ replace (Z.of_nat (S i) + Z.of_nat k) with (Z.of_nat i + Z.of_nat (S k)) by lia. exact Hr. }
        unfold bpm_evs, nonzero_tempos. cbn [filter snd]. destruct (Qeq_bool v 0); cbn [negb map fst snd]; [reflexivity|].
        rewrite sub_measure_position. reflexivity.
      * cbn [events_bpm_go zero4]. change (le_float32 [0; 0; 0; 0]) with (Some (Qred 0)).
        replace (Z.of_nat i + 1) with (Z.of_nat (S i)) by lia.
        rewrite (IH (S i) ((j, bs) :: r) n cur ts); [reflexivity| |exact Ht].
        apply sparse_ok_cons. repeat split; auto; try lia.
        replace (Z.of_nat (S i) + Z.of_nat k) with (Z.of_nat i + Z.of_nat (S k)) by lia. exact Hr.
Qed.

(* ---- the abstract meaning of one package ---- *)
Definition pkg_sem (p : fpkg) (hb : hbuf) : option (list ev * hbuf) :=
  if (ref_ch_col0 <=? p_channel p) && (p_channel p <=? ref_ch_col_last) then
    hb_walk (p_channel p - ref_ch_col0) (sparse_notes (p_measure p) (p_n p) (p_events p)) hb
  else if p_channel p =? ref_ch_tempo then
    match sparse_tempos (p_measure p) (p_n p) (p_events p) with
    | Some ts => Some (bpm_evs ts, hb)
    | None => None
    end
  else Some ([], hb).

Lemma in_i32_of_bounds z : 0 <= z < 2 ^ 31 -> - 2 ^ 31 <= z < 2 ^ 31.
Proof. lia. Qed.

(* package parser inverts encode_pkg *)
Theorem read_package_enc p rest hb : wf_pkg p = true ->
  (p_channel p = ref_ch_tempo -> sparse_tempos (p_measure p) (p_n p) (p_events p) <> None) ->
  read_package (encode_pkg p ++ rest) hb
  = match pkg_sem p hb with Some (es, hb') => Some (es, rest, hb') | None => None end.
Proof.
  intros Hw Ht. unfold wf_pkg in Hw. repeat (apply andb_true_iff in Hw as [Hw ?]).
  apply Z.leb_le in Hw. apply Z.ltb_lt in H4. apply Z.leb_le in H3. apply Z.leb_le in H2.
  apply Z.leb_le in H1. apply Z.ltb_lt in H0. rename H into Hsp.
  pose proof (sparse_ok_all4 _ _ _ Hsp) as H4s.
  unfold read_package, encode_pkg.
  set (ed := enc_events (Z.to_nat (p_n p)) 0 (p_events p)).
  replace ((enc_int32 (p_measure p) ++ enc_int16 (p_channel p) ++ enc_int16 (p_n p) ++ ed) ++ rest)
    with ((enc_int32 (p_measure p) ++ enc_int16 (p_channel p) ++ enc_int16 (p_n p)) ++ ed ++ rest)
    by (rewrite <- !app_assoc; reflexivity).
  rewrite take_bytes_app by reflexivity.
  change (firstn 4 (enc_int32 (p_measure p) ++ enc_int16 (p_channel p) ++ enc_int16 (p_n p))) with (enc_int32 (p_measure p)).
  change (firstn 2 (skipn 4 (enc_int32 (p_measure p) ++ enc_int16 (p_channel p) ++ enc_int16 (p_n p)))) with (enc_int16 (p_channel p)).
  change (skipn 6 (enc_int32 (p_measure p) ++ enc_int16 (p_channel p) ++ enc_int16 (p_n p))) with (enc_int16 (p_n p)).
  rewrite le_int32_roundtrip by lia. rewrite !le_int16_roundtrip by lia.
  assert (Led : length ed = Z.to_nat (4 * p_n p)).
  { unfold ed. rewrite enc_events_length by assumption. lia. }
  rewrite (take_bytes_app _ ed rest Led).
  assert (Hch : chunks4 (length ed) ed = dense (Z.to_nat (p_n p)) 0 (p_events p)).
  { unfold ed. apply chunks4_enc; [assumption|]. rewrite enc_events_length by assumption. lia. }
  assert (Hsp' : sparse_ok (Z.of_nat 0) (Z.of_nat 0 + Z.of_nat (Z.to_nat (p_n p))) (p_events p) = true).
  { cbn [Z.of_nat Z.add]. rewrite Z2Nat.id by lia. exact Hsp. }
  unfold pkg_sem.
  change Tables.c07.col_range_start with ref_ch_col0. change Tables.c07.col_range_stop with (ref_ch_col_last + 1).
  change Tables.c07.ch_bpm_change with ref_ch_tempo. change Tables.c07.ch_measure_fraction with 0.
  replace (p_channel p <? ref_ch_col_last + 1) with (p_channel p <=? ref_ch_col_last).
  2:{ destruct (Z.leb_spec (p_channel p) ref_ch_col_last), (Z.ltb_spec (p_channel p) (ref_ch_col_last + 1)); auto; lia. }
  destruct ((ref_ch_col0 <=? p_channel p) && (p_channel p <=? ref_ch_col_last)).
  - unfold read_events_note. rewrite Hch, dense_length.
    change 0 with (Z.of_nat 0) at 1. rewrite (events_note_dense _ 0%nat _ _ _ _ _ Hsp').
    rewrite Z2Nat.id by lia. change (p_channel p - 2) with (p_channel p - ref_ch_col0).
    destruct (hb_walk _ _ hb) as [[es hb']|]; reflexivity.
  - destruct (Z.eqb_spec (p_channel p) ref_ch_tempo) as [E|E].
    + specialize (Ht E). destruct (sparse_tempos (p_measure p) (p_n p) (p_events p)) as [ts|] eqn:Ets; [|congruence].
      unfold read_events_bpm. rewrite Hch, dense_length.
      change 0 with (Z.of_nat 0) at 1.
      rewrite (events_bpm_dense _ 0%nat _ (Z.to_nat (p_n p)) _ ts Hsp'); [reflexivity|].
      rewrite Z2Nat.id by lia. exact Ets.
    + destruct (Z.eqb_spec (p_channel p) 0); [unfold ref_ch_tempo in *; lia|]. reflexivity.
Qed.
