(* Towards the whole-file theorems of C04: the reader's note pipeline (per-lane stable sort, LN pairing, times through
   the C10 timing model) refines the reference interpreter's (bms_denote). *)
From Coq Require Import ZArith QArith Qround Qabs List Bool Lia Lqa.
From RV Require Import Base.PyNum Timing.Snapper Timing.Snap Timing.TimingMap Timing.Reseat Timing.Integrate Timing.Domain
  Formats.BMSText Formats.BMS Formats.BMSSpec Proofs.SnapperProofs Proofs.TimingProofs Proofs.RederiveProofs Proofs.BMSProofs.
Import ListNotations.
Open Scope Z_scope.

(* ---- generic: stable insertion sort and filter commute with a map that preserves the order test ---- *)
Lemma insert_by_map {A B} (f : A -> B) (ltA : A -> A -> bool) (ltB : B -> B -> bool) :
  (forall a b, ltB (f a) (f b) = ltA a b) ->
  forall x l, insert_by ltB (f x) (map f l) = map f (insert_by ltA x l).
Proof.
  intros H x. induction l as [|y l IH]; cbn; [reflexivity|].
  rewrite H. destruct (negb (ltA y x)); cbn; [reflexivity|]. rewrite IH. reflexivity.
Qed.
Lemma sort_by_map {A B} (f : A -> B) (ltA : A -> A -> bool) (ltB : B -> B -> bool) :
  (forall a b, ltB (f a) (f b) = ltA a b) ->
  forall l, sort_by ltB (map f l) = map f (sort_by ltA l).
Proof.
  intros H. unfold sort_by. induction l as [|x l IH]; cbn; [reflexivity|].
  rewrite IH. apply insert_by_map. exact H.
Qed.
Lemma filter_map_comm {A B} (f : A -> B) (p : B -> bool) (q : A -> bool) :
  (forall a, p (f a) = q a) -> forall l, filter p (map f l) = map f (filter q l).
Proof.
  intros H. induction l as [|x l IH]; cbn; [reflexivity|]. rewrite H. destruct (q x); cbn; rewrite IH; reflexivity.
Qed.

(* ---- the reader's lane object for an object of the text ---- *)

Lemma lobj_lt_of c a b : lobj_lt (lobj_of c a) (lobj_of c b) = obj_lt a b.
Proof. reflexivity. Qed.

Section Pairing.
  Variable lnobj : text.
  Variable samples : list (text * text).
  Variable c : Z.
  Definition smp_of (id : text) : text := match dict_get id samples with Some v => v | None => [] end.
  Definition hitp_of (o : sobj) : hitp := mkHitp c (smp_of (o_id o)) (lo_snap (lobj_of c o)).
  Definition holdp_of (ht : sobj * sobj) : holdp := mkHoldp (hitp_of (fst ht)) (lo_snap (lobj_of c (snd ht))).
  Definition optcons (prev : option sobj) (acc : list hitp) : list hitp :=
    match prev with Some h => hitp_of h :: acc | None => acc end.

  (* LN pairing: whenever the reference pairing (a tail closes the object just before it in time) succeeds, the
     reader's stack discipline (a tail pops the last hit of the lane) produces the same hits and holds, in the same order *)
  Lemma pair_lane_refines : forall os prev hs ls acc_h acc_l,
    pair_ln lnobj prev os = Some (hs, ls) ->
    pair_lane lnobj samples (optcons prev acc_h) acc_l (map (lobj_of c) os)
    = Some (rev acc_h ++ map hitp_of hs, rev acc_l ++ map holdp_of ls).
  Proof.
    induction os as [|o r IH]; intros prev hs ls acc_h acc_l H; cbn in H.
    - inversion H; subst. cbn. destruct prev; cbn; rewrite ?app_nil_r; reflexivity.
    - cbn [map pair_lane lobj_of lo_pair]. destruct (text_eqb (o_id o) lnobj) eqn:E.
      + destruct prev as [h|]; [|discriminate].
        destruct (pair_ln lnobj None r) as [[hs' ls']|] eqn:E2; [|discriminate]. inversion H; subst.
        match goal with |- _ = ?R =>
          change (pair_lane lnobj samples (optcons None acc_h) (holdp_of (h, o) :: acc_l) (map (lobj_of c) r) = R) end.
        rewrite (IH None hs ls' acc_h _ E2). cbn [optcons rev map].
        rewrite <- app_assoc. reflexivity.
      + destruct (pair_ln lnobj (Some o) r) as [[hs' ls']|] eqn:E2; [|discriminate]. inversion H; subst.
        match goal with |- _ = ?R =>
          change (pair_lane lnobj samples (optcons (Some o) (optcons prev acc_h)) acc_l (map (lobj_of c) r) = R) end.
        rewrite (IH (Some o) hs' ls (optcons prev acc_h) acc_l E2).
        destruct prev as [h|]; cbn [optcons rev map]; rewrite <- ?app_assoc; reflexivity.
  Qed.

  Corollary pair_lane_of_pair_ln os hs ls :
    pair_ln lnobj None os = Some (hs, ls) ->
    pair_lane lnobj samples [] [] (map (lobj_of c) os) = Some (map hitp_of hs, map holdp_of ls).
  Proof. intro H. exact (pair_lane_refines os None hs ls [] [] H). Qed.
End Pairing.

(* ================================================================ timing ================================================================ *)
(* time_of looks only at measure and beat of the queried position *)
Lemma time_of_go_query_ext rest : forall t cur s s',
  s_m s = s_m s' -> s_b s = s_b s' -> time_of_go t cur rest s = time_of_go t cur rest s'.
Proof.
  induction rest as [|n r IH]; intros t cur s s' Em Eb; cbn.
  - unfold seg_beats. rewrite Em, Eb. reflexivity.
  - assert (snap_le (bs_snap n) s = snap_le (bs_snap n) s') as ->.
    { unfold snap_le, snap_lt, snap_eq. rewrite Em, Eb. reflexivity. }
    destruct (snap_le (bs_snap n) s'); [apply IH; assumption|]. unfold seg_beats. rewrite Em, Eb. reflexivity.
Qed.
Lemma time_of_query_ext init l s s' : s_m s = s_m s' -> s_b s = s_b s' -> time_of init l s = time_of init l s'.
Proof. destruct l; [reflexivity|]. apply time_of_go_query_ext. Qed.

Lemma domainb_sub tbl l qs qs' : domainb tbl l qs = true -> incl qs' qs -> domainb tbl l qs' = true.
Proof.
  destruct l as [|c0 rest]; [discriminate|]. unfold domainb. intros H I.
  apply andb_true_iff in H. destruct H as [H Q]. apply andb_true_iff. split; [exact H|].
  apply forallb_forall. intros q Hq. rewrite forallb_forall in Q. apply Q. apply I. exact Hq.
Qed.

Section Timing.
  Variable tbl : list Q.
  Hypothesis Hok : table_ok (1 # 96) tbl = true.

  (* the C10 theorem in the form used here: on the boolean domain, whatever TimingMap.offsets returns for a TimingMap
     built from the script is the integrated time of each queried position *)
  Lemma offsets_are_times script qs tm offs :
    domainb tbl script qs = true -> from_bcs 0 script = Some tm -> tm_offsets tbl tm qs = Some offs ->
    Forall2 (fun q r => (r == time_of 0 script q)%Q) qs offs.
  Proof.
    intros D F T. destruct (offsets_on_grid_b tbl Hok 0%Q script qs D) as [bcos [res [F' [T' R]]]].
    rewrite F in F'. inversion F'; subst. rewrite T in T'. inversion T'; subst. exact R.
  Qed.
End Timing.

(* ================================================================ the tempo script ================================================================ *)

(* the reader's list of tempo changes: header tempo first, then the parsed objects; the header tempo is dropped when the
   FIRST parsed tempo object sits at measure 0 beat 0; then a stable sort by position *)
Definition reader_script (bpm0 : Q) (tempos : list bcs) : list bcs := override_sort (origin_bcs bpm0 :: tempos).

(* guard: a tempo object at measure 0 position 0, if there is one, is the first tempo object the text lists *)
Lemma not_lt_origin b o : nonneg_snap b = true -> at_origin (bs_snap o) = true -> bcs_lt b o = false.
Proof.
  unfold nonneg_snap, at_origin, bcs_lt, snap_lt. intros N O.
  apply andb_true_iff in N. destruct N as [N1 N2]. apply andb_true_iff in O. destruct O as [O1 O2].
  apply Z.leb_le in N1. apply Z.eqb_eq in O1. apply Qle_bool_iff in N2. apply Qeq_bool_iff in O2.
  rewrite O1. apply orb_false_iff. split; [apply Z.ltb_ge; exact N1|].
  destruct (s_m (bs_snap b) =? 0) eqn:E; [|reflexivity]. cbn.
  apply Qlt_bool_false. rewrite O2. exact N2.
Qed.

Lemma insert_origin_first o l : at_origin (bs_snap o) = true -> forallb nonneg_snap l = true ->
  insert_by bcs_lt o l = o :: l.
Proof.
  intros O N. destruct l as [|y l]; [reflexivity|]. cbn. cbn in N. apply andb_true_iff in N. destruct N as [Ny _].
  rewrite (not_lt_origin y o Ny O). reflexivity.
Qed.

Lemma sort_by_forallb {A} (lt : A -> A -> bool) (p : A -> bool) l : forallb p l = true -> forallb p (sort_by lt l) = true.
Proof.
  intro H. apply forallb_forall. intros x Hx. rewrite forallb_forall in H. apply H.
  eapply Permutation.Permutation_in; [apply Permutation.Permutation_sym; apply sort_by_perm|exact Hx].
Qed.

Lemma at_origin_head_sorted : forall l, forallb nonneg_snap l = true ->
  forallb (fun b => negb (at_origin (bs_snap b))) l = true ->
  match sort_by bcs_lt l with c :: _ => at_origin (bs_snap c) = false | [] => True end.
Proof.
  intros l _ H. pose proof (sort_by_forallb bcs_lt _ l H) as S.
  destruct (sort_by bcs_lt l) as [|c r]; [exact I|]. cbn in S. apply andb_true_iff in S. destruct S as [S _].
  apply negb_true_iff in S. exact S.
Qed.

(* under the guard, the reader's tempo list is the reference script *)
Lemma reader_script_is_script (bpm0 : Q) (tempos : list bcs) :
  forallb nonneg_snap tempos = true -> origin_tempo_first tempos = true ->
  reader_script bpm0 tempos = script_of bpm0 tempos.
Proof.
  intros N G. unfold reader_script, override_sort, script_of.
  change (fun a b : bcs => snap_lt (bs_snap a) (bs_snap b)) with bcs_lt.
  destruct tempos as [|b1 rest]; [reflexivity|].
  change ((s_m (bs_snap b1) =? 0) && Qeq_bool (s_b (bs_snap b1)) 0) with (at_origin (bs_snap b1)).
  cbn [origin_tempo_first] in G.
  destruct (at_origin (bs_snap b1)) eqn:O.
  - (* first parsed object at the origin: it replaces the header tempo in both *)
    cbn [sort_by fold_right]. fold (sort_by bcs_lt rest).
    cbn in N. apply andb_true_iff in N. destruct N as [_ N].
    rewrite (insert_origin_first b1 (sort_by bcs_lt rest) O (sort_by_forallb _ _ _ N)). rewrite O. reflexivity.
  - (* no object at the origin: the header tempo stays first in both *)
    cbn [orb] in G.
    pose proof (at_origin_head_sorted (b1 :: rest) N G) as Hh.
    assert (Es : sort_by bcs_lt (origin_bcs bpm0 :: b1 :: rest) = origin_bcs bpm0 :: sort_by bcs_lt (b1 :: rest)).
    { change (sort_by bcs_lt (origin_bcs bpm0 :: b1 :: rest)) with (insert_by bcs_lt (origin_bcs bpm0) (sort_by bcs_lt (b1 :: rest))).
      apply insert_origin_first; [reflexivity|]. apply sort_by_forallb. exact N. }
    rewrite Es. destruct (sort_by bcs_lt (b1 :: rest)) as [|c r] eqn:E.
    + reflexivity.
    + rewrite Hh. reflexivity.
Qed.

(* ================================================================ all lanes ================================================================ *)
Lemma lay_lookup_dict_get ch (lay : layout) : lay_lookup ch lay = dict_get ch lay.
Proof. induction lay as [|[k v] lay IH]; cbn; [reflexivity|]. rewrite IH. reflexivity. Qed.

(* the lane objects the reader collects from the objects of the text, in the order of the text *)
Definition in_lane (lay : layout) (c : Z) (o : sobj) : bool :=
  match lane_of lay (o_chan o) with Some c' => c' =? c | None => false end.

Lemma lane_lobjs_filter lay c sobjs :
  filter (fun o => lo_col o =? c) (lane_lobjs lay sobjs) = map (lobj_of c) (filter (in_lane lay c) sobjs).
Proof.
  unfold lane_lobjs, in_lane. induction sobjs as [|o r IH]; cbn; [reflexivity|].
  destruct (lane_of lay (o_chan o)) as [c'|]; cbn.
  - destruct (c' =? c) eqn:E; cbn; rewrite IH; [apply Z.eqb_eq in E; subst; reflexivity|reflexivity].
  - exact IH.
Qed.

Definition hitp_of' (samples : list (text * text)) (co : Z * sobj) : hitp := hitp_of samples (fst co) (snd co).
Definition holdp_of' (samples : list (text * text)) (cl : Z * (sobj * sobj)) : holdp := holdp_of samples (fst cl) (snd cl).

(* per-lane time order and LN pairing, all lanes: the reader's pairing loop yields what the reference interpreter
   assigns, whatever the order of the lines *)
Lemma pair_lanes_refines lnobj samples lay sobjs : forall cols H L,
  lanes_denote lnobj lay sobjs (map Z.of_nat cols) = Some (H, L) ->
  pair_lanes lnobj samples (lane_lobjs lay sobjs) cols = Some (map (hitp_of' samples) H, map (holdp_of' samples) L).
Proof.
  induction cols as [|k ks IH]; intros H L D; cbn in D.
  - inversion D; reflexivity.
  - cbn [pair_lanes]. rewrite lane_lobjs_filter.
    change (fun o : sobj => match lane_of lay (o_chan o) with Some c' => c' =? Z.of_nat k | None => false end)
      with (in_lane lay (Z.of_nat k)) in D.
    rewrite (sort_by_map (lobj_of (Z.of_nat k)) obj_lt lobj_lt (lobj_lt_of (Z.of_nat k))).
    destruct (pair_ln lnobj None (sort_by obj_lt (filter (in_lane lay (Z.of_nat k)) sobjs))) as [[hs ls]|] eqn:E; [|discriminate].
    destruct (lanes_denote lnobj lay sobjs (map Z.of_nat ks)) as [[H' L']|] eqn:E2; [|discriminate].
    inversion D; subst.
    rewrite (pair_lane_of_pair_ln lnobj samples (Z.of_nat k) _ hs ls E). rewrite (IH H' L' eq_refl).
    rewrite !map_app, !map_map. reflexivity.
Qed.

(* ================================================================ notes of the parsed state ================================================================ *)
Lemma forall2_map_l {A B C} (g : A -> C) (P : C -> B -> Prop) l r :
  Forall2 P (map g l) r -> Forall2 (fun a b => P (g a) b) l r.
Proof.
  revert r. induction l as [|a l IH]; intros r H; inversion H; subst; constructor; auto.
Qed.
Lemma forall2_combine {A B C} (f : A * B -> C) (P : A -> B -> Prop) l r :
  Forall2 P l r -> Forall2 (fun a c => exists b, c = f (a, b) /\ P a b) l (map f (combine l r)).
Proof.
  induction 1; cbn; constructor; auto. exists y. auto.
Qed.
Lemma forall2_zip3 {A B C D} (f : A -> B -> C -> D) (P : A -> B -> Prop) (Q : A -> C -> Prop) l r1 r2 :
  Forall2 P l r1 -> Forall2 Q l r2 -> Forall2 (fun a d => exists b c, d = f a b c /\ P a b /\ Q a c) l (zip3 f l r1 r2).
Proof.
  intros H. revert r2. induction H; intros r2 H2; inversion H2; subst; cbn; constructor; auto.
  eexists _, _. eauto.
Qed.
Lemma forall2_impl {A B} (P Q : A -> B -> Prop) l r : (forall a b, P a b -> Q a b) -> Forall2 P l r -> Forall2 Q l r.
Proof. intros H. induction 1; constructor; auto. Qed.

(* the query snap the reader forms for an object: Snap(measure, beat, None) *)

Lemma hits_out_forall2 samples (tmf : sobj -> Q) (Hl : list (Z * sobj)) : forall offs,
  Forall2 (fun co (r : Q) => (r == tmf (snd co))%Q) Hl offs ->
  Forall2 (fun co h => h_col h = fst co /\ (h_off h == tmf (snd co))%Q /\ h_sample h = smp_of samples (o_id (snd co))) Hl
          (map (fun p : hitp * Q => mkHit (hp_col (fst p)) (snd p) (hp_sample (fst p))) (combine (map (hitp_of' samples) Hl) offs)).
Proof.
  induction Hl as [|co Hl IH]; intros offs G; inversion G; subst; cbn [map combine]; constructor.
  - cbn [h_col h_off h_sample hitp_of' hitp_of hp_col hp_sample fst snd]. auto.
  - apply IH. assumption.
Qed.
Lemma holds_out_forall2 samples (tmf : sobj -> Q) (Ll : list (Z * (sobj * sobj))) : forall oh ot,
  Forall2 (fun cl (r : Q) => (r == tmf (fst (snd cl)))%Q) Ll oh ->
  Forall2 (fun cl (r : Q) => (r == tmf (snd (snd cl)))%Q) Ll ot ->
  Forall2 (fun cl l => ho_col l = fst cl /\ (ho_off l == tmf (fst (snd cl)))%Q
                       /\ (ho_len l == tmf (snd (snd cl)) - tmf (fst (snd cl)))%Q
                       /\ ho_sample l = smp_of samples (o_id (fst (snd cl)))) Ll
          (zip3 (fun h a b => mkHold (hp_col (lp_hit h)) a (Qred (b - a)) (hp_sample (lp_hit h)))
                (map (holdp_of' samples) Ll) oh ot).
Proof.
  induction Ll as [|cl Ll IH]; intros oh ot G1 G2;
    inversion G1 as [|x1 y1 l1 r1 E1 R1]; subst; inversion G2 as [|x2 y2 l2 r2 E2 R2]; subst; cbn [map zip3]; constructor.
  - cbn [ho_col ho_off ho_len ho_sample holdp_of' holdp_of hitp_of hp_col hp_sample lp_hit fst snd].
    repeat split; auto. rewrite Qred_correct. rewrite E1, E2. reflexivity.
  - apply IH; assumption.
Qed.

Section NotesOfState.
  Variable tbl : list Q.
  Hypothesis Hok : table_ok (1 # 96) tbl = true.
  Variables (lay : layout) (mk : Z) (meta : bms_meta) (st : rstate).
  Variables (sobjs : list sobj) (tempos : list bcs).
  Let script := script_of (m_bpm meta) tempos.
  Let tm_of (o : sobj) : Q := time_of 0 script (snap_of o).

  Hypothesis Hbcs : r_bcs st = rev tempos ++ [origin_bcs (m_bpm meta)].
  Hypothesis Hobjs : r_objs st = rev (lane_lobjs lay sobjs).
  Hypothesis Hnonneg : forallb nonneg_snap tempos = true.
  Hypothesis Hfirst : origin_tempo_first tempos = true.

  Variables (H : list (Z * sobj)) (L : list (Z * (sobj * sobj))).
  Hypothesis Hden : lanes_denote (m_lnobj meta) lay sobjs (map Z.of_nat (seq 0 (Z.to_nat mk))) = Some (H, L).
  (* the C10 domain (tempo changes pairwise on the grid, positions at or after the origin) for the queried positions *)
  Hypothesis Dhits : domainb tbl script (map (fun co => qsnap (snd co)) H) = true.
  Hypothesis Dheads : domainb tbl script (map (fun cl => qsnap (fst (snd cl))) L) = true.
  Hypothesis Dtails : domainb tbl script (map (fun cl => qsnap (snd (snd cl))) L) = true.

  Lemma tm_qsnap o : time_of 0 script (qsnap o) = tm_of o.
  Proof. apply time_of_query_ext; reflexivity. Qed.

  (* whenever the reader returns, every lane holds exactly the denoted hits and holds (lanes in column order, each in
     time order), in the lane's column, at the integrated time, carrying the sample of the (head) id *)
  Theorem notes_of_state_denotes hs ls bp :
    notes_of_state tbl mk meta st = Some (hs, ls, bp) ->
    Forall2 (fun co h => h_col h = fst co /\ (h_off h == tm_of (snd co))%Q
                         /\ h_sample h = smp_of (m_samples meta) (o_id (snd co))) H hs
    /\ Forall2 (fun cl l => ho_col l = fst cl /\ (ho_off l == tm_of (fst (snd cl)))%Q
                            /\ (ho_len l == tm_of (snd (snd cl)) - tm_of (fst (snd cl)))%Q
                            /\ ho_sample l = smp_of (m_samples meta) (o_id (fst (snd cl)))) L ls.
  Proof.
    unfold notes_of_state. rewrite Hbcs, rev_app_distr, rev_involutive. cbn [rev app].
    fold (reader_script (m_bpm meta) tempos).
    rewrite (reader_script_is_script _ _ Hnonneg Hfirst). fold script.
    destruct (from_bcs 0 script) as [tm|] eqn:F; [|discriminate].
    rewrite Hobjs, rev_involutive. rewrite (pair_lanes_refines _ (m_samples meta) _ _ _ _ _ Hden).
    intro R.
    (* hits *)
    assert (Hh : forall hs', match map (hitp_of' (m_samples meta)) H with
                   | [] => Some []
                   | _ => match tm_offsets tbl tm (map hp_snap (map (hitp_of' (m_samples meta)) H)) with
                          | None => None
                          | Some offs => Some (map (fun p => mkHit (hp_col (fst p)) (snd p) (hp_sample (fst p)))
                                                   (combine (map (hitp_of' (m_samples meta)) H) offs))
                          end
                   end = Some hs' ->
             Forall2 (fun co h => h_col h = fst co /\ (h_off h == tm_of (snd co))%Q
                                  /\ h_sample h = smp_of (m_samples meta) (o_id (snd co))) H hs').
    { intros hs' E. destruct H as [|co0 H0] eqn:EH; [cbn in E; inversion E; constructor|]. rewrite <- EH in *.
      destruct (map (hitp_of' (m_samples meta)) H) as [|x xs] eqn:EM; [subst H; discriminate|]. rewrite <- EM in E.
      destruct (tm_offsets tbl tm (map hp_snap (map (hitp_of' (m_samples meta)) H))) as [offs|] eqn:T; [|discriminate].
      inversion E; subst hs'. rewrite map_map in T.
      pose proof (offsets_are_times tbl Hok script _ tm offs Dhits F T) as Ft.
      apply forall2_map_l in Ft.
      assert (G : Forall2 (fun co (r : Q) => (r == tm_of (snd co))%Q) H offs).
      { eapply forall2_impl; [|exact Ft]. intros co r Hr. cbn beta in Hr. rewrite <- tm_qsnap. exact Hr. }
      clear Ft. apply hits_out_forall2. exact G. }
    (* holds *)
    assert (Hl : forall ls', match map (holdp_of' (m_samples meta)) L with
                   | [] => Some []
                   | _ => match tm_offsets tbl tm (map (fun h => hp_snap (lp_hit h)) (map (holdp_of' (m_samples meta)) L)),
                                tm_offsets tbl tm (map lp_tail (map (holdp_of' (m_samples meta)) L)) with
                          | Some oh, Some ot =>
                              Some (zip3 (fun h a b => mkHold (hp_col (lp_hit h)) a (Qred (b - a)) (hp_sample (lp_hit h)))
                                         (map (holdp_of' (m_samples meta)) L) oh ot)
                          | _, _ => None
                          end
                   end = Some ls' ->
             Forall2 (fun cl l => ho_col l = fst cl /\ (ho_off l == tm_of (fst (snd cl)))%Q
                                  /\ (ho_len l == tm_of (snd (snd cl)) - tm_of (fst (snd cl)))%Q
                                  /\ ho_sample l = smp_of (m_samples meta) (o_id (fst (snd cl)))) L ls').
    { intros ls' E. destruct L as [|cl0 L0] eqn:EL; [cbn in E; inversion E; constructor|]. rewrite <- EL in *.
      destruct (map (holdp_of' (m_samples meta)) L) as [|x xs] eqn:EM; [subst L; discriminate|]. rewrite <- EM in E.
      destruct (tm_offsets tbl tm (map (fun h => hp_snap (lp_hit h)) (map (holdp_of' (m_samples meta)) L))) as [oh|] eqn:T1; [|discriminate].
      destruct (tm_offsets tbl tm (map lp_tail (map (holdp_of' (m_samples meta)) L))) as [ot|] eqn:T2; [|discriminate].
      inversion E; subst ls'. rewrite map_map in T1, T2.
      pose proof (offsets_are_times tbl Hok script _ tm oh Dheads F T1) as F1.
      pose proof (offsets_are_times tbl Hok script _ tm ot Dtails F T2) as F2.
      apply forall2_map_l in F1. apply forall2_map_l in F2.
      assert (G1 : Forall2 (fun cl (r : Q) => (r == tm_of (fst (snd cl)))%Q) L oh).
      { eapply forall2_impl; [|exact F1]. intros cl r Hr. cbn beta in Hr. rewrite <- tm_qsnap. exact Hr. }
      assert (G2 : Forall2 (fun cl (r : Q) => (r == tm_of (snd (snd cl)))%Q) L ot).
      { eapply forall2_impl; [|exact F2]. intros cl r Hr. cbn beta in Hr. rewrite <- tm_qsnap. exact Hr. }
      apply holds_out_forall2; assumption. }
    destruct (match map (hitp_of' (m_samples meta)) H with [] => Some [] | _ => _ end) as [hs'|] eqn:E1; [|discriminate].
    destruct (match map (holdp_of' (m_samples meta)) L with [] => Some [] | _ => _ end) as [ls'|] eqn:E2; [|discriminate].
    destruct (tm_reseat tbl tm); [|discriminate]. inversion R; subst.
    split; [apply Hh; reflexivity|apply Hl; reflexivity].
  Qed.
End NotesOfState.

(* ================================================================ bms_read_denotes ================================================================ *)
Lemma Q_same_eq a b : Q_same a b = true -> a = b.
Proof.
  destruct a, b. unfold Q_same. cbn. intro H. apply andb_true_iff in H. destruct H as [A B].
  apply Z.eqb_eq in A. apply Pos.eqb_eq in B. subst. reflexivity.
Qed.
Local Arguments Q_same : simpl never.
Local Arguments snap_same : simpl never.
Local Arguments text_eqb : simpl never.
Lemma snap_same_eq a b : snap_same a b = true -> a = b.
Proof.
  destruct a, b. unfold snap_same. cbn. intro H.
  apply andb_true_iff in H. destruct H as [H C]. apply andb_true_iff in H. destruct H as [A B].
  apply Z.eqb_eq in A. apply Q_same_eq in B, C. subst. reflexivity.
Qed.
Lemma bcs_same_eq a b : bcs_same a b = true -> a = b.
Proof.
  destruct a, b. unfold bcs_same. cbn. intro H.
  apply andb_true_iff in H. destruct H as [H C]. apply andb_true_iff in H. destruct H as [A B].
  apply Q_same_eq in A, B. apply snap_same_eq in C. subst. reflexivity.
Qed.
Lemma lobj_same_eq a b : lobj_same a b = true -> a = b.
Proof.
  destruct a, b. unfold lobj_same. cbn. intro H.
  apply andb_true_iff in H. destruct H as [H C]. apply andb_true_iff in H. destruct H as [A B].
  apply Z.eqb_eq in A. apply snap_same_eq in B. apply text_eqb_eq in C. subst. reflexivity.
Qed.
Lemma list_same_eq {A} (e : A -> A -> bool) : (forall x y, e x y = true -> x = y) ->
  forall a b, list_same e a b = true -> a = b.
Proof.
  intros He. induction a as [|x a IH]; intros [|y b] H; cbn in H; try discriminate; [reflexivity|].
  apply andb_true_iff in H. destruct H as [H1 H2]. f_equal; auto.
Qed.

Lemma bms_read_via_state tbl cfg mk lines :
  bms_read tbl cfg mk lines =
  match read_state cfg mk lines with
  | Some (meta, st) => match notes_of_state tbl mk meta st with
                       | Some (hs, ls, bp) => Some (mkChart hs ls bp meta)
                       | None => None
                       end
  | None => None
  end.
Proof.
  unfold bms_read, read_state, read_notes.
  destruct (classify_lines ([], []) lines) as [[hdr notes]|]; [|reflexivity].
  destruct (read_file_header hdr) as [meta|]; [|reflexivity].
  destruct (layout_rev cfg V_TIME_SIG), (layout_rev cfg V_BPM), (layout_rev cfg V_EXBPM); try reflexivity.
  destruct (read_entries _ _ _ _ _ _ _ _); reflexivity.
Qed.

Section ReadDenotes.
  Variable tbl : list Q.
  Hypothesis Hok : table_ok (1 # 96) tbl = true.

  (* bms_read_denotes.  For every text in the decidable domain [read_theorem_domain] (evaluated by the runner on every
     generated text; its clause (i), agreement of the reader's line loop with the format's object list, is checked per
     case and not proved), whatever the order of the lines: whenever BMSMap.read returns a chart, its hits and holds
     are, lane by lane (columns ascending, each lane in time order), exactly the objects the format assigns: each
     visible object a hit, or -- when closed by the LNOBJ marker -- a hold whose head is the preceding object of that
     lane in time, in the lane's column, at the time obtained by integrating the tempo script of channels 03/08 (and
     #BPM), carrying the WAV sample of its id. *)
  Theorem bms_read_denotes (cfg : layout) (mk : Z) (lines : list text) (c : bms_chart) :
    read_theorem_domain tbl cfg mk lines = true ->
    bms_read tbl cfg mk lines = Some c ->
    let sobjs := flat_map objs_of_line lines in
    let meta := c_meta c in
    exists tempos Hs Ls,
      tempo_objs (table_of S_BPM (headers_of lines)) sobjs = Some tempos
      /\ lanes_denote (m_lnobj meta) cfg sobjs (map Z.of_nat (seq 0 (Z.to_nat mk))) = Some (Hs, Ls)
      /\ let t (o : sobj) := time_of 0 (script_of (m_bpm meta) tempos) (snap_of o) in
         Forall2 (fun co h => h_col h = fst co /\ (h_off h == t (snd co))%Q
                              /\ h_sample h = smp_of (m_samples meta) (o_id (snd co))) Hs (c_hits c)
         /\ Forall2 (fun cl l => ho_col l = fst cl /\ (ho_off l == t (fst (snd cl)))%Q
                                 /\ (ho_len l == t (snd (snd cl)) - t (fst (snd cl)))%Q
                                 /\ ho_sample l = smp_of (m_samples meta) (o_id (fst (snd cl)))) Ls (c_holds c).
  Proof.
    intros D R. rewrite bms_read_via_state in R. unfold read_theorem_domain in D.
    destruct (read_state cfg mk lines) as [[meta st]|]; [|discriminate].
    destruct (notes_of_state tbl mk meta st) as [[[hs ls] bp]|] eqn:N; [|discriminate].
    inversion R; subst c. cbn [c_meta c_hits c_holds]. cbv zeta.
    destruct (tempo_objs (table_of S_BPM (headers_of lines)) (flat_map objs_of_line lines)) as [tempos|]; [|discriminate].
    destruct (lanes_denote (m_lnobj meta) cfg (flat_map objs_of_line lines) (map Z.of_nat (seq 0 (Z.to_nat mk))))
      as [[Hs Ls]|] eqn:LD.
    2:{ rewrite andb_false_r in D. discriminate. }
    apply andb_true_iff in D. destruct D as [D D5].
    apply andb_true_iff in D. destruct D as [D D4].
    apply andb_true_iff in D. destruct D as [D D3].
    apply andb_true_iff in D. destruct D as [D1 D2].
    apply andb_true_iff in D5. destruct D5 as [D5 D7]. apply andb_true_iff in D5. destruct D5 as [D5 D6].
    apply (list_same_eq bcs_same bcs_same_eq) in D1. apply (list_same_eq lobj_same lobj_same_eq) in D2.
    exists tempos, Hs, Ls. split; [reflexivity|]. split; [reflexivity|].
    exact (notes_of_state_denotes tbl Hok cfg mk meta st _ tempos D1 D2 D3 D4 Hs Ls LD D5 D6 D7 hs ls bp N).
  Qed.
End ReadDenotes.
