(* C05, whole file: bms_write_denotes. *)
From Coq Require Import ZArith QArith Qround Qabs List Bool Lia Lqa Sorting.Permutation Sorting.Sorted.
From RV Require Import Base.PyNum Timing.Snapper Timing.Snap Timing.TimingMap Timing.Integrate Timing.Domain Timing.Domain2
  Formats.BMSText Formats.BMS Formats.BMSSpec Proofs.SnapperProofs Proofs.TimingProofs Proofs.RederiveProofs Proofs.TimingProofs2
  Proofs.BMSProofs Proofs.BMSDenoteProofs Proofs.BMSParseProofs Proofs.BMSWriteProofs Proofs.BMSWriteTimingProofs
  Proofs.BMSWriteLaneProofs Proofs.BMSWriteLanesProofs Proofs.BMSWriteDenoteProofs.
Import ListNotations.
Open Scope Z_scope.

Local Arguments text_eqb : simpl never.

(* what the theorem's domain says, as propositions *)
Record wdom (tbl : list Q) (mk : Z) (lay : layout) (dflt : text) (c : wchart) (l : list bcs) (b0 : bco) (rest : list bco)
       (sh sa st sb : list snap) : Prop := mkWD {
  wd_lay : layout_facts mk lay;
  wd_keys : forall ch col, In (ch, col) lay -> length ch = 2%nat;
  wd_bpms : w_bpms c = b0 :: rest;
  wd_sorted : sort_by bco_lt (w_bpms c) = w_bpms c;
  wd_script : bco_to_bcs tbl (w_bpms c) = Some l;
  wd_dom : domainb tbl l [] = true;
  wd_from : from_bcs 0 l = Some (w_bpms c);
  wd_len : (length (w_bpms c) < MAX_BPMS)%nat;
  wd_met : Forall (fun b => bo_met b = 4%Q) (w_bpms c);
  wd_3f : Forall (fun b => bpm_3f_ok b = true) (w_bpms c);
  wd_misc : Forall (fun kv => misc_key_ok (fst kv) = true) (w_misc c);
  wd_hits : forall h, In h (w_hits c) -> (0 <= h_off h)%Q /\ lane_has lay (h_col h) = true;
  wd_holds : forall h, In h (w_holds c) -> (0 <= ho_off h)%Q /\ (0 < ho_len h)%Q /\ lane_has lay (ho_col h) = true;
  wd_lnobj : is_b36_pair (w_lnobj c) = true /\ text_eqb (w_lnobj c) ID_NONE = false;
  wd_dflt : id_ok (w_lnobj c) dflt = true;
  wd_smp : Forall (fun kv => id_ok (w_lnobj c) (fst kv) = true) (w_samples c);
  wd_snaps : write_snaps tbl c = Some (mkSn sh sa st sb);
  wd_nd : no_dup_by same_cs (combine (map h_col (w_hits c)) sh ++ combine (map ho_col (w_holds c)) sa ++ combine (map ho_col (w_holds c)) st) = true;
  wd_in : forallb (fun ht : (Z * snap) * (Z * snap) => let '(hd, tl) := ht in
                     snap_lt (snd hd) (snd tl)
                     && forallb (fun o : Z * snap => negb ((fst o =? fst hd) && snap_lt (snd hd) (snd o) && snap_lt (snd o) (snd tl)))
                          (combine (map h_col (w_hits c)) sh ++ combine (map ho_col (w_holds c)) sa ++ combine (map ho_col (w_holds c)) st))
                  (combine (combine (map ho_col (w_holds c)) sa) (combine (map ho_col (w_holds c)) st)) = true;
  wd_m1 : forallb (fun o : Z * snap => s_m (snd o) <? 1000)
            (combine (map h_col (w_hits c)) sh ++ combine (map ho_col (w_holds c)) sa ++ combine (map ho_col (w_holds c)) st) = true;
  wd_m2 : forallb (fun s => s_m s <? 1000) sb = true }.

Lemma write_dom_unpack tbl mk lay dflt c : write_dom tbl mk lay dflt c = true ->
  exists l b0 rest sh sa st sb, wscript tbl c = Some l /\ wdom tbl mk lay dflt c l b0 rest sh sa st sb.
Proof.
  unfold write_dom. intro H.
  apply andb_true_iff in H. destruct H as [H Hmisc]. apply andb_true_iff in H. destruct H as [H Hb].
  apply andb_true_iff in H. destruct H as [H Ht]. apply andb_true_iff in H. destruct H as [Hlay Hwf].
  (* tempo *)
  unfold tempo_dom in Ht. destruct (wscript tbl c) as [l|] eqn:Ew; [|discriminate].
  apply andb_true_iff in Ht. destruct Ht as [Ht Hs]. apply andb_true_iff in Ht. destruct Ht as [Hd Hf].
  destruct (from_bcs 0 l) as [s|] eqn:Ef; [|discriminate].
  apply (list_same_eq bco_same bco_same_eq) in Hf, Hs. subst s.
  unfold wscript in Ew. rewrite Hs in Ew.
  (* wf *)
  unfold wf_wchart, wf_wchart_with in Hwf. unfold tempo_rows in Hwf. rewrite Hs in Hwf.
  destruct (w_bpms c) as [|b0 rest] eqn:Eb; [discriminate|]. rewrite <- Eb in *.
  destruct (write_snaps tbl c) as [[sh sa st sb]|] eqn:Esn.
  2:{ rewrite !andb_false_r in Hwf. discriminate. }
  apply andb_true_iff in Hwf. destruct Hwf as [Hwf W10].
  apply andb_true_iff in Hwf. destruct Hwf as [Hwf W9]. apply andb_true_iff in Hwf. destruct Hwf as [Hwf W8].
  apply andb_true_iff in Hwf. destruct Hwf as [Hwf W7]. apply andb_true_iff in Hwf. destruct Hwf as [Hwf W6].
  apply andb_true_iff in Hwf. destruct Hwf as [Hwf W5]. apply andb_true_iff in Hwf. destruct Hwf as [Hwf W4].
  apply andb_true_iff in Hwf. destruct Hwf as [Hwf _]. apply andb_true_iff in Hwf. destruct Hwf as [Hwf W2].
  apply andb_true_iff in W10. destruct W10 as [W10 M2]. apply andb_true_iff in W10. destruct W10 as [W10 M1].
  apply andb_true_iff in W10. destruct W10 as [Nd Hin].
  exists l, b0, rest, sh, sa, st, sb. split; [reflexivity|].
  rewrite forallb_forall in Hb, W4, W5.
  constructor; auto.
  - apply layout_ok_facts. exact Hlay.
  - unfold layout_ok in Hlay. apply andb_true_iff in Hlay. destruct Hlay as [Hlay _]. apply andb_true_iff in Hlay. destruct Hlay as [_ H3].
    rewrite forallb_forall in H3. intros ch col I. pose proof (H3 _ I) as R. cbn [fst snd] in R.
    apply andb_true_iff in R. destruct R as [R _]. apply andb_true_iff in R. destruct R as [R _]. apply (b36_id_no_blank _ R).
  - apply Nat.ltb_lt in W2. unfold MAX_BPMS. lia.
  - apply Forall_forall. intros b I. specialize (Hb b I). apply andb_true_iff in Hb. destruct Hb as [A _]. apply Q_same_eq in A. exact A.
  - apply Forall_forall. intros b I. specialize (Hb b I). apply andb_true_iff in Hb. tauto.
  - apply forallb_Forall. exact Hmisc.
  - intros h I. specialize (W4 h I). apply andb_true_iff in W4. destruct W4 as [A B]. apply Qle_bool_iff in A. auto.
  - intros h I. specialize (W5 h I). apply andb_true_iff in W5. destruct W5 as [W5 C]. apply andb_true_iff in W5. destruct W5 as [A B].
    apply Qle_bool_iff in A. apply Qlt_bool_iff in B. auto.
  - split; [exact W6|]. apply negb_true_iff in W7. exact W7.
  - apply forallb_Forall. exact W9.
Qed.

Section Final.
  Variable tbl : list Q.
  Hypothesis Hok : table_ok (1 # 96) tbl = true.

  Lemma wdom_snaps mk lay dflt c l b0 rest sh sa st sb : wdom tbl mk lay dflt c l b0 rest sh sa st sb ->
    Forall2 (snap_rt_spec tbl 0 l) (map h_off (w_hits c)) sh
    /\ Forall2 (snap_rt_spec tbl 0 l) (map ho_off (w_holds c)) sa
    /\ Forall2 (snap_rt_spec tbl 0 l) (map (fun h => Qred (ho_off h + ho_len h)%Q) (w_holds c)) st
    /\ Forall2 (fun cc s => ssim s (bs_snap cc) /\ s_met s = bs_met cc) l sb.
  Proof.
    intro D. pose proof (wd_snaps _ _ _ _ _ _ _ _ _ _ _ _ D) as Sn. unfold write_snaps in Sn.
    pose proof (wd_sorted _ _ _ _ _ _ _ _ _ _ _ _ D) as Hs. symmetry in Hs.
    pose proof (wd_script _ _ _ _ _ _ _ _ _ _ _ _ D) as Hl. pose proof (wd_dom _ _ _ _ _ _ _ _ _ _ _ _ D) as Hd.
    pose proof (wd_from _ _ _ _ _ _ _ _ _ _ _ _ D) as Hf.
    destruct (w_snaps tbl Hok (w_bpms c) (w_bpms c) l Hs Hd Hf (map h_off (w_hits c))) as [s1 [E1 F1]].
    { intros o I. apply in_map_iff in I. destruct I as [h [<- I]]. apply (wd_hits _ _ _ _ _ _ _ _ _ _ _ _ D h I). }
    destruct (w_snaps tbl Hok (w_bpms c) (w_bpms c) l Hs Hd Hf (map ho_off (w_holds c))) as [s2 [E2 F2]].
    { intros o I. apply in_map_iff in I. destruct I as [h [<- I]]. apply (wd_holds _ _ _ _ _ _ _ _ _ _ _ _ D h I). }
    destruct (w_snaps tbl Hok (w_bpms c) (w_bpms c) l Hs Hd Hf (map (fun h => Qred (ho_off h + ho_len h)%Q) (w_holds c))) as [s3 [E3 F3]].
    { intros o I. apply in_map_iff in I. destruct I as [h [<- I]]. destruct (wd_holds _ _ _ _ _ _ _ _ _ _ _ _ D h I) as [A [B _]].
      rewrite Qred_correct. lra. }
    destruct (w_change_snaps_sorted tbl Hok (w_bpms c) (w_bpms c) l Hl Hd Hf eq_refl) as [s4 [E4 F4]].
    rewrite E1, E2, E3, E4 in Sn. inversion Sn; subst. auto.
  Qed.

  Lemma wdom_met4 mk lay dflt c l b0 rest sh sa st sb : wdom tbl mk lay dflt c l b0 rest sh sa st sb ->
    forall cc, In cc l -> bs_met cc = 4%Q.
  Proof.
    intros D cc I. pose proof (w_change_times tbl Hok (w_bpms c) l (wd_dom _ _ _ _ _ _ _ _ _ _ _ _ D) (wd_from _ _ _ _ _ _ _ _ _ _ _ _ D)) as CT.
    destruct (forall2_in_l _ _ _ _ CT I) as [b [Ib [_ [_ E]]]]. rewrite <- E.
    pose proof (wd_met _ _ _ _ _ _ _ _ _ _ _ _ D) as M. rewrite Forall_forall in M. apply M. exact Ib.
  Qed.

  Lemma rt_snap_facts mk lay dflt c l b0 rest sh sa st sb o s : wdom tbl mk lay dflt c l b0 rest sh sa st sb ->
    snap_rt_spec tbl 0 l o s -> 0 <= s_m s /\ (0 <= s_b s)%Q /\ (s_b s < 4)%Q /\ s_met s = 4%Q.
  Proof.
    intros D [_ [_ [[N0 N1] [M Hm]]]].
    assert (Nl : l <> []).
    { destruct (domainb_nil_sound tbl l (wd_dom _ _ _ _ _ _ _ _ _ _ _ _ D)) as [c0 [r [El _]]]. rewrite El. discriminate. }
    pose proof (wdom_met4 _ _ _ _ _ _ _ _ _ _ _ D _ (active_at_time_in 0 l o Nl)) as E4. rewrite E4 in *. auto.
  Qed.

  Definition RHc (c : wchart) (dflt : text) (sh : list snap) : list rn :=
    map (fun p => (h_col (snd p), fst p, sample_id c dflt (h_sample (snd p)))) (combine sh (w_hits c)).
  Definition RAc (c : wchart) (dflt : text) (sa : list snap) : list rn :=
    map (fun p => (ho_col (snd p), fst p, sample_id c dflt (ho_sample (snd p)))) (combine sa (w_holds c)).
  Definition RTc (c : wchart) (st : list snap) : list rn :=
    map (fun p => (ho_col (snd p), fst p, w_lnobj c)) (combine st (w_holds c)).

  Lemma forall2_of_combine {A B} (P : A -> B -> Prop) la lb : length la = length lb ->
    Forall (fun p => P (fst p) (snd p)) (combine la lb) -> Forall2 P la lb.
  Proof.
    revert lb. induction la as [|a la IH]; intros [|b lb] L F; try discriminate; [constructor|].
    cbn [combine] in F. inversion F; subst. constructor; [assumption|]. apply IH; [cbn in L; lia|assumption].
  Qed.
  Lemma combine_map_both {A B C D} (f : A -> C) (g : B -> D) la lb : combine (map f la) (map g lb) = map (fun p => (f (fst p), g (snd p))) (combine la lb).
  Proof. revert lb. induction la as [|a la IH]; intros [|b lb]; cbn; try reflexivity. f_equal. apply IH. Qed.

  Lemma sorted_keys_NoDup {A K} (R : A -> A -> Prop) (key : A -> K) l :
    StronglySorted R l -> (forall a b, In a l -> In b l -> R a b -> key a <> key b) -> NoDup (map key l).
  Proof.
    intros Ss. induction Ss as [|a l Ss IH Fa]; intro H; [constructor|]. cbn [map]. constructor.
    - intro I. apply in_map_iff in I. destruct I as [b [E Ib]]. rewrite Forall_forall in Fa.
      apply (H a b (or_introl eq_refl) (or_intror Ib) (Fa b Ib)). symmetry. exact E.
    - apply IH. intros x y Ix Iy. apply H; right; assumption.
  Qed.
  Lemma strongly_map {A B} (f : A -> B) (R : B -> B -> Prop) l : StronglySorted R (map f l) -> StronglySorted (fun a b => R (f a) (f b)) l.
  Proof.
    induction l as [|a l IH]; intro Ss; [constructor|]. cbn [map] in Ss. apply StronglySorted_inv in Ss. destruct Ss as [Ss Fa].
    constructor; [apply IH; exact Ss|]. rewrite Forall_forall in Fa. apply Forall_forall. intros b Ib. apply Fa. apply in_map. exact Ib.
  Qed.

  Lemma forall2_combine_build {A B C} (P : B -> A -> Prop) (Q : A -> C -> Prop) (F : B * A -> C) (lb : list B) (la : list A) :
    Forall2 (fun a b => P b a) la lb -> (forall a b, P b a -> Q a (F (b, a))) -> Forall2 Q la (map F (combine lb la)).
  Proof. intros H HQ. induction H as [|a b la lb Pab _ IH]; cbn [combine map]; constructor; auto. Qed.
  Lemma forall2_flip {A B} (P : A -> B -> Prop) la lb : Forall2 P la lb -> Forall2 (fun b a => P a b) lb la.
  Proof. induction 1; constructor; auto. Qed.
  Lemma combine_rich {A B} (ga gt : snap * A -> B) (sa st : list snap) (hs : list A) : length sa = length hs -> length st = length hs ->
    combine (map ga (combine sa hs)) (map gt (combine st hs))
    = map (fun t => (ga (fst (fst t), snd t), gt (snd (fst t), snd t))) (combine (combine sa st) hs).
  Proof.
    revert sa st. induction hs as [|h hs IH]; intros sa st L1 L2.
    - destruct sa; [|discriminate]. reflexivity.
    - destruct sa as [|x sa], st as [|y st]; try discriminate. cbn [combine map fst snd]. f_equal. apply IH; [cbn in L1; lia|cbn in L2; lia].
  Qed.
  Lemma time_rt_wd l o t t' : (t == t')%Q -> time_rt tbl l o t -> time_rt tbl l o t'.
  Proof.
    intros E [A B]. split.
    - assert (X : (t' - o == t - o)%Q) by (rewrite E; reflexivity). rewrite (Qabs_wd _ _ X). exact A.
    - intro G. rewrite <- E. apply B. exact G.
  Qed.

  Section Chart.
    Variables (mk : Z) (lay : layout) (dflt : text) (c : wchart) (l : list bcs) (b0 : bco) (rest : list bco) (sh sa st sb : list snap).
    Hypothesis D : wdom tbl mk lay dflt c l b0 rest sh sa st sb.
    Let RH := RHc c dflt sh.
    Let RA := RAc c dflt sa.
    Let RT := RTc c st.
    Let ALL := RH ++ RA ++ RT.
    Let allc := combine (map h_col (w_hits c)) sh ++ combine (map ho_col (w_holds c)) sa ++ combine (map ho_col (w_holds c)) st.

    Lemma proj_all : map rn_proj ALL = allc.
    Proof.
      unfold ALL, RH, RA, RT, RHc, RAc, RTc, allc. rewrite !map_app.
      rewrite (proj_combine h_col (fun h => sample_id c dflt (h_sample h)) sh (w_hits c)).
      rewrite (proj_combine ho_col (fun h => sample_id c dflt (ho_sample h)) sa (w_holds c)).
      rewrite (proj_combine ho_col (fun _ => w_lnobj c) st (w_holds c)). reflexivity.
    Qed.

    Lemma lens : length sh = length (w_hits c) /\ length sa = length (w_holds c) /\ length st = length (w_holds c).
    Proof.
      destruct (wdom_snaps _ _ _ _ _ _ _ _ _ _ _ D) as [F1 [F2 [F3 _]]].
      apply forall2_length in F1, F2, F3. rewrite map_length in F1, F2, F3. auto.
    Qed.

    Lemma all_snap n : In n ALL -> exists o, snap_rt_spec tbl 0 l o (rn_snap n).
    Proof.
      destruct (wdom_snaps _ _ _ _ _ _ _ _ _ _ _ D) as [F1 [F2 [F3 _]]].
      intro I. unfold ALL in I. apply in_app_or in I. destruct I as [I|I]; [|apply in_app_or in I; destruct I as [I|I]];
        unfold RH, RA, RT, RHc, RAc, RTc in I; apply in_map_iff in I; destruct I as [[s h] [<- I]]; cbn [rn_snap fst snd];
        apply in_combine_l in I.
      - destruct (forall2_in_r _ _ _ _ F1 I) as [o [_ R]]. exists o. exact R.
      - destruct (forall2_in_r _ _ _ _ F2 I) as [o [_ R]]. exists o. exact R.
      - destruct (forall2_in_r _ _ _ _ F3 I) as [o [_ R]]. exists o. exact R.
    Qed.

    Lemma c_col n : In n ALL -> (exists ch, layout_rev lay (rn_col n) = Some ch) /\ 0 <= rn_col n.
    Proof.
      intro I. unfold ALL in I. apply in_app_or in I. destruct I as [I|I]; [|apply in_app_or in I; destruct I as [I|I]];
        unfold RH, RA, RT, RHc, RAc, RTc in I; apply in_map_iff in I; destruct I as [[s h] [<- I]]; cbn [rn_col fst snd];
        apply in_combine_r in I; apply lane_has_rev.
      - apply (wd_hits _ _ _ _ _ _ _ _ _ _ _ _ D h I).
      - apply (wd_holds _ _ _ _ _ _ _ _ _ _ _ _ D h I).
      - apply (wd_holds _ _ _ _ _ _ _ _ _ _ _ _ D h I).
    Qed.

    Lemma c_snap n : In n ALL -> 0 <= s_m (rn_snap n) < 1000 /\ (0 <= s_b (rn_snap n))%Q /\ (s_b (rn_snap n) < 4)%Q /\ (s_met (rn_snap n) == 4)%Q.
    Proof.
      intro I. destruct (all_snap n I) as [o R]. destruct (rt_snap_facts _ _ _ _ _ _ _ _ _ _ _ o _ D R) as [A [B [C E]]].
      pose proof (wd_m1 _ _ _ _ _ _ _ _ _ _ _ _ D) as M. fold allc in M. rewrite <- proj_all in M. rewrite forallb_forall in M.
      pose proof (M (rn_proj n) (in_map _ _ _ I)) as M1. apply Z.ltb_lt in M1. unfold rn_proj in M1. cbn [snd] in M1.
      rewrite E. repeat split; auto; try lia; try reflexivity.
    Qed.

    Lemma sample_id_ok s : is_b36_pair (sample_id c dflt s) = true /\ text_eqb (sample_id c dflt s) ID_NONE = false
      /\ text_eqb (sample_id c dflt s) (w_lnobj c) = false.
    Proof.
      unfold sample_id. destruct (samples_rev (w_samples c) s) as [k|] eqn:E.
      - apply samples_rev_in in E. pose proof (wd_smp _ _ _ _ _ _ _ _ _ _ _ _ D) as F. rewrite Forall_forall in F.
        apply (id_ok_facts _ _ (F _ E)).
      - apply (id_ok_facts _ _ (wd_dflt _ _ _ _ _ _ _ _ _ _ _ _ D)).
    Qed.

    Lemma c_val n : In n (RH ++ RA) -> is_b36_pair (rn_val n) = true /\ text_eqb (rn_val n) ID_NONE = false /\ text_eqb (rn_val n) (w_lnobj c) = false.
    Proof.
      intro I. apply in_app_or in I. destruct I as [I|I]; unfold RH, RA, RHc, RAc in I; apply in_map_iff in I;
        destruct I as [[s h] [<- _]]; cbn [rn_val snd]; apply sample_id_ok.
    Qed.
    Lemma c_tail n : In n RT -> rn_val n = w_lnobj c.
    Proof. intro I. unfold RT, RTc in I. apply in_map_iff in I. destruct I as [[s h] [<- _]]. reflexivity. Qed.

    Lemma c_heads_tails : combine (combine (map ho_col (w_holds c)) sa) (combine (map ho_col (w_holds c)) st)
      = map (fun p => (rn_proj (fst p), rn_proj (snd p))) (combine RA RT).
    Proof.
      rewrite <- (proj_combine ho_col (fun h => sample_id c dflt (ho_sample h)) sa (w_holds c)).
      rewrite <- (proj_combine ho_col (fun _ => w_lnobj c) st (w_holds c)). fold (RAc c dflt sa) (RTc c st). fold RA RT.
      apply combine_map_both.
    Qed.

    Lemma c_at : Forall2 (fun a t => rn_col a = rn_col t /\ snap_lt (rn_snap a) (rn_snap t) = true) RA RT.
    Proof.
      destruct lens as [_ [L2 L3]].
      apply forall2_of_combine.
      - unfold RA, RT, RAc, RTc. rewrite !map_length, !combine_length. lia.
      - apply Forall_forall. intros [a t] I. cbn [fst snd]. split.
        + unfold RA, RT, RAc, RTc in I. clear - I L2 L3. revert sa st L2 L3 I. induction (w_holds c) as [|h hs IH]; intros xa xt L2 L3 I.
          * destruct xa; [contradiction|discriminate].
          * destruct xa as [|x xa], xt as [|y xt]; try discriminate. cbn [combine map fst snd] in I. destruct I as [E|I].
            -- inversion E; subst. reflexivity.
            -- apply (IH xa xt); [cbn in L2; lia|cbn in L3; lia|exact I].
        + pose proof (wd_in _ _ _ _ _ _ _ _ _ _ _ _ D) as Hi. rewrite c_heads_tails in Hi. rewrite forallb_forall in Hi.
          pose proof (Hi (rn_proj a, rn_proj t) (in_map (fun p => (rn_proj (fst p), rn_proj (snd p))) _ (a, t) I)) as X.
          cbn beta iota in X. apply andb_true_iff in X. destruct X as [X _]. exact X.
    Qed.

    Lemma c_nd : no_dup_by same_cs (map rn_proj ALL) = true.
    Proof. rewrite proj_all. apply (wd_nd _ _ _ _ _ _ _ _ _ _ _ _ D). Qed.

    Lemma c_in a t o : In (a, t) (combine RA RT) -> In o ALL ->
      ~ (rn_col o = rn_col a /\ snap_lt (rn_snap a) (rn_snap o) = true /\ snap_lt (rn_snap o) (rn_snap t) = true).
    Proof.
      intros I Io [E [L1 L2]].
      pose proof (wd_in _ _ _ _ _ _ _ _ _ _ _ _ D) as Hi. fold allc in Hi. rewrite c_heads_tails in Hi. rewrite forallb_forall in Hi.
      pose proof (Hi (rn_proj a, rn_proj t) (in_map (fun p => (rn_proj (fst p), rn_proj (snd p))) _ (a, t) I)) as X.
      cbn beta iota in X. apply andb_true_iff in X. destruct X as [_ X]. rewrite forallb_forall in X.
      rewrite <- proj_all in X. specialize (X (rn_proj o) (in_map _ _ _ Io)). apply negb_true_iff in X.
      unfold rn_proj in X. cbn [fst snd] in X. rewrite E, Z.eqb_refl, L1, L2 in X. discriminate.
    Qed.

    Let LF := wd_lay _ _ _ _ _ _ _ _ _ _ _ _ D.
    Let HK := wd_keys _ _ _ _ _ _ _ _ _ _ _ _ D.
    Let HLN := wd_lnobj _ _ _ _ _ _ _ _ _ _ _ _ D.

    Lemma c_row_wf n : In n ALL -> row_wf (rn_row lay n).
    Proof. apply (rn_row_wf lay mk (w_lnobj c) LF HK RH RA RT c_col c_snap c_val HLN c_tail). Qed.
    Lemma c_row_obj n : In n ALL -> row_obj (rn_row lay n) = rn_obj lay n.
    Proof. apply (rn_row_obj lay RH RA RT c_snap). Qed.
    Lemma c_keys : NoDup (map row_key (map (rn_row lay) ALL)).
    Proof. apply (rows_keys_NoDup lay mk LF HK RH RA RT c_col c_snap c_nd). Qed.

    Lemma script_nodes : forall cc, In cc l -> node_ok cc.
    Proof.
      destruct (domainb_nil_sound tbl l (wd_dom _ _ _ _ _ _ _ _ _ _ _ _ D)) as [c0 [r [El [H0 [_ [_ Hs]]]]]].
      intros cc I. rewrite El in I. destruct I as [<-|I]; [exact H0|]. clear - Hs I. revert c0 Hs. induction r as [|x r IH]; intros p Hs; [contradiction|].
      destruct Hs as [[_ [Nx _]] Hs']. destruct I as [<-|I]; [exact Nx|]. apply (IH I x Hs').
    Qed.

    Lemma sb_facts s : In s sb -> 0 <= s_m s < 1000 /\ (0 <= s_b s)%Q /\ (s_b s < 4)%Q /\ (s_met s == 4)%Q.
    Proof.
      intro I. destruct (wdom_snaps _ _ _ _ _ _ _ _ _ _ _ D) as [_ [_ [_ F4]]].
      destruct (forall2_in_r _ _ _ _ F4 I) as [cc [Ic [[Em Eb] Es]]].
      destruct (script_nodes cc Ic) as [_ [N1 [N2 [N3 _]]]]. rewrite (wdom_met4 _ _ _ _ _ _ _ _ _ _ _ D cc Ic) in *.
      pose proof (wd_m2 _ _ _ _ _ _ _ _ _ _ _ _ D) as M. rewrite forallb_forall in M. pose proof (M s I) as M1. apply Z.ltb_lt in M1.
      rewrite Em, Eb, Es. repeat split; auto; try lia; try reflexivity.
    Qed.

    Definition bp_rows : list wrow := map (fun p => row_of (snd p) CH_EXBPM (b36_pair (Z.of_nat (fst p)))) (combine (seq 1 (length sb)) sb).

    Lemma len_sb_bpms : length sb = length (w_bpms c).
    Proof.
      destruct (wdom_snaps _ _ _ _ _ _ _ _ _ _ _ D) as [_ [_ [_ F4]]].
      pose proof (w_change_times tbl Hok (w_bpms c) l (wd_dom _ _ _ _ _ _ _ _ _ _ _ _ D) (wd_from _ _ _ _ _ _ _ _ _ _ _ _ D)) as CT.
      rewrite <- (forall2_length _ _ _ F4). apply (forall2_length _ _ _ CT).
    Qed.

    Lemma bp_wf : Forall row_wf bp_rows.
    Proof.
      apply Forall_forall. intros rw I. unfold bp_rows in I. apply in_map_iff in I. destruct I as [[e s] [<- I]]. cbn [fst snd].
      pose proof (in_combine_l _ _ _ _ I) as Ie. pose proof (in_combine_r _ _ _ _ I) as Is. apply in_seq in Ie.
      destruct (sb_facts s Is) as [Hm [B0 [B4 M]]]. destruct (row_of_fields s CH_EXBPM (b36_pair (Z.of_nat e)) M) as [R1 [R2 [R3 [R4 R5]]]].
      pose proof (wd_len _ _ _ _ _ _ _ _ _ _ _ _ D) as Ln. unfold MAX_BPMS in Ln. rewrite len_sb_bpms in Ie.
      unfold row_wf. rewrite R1, R2, R3, R4, R5. repeat split; auto; try lia.
      - unfold Qle in B0. cbn in B0. lia.
      - unfold Qlt in B4. cbn in B4. lia.
      - apply b36_pair_not_none. lia.
    Qed.

    Lemma bp_objs : map row_obj bp_rows = XB c sb.
    Proof.
      rewrite (xb_is c l sb).
      - unfold bp_rows. rewrite map_map. apply map_ext_in. intros [e s] I. cbn [fst snd]. apply row_obj_of.
        apply (sb_facts s (in_combine_r _ _ _ _ I)).
      - apply (w_change_times tbl Hok (w_bpms c) l (wd_dom _ _ _ _ _ _ _ _ _ _ _ _ D) (wd_from _ _ _ _ _ _ _ _ _ _ _ _ D)).
      - apply (wdom_snaps _ _ _ _ _ _ _ _ _ _ _ D).
    Qed.

    Let CT := w_change_times tbl Hok (w_bpms c) l (wd_dom _ _ _ _ _ _ _ _ _ _ _ _ D) (wd_from _ _ _ _ _ _ _ _ _ _ _ _ D).
    Let SBF := proj2 (proj2 (proj2 (wdom_snaps _ _ _ _ _ _ _ _ _ _ _ D))).

    Lemma row_key_of s ch v : (s_met s == 4)%Q -> row_key (row_of s ch v) = (s_m s, ch, Qred (s_b s / 4)).
    Proof.
      intro M. pose proof (row_obj_of s ch v M) as E.
      pose proof (f_equal o_measure E) as E1. pose proof (f_equal o_chan E) as E2. pose proof (f_equal o_pos E) as E3.
      unfold row_obj, pobj in E1, E2, E3. cbn [o_measure o_chan o_pos] in E1, E2, E3.
      unfold row_key. rewrite E1, E2, E3. reflexivity.
    Qed.

    Lemma bp_keys : NoDup (map row_key bp_rows).
    Proof.
      pose proof (T0_sorted tbl c l sb (wd_dom _ _ _ _ _ _ _ _ _ _ _ _ D) CT (wd_met _ _ _ _ _ _ _ _ _ _ _ _ D) SBF) as Ss.
      unfold T0 in Ss. apply strongly_map in Ss.
      unfold bp_rows. rewrite len_sb_bpms.
      rewrite (combine_combine_r (seq 1 (length (w_bpms c))) (w_bpms c) sb) by (symmetry; exact len_sb_bpms).
      rewrite !map_map. cbn [fst snd].
      apply (sorted_keys_NoDup _ _ _ Ss). intros a b Ia Ib Lt E.
      assert (Is : forall t, In t (combine (seq 1 (length (w_bpms c))) (combine (w_bpms c) sb)) -> In (snd (snd t)) sb).
      { intros [e [b' s]] I. apply in_combine_r in I. apply in_combine_r in I. exact I. }
      destruct (sb_facts _ (Is a Ia)) as [_ [_ [_ Ma]]]. destruct (sb_facts _ (Is b Ib)) as [_ [_ [_ Mb]]].
      rewrite (row_key_of _ _ _ Ma), (row_key_of _ _ _ Mb) in E.
      pose proof (f_equal (fun k : Z * text * Q => fst (fst k)) E) as E1. pose proof (f_equal (fun k : Z * text * Q => snd k) E) as E3.
      cbv beta in E1, E3. cbn [fst snd] in E1, E3.
      unfold LT, bcs_lt, tbcs in Lt. cbn [bs_snap] in Lt. change (snap_lt (snap_of (tobj a)) (snap_of (tobj b))) with (obj_lt (tobj a) (tobj b)) in Lt.
      unfold tobj in Lt. rewrite obj_lt_pobj in Lt. apply snap_lt_iff in Lt.
      assert (X : (Qred (s_b (snd (snd a)) / 4) == Qred (s_b (snd (snd b)) / 4))%Q) by (rewrite E3; reflexivity).
      rewrite !Qred_correct in X.
      assert (Xa : (s_b (snd (snd a)) == (s_b (snd (snd a)) / 4) * 4)%Q) by field. assert (Xb : (s_b (snd (snd b)) == (s_b (snd (snd b)) / 4) * 4)%Q) by field.
      destruct Lt as [Lt|[_ Lt]]; [lia|]. rewrite Xa, Xb, X in Lt. lra.
    Qed.

    Definition all_rows : list wrow := map (rn_row lay) ALL ++ bp_rows.

    Lemma c_chan n : In n ALL -> chan lay (rn_col n) <> CH_EXBPM.
    Proof. intro I. apply (chan_facts lay mk LF HK RH RA RT c_col n I). Qed.

    Lemma rows_written : write_rows tbl lay dflt c = Some all_rows.
    Proof.
      unfold write_rows. rewrite (wd_snaps _ _ _ _ _ _ _ _ _ _ _ _ D). unfold all_rows, ALL, RH, RA, RT, RHc, RAc, RTc, bp_rows.
      apply write_rows_eq.
      - pose proof (wd_met _ _ _ _ _ _ _ _ _ _ _ _ D) as M. eapply Forall_impl; [|exact M]. intros b E. rewrite E. reflexivity.
      - intros h I. apply (lane_has_rev lay (h_col h)). apply (wd_hits _ _ _ _ _ _ _ _ _ _ _ _ D h I).
      - intros h I. apply (lane_has_rev lay (ho_col h)). apply (wd_holds _ _ _ _ _ _ _ _ _ _ _ _ D h I).
      - apply (lf_ex mk lay LF).
    Qed.

    Lemma note_lines_written : exists ls, write_note_lines all_rows = Some ls
      /\ Permutation (flat_map objs_of_line ls) (map (rn_obj lay) ALL ++ XB c sb)
      /\ Forall (fun ln => exists m ch data, data_line ln = Some (m, ch, data)) ls.
    Proof.
      destruct (write_note_lines_objs all_rows) as [ls [E [P F]]].
      - unfold all_rows. apply Forall_app. split; [|exact bp_wf]. apply Forall_forall. intros rw I. apply in_map_iff in I.
        destruct I as [n [<- In']]. apply c_row_wf. exact In'.
      - unfold all_rows. rewrite map_app. apply NoDup_app_intro; [exact c_keys|exact bp_keys|].
        intros k I1 I2. rewrite map_map in I1. apply in_map_iff in I1. destruct I1 as [n [<- In']].
        unfold bp_rows in I2. rewrite map_map in I2. apply in_map_iff in I2. destruct I2 as [[e s] [E Ip]]. cbn [fst snd] in E.
        rewrite (row_key_of _ _ _ (proj2 (proj2 (proj2 (sb_facts s (in_combine_r _ _ _ _ Ip)))))) in E.
        destruct (c_snap n In') as [_ [_ [_ M]]]. unfold rn_row in E. rewrite (row_key_of _ _ _ M) in E.
        pose proof (f_equal (fun k : Z * text * Q => snd (fst k)) E) as E2. cbv beta in E2. cbn [fst snd] in E2.
        apply (c_chan n In'). symmetry. exact E2.
      - exists ls. split; [exact E|]. split; [|exact F]. eapply Permutation_trans; [exact P|].
        unfold all_rows. rewrite map_app, bp_objs, map_map.
        apply Permutation_app_tail. rewrite (map_ext_in _ (rn_obj lay) ALL c_row_obj). apply Permutation_refl.
    Qed.

    Lemma headers_of_data (ls : list text) : Forall (fun ln => exists m ch data, data_line ln = Some (m, ch, data)) ls -> headers_of ls = [].
    Proof.
      induction 1 as [|ln ls [m [ch [data E]]] _ IH]; [reflexivity|]. unfold headers_of in *. cbn [flat_map]. rewrite IH, app_nil_r.
      unfold header_line. destruct (data_line_digit _ _ _ _ E) as [a [b [c' [x [y [Et _]]]]]]. rewrite Et in *. rewrite E. reflexivity.
    Qed.

    Lemma c_note_tempo o : In o (map (rn_obj lay) ALL) -> tempo_of_obj (ex_table c) o = None.
    Proof.
      intro I. apply in_map_iff in I. destruct I as [n [<- In']]. unfold tempo_of_obj, rn_obj, pobj. cbn [o_chan].
      destruct (chan_facts lay mk LF HK RH RA RT c_col n In') as [_ [_ [La Ne]]].
      assert (Nb : chan lay (rn_col n) <> CH_BPM).
      { intro E. rewrite E in La. rewrite lane_of_dict, (lf_get_bpm mk lay LF) in La. discriminate. }
      rewrite (text_eqb_neq _ _ Nb), (text_eqb_neq _ _ Ne). reflexivity.
    Qed.

    Theorem written_file (r : Q -> text) : parse_decimal (r (bo_bpm b0)) <> None ->
      exists ls d, bms_write tbl lay dflt c = Some (header_lines c b0 ++ [WText []] ++ map WText ls)
        /\ bms_denote lay (map (render_with r) (header_lines c b0 ++ [WText []] ++ map WText ls)) = Some d
        /\ written_denotes tbl dflt c l d.
    Proof.
      intro Hr. destruct note_lines_written as [ls [Enl [Pobjs Fdata]]]. exists ls.
      pose proof (wd_bpms _ _ _ _ _ _ _ _ _ _ _ _ D) as Eb. pose proof (wd_len _ _ _ _ _ _ _ _ _ _ _ _ D) as Ln.
      pose proof (wd_misc _ _ _ _ _ _ _ _ _ _ _ _ D) as Hmisc.
      assert (Hsk : Forall (fun kv : text * text => is_b36_pair (fst kv) = true) (w_samples c)).
      { pose proof (wd_smp _ _ _ _ _ _ _ _ _ _ _ _ D) as F. eapply Forall_impl; [|exact F]. intros kv K. apply (id_ok_facts _ _ K). }
      (* the written file *)
      assert (Ew : bms_write tbl lay dflt c = Some (header_lines c b0 ++ [WText []] ++ map WText ls)).
      { unfold bms_write, bms_write_with. rewrite (write_header_eq c b0 rest Eb Ln).
        - fold (write_rows tbl lay dflt c). rewrite rows_written, Enl. reflexivity.
        - intro E. destruct HLN as [B _]. rewrite E in B. discriminate. }
      (* its lines, read back *)
      destruct (written_header r c b0 Ln (proj1 HLN) Hmisc Hsk) as [EH0 EO0].
      set (lines := map (render_with r) (header_lines c b0 ++ [WText []] ++ map WText ls)).
      assert (El : lines = map (render_with r) (header_lines c b0) ++ [] :: ls).
      { unfold lines. rewrite !map_app, map_map. cbn [map render_with app]. rewrite map_id. reflexivity. }
      assert (EH : headers_of lines = hdr_table r c b0).
      { rewrite El, headers_of_app, EH0. change ([] :: ls) with ([[]] ++ ls). rewrite headers_of_app, (headers_of_data ls Fdata).
        cbn. rewrite app_nil_r. reflexivity. }
      assert (EO : flat_map objs_of_line lines = flat_map objs_of_line ls).
      { rewrite El, flat_map_app, EO0. reflexivity. }
      set (objs := flat_map objs_of_line ls) in *.
      (* tempo objects *)
      assert (Et : exists tempos, tempo_objs (ex_table c) objs = Some tempos /\ Permutation tempos (T0 c sb)).
      { assert (E0 : tempo_objs (ex_table c) (map (rn_obj lay) ALL ++ XB c sb) = Some (T0 c sb)).
        { rewrite (tempo_objs_app_none _ _ _ c_note_tempo). apply (tempo_objs_xb c l sb Ln (wd_3f _ _ _ _ _ _ _ _ _ _ _ _ D) CT SBF). }
        destruct (tempo_objs_perm _ _ _ (Permutation_sym Pobjs) _ E0) as [tp [E1 P1]]. exists tp. split; [exact E1|apply Permutation_sym; exact P1]. }
      destruct Et as [tempos [Etp Ptp]].
      (* lanes *)
      destruct (placed_lanes lay mk (w_lnobj c) LF HK RH RA RT c_col c_val c_tail c_at c_nd c_in (XB c sb) objs) as [H [L [Elanes [PH PL]]]].
      { intros o I. unfold XB in I. apply in_map_iff in I. destruct I as [t [<- _]]. reflexivity. }
      { exact Pobjs. }
      destruct (parse_decimal (r (bo_bpm b0))) as [bpm0|] eqn:Ep; [|contradiction].
      pose proof (script_written tbl c l sb (wd_dom _ _ _ _ _ _ _ _ _ _ _ _ D) CT (wd_met _ _ _ _ _ _ _ _ _ _ _ _ D) SBF bpm0 tempos Ptp) as Escr.
      eexists. split; [exact Ew|]. split.
      { fold lines. unfold bms_denote. rewrite EH, EO.
        rewrite (hdr_bpm r c b0), Ep.
        rewrite (hdr_ext r c b0 Hmisc), (hdr_wav r c b0 Hmisc Hsk), (hdr_lnobj r c b0 Hmisc).
        fold objs. rewrite Etp, (ex_table_parses c (wd_3f _ _ _ _ _ _ _ _ _ _ _ _ D)), Elanes. rewrite Escr. reflexivity. }
      (* the chart *)
      unfold written_denotes. cbn [d_hits d_holds d_tempo d_headers d_lnobj d_wav].
      pose proof (wdom_snaps _ _ _ _ _ _ _ _ _ _ _ D) as WS. destruct WS as [F1 [F2 [F3 _]]].
      apply forall2_map_l in F1, F2, F3. destruct lens as [L1 [L2 L3]].
      (* time of a written object *)
      assert (Tm : forall o s ch v, snap_rt_spec tbl 0 l o s ->
                     time_rt tbl l o (Qred (time_of 0 (T0 c sb) (snap_of (pobj s ch v))))).
      { intros o s ch v R. unfold snap_rt_spec in R. cbv zeta in R. destruct R as [A [B _]].
        assert (E : (Qred (time_of 0 (T0 c sb) (snap_of (pobj s ch v))) == time_of 0 l s)%Q).
        { rewrite Qred_correct, (time_written tbl c l sb (wd_dom _ _ _ _ _ _ _ _ _ _ _ _ D) CT (wd_met _ _ _ _ _ _ _ _ _ _ _ _ D) SBF).
          apply time_of_qssim. apply snap_of_pobj. }
        apply (time_rt_wd l o (time_of 0 l s)); [symmetry; exact E|]. split; [exact A|].
        intro G. apply B. apply (time_on_gridb_sound tbl 0 l o G). }
      split; [|split; [|split]].
      - (* hits *)
        eexists. split.
        + apply Permutation_map. apply Permutation_sym. exact PH.
        + rewrite map_map. unfold RH, RHc. rewrite map_map.
          apply (forall2_combine_build (fun s h => snap_rt_spec tbl 0 l (h_off h) s)); [exact F1|].
          intros h s R. cbn [sh_col sh_time sh_sample fst snd]. unfold rn_obj, rn_col, rn_snap, rn_val. cbn [fst snd].
          split; [reflexivity|]. split; [apply Tm; exact R|reflexivity].
      - (* holds *)
        eexists. split.
        + apply Permutation_map. apply Permutation_sym. exact PL.
        + rewrite map_map. unfold RA, RT, RAc, RTc. rewrite (combine_rich _ _ sa st (w_holds c) L2 L3). rewrite map_map.
          apply (forall2_combine_build (fun ss h => snap_rt_spec tbl 0 l (ho_off h) (fst ss) /\ snap_rt_spec tbl 0 l (Qred (ho_off h + ho_len h)) (snd ss))).
          * apply forall2_flip. apply forall2_flip in F2, F3. pose proof (forall2_zip _ _ _ _ _ F2 F3) as Z.
            apply (forall2_impl _ _ _ _ (fun ab hh Hab => Hab) Z).
          * intros h [s1 s2] [R1 R2]. cbn [fst snd]. unfold rn_obj, rn_col, rn_snap, rn_val. cbn [fst snd sl_col sl_time sl_len sl_sample pobj o_id].
            split; [reflexivity|]. split; [apply Tm; exact R1|]. split; [|reflexivity].
            eapply time_rt_wd; [|apply (Tm _ s2 (chan lay (ho_col h)) (w_lnobj c) R2)].
            rewrite !Qred_correct. ring.
      - apply (tempo_written tbl c l sb (wd_dom _ _ _ _ _ _ _ _ _ _ _ _ D) CT (wd_met _ _ _ _ _ _ _ _ _ _ _ _ D) SBF).
      - destruct (hdr_title r c b0) as [T1 [T2 T3]]. repeat split; auto. intros kv I. apply hdr_misc. exact I.
    Qed.
  End Chart.

  (* bms_write_denotes.  For every layout satisfying the layout obligations and every chart of write_dom (4/4, tempo
     list in time order = the millisecond form of a script of C10's on-grid domain, tempos that ':.3f' prints without
     loss, objects of a lane on distinct grid slots and not inside a hold of that lane, ids base-36 pairs other than 00
     and LNOBJ, measure < 1000, fewer than 1295 tempo points, one-word misc keys), whatever str(float) prints for the
     initial tempo (any rendering r that parses as a decimal): BMSMap.write succeeds, the reference interpreter accepts
     the written lines, and they denote the chart -- every hit and every hold (head and LNOBJ tail) exactly once, in its
     column, at a time within 1/192 beat of the in-memory time and equal to it on the snap grid, with the sample
     registered under the id written; the tempo changes at the in-memory times with the in-memory tempos; title, artist,
     level, LNOBJ, the WAV table and the misc headers retained. *)
  Theorem bms_write_denotes (mk : Z) (lay : layout) (dflt : text) (c : wchart) (r : Q -> text) :
    write_dom tbl mk lay dflt c = true -> (forall q, parse_decimal (r q) <> None) ->
    exists ls l d, bms_write tbl lay dflt c = Some ls /\ wscript tbl c = Some l
      /\ bms_denote lay (map (render_with r) ls) = Some d /\ written_denotes tbl dflt c l d.
  Proof.
    intros Hd Hr. destruct (write_dom_unpack tbl mk lay dflt c Hd) as [l [b0 [rest [sh [sa [st [sb [Ew D]]]]]]]].
    destruct (written_file mk lay dflt c l b0 rest sh sa st sb D r (Hr _)) as [ls [d [E1 [E2 E3]]]].
    eexists _, l, d. split; [exact E1|]. split; [exact Ew|]. split; [exact E2|exact E3].
  Qed.
End Final.
