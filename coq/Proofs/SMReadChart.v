(* C02, one chart: SMMap.read of a '#NOTES' token returns the chart the reference semantics denotes: same header
   fields, per kind a permutation of the denoted objects (same column, same time = Integrate.time_of of the row's position
   under the file's tempo script and offset, same length), every tempo change of the file in the chart's tempo list. *)
From Coq Require Import String ZArith QArith Qround Qabs List Bool Lia Lqa Sorting.Permutation.
From RV Require Import Base.PyNum Timing.Snapper Timing.Snap Timing.TimingMap Timing.Reseat Timing.Integrate Timing.Domain
  Timing.ReseatSpec Timing.ReseatDomain
  Formats.SMText Formats.SM Formats.SMSpec Formats.SMReadDom
  Proofs.SnapperProofs Proofs.TimingProofs Proofs.RederiveProofs Proofs.ReseatProofs Proofs.SMProofs Proofs.SMReadProofs
  Proofs.SMWriteProofs Proofs.SMTextFacts Proofs.SMReadPieces Proofs.SMReadMeta Proofs.SMReadRows Proofs.SMReadSim
  Proofs.SMReadExpand Proofs.SMReadTiming Proofs.SMReadTimes Proofs.SMCanon Proofs.SMReadOrder.
Import ListNotations.
Open Scope Q_scope.

(* ------------------------------------------------------------------ every Snap the reader creates is a position >= 0 *)
Definition all_q (st : nst) : Prop := forall s, In s (queries st) -> Pq4 s.

Lemma in_replace_at {A} (x : A) col l' ll : In x (replace_at col l' ll) -> x = l' \/ In x ll.
Proof.
  revert col. induction ll as [|y ll IH]; intros [|col] H; cbn [replace_at] in H; try (destruct H; fail).
  - destruct H as [<-|H]; [left; reflexivity|right; right; exact H].
  - destruct H as [<-|H]; [right; left; reflexivity|]. destruct (IH col H) as [->|K]; [left; reflexivity|right; right; exact K].
Qed.
Lemma hold_snaps_replace s col l l' ll : nth_error ll col = Some l -> In s (hold_snaps (replace_at col l' ll)) ->
  In s (esnaps l') \/ In s (hold_snaps ll).
Proof.
  intros N H. rewrite hold_snaps_eq in *. apply in_flat_map in H. destruct H as (x & Hx & Hs).
  apply in_replace_at in Hx. destruct Hx as [->|Hx]; [left; exact Hs|right; apply in_flat_map; exists x; auto].
Qed.
Lemma hold_snaps_nth s col l ll : nth_error ll col = Some l -> In s (esnaps l) -> In s (hold_snaps ll).
Proof. intros N H. rewrite hold_snaps_eq. apply in_flat_map. exists l. split; [eapply nth_error_In; exact N|exact H]. Qed.

Section Snaps.
Variables (tbl : list Q) (types : list (text * option Z)).
Let cf := ref_conf tbl types.

Lemma q_simple st e so s : snd e = so ->
  In s (queries (mkNst (e :: n_simple st) (n_holds st) (n_rolls st))) -> In s (queries st) \/ s = so.
Proof.
  intros E H. unfold queries in *. cbn [n_simple n_holds n_rolls rev] in H. rewrite map_app, <- app_assoc in H.
  apply in_app_or in H. destruct H as [H|H]; [left; apply in_or_app; left; exact H|]. cbn [map app] in H.
  destruct H as [H|H]; [right; congruence|left; apply in_or_app; right; exact H].
Qed.
Lemma q_holds st col l l' so s : nth_error (n_holds st) col = Some l ->
  (forall x, In x (esnaps l') -> In x (esnaps l) \/ x = so) ->
  In s (queries (mkNst (n_simple st) (replace_at col l' (n_holds st)) (n_rolls st))) -> In s (queries st) \/ s = so.
Proof.
  intros N K H. unfold queries in *. cbn [n_simple n_holds n_rolls] in H.
  apply in_app_or in H. destruct H as [H|H]; [left; apply in_or_app; left; exact H|].
  apply in_app_or in H. destruct H as [H|H]; [|left; apply in_or_app; right; apply in_or_app; right; exact H].
  destruct (hold_snaps_replace s col l l' _ N H) as [A|A].
  - destruct (K s A) as [B|B]; [left|right; exact B]. apply in_or_app. right. apply in_or_app. left. exact (hold_snaps_nth s col l _ N B).
  - left. apply in_or_app. right. apply in_or_app. left. exact A.
Qed.
Lemma q_rolls st col l l' so s : nth_error (n_rolls st) col = Some l ->
  (forall x, In x (esnaps l') -> In x (esnaps l) \/ x = so) ->
  In s (queries (mkNst (n_simple st) (n_holds st) (replace_at col l' (n_rolls st)))) -> In s (queries st) \/ s = so.
Proof.
  intros N K H. unfold queries in *. cbn [n_simple n_holds n_rolls] in H.
  apply in_app_or in H. destruct H as [H|H]; [left; apply in_or_app; left; exact H|].
  apply in_app_or in H. destruct H as [H|H]; [left; apply in_or_app; right; apply in_or_app; left; exact H|].
  destruct (hold_snaps_replace s col l l' _ N H) as [A|A].
  - destruct (K s A) as [B|B]; [left|right; exact B]. apply in_or_app. right. apply in_or_app. right. exact (hold_snaps_nth s col l _ N B).
  - left. apply in_or_app. right. apply in_or_app. right. exact A.
Qed.
Lemma esnaps_head_in l so x : In x (esnaps (l ++ [(so, None)])) -> In x (esnaps l) \/ x = so.
Proof. rewrite esnaps_app. intro H. apply in_app_or in H. destruct H as [H|[H|[]]]; [left; exact H|right; symmetry; exact H]. Qed.
Lemma esnaps_close_in l so x : is_open l = true -> In x (esnaps (close_last l so)) -> In x (esnaps l) \/ x = so.
Proof.
  intro O. destruct (is_open_app l O) as (pre & h & ->). rewrite close_last_app, !esnaps_app. intro H.
  apply in_app_or in H. destruct H as [H|H]; [left; apply in_or_app; left; exact H|].
  cbn in H. destruct H as [<-|[<-|[]]]; [left; apply in_or_app; right; left; reflexivity|right; reflexivity].
Qed.

Lemma read_char_in st so col c st' : read_char cf st so col c = Some st' ->
  forall s, In s (queries st') -> In s (queries st) \/ s = so.
Proof.
  intros H s Hs. unfold read_char in H. unfold cf, ref_conf in H.
  cbn [k_hit k_mine k_hold_head k_roll_head k_roll_tail k_lift k_fake k_key k_max_keys] in H.
  assert (Simple : forall k, (if (Z.of_nat col <? 18)%Z then Some (mkNst ((k, Z.of_nat col, so) :: n_simple st) (n_holds st) (n_rolls st)) else None) = Some st' ->
                   In s (queries st) \/ s = so).
  { intros k E. destruct (Z.of_nat col <? 18)%Z; [|discriminate]. inversion E; subst st'. exact (q_simple st (k, Z.of_nat col, so) so s eq_refl Hs). }
  destruct (c =? 49)%Z; [exact (Simple _ H)|]. destruct (c =? 77)%Z; [exact (Simple _ H)|].
  destruct (c =? 50)%Z.
  { destruct (nth_error (n_holds st) col) as [l|] eqn:N; [|discriminate]. inversion H; subst st'.
    exact (q_holds st col l _ so s N (esnaps_head_in l so) Hs). }
  destruct (c =? 52)%Z.
  { destruct (nth_error (n_rolls st) col) as [l|] eqn:N; [|discriminate]. inversion H; subst st'.
    exact (q_rolls st col l _ so s N (esnaps_head_in l so) Hs). }
  destruct (c =? 51)%Z.
  { destruct (nth_error (n_holds st) col) as [hl|] eqn:N1; [|discriminate]. destruct (nth_error (n_rolls st) col) as [rl|] eqn:N2; [|discriminate].
    destruct (is_open hl) eqn:O1.
    + inversion H; subst st'. exact (q_holds st col hl _ so s N1 (fun x => esnaps_close_in hl so x O1) Hs).
    + destruct (is_open rl) eqn:O2; [|discriminate]. inversion H; subst st'. exact (q_rolls st col rl _ so s N2 (fun x => esnaps_close_in rl so x O2) Hs). }
  destruct (c =? 76)%Z; [exact (Simple _ H)|]. destruct (c =? 70)%Z; [exact (Simple _ H)|]. destruct (c =? 75)%Z; [exact (Simple _ H)|].
  inversion H; subst st'. left. exact Hs.
Qed.

Lemma read_row_in so : forall row col st st', read_row cf st so col row = Some st' ->
  forall s, In s (queries st') -> In s (queries st) \/ s = so.
Proof.
  induction row as [|c row IH]; intros col st st' H s Hs; cbn [read_row] in H.
  - inversion H; subst. left. exact Hs.
  - destruct (c =? 48)%Z; [exact (IH _ _ _ H s Hs)|]. destruct (read_char cf st so col c) as [st1|] eqn:R; [|discriminate].
    destruct (IH _ _ _ H s Hs) as [K|K]; [|right; exact K]. exact (read_char_in _ _ _ _ _ R s K).
Qed.

Lemma read_beat_rows_q m b n : (0 <= m)%Z -> forall rows j st st', all_q st -> read_beat_rows cf st m b n j rows = Some st' -> all_q st'.
Proof.
  intros Hm. induction rows as [|r rows IH]; intros j st st' A H; cbn [read_beat_rows] in H.
  - inversion H; subst. exact A.
  - destruct (snap_norm m _ 4) as [so|] eqn:N; [|discriminate]. destruct (read_row cf st so 0 r) as [st1|] eqn:R; [|discriminate].
    apply (IH (j + 1)%Z st1 st'); [|exact H]. intros s Hs. destruct (read_row_in so r 0%nat st st1 R s Hs) as [K|K]; [exact (A s K)|]. subst s.
    destruct (snap_norm_value m _ 4 so Hm ltac:(reflexivity) N) as (_ & B0 & B4 & _ & M0). split; [|split]; assumption.
Qed.
Lemma read_measure_beats_q m rows : (0 <= m)%Z -> forall beats st st', all_q st -> read_measure_beats cf st m rows beats = Some st' -> all_q st'.
Proof.
  intro Hm. induction beats as [|b beats IH]; intros st st' A H; cbn [read_measure_beats] in H.
  - inversion H; subst. exact A.
  - destruct (read_beat_rows cf st m b _ 0 _) as [st1|] eqn:R; [|discriminate].
    exact (IH st1 st' (read_beat_rows_q m b _ Hm _ _ _ _ A R) H).
Qed.
Lemma read_measures_q : forall ms m st st', (0 <= m)%Z -> all_q st -> read_measures cf st m ms = Some st' -> all_q st'.
Proof.
  induction ms as [|mt ms IH]; intros m st st' Hm A H; cbn [read_measures] in H.
  - inversion H; subst. exact A.
  - destruct (read_measure_beats cf st m _ _) as [st1|] eqn:R; [|discriminate].
    exact (IH (m + 1)%Z st1 st' ltac:(lia) (read_measure_beats_q m _ Hm _ _ _ A R) H).
Qed.
End Snaps.

(* ------------------------------------------------------------------ the file's tempo script, as the reader sees it *)
Lemma existsb_perm {A} (f : A -> bool) l l' : Permutation l l' -> existsb f l = existsb f l'.
Proof.
  induction 1 as [|x l l' _ IH|x y l|l l' l'' _ IH1 _ IH2]; cbn [existsb]; auto.
  - rewrite IH. reflexivity.
  - destruct (f x), (f y); reflexivity.
  - congruence.
Qed.

Lemma increasing_of_script_ok tbl : forall rest c, script_ok tbl c rest -> increasing c rest.
Proof. induction rest as [|n rest IH]; intros c H; [exact I|]. destruct H as [[H1 _] H2]. split; [exact H1|exact (IH n H2)]. Qed.

(* ---- the millisecond rows of from_bpm_changes_snap(reseat=False) sit at the change times ---- *)
Lemma linked_rows : forall rest off p brest, linked off p rest brest ->
  Forall2 (fun b x => bo_bpm b = bs_bpm x /\ bo_met b = bs_met x) brest rest
  /\ Forall2 (fun b t => bo_off b == t) brest (change_times_go off p rest).
Proof.
  induction rest as [|c rest IH]; intros off p brest H; destruct brest as [|b brest]; cbn [linked] in H; try contradiction.
  - split; constructor.
  - destruct H as (A & B & C & D). cbn [change_times_go].
    set (t1 := off + beat_len (bs_bpm p) * seg_beats (bs_met p) (bs_snap p) (bs_snap c)) in *.
    destruct (IH t1 c brest (linked_comp _ _ _ _ _ C D)) as [I1 I2]. split; constructor; auto.
Qed.

Lemma forall2_by_index {A B C} (R : A -> C -> Prop) (P : B -> C -> Prop) : forall (la : list A) (lb : list B) (lc : list C),
  Forall2 R la lc -> length lb = length la ->
  (forall i x, nth_error lb i = Some x -> exists u, nth_error lc i = Some u /\ P x u) ->
  Forall2 (fun a x => exists u, R a u /\ P x u) la lb.
Proof.
  induction la as [|a la IH]; intros lb lc F L H; destruct lb as [|x lb]; try discriminate; [constructor|].
  inversion F as [|a0 u0 la0 lc' Hau F']; subst. constructor.
  - destruct (H 0%nat x eq_refl) as (u' & N & Pu). cbn in N. inversion N; subst. exists u'. auto.
  - apply (IH lb lc' F'); [cbn in L; lia|]. intros i y N. exact (H (S i) y N).
Qed.

Section Script.
Variables (tbl : list Q) (types : list (text * option Z)).
Let cf := ref_conf tbl types.
Hypothesis Htbl : table_ok (1 # 96) tbl = true.
Hypothesis Hgrid : grid48_in_table tbl = true.
Variables (pairs : list (Q * Q)) (init : Q).
Let sorted := sort_by pair_lt pairs.
Let script := script_of_pairs sorted.
Let bcss := script_of_pairs pairs.
Hypothesis Hadj : adj_lt sorted.
Hypothesis Hg48 : forall p, In p sorted -> on_grid48 (fst p) = true.
Hypothesis Hpos : forall p, In p sorted -> 0 <= fst p /\ 0 < snd p.
Hypothesis Hfirst : match script with c0 :: _ => (s_m (bs_snap c0) =? 0)%Z && Qeq_bool (s_b (bs_snap c0)) 0 = true | [] => False end.

Lemma bcss_sorted : sort_by bcs_lt bcss = script.
Proof. apply script_sorted. Qed.

Lemma script_dom qs : (forall q, In q qs -> Pq4 q) -> domainb tbl script qs = true.
Proof. intro H. apply (script_domainb tbl Hgrid sorted Hadj Hg48 Hpos qs Hfirst). intros q Hq. destruct (H q Hq) as (A & B & _). auto. Qed.

Lemma script_sort_id : sort_by bcs_lt script = script.
Proof. apply (domain_sorted cf script []). apply script_dom. intros q []. Qed.

Lemma from_bcs_bcss i : from_bcs i bcss = from_bcs i script.
Proof. unfold from_bcs. rewrite bcss_sorted, script_sort_id. reflexivity. Qed.

Lemma script_increasing : match script with c :: rest => increasing c rest | [] => False end.
Proof.
  pose proof (script_dom [] ltac:(intros q [])) as D. destruct script as [|c rest]; [discriminate|].
  unfold domainb in D. do 4 (apply andb_true_iff in D; destruct D as [D ?]).
  apply (increasing_of_script_ok tbl). apply script_okb_sound. assumption.
Qed.

Lemma script_nodes c : In c script -> nodeQ c /\ bs_met c = 4.
Proof.
  intro H. unfold script, script_of_pairs in H. apply in_map_iff in H. destruct H as (p & <- & Hp).
  destruct (Hpos p Hp) as [P0 Pb]. destruct (snap_of_beat_facts (fst p)) as (_ & _ & B0 & B4 & _).
  split; [|reflexivity]. unfold nodeQ. cbn [bs_bpm bs_met bs_snap]. repeat split; try assumption.
Qed.
Lemma script_head : match script with c :: _ => s_m (bs_snap c) = 0%Z /\ s_b (bs_snap c) == 0 | [] => False end.
Proof.
  pose proof Hfirst as H. destruct script as [|c rest]; [exact H|]. apply andb_true_iff in H. destruct H as [H1 H2].
  split; [apply Z.eqb_eq; exact H1|apply Qeq_bool_iff; exact H2].
Qed.

Theorem offsets_ok qs : (forall q, In q qs -> Pq4 q) ->
  exists bcos os, from_bcs init bcss = Some bcos /\ tm_offsets tbl bcos qs = Some os
                  /\ (forall s, In s qs -> lookup_snap s (combine qs os) = Some (tau init script s)).
Proof.
  intro H. destruct (offsets_on_grid_b tbl Htbl init script qs (script_dom qs H)) as (bcos & os & F & T & R).
  exists bcos, os. split; [rewrite from_bcs_bcss; exact F|]. split; [exact T|].
  intros s Hs. apply lookup_tau; [exact R|exact (tm_offsets_canon tbl bcos qs os T)|exact Hs].
Qed.

Lemma script_wf : wf_unseated script = true.
Proof. apply (script_wf_unseated sorted Hadj Hpos Hfirst). Qed.

Lemma reseat_bcss : from_bcs_reseat init bcss = from_bcs_reseat init script.
Proof.
  unfold from_bcs_reseat. rewrite bcss_sorted, script_sort_id.
  rewrite (existsb_perm _ bcss script) by (rewrite <- bcss_sorted; apply sort_by_perm).
  rewrite from_bcs_bcss. unfold reseat. rewrite (reseat_sorts THRESHOLD bcss) by (rewrite bcss_sorted; exact script_wf).
  rewrite bcss_sorted. reflexivity.
Qed.

Theorem tempo_rows : exists rb, from_bcs_reseat init bcss = Some rb /\
  forall x, In x script -> exists b, In b rb /\ bo_off b == time_of init script (bs_snap x).
Proof.
  destruct (from_bcs_reseat_correct init script script_wf (no_extend_guard _ _ (script_no_extend sorted Hg48)))
    as (r & rb & Er & OK & Fr & F2).
  exists rb. split; [rewrite reseat_bcss; exact Fr|]. intros x Hx.
  destruct OK as (_ & _ & (_ & TK & _) & _). pose proof script_increasing as Inc.
  destruct script as [|c rest] eqn:Es; [destruct Hx|].
  apply In_nth_error in Hx. destruct Hx as [i Ni].
  destruct (time_of_change init c rest i x Inc Ni) as (t & Nt & Et).
  destruct (TK t) as (u & Hu & Eu). { unfold times. eapply nth_error_In. exact Nt. }
  unfold times in Hu. rewrite <- timeline_fst in Hu. apply in_map_iff in Hu. destruct Hu as (p & Ep & Hp).
  assert (G : forall (la : list bco) lb, Forall2 (bco_near init) la lb -> In p lb -> exists b, In b la /\ bco_near init b p).
  { clear. induction 1 as [|a b la lb Hab _ IH]; intros K; [destruct K|]. destruct K as [<-|K]; [exists a; split; [left; reflexivity|exact Hab]|].
    destruct (IH K) as (b0 & B1 & B2). exists b0. split; [right; exact B1|exact B2]. }
  destruct (G _ _ F2 Hp) as (b & Hb & [Eb _]). exists b. split; [exact Hb|]. rewrite Eb, Ep, Et, Eu. reflexivity.
Qed.

(* tempo changes on measure lines: no reseating at all, the chart's tempo list is the script's ms form, row by row *)
Theorem tempo_rows_lines : forallb (fun x => Qeq_bool (s_b (bs_snap x)) 0) script = true ->
  exists rb, from_bcs_reseat init bcss = Some rb /\
    Forall2 (fun b x => bo_off b == time_of init script (bs_snap x) /\ bo_bpm b = bs_bpm x /\ bo_met b = bs_met x) rb script.
Proof.
  intro HL. pose proof (script_dom [] ltac:(intros q [])) as D. pose proof script_increasing as Inc. pose proof script_sort_id as SS.
  rewrite reseat_bcss. unfold from_bcs_reseat. rewrite SS. clear Hfirst.
  destruct script as [|c0 rest]; [discriminate|].
  unfold domainb in D. apply andb_true_iff in D. destruct D as [D _]. apply andb_true_iff in D. destruct D as [D DS].
  apply andb_true_iff in D. destruct D as [D DB]. apply andb_true_iff in D. destruct D as [D DM].
  assert (N0 : node_ok c0) by (apply node_okb_sound; exact D).
  assert (SO : script_ok tbl c0 rest) by (apply script_okb_sound; exact DS).
  rewrite DM, DB. cbn [andb negb].
  assert (EX : existsb (fun c => negb (Qeq_bool (s_b (bs_snap c)) 0)) (c0 :: rest) = false).
  { apply not_true_is_false. intro K. apply existsb_exists in K. destruct K as (x & Hx & Kx). rewrite forallb_forall in HL.
    rewrite (HL x Hx) in Kx. discriminate. }
  rewrite EX.
  destruct (from_bcs_go_linked tbl rest init c0 N0 SO) as (brest & F1 & F2).
  assert (Efrom : from_bcs init (c0 :: rest) = Some (mkBco (bs_bpm c0) (bs_met c0) init :: brest)).
  { unfold from_bcs. rewrite SS.
    rewrite DM, DB. cbn [andb negb]. rewrite F1. reflexivity. }
  rewrite Efrom. eexists. split; [reflexivity|]. destruct (linked_rows rest init c0 brest F2) as [L1 L2]. constructor.
  - cbn [bo_off bo_bpm bo_met time_of]. rewrite (time_of_go_self init c0 rest Inc). repeat split; reflexivity.
  - assert (Len : length rest = length brest) by (clear -L1; induction L1; cbn; congruence).
    pose proof (forall2_by_index (fun b t => bo_off b == t) (fun x t => time_of_go init c0 rest (bs_snap x) == t) brest rest _ L2 Len) as G.
    assert (G' : Forall2 (fun b x => exists u, bo_off b == u /\ time_of_go init c0 rest (bs_snap x) == u) brest rest).
    { apply G. intros i x N. destruct (time_of_go_change rest init c0 i x Inc N) as (u & Nu & Eu). exists u. auto. }
    clear G.
    assert (CB : forall (R1 R2 : bco -> bcs -> Prop) la lb, Forall2 R1 la lb -> Forall2 R2 la lb -> Forall2 (fun a b => R2 a b /\ R1 a b) la lb).
    { intros R1 R2 la lb F. induction F; intro F'; inversion F'; subst; constructor; auto. }
    pose proof (CB _ _ _ _ L1 G') as F.
    assert (GE : forall (g : bcs -> Q) la lb,
              Forall2 (fun (a : bco) (b : bcs) => (exists u, bo_off a == u /\ g b == u) /\ bo_bpm a = bs_bpm b /\ bo_met a = bs_met b) la lb ->
              Forall2 (fun b x => bo_off b == g x /\ bo_bpm b = bs_bpm x /\ bo_met b = bs_met x) la lb).
    { intros g la lb F0. induction F0 as [|b x la lb [(u & U1 & U2) [A B]] _ IH]; constructor; [|exact IH]. split; [rewrite U1, U2; reflexivity|split; assumption]. }
    exact (GE (fun x => time_of_go init c0 rest (bs_snap x)) _ _ F).
Qed.
End Script.

(* ------------------------------------------------------------------ _read_notes *)
Lemma ref_keys_bound ty k : ref_keys ty = Some k -> (3 <= k <= 8)%Z.
Proof.
  unfold ref_keys, ref_chart_keys. cbn [find fst snd].
  repeat match goal with |- context [if ?b then _ else _] => destruct b; [intro H; inversion H; lia|] end. discriminate.
Qed.

Section Chart.
Variables (tbl : list Q) (types : list (text * option Z)).
Let cf := ref_conf tbl types.
Hypothesis Htbl : table_ok (1 # 96) tbl = true.
Hypothesis Hgrid : grid48_in_table tbl = true.
Variables (pairs : list (Q * Q)) (init : Q).
Let sorted := sort_by pair_lt pairs.
Let script := script_of_pairs sorted.
Let bcss := script_of_pairs pairs.
Hypothesis Hadj : adj_lt sorted.
Hypothesis Hg48 : forall p, In p sorted -> on_grid48 (fst p) = true.
Hypothesis Hpos : forall p, In p sorted -> 0 <= fst p /\ 0 < snd p.
Hypothesis Hfirst : match script with c0 :: _ => (s_m (bs_snap c0) =? 0)%Z && Qeq_bool (s_b (bs_snap c0)) 0 = true | [] => False end.
Let time := beat_time init script.
Let tauf := tau init script.

Definition notes_rel (notes : list dnote) (n : notes_out) : Prop :=
  Permutation (simple4 (o_hits n)) (dnotes_of KHit notes) /\ Permutation (hold4 (o_holds n)) (dnotes_of KHold notes)
  /\ Permutation (hold4 (o_rolls n)) (dnotes_of KRoll notes) /\ Permutation (simple4 (o_mines n)) (dnotes_of KMine notes)
  /\ Permutation (simple4 (o_lifts n)) (dnotes_of KLift notes) /\ Permutation (simple4 (o_fakes n)) (dnotes_of KFake notes)
  /\ Permutation (simple4 (o_keys n)) (dnotes_of KKey notes).
Definition notes_cmp (n : notes_out) : Prop :=
  forall l4, In l4 [simple4 (o_hits n); hold4 (o_holds n); hold4 (o_rolls n); simple4 (o_mines n); simple4 (o_lifts n);
                    simple4 (o_fakes n); simple4 (o_keys n)] ->
  forall x y, In x l4 -> In y l4 -> cmp_ok note4_lt x y.
Definition tempo_lines (bpms : list (Q * Q * Q)) : Prop :=
  forallb (fun x => Qeq_bool (s_b (bs_snap x)) 0) script = true ->
  Forall2 (fun (b : Q * Q * Q) x => fst (fst b) == time_of init script (bs_snap x) /\ snd (fst b) = bs_bpm x /\ snd b = 4) bpms script.
Definition tempo_rel (bpms : list (Q * Q * Q)) : Prop :=
  forall x, In x script -> exists b, In b bpms /\ fst (fst b) == time_of init script (bs_snap x).

Lemma read_measure_empty st m : read_measures cf st m [] = Some st.
Proof. reflexivity. Qed.
Lemma read_one_empty st m mt : measure_rows mt = [] -> read_measures cf st m [mt] = Some st.
Proof. intro E. cbn [read_measures]. rewrite E. reflexivity. Qed.

Lemma hold_entry_in ll l h t : In l ll -> In (h, Some t) l -> In h (hold_snaps ll) /\ In t (hold_snaps ll).
Proof.
  intros Hl He. rewrite hold_snaps_eq. split; apply in_flat_map; exists l; (split; [exact Hl|]); unfold esnaps; apply in_flat_map; exists (h, Some t);
    (split; [exact He|]); cbn; auto.
Qed.

Theorem read_notes_denotes l ms_d keysZ op notes ns : (3 <= keysZ <= 8)%Z ->
  (ms_d = [] /\ map measure_rows (split_on 44 l) = [[]]) \/ map measure_rows (split_on 44 l) = map rowsD ms_d ->
  denote_measures ms_d keysZ 0 time (repeat None (Z.to_nat keysZ)) [] [] = Some (op, notes, ns) ->
  forallb (fun o : option (kind * Q) => match o with None => true | Some _ => false end) op = true ->
  Forall (fun n => (n mod 4 = 0)%Z) ns ->
  exists n, read_notes cf l (Some init) (Some bcss) true = Some n /\ notes_rel (rev notes) n /\ tempo_rel (o_bpms n) /\ notes_cmp n /\ tempo_lines (o_bpms n).
Proof.
  intros Hk Hrows D Hop Hns. set (keys := Z.to_nat keysZ). assert (Hkeys : (keys <= 18)%nat) by (unfold keys; lia).
  (* the reader's loop *)
  assert (S : exists st, read_measures cf (st0 cf) 0 (split_on 44 l) = Some st /\ Inv tauf keys st op notes /\ Chain st).
  { destruct Hrows as [[E1 E2]|E].
    - subst ms_d. cbn in D. inversion D; subst op notes ns. destruct (split_on 44 l) as [|m1 [|m2 ms]]; try discriminate.
      cbn [map] in E2. injection E2 as E3. exists (st0 cf). split; [apply read_one_empty; exact E3|]. split; [apply inv_init|exact (proj1 chain_init)].
    - destruct (measures_sim tbl types tauf keys Hkeys time keysZ eq_refl (fun b => eq_refl) ms_d (split_on 44 l) 0%Z (st0 cf) (repeat None keys) [] [] op notes ns E
                  (inv_init tauf keys) ltac:(lia) D Hns) as (st & RM & I).
      exists st. split; [exact RM|]. split; [exact I|].
      apply (measures_order tbl types (split_on 44 l) 0%Z (st0 cf) st ltac:(lia)); [|exact (proj1 chain_init)| |exact RM].
      + rewrite E. exact (denote_measures_fourk keysZ time ms_d _ _ _ _ _ _ _ D Hns).
      + intros k Hk0. exact (proj2 chain_init _). }
  destruct S as (st & RM & I & CH).
  assert (AQ : all_q st).
  { apply (read_measures_q tbl types (split_on 44 l) 0%Z (st0 cf) st ltac:(lia)); [|exact RM]. intros s Hs. cbn in Hs. destruct Hs. }
  destruct (offsets_ok tbl types Htbl Hgrid pairs init Hadj Hg48 Hpos Hfirst (queries st) AQ) as (bcos & os & FB & TO & LK).
  destruct (tempo_rows tbl types Hgrid pairs init Hadj Hg48 Hpos Hfirst) as (rb & FR & TR).
  destruct (final_closed tauf keys Hkeys keysZ eq_refl st op notes I Hop) as [C1 C2].
  set (mp := combine (queries st) os) in *.
  assert (LS : forall e, In e (n_simple st) -> lookup_snap (snd e) mp = Some (tauf (snd e))).
  { intros e He. apply LK. unfold queries. apply in_or_app. left. apply in_map_iff. exists e. split; [reflexivity|]. apply in_rev in He. exact He. }
  assert (LH : forall ll, (ll = n_holds st \/ ll = n_rolls st) -> forall l0 h t, In l0 ll -> In (h, Some t) l0 ->
                lookup_snap h mp = Some (tauf h) /\ lookup_snap t mp = Some (tauf t)).
  { intros ll Hll l0 h t Hl He. destruct (hold_entry_in ll l0 h t Hl He) as [A B].
    split; apply LK; unfold queries; apply in_or_app; right; apply in_or_app; destruct Hll as [->| ->]; auto. }
  pose proof (inv_simple _ _ _ _ _ I) as FS.
  assert (FS' : Forall (fun e : kind * Z * snap => is_simple (fst (fst e)) = true) (n_simple st)).
  { apply Forall_forall. intros e He. rewrite Forall_forall in FS. exact (proj2 (FS e He)). }
  destruct (hold_out_ok tauf mp KHold (n_holds st) 0 C1 (LH _ (or_introl eq_refl))) as (Lh & Eh & Fh).
  destruct (hold_out_ok tauf mp KRoll (n_rolls st) 0 C2 (LH _ (or_intror eq_refl))) as (Lr & Er & Fr).
  assert (ES : forall k, expand_simple mp k (rev (n_simple st)) 18 = Some (map (fun e : kind * Z * snap => (tauf (snd e), snd (fst e))) (colmajor k (rev (n_simple st)) 18))).
  { intro k. apply expand_simple_ok. intros e He. apply LS. apply in_rev. exact He. }
  eexists. split.
  - unfold read_notes, bcss. rewrite FB, FR. change (Z.to_nat (k_max_keys cf)) with 18%nat.
    change (mkNst [] (repeat [] 18) (repeat [] 18)) with (st0 cf). rewrite RM.
    change (map (fun e : kind * Z * snap => snd e) (rev (n_simple st)) ++ hold_snaps (n_holds st) ++ hold_snaps (n_rolls st)) with (queries st).
    change (k_tbl cf) with tbl. rewrite TO. fold mp. rewrite C1, C2. cbn [andb negb].
    rewrite !ES, !expand_hold_eq, Eh, Er. reflexivity.
  - unfold notes_rel, tempo_rel, notes_cmp, tempo_lines. cbn [o_hits o_holds o_rolls o_mines o_lifts o_fakes o_keys o_bpms].
    assert (PN : forall k, Permutation (dnotes_of k (notes_of_st tauf st)) (dnotes_of k (rev notes))).
    { intro k. apply dnotes_of_perm. eapply perm_trans; [exact (inv_perm _ _ _ _ _ I)|apply Permutation_rev]. }
    assert (PS : forall k, is_simple k = true ->
               Permutation (simple4 (map (fun e : kind * Z * snap => (tauf (snd e), snd (fst e))) (colmajor k (rev (n_simple st)) 18))) (dnotes_of k (rev notes))).
    { intros k Hsk. eapply perm_trans; [|apply PN]. apply (simple_out tauf mp st k _ Hsk FS LS (ES k)). }
    split; [|split; [|split]].
    + split; [apply PS; reflexivity|].
      split; [rewrite (hold_out_perm tauf mp st KHold (n_holds st) Lh FS' C1 (LH _ (or_introl eq_refl)) ltac:(rewrite expand_hold_eq; exact Eh) (or_introl (conj eq_refl eq_refl))); apply PN|].
      split; [rewrite (hold_out_perm tauf mp st KRoll (n_rolls st) Lr FS' C2 (LH _ (or_intror eq_refl)) ltac:(rewrite expand_hold_eq; exact Er) (or_intror (conj eq_refl eq_refl))); apply PN|].
      repeat split; apply PS; reflexivity.
    + intros x Hx. destruct (TR x Hx) as (b & Hb & Eb). exists (bo_off b, bo_bpm b, 4). split; [|exact Eb].
      apply in_map_iff. exists b. split; [reflexivity|exact Hb].
    + assert (SC : forall k, forall x y, In x (simple4 (map (fun e : kind * Z * snap => (tauf (snd e), snd (fst e))) (colmajor k (rev (n_simple st)) 18))) ->
                     In y (simple4 (map (fun e : kind * Z * snap => (tauf (snd e), snd (fst e))) (colmajor k (rev (n_simple st)) 18))) -> cmp_ok note4_lt x y).
      { intro k. apply simple_cmp. intros x Hx. unfold simple4 in Hx. rewrite map_map in Hx. apply in_map_iff in Hx. destruct Hx as (e & <- & _).
        cbn [fst snd]. split; [apply Qred_idem|reflexivity]. }
      assert (LC : forall k ll, (ll = n_holds st \/ ll = n_rolls st) -> forall x y, In x (map to4 (flat_cols tauf k 0 ll)) -> In y (map to4 (flat_cols tauf k 0 ll)) -> cmp_ok note4_lt x y).
      { intros k ll Hll. apply (long_cmp init script (script_increasing tbl Hgrid pairs Hadj Hg48 Hpos Hfirst) (script_nodes pairs Hpos) (script_head pairs Hfirst)).
        - intros i l0 N. apply (CH i l0). destruct Hll as [->| ->]; [left|right]; exact N.
        - intros i l0 s N Hs. apply AQ. unfold queries. apply in_or_app. right. apply in_or_app.
          assert (In s (hold_snaps ll)) by (rewrite hold_snaps_eq; apply in_flat_map; exists l0; split; [eapply nth_error_In; exact N|exact Hs]).
          destruct Hll as [->| ->]; auto. }
      intros l4 Hl4. destruct Hl4 as [<-|[<-|[<-|[<-|[<-|[<-|[<-|[]]]]]]]]; try apply SC.
      * unfold hold4 in Fh |- *. rewrite Fh. apply LC. left. reflexivity.
      * unfold hold4 in Fr |- *. rewrite Fr. apply LC. right. reflexivity.
    + intro HL. destruct (tempo_rows_lines tbl types Hgrid pairs init Hadj Hg48 Hpos Hfirst HL) as (rb' & FR' & F2).
      unfold bcss in FR. rewrite FR in FR'. inversion FR'; subst rb'.
      assert (GM : forall (R : bco -> bcs -> Prop) (R' : Q * Q * Q -> bcs -> Prop) (f : bco -> Q * Q * Q) la lb,
                (forall a b, R a b -> R' (f a) b) -> Forall2 R la lb -> Forall2 R' (map f la) lb).
      { intros R R' f la lb Hi F0. induction F0; cbn [map]; constructor; auto. }
      refine (GM _ _ _ _ _ _ F2). intros a b (A & B & C). cbn [fst snd]. auto.
Qed.
End Chart.
