(* C05, all lanes: the reference interpreter applied to ANY listing of the objects of a set of placed notes (hits and
   head/tail pairs, each in the channel of its column) plus tempo objects returns exactly those hits and pairs, per
   column (lanes_of_notes). *)
From Coq Require Import ZArith QArith Qround Qabs List Bool Lia Lqa Sorting.Permutation Sorting.Sorted.
From RV Require Import Base.PyNum Timing.Snapper Timing.Snap Timing.TimingMap Timing.Integrate
  Formats.BMSText Formats.BMS Formats.BMSSpec Proofs.TimingProofs Proofs.BMSProofs Proofs.BMSDenoteProofs Proofs.BMSWriteLaneProofs.
Import ListNotations.
Open Scope Z_scope.

Local Arguments text_eqb : simpl never.

Definition cnote := (Z * item)%type.
Definition cobjs (n : cnote) : list (Z * sobj) := map (pair (fst n)) (item_objs (snd n)).
Definition tagH (n : cnote) : list (Z * sobj) := match snd n with IHit o => [(fst n, o)] | IHold _ _ => [] end.
Definition tagL (n : cnote) : list (Z * (sobj * sobj)) := match snd n with IHit _ => [] | IHold hd tl => [(fst n, (hd, tl))] end.
Definition same_cpos (a b : Z * sobj) : bool := (fst a =? fst b) && same_pos (snd a) (snd b).

Lemma filter_or_disjoint {A} (p q : A -> bool) (l : list A) : (forall x, In x l -> p x = true -> q x = false) ->
  Permutation (filter (fun x => p x || q x) l) (filter p l ++ filter q l).
Proof.
  induction l as [|x l IH]; intro D; [apply Permutation_refl|]. cbn [filter].
  assert (IH' := IH (fun y I => D y (or_intror I))). destruct (p x) eqn:Ep; cbn [orb].
  - rewrite (D x (or_introl eq_refl) Ep). cbn [app]. apply perm_skip. exact IH'.
  - destruct (q x); [|exact IH']. eapply Permutation_trans; [apply perm_skip; exact IH'|]. apply Permutation_middle.
Qed.

Lemma no_dup_by_filter {A} (e : A -> A -> bool) (p : A -> bool) l : no_dup_by e l = true -> no_dup_by e (filter p l) = true.
Proof.
  induction l as [|x l IH]; cbn [no_dup_by filter]; intro H; [reflexivity|]. apply andb_true_iff in H. destruct H as [H1 H2].
  destruct (p x); [|apply IH; exact H2]. cbn [no_dup_by]. rewrite (IH H2), andb_true_r. apply negb_true_iff. apply negb_true_iff in H1.
  destruct (existsb (e x) (filter p l)) eqn:E; [|reflexivity]. apply existsb_exists in E. destruct E as [y [Iy Ey]].
  apply filter_In in Iy. assert (existsb (e x) l = true) by (apply existsb_exists; exists y; tauto). congruence.
Qed.

Lemma no_dup_same_col c (l : list (Z * sobj)) : Forall (fun a => fst a = c) l -> no_dup_by same_cpos l = true ->
  no_dup_by same_pos (map snd l) = true.
Proof.
  induction l as [|x l IH]; intros F H; [reflexivity|]. inversion F as [|? ? Fx F']; subst. cbn [no_dup_by map] in *.
  apply andb_true_iff in H. destruct H as [H1 H2]. rewrite (IH F' H2), andb_true_r. apply negb_true_iff. apply negb_true_iff in H1.
  destruct (existsb (same_pos (snd x)) (map snd l)) eqn:E; [|reflexivity]. apply existsb_exists in E. destruct E as [y [Iy Ey]].
  apply in_map_iff in Iy. destruct Iy as [z [<- Iz]]. rewrite Forall_forall in F'.
  assert (existsb (same_cpos x) l = true).
  { apply existsb_exists. exists z. split; [exact Iz|]. unfold same_cpos. rewrite (F' z Iz), Z.eqb_refl. exact Ey. }
  congruence.
Qed.

Lemma filter_none {A} (p : A -> bool) l : existsb p l = false -> filter p l = [].
Proof.
  induction l as [|x l IH]; cbn; intro H; [reflexivity|]. apply orb_false_iff in H. destruct H as [H1 H2].
  rewrite H1. apply IH. exact H2.
Qed.
Definition lane_res_local lnobj lay objs (c : Z) := pair_ln lnobj None (sort_by obj_lt (filter (in_lane lay c) objs)).
Lemma lanes_denote_cons_local lnobj lay objs c cs :
  lanes_denote lnobj lay objs (c :: cs) =
  match lane_res_local lnobj lay objs c, lanes_denote lnobj lay objs cs with
  | Some (hs, ls), Some (hs', ls') => Some (map (fun h => (c, h)) hs ++ hs', map (fun l => (c, l)) ls ++ ls')
  | _, _ => None
  end.
Proof. reflexivity. Qed.

Lemma perm_filter {A} (p : A -> bool) l l' : Permutation l l' -> Permutation (filter p l) (filter p l').
Proof.
  induction 1 as [|x l l' P IH|a b l|l l' l'' P1 IH1 P2 IH2]; cbn [filter].
  - constructor.
  - destruct (p x); [apply perm_skip|]; exact IH.
  - destruct (p a), (p b); try apply Permutation_refl. apply perm_swap.
  - eapply Permutation_trans; eassumption.
Qed.

Section Lanes.
  Variables (lnobj : text) (lay : layout) (notes : list cnote) (xb : list sobj).
  Let all_cobjs := flat_map cobjs notes.
  Let xn := map snd all_cobjs.

  Hypothesis Hlane : forall n o, In n notes -> In o (item_objs (snd n)) -> lane_of lay (o_chan o) = Some (fst n).
  Hypothesis Hxb : forall o, In o xb -> lane_of lay (o_chan o) = None.
  Hypothesis Hok : forall n, In n notes -> item_ok lnobj (snd n).
  Hypothesis Hnd : no_dup_by same_cpos all_cobjs = true.
  Hypothesis Hin : forall c hd tl o, In (c, IHold hd tl) notes -> In (c, o) all_cobjs -> ~ (obj_lt hd o = true /\ obj_lt o tl = true).

  Definition items_of (c : Z) : list item := map snd (filter (fun n => fst n =? c) notes).

  Lemma lane_objs_of c : filter (in_lane lay c) (xn ++ xb) = flat_map item_objs (items_of c) /\
    flat_map item_objs (items_of c) = map snd (filter (fun a => fst a =? c) all_cobjs).
  Proof.
    split.
    - rewrite filter_app. assert (filter (in_lane lay c) xb = []) as ->.
      { apply filter_none. destruct (existsb (in_lane lay c) xb) eqn:E; [|reflexivity]. apply existsb_exists in E.
        destruct E as [o [I Eo]]. unfold in_lane in Eo. rewrite (Hxb o I) in Eo. discriminate. }
      rewrite app_nil_r. unfold xn, all_cobjs, items_of. clear Hok Hnd Hin. induction notes as [|n ns IH]; [reflexivity|].
      cbn [flat_map filter]. rewrite map_app, filter_app.
      rewrite IH by (intros n' o I; apply Hlane; right; exact I).
      assert (Hn : forall o, In o (item_objs (snd n)) -> in_lane lay c o = (fst n =? c)).
      { intros o I. unfold in_lane. rewrite (Hlane n o (or_introl eq_refl) I). reflexivity. }
      assert (E : filter (in_lane lay c) (map snd (cobjs n)) = if fst n =? c then item_objs (snd n) else []).
      { unfold cobjs. rewrite map_map. cbn [snd]. rewrite map_id. revert Hn. generalize (item_objs (snd n)). intros l Hn.
        induction l as [|o l IHl]; [destruct (fst n =? c); reflexivity|]. cbn [filter]. rewrite (Hn o (or_introl eq_refl)).
        specialize (IHl (fun o' I => Hn o' (or_intror I))). destruct (fst n =? c); [f_equal; exact IHl|exact IHl]. }
      rewrite E. destruct (fst n =? c); cbn [map flat_map]; reflexivity.
    - unfold all_cobjs, items_of. clear. induction notes as [|n ns IH]; [reflexivity|]. cbn [flat_map filter]. rewrite filter_app, map_app, <- IH.
      assert (E : map snd (filter (fun a => fst a =? c) (cobjs n)) = if fst n =? c then item_objs (snd n) else []).
      { unfold cobjs. generalize (item_objs (snd n)). intro l. induction l as [|o l IHl]; [destruct (fst n =? c); reflexivity|].
        cbn [map filter fst]. destruct (fst n =? c); cbn [map snd]; [f_equal; exact IHl|exact IHl]. }
      rewrite E. destruct (fst n =? c); reflexivity.
  Qed.

  (* one column *)
  Lemma lane_of_notes c objs : Permutation objs (xn ++ xb) ->
    exists hs ls, pair_ln lnobj None (sort_by obj_lt (filter (in_lane lay c) objs)) = Some (hs, ls)
                  /\ Permutation hs (hits_of (items_of c)) /\ Permutation ls (holds_of (items_of c)).
  Proof.
    intro P. destruct (lane_objs_of c) as [E1 E2].
    apply (lane_pairs lnobj (items_of c)).
    - apply Forall_forall. intros i I. unfold items_of in I. apply in_map_iff in I. destruct I as [n [<- In']].
      apply filter_In in In'. apply Hok. tauto.
    - rewrite E2. apply (no_dup_same_col c).
      + apply Forall_forall. intros a I. apply filter_In in I. destruct I as [_ E]. apply Z.eqb_eq. exact E.
      + apply no_dup_by_filter. exact Hnd.
    - intros hd tl o I1 I2. unfold items_of in I1. apply in_map_iff in I1. destruct I1 as [[c' it] [Ei I1]]. cbn [snd] in Ei. subst it.
      apply filter_In in I1. destruct I1 as [I1 Ec]. cbn [fst] in Ec. apply Z.eqb_eq in Ec. subst c'.
      rewrite E2 in I2. apply in_map_iff in I2. destruct I2 as [[c' o'] [Eo I2]]. cbn [snd] in Eo. subst o'.
      apply filter_In in I2. destruct I2 as [I2 Ec]. cbn [fst] in Ec. apply Z.eqb_eq in Ec. subst c'.
      apply (Hin c hd tl o I1 I2).
    - rewrite <- E1. apply perm_filter. exact P.
  Qed.

  Definition sel (cols : list Z) : list cnote := filter (fun n => existsb (Z.eqb (fst n)) cols) notes.

  Lemma tag_items c : map (fun h => (c, h)) (hits_of (items_of c)) = flat_map tagH (filter (fun n => fst n =? c) notes)
    /\ map (fun l => (c, l)) (holds_of (items_of c)) = flat_map tagL (filter (fun n => fst n =? c) notes).
  Proof.
    unfold items_of. clear. induction notes as [|[c' it] ns [IH1 IH2]]; [split; reflexivity|]. cbn [filter fst].
    destruct (c' =? c) eqn:E; [|split; assumption]. apply Z.eqb_eq in E. subst c'.
    cbn [map hits_of holds_of flat_map snd]. unfold tagH, tagL. cbn [fst snd]. destruct it; cbn [app map];
      (split; [try f_equal; exact IH1|try f_equal; exact IH2]).
  Qed.

  (* all columns of a duplicate-free list *)
  Theorem lanes_of_notes_cols objs : Permutation objs (xn ++ xb) -> forall cols, NoDup cols ->
    exists H L, lanes_denote lnobj lay objs cols = Some (H, L)
                /\ Permutation H (flat_map tagH (sel cols)) /\ Permutation L (flat_map tagL (sel cols)).
  Proof.
    intro P. induction cols as [|c cs IH]; intro Nd.
    - exists [], []. split; [reflexivity|].
      assert (sel [] = []) as -> by (unfold sel; clear; induction notes; auto). split; constructor.
    - inversion Nd as [|? ? Nc Nd']; subst. destruct (IH Nd') as [H' [L' [E' [PH PL]]]].
      destruct (lane_of_notes c objs P) as [hs [ls [El [Ph Pl]]]].
      rewrite lanes_denote_cons_local. unfold lane_res_local. rewrite El, E'. eexists _, _. split; [reflexivity|].
      destruct (tag_items c) as [T1 T2].
      assert (Psel : Permutation (sel (c :: cs)) (filter (fun n => fst n =? c) notes ++ sel cs)).
      { unfold sel. cbn [existsb]. apply (filter_or_disjoint (fun n => fst n =? c) (fun n => existsb (Z.eqb (fst n)) cs)).
        intros n _ E. apply Z.eqb_eq in E. destruct (existsb (Z.eqb (fst n)) cs) eqn:X; [|reflexivity]. exfalso.
        apply existsb_exists in X. destruct X as [y [Iy Ey]]. apply Z.eqb_eq in Ey. apply Nc. rewrite <- E, Ey. exact Iy. }
      split.
      + eapply Permutation_trans; [|apply Permutation_sym; apply Permutation_flat_map; exact Psel].
        rewrite flat_map_app. apply Permutation_app; [|exact PH].
        eapply Permutation_trans; [apply Permutation_map; exact Ph|]. exact (eq_ind _ (Permutation _) (Permutation_refl _) _ T1).
      + eapply Permutation_trans; [|apply Permutation_sym; apply Permutation_flat_map; exact Psel].
        rewrite flat_map_app. apply Permutation_app; [|exact PL].
        eapply Permutation_trans; [apply Permutation_map; exact Pl|]. exact (eq_ind _ (Permutation _) (Permutation_refl _) _ T2).
  Qed.

  (* columns covering every note *)
  Corollary lanes_of_notes objs cols : Permutation objs (xn ++ xb) -> NoDup cols -> (forall n, In n notes -> In (fst n) cols) ->
    exists H L, lanes_denote lnobj lay objs cols = Some (H, L)
                /\ Permutation H (flat_map tagH notes) /\ Permutation L (flat_map tagL notes).
  Proof.
    intros P Nd Cov. destruct (lanes_of_notes_cols objs P cols Nd) as [H [L [E [PH PL]]]]. exists H, L. split; [exact E|].
    assert (sel cols = notes) as <-; [|split; assumption].
    unfold sel. clear - Cov. induction notes as [|n ns IH]; [reflexivity|]. cbn [filter].
    assert (existsb (Z.eqb (fst n)) cols = true) as ->.
    { apply existsb_exists. exists (fst n). split; [apply Cov; left; reflexivity|apply Z.eqb_refl]. }
    f_equal. apply IH. intros n' I. apply Cov. right. exact I.
  Qed.
End Lanes.
