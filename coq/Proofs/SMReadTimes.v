(* C02, times: the offsets TimingMap.offsets returns are canonical rationals, so the reader's Snap -> time lookup is the
   function  tau s = Qred (time_of init script s)  of the reference semantics; the time of a tempo change's own position
   is its change time, which survives reseating (C11): every tempo row of the file is in the chart's tempo list;
   time is strictly increasing in the position. *)
From Coq Require Import String ZArith QArith Qround Qabs List Bool Lia Lqa Sorting.Permutation.
From RV Require Import Base.PyNum Timing.Snapper Timing.Snap Timing.TimingMap Timing.Reseat Timing.Integrate Timing.Domain
  Timing.ReseatSpec Timing.ReseatDomain
  Formats.SMText Formats.SM Formats.SMSpec Formats.SMReadDom
  Proofs.SnapperProofs Proofs.TimingProofs Proofs.RederiveProofs Proofs.ReseatProofs Proofs.SMProofs Proofs.SMReadProofs.
Import ListNotations.
Open Scope Q_scope.

(* ------------------------------------------------------------------ canonical outputs of tm_offsets *)
Lemma Qred_idem x : Qred (Qred x) = Qred x.
Proof. apply Qred_complete. apply Qred_correct. Qed.

Lemma sweep_offsets_canon : forall qs cur res, sweep_offsets cur qs = Some res -> Forall (fun iv : nat * Q => Qred (snd iv) = snd iv) res.
Proof.
  induction qs as [|[i q] qs IH]; intros cur res H; cbn [sweep_offsets] in H.
  - inversion H. constructor.
  - destruct (skip_snap_gt q cur) as [[|[o s] cur']|]; try discriminate.
    destruct (offset_at o s q) as [v|] eqn:O; [|discriminate]. destruct (sweep_offsets ((o, s) :: cur') qs) as [r|] eqn:S; [|discriminate].
    assert (Ev : Qred v = v).
    { unfold offset_at in O. destruct (snap_sub q (bs_snap s)) as [d|]; [|discriminate].
      set (x := bo_off o + snap_offset d (bs_bpm s) (bs_met s)) in O. assert (E : v = Qred x) by congruence. rewrite E. apply Qred_idem. }
    assert (Er : res = (i, v) :: r) by congruence. rewrite Er. constructor; [exact Ev|exact (IH _ _ S)].
Qed.
Lemma all_some_in {A} (l : list (option A)) r : all_some l = Some r -> forall x, In x r -> In (Some x) l.
Proof.
  revert r. induction l as [|[a|] l IH]; intros r H x Hx; cbn [all_some] in H; try discriminate.
  - inversion H; subst. destruct Hx.
  - destruct (all_some l) eqn:E; [|discriminate]. inversion H; subst. destruct Hx as [<-|Hx]; [left; reflexivity|right; exact (IH _ eq_refl x Hx)].
Qed.
Lemma assoc_nat_in {A} i (l : list (nat * A)) v : assoc_nat i l = Some v -> In (i, v) l.
Proof.
  induction l as [|[j w] l IH]; cbn [assoc_nat]; [discriminate|]. destruct (Nat.eqb i j) eqn:E.
  - intro H. inversion H; subst. apply Nat.eqb_eq in E. subst. left. reflexivity.
  - intro H. right. exact (IH H).
Qed.
Theorem tm_offsets_canon tbl bcos qs os : tm_offsets tbl bcos qs = Some os -> Forall (fun o => Qred o = o) os.
Proof.
  unfold tm_offsets. destruct (bco_to_bcs tbl (sort_by bco_lt bcos)) as [bcss|]; [|discriminate].
  destruct (sweep_offsets _ _) as [res|] eqn:S; [|discriminate]. intro U. apply Forall_forall. intros o Ho.
  unfold unpermute in U. pose proof (all_some_in _ _ U o Ho) as K. apply in_map_iff in K. destruct K as (i & K & _).
  apply assoc_nat_in in K. pose proof (sweep_offsets_canon _ _ _ S) as F. rewrite Forall_forall in F. exact (F _ K).
Qed.

(* ------------------------------------------------------------------ the reader's Snap -> time table *)
Lemma snap_eq_refl s : snap_eq s s = true.
Proof. unfold snap_eq. rewrite Z.eqb_refl. cbn. apply Qeq_bool_iff. reflexivity. Qed.

Lemma lookup_snap_some s : forall qs os, In s qs -> length qs = length os -> lookup_snap s (combine qs os) <> None.
Proof.
  induction qs as [|q qs IH]; intros os H L; [destruct H|].
  destruct os as [|o os]; [discriminate|]. cbn [combine lookup_snap]. destruct (snap_eq q s) eqn:E; [discriminate|].
  destruct H as [->|H]; [rewrite snap_eq_refl in E; discriminate|]. apply IH; [exact H|]. cbn in L. lia.
Qed.

Section Tau.
Variable (init : Q) (l : list bcs).
Definition tau (s : snap) : Q := Qred (time_of init l s).

Theorem lookup_tau qs os s : Forall2 (fun q r => r == time_of init l q) qs os -> Forall (fun o => Qred o = o) os ->
  In s qs -> lookup_snap s (combine qs os) = Some (tau s).
Proof.
  intros F C Hin.
  assert (L : length qs = length os) by (clear -F; induction F; cbn; congruence).
  destruct (lookup_snap s (combine qs os)) as [o|] eqn:E.
  - destruct (lookup_combine (fun q r => r == time_of init l q /\ Qred r = r) qs os s o) as (q & _ & Eq & Rq & Cq).
    + clear -F C. induction F as [|q r qs os Hr _ IH]; [constructor|]. inversion C; subst. constructor; [split; assumption|apply IH; assumption].
    + exact E.
    + f_equal. rewrite <- Cq. unfold tau. apply Qred_complete. rewrite Rq. apply time_of_comp. exact Eq.
  - exfalso. exact (lookup_snap_some s qs os Hin L E).
Qed.
End Tau.

(* ------------------------------------------------------------------ times of the tempo changes themselves *)
Lemma seg_beats_refl met s : seg_beats met s s == 0.
Proof. unfold seg_beats. rewrite Z.sub_diag. change (inject_Z 0) with 0. ring. Qed.

Lemma time_of_go_self t cur rest : increasing cur rest -> time_of_go t cur rest (bs_snap cur) == t.
Proof.
  intro H. rewrite time_of_go_before.
  - rewrite seg_beats_refl. ring.
  - intros c Hc. exact (increasing_all_ge cur rest c H Hc).
Qed.

Lemma time_of_go_change rest : forall t cur i x, increasing cur rest -> nth_error rest i = Some x ->
  exists u, nth_error (change_times_go t cur rest) i = Some u /\ time_of_go t cur rest (bs_snap x) == u.
Proof.
  induction rest as [|n rest IH]; intros t cur i x Hinc N; [destruct i; discriminate|].
  destruct Hinc as [H1 H2]. cbn [change_times_go time_of_go].
  assert (L : snap_le (bs_snap n) (bs_snap x) = true).
  { apply snap_le_iff. destruct i as [|i]; cbn [nth_error] in N.
    - inversion N; subst. right. split; [reflexivity|lra].
    - apply slt_sle. apply (increasing_all_ge n rest x H2). eapply nth_error_In; eassumption. }
  rewrite L. destruct i as [|i]; cbn [nth_error] in N |- *.
  - inversion N; subst x. eexists. split; [reflexivity|]. apply time_of_go_self. exact H2.
  - exact (IH _ n i x H2 N).
Qed.

Lemma change_times_go_shift rest : forall u0 t0 a cur, u0 == t0 + a ->
  Forall2 (fun u v => u == v + a) (change_times_go u0 cur rest) (change_times_go t0 cur rest).
Proof.
  induction rest as [|n rest IH]; intros u0 t0 a cur E; cbn [change_times_go]; constructor.
  - rewrite E. ring.
  - apply IH. rewrite E. ring.
Qed.

(* the time of the i-th change's own position = init + its time from 0 *)
Theorem time_of_change init c rest i x : increasing c rest -> nth_error (c :: rest) i = Some x ->
  exists t, nth_error (change_times 0 (c :: rest)) i = Some t /\ time_of init (c :: rest) (bs_snap x) == init + t.
Proof.
  intros Hinc N. cbn [change_times time_of]. destruct i as [|i]; cbn [nth_error] in N |- *.
  - inversion N; subst x. exists 0. split; [reflexivity|]. rewrite time_of_go_self by exact Hinc. ring.
  - destruct (time_of_go_change rest init c i x Hinc N) as (u & Nu & Eu).
    pose proof (change_times_go_shift rest init 0 init c ltac:(ring)) as F.
    assert (G : forall (la lb : list Q) j u, Forall2 (fun u v => u == v + init) la lb -> nth_error la j = Some u ->
                 exists v, nth_error lb j = Some v /\ u == v + init).
    { clear. induction la as [|a la IHl]; intros lb j u F N; [destruct j; discriminate|]. inversion F; subst.
      destruct j; cbn [nth_error] in N |- *; [inversion N; subst; eauto|eauto]. }
    destruct (G _ _ i u F Nu) as (v & Nv & Ev). exists v. split; [exact Nv|]. rewrite Eu, Ev. ring.
Qed.

(* ------------------------------------------------------------------ strict monotonicity of time in the position *)
Lemma seg_beats_pos met a b : 0 < met -> 0 <= s_b a -> s_b a < met -> 0 <= s_b b -> slt a b -> 0 < seg_beats met a b.
Proof.
  intros Hm A0 A1 B0 [H|[H1 H2]]; unfold seg_beats.
  - assert (inject_Z 1 <= inject_Z (s_m b - s_m a)) by (rewrite <- Zle_Qle; lia). change (inject_Z 1) with 1 in H0. nra.
  - rewrite H1, Z.sub_diag. change (inject_Z 0) with 0. lra.
Qed.
Lemma seg_beats_add met a b c : seg_beats met a c == seg_beats met a b + seg_beats met b c.
Proof. unfold seg_beats. rewrite !inject_Z_minus. ring. Qed.

Definition nodeQ (c : bcs) : Prop := 0 < bs_bpm c /\ 0 < bs_met c /\ 0 <= s_b (bs_snap c) /\ s_b (bs_snap c) < bs_met c.
Definition stepQ (p c : bcs) : Prop := s_b (bs_snap c) < bs_met p.

Lemma beat_len_pos bpm : 0 < bpm -> 0 < beat_len bpm.
Proof. intro H. unfold beat_len, MIN_TO_MSEC. apply Qlt_shift_div_l; lra. Qed.

Lemma seg_beats_nonneg met a b : 0 < met -> s_b a < met -> 0 <= s_b b -> sle a b -> 0 <= seg_beats met a b.
Proof.
  intros Hm A1 B0 [H|[H1 H2]]; unfold seg_beats.
  - assert (inject_Z 1 <= inject_Z (s_m b - s_m a)) by (rewrite <- Zle_Qle; lia). change (inject_Z 1) with 1 in H0. nra.
  - rewrite H1, Z.sub_diag. change (inject_Z 0) with 0. lra.
Qed.

Lemma time_of_go_ge rest : forall t n b, nodeQ n -> (forall c, In c rest -> nodeQ c) -> 0 <= s_b b ->
  increasing n rest -> sle (bs_snap n) b -> t <= time_of_go t n rest b.
Proof.
  induction rest as [|n2 rest IH]; intros t n b (Bn & Mn & N0 & N1) Nr B0 Hinc Lb; cbn [time_of_go].
  - pose proof (seg_beats_nonneg (bs_met n) (bs_snap n) b Mn N1 B0 Lb). pose proof (beat_len_pos _ Bn). nra.
  - destruct Hinc as [H3 H4]. destruct (snap_le (bs_snap n2) b) eqn:L2.
    + assert (Nn2 : nodeQ n2) by (apply Nr; left; reflexivity). pose proof Nn2 as (B2 & M2 & N20 & N21).
      pose proof (seg_beats_pos (bs_met n) (bs_snap n) (bs_snap n2) Mn N0 N1 N20 H3). pose proof (beat_len_pos _ Bn).
      eapply Qle_trans; [|apply (IH _ n2 b Nn2 (fun c Hc => Nr c (or_intror Hc)) B0 H4)]; [nra|apply snap_le_iff; exact L2].
    + pose proof (seg_beats_nonneg (bs_met n) (bs_snap n) b Mn N1 B0 Lb). pose proof (beat_len_pos _ Bn). nra.
Qed.

(* queries: normalised under every metronome they are measured with (one metronome in .sm) *)
Lemma time_of_go_mono rest : forall t cur a b, nodeQ cur -> (forall c, In c rest -> nodeQ c) ->
  (forall c, In c (cur :: rest) -> 0 <= s_b a /\ s_b a < bs_met c /\ 0 <= s_b b /\ s_b b < bs_met c) ->
  increasing cur rest -> sle (bs_snap cur) a -> slt a b ->
  time_of_go t cur rest a < time_of_go t cur rest b.
Proof.
  induction rest as [|n rest IH]; intros t cur a b Nc Nr Hq Hinc Ha Hab; cbn [time_of_go].
  - destruct Nc as (Bp & Mp & B0 & B1). destruct (Hq cur (or_introl eq_refl)) as (A0 & A1 & C0 & C1).
    pose proof (seg_beats_add (bs_met cur) (bs_snap cur) a b) as E. pose proof (seg_beats_pos (bs_met cur) a b Mp A0 A1 C0 Hab).
    pose proof (beat_len_pos _ Bp). nra.
  - destruct Hinc as [H1 H2]. destruct (snap_le (bs_snap n) a) eqn:La.
    + assert (Lb : snap_le (bs_snap n) b = true).
      { apply snap_le_iff. apply snap_le_iff in La. apply slt_sle. eapply sle_slt_trans; eassumption. }
      rewrite Lb. apply IH; auto.
      * apply Nr. left. reflexivity.
      * intros c Hc. apply Nr. right. exact Hc.
      * intros c Hc. apply Hq. right. exact Hc.
      * apply snap_le_iff. exact La.
    + destruct Nc as (Bp & Mp & B0 & B1). destruct (Hq cur (or_introl eq_refl)) as (A0 & A1 & C0 & C1).
      destruct (snap_le (bs_snap n) b) eqn:Lb.
      * apply slt_of_not_le in La. apply snap_le_iff in Lb.
        assert (Nn : nodeQ n) by (apply Nr; left; reflexivity). pose proof Nn as (Bn & Mn & N0 & N1).
        eapply Qlt_le_trans; [|apply (time_of_go_ge rest _ n b Nn (fun c Hc => Nr c (or_intror Hc)) C0 H2 Lb)].
        pose proof (seg_beats_add (bs_met cur) (bs_snap cur) a (bs_snap n)) as E.
        pose proof (seg_beats_pos (bs_met cur) a (bs_snap n) Mp A0 A1 N0 La). pose proof (beat_len_pos _ Bp). nra.
      * pose proof (seg_beats_add (bs_met cur) (bs_snap cur) a b) as E. pose proof (seg_beats_pos (bs_met cur) a b Mp A0 A1 C0 Hab).
        pose proof (beat_len_pos _ Bp). nra.
Qed.
