(* C13: closure of C03's exact write domain c03_domb under rate (r > 0).  Uniform scaling (every time / r, every tempo
   * r) changes no position: the re-derived tempo script of the rated rows is the script of the rows with tempos * r and
   the SAME positions, every event keeps its cumulative beat, every grid test and every placement is the same
   (Proofs/RateScaleProofs.v), so every clause of the domain carries over. *)
From Coq Require Import String ZArith QArith Qround Qabs List Bool Lia Lqa Sorting.Permutation.
From RV Require Import Base.PyNum Timing.Snapper Timing.Snap Timing.TimingMap Timing.Reseat Timing.Integrate
  Timing.Domain Timing.Domain2 Formats.SMText Formats.SM Formats.SMSpec Formats.SMWriteDom Map.RateWrite
  Proofs.SnapperProofs Proofs.TimingProofs Proofs.RateScaleProofs Proofs.SMProofs Proofs.SMWriteWholeTime Proofs.SMWriteWholeFile.
Import ListNotations.
Import SMRate.
Open Scope Q_scope.

Lemma q_same_refl a : q_same a a = true.
Proof. unfold q_same. rewrite Z.eqb_refl, Pos.eqb_refl. reflexivity. Qed.
Lemma bco_same_refl' b : bco_same b b = true.
Proof. unfold bco_same. rewrite !q_same_refl. reflexivity. Qed.
Lemma row_same_refl b : row_same b b = true.
Proof. unfold row_same. rewrite !q_same_refl. reflexivity. Qed.
Lemma forallb2_refl {A} (e : A -> A -> bool) (He : forall a, e a a = true) l : forallb2 e l l = true.
Proof. induction l as [|x l IH]; [reflexivity|]. cbn [forallb2]. rewrite He, IH. reflexivity. Qed.

Lemma fb_map {A B} (f : A -> B) (p : B -> bool) l : forallb p (map f l) = forallb (fun x => p (f x)) l.
Proof. induction l as [|x l IH]; [reflexivity|]. cbn [map forallb]. rewrite IH. reflexivity. Qed.
Lemma fb_ext_in {A} (p q : A -> bool) l : (forall x, In x l -> p x = q x) -> forallb p l = forallb q l.
Proof.
  intro H. induction l as [|x l IH]; [reflexivity|]. cbn [forallb]. rewrite (H x (or_introl eq_refl)), IH; [reflexivity|].
  intros y I. apply H. right. exact I.
Qed.

Section CloseSM.
  Variable cf : smconf.
  Let tbl := k_tbl cf.
  Variable r : Q.
  Hypothesis Hr : 0 < r.

  Definition ev_sc (e : Q * Z * Z) : Q * Z * Z := (Qred (fst (fst e) / r), snd (fst e), snd e).

  Lemma bcos_of_rate rows : bcos_of (map (tempo_rate r) rows) = map (bco_sc r) (bcos_of rows).
  Proof. unfold bcos_of. rewrite !map_map. reflexivity. Qed.

  Lemma chart_events_rate c : chart_events cf (sm_chart_rate r c) = map ev_sc (chart_events cf c).
  Proof.
    unfold chart_events. cbn [sm_chart_rate c_hits c_holds c_rolls c_fakes c_keys c_lifts c_mines].
    rewrite !map_app, !map_map. unfold ev_sc, simple_rate, long_rate. cbn [fst snd].
    assert (T : forall (ch : Z) (l : list (Q * Z * Q)),
              map (fun x : Q * Z * Q => (Qred (Qred (fst (fst x) / r) + Qred (snd x / r)), snd (fst x), ch)) l
              = map (fun x : Q * Z * Q => (Qred (Qred (fst (fst x) + snd x) / r), snd (fst x), ch)) l).
    { intros ch l. apply map_ext. intro x. f_equal. f_equal. apply Qred_complete. rewrite !Qred_correct. unfold Qdiv. ring. }
    rewrite !T. reflexivity.
  Qed.

  (* ---- the tempo script of the rated rows ---- *)
  Lemma tempo_script_rate rows init l : tempo_script_of cf rows = Some (init, l) ->
    tempo_script_of cf (map (tempo_rate r) rows) = Some (Qred (init / r), map (bcs_sc r) l).
  Proof.
    unfold tempo_script_of. rewrite bcos_of_rate, (sort_bco_sc r Hr), (bco_to_bcs_sc r Hr). fold tbl.
    destruct (sort_by bco_lt (bcos_of rows)) as [|b0 rest]; [discriminate|]. destruct (bco_to_bcs tbl (bcos_of rows)) as [l0|]; [|discriminate].
    intro H. inversion H; subst. reflexivity.
  Qed.

  Lemma distinct_offsb_sc B : distinct_offsb (map (bco_sc r) B) = distinct_offsb B.
  Proof.
    induction B as [|x B IH]; [reflexivity|]. cbn [map distinct_offsb]. rewrite IH, fb_map. f_equal.
    apply fb_ext_in. intros y _. cbn [bco_sc bo_off]. f_equal.
    rewrite (Qeq_bool_comp _ _ (bo_off x / r) (bo_off y / r) (Qred_correct _) (Qred_correct _)). apply (Qeq_bool_div r Hr).
  Qed.

  Lemma times_close_sc : forall xs' xs ys' ys, Forall2 (fun a b => a == b / r) xs' xs -> Forall2 (fun a b => a == b / r) ys' ys ->
    times_close 0 xs' ys' = times_close 0 xs ys.
  Proof.
    induction xs' as [|x' xs' IH]; intros xs ys' ys Fx Fy; inversion Fx as [|? x ? xs0 Ex Fx']; subst.
    - inversion Fy; subst; reflexivity.
    - inversion Fy as [|y' y ys0' ys0 Ey Fy']; subst; [reflexivity|]. cbn [times_close]. rewrite (IH xs0 ys0' ys0 Fx' Fy'). f_equal.
      rewrite (Qle_bool_comp (Qabs (x' - y')) 0 (Qabs (x - y) / r) (0 / r)); [apply (Qle_bool_div r Hr)| |unfold Qdiv; ring].
      assert (E : x' - y' == (x - y) * / r) by (rewrite Ex, Ey; unfold Qdiv; ring).
      rewrite (Qabs_wd _ _ E), Qabs_Qmult. rewrite (Qabs_pos (/ r)) by (apply Qlt_le_weak; apply (rinv_pos r Hr)). reflexivity.
  Qed.

  Lemma query_on_grid_sc l s : query_on_grid tbl (map (bcs_sc r) l) s = query_on_grid tbl l s.
  Proof. destruct l as [|c rest]; [reflexivity|]. cbn [map query_on_grid]. rewrite (active_go_sc r). reflexivity. Qed.
  Lemma wf_query_sc l s : wf_query (map (bcs_sc r) l) s = wf_query l s.
  Proof. unfold wf_query. rewrite (active_met_sc r). reflexivity. Qed.

  Lemma time_okb_sc init l o : l <> [] -> time_okb cf (Qred (init / r)) (map (bcs_sc r) l) (Qred (o / r)) = time_okb cf init l o.
  Proof.
    intro Nl. unfold time_okb. fold tbl. rewrite (time_on_gridb_sc r Hr tbl (Qred (init / r)) init l (Qred (o / r)) o (Qred_correct _) (Qred_correct _) Nl).
    rewrite (Qle_bool_comp _ _ (init / r) (o / r) (Qred_correct _) (Qred_correct _)), (Qle_bool_div r Hr). reflexivity.
  Qed.

  Lemma spec_beat_sc init l o : spec_beat (Qred (init / r)) (map (bcs_sc r) l) (Qred (o / r)) = spec_beat init l o.
  Proof. unfold spec_beat. apply Qred_complete. apply (beats_at_sc r Hr); apply Qred_correct. Qed.

  Lemma longs_disjoint_rate l : longs_disjoint (map (long_rate r) l) = longs_disjoint l.
  Proof.
    induction l as [|a l IH]; [reflexivity|]. cbn [map longs_disjoint]. rewrite IH, fb_map. f_equal. apply fb_ext_in. intros b _.
    unfold long_rate. cbn [fst snd].
    assert (S1 : forall x lx y, Qlt_bool (Qred (x / r) + Qred (lx / r)) (Qred (y / r)) = Qlt_bool (x + lx) y).
    { intros x lx y. rewrite (Qlt_bool_comp _ _ ((x + lx) / r) (y / r)); [apply (Qlt_bool_div r Hr)|rewrite !Qred_correct; unfold Qdiv; ring|apply Qred_correct]. }
    rewrite !S1. reflexivity.
  Qed.

  (* ---- the tempo clause ---- *)
  Lemma tempo_domb_rate rows init l : tempo_domb cf rows init l = true ->
    tempo_domb cf (map (tempo_rate r) rows) (Qred (init / r)) (map (bcs_sc r) l) = true.
  Proof.
    unfold tempo_domb. fold tbl. cbv zeta. intro H.
    apply andb_true_iff in H. destruct H as [H H10]. apply andb_true_iff in H. destruct H as [H H9].
    apply andb_true_iff in H. destruct H as [H H8]. apply andb_true_iff in H. destruct H as [H H7].
    apply andb_true_iff in H. destruct H as [H H6]. apply andb_true_iff in H. destruct H as [H H5].
    apply andb_true_iff in H. destruct H as [H H4]. apply andb_true_iff in H. destruct H as [H H3].
    apply andb_true_iff in H. destruct H as [H1 H2].
    assert (Nl : l <> []) by (intro E; subst l; discriminate).
    rewrite (domainb_sc r Hr), H1, (same_met_sc r), H2. cbn [andb].
    rewrite fb_map. cbn [bcs_sc bs_met]. rewrite H3. cbn [andb].
    rewrite bcos_of_rate, distinct_offsb_sc, H4. cbn [andb].
    rewrite fb_map.
    rewrite (fb_ext_in (fun x => Qlt_bool 0 (snd (fst (tempo_rate r x)))) (fun x => Qlt_bool 0 (snd (fst x)))).
    2:{ intros x _. unfold tempo_rate. cbn [fst snd]. rewrite (Qlt_bool_comp 0 (Qred (snd (fst x) * r)) 0 (snd (fst x) * r) (Qeq_refl _) (Qred_correct _)). apply (Qlt_bool_0_mul r Hr). }
    rewrite H5. cbn [andb].
    (* the millisecond form *)
    rewrite (from_bcs_sc r init l), (sort_bco_sc r Hr).
    destruct (from_bcs init l) as [bc|] eqn:Ef; [|discriminate]. cbn [option_map].
    apply (forallb2_eq bco_same bco_same_eq) in H6. subst bc.
    rewrite (forallb2_refl bco_same bco_same_refl'). cbn [andb].
    (* positions of the changes *)
    assert (G7 : dom_beats_posb tbl 0 (Qred (init / r)) (map (bcs_sc r) l) (map bs_snap (map (bcs_sc r) l))
                   (map bo_off (map (bco_sc r) (sort_by bco_lt (bcos_of rows)))) = true).
    { unfold dom_beats_posb, dom_posb in *. rewrite (domainb_sc r Hr), (same_met_sc r).
      rewrite map_map. cbn [bcs_sc bs_snap]. change (map (fun x => bs_snap x) l) with (map bs_snap l).
      rewrite (fb_ext_in (wf_query (map (bcs_sc r) l)) (wf_query l)) by (intros s _; apply wf_query_sc).
      rewrite (fb_ext_in (query_on_grid tbl (map (bcs_sc r) l)) (query_on_grid tbl l)) by (intros s _; apply query_on_grid_sc).
      rewrite (times_close_sc (map (time_of (Qred (init / r)) (map (bcs_sc r) l)) (map bs_snap l)) (map (time_of init l) (map bs_snap l))
                 (map bo_off (map (bco_sc r) (sort_by bco_lt (bcos_of rows)))) (map bo_off (sort_by bco_lt (bcos_of rows)))).
      - exact H7.
      - clear. induction (map bs_snap l) as [|s ss IH]; cbn [map]; constructor; [apply (time_of_sc r); apply Qred_correct|exact IH].
      - rewrite map_map. clear. induction (sort_by bco_lt (bcos_of rows)) as [|b bs IH]; cbn [map]; constructor; [cbn [bco_sc bo_off]; apply Qred_correct|exact IH]. }
    rewrite G7. cbn [andb].
    rewrite !map_map. cbn [bcs_sc bs_snap]. rewrite H8. cbn [andb].
    rewrite fb_map. cbn [bcs_sc bs_snap]. rewrite H9. cbn [andb].
    rewrite fb_map. rewrite (fb_ext_in _ (fun x : Q * Q * Q => time_okb cf init l (fst (fst x)))); [exact H10|].
    intros x _. unfold tempo_rate. cbn [fst snd]. apply (time_okb_sc init l _ Nl).
  Qed.

  (* ---- one chart ---- *)
  Lemma chart_domb_rate c0 c init l : l <> [] -> chart_domb cf c0 c init l = true ->
    chart_domb cf (sm_chart_rate r c0) (sm_chart_rate r c) (Qred (init / r)) (map (bcs_sc r) l) = true.
  Proof.
    intros Nl. unfold chart_domb, chart_common_domb. cbn [sm_chart_rate c_type c_desc c_diff c_radar c_bpms c_holds c_rolls].
    destruct (ref_keys (c_type c)) as [keys|]; [|discriminate]. destruct (get_keys cf (c_type c)) as [keys'|]; [|discriminate].
    intro H. apply andb_true_iff in H. destruct H as [H E2]. apply andb_true_iff in H. destruct H as [H E1].
    apply andb_true_iff in H. destruct H as [H C9]. apply andb_true_iff in H. destruct H as [H C8].
    apply andb_true_iff in H. destruct H as [H C7]. apply andb_true_iff in H. destruct H as [H C6].
    apply andb_true_iff in H. destruct H as [H C5]. rewrite H. cbn [andb].
    apply (forallb2_eq row_same row_same_eq) in C5. rewrite C5. rewrite (forallb2_refl row_same row_same_refl). cbn [andb].
    fold (sm_chart_rate r c). rewrite chart_events_rate.
    rewrite fb_map. rewrite (fb_ext_in _ (fun e : Q * Z * Z => (0 <=? snd (fst e))%Z && (snd (fst e) <? keys)%Z)) by (intros x _; reflexivity).
    rewrite C6. cbn [andb].
    rewrite <- map_app, fb_map.
    rewrite (fb_ext_in (fun x => Qlt_bool 0 (snd (long_rate r x))) (fun h : Q * Z * Q => Qlt_bool 0 (snd h))).
    2:{ intros h _. unfold long_rate. cbn [snd]. rewrite (Qlt_bool_comp 0 (Qred (snd h / r)) (0 / r) (snd h / r)); [apply (Qlt_bool_div r Hr)|unfold Qdiv; ring|apply Qred_correct]. }
    rewrite C7, longs_disjoint_rate, C8. cbn [andb].
    rewrite fb_map. rewrite (fb_ext_in _ (fun e : Q * Z * Z => time_okb cf init l (fst (fst e)))).
    2:{ intros e _. unfold ev_sc. cbn [fst snd]. apply (time_okb_sc init l _ Nl). }
    rewrite C9. cbn [andb].
    (* beats and placements are the same lists *)
    assert (EB : map (fun e : Q * Z * Z => (spec_beat (Qred (init / r)) (map (bcs_sc r) l) (fst (fst e)), snd (fst e))) (map ev_sc (chart_events cf c))
                 = map (fun e : Q * Z * Z => (spec_beat init l (fst (fst e)), snd (fst e))) (chart_events cf c)).
    { rewrite map_map. apply map_ext. intro e. unfold ev_sc. cbn [fst snd]. rewrite spec_beat_sc. reflexivity. }
    rewrite EB, E1. cbn [andb].
    assert (EP : spec_placed cf (Qred (init / r)) (map (bcs_sc r) l) (sm_chart_rate r c) = spec_placed cf init l c).
    { unfold spec_placed. rewrite chart_events_rate, map_map. apply map_ext. intro e. unfold ev_sc. cbn [fst snd]. rewrite spec_beat_sc. reflexivity. }
    rewrite EP. exact E2.
  Qed.

  (* closure of the exact write domain under rate *)
  Theorem c03_domb_gen_rate s : c03_domb_gen cf s = true -> c03_domb_gen cf (sm_set_rate r s) = true.
  Proof.
    unfold c03_domb_gen, c03_dom_with. cbn [sm_set_rate s_maps]. destruct (s_maps s) as [|c0 cs] eqn:Em; [discriminate|]. cbn [map].
    cbn [sm_chart_rate c_bpms]. destruct (tempo_script_of cf (c_bpms c0)) as [[init l]|] eqn:Et; [|discriminate].
    rewrite (tempo_script_rate (c_bpms c0) init l Et).
    intro H. apply andb_true_iff in H. destruct H as [H HC].
    unfold set_common_domb in *. cbn [sm_set_rate s_txt s_offset]. cbn [sm_chart_rate c_bpms].
    apply andb_true_iff in H. destruct H as [H S4]. apply andb_true_iff in H. destruct H as [H S3]. rewrite H. cbn [andb].
    rewrite (tempo_domb_rate (c_bpms c0) init l S3). cbn [andb].
    assert (Nl : l <> []).
    { unfold tempo_domb in S3. intro E. subst l. cbn in S3. discriminate. }
    destruct (s_offset s) as [o|]; [|discriminate]. apply Qeq_bool_iff in S4.
    assert (E4 : Qeq_bool (Qred (o / r)) (Qred (init / r)) = true) by (apply Qeq_bool_iff; rewrite !Qred_correct, S4; reflexivity).
    rewrite E4. cbn [andb].
    fold (sm_chart_rate r c0). change (sm_chart_rate r c0 :: map (sm_chart_rate r) cs) with (map (sm_chart_rate r) (c0 :: cs)).
    rewrite fb_map. rewrite forallb_forall in *. intros c I. apply (chart_domb_rate c0 c init l Nl). apply HC. exact I.
  Qed.
End CloseSM.

Theorem c03_domb_rate r s : 0 < r -> c03_domb s = true -> c03_domb (sm_set_rate r s) = true.
Proof. intros Hr. apply (c03_domb_gen_rate live_conf r Hr). Qed.
