(* C16: the constructors' model (items / from_dict / empty(n) / cls([])) yields exactly the declared fields. *)
From Coq Require Import ZArith QArith Qround List Bool.
From RV Require Import Base.PyNum Frame.Frame Lists.TimedList Lists.SeqSpec Proofs.TimedListProofs Corr.RunC16.
Import ListNotations.
Open Scope Q_scope.

Lemma zlist_eqb_refl l : zlist_eqb l l = true.
Proof. induction l as [|x l IH]; cbn; auto. rewrite Z.eqb_refl. exact IH. Qed.

Lemma abs_relabel c k l : abs_rows (mkFrame c (relabel k l)) = l.
Proof. unfold abs_rows; cbn [frows]. revert k. induction l as [|r l IH]; intros k; cbn; auto. rewrite IH. reflexivity. Qed.

Lemma abs_reset_drop f : abs_rows (reset_index true f) = abs_rows f /\ fcols (reset_index true f) = fcols f.
Proof. unfold reset_index. split; [apply abs_relabel|reflexivity]. Qed.

Lemma abs_const c (d : row) n : abs_rows (mkFrame c (map (fun _ : nat => (0%Z, d)) (seq 0 n))) = repeat d n.
Proof.
  unfold abs_rows; cbn [frows]. rewrite map_map. cbn [snd]. generalize 0%nat.
  induction n as [|n IH]; intros a; cbn [seq map repeat]; auto. rewrite IH. reflexivity.
Qed.

Lemma repeat_map_const (d : row) n : map (fun _ : nat => d) (seq 0 n) = repeat d n.
Proof. generalize 0%nat. induction n as [|n IH]; intros a; cbn [seq map repeat]; auto. rewrite IH. reflexivity. Qed.

(* the model of every constructor meets the constructor specification (declared fields exactly; empty(n): n default rows) *)
Theorem ctor_model_meets_spec kind declared defaults n items :
  ctor_spec kind declared defaults n items (ctor_model kind declared defaults n items) = true.
Proof.
  unfold ctor_spec, ctor_model. destruct (kind =? 2)%Z.
  - destruct (abs_reset_drop (mkFrame declared (map (fun _ : nat => (0%Z, defaults)) (seq 0 n)))) as [A B].
    rewrite A, B, abs_const, repeat_map_const. cbn [fcols]. rewrite zlist_eqb_refl. cbn [andb]. apply rows_eqb_refl.
  - cbn [fcols]. rewrite zlist_eqb_refl, abs_relabel. cbn [andb]. apply rows_eqb_refl.
Qed.
