(* C03 whole-file writer theorem, part 1: the chart body as a STREAM of non-'0' cells.
   denote_row / denote_rows of the reference semantics (SMSpec) are a fold [run] of one [step] per non-'0' cell;
   [run_stream]: on a stream sorted by (written beat, column) that consists of the cells of simple notes and of the
   head and tail cells of long notes with disjoint spans per column, the fold succeeds, leaves no head open and
   emits exactly one note per simple cell and one note per long note (head time, tail time - head time). *)
From Coq Require Import String ZArith QArith Qround Qabs List Bool Lia Lqa Sorting.Sorted Sorting.Permutation.
From RV Require Import Base.PyNum Timing.Snapper Timing.Snap Timing.TimingMap Timing.Reseat Timing.Integrate
  Formats.SMText Formats.SM Formats.SMSpec.
Import ListNotations.
Open Scope Q_scope.

Definition cellev := (Q * nat * Z)%type.          (* written beat, column, character (never '0') *)
Definition cbeat (x : cellev) : Q := fst (fst x).
Definition ccol (x : cellev) : nat := snd (fst x).
Definition cch (x : cellev) : Z := snd x.

Definition step (time : Q -> Q) (x : cellev) (st : openst * list dnote) : option (openst * list dnote) :=
  let op := fst st in let acc := snd st in
  let t := time (cbeat x) in let col := ccol x in let c := cch x in
  match lookup_sym c with
  | Some k => Some (op, mkDn k (Z.of_nat col) t 0 :: acc)
  | None =>
    match nth_error op col with
    | None => None
    | Some cur =>
      if (c =? ref_hold_head)%Z || (c =? ref_roll_head)%Z then
        match cur with
        | Some _ => None
        | None => Some (replace_at col (Some ((if (c =? ref_hold_head)%Z then KHold else KRoll), t)) op, acc)
        end
      else if (c =? ref_tail)%Z then
        match cur with
        | None => None
        | Some (k, t0) => Some (replace_at col None op, mkDn k (Z.of_nat col) t0 (Qred (t - t0)) :: acc)
        end
      else None
    end
  end.

Fixpoint run (time : Q -> Q) (S : list cellev) (st : openst * list dnote) : option (openst * list dnote) :=
  match S with
  | [] => Some st
  | x :: S' => match step time x st with Some st' => run time S' st' | None => None end
  end.

(* the non-'0' cells of a row, with their columns *)
Fixpoint row_cells (row : text) (col : nat) : list (nat * Z) :=
  match row with
  | [] => []
  | c :: row' => if (c =? 48)%Z then row_cells row' (S col) else (col, c) :: row_cells row' (S col)
  end.

(* strict order of the stream: by written beat, then by column *)
Definition clt (x y : cellev) : Prop := cbeat x < cbeat y \/ (cbeat x == cbeat y /\ (ccol x < ccol y)%nat).

(* a long note as written: kind (KHold / KRoll), column, written beat of the head and of the tail *)
Record lnote := mkLn { ln_kind : kind; ln_col : nat; ln_hb : Q; ln_tb : Q }.
Definition head_char (k : kind) : Z := match k with KRoll => ref_roll_head | _ => ref_hold_head end.
Definition ln_head (a : lnote) : cellev := (ln_hb a, ln_col a, head_char (ln_kind a)).
Definition ln_tail (a : lnote) : cellev := (ln_tb a, ln_col a, ref_tail).
Definition ln_note (time : Q -> Q) (a : lnote) : dnote :=
  mkDn (ln_kind a) (Z.of_nat (ln_col a)) (time (ln_hb a)) (Qred (time (ln_tb a) - time (ln_hb a))).
Definition simple_note (time : Q -> Q) (k : kind) (x : cellev) : dnote := mkDn k (Z.of_nat (ccol x)) (time (cbeat x)) 0.

(* ================= proofs ================= *)
From RV Require Import Proofs.SMWriteProofs.
From Coq Require Import Morphisms.

Lemma denote_row_run (time : Q -> Q) (b : Q) (row : text) (col : nat) (op : openst) (acc : list dnote) :
  denote_row row col (time b) op acc
  = run time (map (fun cc : nat * Z => (b, fst cc, snd cc)) (row_cells row col)) (op, acc).
Proof.
  revert col op acc. induction row as [|c row IH]; intros col op acc; [reflexivity|].
  cbn [denote_row row_cells]. destruct (c =? 48)%Z; [apply IH|].
  cbn [map run]. unfold step. cbn [fst snd cbeat ccol cch].
  destruct (lookup_sym c); [apply IH|].
  destruct (nth_error op col) as [cur|]; [|reflexivity].
  destruct ((c =? ref_hold_head)%Z || (c =? ref_roll_head)%Z).
  - destruct cur; [reflexivity|apply IH].
  - destruct (c =? ref_tail)%Z; [|reflexivity]. destruct cur as [[k t0]|]; [apply IH|reflexivity].
Qed.

Lemma run_app time S1 S2 st :
  run time (S1 ++ S2) st = match run time S1 st with Some st' => run time S2 st' | None => None end.
Proof.
  revert st. induction S1 as [|x S1 IH]; intros st; [reflexivity|].
  cbn [app run]. destruct (step time x st); [apply IH|reflexivity].
Qed.

(* ---- permutations of concatenations ---- *)
Lemma perm_bring {A} (x l r r' : list A) : Permutation r (x ++ r') -> Permutation l r' -> Permutation (x ++ l) r.
Proof. intros H1 H2. rewrite H1. apply Permutation_app_head. exact H2. Qed.
Lemma perm_pad {A} (l r : list A) : Permutation (l ++ []) (r ++ []) -> Permutation l r.
Proof. rewrite !app_nil_r. auto. Qed.
Ltac pfind x :=
  lazymatch goal with
  | |- Permutation (x ++ _) _ => apply Permutation_refl
  | |- Permutation (_ ++ _) _ =>
      eapply Permutation_trans; [apply Permutation_app_head; pfind x | apply Permutation_app_swap_app]
  end.
Ltac psolve_go :=
  lazymatch goal with
  | |- Permutation [] [] => constructor
  | |- Permutation (?x ++ _) _ => eapply perm_bring; [pfind x | psolve_go]
  end.
Ltac pnorm :=
  rewrite ?map_app; cbn [map]; rewrite <- ?app_comm_cons;
  repeat match goal with
         | |- context [?a :: ?l] => lazymatch l with [] => fail | _ => change (a :: l) with ([a] ++ l) end
         end;
  rewrite <- ?app_assoc.
(* Permutation goals between concatenations of the same segments *)
Ltac psolve := apply perm_pad; pnorm; psolve_go.

Lemma in_perm {A} (a : A) l : In a l -> exists l', Permutation l (a :: l').
Proof. intros H. apply in_split in H as (l1 & l2 & ->). exists (l1 ++ l2). symmetry. apply Permutation_middle. Qed.

Lemma FOP_perm {A} (R : A -> A -> Prop) (Rs : forall a b, R a b -> R b a) l l' :
  Permutation l l' -> ForallOrdPairs R l -> ForallOrdPairs R l'.
Proof.
  induction 1 as [|x l l' Hp IH|x y l|l l' l'' _ IH1 _ IH2]; intros H; auto.
  - inversion H as [|? ? Hf Ho]; subst. constructor; [rewrite <- Hp; exact Hf|auto].
  - inversion H as [|? ? Hf Ho]; subst. inversion Ho as [|? ? Hf' Ho']; subst. inversion Hf as [|? ? Hyx Hf'']; subst.
    constructor; [constructor; auto|constructor; auto].
Qed.

Lemma FOP_app_in {A} (R : A -> A -> Prop) l1 l2 a b :
  ForallOrdPairs R (l1 ++ l2) -> In a l1 -> In b l2 -> R a b.
Proof.
  induction l1 as [|y l1 IH]; intros H Ha Hb; [destruct Ha|].
  cbn [app] in H. inversion H as [|? ? Hf Ho]; subst. destruct Ha as [->|Ha]; [|auto].
  rewrite Forall_forall in Hf. apply Hf. apply in_or_app. right. exact Hb.
Qed.

(* ---- the invariant of the fold over a sorted stream ---- *)
Definition ln_disj (a b : lnote) : Prop := ln_col a = ln_col b -> ln_tb a < ln_hb b \/ ln_tb b < ln_hb a.
Definition ln_ok (a : lnote) : Prop := (ln_kind a = KHold \/ ln_kind a = KRoll) /\ ln_hb a < ln_tb a.
Definition open_ok (time : Q -> Q) (op : openst) (S : list cellev) (a : lnote) : Prop :=
  nth_error op (ln_col a) = Some (Some (ln_kind a, time (ln_hb a)))
  /\ Forall (fun x => ccol x = ln_col a -> ln_hb a < cbeat x) S.

Lemma ln_disj_sym a b : ln_disj a b -> ln_disj b a.
Proof. unfold ln_disj. intros H E. symmetry in E. destruct (H E); auto. Qed.

Lemma open_ok_tail time op x S a : open_ok time op (x :: S) a -> open_ok time op S a.
Proof. intros [H1 H2]. inversion H2; subst. split; auto. Qed.

Lemma step_simple time x k op acc :
  lookup_sym (cch x) = Some k -> step time x (op, acc) = Some (op, simple_note time k x :: acc).
Proof. intros H. unfold step. cbn [fst snd]. rewrite H. reflexivity. Qed.

Lemma step_head time a op acc :
  ln_ok a -> nth_error op (ln_col a) = Some None ->
  step time (ln_head a) (op, acc) = Some (replace_at (ln_col a) (Some (ln_kind a, time (ln_hb a))) op, acc).
Proof.
  intros [[E|E] _] H; unfold step, ln_head; cbn [fst snd cch ccol cbeat]; rewrite E; cbn [head_char];
    [change (lookup_sym ref_hold_head) with (@None kind)|change (lookup_sym ref_roll_head) with (@None kind)];
    rewrite H; reflexivity.
Qed.

Lemma step_tail time a op acc :
  nth_error op (ln_col a) = Some (Some (ln_kind a, time (ln_hb a))) ->
  step time (ln_tail a) (op, acc) = Some (replace_at (ln_col a) None op, ln_note time a :: acc).
Proof.
  intros H. unfold step, ln_tail. cbn [fst snd cch ccol cbeat].
  change (lookup_sym ref_tail) with (@None kind). rewrite H. reflexivity.
Qed.

Lemma head_not_tail a b : ln_head a <> ln_tail b.
Proof. unfold ln_head, ln_tail. intros E. inversion E as [[E1 E2 E3]]. destruct (ln_kind a); discriminate E3. Qed.

Lemma FOP_cons_inv {A} (R : A -> A -> Prop) a l : ForallOrdPairs R (a :: l) -> Forall (R a) l /\ ForallOrdPairs R l.
Proof. intros H. inversion H; subst. split; assumption. Qed.

Lemma run_gen time keys : forall S op acc simp lns opens,
  StronglySorted clt S ->
  Permutation S (map snd simp ++ map ln_head lns ++ map ln_tail lns ++ map ln_tail opens) ->
  Forall (fun kx : kind * cellev => lookup_sym (cch (snd kx)) = Some (fst kx)) simp ->
  Forall ln_ok lns -> Forall ln_ok opens ->
  ForallOrdPairs ln_disj (opens ++ lns) ->
  Forall (open_ok time op S) opens ->
  length op = keys ->
  (forall c, (c < keys)%nat -> (forall a, In a opens -> ln_col a <> c) -> nth_error op c = Some None) ->
  Forall (fun x => (ccol x < keys)%nat) S ->
  exists op' acc', run time S (op, acc) = Some (op', acc') /\ Forall (fun o => o = None) op'
    /\ Permutation acc' (map (fun kx : kind * cellev => simple_note time (fst kx) (snd kx)) simp
                         ++ map (ln_note time) lns ++ map (ln_note time) opens ++ acc).
Proof.
  induction S as [|x S' IH]; intros op acc simp lns opens Hs Hp Hsimp Hlns Hopens Hd Hop Hlen Hfree Hk.
  - apply Permutation_nil in Hp. apply app_eq_nil in Hp as [E1 Hp]. apply app_eq_nil in Hp as [E2 Hp].
    apply app_eq_nil in Hp as [_ E3]. apply map_eq_nil in E1, E2, E3. subst simp lns opens.
    exists op, acc. split; [reflexivity|]. split; [|reflexivity].
    apply Forall_forall. intros o Ho. apply In_nth_error in Ho as [n Hn].
    assert (n < length op)%nat by (apply nth_error_Some; congruence).
    rewrite (Hfree n) in Hn; [congruence|lia|intros a []].
  - apply StronglySorted_inv in Hs as [Hs' Hx]. apply Forall_cons_iff in Hk as [Hkx Hk'].
    assert (Hin : In x (map snd simp ++ map ln_head lns ++ map ln_tail lns ++ map ln_tail opens))
      by (eapply Permutation_in; [exact Hp|left; reflexivity]).
    assert (Hmem : forall y, In y (map snd simp ++ map ln_head lns ++ map ln_tail lns ++ map ln_tail opens) ->
                             y = x \/ (In y S' /\ clt x y)).
    { intros y Hy. apply (Permutation_in _ (Permutation_sym Hp)) in Hy. destruct Hy as [<-|Hy]; [left; reflexivity|].
      right. split; [exact Hy|]. rewrite Forall_forall in Hx. auto. }
    apply in_app_or in Hin as [Hin|Hin]; [|apply in_app_or in Hin as [Hin|Hin]; [|apply in_app_or in Hin as [Hin|Hin]]].
    + (* a simple cell *)
      apply in_map_iff in Hin as (kx & Ekx & Hin). apply in_perm in Hin as [simp' Hps]. subst x.
      clear Hmem. rewrite Hps in Hp, Hsimp. apply Forall_cons_iff in Hsimp as [Hl Hsimp'].
      destruct (IH op (simple_note time (fst kx) (snd kx) :: acc) simp' lns opens) as (op' & acc' & Hr & Hn & Hperm); auto.
      * apply Permutation_cons_inv with (a := snd kx). eapply Permutation_trans; [exact Hp|]. psolve.
      * eapply Forall_impl; [|exact Hop]. intros a. apply open_ok_tail.
      * exists op', acc'. split; [|split; [exact Hn|]].
        -- cbn [run]. rewrite (step_simple _ _ _ _ _ Hl). exact Hr.
        -- eapply Permutation_trans; [exact Hperm|]. rewrite Hps. psolve.
    + (* the head of a long note *)
      apply in_map_iff in Hin as (a & Ea & Hin). apply in_perm in Hin as [lns' Hpl]. subst x.
      assert (Hcol : forall a', In a' opens -> ln_col a' <> ln_col a).
      { intros a' Hin' Ec.
        assert (Hda : ln_disj a' a).
        { apply (FOP_app_in _ _ _ _ _ Hd Hin'). apply (Permutation_in _ (Permutation_sym Hpl)). left. reflexivity. }
        assert (Hoa : ln_ok a).
        { rewrite Forall_forall in Hlns. apply Hlns. apply (Permutation_in _ (Permutation_sym Hpl)). left. reflexivity. }
        rewrite Forall_forall in Hop. destruct (Hop a' Hin') as [_ Hb]. apply Forall_cons_iff in Hb as [Hb1 _].
        unfold ccol, cbeat, ln_head in Hb1. cbn [fst snd] in Hb1. specialize (Hb1 (eq_sym Ec)).
        destruct (Hmem (ln_tail a')) as [E|[_ Hc]].
        { apply in_or_app. right. apply in_or_app. right. apply in_or_app. right. apply in_map. exact Hin'. }
        { symmetry in E. exact (head_not_tail _ _ E). }
        unfold clt, cbeat, ccol, ln_head, ln_tail in Hc. cbn [fst snd] in Hc.
        destruct Hoa as [_ Hoa]. destruct (Hda Ec); destruct Hc as [Hc|[Hc Hc']]; try lia; lra. }
      rewrite Hpl in Hp, Hlns. apply Forall_cons_iff in Hlns as [Hoa Hlns'].
      assert (Hnone : nth_error op (ln_col a) = Some None) by (apply Hfree; auto).
      destruct (IH (replace_at (ln_col a) (Some (ln_kind a, time (ln_hb a))) op) acc simp lns' (a :: opens))
        as (op' & acc' & Hr & Hn & Hperm); auto.
      * apply Permutation_cons_inv with (a := ln_head a). eapply Permutation_trans; [exact Hp|]. psolve.
      * apply (FOP_perm _ ln_disj_sym (opens ++ lns)); [|exact Hd]. rewrite Hpl. psolve.
      * constructor.
        -- split; [apply replace_at_same; unfold ccol, ln_head in Hkx; cbn [fst snd] in Hkx; lia|].
           eapply Forall_impl; [|exact Hx]. intros y Hc Ey.
           unfold clt, cbeat, ccol, ln_head in *. cbn [fst snd] in *. destruct Hc as [Hc|[Hc Hc']]; [exact Hc|lia].
        -- rewrite Forall_forall in Hop |- *. intros a' Hin'. destruct (open_ok_tail _ _ _ _ _ (Hop a' Hin')) as [H1 H2].
           split; [|exact H2]. rewrite replace_at_other; [exact H1|]. intro E. exact (Hcol a' Hin' (eq_sym E)).
      * rewrite replace_at_length. exact Hlen.
      * intros c Hc Hno. rewrite replace_at_other; [|apply (Hno a); left; reflexivity].
        apply Hfree; [exact Hc|]. intros a0 Hin0. apply Hno. right. exact Hin0.
      * exists op', acc'. split; [|split; [exact Hn|]].
        -- cbn [run]. rewrite (step_head _ _ _ _ Hoa Hnone). exact Hr.
        -- eapply Permutation_trans; [exact Hperm|]. rewrite Hpl. psolve.
    + (* the tail of a note whose head is still to come: impossible *)
      exfalso. apply in_map_iff in Hin as (a & Ea & Hin). subst x.
      rewrite Forall_forall in Hlns. destruct (Hlns a Hin) as [_ Hlt].
      destruct (Hmem (ln_head a)) as [E|[_ Hc]].
      { apply in_or_app. right. apply in_or_app. left. apply in_map. exact Hin. }
      { exact (head_not_tail _ _ E). }
      unfold clt, cbeat, ccol, ln_head, ln_tail in Hc. cbn [fst snd] in Hc. destruct Hc as [Hc|[Hc Hc']]; [lra|lia].
    + (* the tail of an open note *)
      apply in_map_iff in Hin as (a & Ea & Hin). apply in_perm in Hin as [opens' Hpo]. subst x.
      assert (Hmem' : forall a', In a' opens' -> ln_tail a' = ln_tail a \/ clt (ln_tail a) (ln_tail a')).
      { intros a' Hin'. destruct (Hmem (ln_tail a')) as [E|[_ Hc]]; auto.
        apply in_or_app. right. apply in_or_app. right. apply in_or_app. right. apply in_map.
        apply (Permutation_in _ (Permutation_sym Hpo)). right. exact Hin'. }
      clear Hmem. apply (FOP_perm _ ln_disj_sym _ ((a :: opens') ++ lns)) in Hd; [|apply Permutation_app_tail; exact Hpo].
      rewrite Hpo in Hp, Hopens, Hop.
      apply Forall_cons_iff in Hop as [[Hnth HS] Hop']. apply Forall_cons_iff in Hopens as [Hoa Hopens'].
      cbn [app] in Hd. apply FOP_cons_inv in Hd as [Hda Hd'].
      assert (Hcol : forall a', In a' opens' -> ln_col a' <> ln_col a).
      { intros a' Hin' Ec. rewrite Forall_forall in Hda, Hop', Hopens'.
        specialize (Hda a' (in_or_app _ _ _ (or_introl Hin'))). destruct (Hop' a' Hin') as [_ Hb].
        destruct (Hopens' a' Hin') as [_ Hlt']. destruct Hoa as [_ Hlt].
        apply Forall_cons_iff in Hb as [Hb1 _]. unfold ccol, cbeat, ln_tail in Hb1. cbn [fst snd] in Hb1.
        specialize (Hb1 (eq_sym Ec)).
        destruct (Hmem' a' Hin') as [E|Hc].
        - unfold ln_tail in E. inversion E as [[E1 E2]]. assert (Eq : ln_tb a' == ln_tb a) by (rewrite E1; reflexivity).
          destruct (Hda (eq_sym Ec)); lra.
        - unfold clt, cbeat, ccol, ln_tail in Hc. cbn [fst snd] in Hc.
          destruct (Hda (eq_sym Ec)); destruct Hc as [Hc|[Hc Hc']]; try lia; lra. }
      assert (Hca : (ln_col a < keys)%nat) by exact Hkx.
      destruct (IH (replace_at (ln_col a) None op) (ln_note time a :: acc) simp lns opens')
        as (op' & acc' & Hr & Hn & Hperm); auto.
      * apply Permutation_cons_inv with (a := ln_tail a). eapply Permutation_trans; [exact Hp|]. psolve.
      * rewrite Forall_forall in Hop' |- *. intros a' Hin'. destruct (open_ok_tail _ _ _ _ _ (Hop' a' Hin')) as [H1 H2].
        split; [|exact H2]. rewrite replace_at_other; [exact H1|]. intro E. exact (Hcol a' Hin' (eq_sym E)).
      * rewrite replace_at_length. exact Hlen.
      * intros c Hc Hno. destruct (Nat.eq_dec (ln_col a) c) as [<-|Hne].
        -- apply replace_at_same. lia.
        -- rewrite replace_at_other by exact Hne. apply Hfree; [exact Hc|]. intros a0 Hin0.
           apply (Permutation_in _ Hpo) in Hin0. destruct Hin0 as [<-|Hin0]; auto.
      * exists op', acc'. split; [|split; [exact Hn|]].
        -- cbn [run]. rewrite (step_tail _ _ _ _ Hnth). exact Hr.
        -- eapply Permutation_trans; [exact Hperm|]. rewrite Hpo. psolve.
Qed.

Theorem run_stream (time : Q -> Q) (keys : nat) (S : list cellev) (simp : list (kind * cellev)) (lns : list lnote) :
  StronglySorted clt S ->
  Permutation S (map snd simp ++ map ln_head lns ++ map ln_tail lns) ->
  Forall (fun kx : kind * cellev => lookup_sym (cch (snd kx)) = Some (fst kx)) simp ->
  Forall (fun a => (ln_kind a = KHold \/ ln_kind a = KRoll) /\ ln_hb a < ln_tb a) lns ->
  ForallOrdPairs (fun a b => ln_col a = ln_col b -> ln_tb a < ln_hb b \/ ln_tb b < ln_hb a) lns ->
  Forall (fun x => (ccol x < keys)%nat) S ->
  exists op acc, run time S (repeat None keys, []) = Some (op, acc)
     /\ Forall (fun o => o = None) op
     /\ Permutation acc (map (fun kx : kind * cellev => simple_note time (fst kx) (snd kx)) simp ++ map (ln_note time) lns).
Proof.
  intros Hs Hp Hsimp Hlns Hd Hk.
  destruct (run_gen time keys S (repeat None keys) [] simp lns []) as (op & acc & Hr & Hn & Hperm); auto.
  - cbn [map]. rewrite !app_nil_r. exact Hp.
  - apply repeat_length.
  - intros c Hc _. apply nth_error_repeat. exact Hc.
  - exists op, acc. split; [exact Hr|]. split; [exact Hn|]. cbn [map app] in Hperm. rewrite !app_nil_r in Hperm. exact Hperm.
Qed.
