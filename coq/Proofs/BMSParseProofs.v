(* C04, text level: the reader's line loop (classify_lines, _read_file_header, the pair loop of _read_notes) collects,
   on every text of the format's domain (wf_bms_lines), exactly the header table and the object list the format assigns
   to the text (headers_of / objs_of_line of Formats/BMSSpec.v).  This closes clause (i) of read_theorem_domain:
     layout_ok /\ wf_bms_lines /\ read_guards  ->  read_theorem_domain            (bms_text_in_domain)  *)
From Coq Require Import ZArith QArith Qround Qabs List Bool Lia Lqa Sorting.Permutation Sorting.Sorted SetoidList.
From RV Require Import Base.PyNum Timing.Snapper Timing.Snap Timing.TimingMap Timing.Reseat Timing.Integrate Timing.Domain
  Formats.BMSText Formats.BMS Formats.BMSSpec Proofs.SnapperProofs Proofs.TimingProofs Proofs.RederiveProofs
  Proofs.TimingProofs2 Proofs.BMSProofs Proofs.BMSDenoteProofs.
Import ListNotations.
Open Scope Z_scope.

Local Arguments text_eqb : simpl never.
Local Arguments Z.mul : simpl never.
Local Arguments Z.add : simpl never.
Local Arguments Z.sub : simpl never.

(* ================================================================ A. characters and splitting ================================================================ *)
Lemma text_eqb_true_iff a b : text_eqb a b = true <-> a = b.
Proof. split; [apply text_eqb_eq|intros ->; apply text_eqb_refl]. Qed.
Lemma text_eqb_false_iff a b : text_eqb a b = false <-> a <> b.
Proof.
  split.
  - intros H E. subst. rewrite text_eqb_refl in H. discriminate.
  - apply text_eqb_neq.
Qed.

Lemma b36_val_not_sep c v : b36_val c = Some v -> c <> 32 /\ c <> 58.
Proof.
  unfold b36_val, is_digit, is_upper, is_lower. intro H.
  destruct ((48 <=? c) && (c <=? 57)) eqn:D.
  { apply andb_true_iff in D. destruct D as [D1 D2]. apply Z.leb_le in D1, D2. lia. }
  destruct ((65 <=? c) && (c <=? 90)) eqn:U.
  { apply andb_true_iff in U. destruct U as [D1 D2]. apply Z.leb_le in D1, D2. lia. }
  destruct ((97 <=? c) && (c <=? 122)) eqn:W; [|discriminate].
  apply andb_true_iff in W. destruct W as [D1 D2]. apply Z.leb_le in D1, D2. lia.
Qed.

Lemma is_digit_not_sep c : is_digit c = true -> c <> 32 /\ c <> 58.
Proof. unfold is_digit. intro D. apply andb_true_iff in D. destruct D as [D1 D2]. apply Z.leb_le in D1, D2. lia. Qed.

Lemma is_b36_pair_chars t : is_b36_pair t = true -> exists x y, t = [x; y] /\ x <> 32 /\ x <> 58 /\ y <> 32 /\ y <> 58.
Proof.
  unfold is_b36_pair, b36_parse2. destruct t as [|x [|y [|z r]]]; try discriminate.
  destruct (b36_val x) eqn:X; [|discriminate]. destruct (b36_val y) eqn:Y; [|discriminate]. intros _.
  apply b36_val_not_sep in X, Y. exists x, y. tauto.
Qed.

Definition no_sep (t : text) : Prop := Forall (fun c => c <> 32 /\ c <> 58) t.

(* data made of base-36 pairs holds neither blanks nor colons, and splits back into its pairs *)
Lemma pairs_no_sep : forall n data, length data = (2 * n)%nat -> forallb is_b36_pair (chunks2 data) = true ->
  no_sep data /\ Forall (fun p => length p = 2%nat) (chunks2 data) /\ length (chunks2 data) = n.
Proof.
  induction n as [|n IH]; intros data L H.
  - destruct data; [|discriminate]. repeat split; constructor.
  - destruct data as [|x [|y r]]; try (cbn in L; lia). cbn [chunks2 forallb] in H.
    apply andb_true_iff in H. destruct H as [H1 H2].
    destruct (is_b36_pair_chars _ H1) as [x' [y' [E [A [B [C D]]]]]]. inversion E; subst x' y'.
    destruct (IH r) as [N [F Len]]; [cbn in L; lia|exact H2|].
    cbn [chunks2]. repeat split.
    + constructor; [tauto|]. constructor; [tauto|]. exact N.
    + constructor; [reflexivity|exact F].
    + cbn [length]. rewrite Len. reflexivity.
Qed.

Lemma split_first_none c t : ~ In c t -> split_first c t = (t, None).
Proof.
  induction t as [|x t IH]; intro N; cbn; [reflexivity|].
  destruct (x =? c) eqn:E; [apply Z.eqb_eq in E; subst; exfalso; apply N; left; reflexivity|].
  rewrite IH; [reflexivity|]. intro; apply N; right; assumption.
Qed.
Lemma split_all_none c t : ~ In c t -> split_all c t = [t].
Proof.
  induction t as [|x t IH]; intro N; cbn; [reflexivity|].
  rewrite IH by (intro; apply N; right; assumption).
  destruct (x =? c) eqn:E; [apply Z.eqb_eq in E; subst; exfalso; apply N; left; reflexivity|reflexivity].
Qed.
Lemma split_all_one c pre post : ~ In c pre -> ~ In c post -> split_all c (pre ++ c :: post) = [pre; post].
Proof.
  intros Np Nq. induction pre as [|x pre IH]; cbn.
  - rewrite (split_all_none c post Nq). rewrite Z.eqb_refl. reflexivity.
  - rewrite IH by (intro; apply Np; right; assumption).
    destruct (x =? c) eqn:E; [apply Z.eqb_eq in E; subst; exfalso; apply Np; left; reflexivity|reflexivity].
Qed.
Lemma no_sep_not_in t c : no_sep t -> c = 32 \/ c = 58 -> ~ In c t.
Proof. intros H Hc Hin. unfold no_sep in H. rewrite Forall_forall in H. specialize (H c Hin). lia. Qed.

(* ================================================================ B. one line ================================================================ *)
(* what a (stripped) line of the domain contributes *)
Definition entry_of_line (t : text) : list note_entry :=
  match data_line t with Some (m, ch, data) => [mkNE (slice 1 4 t) ch data] | None => [] end.
Definition header_of_line (t : text) : list (text * text) :=
  match header_line t with Some kv => [kv] | None => [] end.
Definition set_all (kvs : list (text * text)) (hdr : header) : header :=
  fold_left (fun h kv => dict_set (fst kv) (snd kv) h) kvs hdr.

Lemma data_line_digit t m ch data : data_line t = Some (m, ch, data) ->
  exists a b c x y, t = 35 :: a :: b :: c :: x :: y :: 58 :: data /\ ch = [x; y]
    /\ is_digit a = true /\ is_digit b = true /\ is_digit c = true
    /\ m = 100 * (a - 48) + 10 * (b - 48) + (c - 48).
Proof.
  unfold data_line. destruct t as [|h [|a [|b [|c [|x [|y [|z data']]]]]]]; try discriminate.
  - destruct h as [|p|p]; try discriminate. repeat (destruct p; try discriminate).
  - destruct h as [|p|p]; try discriminate. repeat (destruct p; try discriminate).
  - destruct h as [|p|p]; try discriminate. repeat (destruct p; try discriminate).
  - destruct h as [|p|p]; try discriminate. repeat (destruct p; try discriminate).
  - destruct h as [|p|p]; try discriminate. repeat (destruct p; try discriminate).
  - destruct h as [|p|p]; try discriminate. repeat (destruct p; try discriminate).
  - intro H. destruct (h =? 35) eqn:Eh.
    2:{ exfalso. destruct h as [|p|p]; try discriminate. repeat (destruct p; try discriminate). }
    apply Z.eqb_eq in Eh. subst h.
    destruct (z =? 58) eqn:Ez.
    2:{ exfalso. destruct z as [|p|p]; try discriminate. repeat (destruct p; try discriminate). }
    apply Z.eqb_eq in Ez. subst z.
    destruct (is_digit a && is_digit b && is_digit c) eqn:D; [|discriminate].
    apply andb_true_iff in D. destruct D as [D Dc]. apply andb_true_iff in D. destruct D as [Da Db].
    inversion H; subst. exists a, b, c, x, y. repeat split; auto.
Qed.

Lemma split_first_none_inv c : forall t a, split_first c t = (a, None) -> a = t.
Proof.
  induction t as [|x t IH]; intros a H; cbn in H.
  - inversion H; reflexivity.
  - destruct (x =? c); [discriminate|]. destruct (split_first c t) as [a' b'] eqn:E. inversion H; subst.
    f_equal. apply IH. reflexivity.
Qed.

Lemma data_line_ok_facts t : data_line_ok t = true ->
  exists a b c x y data n, t = 35 :: a :: b :: c :: x :: y :: 58 :: data
    /\ data_line t = Some (100 * (a - 48) + 10 * (b - 48) + (c - 48), [x; y], data)
    /\ is_digit a = true /\ is_digit b = true /\ is_digit c = true
    /\ is_b36_pair [x; y] = true /\ length data = (2 * S n)%nat
    /\ forallb is_b36_pair (chunks2 data) = true.
Proof.
  unfold data_line_ok. destruct (data_line t) as [[[m ch] data]|] eqn:E; [|discriminate]. intro H.
  destruct (data_line_digit _ _ _ _ E) as [a [b [c [x [y [Et [Ech [Da [Db [Dc Em]]]]]]]]]].
  apply andb_true_iff in H. destruct H as [H H4]. apply andb_true_iff in H. destruct H as [H H3].
  apply andb_true_iff in H. destruct H as [H1 H2].
  apply Nat.even_spec in H1. destruct H1 as [n Hn]. apply negb_true_iff in H2. apply Nat.eqb_neq in H2.
  destruct n as [|n]; [lia|]. subst ch m.
  exists a, b, c, x, y, data, n. repeat split; auto.
Qed.

Lemma classify_line_wf hdr notes t : line_kind_ok t = true ->
  classify_line (hdr, notes) t = Some (set_all (header_of_line t) hdr, entry_of_line t ++ notes).
Proof.
  intro K. destruct t as [|h r].
  { reflexivity. }
  destruct (h =? 35) eqn:Eh.
  2:{ (* not a '#'-line *)
      assert (D : data_line (h :: r) = None).
      { destruct (data_line (h :: r)) as [[[m ch] data]|] eqn:E; [|reflexivity].
        destruct (data_line_digit _ _ _ _ E) as [a [b [c [x [y [Et _]]]]]]. inversion Et; subst. discriminate. }
      assert (Hd : header_line (h :: r) = None).
      { unfold header_line. destruct h as [|p|p]; try reflexivity. repeat (destruct p; try reflexivity). discriminate. }
      unfold classify_line, entry_of_line, header_of_line. rewrite D, Hd. cbn [starts_with].
      rewrite Z.eqb_sym, Eh. reflexivity. }
  apply Z.eqb_eq in Eh. subst h. destruct r as [|c r]; [discriminate|].
  cbn [line_kind_ok] in K. destruct (is_digit c) eqn:Dc.
  - (* a data line *)
    destruct (data_line_ok_facts _ K) as [a [b [c' [x [y [data [n [Et [Ed [Da [Db [Dc' [Bp [Len Pr]]]]]]]]]]]]]].
    destruct (pairs_no_sep _ _ Len Pr) as [Nd _].
    destruct (is_b36_pair_chars _ Bp) as [x' [y' [E2 [X1 [X2 [Y1 Y2]]]]]]. inversion E2; subst x' y'.
    pose proof (is_digit_not_sep _ Da) as Sa. pose proof (is_digit_not_sep _ Db) as Sb. pose proof (is_digit_not_sep _ Dc') as Sc.
    unfold entry_of_line, header_of_line, header_line. rewrite Et in *. rewrite Ed. inversion Et; subst c r.
    unfold classify_line. cbn [starts_with]. rewrite Z.eqb_refl. cbn [andb].
    assert (N32 : ~ In 32 (35 :: a :: b :: c' :: x :: y :: 58 :: data)).
    { intro I. cbn [In] in I. destruct I as [I|[I|[I|[I|[I|[I|[I|I]]]]]]]; try lia.
      revert I. apply no_sep_not_in; [exact Nd|left; reflexivity]. }
    rewrite (split_first_none 32 _ N32). cbn [nth_error]. rewrite Da.
    change (35 :: a :: b :: c' :: x :: y :: 58 :: data) with ([35; a; b; c'; x; y] ++ 58 :: data).
    rewrite split_all_one.
    + reflexivity.
    + intro I. cbn [In] in I. destruct I as [I|[I|[I|[I|[I|[I|I]]]]]]; try lia.
    + apply no_sep_not_in; [exact Nd|right; reflexivity].
  - (* a header line, filled or not *)
    assert (D : data_line (35 :: c :: r) = None).
    { destruct (data_line (35 :: c :: r)) as [[[m ch] data]|] eqn:E; [|reflexivity].
      destruct (data_line_digit _ _ _ _ E) as [a [b [c' [x [y [Et [_ [Da _]]]]]]]]. inversion Et; subst. congruence. }
    unfold entry_of_line, header_of_line, header_line. rewrite D.
    unfold classify_line. cbn [starts_with]. rewrite Z.eqb_refl. cbn [andb].
    assert (S35 : split_first 32 (35 :: c :: r) = let '(a, b) := split_first 32 (c :: r) in (35 :: a, b)) by reflexivity.
    rewrite S35. clear S35.
    destruct (split_first 32 (c :: r)) as [k [v|]] eqn:E.
    + reflexivity.
    + apply split_first_none_inv in E. subst k. cbn [nth_error]. rewrite Dc. reflexivity.
Qed.

(* ================================================================ C. the line loop ================================================================ *)
Definition entries_of (lines : list text) : list note_entry := flat_map entry_of_line lines.

Lemma headers_of_flat lines : headers_of lines = flat_map header_of_line lines.
Proof. reflexivity. Qed.

Lemma set_all_app a b hdr : set_all (a ++ b) hdr = set_all b (set_all a hdr).
Proof. unfold set_all. apply fold_left_app. Qed.

Definition line_ok (l : text) : Prop := strip l = l /\ line_kind_ok l = true.

Lemma classify_lines_wf : forall lines hdr notes, Forall line_ok lines ->
  classify_lines (hdr, notes) lines = Some (set_all (headers_of lines) hdr, rev (entries_of lines) ++ notes).
Proof.
  induction lines as [|l ls IH]; intros hdr notes F; [reflexivity|].
  inversion F as [|? ? [Hs Hk] F']; subst. cbn [classify_lines]. rewrite Hs.
  rewrite (classify_line_wf hdr notes l Hk). rewrite (IH _ _ F').
  change (headers_of (l :: ls)) with (header_of_line l ++ headers_of ls). rewrite set_all_app.
  change (entries_of (l :: ls)) with (entry_of_line l ++ entries_of ls).
  rewrite rev_app_distr, <- app_assoc.
  assert (R : rev (entry_of_line l) = entry_of_line l).
  { unfold entry_of_line. destruct (data_line l) as [[[m ch] d]|]; reflexivity. }
  rewrite R. reflexivity.
Qed.

(* distinct keys: the header table is the list of header lines, in text order *)
Lemma no_dup_text_NoDup (l : list text) : no_dup_by text_eqb l = true <-> NoDup l.
Proof.
  induction l as [|x l IH]; cbn [no_dup_by].
  - split; [constructor|reflexivity].
  - rewrite andb_true_iff, negb_true_iff, IH. split.
    + intros [H1 H2]. constructor; [|exact H2]. intro I.
      assert (existsb (text_eqb x) l = true) by (apply existsb_exists; exists x; split; [exact I|apply text_eqb_refl]). congruence.
    + intro N. inversion N; subst. split; [|assumption].
      destruct (existsb (text_eqb x) l) eqn:E; [|reflexivity]. apply existsb_exists in E. destruct E as [y [Hy Ey]].
      apply text_eqb_eq in Ey. subst. contradiction.
Qed.

Lemma dict_get_none_set {V} k (v : V) d : ~ In k (map fst d) -> dict_set k v d = d ++ [(k, v)].
Proof.
  induction d as [|[k' v'] d IH]; intro N; cbn; [reflexivity|].
  rewrite text_eqb_neq by (intro E; apply N; left; cbn; congruence).
  rewrite IH by (intro; apply N; right; assumption). reflexivity.
Qed.

Lemma set_all_distinct : forall kvs hdr, NoDup (map fst (hdr ++ kvs)) -> set_all kvs hdr = hdr ++ kvs.
Proof.
  induction kvs as [|[k v] kvs IH]; intros hdr N; cbn.
  - rewrite app_nil_r. reflexivity.
  - change (set_all kvs (dict_set k v hdr) = hdr ++ (k, v) :: kvs).
    assert (Nk : ~ In k (map fst hdr)).
    { rewrite map_app in N. cbn in N. apply NoDup_remove_2 in N. intro I. apply N. apply in_or_app. left; exact I. }
    rewrite (dict_get_none_set k v hdr Nk). rewrite IH.
    + rewrite <- app_assoc. reflexivity.
    + rewrite <- app_assoc. exact N.
Qed.

(* ================================================================ D. the header table ================================================================ *)
Lemma hlookup_dict_get k (h : list (text * text)) : hlookup k h = dict_get k h.
Proof. induction h as [|[k' v] h IH]; cbn; [reflexivity|]. rewrite IH. reflexivity. Qed.

Lemma map_upper_id k : forallb (fun c => negb (is_lower c)) k = true -> map upper k = k.
Proof.
  induction k as [|c k IH]; cbn; intro H; [reflexivity|]. apply andb_true_iff in H. destruct H as [H1 H2].
  apply negb_true_iff in H1. rewrite (IH H2). unfold upper. rewrite H1. reflexivity.
Qed.

Lemma starts_with_app p : forall k, starts_with p k = true -> k = p ++ skipn (length p) k.
Proof.
  induction p as [|x p IH]; intros k H; [reflexivity|]. destruct k as [|y k]; [discriminate|]. cbn in H.
  apply andb_true_iff in H. destruct H as [H1 H2]. apply Z.eqb_eq in H1. subst y. cbn. f_equal. apply IH. exact H2.
Qed.

(* the per-key conditions of wf_bms_lines *)
Definition key_ok (kv : text * text) : Prop :=
  forallb (fun c => negb (is_lower c)) (fst kv) = true
  /\ (starts_with S_WAV (fst kv) = true -> length (fst kv) = 5%nat)
  /\ (starts_with S_BPM (fst kv) = true -> fst kv <> S_BPM -> length (fst kv) = 5%nat).

Definition setq_all (kqs : list (text * Q)) (acc : list (text * Q)) : list (text * Q) :=
  fold_left (fun a kq => dict_set (fst kq) (snd kq) a) kqs acc.

Lemma table_of_cons p k v h :
  table_of p ((k, v) :: h) = (if is_table_key p k then [(skipn 3 k, v)] else []) ++ table_of p h.
Proof. reflexivity. Qed.

Lemma read_exbpms_wf : forall d acc, Forall key_ok d ->
  read_exbpms d acc =
  match all_someq (map (fun kv => (fst kv, parse_decimal (snd kv))) (table_of S_BPM d)) with
  | Some q => Some (setq_all q acc)
  | None => None
  end.
Proof.
  induction d as [|[k v] d IH]; intros acc F; [reflexivity|].
  inversion F as [|? ? [Hl _] F']; subst. cbn [fst] in Hl.
  cbn [read_exbpms]. rewrite (map_upper_id k Hl). rewrite table_of_cons.
  change (starts_with K_BPM k && (length k =? 5)%nat) with (is_table_key S_BPM k).
  destruct (is_table_key S_BPM k); cbn [app map fst snd all_someq].
  - destruct (parse_decimal v) as [q|]; [|reflexivity]. rewrite (IH _ F').
    destruct (all_someq _); reflexivity.
  - apply IH. exact F'.
Qed.

Lemma in_table_of p h k2 v : In (k2, v) (table_of p h) -> exists k, In (k, v) h /\ is_table_key p k = true /\ k2 = skipn 3 k.
Proof.
  induction h as [|[k w] h IH]; [contradiction|]. rewrite table_of_cons. intro I. apply in_app_or in I. destruct I as [I|I].
  - destruct (is_table_key p k) eqn:E; [|contradiction]. destruct I as [I|[]]. inversion I; subst.
    exists k. split; [left; reflexivity|]. auto.
  - destruct (IH I) as [k' [A B]]. exists k'. split; [right; exact A|exact B].
Qed.

Lemma table_key_shape p k : length p = 3%nat -> is_table_key p k = true -> k = p ++ skipn 3 k.
Proof.
  intros L H. unfold is_table_key in H. apply andb_true_iff in H. destruct H as [H _].
  pose proof (starts_with_app p k H) as E. rewrite L in E. exact E.
Qed.

Lemma table_of_NoDup p h : length p = 3%nat -> NoDup (map fst h) -> NoDup (map fst (table_of p h)).
Proof.
  intros L. induction h as [|[k v] h IH]; intro N; [constructor|]. cbn [map fst] in N. inversion N as [|? ? Nk N']; subst.
  rewrite table_of_cons. destruct (is_table_key p k) eqn:E; cbn [app map fst]; [|apply IH; exact N'].
  constructor; [|apply IH; exact N'].
  intro I. apply in_map_iff in I. destruct I as [[k2 w] [E2 I]]. cbn in E2. subst k2.
  destruct (in_table_of _ _ _ _ I) as [k' [Ik [Ek Es]]].
  apply Nk. apply in_map_iff. exists (k', w). split; [|exact Ik]. cbn.
  pose proof (table_key_shape p k L E) as S1. pose proof (table_key_shape p k' L Ek) as S2.
  etransitivity; [exact S2|]. etransitivity; [|symmetry; exact S1]. f_equal. symmetry. exact Es.
Qed.

Lemma setq_all_distinct : forall kqs acc, NoDup (map fst (acc ++ kqs)) -> setq_all kqs acc = acc ++ kqs.
Proof.
  induction kqs as [|[k v] kqs IH]; intros acc N; cbn.
  - rewrite app_nil_r. reflexivity.
  - change (setq_all kqs (dict_set k v acc) = acc ++ (k, v) :: kqs).
    assert (Nk : ~ In k (map fst acc)).
    { rewrite map_app in N. cbn in N. apply NoDup_remove_2 in N. intro I. apply N. apply in_or_app. left; exact I. }
    rewrite (dict_get_none_set k v acc Nk). rewrite IH.
    + rewrite <- app_assoc. reflexivity.
    + rewrite <- app_assoc. exact N.
Qed.

Lemma all_someq_fst : forall l q, all_someq l = Some q -> map fst q = map fst l.
Proof.
  induction l as [|[k [v|]] l IH]; intros q H; cbn in H; try discriminate.
  - inversion H; reflexivity.
  - destruct (all_someq l) as [r|]; [|discriminate]. inversion H; subst. cbn. f_equal. apply IH. reflexivity.
Qed.

Lemma read_samples_wf d : Forall key_ok d -> NoDup (map fst d) -> read_samples d = table_of S_WAV d.
Proof.
  intros F N. unfold read_samples.
  assert (G : forall d acc, Forall key_ok d ->
            fold_left (fun acc kv => if is_wav_key (fst kv) then dict_set (last2 (fst kv)) (snd kv) acc else acc) d acc
            = set_all (table_of S_WAV d) acc).
  { induction d0 as [|[k v] d0 IH]; intros acc F0; [reflexivity|].
    inversion F0 as [|? ? [Hl [Hw _]] F0']; subst. cbn [fst] in Hl, Hw.
    cbn [fold_left fst snd]. rewrite table_of_cons. unfold set_all. rewrite fold_left_app. fold (set_all (table_of S_WAV d0)).
    unfold is_wav_key. rewrite (map_upper_id k Hl). change K_WAV with S_WAV. unfold is_table_key.
    destruct (starts_with S_WAV k) eqn:E.
    - rewrite (Hw eq_refl). cbn [Nat.eqb andb fold_left fst snd].
      assert (last2 k = skipn 3 k) as -> by (unfold last2; rewrite (Hw eq_refl); reflexivity).
      apply IH. exact F0'.
    - cbn [andb fold_left]. apply IH. exact F0'. }
  rewrite (G d [] F). apply (set_all_distinct (table_of S_WAV d) []). cbn [app].
  apply table_of_NoDup; [reflexivity|exact N].
Qed.

Lemma dict_get_filter {V} (p : text -> bool) k (d : list (text * V)) : p k = true ->
  dict_get k (filter (fun kv => p (fst kv)) d) = dict_get k d.
Proof.
  intro Hp. induction d as [|[k' v] d IH]; [reflexivity|]. cbn [filter fst].
  destruct (p k') eqn:E; cbn [dict_get].
  - rewrite IH. reflexivity.
  - rewrite IH. destruct (text_eqb k k') eqn:Ek; [|reflexivity]. apply text_eqb_eq in Ek. subst. congruence.
Qed.

(* BMSMap._read_file_header on the header table of a text of the domain *)
Theorem read_file_header_wf (hs : list (text * text)) bv bpm0 extq :
  Forall key_ok hs -> NoDup (map fst hs) ->
  hlookup S_BPM hs = Some bv -> parse_decimal bv = Some bpm0 ->
  all_someq (map (fun kv => (fst kv, parse_decimal (snd kv))) (table_of S_BPM hs)) = Some extq ->
  exists meta, read_file_header hs = Some meta
    /\ m_bpm meta = bpm0 /\ m_exbpms meta = extq /\ m_samples meta = table_of S_WAV hs
    /\ m_lnobj meta = or_empty (hlookup S_LNOBJ hs)
    /\ m_title meta = or_empty (hlookup S_TITLE hs) /\ m_artist meta = or_empty (hlookup S_ARTIST hs)
    /\ m_version meta = or_empty (hlookup S_PLAYLEVEL hs).
Proof.
  intros F N Hb Hp Hq. unfold read_file_header. rewrite (read_exbpms_wf hs [] F), Hq.
  assert (Hg : dict_get K_BPM (filter (fun kv => negb (is_exbpm_key (fst kv) || is_wav_key (fst kv))) hs) = Some bv).
  { rewrite (dict_get_filter (fun k => negb (is_exbpm_key k || is_wav_key k)) K_BPM hs); [|reflexivity].
    rewrite <- hlookup_dict_get. exact Hb. }
  rewrite Hg, Hp. eexists. split; [reflexivity|]. cbn [m_bpm m_exbpms m_samples m_lnobj m_title m_artist m_version].
  unfold get_or, or_empty.
  repeat split; try reflexivity.
  - apply (setq_all_distinct extq []). cbn [app]. rewrite (all_someq_fst _ _ Hq), map_map. cbn [fst].
    change (map (fun x : text * text => fst x) (table_of S_BPM hs)) with (map fst (table_of S_BPM hs)).
    apply table_of_NoDup; [reflexivity|exact N].
  - apply read_samples_wf; assumption.
Qed.

(* ================================================================ E. layout facts ================================================================ *)
Lemma no_dup_Z_NoDup (l : list Z) : no_dup_by Z.eqb l = true -> NoDup l.
Proof.
  induction l as [|x l IH]; cbn [no_dup_by]; intro H; [constructor|].
  apply andb_true_iff in H. destruct H as [H1 H2]. apply negb_true_iff in H1. constructor; [|apply IH; exact H2].
  intro I. assert (existsb (Z.eqb x) l = true) by (apply existsb_exists; exists x; split; [exact I|apply Z.eqb_refl]). congruence.
Qed.

Lemma NoDup_snd_inj {A} (l : list (A * Z)) a b v : NoDup (map snd l) -> In (a, v) l -> In (b, v) l -> a = b.
Proof.
  induction l as [|[k w] l IH]; intros N Ia Ib; [contradiction|]. cbn in N. inversion N as [|? ? Nw N']; subst.
  destruct Ia as [Ea|Ia], Ib as [Eb|Ib].
  - congruence.
  - inversion Ea; subst. exfalso. apply Nw. apply in_map_iff. exists (b, v). auto.
  - inversion Eb; subst. exfalso. apply Nw. apply in_map_iff. exists (a, v). auto.
  - apply IH; assumption.
Qed.

Record layout_facts (mk : Z) (lay : layout) : Prop := mkLF {
  lf_ts : layout_rev lay V_TIME_SIG = Some CH_TIME_SIG;
  lf_bpm : layout_rev lay V_BPM = Some CH_BPM;
  lf_ex : layout_rev lay V_EXBPM = Some CH_EXBPM;
  lf_keys : NoDup (map fst lay);
  lf_vals : NoDup (map snd lay);
  lf_get_bpm : dict_get CH_BPM lay = Some V_BPM;
  lf_get_ex : dict_get CH_EXBPM lay = Some V_EXBPM;
  lf_range : forall ch col, dict_get ch lay = Some col ->
               col < mk /\ (col < 0 -> ch = CH_TIME_SIG \/ ch = CH_BPM \/ ch = CH_EXBPM) }.

Lemma layout_ok_facts mk lay : layout_ok mk lay = true -> layout_facts mk lay.
Proof.
  intro H. pose proof H as H0. unfold layout_ok in H.
  apply andb_true_iff in H. destruct H as [H H4]. apply andb_true_iff in H. destruct H as [H H3].
  apply andb_true_iff in H. destruct H as [H1 H2].
  destruct (layout_rev lay V_TIME_SIG) as [a|] eqn:Ea; [|discriminate].
  destruct (layout_rev lay V_BPM) as [b|] eqn:Eb; [|discriminate].
  destruct (layout_rev lay V_EXBPM) as [c|] eqn:Ec; [|discriminate].
  apply andb_true_iff in H4. destruct H4 as [H4 H7]. apply andb_true_iff in H4. destruct H4 as [H5 H6].
  apply text_eqb_eq in H5, H6, H7. subst a b c.
  apply no_dup_text_NoDup in H1. apply no_dup_Z_NoDup in H2.
  constructor; auto.
  - apply (layout_rev_get mk lay _ _ H0 Eb).
  - apply (layout_rev_get mk lay _ _ H0 Ec).
  - intros ch col G. apply dict_get_in in G. rewrite forallb_forall in H3. pose proof (H3 _ G) as R. cbn [fst snd] in R.
    apply andb_true_iff in R. destruct R as [R R3]. apply andb_true_iff in R. destruct R as [_ R2].
    apply Z.leb_le in R2. apply Z.ltb_lt in R3. split; [exact R3|]. intro Neg.
    assert (C : col = V_TIME_SIG \/ col = V_BPM \/ col = V_EXBPM) by (unfold V_TIME_SIG, V_BPM, V_EXBPM; lia).
    destruct C as [C|[C|C]]; subst col.
    + left. apply (NoDup_snd_inj lay _ _ _ H2 G). apply layout_rev_in. exact Ea.
    + right; left. apply (NoDup_snd_inj lay _ _ _ H2 G). apply layout_rev_in. exact Eb.
    + right; right. apply (NoDup_snd_inj lay _ _ _ H2 G). apply layout_rev_in. exact Ec.
Qed.

Lemma lane_of_dict lay ch : lane_of lay ch = match dict_get ch lay with Some c => if 0 <=? c then Some c else None | None => None end.
Proof. unfold lane_of. rewrite lay_lookup_dict_get. reflexivity. Qed.

(* ================================================================ F. the pair loop of _read_notes ================================================================ *)
(* what one object of the text adds to the reader's state *)
Definition push_obj (lay : layout) (ext : list (text * text)) (st : rstate) (o : sobj) : rstate :=
  match tempo_of_obj ext o with
  | Some (Some q) => mkRS (mkBcs q BEATS_PER_MEASURE (snap_of o) :: r_bcs st) (r_objs st) (r_ts st)
  | Some None => st
  | None => match lane_of lay (o_chan o) with
            | Some c => mkRS (r_bcs st) (lobj_of c o :: r_objs st) (r_ts st)
            | None => st
            end
  end.
Definition push_all (lay : layout) (ext : list (text * text)) (st : rstate) (os : list sobj) : rstate :=
  fold_left (push_obj lay ext) os st.

Definition tempo_defined (ext : list (text * text)) (o : sobj) : Prop := tempo_of_obj ext o <> Some None.

Lemma Qred_Qred_mul (x y : Q) : Qred (Qred (x * y)) = Qred (Qred x * y).
Proof. apply Qred_complete. rewrite !Qred_correct. reflexivity. Qed.

Lemma div_range (i k : Z) : 0 <= i < k -> (0 <= inject_Z i / inject_Z k /\ inject_Z i / inject_Z k < 1)%Q.
Proof.
  intros [H0 H1]. assert (Kp : (0 < inject_Z k)%Q) by (change 0%Q with (inject_Z 0); rewrite <- Zlt_Qlt; lia).
  split.
  - apply Qle_shift_div_l; [exact Kp|]. rewrite Qmult_0_l. change 0%Q with (inject_Z 0). rewrite <- Zle_Qle. exact H0.
  - apply Qlt_shift_div_r; [exact Kp|]. rewrite Qmult_1_l. rewrite <- Zlt_Qlt. exact H1.
Qed.

Section PairLoop.
  Variables (lay : layout) (mk : Z) (meta : bms_meta) (ext : list (text * text)).
  Hypothesis LF : layout_facts mk lay.
  Hypothesis Hext : forall p, dict_get p (m_exbpms meta) = match hlookup p ext with Some v => parse_decimal v | None => None end.

  Let rp := read_pair lay mk meta CH_BPM CH_EXBPM.

  Lemma snap_norm_in_measure m (x : Q) : 0 <= m -> (0 <= x)%Q -> (x < 4)%Q ->
    snap_norm m x 4 = Some (mkSnap m (Qred x) 4).
  Proof.
    intros Hm H0 H4. unfold snap_norm.
    assert ((m <? 0) = false) as -> by (apply Z.ltb_ge; exact Hm).
    assert (Qlt_bool x 0 = false) as -> by (apply Qlt_bool_false; exact H0).
    assert (Qle_bool 4 x = false) as -> by (apply Qle_bool_false; exact H4).
    cbn [orb fst snd].
    assert (Qlt_bool x 0 = false) as -> by (apply Qlt_bool_false; exact H0).
    assert ((m <? 0) = false) as -> by (apply Z.ltb_ge; exact Hm). reflexivity.
  Qed.

  Lemma read_pair_obj m ch k st i p :
    0 <= m -> 0 <= i < k -> length p = 2%nat -> p <> ID_NONE -> ch <> CH_TIME_SIG ->
    let o := mkObj m (Qred (inject_Z i / inject_Z k)) ch p in
    tempo_defined ext o ->
    rp m ch k 4%Q st (i, p) = Some (push_obj lay ext st o).
  Proof.
    intros Hm Hi Lp Np Nts o Td. unfold rp, read_pair.
    unfold text_is. change PAIR00 with ID_NONE. rewrite (text_eqb_neq p ID_NONE Np).
    assert (text_eqb p PAIR0 = false) as ->.
    { apply text_eqb_neq. intro E. subst p. discriminate. }
    cbn [orb]. assert ((k =? 0) = false) as -> by (apply Z.eqb_neq; lia).
    destruct (div_range i k Hi) as [R0 R1].
    assert (B0 : (0 <= Qred (inject_Z i / inject_Z k * 4))%Q) by (rewrite Qred_correct; lra).
    assert (B4 : (Qred (inject_Z i / inject_Z k * 4) < 4)%Q) by (rewrite Qred_correct; lra).
    unfold push_obj, tempo_of_obj. cbn [o_chan o_id o].
    destruct (text_eqb ch CH_BPM) eqn:Eb.
    - cbn [orb]. unfold tempo_defined, tempo_of_obj in Td. cbn [o_chan o_id o] in Td. rewrite Eb in Td.
      destruct (hex_parse2 p) as [v|]; [|congruence].
      rewrite (snap_norm_in_measure m _ Hm B0 B4). unfold snap_of. cbn [o_measure o_pos o]. unfold BEATS_PER_MEASURE.
      rewrite Qred_Qred_mul. reflexivity.
    - destruct (text_eqb ch CH_EXBPM) eqn:Ee.
      + cbn [orb]. unfold tempo_defined, tempo_of_obj in Td. cbn [o_chan o_id o] in Td. rewrite Eb, Ee in Td.
        rewrite Hext. destruct (hlookup p ext) as [v|]; [|congruence]. destruct (parse_decimal v) as [q|]; [|congruence].
        rewrite (snap_norm_in_measure m _ Hm B0 B4). unfold snap_of. cbn [o_measure o_pos o]. unfold BEATS_PER_MEASURE.
        rewrite Qred_Qred_mul. reflexivity.
      + cbn [orb]. rewrite lane_of_dict. unfold layout_get. destruct (dict_get ch lay) as [col|] eqn:G; [|reflexivity].
        destruct (lf_range mk lay LF ch col G) as [Rk Rn].
        destruct (0 <=? col) eqn:E0.
        * apply Z.leb_le in E0. assert ((col <? 0) = false) as -> by (apply Z.ltb_ge; exact E0).
          assert ((mk <=? col) = false) as -> by (apply Z.leb_gt; exact Rk). cbn [orb].
          unfold lobj_of, snap_of. cbn [o_measure o_pos o_id o s_b]. unfold BEATS_PER_MEASURE.
          rewrite (read_pos_is_spec_pos i k). reflexivity.
        * exfalso. apply Z.leb_gt in E0. destruct (Rn E0) as [C|[C|C]]; subst ch.
          -- apply Nts; reflexivity.
          -- rewrite text_eqb_refl in Eb. discriminate.
          -- rewrite text_eqb_refl in Ee. discriminate.
  Qed.

  Lemma read_pairs_objs m ch k : 0 <= m -> ch <> CH_TIME_SIG ->
    forall pairs i st, 0 <= i -> i + Z.of_nat (length pairs) <= k ->
    Forall (fun p => length p = 2%nat) pairs ->
    Forall (tempo_defined ext) (objs_of_pairs m ch k i pairs) ->
    read_pairs lay mk meta CH_BPM CH_EXBPM m ch k 4%Q st i pairs
    = Some (push_all lay ext st (objs_of_pairs m ch k i pairs)).
  Proof.
    intros Hm Nts. induction pairs as [|p ps IH]; intros i st Hi Hk Fl Ft; [reflexivity|].
    inversion Fl as [|? ? Lp Fl']; subst. cbn [length] in Hk. cbn [read_pairs objs_of_pairs] in *.
    destruct (text_eqb p ID_NONE) eqn:E.
    - apply text_eqb_eq in E. subst p. unfold read_pair, text_is. change PAIR00 with ID_NONE. rewrite text_eqb_refl. cbn [orb].
      apply IH; auto; lia.
    - apply text_eqb_false_iff in E. inversion Ft as [|? ? Td Ft']; subst.
      pose proof (read_pair_obj m ch k st i p Hm ltac:(lia) Lp E Nts Td) as R. unfold rp in R.
      match goal with |- match ?X with Some _ => _ | None => _ end = _ =>
        replace X with (Some (push_obj lay ext st (mkObj m (Qred (inject_Z i / inject_Z k)) ch p))) by (symmetry; exact R) end.
      rewrite (IH (i + 1) _ ltac:(lia) ltac:(lia) Fl' Ft'). reflexivity.
  Qed.
End PairLoop.

Lemma push_obj_ts lay ext st o : r_ts (push_obj lay ext st o) = r_ts st.
Proof.
  unfold push_obj. destruct (tempo_of_obj ext o) as [[q|]|]; try reflexivity. destruct (lane_of lay (o_chan o)); reflexivity.
Qed.
Lemma push_all_ts lay ext os : forall st, r_ts (push_all lay ext st os) = r_ts st.
Proof.
  unfold push_all. induction os as [|o os IH]; intro st; [reflexivity|]. cbn [fold_left]. rewrite IH. apply push_obj_ts.
Qed.
Lemma push_all_app lay ext a b st : push_all lay ext st (a ++ b) = push_all lay ext (push_all lay ext st a) b.
Proof. unfold push_all. apply fold_left_app. Qed.

Lemma parse_nat_3 a b c : is_digit a = true -> is_digit b = true -> is_digit c = true ->
  parse_nat [a; b; c] = Some (100 * (a - 48) + 10 * (b - 48) + (c - 48)).
Proof.
  intros Da Db Dc. unfold parse_nat. cbn [digits_val]. rewrite Da, Db, Dc. f_equal. lia.
Qed.

(* the per-line conditions of wf_bms_lines on a data line *)
Definition data_cond (t : text) : Prop :=
  forall m ch data, data_line t = Some (m, ch, data) -> data_line_ok t = true /\ ch <> CH_TIME_SIG.

Section EntryLoop.
  Variables (lay : layout) (mk : Z) (meta : bms_meta) (ext : list (text * text)).
  Hypothesis LF : layout_facts mk lay.
  Hypothesis Hext : forall p, dict_get p (m_exbpms meta) = match hlookup p ext with Some v => parse_decimal v | None => None end.

  Lemma read_entry_line t m ch data st :
    data_line t = Some (m, ch, data) -> data_line_ok t = true -> ch <> CH_TIME_SIG -> r_ts st = [] ->
    Forall (tempo_defined ext) (objs_of_line t) ->
    read_entry lay mk meta CH_TIME_SIG CH_BPM CH_EXBPM st (mkNE (slice 1 4 t) ch data)
    = Some (push_all lay ext st (objs_of_line t)).
  Proof.
    intros E K Nts Hts Ft.
    destruct (data_line_ok_facts _ K) as [a [b [c [x [y [data' [n [Et [Ed [Da [Db [Dc [Bp [Len Pr]]]]]]]]]]]]]].
    rewrite E in Ed. inversion Ed; subst m ch data'. clear Ed.
    destruct (pairs_no_sep _ _ Len Pr) as [_ [F2 Lc]].
    unfold objs_of_line in *. rewrite E in *.
    unfold read_entry. cbn [ne_measure ne_channel ne_seq].
    assert (slice 1 4 t = [a; b; c]) as -> by (rewrite Et; reflexivity).
    rewrite (parse_nat_3 a b c Da Db Dc). unfold text_is. rewrite (text_eqb_neq _ _ Nts). rewrite Hts. cbn [ts_get].
    assert (Hm : 0 <= 100 * (a - 48) + 10 * (b - 48) + (c - 48)).
    { unfold is_digit in Da, Db, Dc. apply andb_true_iff in Da, Db, Dc. destruct Da as [A1 _], Db as [B1 _], Dc as [C1 _].
      apply Z.leb_le in A1, B1, C1. lia. }
    assert (Hk : Z.of_nat (length data) / 2 = Z.of_nat (S n)).
    { rewrite Len. rewrite Nat2Z.inj_mul. change (Z.of_nat 2) with 2. rewrite Z.mul_comm. apply Z.div_mul. lia. }
    rewrite Hk in *.
    apply (read_pairs_objs lay mk meta ext LF Hext); auto; try lia.
    rewrite Z.add_0_l. apply Z.eq_le_incl. apply f_equal. exact Lc.
  Qed.

  Lemma read_entries_lines : forall lines st, r_ts st = [] ->
    Forall (fun t => line_kind_ok t = true /\ data_cond t) lines ->
    Forall (tempo_defined ext) (flat_map objs_of_line lines) ->
    read_entries lay mk meta CH_TIME_SIG CH_BPM CH_EXBPM st (entries_of lines)
    = Some (push_all lay ext st (flat_map objs_of_line lines)).
  Proof.
    induction lines as [|t ls IH]; intros st Hts F Ft; [reflexivity|].
    inversion F as [|? ? [K C] F']; subst. cbn [flat_map] in *. apply Forall_app in Ft. destruct Ft as [Ft1 Ft2].
    change (entries_of (t :: ls)) with (entry_of_line t ++ entries_of ls). rewrite push_all_app.
    unfold entry_of_line. destruct (data_line t) as [[[m ch] data]|] eqn:E.
    - destruct (C m ch data E) as [Ko Nts]. cbn [app read_entries].
      rewrite (read_entry_line t m ch data st E Ko Nts Hts Ft1).
      apply IH; auto. rewrite push_all_ts. exact Hts.
    - cbn [app]. unfold objs_of_line at 1. rewrite E. cbn [push_all fold_left]. apply IH; auto.
  Qed.
End EntryLoop.

(* ---- what the pushed state holds ---- *)
Lemma tempo_objs_cons ext o r :
  tempo_objs ext (o :: r) =
  match tempo_of_obj ext o, tempo_objs ext r with
  | _, None => None
  | None, Some l => Some l
  | Some None, _ => None
  | Some (Some q), Some l => Some (mkBcs q BEATS_PER_MEASURE (snap_of o) :: l)
  end.
Proof. reflexivity. Qed.

Lemma tempo_objs_defined ext : forall os tl, tempo_objs ext os = Some tl -> Forall (tempo_defined ext) os.
Proof.
  induction os as [|o r IH]; intros tl H; [constructor|]. rewrite tempo_objs_cons in H.
  destruct (tempo_objs ext r) as [l|] eqn:E.
  - constructor; [|eapply IH; reflexivity]. unfold tempo_defined. destruct (tempo_of_obj ext o) as [[q|]|]; congruence.
  - destruct (tempo_of_obj ext o) as [[q|]|]; discriminate.
Qed.

Lemma push_all_spec mk lay ext : layout_facts mk lay -> forall os st tl, tempo_objs ext os = Some tl ->
  r_bcs (push_all lay ext st os) = rev tl ++ r_bcs st
  /\ r_objs (push_all lay ext st os) = rev (lane_lobjs lay os) ++ r_objs st.
Proof.
  intro LF. induction os as [|o r IH]; intros st tl H.
  - inversion H; subst. split; reflexivity.
  - rewrite tempo_objs_cons in H. destruct (tempo_objs ext r) as [l|] eqn:E.
    2:{ destruct (tempo_of_obj ext o) as [[q|]|]; discriminate. }
    unfold push_all. cbn [fold_left]. fold (push_all lay ext (push_obj lay ext st o) r).
    destruct (IH (push_obj lay ext st o) l eq_refl) as [A B]. rewrite A, B.
    unfold lane_lobjs. cbn [flat_map]. fold (lane_lobjs lay r).
    unfold push_obj. destruct (tempo_of_obj ext o) as [[q|]|] eqn:T.
    + inversion H; subst tl. cbn [r_bcs r_objs rev].
      assert (lane_of lay (o_chan o) = None) as ->.
      { unfold tempo_of_obj in T. rewrite lane_of_dict.
        destruct (text_eqb (o_chan o) CH_BPM) eqn:Eb.
        - apply text_eqb_eq in Eb. rewrite Eb, (lf_get_bpm mk lay LF). reflexivity.
        - destruct (text_eqb (o_chan o) CH_EXBPM) eqn:Ee; [|discriminate].
          apply text_eqb_eq in Ee. rewrite Ee, (lf_get_ex mk lay LF). reflexivity. }
      cbn [app]. rewrite <- app_assoc. split; reflexivity.
    + discriminate.
    + inversion H; subst tl. destruct (lane_of lay (o_chan o)) as [c|]; cbn [r_bcs r_objs rev app].
      * rewrite <- app_assoc. split; reflexivity.
      * split; reflexivity.
Qed.

(* ================================================================ G. the domain, as propositions ================================================================ *)
Definition sobjs_of (lines : list text) : list sobj := flat_map objs_of_line lines.
Definition tchan (o : sobj) : bool := is_tempo_chan (o_chan o).
Definition pos_eqb (a b : bcs) : bool := snap_eq (bs_snap a) (bs_snap b).

(* everything the refinement needs from the text (each clause is a clause of wf_bms_lines); the 192-subdivision cap, the
   ASCII / non-empty-value clauses and the LNOBJ / id syntax clauses of wf_bms_lines are not needed *)
Record text_dom (lay : slayout) (lines : list text) : Prop := mkTD {
  td_lines : Forall line_ok lines;
  td_keys : NoDup (map fst (headers_of lines));
  td_key_ok : Forall key_ok (headers_of lines);
  td_data : Forall data_cond lines;
  td_tempo_pos : no_dup_by same_pos (filter tchan (sobjs_of lines)) = true;
  td_denote : exists d, bms_denote lay lines = Some d
                /\ forallb (fun tb => Qlt_bool 0 (snd tb)) (d_tempo d) = true }.

Lemma forallb_Forall {A} (p : A -> bool) l : forallb p l = true <-> Forall (fun x => p x = true) l.
Proof. rewrite forallb_forall, Forall_forall. reflexivity. Qed.

Lemma wf_text_dom lay lines : wf_bms_lines lay lines = true -> text_dom lay lines.
Proof.
  unfold wf_bms_lines. intro H.
  apply andb_true_iff in H. destruct H as [H _].
  apply andb_true_iff in H. destruct H as [H C8].
  apply andb_true_iff in H. destruct H as [H C7].
  apply andb_true_iff in H. destruct H as [H _].
  apply andb_true_iff in H. destruct H as [H C5].
  apply andb_true_iff in H. destruct H as [H C4].
  apply andb_true_iff in H. destruct H as [H C3].
  apply andb_true_iff in H. destruct H as [C1 C2].
  rewrite forallb_forall in C1, C3, C4, C5.
  constructor.
  - apply Forall_forall. intros l Hl. specialize (C1 l Hl). apply andb_true_iff in C1. destruct C1 as [A B].
    split; [apply text_eqb_eq; exact A|exact B].
  - apply no_dup_text_NoDup. exact C2.
  - apply Forall_forall. intros kv Hkv. specialize (C3 kv Hkv). specialize (C5 kv Hkv).
    apply andb_true_iff in C3. destruct C3 as [_ C3]. split; [exact C3|]. split.
    + intro S. rewrite S in C5. cbn [orb] in C5. apply andb_true_iff in C5. destruct C5 as [C5 _]. apply Nat.eqb_eq. exact C5.
    + intros S Nb. rewrite S in C5. rewrite (text_eqb_neq _ _ Nb) in C5. cbn [negb andb] in C5. rewrite orb_true_r in C5.
      apply andb_true_iff in C5. destruct C5 as [C5 _]. apply Nat.eqb_eq. exact C5.
  - apply Forall_forall. intros l Hl m ch data E. specialize (C1 l Hl). specialize (C4 l Hl). rewrite E in C4.
    apply andb_true_iff in C1. destruct C1 as [_ K]. apply andb_true_iff in C4. destruct C4 as [C4 _].
    apply negb_true_iff in C4. apply text_eqb_false_iff in C4. split; [|exact C4].
    destruct (data_line_digit _ _ _ _ E) as [a [b [c [x [y [Et [_ [Da _]]]]]]]]. subst l. cbn [line_kind_ok] in K.
    rewrite Da in K. exact K.
  - exact C8.
  - destruct (bms_denote lay lines) as [d|]; [|discriminate]. exists d. split; [reflexivity|].
    apply andb_true_iff in C7. destruct C7 as [C7 _]. apply andb_true_iff in C7. destruct C7 as [_ C7]. exact C7.
Qed.

Lemma text_domb_sound lay lines : text_domb lay lines = true -> text_dom lay lines.
Proof.
  unfold text_domb. intro H.
  apply andb_true_iff in H. destruct H as [H C8].
  apply andb_true_iff in H. destruct H as [H C7].
  apply andb_true_iff in H. destruct H as [H C5].
  apply andb_true_iff in H. destruct H as [H C4].
  apply andb_true_iff in H. destruct H as [H C3].
  apply andb_true_iff in H. destruct H as [C1 C2].
  rewrite forallb_forall in C1, C3, C4, C5.
  constructor.
  - apply Forall_forall. intros l Hl. specialize (C1 l Hl). apply andb_true_iff in C1. destruct C1 as [A B].
    split; [apply text_eqb_eq; exact A|exact B].
  - apply no_dup_text_NoDup. exact C2.
  - apply Forall_forall. intros kv Hkv. specialize (C3 kv Hkv). specialize (C5 kv Hkv). split; [exact C3|]. split.
    + intro S. rewrite S in C5. cbn [orb] in C5. apply Nat.eqb_eq. exact C5.
    + intros S Nb. rewrite S in C5. rewrite (text_eqb_neq _ _ Nb) in C5. cbn [negb andb] in C5. rewrite orb_true_r in C5.
      apply Nat.eqb_eq. exact C5.
  - apply Forall_forall. intros l Hl m ch data E. specialize (C1 l Hl). specialize (C4 l Hl). rewrite E in C4.
    apply andb_true_iff in C1. destruct C1 as [_ K].
    apply negb_true_iff in C4. apply text_eqb_false_iff in C4. split; [|exact C4].
    destruct (data_line_digit _ _ _ _ E) as [a [b [c [x [y [Et [_ [Da _]]]]]]]]. subst l. cbn [line_kind_ok] in K.
    rewrite Da in K. exact K.
  - exact C8.
  - destruct (bms_denote lay lines) as [d|]; [|discriminate]. exists d. split; [reflexivity|exact C7].
Qed.

(* the pieces of a successful bms_denote *)
Lemma bms_denote_inv lay lines d : bms_denote lay lines = Some d ->
  let hs := headers_of lines in
  let ext := table_of S_BPM hs in
  let wav := table_of S_WAV hs in
  let lnobj := or_empty (hlookup S_LNOBJ hs) in
  exists bv bpm0 tempos extq hits holds,
    hlookup S_BPM hs = Some bv /\ parse_decimal bv = Some bpm0
    /\ tempo_objs ext (sobjs_of lines) = Some tempos
    /\ all_someq (map (fun kv => (fst kv, parse_decimal (snd kv))) ext) = Some extq
    /\ lanes_denote lnobj lay (sobjs_of lines) (lanes lay) = Some (hits, holds)
    /\ let script := script_of bpm0 tempos in
       let t (o : sobj) := Qred (time_of 0 script (snap_of o)) in
       d_hits d = map (fun ch => mkSHit (fst ch) (t (snd ch)) (sample_of wav (o_id (snd ch)))) hits
       /\ d_holds d = map (fun cl => let '(c, (h, tl)) := cl in mkSHold c (t h) (Qred (t tl - t h)) (sample_of wav (o_id h))) holds
       /\ d_tempo d = map (fun c => (Qred (time_of 0 script (bs_snap c)), bs_bpm c)) script
       /\ d_headers d = hs /\ d_ext d = extq /\ d_wav d = wav /\ d_lnobj d = lnobj
       /\ d_bpm0 d = match script with c :: _ => bs_bpm c | [] => bpm0 end.
Proof.
  unfold bms_denote. intro H. cbv zeta.
  destruct (hlookup S_BPM (headers_of lines)) as [bv|] eqn:E1; [|discriminate].
  destruct (parse_decimal bv) as [bpm0|] eqn:E2; [|discriminate].
  fold (sobjs_of lines) in H.
  destruct (tempo_objs _ (sobjs_of lines)) as [tempos|] eqn:E3; [|discriminate].
  destruct (all_someq _) as [extq|] eqn:E4; [|discriminate].
  change (match hlookup S_LNOBJ (headers_of lines) with Some v => v | None => [] end)
    with (or_empty (hlookup S_LNOBJ (headers_of lines))) in H.
  destruct (lanes_denote _ lay (sobjs_of lines) (lanes lay)) as [[hits holds]|] eqn:E5; [|discriminate].
  inversion H; subst d. cbn [d_hits d_holds d_tempo d_headers d_ext d_wav d_lnobj d_bpm0].
  exists bv, bpm0, tempos, extq, hits, holds.
  split; [first [reflexivity|assumption]|]. split; [first [reflexivity|assumption]|]. split; [first [reflexivity|assumption]|].
  split; [first [reflexivity|assumption]|]. split; [first [reflexivity|assumption]|].
  repeat split; reflexivity.
Qed.

(* ---- positions of the objects of a text ---- *)
Lemma objs_of_pairs_range m ch k : forall pairs i o, 0 <= i -> i + Z.of_nat (length pairs) <= k ->
  In o (objs_of_pairs m ch k i pairs) ->
  o_measure o = m /\ o_chan o = ch /\ (0 <= o_pos o)%Q /\ (o_pos o < 1)%Q.
Proof.
  induction pairs as [|p ps IH]; intros i o Hi Hk I; [contradiction|]. cbn [objs_of_pairs length] in *.
  destruct (text_eqb p ID_NONE).
  - apply (IH (i + 1)); auto; lia.
  - destruct I as [<-|I]; [|apply (IH (i + 1)); auto; lia].
    cbn [o_measure o_chan o_pos]. destruct (div_range i k ltac:(lia)) as [A B]. rewrite Qred_correct. auto.
Qed.

Definition obj_pos_ok (o : sobj) : Prop := 0 <= o_measure o /\ (0 <= o_pos o)%Q /\ (o_pos o < 1)%Q.

Lemma objs_of_line_ok t : data_cond t -> Forall obj_pos_ok (objs_of_line t).
Proof.
  intro C. unfold objs_of_line. destruct (data_line t) as [[[m ch] data]|] eqn:E; [|constructor].
  destruct (C m ch data E) as [K _].
  destruct (data_line_ok_facts _ K) as [a [b [c [x [y [data' [n [Et [Ed [Da [Db [Dc [Bp [Len Pr]]]]]]]]]]]]]].
  rewrite E in Ed. inversion Ed; subst m ch data'. clear Ed.
  destruct (pairs_no_sep _ _ Len Pr) as [_ [_ Lc]].
  assert (Hk : Z.of_nat (length data) / 2 = Z.of_nat (S n)).
  { rewrite Len. rewrite Nat2Z.inj_mul. change (Z.of_nat 2) with 2. rewrite Z.mul_comm. apply Z.div_mul. lia. }
  rewrite Hk. apply Forall_forall. intros o I.
  destruct (objs_of_pairs_range _ _ _ _ 0 o ltac:(lia) ltac:(rewrite Z.add_0_l; apply Z.eq_le_incl; apply f_equal; exact Lc) I)
    as [Em [_ [P0 P1]]].
  unfold obj_pos_ok. rewrite Em. repeat split; auto.
  unfold is_digit in Da, Db, Dc. apply andb_true_iff in Da, Db, Dc. destruct Da as [A1 _], Db as [B1 _], Dc as [C1 _].
  apply Z.leb_le in A1, B1, C1. lia.
Qed.

Lemma sobjs_ok lines : Forall data_cond lines -> Forall obj_pos_ok (sobjs_of lines).
Proof.
  induction 1 as [|t ls C _ IH]; [constructor|]. unfold sobjs_of. cbn [flat_map]. apply Forall_app. split; [|exact IH].
  apply objs_of_line_ok. exact C.
Qed.

(* ================================================================ H. the state after the line loop ================================================================ *)
Lemma all_someq_lookup : forall (ext : list (text * text)) extq p,
  all_someq (map (fun kv => (fst kv, parse_decimal (snd kv))) ext) = Some extq ->
  dict_get p extq = match hlookup p ext with Some v => parse_decimal v | None => None end.
Proof.
  induction ext as [|[k v] ext IH]; intros extq p H; cbn in H.
  - inversion H; reflexivity.
  - destruct (parse_decimal v) as [q|] eqn:E; [|discriminate].
    destruct (all_someq _) as [r|] eqn:E2; [|discriminate]. inversion H; subst. cbn.
    destruct (text_eqb p k); [symmetry; exact E|]. apply IH. reflexivity.
Qed.

Theorem read_state_wf lay mk lines bv bpm0 tempos extq :
  layout_facts mk lay -> text_dom lay lines ->
  hlookup S_BPM (headers_of lines) = Some bv -> parse_decimal bv = Some bpm0 ->
  tempo_objs (table_of S_BPM (headers_of lines)) (sobjs_of lines) = Some tempos ->
  all_someq (map (fun kv => (fst kv, parse_decimal (snd kv))) (table_of S_BPM (headers_of lines))) = Some extq ->
  exists meta st, read_state lay mk lines = Some (meta, st)
    /\ r_bcs st = rev tempos ++ [origin_bcs bpm0]
    /\ r_objs st = rev (lane_lobjs lay (sobjs_of lines))
    /\ m_bpm meta = bpm0 /\ m_exbpms meta = extq /\ m_samples meta = table_of S_WAV (headers_of lines)
    /\ m_lnobj meta = or_empty (hlookup S_LNOBJ (headers_of lines))
    /\ m_title meta = or_empty (hlookup S_TITLE (headers_of lines))
    /\ m_artist meta = or_empty (hlookup S_ARTIST (headers_of lines))
    /\ m_version meta = or_empty (hlookup S_PLAYLEVEL (headers_of lines))
    /\ read_file_header (headers_of lines) = Some meta.
Proof.
  intros LF TD Hb Hp Ht Hq. destruct TD as [Tl Tk Tko Td _ _].
  destruct (read_file_header_wf _ bv bpm0 extq Tko Tk Hb Hp Hq) as [meta [Rh [Mb [Mx [Ms [Ml [Mt [Ma Mv]]]]]]]].
  unfold read_state. pose proof (classify_lines_wf lines [] [] Tl) as CL. unfold header in CL. rewrite CL. clear CL.
  rewrite (set_all_distinct (headers_of lines) []) by exact Tk. cbn [app]. rewrite Rh.
  rewrite (lf_ts mk lay LF), (lf_bpm mk lay LF), (lf_ex mk lay LF).
  rewrite app_nil_r, rev_involutive.
  assert (Hext : forall p, dict_get p (m_exbpms meta)
                 = match hlookup p (table_of S_BPM (headers_of lines)) with Some v => parse_decimal v | None => None end).
  { intro p. rewrite Mx. apply all_someq_lookup. exact Hq. }
  rewrite (read_entries_lines lay mk meta (table_of S_BPM (headers_of lines)) LF Hext lines).
  - fold (sobjs_of lines).
    destruct (push_all_spec mk lay (table_of S_BPM (headers_of lines)) LF (sobjs_of lines)
                (mkRS [mkBcs (m_bpm meta) 4 (mkSnap 0 0 4)] [] []) tempos Ht) as [A B].
    eexists _, _. split; [reflexivity|]. rewrite A, B. cbn [r_bcs r_objs]. rewrite app_nil_r, Mb.
    repeat split; auto.
  - reflexivity.
  - apply Forall_forall. intros t I. rewrite Forall_forall in Tl, Td. split; [apply Tl; exact I|apply Td; exact I].
  - apply (tempo_objs_defined _ _ _ Ht).
Qed.

(* ================================================================ I. lane order: layout order vs columns ascending ================================================================ *)
Section Lanes.
  Variables (lnobj : text) (lay : layout) (objs : list sobj).

  Definition lane_res (c : Z) := pair_ln lnobj None (sort_by obj_lt (filter (in_lane lay c) objs)).
  Definition has_obj (c : Z) : bool := existsb (in_lane lay c) objs.

  Lemma lanes_denote_cons c cs :
    lanes_denote lnobj lay objs (c :: cs) =
    match lane_res c, lanes_denote lnobj lay objs cs with
    | Some (hs, ls), Some (hs', ls') => Some (map (fun h => (c, h)) hs ++ hs', map (fun l => (c, l)) ls ++ ls')
    | _, _ => None
    end.
  Proof. reflexivity. Qed.

  Lemma lanes_perm cols cols' : Permutation cols cols' -> forall H L,
    lanes_denote lnobj lay objs cols = Some (H, L) ->
    exists H' L', lanes_denote lnobj lay objs cols' = Some (H', L') /\ Permutation H H' /\ Permutation L L'.
  Proof.
    induction 1 as [|c l l' P IH|a b l|l l' l'' P1 IH1 P2 IH2]; intros H L E.
    - exists H, L. auto.
    - rewrite lanes_denote_cons in *. destruct (lane_res c) as [[hs ls]|]; [|discriminate].
      destruct (lanes_denote lnobj lay objs l) as [[H1 L1]|]; [|discriminate]. inversion E; subst.
      destruct (IH H1 L1 eq_refl) as [H' [L' [E' [PH PL]]]]. rewrite E'.
      eexists _, _. split; [reflexivity|]. split; apply Permutation_app_head; assumption.
    - rewrite !lanes_denote_cons in *. destruct (lane_res b) as [[hb lb]|]; [|discriminate].
      destruct (lane_res a) as [[ha la]|]; [|discriminate].
      destruct (lanes_denote lnobj lay objs l) as [[H1 L1]|]; [|discriminate]. inversion E; subst.
      eexists _, _. split; [reflexivity|]. rewrite !app_assoc. split; apply Permutation_app_tail; apply Permutation_app_comm.
    - destruct (IH1 H L E) as [H1 [L1 [E1 [PH1 PL1]]]]. destruct (IH2 H1 L1 E1) as [H2 [L2 [E2 [PH2 PL2]]]].
      exists H2, L2. split; [exact E2|]. split; eapply Permutation_trans; eassumption.
  Qed.

  Lemma filter_none {A} (p : A -> bool) l : existsb p l = false -> filter p l = [].
  Proof.
    induction l as [|x l IH]; cbn; intro H; [reflexivity|]. apply orb_false_iff in H. destruct H as [H1 H2].
    rewrite H1. apply IH. exact H2.
  Qed.

  Lemma lanes_skip_empty cols : lanes_denote lnobj lay objs cols = lanes_denote lnobj lay objs (filter has_obj cols).
  Proof.
    induction cols as [|c cs IH]; [reflexivity|]. cbn [filter]. destruct (has_obj c) eqn:E.
    - rewrite !lanes_denote_cons, IH. reflexivity.
    - rewrite lanes_denote_cons, IH. unfold lane_res. unfold has_obj in E. rewrite (filter_none _ _ E). cbn.
      destruct (lanes_denote lnobj lay objs (filter has_obj cs)) as [[H L]|]; reflexivity.
  Qed.
End Lanes.

Lemma lanes_NoDup lay : NoDup (map snd lay) -> NoDup (lanes lay).
Proof.
  unfold lanes. induction lay as [|[k v] lay IH]; intro N; [constructor|]. cbn in N. inversion N as [|? ? Nv N']; subst.
  cbn [flat_map snd]. destruct (0 <=? v); cbn [app]; [|apply IH; exact N'].
  constructor; [|apply IH; exact N']. intro I. apply Nv. apply in_flat_map in I. destruct I as [[k' v'] [I1 I2]].
  cbn [snd] in I2. destruct (0 <=? v'); [|contradiction]. destruct I2 as [<-|[]]. apply in_map_iff. exists (k', v'). auto.
Qed.
Lemma in_lanes lay ch c : In (ch, c) lay -> 0 <= c -> In c (lanes lay).
Proof.
  intros I Hc. unfold lanes. apply in_flat_map. exists (ch, c). split; [exact I|]. cbn [snd].
  assert ((0 <=? c) = true) as -> by (apply Z.leb_le; exact Hc). left; reflexivity.
Qed.
Lemma lanes_in lay c : In c (lanes lay) -> exists ch, In (ch, c) lay /\ 0 <= c.
Proof.
  unfold lanes. intro I. apply in_flat_map in I. destruct I as [[k v] [I1 I2]]. cbn [snd] in I2.
  destruct (0 <=? v) eqn:E; [|contradiction]. destruct I2 as [<-|[]]. exists k. split; [exact I1|apply Z.leb_le; exact E].
Qed.
Lemma cols_NoDup n : NoDup (map Z.of_nat (seq 0 n)).
Proof. apply FinFun.Injective_map_NoDup; [intros a b; apply Nat2Z.inj|apply seq_NoDup]. Qed.
Lemma in_cols mk c : In c (map Z.of_nat (seq 0 (Z.to_nat mk))) <-> 0 <= c < mk.
Proof.
  rewrite in_map_iff. split.
  - intros [n [<- I]]. apply in_seq in I. lia.
  - intro H. exists (Z.to_nat c). split; [lia|]. apply in_seq. lia.
Qed.

Theorem lanes_layout_vs_columns lnobj lay mk objs H0 L0 : layout_facts mk lay ->
  lanes_denote lnobj lay objs (lanes lay) = Some (H0, L0) ->
  exists H L, lanes_denote lnobj lay objs (map Z.of_nat (seq 0 (Z.to_nat mk))) = Some (H, L)
              /\ Permutation H0 H /\ Permutation L0 L.
Proof.
  intros LF E. rewrite lanes_skip_empty in E. rewrite (lanes_skip_empty _ _ _ (map Z.of_nat _)).
  apply (lanes_perm lnobj lay objs _ _) with (2 := E).
  apply NoDup_Permutation.
  - apply NoDup_filter. apply lanes_NoDup. exact (lf_vals mk lay LF).
  - apply NoDup_filter. apply cols_NoDup.
  - intro c. rewrite !filter_In, in_cols. split; intros [I Ho]; (split; [|exact Ho]).
    + unfold has_obj in Ho. apply existsb_exists in Ho. destruct Ho as [o [_ Il]]. unfold in_lane in Il.
      rewrite lane_of_dict in Il. destruct (dict_get (o_chan o) lay) as [c'|] eqn:G; [|discriminate].
      destruct (0 <=? c') eqn:E0; [|discriminate]. apply Z.eqb_eq in Il. subst c'. apply Z.leb_le in E0.
      destruct (lf_range mk lay LF _ _ G) as [R _]. lia.
    + unfold has_obj in Ho. apply existsb_exists in Ho. destruct Ho as [o [_ Il]]. unfold in_lane in Il.
      rewrite lane_of_dict in Il. destruct (dict_get (o_chan o) lay) as [c'|] eqn:G; [|discriminate].
      destruct (0 <=? c') eqn:E0; [|discriminate]. apply Z.eqb_eq in Il. subst c'. apply Z.leb_le in E0.
      apply (in_lanes lay (o_chan o)); [apply dict_get_in; exact G|exact E0].
Qed.

(* the objects the lanes hold are objects of the text *)
Lemma pair_ln_incl lnobj : forall l prev hs ls, pair_ln lnobj prev l = Some (hs, ls) ->
  (forall h, In h hs -> prev = Some h \/ In h l)
  /\ (forall h t, In (h, t) ls -> (prev = Some h \/ In h l) /\ In t l).
Proof.
  induction l as [|o r IH]; intros prev hs ls H; cbn in H.
  - inversion H; subst. split.
    + intros h I. destruct prev as [p|]; [|contradiction]. destruct I as [<-|[]]. left; reflexivity.
    + intros h t [].
  - destruct (text_eqb (o_id o) lnobj).
    + destruct prev as [p|]; [|discriminate]. destruct (pair_ln lnobj None r) as [[hs' ls']|] eqn:E; [|discriminate].
      inversion H; subst. destruct (IH None hs ls' E) as [A B]. split.
      * intros h I. destruct (A h I) as [C|C]; [discriminate|]. right; right; exact C.
      * intros h t [I|I].
        -- inversion I; subst. split; [left; reflexivity|left; reflexivity].
        -- destruct (B h t I) as [[C|C] D]; [discriminate|]. split; [right; right; exact C|right; exact D].
    + destruct (pair_ln lnobj (Some o) r) as [[hs' ls']|] eqn:E; [|discriminate]. inversion H; subst.
      destruct (IH (Some o) hs' ls E) as [A B]. split.
      * intros h I. destruct prev as [p|].
        -- destruct I as [<-|I]; [left; reflexivity|]. destruct (A h I) as [C|C]; [inversion C; subst; right; left; reflexivity|right; right; exact C].
        -- destruct (A h I) as [C|C]; [inversion C; subst; right; left; reflexivity|right; right; exact C].
      * intros h t I. destruct (B h t I) as [[C|C] D].
        -- inversion C; subst. split; [right; left; reflexivity|right; exact D].
        -- split; [right; right; exact C|right; exact D].
Qed.

Lemma lanes_denote_incl lnobj lay objs : forall cols H L, lanes_denote lnobj lay objs cols = Some (H, L) ->
  (forall c o, In (c, o) H -> In o objs) /\ (forall c h t, In (c, (h, t)) L -> In h objs /\ In t objs).
Proof.
  induction cols as [|c cs IH]; intros H L E.
  - inversion E; subst. split; intros; contradiction.
  - rewrite lanes_denote_cons in E. destruct (lane_res lnobj lay objs c) as [[hs ls]|] eqn:R; [|discriminate].
    destruct (lanes_denote lnobj lay objs cs) as [[H1 L1]|]; [|discriminate]. inversion E; subst.
    destruct (IH H1 L1 eq_refl) as [A B]. unfold lane_res in R. destruct (pair_ln_incl _ _ _ _ _ R) as [P1 P2].
    assert (S : forall o, In o (sort_by obj_lt (filter (in_lane lay c) objs)) -> In o objs).
    { intros o I. apply (Permutation_in _ (Permutation_sym (sort_by_perm obj_lt _))) in I. apply filter_In in I. tauto. }
    split.
    + intros c' o I. apply in_app_or in I. destruct I as [I|I]; [|eapply A; exact I].
      apply in_map_iff in I. destruct I as [h [Eh I]]. inversion Eh; subst. destruct (P1 _ I) as [C|C]; [discriminate|auto].
    + intros c' h t I. apply in_app_or in I. destruct I as [I|I]; [|eapply B; exact I].
      apply in_map_iff in I. destruct I as [[h' t'] [Eh I]]. inversion Eh; subst.
      destruct (P2 _ _ I) as [[C|C] D]; [discriminate|auto].
Qed.

(* ================================================================ J. the tempo script of a text lies in C10's domain ================================================================ *)
Lemma no_dup_by_perm {A} (e : A -> A -> bool) (Hs : forall x y, e x y = e y x) l l' :
  Permutation l l' -> no_dup_by e l = true -> no_dup_by e l' = true.
Proof.
  assert (X : forall x l l', Permutation l l' -> existsb (e x) l = existsb (e x) l').
  { intros x l0 l0' P. destruct (existsb (e x) l0) eqn:E1; symmetry.
    - apply existsb_exists in E1. destruct E1 as [y [I Ey]]. apply existsb_exists. exists y. split; [|exact Ey].
      eapply Permutation_in; eassumption.
    - destruct (existsb (e x) l0') eqn:E2; [|reflexivity]. apply existsb_exists in E2. destruct E2 as [y [I Ey]].
      assert (existsb (e x) l0 = true) by (apply existsb_exists; exists y; split; [eapply Permutation_in; [apply Permutation_sym|]; eassumption|exact Ey]).
      congruence. }
  induction 1 as [|x l l' P IH|a b l|l l' l'' P1 IH1 P2 IH2]; cbn [no_dup_by]; intro H; auto.
  - apply andb_true_iff in H. destruct H as [H1 H2]. rewrite <- (X x l l' P), H1. apply IH. exact H2.
  - apply andb_true_iff in H. destruct H as [H1 H2]. apply andb_true_iff in H2. destruct H2 as [H2 H3].
    cbn [existsb] in *. apply negb_true_iff in H1, H2. apply orb_false_iff in H1. destruct H1 as [H1 H4].
    rewrite (Hs a b), H1, H2, H4, H3. reflexivity.
Qed.

Definition tnode (c : bcs) : Prop :=
  bs_met c = 4%Q /\ s_met (bs_snap c) = 4%Q /\ 0 <= s_m (bs_snap c) /\ (0 <= s_b (bs_snap c))%Q /\ (s_b (bs_snap c) < 4)%Q.

Lemma snap_of_facts o : obj_pos_ok o ->
  s_met (snap_of o) = 4%Q /\ 0 <= s_m (snap_of o) /\ (0 <= s_b (snap_of o))%Q /\ (s_b (snap_of o) < 4)%Q.
Proof.
  intros [Hm [P0 P1]]. unfold snap_of, BEATS_PER_MEASURE. cbn [s_met s_m s_b]. rewrite Qred_correct. repeat split; auto; lra.
Qed.

Lemma snap_eq_same_pos a b : snap_eq (snap_of a) (snap_of b) = true -> same_pos a b = true.
Proof.
  unfold snap_eq, same_pos, snap_of, BEATS_PER_MEASURE. cbn [s_m s_b]. intro H. apply andb_true_iff in H. destruct H as [H1 H2].
  rewrite H1. cbn [andb]. apply Qeq_bool_iff in H2. rewrite !Qred_correct in H2. apply Qeq_bool_iff. lra.
Qed.

Lemma tempo_of_obj_tchan ext o : tempo_of_obj ext o <> None -> tchan o = true.
Proof.
  unfold tempo_of_obj, tchan, is_tempo_chan. destruct (text_eqb (o_chan o) CH_BPM); [reflexivity|].
  destruct (text_eqb (o_chan o) CH_EXBPM); [reflexivity|]. intro H. exfalso. apply H. reflexivity.
Qed.

Lemma tempo_objs_facts ext : forall os tl, tempo_objs ext os = Some tl ->
  Forall obj_pos_ok os -> no_dup_by same_pos (filter tchan os) = true ->
  no_dup_by pos_eqb tl = true /\ Forall tnode tl
  /\ (forall c, In c tl -> exists o, In o (filter tchan os) /\ bs_snap c = snap_of o).
Proof.
  induction os as [|o r IH]; intros tl H Fp Nd.
  - inversion H; subst. repeat split; [constructor|]. intros c [].
  - rewrite tempo_objs_cons in H. inversion Fp as [|? ? Po Fp']; subst.
    destruct (tempo_objs ext r) as [l|] eqn:E.
    2:{ destruct (tempo_of_obj ext o) as [[q|]|]; discriminate. }
    destruct (tempo_of_obj ext o) as [[q|]|] eqn:T.
    + assert (Tc : tchan o = true) by (apply (tempo_of_obj_tchan ext); congruence).
      cbn [filter] in Nd. rewrite Tc in Nd. cbn [no_dup_by] in Nd. apply andb_true_iff in Nd. destruct Nd as [N1 N2].
      destruct (IH l eq_refl Fp' N2) as [A [B C]]. inversion H; subst tl. cbn [filter]. rewrite Tc. split; [|split].
      * cbn [no_dup_by]. rewrite A, andb_true_r. apply negb_true_iff.
        destruct (existsb _ l) eqn:X; [|reflexivity]. exfalso. apply existsb_exists in X. destruct X as [c [Ic Ec]].
        destruct (C c Ic) as [o' [Io' Es]]. unfold pos_eqb in Ec. cbn [bs_snap] in Ec. rewrite Es in Ec.
        apply snap_eq_same_pos in Ec. apply negb_true_iff in N1.
        assert (existsb (same_pos o) (filter tchan r) = true) by (apply existsb_exists; exists o'; auto). congruence.
      * constructor; [|exact B]. destruct (snap_of_facts o Po) as [S1 [S2 [S3 S4]]].
        unfold tnode. cbn [bs_met bs_snap]. repeat split; auto.
      * intros c [<-|Ic]; [exists o; split; [left; reflexivity|reflexivity]|].
        destruct (C c Ic) as [o' [Io' Es]]. exists o'. split; [right; exact Io'|exact Es].
    + discriminate.
    + inversion H; subst tl. cbn [filter] in *. destruct (tchan o).
      * cbn [no_dup_by] in Nd. apply andb_true_iff in Nd. destruct Nd as [_ N2].
        destruct (IH l eq_refl Fp' N2) as [A [B C]]. repeat split; auto.
        intros c Ic. destruct (C c Ic) as [o' [Io' Es]]. exists o'. split; [right; exact Io'|exact Es].
      * apply IH; auto.
Qed.

Definition SLE (a b : bcs) : Prop := sle (bs_snap a) (bs_snap b).

Lemma sorted_bcs l : StronglySorted SLE (sort_by bcs_lt l).
Proof.
  apply (sort_sorted_gen bcs_lt SLE).
  - intros x y H. unfold bcs_lt in H. apply snap_lt_iff in H. apply slt_sle. exact H.
  - intros x y H. unfold bcs_lt in H. destruct (sle_total (bs_snap y) (bs_snap x)) as [S|S]; [exact S|].
    apply snap_lt_iff in S. congruence.
  - intros x y z. apply sle_trans.
Qed.

Lemma sle_neq_slt a b : sle a b -> snap_eq a b = false -> slt a b.
Proof.
  unfold sle, slt, snap_eq. intros [H|[H1 H2]] E; [left; exact H|]. right. split; [exact H1|].
  rewrite H1, Z.eqb_refl in E. cbn [andb] in E.
  destruct (Qlt_le_dec (s_b a) (s_b b)) as [L|L]; [exact L|]. exfalso.
  assert (Qeq_bool (s_b a) (s_b b) = true) by (apply Qeq_bool_iff; lra). congruence.
Qed.

Section ScriptDomain.
  Variable tbl : list Q.

  Lemma tnode_node_okb c : tnode c -> (0 < bs_bpm c)%Q -> node_okb c = true.
  Proof.
    intros [M [SM [Hm [B0 B4]]]] Hb. unfold node_okb, wfcb. rewrite M, SM.
    assert (Qlt_bool 0 (bs_bpm c) = true) as -> by (apply Qlt_bool_iff; exact Hb).
    assert ((0 <=? s_m (bs_snap c)) = true) as -> by (apply Z.leb_le; exact Hm).
    assert (Qle_bool 0 (s_b (bs_snap c)) = true) as -> by (apply Qle_bool_iff; exact B0).
    assert (Qlt_bool (s_b (bs_snap c)) 4 = true) as -> by (apply Qlt_bool_iff; exact B4).
    reflexivity.
  Qed.

  Lemma chain_script_okb : forall rest p,
    StronglySorted SLE (p :: rest) -> no_dup_by pos_eqb (p :: rest) = true ->
    Forall tnode (p :: rest) -> Forall (fun c => (0 < bs_bpm c)%Q) (p :: rest) ->
    pairwise_grid tbl p rest = true -> script_okb tbl p rest = true.
  Proof.
    induction rest as [|c rest IH]; intros p Ss Nd Ft Fb Pg; [reflexivity|].
    cbn [script_okb]. apply StronglySorted_inv in Ss. destruct Ss as [Ss Fp].
    cbn [no_dup_by] in Nd. apply andb_true_iff in Nd. destruct Nd as [N1 N2].
    inversion Ft as [|? ? Tp Ft']; subst. inversion Fb as [|? ? Bp Fb']; subst.
    cbn [pairwise_grid] in Pg. apply andb_true_iff in Pg. destruct Pg as [G1 G2].
    rewrite (IH c Ss N2 Ft' Fb' G2), andb_true_r.
    inversion Ft' as [|? ? Tc _]; subst. inversion Fb' as [|? ? Bc _]; subst. inversion Fp as [|? ? Lpc _]; subst.
    unfold step_okb. rewrite (tnode_node_okb c Tc Bc).
    cbn [existsb] in N1. apply negb_true_iff in N1. apply orb_false_iff in N1. destruct N1 as [N1 _].
    assert (snap_lt (bs_snap p) (bs_snap c) = true) as ->.
    { apply snap_lt_iff. apply sle_neq_slt; [exact Lpc|exact N1]. }
    destruct Tp as [Mp _]. destruct Tc as [_ [_ [_ [_ B4]]]]. rewrite Mp in *.
    assert (Qlt_bool (s_b (bs_snap c)) 4 = true) as -> by (apply Qlt_bool_iff; exact B4).
    cbn [andb]. unfold on_gridb. exact G1.
  Qed.

  Lemma tnode_origin b : tnode (origin_bcs b).
  Proof. unfold tnode, origin_bcs, BEATS_PER_MEASURE. cbn. repeat split; try reflexivity; try lia; lra. Qed.

  Lemma at_origin_iff s : at_origin s = true <-> s_m s = 0 /\ (s_b s == 0)%Q.
  Proof. unfold at_origin. rewrite andb_true_iff, Z.eqb_eq, Qeq_bool_iff. reflexivity. Qed.

  (* the script of the text: in C10's domain for every list of queries at non-negative positions *)
  Theorem script_in_domain bpm0 tempos qs :
    Forall tnode tempos -> no_dup_by pos_eqb tempos = true ->
    Forall (fun c => (0 < bs_bpm c)%Q) (script_of bpm0 tempos) ->
    match script_of 1 tempos with c :: r => pairwise_grid tbl c r | [] => true end = true ->
    Forall (fun q => 0 <= s_m q /\ (0 <= s_b q)%Q) qs ->
    domainb tbl (script_of bpm0 tempos) qs = true.
  Proof.
    intros Ft Nd Fb Pg Fq.
    assert (Pm : Permutation tempos (sort_by bcs_lt tempos)) by apply sort_by_perm.
    assert (Fts : Forall tnode (sort_by bcs_lt tempos)).
    { apply Forall_forall. intros c I. rewrite Forall_forall in Ft. apply Ft. eapply Permutation_in; [apply Permutation_sym; exact Pm|exact I]. }
    assert (Nds : no_dup_by pos_eqb (sort_by bcs_lt tempos) = true).
    { apply (no_dup_by_perm pos_eqb) with (l := tempos); auto.
      intros x y. unfold pos_eqb, snap_eq. rewrite (Z.eqb_sym (s_m (bs_snap x))).
      f_equal. destruct (Qeq_bool (s_b (bs_snap x)) (s_b (bs_snap y))) eqn:E; symmetry.
      - apply Qeq_bool_iff. apply Qeq_bool_iff in E. symmetry. exact E.
      - destruct (Qeq_bool (s_b (bs_snap y)) (s_b (bs_snap x))) eqn:E2; [|reflexivity].
        apply Qeq_bool_iff in E2. assert (Qeq_bool (s_b (bs_snap x)) (s_b (bs_snap y)) = true) by (apply Qeq_bool_iff; symmetry; exact E2). congruence. }
    pose proof (sorted_bcs tempos) as Ss.
    (* the query clause, for any head at the origin *)
    assert (Qok : forall c0, at_origin (bs_snap c0) = true ->
              forallb (fun q => snap_le (bs_snap c0) q && Qle_bool 0 (s_b q)) qs = true).
    { intros c0 O. apply at_origin_iff in O. destruct O as [O1 O2]. apply forallb_forall. intros q I.
      rewrite Forall_forall in Fq. destruct (Fq q I) as [Q1 Q2]. apply andb_true_iff. split; [|apply Qle_bool_iff; exact Q2].
      apply snap_le_iff. unfold sle. rewrite O1. destruct (Z.eq_dec (s_m q) 0) as [E|E]; [right; split; [lia|rewrite O2; exact Q2]|left; lia]. }
    unfold script_of in *. change (fun a b : bcs => snap_lt (bs_snap a) (bs_snap b)) with bcs_lt in *.
    change (mkBcs bpm0 BEATS_PER_MEASURE (mkSnap 0 0 BEATS_PER_MEASURE)) with (origin_bcs bpm0) in *.
    change (mkBcs 1 BEATS_PER_MEASURE (mkSnap 0 0 BEATS_PER_MEASURE)) with (origin_bcs 1) in *.
    destruct (sort_by bcs_lt tempos) as [|c r] eqn:Es.
    - (* no tempo objects *)
      unfold domainb. inversion Fb as [|? ? Bp _]; subst.
      rewrite (tnode_node_okb _ (tnode_origin bpm0) Bp). cbn [script_okb andb]. rewrite (Qok (origin_bcs bpm0) eq_refl). reflexivity.
    - destruct (at_origin (bs_snap c)) eqn:O.
      + (* the first tempo object sits at the origin *)
        unfold domainb. inversion Fb as [|? ? Bp _]; subst. inversion Fts as [|? ? Tc _]; subst.
        rewrite (tnode_node_okb c Tc Bp). pose proof O as O'. apply at_origin_iff in O'. destruct O' as [O1 O2].
        assert ((s_m (bs_snap c) =? 0) = true) as -> by (apply Z.eqb_eq; exact O1).
        assert (Qeq_bool (s_b (bs_snap c)) 0 = true) as -> by (apply Qeq_bool_iff; exact O2).
        rewrite (chain_script_okb r c Ss Nds Fts Fb Pg). rewrite (Qok c O). reflexivity.
      + (* the header tempo stays first *)
        unfold domainb. inversion Fb as [|? ? Bp Fb']; subst.
        rewrite (tnode_node_okb _ (tnode_origin bpm0) Bp). rewrite (Qok (origin_bcs bpm0) eq_refl), andb_true_r.
        assert ((s_m (bs_snap (origin_bcs bpm0)) =? 0) = true) as -> by reflexivity.
        assert (Qeq_bool (s_b (bs_snap (origin_bcs bpm0))) 0 = true) as -> by reflexivity.
        cbn [andb].
        apply chain_script_okb.
        * constructor; [exact Ss|]. apply Forall_forall. intros x I. rewrite Forall_forall in Fts. destruct (Fts x I) as [_ [_ [Hm [B0 _]]]].
          unfold SLE, sle. cbn [origin_bcs bs_snap s_m s_b]. destruct (Z.eq_dec (s_m (bs_snap x)) 0) as [E|E]; [right; split; [lia|exact B0]|left; lia].
        * change (no_dup_by pos_eqb (origin_bcs bpm0 :: c :: r))
            with (negb (existsb (pos_eqb (origin_bcs bpm0)) (c :: r)) && no_dup_by pos_eqb (c :: r)).
          rewrite Nds, andb_true_r. apply negb_true_iff.
          destruct (existsb _ (c :: r)) eqn:X; [|reflexivity]. exfalso. apply existsb_exists in X. destruct X as [x [I Ex]].
          unfold pos_eqb, snap_eq in Ex. cbn [origin_bcs bs_snap s_m s_b] in Ex. apply andb_true_iff in Ex. destruct Ex as [E1 E2].
          apply Z.eqb_eq in E1. apply Qeq_bool_iff in E2.
          (* then the head c, below x, is at the origin too *)
          assert (Lcx : SLE c x).
          { destruct I as [<-|I]; [right; split; [reflexivity|lra]|].
            apply StronglySorted_inv in Ss. destruct Ss as [_ Fc]. rewrite Forall_forall in Fc. apply Fc. exact I. }
          inversion Fts as [|? ? Tc _]; subst. destruct Tc as [_ [_ [Hm [B0 _]]]].
          assert (at_origin (bs_snap c) = true); [|congruence].
          apply at_origin_iff. unfold SLE, sle in Lcx. destruct Lcx as [L|[L1 L2]]; [lia|]. split; [lia|lra].
        * constructor; [apply tnode_origin|exact Fts].
        * constructor; [exact Bp|exact Fb'].
        * exact Pg.
  Qed.
End ScriptDomain.

(* ================================================================ K. the parsing refinement ================================================================ *)
Lemma Q_same_refl a : Q_same a a = true.
Proof. unfold Q_same. rewrite Z.eqb_refl, Pos.eqb_refl. reflexivity. Qed.
Lemma snap_same_refl a : snap_same a a = true.
Proof. unfold snap_same. rewrite Z.eqb_refl, !Q_same_refl. reflexivity. Qed.
Lemma bcs_same_refl a : bcs_same a a = true.
Proof. unfold bcs_same. rewrite !Q_same_refl, snap_same_refl. reflexivity. Qed.
Lemma lobj_same_refl a : lobj_same a a = true.
Proof. unfold lobj_same. rewrite Z.eqb_refl, snap_same_refl, text_eqb_refl. reflexivity. Qed.
Lemma list_same_refl {A} (e : A -> A -> bool) (He : forall x, e x x = true) l : list_same e l l = true.
Proof. induction l as [|x l IH]; cbn; [reflexivity|]. rewrite He, IH. reflexivity. Qed.

Lemma qsnap_ok o : obj_pos_ok o -> 0 <= s_m (qsnap o) /\ (0 <= s_b (qsnap o))%Q.
Proof. intro P. destruct (snap_of_facts o P) as [_ [A [B _]]]. unfold qsnap. cbn [s_m s_b]. split; assumption. Qed.

Section Refinement.
  Variable tbl : list Q.

  (* clause (i) and the rest of read_theorem_domain, from the text alone *)
  Theorem bms_text_in_domain (lay : layout) (mk : Z) (lines : list text) :
    layout_ok mk lay = true -> text_dom lay lines -> read_guards tbl lines = true ->
    read_theorem_domain tbl lay mk lines = true.
  Proof.
    intros Lok TD G. pose proof (layout_ok_facts mk lay Lok) as LF.
    destruct (td_denote lay lines TD) as [d [Hd Pos]].
    destruct (bms_denote_inv lay lines d Hd) as [bv [bpm0 [tempos [extq [hits [holds [Hb [Hp [Ht [Hq [Hl R]]]]]]]]]]].
    cbv zeta in R. destruct R as [_ [_ [Rt _]]].
    destruct (read_state_wf lay mk lines bv bpm0 tempos extq LF TD Hb Hp Ht Hq)
      as [meta [st [Rs [Sb [So [Mb [_ [_ [Ml _]]]]]]]]].
    unfold read_theorem_domain. rewrite Rs. fold (sobjs_of lines). rewrite Ht. rewrite Sb, So, Mb.
    rewrite (list_same_refl bcs_same bcs_same_refl), (list_same_refl lobj_same lobj_same_refl). cbn [andb].
    pose proof (sobjs_ok lines (td_data lay lines TD)) as Fo.
    destruct (tempo_objs_facts _ _ _ Ht Fo (td_tempo_pos lay lines TD)) as [Nd [Ft _]].
    (* the guards *)
    unfold read_guards, tempo_on_grid in G. fold (sobjs_of lines) in G. rewrite Ht in G.
    apply andb_true_iff in G. destruct G as [Pg Of]. rewrite Of, andb_true_r.
    assert (forallb nonneg_snap tempos = true) as ->.
    { apply forallb_forall. intros c I. rewrite Forall_forall in Ft. destruct (Ft c I) as [_ [_ [Hm [B0 _]]]].
      unfold nonneg_snap. apply andb_true_iff. split; [apply Z.leb_le; exact Hm|apply Qle_bool_iff; exact B0]. }
    cbn [andb].
    (* lanes: layout order -> columns ascending *)
    rewrite Ml.
    destruct (lanes_layout_vs_columns _ lay mk _ _ _ LF Hl) as [Hs [Ls [El _]]]. rewrite El.
    destruct (lanes_denote_incl _ _ _ _ _ _ El) as [Ih Il].
    assert (Fb : Forall (fun c => (0 < bs_bpm c)%Q) (script_of bpm0 tempos)).
    { rewrite Rt in Pos. rewrite forallb_forall in Pos. apply Forall_forall. intros c I.
      apply Qlt_bool_iff. apply (Pos (Qred (time_of 0 (script_of bpm0 tempos) (bs_snap c)), bs_bpm c)).
      apply in_map_iff. exists c. split; [reflexivity|exact I]. }
    rewrite Forall_forall in Fo.
    rewrite !(script_in_domain tbl bpm0 tempos _ Ft Nd Fb Pg); [reflexivity| | |].
    - apply Forall_forall. intros q I. apply in_map_iff in I. destruct I as [[c [h t]] [<- I]]. cbn [snd].
      apply qsnap_ok. apply Fo. destruct (Il _ _ _ I); assumption.
    - apply Forall_forall. intros q I. apply in_map_iff in I. destruct I as [[c [h t]] [<- I]]. cbn [snd fst].
      apply qsnap_ok. apply Fo. destruct (Il _ _ _ I); assumption.
    - apply Forall_forall. intros q I. apply in_map_iff in I. destruct I as [[c o] [<- I]]. cbn [snd].
      apply qsnap_ok. apply Fo. eapply Ih; exact I.
  Qed.

  Corollary bms_wf_in_domain (lay : layout) (mk : Z) (lines : list text) :
    layout_ok mk lay = true -> wf_bms_lines lay lines = true -> read_guards tbl lines = true ->
    read_theorem_domain tbl lay mk lines = true.
  Proof. intros L W G. apply bms_text_in_domain; auto. apply wf_text_dom. exact W. Qed.
End Refinement.

(* ================================================================ L. whole file: bms_read text = bms_denote text, up to row order ================================================================ *)
Lemma forall2_map_left {A B C} (f : A -> C) (P : C -> B -> Prop) l r :
  Forall2 (fun a b => P (f a) b) l r -> Forall2 P (map f l) r.
Proof. induction 1; cbn; constructor; auto. Qed.

Lemma smp_of_sample_of wav id : smp_of wav id = sample_of wav id.
Proof. unfold smp_of, sample_of. rewrite <- (hlookup_dict_get id wav). reflexivity. Qed.

Section WholeFile.
  Variable tbl : list Q.
  Hypothesis Hok : table_ok (1 # 96) tbl = true.

  Theorem bms_read_text_denotes (lay : layout) (mk : Z) (lines : list text) (c : bms_chart) :
    layout_ok mk lay = true -> text_dom lay lines -> read_guards tbl lines = true ->
    bms_read tbl lay mk lines = Some c ->
    exists d, bms_denote lay lines = Some d /\ chart_denotes c d.
  Proof.
    intros Lok TD G R. pose proof (layout_ok_facts mk lay Lok) as LF.
    pose proof (bms_text_in_domain tbl lay mk lines Lok TD G) as Dom.
    destruct (bms_read_denotes tbl Hok lay mk lines c Dom R) as [tempos' [Hs [Ls [Ht' [El [Fh Fl]]]]]].
    destruct (td_denote lay lines TD) as [d [Hd _]]. exists d. split; [exact Hd|].
    destruct (bms_denote_inv lay lines d Hd) as [bv [bpm0 [tempos [extq [hits [holds [Hb [Hp [Ht [Hq [Hl Rd]]]]]]]]]]].
    cbv zeta in Rd. destruct Rd as [Rh [Rl [_ [Rhd [Rx [Rw [Rn _]]]]]]].
    destruct (read_state_wf lay mk lines bv bpm0 tempos extq LF TD Hb Hp Ht Hq)
      as [meta [st [Rs [_ [_ [Mb [Mx [Ms [Ml [Mt [Ma [Mv Rfh]]]]]]]]]]]].
    (* the chart's metadata is the header table's *)
    assert (Em : c_meta c = meta).
    { rewrite bms_read_via_state, Rs in R. destruct (notes_of_state tbl mk meta st) as [[[a b] e]|]; [|discriminate].
      inversion R; reflexivity. }
    fold (sobjs_of lines) in Ht', El. rewrite Ht in Ht'. inversion Ht'; subst tempos'. clear Ht'.
    rewrite Em in *. rewrite Mb, Ms in *. rewrite Ml in El.
    destruct (lanes_layout_vs_columns _ lay mk _ _ _ LF Hl) as [Hs' [Ls' [El' [PH PL]]]].
    rewrite El in El'. inversion El'; subst Hs' Ls'. clear El'.
    unfold chart_denotes. rewrite Em, Rhd, Rx, Rw, Rn, Mt, Ma, Mv, Ml, Mx, Ms.
    split; [|split].
    - eexists. split; [rewrite Rh; apply Permutation_map; apply Permutation_sym; exact PH|].
      apply forall2_map_left. eapply forall2_impl; [|exact Fh]. intros [cc o] h [A [B C]]. cbn [fst snd] in *.
      unfold hit_matches. cbn [sh_col sh_time sh_sample]. rewrite Qred_correct, <- smp_of_sample_of. auto.
    - eexists. split; [rewrite Rl; apply Permutation_map; apply Permutation_sym; exact PL|].
      apply forall2_map_left. eapply forall2_impl; [|exact Fl]. intros [cc [h t]] l [A [B [C D]]]. cbn [fst snd] in *.
      unfold hold_matches. cbn [sl_col sl_time sl_len sl_sample]. rewrite !Qred_correct, <- smp_of_sample_of. auto.
    - repeat split; try reflexivity.
      intros k v I Nb Nw Nk. destruct (read_header_retains _ _ Rfh) as [_ [_ [_ [_ [_ [_ [_ M]]]]]]].
      pose proof (td_key_ok lay lines TD) as Ko. rewrite Forall_forall in Ko. destruct (Ko (k, v) I) as [Kl [Kw _]]. cbn [fst] in Kl, Kw.
      apply M; auto.
      + unfold is_exbpm_key. rewrite (map_upper_id k Kl). exact Nb.
      + unfold is_wav_key. rewrite (map_upper_id k Kl). change K_WAV with S_WAV.
        destruct (starts_with S_WAV k) eqn:E; [|reflexivity]. unfold is_table_key in Nw. rewrite E, (Kw eq_refl) in Nw. discriminate.
      + apply text_eqb_neq. intro E. apply Nk. symmetry. exact E.
  Qed.

  Corollary bms_read_wf_denotes (lay : layout) (mk : Z) (lines : list text) (c : bms_chart) :
    layout_ok mk lay = true -> wf_bms_lines lay lines = true -> read_guards tbl lines = true ->
    bms_read tbl lay mk lines = Some c ->
    exists d, bms_denote lay lines = Some d /\ chart_denotes c d.
  Proof. intros L W G R. apply (bms_read_text_denotes lay mk lines c L (wf_text_dom lay lines W) G R). Qed.
End WholeFile.
