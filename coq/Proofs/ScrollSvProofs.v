(* Proofs for C19, scroll_speed on charts WITH an SV list (osu!, Quaver): all inputs of the domain.
   The SV table (tempo resets / head-tail markers / SV rows, groupby-last, ffill) carries [sv_at] at every key;
   the bpm frame has one row per key; the outer merge yields one row per key; ffill of the bpm column over
   SV-only keys keeps the active bpm.  No side condition beyond [wf_chart] is needed: SVs may coincide with each
   other (last in row order wins, in the model as in the specification), with tempo points, lie before the first
   tempo point or after the last note. *)
From Coq Require Import ZArith QArith Qabs List Bool Lia Lqa Permutation.
From RV Require Import Base.PyNum Algo.DominantBpm Algo.ScrollSpeed Algo.AnalysisSpec Proofs.AnalysisProofs.
Import ListNotations.
Open Scope Q_scope.

(* ------------------------------------------------------------------ comparisons respect == ; step functions *)
Lemma Qle_bool_compat_r a t t' : t == t' -> Qle_bool a t = Qle_bool a t'.
Proof. intro H. destruct (Qle_bool a t) eqn:E1, (Qle_bool a t') eqn:E2; try reflexivity; qbool; lra. Qed.

Lemma latest_le_ext t t' rows : forall acc,
  (forall r, In r rows -> Qle_bool (fst r) t = Qle_bool (fst r) t') -> latest_le t rows acc = latest_le t' rows acc.
Proof.
  induction rows as [|a rows IH]; intros acc H; cbn [latest_le]; [reflexivity|].
  rewrite (H a (or_introl eq_refl)). apply IH. intros r Hr. apply H. right. exact Hr.
Qed.

(* the active bpm / SV multiplier only change at tempo / SV times *)
Lemma bpm_at_ext c t t' :
  (forall r, In r (c_bpms c) -> Qle_bool (fst r) t = Qle_bool (fst r) t') -> bpm_at c t = bpm_at c t'.
Proof. intro H. unfold bpm_at. rewrite (latest_le_ext t t' _ None H). reflexivity. Qed.

Lemma sv_at_ext c t t' :
  (forall r, In r (c_bpms c) -> Qle_bool (fst r) t = Qle_bool (fst r) t') ->
  (forall r, In r (sv_rows c) -> Qle_bool (fst r) t = Qle_bool (fst r) t') -> sv_at c t = sv_at c t'.
Proof.
  intros H1 H2. unfold sv_at, sv_rows in *. destruct (c_svs c) as [svs|]; [|reflexivity].
  rewrite (latest_le_ext t t' svs None H2), (latest_le_ext t t' _ None H1). reflexivity.
Qed.

Lemma bpm_at_compat c t t' : t == t' -> bpm_at c t = bpm_at c t'.
Proof. intro H. apply bpm_at_ext. intros r _. apply Qle_bool_compat_r. exact H. Qed.
Lemma sv_at_compat c t t' : t == t' -> sv_at c t = sv_at c t'.
Proof. intro H. apply sv_at_ext; intros r _; apply Qle_bool_compat_r; exact H. Qed.

(* ------------------------------------------------------------------ sorted, de-duplicated key lists *)
Fixpoint wsorted (l : list Q) : Prop :=
  match l with [] => True | a :: t => (forall x, In x t -> a <= x) /\ wsorted t end.

Lemma qinsert_wsorted x l : wsorted l -> wsorted (qinsert x l).
Proof.
  induction l as [|y l IH]; cbn [qinsert wsorted]; intro H; [split; [intros ? []|exact I]|].
  destruct H as [H1 H2]. destruct (Qle_bool x y) eqn:E; qbool; cbn [wsorted].
  - split; [|split; assumption]. intros z [Hz|Hz]; [subst; exact E|]. specialize (H1 z Hz). lra.
  - split; [|apply IH; exact H2]. intros z Hz. apply qinsert_in in Hz. destruct Hz as [Hz|Hz]; [subst; lra|auto].
Qed.
Lemma qsort_wsorted l : wsorted (qsort l).
Proof. induction l as [|x l IH]; cbn [qsort]; [exact I|]. apply qinsert_wsorted. exact IH. Qed.

Lemma qdedup_ssorted l : wsorted l -> ssorted (qdedup_sorted l).
Proof.
  induction l as [|a l IH]; [simpl; tauto|]. destruct l as [|b t]; [simpl; intros; split; [intros ? []|exact I]|].
  intros [H1 H2]. change (ssorted (if Qeq_bool a b then qdedup_sorted (b :: t) else a :: qdedup_sorted (b :: t))).
  destruct (Qeq_bool a b) eqn:E; [apply IH; exact H2|].
  split; [|apply IH; exact H2]. intros x Hx. apply qdedup_in in Hx.
  assert (Lab: a < b).
  { pose proof (H1 b (or_introl eq_refl)) as Le. destruct (Qlt_le_dec a b) as [L|L]; [exact L|]. exfalso.
    assert (X: a == b) by lra. apply Qeq_bool_true in X. congruence. }
  destruct Hx as [Hx|Hx]; [subst; exact Lab|]. destruct H2 as [H2 _]. specialize (H2 x Hx). lra.
Qed.

Definition dkeys (l : list Q) : list Q := qdedup_sorted (qsort l).
Lemma dkeys_ssorted l : ssorted (dkeys l).
Proof. apply qdedup_ssorted. apply qsort_wsorted. Qed.
Lemma dkeys_in k l : In k (dkeys l) -> In k l.
Proof. intro H. apply qdedup_in in H. exact (proj1 (qsort_in _ _) H). Qed.
Lemma dkeys_covers x l : In x l -> exists k, In k (dkeys l) /\ k == x.
Proof. intro H. apply qdedup_covers. exact (proj2 (qsort_in _ _) H). Qed.
Lemma dkeys_first l k0 rest : dkeys l = k0 :: rest -> In k0 l /\ forall x, In x l -> k0 <= x.
Proof.
  intro E. split; [apply dkeys_in; rewrite E; left; reflexivity|]. intros x Hx.
  destruct (dkeys_covers x l Hx) as [kk [Hk Ek]]. pose proof (dkeys_ssorted l) as S. rewrite E in S, Hk.
  destruct S as [S1 _]. destruct Hk as [Hk|Hk]; [subst; lra|]. specialize (S1 kk Hk). lra.
Qed.

Lemma ssorted_qdistinct l : ssorted l -> qdistinct l.
Proof.
  induction l as [|a l IH]; simpl; [tauto|]. intros [H1 H2]. split; [|auto].
  intros x Hx E. specialize (H1 x Hx). lra.
Qed.

Lemma ssorted_adjacent pre k' k rest x :
  ssorted (pre ++ k' :: k :: rest) -> In x (pre ++ k' :: k :: rest) -> x <= k' \/ k <= x.
Proof.
  intros S Hx. destruct (ssorted_app_inv _ _ S) as [[S1 [S2 _]] R].
  apply in_app_or in Hx. destruct Hx as [Hx|[Hx|[Hx|Hx]]].
  - left. apply Qlt_le_weak. apply (R x k'); [exact Hx|left; reflexivity].
  - subst. left. lra.
  - subst. right. lra.
  - right. apply Qlt_le_weak. apply S2. exact Hx.
Qed.

(* ------------------------------------------------------------------ ffill of a column over strictly ordered keys:
   a pointwise property [P key value] that holds at every filled cell and is carried from a key to the NEXT key
   whenever that one's cell is empty holds at every cell after the forward fill *)
Section Step.
  Variables (P : Q -> Q -> Prop) (f : Q -> option Q) (all : list Q).
  Hypothesis Sall : ssorted all.
  Hypothesis H1 : forall k v, In k all -> f k = Some v -> P k v.
  Hypothesis H2 : forall k' k, k' < k -> (forall x, In x all -> x <= k' \/ k <= x) -> In k all -> f k = None ->
                  forall v, P k' v -> P k v.

  Lemma ffill_step : forall keys pre prev, all = pre ++ keys ->
    match lastopt pre with
    | Some k' => exists v, prev = Some v /\ P k' v
    | None => match keys with k :: _ => f k <> None | [] => True end
    end ->
    forall r, In r (ffill_go prev (map (fun k => (k, f k)) keys)) -> exists v, snd r = Some v /\ P (fst r) v.
  Proof.
    induction keys as [|k keys IH]; intros pre prev E Hp r Hr; [destruct Hr|].
    cbn [map ffill_go] in Hr.
    assert (Hk: In k all) by (rewrite E; apply in_or_app; right; left; reflexivity).
    assert (Hv: exists v, match f k with Some _ => f k | None => prev end = Some v /\ P k v).
    { destruct (f k) as [v|] eqn:Ef.
      - exists v. split; [reflexivity|]. apply H1; assumption.
      - destruct (lastopt pre) as [k'|] eqn:El.
        + destruct Hp as [v [Ep Pv]]. exists v. split; [exact Ep|].
          destruct (lastopt_split _ _ El) as [pre' E']. subst pre.
          rewrite <- app_assoc in E. cbn [app] in E. pose proof Sall as S'. rewrite E in S'.
          apply (H2 k' k); try assumption.
          * destruct (ssorted_app_inv _ _ S') as [[S1 _] _]. apply S1. left. reflexivity.
          * intros x Hx. rewrite E in Hx. exact (ssorted_adjacent _ _ _ _ x S' Hx).
        + exfalso. apply Hp. reflexivity. }
    destruct Hv as [v [Ev Pv]]. rewrite Ev in Hr. destruct Hr as [Hr|Hr].
    - subst r. exists v. split; [reflexivity|exact Pv].
    - apply (IH (pre ++ [k]) (Some v)); [rewrite <- app_assoc; exact E| |exact Hr].
      rewrite lastopt_snoc. exists v. split; [reflexivity|exact Pv].
  Qed.

  Lemma ffill_step_all :
    match all with k :: _ => f k <> None | [] => True end ->
    forall r, In r (ffill (map (fun k => (k, f k)) all)) -> exists v, snd r = Some v /\ P (fst r) v.
  Proof. intros H0 r Hr. exact (ffill_step all [] None eq_refl H0 r Hr). Qed.
End Step.

Lemma ffill_go_all_some L : forall p, (forall x, In x L -> snd x <> None) -> ffill_go p L = L.
Proof.
  induction L as [|[k v] L IH]; intros p H; [reflexivity|].
  destruct v as [v|]; [|exfalso; apply (H (k, None)); [left|]; reflexivity].
  cbn [ffill_go]. f_equal. apply IH. intros x Hx. apply H. right. exact Hx.
Qed.

Lemma map_key_id {B} (f : Q -> B) K : map fst (map (fun k => (k, f k)) K) = K.
Proof. rewrite map_map. cbn [fst]. apply map_id. Qed.

(* ------------------------------------------------------------------ groupby("offset").last() on the SV table *)
Fixpoint last_at (k : Q) (svs : list (Q * Q)) (acc : option (Q * Q)) : option (Q * Q) :=
  match svs with [] => acc | r :: t => last_at k t (if Qeq_bool (fst r) k then Some r else acc) end.

Lemma last_nonnull_app k A B : forall acc, last_nonnull k (A ++ B) acc = last_nonnull k B (last_nonnull k A acc).
Proof. induction A as [|[o v] A IH]; intro acc; cbn [app last_nonnull]; [reflexivity|]. destruct (Qeq_bool o k); apply IH. Qed.

Lemma last_nonnull_svs k svs : forall acc lacc,
  last_nonnull k (map (fun r : Q * Q => (fst r, Some (snd r))) svs) (match lacc with Some s => Some (snd s) | None => acc end)
  = match last_at k svs lacc with Some s => Some (snd s) | None => acc end.
Proof.
  induction svs as [|r svs IH]; intros acc lacc; [reflexivity|]. cbn [map last_nonnull last_at fst snd].
  destruct (Qeq_bool (fst r) k).
  - apply (IH acc (Some r)).
  - apply IH.
Qed.

Lemma last_nonnull_resets k (bpms : list (Q * Q)) : forall acc,
  last_nonnull k (map (fun r : Q * Q => (fst r, Some 1)) bpms) acc
  = if existsb (fun r => Qeq_bool (fst r) k) bpms then Some 1 else acc.
Proof.
  induction bpms as [|r l IH]; intro acc; [reflexivity|]. cbn [map last_nonnull existsb fst].
  destruct (Qeq_bool (fst r) k); cbn [orb]; rewrite IH; [destruct (existsb _ l); reflexivity|reflexivity].
Qed.

Lemma last_at_acc_some k svs : forall a, last_at k svs (Some a) <> None.
Proof. induction svs as [|r svs IH]; intro a; cbn [last_at]; [discriminate|]. destruct (Qeq_bool (fst r) k); apply IH. Qed.

Lemma last_at_none k svs : forall lacc, last_at k svs lacc = None -> forall s, In s svs -> Qeq_bool (fst s) k = false.
Proof.
  induction svs as [|r svs IH]; intros lacc H s Hs; [destruct Hs|]. cbn [last_at] in H.
  destruct Hs as [Hs|Hs]; [subst r|exact (IH _ H s Hs)].
  destruct (Qeq_bool (fst s) k) eqn:E; [|reflexivity]. exfalso. exact (last_at_acc_some k svs s H).
Qed.

(* the last SV row (in row order) at time k is the specification's latest SV at or before k *)
Lemma last_at_spec k svs : forall lacc s acc,
  (forall a, acc = Some a -> fst a <= k) -> (forall s0, lacc = Some s0 -> acc = Some s0 /\ fst s0 == k) ->
  last_at k svs lacc = Some s -> latest_le k svs acc = Some s /\ fst s == k.
Proof.
  induction svs as [|r svs IH]; intros lacc s acc I1 I2 H; cbn [last_at] in H.
  - destruct (I2 s H) as [E1 E2]. cbn [latest_le]. split; assumption.
  - cbn [latest_le]. eapply IH; [| |exact H].
    + intros a0 Ha0. destruct (Qle_bool (fst r) k) eqn:El; [|eauto]. qbool.
      destruct acc as [a|]; [destruct (Qle_bool (fst a) (fst r)); [inversion Ha0; subst; exact El|eauto]|inversion Ha0; subst; exact El].
    + intros s0 Hs0. destruct (Qeq_bool (fst r) k) eqn:Eq.
      * inversion Hs0; subst s0. apply Qeq_bool_true in Eq.
        assert (El: Qle_bool (fst r) k = true) by (apply Qle_bool_iff; lra). rewrite El. split; [|exact Eq].
        destruct acc as [a|]; [|reflexivity].
        assert (Ea: Qle_bool (fst a) (fst r) = true) by (apply Qle_bool_iff; pose proof (I1 a eq_refl); lra).
        rewrite Ea. reflexivity.
      * destruct (I2 s0 Hs0) as [E1 E2]. split; [|exact E2]. subst acc.
        destruct (Qle_bool (fst r) k) eqn:El; [|reflexivity]. qbool.
        assert (Ea: Qle_bool (fst s0) (fst r) = false).
        { apply Qle_bool_false. destruct (Qlt_le_dec (fst r) (fst s0)) as [L|L]; [exact L|]. exfalso.
          assert (X: fst r == k) by lra. apply Qeq_bool_true in X. congruence. }
        rewrite Ea. reflexivity.
Qed.

Lemma existsb_false_in {A} (p : A -> bool) l x : existsb p l = false -> In x l -> p x = false.
Proof.
  intros H Hx. destruct (p x) eqn:E; [|reflexivity]. exfalso.
  assert (X: existsb p l = true) by (apply existsb_exists; exists x; split; assumption). congruence.
Qed.

(* ------------------------------------------------------------------ the SV table carries sv_at at every key *)
Section SvFrame.
  Variables (c : chart) (svs : list (Q * Q)) (omin omax : Q).
  Hypothesis Hsv : c_svs c = Some svs.
  Hypothesis HminB : forall r, In r (c_bpms c) -> omin <= fst r.
  Hypothesis HminS : forall s, In s svs -> omin <= fst s.
  Hypothesis Hminmax : omin <= omax.

  Definition sv_table_rows : list orow :=
    map (fun r : Q * Q => (fst r, Some 1)) (c_bpms c) ++ [(omin, Some 1); (omax, None)]
    ++ map (fun r : Q * Q => (fst r, Some (snd r))) svs.

  Lemma sv_table_keys x : In x (map fst sv_table_rows) <->
    (exists r, In r (c_bpms c) /\ x = fst r) \/ x = omin \/ x = omax \/ (exists s, In s svs /\ x = fst s).
  Proof.
    unfold sv_table_rows. rewrite !map_app, !in_app_iff, !map_map. cbn [map fst In]. rewrite !in_map_iff. split.
    - intros [[r [E H]]|[[H|[H|[]]]|[s [E H]]]]; [left; exists r; split; [exact H|symmetry; exact E]| right; left; symmetry; exact H
        | right; right; left; symmetry; exact H | right; right; right; exists s; split; [exact H|symmetry; exact E]].
    - intros [[r [H E]]|[H|[H|[s [H E]]]]]; [left; exists r; split; [symmetry; exact E|exact H] | right; left; left; symmetry; exact H
        | right; left; right; left; symmetry; exact H | right; right; exists s; split; [symmetry; exact E|exact H]].
  Qed.

  Lemma sv_table_min x : In x (map fst sv_table_rows) -> omin <= x.
  Proof.
    intro H. apply sv_table_keys in H. destruct H as [[r [H E]]|[H|[H|[s [H E]]]]]; subst x; auto. apply Qle_refl.
  Qed.

  Lemma sv_cell k :
    last_nonnull k sv_table_rows None =
    match last_at k svs None with
    | Some s => Some (snd s)
    | None => if existsb (fun r => Qeq_bool (fst r) k) (c_bpms c) || Qeq_bool omin k then Some 1 else None
    end.
  Proof.
    unfold sv_table_rows. rewrite !last_nonnull_app, last_nonnull_resets.
    set (a1 := if existsb (fun r => Qeq_bool (fst r) k) (c_bpms c) then Some 1 else None).
    assert (E: last_nonnull k [(omin, Some 1); (omax, None)] a1 = if Qeq_bool omin k then Some 1 else a1).
    { cbn [last_nonnull]. destruct (Qeq_bool omin k), (Qeq_bool omax k); reflexivity. }
    rewrite E. pose proof (last_nonnull_svs k svs (if Qeq_bool omin k then Some 1 else a1) None) as X.
    cbv beta iota in X. rewrite X. destruct (last_at k svs None); [reflexivity|].
    unfold a1. destruct (existsb (fun r => Qeq_bool (fst r) k) (c_bpms c)), (Qeq_bool omin k); reflexivity.
  Qed.

  Lemma sv_cell_some k v : last_nonnull k sv_table_rows None = Some v -> v == sv_at c k.
  Proof.
    rewrite sv_cell. unfold sv_at. rewrite Hsv. destruct (last_at k svs None) as [s|] eqn:E.
    - intro H. inversion H; subst v.
      assert (I1: forall a : Q * Q, None = Some a -> fst a <= k) by (intros; discriminate).
      assert (I2: forall s0 : Q * Q, None = Some s0 -> None = Some s0 /\ fst s0 == k) by (intros; discriminate).
      destruct (last_at_spec k svs None s None I1 I2 E) as [L Ek]. rewrite L.
      destruct (latest_le k (c_bpms c) None) as [b|] eqn:Lb; [|reflexivity].
      destruct (latest_le_in _ _ _ _ Lb) as [X|[_ Le]]; [discriminate|].
      assert (Hb: Qle_bool (fst b) (fst s) = true) by (apply Qle_bool_iff; lra). rewrite Hb. reflexivity.
    - pose proof (last_at_none k svs None E) as Nsv.
      destruct (existsb (fun r => Qeq_bool (fst r) k) (c_bpms c) || Qeq_bool omin k) eqn:Ex; [|discriminate].
      intro H; inversion H; subst v.
      destruct (latest_le k svs None) as [s|] eqn:Ls; [|reflexivity].
      destruct (latest_le_in _ _ _ _ Ls) as [X|[Is Les]]; [discriminate|].
      assert (Lt: fst s < k).
      { destruct (Qlt_le_dec (fst s) k) as [L|L]; [exact L|]. exfalso. assert (X: fst s == k) by lra.
        apply Qeq_bool_true in X. rewrite (Nsv s Is) in X. discriminate. }
      apply orb_true_iff in Ex. destruct Ex as [Ex|Ex].
      + apply existsb_exists in Ex. destruct Ex as [rb [Irb Erb]]. apply Qeq_bool_true in Erb.
        destruct (latest_le k (c_bpms c) None) as [b|] eqn:Lb.
        * destruct (latest_le_max _ _ _ _ Lb) as [_ M]. assert (Lrb: fst rb <= k) by lra. pose proof (M rb Irb Lrb) as Mb.
          assert (Hb: Qle_bool (fst b) (fst s) = false) by (apply Qle_bool_false; lra). rewrite Hb. reflexivity.
        * exfalso. apply (latest_le_is_some k (c_bpms c) None); [right; exists rb; split; [exact Irb|lra]|exact Lb].
      + exfalso. apply Qeq_bool_true in Ex. pose proof (HminS s Is). lra.
  Qed.

  Lemma sv_cell_none k' k :
    last_nonnull k sv_table_rows None = None -> k' < k ->
    (forall x, In x (dkeys (map fst sv_table_rows)) -> x <= k' \/ k <= x) -> sv_at c k = sv_at c k'.
  Proof.
    rewrite sv_cell. destruct (last_at k svs None) as [s|] eqn:E; [discriminate|].
    destruct (existsb (fun r => Qeq_bool (fst r) k) (c_bpms c) || Qeq_bool omin k) eqn:Ex; [discriminate|].
    intros _ Lt Adj. apply orb_false_iff in Ex. destruct Ex as [Ex1 Ex2].
    pose proof (last_at_none k svs None E) as Nsv.
    assert (Key: forall x, In x (map fst sv_table_rows) -> Qeq_bool x k = false -> Qle_bool x k = Qle_bool x k').
    { intros x Hx Ne. destruct (dkeys_covers x _ Hx) as [kk [Hk Ek]]. destruct (Adj kk Hk) as [A|A].
      - assert (X1: Qle_bool x k = true) by (apply Qle_bool_iff; lra).
        assert (X2: Qle_bool x k' = true) by (apply Qle_bool_iff; lra). congruence.
      - assert (Lx: k < x).
        { destruct (Qlt_le_dec k x) as [L|L]; [exact L|]. exfalso. assert (X: x == k) by lra.
          apply Qeq_bool_true in X. congruence. }
        assert (X1: Qle_bool x k = false) by (apply Qle_bool_false; lra).
        assert (X2: Qle_bool x k' = false) by (apply Qle_bool_false; lra). congruence. }
    apply sv_at_ext.
    - intros r Hr. apply Key; [apply sv_table_keys; left; exists r; split; [exact Hr|reflexivity]|].
      exact (existsb_false_in _ _ r Ex1 Hr).
    - intros r Hr. unfold sv_rows in Hr. rewrite Hsv in Hr.
      apply Key; [apply sv_table_keys; right; right; right; exists r; split; [exact Hr|reflexivity]|]. exact (Nsv r Hr).
  Qed.

  Lemma sv_frame_unfold : sv_frame c svs omin omax
    = ffill (map (fun k => (k, last_nonnull k sv_table_rows None)) (dkeys (map fst sv_table_rows))).
  Proof. reflexivity. Qed.

  Lemma sv_frame_keys : map fst (sv_frame c svs omin omax) = dkeys (map fst sv_table_rows).
  Proof. rewrite sv_frame_unfold. unfold ffill. rewrite ffill_go_keys. apply map_key_id. Qed.

  (* every row of the SV table carries the specification's active multiplier at its key *)
  Lemma sv_frame_rows : forall r, In r (sv_frame c svs omin omax) -> exists v, snd r = Some v /\ v == sv_at c (fst r).
  Proof.
    rewrite sv_frame_unfold.
    apply (ffill_step_all (fun k v => v == sv_at c k) (fun k => last_nonnull k sv_table_rows None)
                          (dkeys (map fst sv_table_rows)) (dkeys_ssorted _)).
    - intros k v _ H. apply sv_cell_some. exact H.
    - intros k' k Lt Adj _ En v Pv. rewrite (sv_cell_none k' k En Lt Adj). exact Pv.
    - destruct (dkeys (map fst sv_table_rows)) as [|k0 rest] eqn:E; [exact I|].
      destruct (dkeys_first _ _ _ E) as [F1 F2].
      assert (Io: In omin (map fst sv_table_rows)) by (apply sv_table_keys; right; left; reflexivity).
      pose proof (F2 omin Io) as Le1. pose proof (sv_table_min k0 F1) as Le2.
      assert (Eo: Qeq_bool omin k0 = true) by (apply Qeq_bool_true; lra).
      rewrite sv_cell. destruct (last_at k0 svs None); [discriminate|]. rewrite Eo, orb_true_r. discriminate.
  Qed.
End SvFrame.

(* ------------------------------------------------------------------ the bpm frame after drop_duplicates: one row per key *)
Fixpoint onodup (l : list orow) : Prop :=
  match l with [] => True | x :: t => (forall y, In y t -> orow_eq y x = false) /\ onodup t end.

Lemma dedup_go_nodup l : forall seen,
  onodup (dedup_go seen l) /\ forall y, In y (dedup_go seen l) -> forall s, In s seen -> orow_eq y s = false.
Proof.
  induction l as [|x l IH]; intro seen; cbn [dedup_go]; [split; [exact I|intros y []]|].
  destruct (existsb (orow_eq x) seen) eqn:E; [apply IH|].
  destruct (IH (x :: seen)) as [N1 N2]. split.
  - split; [|exact N1]. intros y Hy. apply (N2 y Hy x). left. reflexivity.
  - intros y [Hy|Hy] s Hs.
    + subst y. exact (existsb_false_in _ _ s E Hs).
    + apply (N2 y Hy s). right. exact Hs.
Qed.

Lemma onodup_qdistinct l :
  onodup l -> (forall x y, In x l -> In y l -> fst x == fst y -> orow_eq y x = true) -> qdistinct (map fst l).
Proof.
  induction l as [|a l IH]; [simpl; tauto|]. intros [N1 N2] H. cbn [map qdistinct]. split.
  - intros k Hk E. apply in_map_iff in Hk. destruct Hk as [y [Ey Hy]]. subst k.
    pose proof (N1 y Hy) as X1. pose proof (H a y (or_introl eq_refl) (or_intror Hy) E) as X2. congruence.
  - apply IH; [exact N2|]. intros x y Hx Hy. apply H; right; assumption.
Qed.

Section BpmFrame.
  Variables (c : chart) (omin omax : Q).
  Hypothesis D : qdistinct (tempo_times c).
  Hypothesis Hne : c_bpms c <> [].

  Lemma bpm_frame_rows r : In r (bpm_frame c omin omax) -> exists b, snd r = Some b /\ bpm_at c (fst r) = Some b.
  Proof. unfold bpm_frame, drop_duplicates. intro H. apply dedup_go_in in H. exact (filled_rows c omin omax D Hne r H). Qed.

  Lemma bpm_frame_distinct : qdistinct (map fst (bpm_frame c omin omax)).
  Proof.
    apply onodup_qdistinct.
    - unfold bpm_frame, drop_duplicates. apply dedup_go_nodup.
    - intros x y Hx Hy E. destruct (bpm_frame_rows x Hx) as [bx [Ex Bx]]. destruct (bpm_frame_rows y Hy) as [b' [Ey By]].
      rewrite (bpm_at_compat c _ _ E), By in Bx. inversion Bx; subst b'.
      unfold orow_eq. rewrite Ex, Ey. cbn [oq_eq]. apply andb_true_iff. split; apply Qeq_bool_true; [lra|reflexivity].
  Qed.

  Lemma bpm_frame_covers x :
    In x (map (fun r : Q * Q => (fst r, Some (snd r))) (c_bpms c) ++ [(omin, None); (omax, None)]) ->
    exists l, In l (bpm_frame c omin omax) /\ fst l == fst x.
  Proof.
    intro Hx. destruct (filled_keys c omin omax x Hx) as [r' [Hr' Ek]].
    destruct (dedup_go_covers _ [] r' Hr') as [y [[Hy|[]] Ey]].
    exists y. split; [exact Hy|]. unfold orow_eq in Ey. apply andb_true_iff in Ey. destruct Ey as [Ey _].
    apply Qeq_bool_true in Ey. rewrite <- Ek. lra.
  Qed.

  Lemma bpm_frame_keys l : In l (bpm_frame c omin omax) ->
    (exists r, In r (c_bpms c) /\ fst l = fst r) \/ fst l = omin \/ fst l = omax.
  Proof.
    unfold bpm_frame, drop_duplicates. intro H. apply dedup_go_in in H.
    assert (K: In (fst l) (map fst (map (fun r : Q * Q => (fst r, Some (snd r))) (c_bpms c) ++ [(omin, None); (omax, None)]))).
    { apply (Permutation_in (l := map fst (osort (map (fun r : Q * Q => (fst r, Some (snd r))) (c_bpms c) ++ [(omin, None); (omax, None)])))).
      - apply Permutation_map. apply osort_perm.
      - rewrite <- (ffill_go_keys None), <- bfill_keys. apply in_map. exact H. }
    rewrite map_app, in_app_iff, map_map in K. cbn [map fst In] in K. destruct K as [K|[K|[K|[]]]].
    - apply in_map_iff in K. destruct K as [r [E Hr]]. left. exists r. split; [exact Hr|symmetry; exact E].
    - right. left. symmetry. exact K.
    - right. right. symmetry. exact K.
  Qed.
End BpmFrame.

(* ------------------------------------------------------------------ the outer merge on tables with one row per key *)
Definition lookup (l : list orow) (k : Q) : option Q :=
  match filter (fun r => Qeq_bool (fst r) k) l with [] => None | x :: _ => snd x end.

Lemma filter_key_unique (l : list orow) k x :
  qdistinct (map fst l) -> In x l -> fst x == k -> filter (fun r => Qeq_bool (fst r) k) l = [x].
Proof.
  induction l as [|a l IH]; [intros _ []|]. cbn [map qdistinct filter]. intros [D1 D2] [Hx|Hx] E.
  - subst a. assert (Hk: Qeq_bool (fst x) k = true) by (apply Qeq_bool_true; exact E). rewrite Hk. f_equal.
    apply filter_none. intros y Hy. destruct (Qeq_bool (fst y) k) eqn:Ey; [|reflexivity]. exfalso.
    apply Qeq_bool_true in Ey. apply (D1 (fst y)); [apply in_map; exact Hy|lra].
  - assert (Hk: Qeq_bool (fst a) k = false).
    { destruct (Qeq_bool (fst a) k) eqn:Ea; [|reflexivity]. exfalso. apply Qeq_bool_true in Ea.
      apply (D1 (fst x)); [apply in_map; exact Hx|lra]. }
    rewrite Hk. apply IH; assumption.
Qed.

Lemma filter_key_cases (l : list orow) k : qdistinct (map fst l) ->
  filter (fun r => Qeq_bool (fst r) k) l = [] \/
  exists x, In x l /\ fst x == k /\ filter (fun r => Qeq_bool (fst r) k) l = [x].
Proof.
  intro Dl. destruct (filter (fun r => Qeq_bool (fst r) k) l) as [|o l0] eqn:E; [left; reflexivity|]. right.
  assert (Ho: In o (filter (fun r => Qeq_bool (fst r) k) l)) by (rewrite E; left; reflexivity).
  apply filter_In in Ho. destruct Ho as [Io Eo]. apply Qeq_bool_true in Eo.
  exists o. split; [exact Io|]. split; [exact Eo|]. rewrite <- E. apply filter_key_unique; assumption.
Qed.

Lemma flat_map_single {A B} (f : A -> list B) (g : A -> B) l : (forall x, In x l -> f x = [g x]) -> flat_map f l = map g l.
Proof.
  induction l as [|a l IH]; intro H; [reflexivity|]. cbn [flat_map map]. rewrite (H a (or_introl eq_refl)).
  cbn [app]. f_equal. apply IH. intros x Hx. apply H. right. exact Hx.
Qed.

Lemma merge_outer_map L R :
  qdistinct (map fst L) -> qdistinct (map fst R) ->
  (forall k, In k (dkeys (map fst L ++ map fst R)) -> exists r, In r R /\ fst r == k) ->
  merge_outer L R = map (fun k => (k, lookup L k, lookup R k)) (dkeys (map fst L ++ map fst R)).
Proof.
  intros DL DR Cov. unfold merge_outer, dkeys in *. cbv zeta. apply flat_map_single. intros k Hk.
  destruct (Cov k Hk) as [r [Ir Er]]. unfold lookup. rewrite (filter_key_unique R k r DR Ir Er).
  destruct (filter_key_cases L k DL) as [E|[x [Ix [Ex E]]]]; rewrite E; reflexivity.
Qed.

Lemma fill_both_map (K : list Q) (fb fm : Q -> option Q) :
  fill_both (map (fun k => (k, fb k, fm k)) K)
  = map (fun p : orow * orow => (fst (fst p), snd (fst p), snd (snd p)))
        (combine (bfill (ffill (map (fun k => (k, fb k)) K))) (bfill (ffill (map (fun k => (k, fm k)) K)))).
Proof. unfold fill_both. rewrite !map_map. reflexivity. Qed.

Lemma in_combine_same {A B C} (f : A -> C) (g : B -> C) l1 : forall l2 a b,
  map f l1 = map g l2 -> In (a, b) (combine l1 l2) -> f a = g b.
Proof.
  induction l1 as [|x l1 IH]; intros [|y l2] a b E H; cbn [combine map In] in *; try contradiction.
  inversion E. destruct H as [H|H]; [inversion H; subst; assumption|eauto].
Qed.

Lemma out_keys ref (bcol : list orow) : forall mcol : list orow, length bcol = length mcol ->
  map fst (map (fun r : mrow => (fst (fst r), speed_of ref (snd (fst r)) (snd r)))
               (map (fun p : orow * orow => (fst (fst p), snd (fst p), snd (snd p))) (combine bcol mcol))) = map fst bcol.
Proof.
  induction bcol as [|x bcol IH]; intros [|y mcol] H; cbn [combine map fst snd length] in *; try reflexivity; try discriminate.
  f_equal. apply IH. lia.
Qed.

Lemma qmin_list_spec l m : qmin_list l = Some m -> In m l /\ forall x, In x l -> m <= x.
Proof.
  revert m. induction l as [|a l IH]; intros m H; cbn [qmin_list] in H; [discriminate|].
  destruct (qmin_list l) as [m'|] eqn:E.
  - destruct (IH m' eq_refl) as [I1 I2]. inversion H; subst m. unfold Qmin'.
    destruct (Qle_bool a m') eqn:E2.
    + apply Qle_bool_iff in E2. split; [left; reflexivity|]. intros x [Hx|Hx]; [subst; lra|]. specialize (I2 x Hx). lra.
    + apply Qle_bool_false in E2. split; [right; exact I1|]. intros x [Hx|Hx]; [subst; lra|auto].
  - inversion H; subst. destruct l; [|cbn [qmin_list] in E; destruct (qmin_list l); discriminate].
    split; [left; reflexivity|]. intros x [Hx|[]]. subst. lra.
Qed.

(* ------------------------------------------------------------------ scroll_speed on charts WITH an SV list: all inputs *)
(* For every chart of the domain with an SV list (any row order of tempo and SV rows, SVs coincident with tempo
   points or with each other, before the first tempo point, after the last note) and every reference: the speed at
   every breakpoint is active bpm / reference * active SV multiplier, and every tempo point and every SV is a
   breakpoint. *)
Lemma scroll_speed_with_sv_keys c ref svs :
  wf_chart c = true -> c_svs c = Some svs ->
  exists o, scroll_speed_with c ref = Some o /\ scroll_ok 0 c ref o
            /\ (* no spurious breakpoint: each one is a tempo time, an SV time or the first / last offset of the map *)
               forall t s, In (t, s) o -> In t (stack_offsets c).
Proof.
  intros W Hsv. destruct (wf_chart_distinct c W) as [D Hne].
  assert (Hst: stack_offsets c <> []).
  { unfold stack_offsets. intro X. apply app_eq_nil in X. destruct X as [X _]. apply map_eq_nil in X. exact (Hne X). }
  destruct (qmin_list_some _ Hst) as [omin Emin]. destruct (qmax_list_some _ Hst) as [omax Emax].
  destruct (qmin_list_spec _ _ Emin) as [Imin Bmin]. destruct (qmax_list_spec _ _ Emax) as [Imax _].
  assert (HminB: forall r, In r (c_bpms c) -> omin <= fst r).
  { intros r Hr. apply Bmin. unfold stack_offsets. apply in_or_app. left. apply in_map. exact Hr. }
  assert (HminS: forall s, In s svs -> omin <= fst s).
  { intros s Hs. apply Bmin. unfold stack_offsets, sv_rows. rewrite Hsv. apply in_or_app. right. apply in_or_app. left. apply in_map. exact Hs. }
  assert (Hmm: omin <= omax) by (apply Bmin; exact Imax).
  assert (Imin': In omin (map fst (c_bpms c) ++ map fst svs ++ c_notes c)).
  { unfold stack_offsets, sv_rows in Imin. rewrite Hsv in Imin. exact Imin. }
  assert (Imax': In omax (map fst (c_bpms c) ++ map fst svs ++ c_notes c)).
  { unfold stack_offsets, sv_rows in Imax. rewrite Hsv in Imax. exact Imax. }
  unfold scroll_speed_with. rewrite Emin, Emax, Hsv. eexists. split; [reflexivity|].
  set (L := bpm_frame c omin omax). set (R := sv_frame c svs omin omax).
  pose proof (bpm_frame_rows c omin omax D Hne) as FL1. fold L in FL1.
  pose proof (bpm_frame_distinct c omin omax D Hne) as FL2. fold L in FL2.
  pose proof (bpm_frame_covers c omin omax) as FL3. fold L in FL3.
  pose proof (bpm_frame_keys c omin omax) as FL4. fold L in FL4.
  pose proof (sv_frame_rows c svs omin omax Hsv HminB HminS Hmm) as FR1. fold R in FR1.
  pose proof (sv_frame_keys c svs omin omax) as FR2. fold R in FR2.
  set (T := sv_table_rows c svs omin omax) in *.
  assert (DR: qdistinct (map fst R)) by (rewrite FR2; apply ssorted_qdistinct; apply dkeys_ssorted).
  assert (FR3: forall x, In x (map fst T) -> exists r, In r R /\ fst r == x).
  { intros x Hx. destruct (dkeys_covers x _ Hx) as [kk [Hk Ek]]. rewrite <- FR2 in Hk. apply in_map_iff in Hk.
    destruct Hk as [r [Er Hr]]. exists r. split; [exact Hr|]. rewrite Er. exact Ek. }
  assert (LT: forall l, In l L -> In (fst l) (map fst T)).
  { intros l Hl. apply (sv_table_keys c svs omin omax). destruct (FL4 l Hl) as [[r [Hr E]]|[E|E]].
    - left. exists r. split; assumption.
    - right. left. exact E.
    - right. right. left. exact E. }
  set (K := dkeys (map fst L ++ map fst R)).
  assert (SK: ssorted K) by apply dkeys_ssorted.
  assert (KT: forall k, In k K -> In k (map fst T)).
  { intros k Hk. apply dkeys_in in Hk. apply in_app_or in Hk. destruct Hk as [Hk|Hk].
    - apply in_map_iff in Hk. destruct Hk as [l [E Hl]]. subst k. apply LT. exact Hl.
    - rewrite FR2 in Hk. apply dkeys_in in Hk. exact Hk. }
  assert (Cov: forall k, In k K -> exists r, In r R /\ fst r == k) by (intros k Hk; apply FR3; apply KT; exact Hk).
  assert (CovL: forall l, In l L -> exists kk, In kk K /\ kk == fst l).
  { intros l Hl. apply dkeys_covers. apply in_or_app. left. apply in_map. exact Hl. }
  assert (CovR: forall r, In r R -> exists kk, In kk K /\ kk == fst r).
  { intros r Hr. apply dkeys_covers. apply in_or_app. right. apply in_map. exact Hr. }
  rewrite (merge_outer_map L R FL2 DR Cov). fold K. rewrite fill_both_map.
  (* the bpm column *)
  assert (LkSome: forall k l, In l L -> fst l == k -> exists b, lookup L k = Some b /\ bpm_at c k = Some b).
  { intros k l Hl E. unfold lookup. rewrite (filter_key_unique L k l FL2 Hl E).
    destruct (FL1 l Hl) as [b [E1 E2]]. exists b. split; [exact E1|]. rewrite <- (bpm_at_compat c _ _ E). exact E2. }
  assert (Bcol: forall r, In r (ffill (map (fun k => (k, lookup L k)) K)) -> exists b, snd r = Some b /\ bpm_at c (fst r) = Some b).
  { apply (ffill_step_all (fun k b => bpm_at c k = Some b) (lookup L) K SK).
    - intros k b _ H. unfold lookup in H. destruct (filter_key_cases L k FL2) as [E|[x [Ix [Ex E]]]]; rewrite E in H; [discriminate|].
      destruct (LkSome k x Ix Ex) as [b' [E1 E2]]. unfold lookup in E1. rewrite E in E1. congruence.
    - intros k' k Lt Adj _ En v Pv. rewrite <- Pv. apply bpm_at_ext. intros r Hr.
      assert (Hx: In (fst r, Some (snd r)) (map (fun r : Q * Q => (fst r, Some (snd r))) (c_bpms c) ++ [(omin, None); (omax, None)])).
      { apply in_or_app. left. apply in_map_iff. exists r. split; [reflexivity|exact Hr]. }
      destruct (FL3 _ Hx) as [l [Hl El]]. cbn [fst] in El. destruct (CovL l Hl) as [kk [Hk Ek]].
      destruct (Adj kk Hk) as [A|A].
      + assert (X1: Qle_bool (fst r) k = true) by (apply Qle_bool_iff; lra).
        assert (X2: Qle_bool (fst r) k' = true) by (apply Qle_bool_iff; lra). congruence.
      + assert (Lx: k < fst r).
        { destruct (Qlt_le_dec k (fst r)) as [Lk|Lk]; [exact Lk|]. exfalso. assert (X: fst l == k) by lra.
          destruct (LkSome k l Hl X) as [b [E1 _]]. congruence. }
        assert (X1: Qle_bool (fst r) k = false) by (apply Qle_bool_false; lra).
        assert (X2: Qle_bool (fst r) k' = false) by (apply Qle_bool_false; lra). congruence.
    - destruct K as [|k0 rest] eqn:EK; [exact I|]. destruct (dkeys_first _ _ _ EK) as [F1 F2].
      assert (Hx: In (omin, @None Q) (map (fun r : Q * Q => (fst r, Some (snd r))) (c_bpms c) ++ [(omin, None); (omax, None)])).
      { apply in_or_app. right. left. reflexivity. }
      destruct (FL3 _ Hx) as [l [Hl El]]. cbn [fst] in El.
      assert (Le1: k0 <= fst l) by (apply F2; apply in_or_app; left; apply in_map; exact Hl).
      assert (Le2: omin <= k0).
      { apply (sv_table_min c svs omin omax HminB HminS Hmm). apply KT. left. reflexivity. }
      assert (X: fst l == k0) by lra. destruct (LkSome k0 l Hl X) as [b [E1 _]]. congruence. }
  assert (BcolS: bfill (ffill (map (fun k => (k, lookup L k)) K)) = ffill (map (fun k => (k, lookup L k)) K)).
  { apply bfill_all_some. intros x Hx. destruct (Bcol x Hx) as [b [E _]]. congruence. }
  (* the multiplier column *)
  assert (Mcol: forall r, In r (map (fun k => (k, lookup R k)) K) -> exists v, snd r = Some v /\ v == sv_at c (fst r)).
  { intros r Hr. apply in_map_iff in Hr. destruct Hr as [k [E Hk]]. subst r. cbn [fst snd].
    destruct (Cov k Hk) as [r [Ir Er]]. unfold lookup. rewrite (filter_key_unique R k r DR Ir Er).
    destruct (FR1 r Ir) as [v [E1 E2]]. exists v. split; [exact E1|]. rewrite <- (sv_at_compat c _ _ Er). exact E2. }
  assert (McolS: bfill (ffill (map (fun k => (k, lookup R k)) K)) = map (fun k => (k, lookup R k)) K).
  { unfold ffill. rewrite ffill_go_all_some; [apply bfill_all_some|]; intros x Hx; destruct (Mcol x Hx) as [v [E _]]; congruence. }
  rewrite BcolS, McolS.
  set (bcol := ffill (map (fun k => (k, lookup L k)) K)) in *. set (mcol := map (fun k => (k, lookup R k)) K) in *.
  assert (Kb: map fst bcol = K) by (unfold bcol, ffill; rewrite ffill_go_keys; apply map_key_id).
  assert (Km: map fst mcol = K) by apply map_key_id.
  assert (Kout: forall kk, In kk K -> exists row,
            In row (map (fun r : mrow => (fst (fst r), speed_of ref (snd (fst r)) (snd r)))
                        (map (fun p : orow * orow => (fst (fst p), snd (fst p), snd (snd p))) (combine bcol mcol))) /\ fst row = kk).
  { intros kk Hk.
    assert (E: map fst (map (fun r : mrow => (fst (fst r), speed_of ref (snd (fst r)) (snd r)))
                        (map (fun p : orow * orow => (fst (fst p), snd (fst p), snd (snd p))) (combine bcol mcol))) = K).
    { rewrite out_keys; [exact Kb|].
      pose proof (f_equal (@length Q) (eq_trans Kb (eq_sym Km))) as EL. rewrite !map_length in EL. exact EL. }
    rewrite <- E in Hk. apply in_map_iff in Hk. destruct Hk as [row [E1 E2]]. exists row. split; assumption. }
  split; [split; [|split]|].
  - intros t s Hin. apply in_map_iff in Hin. destruct Hin as [mr [E Hmr]]. apply in_map_iff in Hmr.
    destruct Hmr as [[rb rm] [E' Hp]]. subst mr. cbn [fst snd] in E. inversion E; subst t s. clear E.
    pose proof (in_combine_same fst fst bcol mcol rb rm (eq_trans Kb (eq_sym Km)) Hp) as Ek.
    destruct (Bcol rb (in_combine_l _ _ _ _ Hp)) as [b [Eb Hb]].
    destruct (Mcol rm (in_combine_r _ _ _ _ Hp)) as [v [Ev Hv]].
    exists b, (Qred (b / ref * v)). split; [exact Hb|]. split; [rewrite Eb, Ev; reflexivity|].
    apply Q_close_0. rewrite (Qred_correct (b / ref * v)), Hv, Ek. reflexivity.
  - intros r Hr.
    assert (Hx: In (fst r, Some (snd r)) (map (fun r : Q * Q => (fst r, Some (snd r))) (c_bpms c) ++ [(omin, None); (omax, None)])).
    { apply in_or_app. left. apply in_map_iff. exists r. split; [reflexivity|exact Hr]. }
    destruct (FL3 _ Hx) as [l [Hl El]]. cbn [fst] in El. destruct (CovL l Hl) as [kk [Hk Ek]].
    destruct (Kout kk Hk) as [row [Hrow Erow]]. exists row. split; [exact Hrow|]. rewrite Erow. lra.
  - intros s Hs. unfold sv_rows in Hs. rewrite Hsv in Hs.
    assert (Hx: In (fst s) (map fst T)).
    { apply (sv_table_keys c svs omin omax). right. right. right. exists s. split; [exact Hs|reflexivity]. }
    destruct (FR3 _ Hx) as [r [Hr Er]]. destruct (CovR r Hr) as [kk [Hk Ek]].
    destruct (Kout kk Hk) as [row [Hrow Erow]]. exists row. split; [exact Hrow|]. rewrite Erow. lra.
  - intros t s Hin. apply in_map_iff in Hin. destruct Hin as [mr [E Hmr]]. apply in_map_iff in Hmr.
    destruct Hmr as [[rb rm] [E' Hp]]. subst mr. cbn [fst snd] in E. inversion E; subst t s. clear E.
    assert (Hk: In (fst rb) K) by (rewrite <- Kb; apply in_map; exact (in_combine_l _ _ _ _ Hp)).
    apply KT in Hk. apply (sv_table_keys c svs omin omax) in Hk. unfold stack_offsets, sv_rows. rewrite Hsv.
    destruct Hk as [[r [Hr E]]|[E|[E|[s [Hs E]]]]]; rewrite E.
    + apply in_or_app. left. apply in_map. exact Hr.
    + exact Imin'.
    + exact Imax'.
    + apply in_or_app. right. apply in_or_app. left. apply in_map. exact Hs.
Qed.

Theorem scroll_speed_with_sv c ref svs :
  wf_chart c = true -> c_svs c = Some svs -> exists o, scroll_speed_with c ref = Some o /\ scroll_ok 0 c ref o.
Proof.
  intros W Hsv. destruct (scroll_speed_with_sv_keys c ref svs W Hsv) as [o [E [H _]]]. exists o. split; assumption.
Qed.

(* scroll_speed with a given reference, EVERY chart of the domain (with or without an SV list) *)
Theorem scroll_speed_with_spec c ref :
  wf_chart c = true -> exists o, scroll_speed_with c ref = Some o /\ scroll_ok 0 c ref o.
Proof.
  intro W. destruct (c_svs c) as [svs|] eqn:E.
  - exact (scroll_speed_with_sv c ref svs W E).
  - exact (scroll_speed_with_nosv c ref W E).
Qed.

(* scroll_speed, top level: every chart of the domain of every game (any row order, SVs anywhere), every override > 0 or none *)
Theorem scroll_speed_spec c ov :
  wf_chart c = true -> wf_override ov = true -> scroll_spec 0 c ov (scroll_speed c ov).
Proof.
  intros W O. destruct (reference_ok c ov W O) as [ref [E [R _]]].
  destruct (scroll_speed_with_spec c ref W) as [o [Eo Ho]].
  unfold scroll_spec, scroll_speed. rewrite E. exists ref, o. split; [exact Eo|]. split; assumption.
Qed.

(* ------------------------------------------------------------------ sv_normalize, then scroll_speed (NOT promised by
   the property text; recorded because it is what sv_normalize is for): on the chart whose SV list is REPLACED by the
   result of sv_normalize, with the same override, the scroll speed is 1 at every breakpoint, and every tempo point is
   a breakpoint. *)
Lemma latest_le_map_keys t (g : Q * Q -> Q * Q) (Hg : forall r, fst (g r) = fst r) rows : forall acc,
  latest_le t (map g rows) (option_map g acc) = option_map g (latest_le t rows acc).
Proof.
  induction rows as [|a rows IH]; intro acc; cbn [map latest_le]; [reflexivity|]. rewrite Hg, <- IH. f_equal.
  destruct (Qle_bool (fst a) t); [|reflexivity].
  destruct acc as [x|]; cbn [option_map]; [rewrite Hg; destruct (Qle_bool (fst x) (fst a)); reflexivity|reflexivity].
Qed.

Lemma Q_close_0_inv a b : Q_close 0 a b -> a == b.
Proof. unfold Q_close. intro H. assert (H': Qabs (a - b) <= 0) by lra. apply Qabs_Qle_condition in H'. lra. Qed.

Lemma dominant_bpm_indep c c' :
  c_bpms c' = c_bpms c -> c_notes c' = c_notes c -> c_notes c <> [] -> dominant_bpm c' = dominant_bpm c.
Proof.
  intros H1 H2 Hn. unfold dominant_bpm, dominant_groups, dominant_intervals, last_offset. rewrite H1, H2.
  destruct (qmax_list_some _ Hn) as [m Em]. rewrite Em. reflexivity.
Qed.

Theorem normalize_then_scroll c ov n :
  wf_chart c = true -> wf_override ov = true -> sv_normalize c ov = Some n ->
  exists o, scroll_speed (mkChart (c_bpms c) (Some n) (c_notes c)) ov = Some o
            /\ (forall t s, In (t, s) o -> exists v, s = Some v /\ v == 1)
            /\ (forall r, In r (c_bpms c) -> has_breakpoint o (fst r)).
Proof.
  intros W O Hn. destruct (reference_ok c ov W O) as [ref [E [_ Pos]]].
  unfold sv_normalize in Hn. rewrite E in Hn. destruct (c_svs c) as [svs0|]; [|discriminate]. inversion Hn; subst n. clear Hn.
  set (g := fun r : Q * Q => (fst r, Qred (ref / snd r))).
  set (c' := mkChart (c_bpms c) (Some (sv_normalize_with c ref)) (c_notes c)).
  assert (W': wf_chart c' = true) by exact W.
  pose proof (wf_chart_pos c W) as Bpos.
  unfold wf_chart in W. destruct (first_tempo c) as [ft|] eqn:Eft; [|discriminate].
  destruct (first_object c) as [fo|] eqn:Efo; [|discriminate].
  apply andb_true_iff in W. destruct W as [W _]. apply andb_true_iff in W. destruct W as [Wle _]. qbool.
  destruct (list_min_spec _ _ Eft) as [Ift _]. destruct (list_min_spec _ _ Efo) as [Ifo Bfo].
  assert (Hnn: c_notes c <> []) by (intro X; unfold first_object in Ifo; rewrite X in Ifo; destruct Ifo).
  assert (Eref: reference_bpm c' ov = Some ref).
  { rewrite <- E. unfold reference_bpm. rewrite (dominant_bpm_indep c c' eq_refl eq_refl Hnn). reflexivity. }
  destruct (scroll_speed_with_sv_keys c' ref (sv_normalize_with c ref) W' eq_refl) as [o [Eo [[Hs [Hb _]] Hk]]].
  exists o. split; [unfold scroll_speed; rewrite Eref; exact Eo|]. split; [|exact Hb].
  intros t s Hin. destruct (Hs t s Hin) as [b [v [Eb [Es Hc]]]]. exists v. split; [exact Es|].
  apply Q_close_0_inv in Hc. rewrite <- Hc.
  (* a tempo point lies at or before every breakpoint *)
  assert (Hr0: exists r0, In r0 (c_bpms c) /\ fst r0 <= t).
  { specialize (Hk t s Hin). unfold stack_offsets, sv_rows in Hk. cbn [c_bpms c_svs c_notes c'] in Hk.
    apply in_app_or in Hk. destruct Hk as [Hk|Hk]; [|apply in_app_or in Hk; destruct Hk as [Hk|Hk]].
    - apply in_map_iff in Hk. destruct Hk as [r [Er Hr]]. exists r. split; [exact Hr|rewrite Er; apply Qle_refl].
    - unfold sv_normalize_with in Hk. rewrite map_map in Hk. cbn [fst] in Hk. apply in_map_iff in Hk.
      destruct Hk as [r [Er Hr]]. exists r. split; [exact Hr|rewrite Er; apply Qle_refl].
    - unfold first_tempo, tempo_times in Ift. apply in_map_iff in Ift. destruct Ift as [r [Er Hr]].
      exists r. split; [exact Hr|]. rewrite Er. specialize (Bfo t Hk). lra. }
  destruct Hr0 as [r0 [Ir0 Le0]].
  destruct (latest_le t (c_bpms c) None) as [b0|] eqn:Lb.
  2:{ exfalso. apply (latest_le_is_some t (c_bpms c) None); [right; exists r0; split; assumption|exact Lb]. }
  destruct (latest_le_in _ _ _ _ Lb) as [X|[Ib0 _]]; [discriminate|]. pose proof (Bpos b0 Ib0) as Pb0.
  assert (Eb': bpm_at c' t = Some (snd b0)) by (unfold bpm_at; cbn [c_bpms c']; rewrite Lb; reflexivity).
  assert (Esv: sv_at c' t = Qred (ref / snd b0)).
  { unfold sv_at. cbn [c_svs c_bpms c']. unfold sv_normalize_with. fold g.
    pose proof (latest_le_map_keys t g (fun r => eq_refl) (c_bpms c) None) as X. cbn [option_map] in X. rewrite X, Lb.
    cbn [option_map]. assert (Hle: Qle_bool (fst b0) (fst (g b0)) = true) by (apply Qle_bool_iff; apply Qle_refl).
    rewrite Hle. reflexivity. }
  rewrite Eb' in Eb. inversion Eb; subst b. rewrite Esv, (Qred_correct (ref / snd b0)). field. split; lra.
Qed.
