(* C13: writing the rated chart and reading it back gives the rated timeline.  Theorems over the format models, by
   composition of (a) "the rated chart's denotation is the scaled denotation" (proved here for each format's chart type) and
   (b) the format's own write theorem (whole-file where it exists, otherwise the format's write oracle as a hypothesis). *)
From Coq Require Import ZArith QArith Qround Qabs List Bool Lia Lqa Permutation.
From RV Require Import Base.PyNum Formats.Timeline Map.RateWrite.
From RV Require Formats.Qua Formats.QuaSpec Proofs.QuaProofs.
Import ListNotations.
Open Scope Q_scope.

(* ------------------------------------------------------------------ generic list facts *)
Lemma Forall2_compose {A B C} (P : A -> B -> Prop) (R : C -> B -> Prop) l1 l2 l3 :
  Forall2 P l1 l2 -> Forall2 R l3 l2 -> Forall2 (fun x z => exists y, P x y /\ R z y) l1 l3.
Proof.
  intro H. revert l3. induction H as [|x y l1 l2 Hxy _ IH]; intros l3 H3; inversion H3; subst; constructor.
  - exists y. split; assumption.
  - apply IH. assumption.
Qed.
Lemma Forall2_impl' {A B} (P R : A -> B -> Prop) l m : (forall a b, P a b -> R a b) -> Forall2 P l m -> Forall2 R l m.
Proof. intros H F. induction F; constructor; auto. Qed.
Lemma Forall2_map2 {A B A' B'} (R : A' -> B' -> Prop) (f : A -> A') (g : B -> B') l m :
  Forall2 (fun x y => R (f x) (g y)) l m -> Forall2 R (map f l) (map g m).
Proof. intro F. induction F; cbn [map]; constructor; auto. Qed.
Lemma Forall2_len {A B} (P : A -> B -> Prop) l m : Forall2 P l m -> length l = length m.
Proof. intro F. induction F; cbn [length]; auto. Qed.
Lemma Forall2_and {A B} (P R : A -> B -> Prop) l m : Forall2 (fun x y => P x y /\ R x y) l m -> Forall2 P l m /\ Forall2 R l m.
Proof. intro F. induction F as [|x y l m [H1 H2] _ [IH1 IH2]]; split; constructor; auto. Qed.

(* |x - y| < 1 is stable under == on both sides *)
Lemma qabs_lt1_compat x x' y y' : x == x' -> y == y' -> Qabs (x' - y') < 1 -> Qabs (x - y) < 1.
Proof. intros Hx Hy H. rewrite Hx, Hy. exact H. Qed.

(* the strict element-wise relation implies C09's comparison with resolution 1 ms and equal tempo values *)
Lemma timeline_lt1_close a b : timeline_lt1 a b -> timeline_close 1 0 a b.
Proof.
  intros [Hn Ht]. split.
  - exists (tl_notes b). split; [apply Permutation_refl|]. eapply Forall2_impl'; [|exact Hn].
    intros x y (H1 & H2 & H3 & H4). repeat split; auto; apply Qlt_le_weak; assumption.
  - exists (tl_tempo b). split; [apply Permutation_refl|]. eapply Forall2_impl'; [|exact Ht].
    intros x y (H1 & H2). split; [apply Qlt_le_weak; exact H1|]. rewrite H2.
    setoid_replace (snd y - snd y) with 0 by ring. discriminate.
Qed.

(* ================================================================== Quaver *)
Module QuaRateProofs.
Import Qua QuaSpec QuaProofs QuaRate.
Local Open Scope Q_scope.

(* the denotation of the rated chart, element by element *)
Definition note_rated (r : Q) (n n' : noteD) : Prop :=
  n_lane n' = n_lane n /\ n_start n' == n_start n / r /\
  match n_end n, n_end n' with Some e, Some e' => e' == e / r | None, None => True | _, _ => False end /\
  n_ks n' = n_ks n.
Definition bpm_rated (r : Q) (p p' : Q * Q) : Prop := fst p' == fst p / r /\ snd p' == snd p * r.
Definition sv_rated (r : Q) (p p' : Q * Q) : Prop := fst p' == fst p / r /\ snd p' == snd p.

Lemma assoc_rated r a b : row_rated r a b -> forall k,
  match assoc k a, assoc k b with
  | Some v, Some v' => cell_rated r k v v' | None, None => True | _, _ => False end.
Proof.
  intro H. induction H as [|[k0 v] [k0' v'] a b [Hk Hc] _ IH]; intro k; [exact I|].
  cbn [fst snd] in Hk, Hc. subst k0'. cbn [assoc]. destruct (k =? k0)%Z eqn:E; [|apply IH].
  apply Z.eqb_eq in E. subst k0. exact Hc.
Qed.

Lemma lane_of_value v v' q q' : num v = Some q -> num v' = Some q' -> q' == q -> lane_of v' = lane_of v.
Proof.
  intros Hv Hv' E.
  assert (FL : forall (x : Q) (z : Z), x == inject_Z z -> Qfloor x = z /\ Qeq_bool x (inject_Z (Qfloor x)) = true).
  { intros x z Hx. assert (F : Qfloor x = z) by (rewrite Hx; apply Qfloor_Z). split; [exact F|].
    rewrite F. apply Qeq_bool_iff. exact Hx. }
  destruct v; try discriminate; destruct v'; try discriminate; cbn [num] in Hv, Hv'; inversion Hv; inversion Hv'; subst; cbn [lane_of].
  - assert (E' : z0 = z) by (apply inject_Z_injective; exact E). subst. reflexivity.
  - destruct (FL _ _ E) as [F1 F2]. rewrite F2, F1. reflexivity.
  - symmetry in E. destruct (FL _ _ E) as [F1 F2]. rewrite F2, F1. reflexivity.
  - assert (F : Qfloor q' = Qfloor q) by (rewrite E; reflexivity). rewrite F.
    destruct (Qeq_bool q (inject_Z (Qfloor q))) eqn:B.
    + apply Qeq_bool_iff in B. assert (B' : Qeq_bool q' (inject_Z (Qfloor q)) = true) by (apply Qeq_bool_iff; rewrite E; exact B).
      rewrite B'. reflexivity.
    + assert (B' : Qeq_bool q' (inject_Z (Qfloor q)) = false).
      { apply not_true_is_false. intro X. apply Qeq_bool_iff in X. rewrite E in X. apply Qeq_bool_iff in X. congruence. }
      rewrite B'. reflexivity.
Qed.
Lemma lane_of_num v l : lane_of v = Some l -> exists q, num v = Some q.
Proof. destruct v; try discriminate; intros _; eexists; reflexivity. Qed.
Lemma ks_of_not_num v ks : ks_of v = Some ks -> num v = None.
Proof. destruct v; try discriminate; reflexivity. Qed.

(* column-wise reading of cell_rated *)
Lemma rated_time r k v v' q : is_time_col k = true -> cell_rated r k v v' -> num v = Some q ->
  exists q', num v' = Some q' /\ q' == q / r.
Proof. unfold cell_rated, scale_q. intros Hk H Hq. rewrite Hq, Hk in H. exact H. Qed.
Lemma rated_bpm r v v' q : cell_rated r N_bpm v v' -> num v = Some q -> exists q', num v' = Some q' /\ q' == q * r.
Proof. unfold cell_rated. intros H Hq. rewrite Hq in H. exact H. Qed.
Lemma rated_other r k v v' q : is_time_col k = false -> (k =? N_bpm)%Z = false -> cell_rated r k v v' -> num v = Some q ->
  exists q', num v' = Some q' /\ q' == q.
Proof. unfold cell_rated, scale_q. intros H1 H2 H Hq. rewrite Hq, H1, H2 in H. exact H. Qed.
Lemma rated_nonnum r k v v' : cell_rated r k v v' -> num v = None -> v' = v.
Proof. unfold cell_rated. intros H Hq. rewrite Hq in H. exact H. Qed.

Lemma hit_row_rated r a b n : row_rated r a b -> hit_row_denote a = Some n ->
  exists n', hit_row_denote b = Some n' /\ note_rated r n n'.
Proof.
  intros H D. unfold hit_row_denote in *.
  pose proof (assoc_rated r a b H N_offset) as Ho. pose proof (assoc_rated r a b H N_column) as Hc.
  pose proof (assoc_rated r a b H N_keysounds) as Hk.
  destruct (assoc N_offset a) as [o|]; [|discriminate]. destruct (assoc N_column a) as [c|]; [|discriminate].
  destruct (assoc N_keysounds a) as [k|]; [|discriminate].
  destruct (assoc N_offset b) as [o'|]; [|contradiction]. destruct (assoc N_column b) as [c'|]; [|contradiction].
  destruct (assoc N_keysounds b) as [k'|]; [|contradiction].
  destruct (num o) as [qo|] eqn:No; [|discriminate]. destruct (lane_of c) as [l|] eqn:Lc; [|discriminate].
  destruct (ks_of k) as [ks|] eqn:Kk; [|discriminate]. inversion D; subst n. clear D.
  destruct (rated_time r N_offset o o' qo eq_refl Ho No) as [qo' [No' Eo]].
  destruct (lane_of_num c l Lc) as [qc Nc].
  destruct (rated_other r N_column c c' qc eq_refl eq_refl Hc Nc) as [qc' [Nc' Ec]].
  rewrite (lane_of_value c c' qc qc' Nc Nc' Ec), Lc.
  rewrite (rated_nonnum r _ k k' Hk (ks_of_not_num k ks Kk)), Kk, No'.
  eexists. split; [reflexivity|]. unfold note_rated. cbn [n_lane n_start n_end n_ks]. auto.
Qed.

Lemma hold_row_rated r a b n : ~ r == 0 -> row_rated r a b -> hold_row_denote a = Some n ->
  exists n', hold_row_denote b = Some n' /\ note_rated r n n'.
Proof.
  intros Hr H D. unfold hold_row_denote in *.
  pose proof (assoc_rated r a b H N_offset) as Ho. pose proof (assoc_rated r a b H N_column) as Hc.
  pose proof (assoc_rated r a b H N_keysounds) as Hk. pose proof (assoc_rated r a b H N_length) as Hl.
  destruct (assoc N_offset a) as [o|]; [|discriminate]. destruct (assoc N_column a) as [c|]; [|discriminate].
  destruct (assoc N_keysounds a) as [k|]; [|discriminate]. destruct (assoc N_length a) as [ln|]; [|discriminate].
  destruct (assoc N_offset b) as [o'|]; [|contradiction]. destruct (assoc N_column b) as [c'|]; [|contradiction].
  destruct (assoc N_keysounds b) as [k'|]; [|contradiction]. destruct (assoc N_length b) as [ln'|]; [|contradiction].
  destruct (num o) as [qo|] eqn:No; [|discriminate]. destruct (lane_of c) as [l|] eqn:Lc; [|discriminate].
  destruct (ks_of k) as [ks|] eqn:Kk; [|discriminate]. destruct (num ln) as [ql|] eqn:Nl; [|discriminate].
  remember (Qred (qo + ql)) as e0 eqn:He0 in D. inversion D; subst n. clear D.
  destruct (rated_time r N_offset o o' qo eq_refl Ho No) as [qo' [No' Eo]].
  destruct (rated_time r N_length ln ln' ql eq_refl Hl Nl) as [ql' [Nl' El]].
  destruct (lane_of_num c l Lc) as [qc Nc].
  destruct (rated_other r N_column c c' qc eq_refl eq_refl Hc Nc) as [qc' [Nc' Ec]].
  rewrite (lane_of_value c c' qc qc' Nc Nc' Ec), Lc.
  rewrite (rated_nonnum r _ k k' Hk (ks_of_not_num k ks Kk)), Kk, No', Nl'.
  eexists. split; [reflexivity|]. unfold note_rated. cbn [n_lane n_start n_end n_ks].
  split; [reflexivity|]. split; [exact Eo|]. split; [|reflexivity].
  rewrite He0, !Qred_correct, Eo, El. field. exact Hr.
Qed.

Lemma bpm_row_rated r a b p : row_rated r a b -> point_row_denote N_bpm a = Some p ->
  exists p', point_row_denote N_bpm b = Some p' /\ bpm_rated r p p'.
Proof.
  intros H D. unfold point_row_denote in *.
  pose proof (assoc_rated r a b H N_offset) as Ho. pose proof (assoc_rated r a b H N_bpm) as Hb.
  destruct (assoc N_offset a) as [o|]; [|discriminate]. destruct (assoc N_bpm a) as [x|]; [|discriminate].
  destruct (assoc N_offset b) as [o'|]; [|contradiction]. destruct (assoc N_bpm b) as [x'|]; [|contradiction].
  destruct (num o) as [qo|] eqn:No; [|discriminate]. destruct (num x) as [qx|] eqn:Nx; [|discriminate].
  inversion D; subst p. clear D.
  destruct (rated_time r N_offset o o' qo eq_refl Ho No) as [qo' [No' Eo]].
  destruct (rated_bpm r x x' qx Hb Nx) as [qx' [Nx' Ex]]. rewrite No', Nx'.
  eexists. split; [reflexivity|]. split; cbn [fst snd]; assumption.
Qed.
Lemma sv_row_rated r a b p : row_rated r a b -> point_row_denote N_multiplier a = Some p ->
  exists p', point_row_denote N_multiplier b = Some p' /\ sv_rated r p p'.
Proof.
  intros H D. unfold point_row_denote in *.
  pose proof (assoc_rated r a b H N_offset) as Ho. pose proof (assoc_rated r a b H N_multiplier) as Hb.
  destruct (assoc N_offset a) as [o|]; [|discriminate]. destruct (assoc N_multiplier a) as [x|]; [|discriminate].
  destruct (assoc N_offset b) as [o'|]; [|contradiction]. destruct (assoc N_multiplier b) as [x'|]; [|contradiction].
  destruct (num o) as [qo|] eqn:No; [|discriminate]. destruct (num x) as [qx|] eqn:Nx; [|discriminate].
  inversion D; subst p. clear D.
  destruct (rated_time r N_offset o o' qo eq_refl Ho No) as [qo' [No' Eo]].
  destruct (rated_other r N_multiplier x x' qx eq_refl eq_refl Hb Nx) as [qx' [Nx' Ex]]. rewrite No', Nx'.
  eexists. split; [reflexivity|]. split; cbn [fst snd]; assumption.
Qed.

Lemma omap_rated {A B} (f : A -> option B) (RA : A -> A -> Prop) (RB : B -> B -> Prop) :
  (forall a b n, RA a b -> f a = Some n -> exists n', f b = Some n' /\ RB n n') ->
  forall l m ns, Forall2 RA l m -> omap f l = Some ns -> exists ns', omap f m = Some ns' /\ Forall2 RB ns ns'.
Proof.
  intros Hf l m ns F. revert ns. induction F as [|a b l m Hab _ IH]; intros ns D; cbn [omap] in *.
  - inversion D. exists []. split; [reflexivity|constructor].
  - destruct (f a) as [n|] eqn:Fa; [|discriminate]. destruct (omap f l) as [r0|]; [|discriminate]. inversion D; subst ns.
    destruct (Hf a b n Hab Fa) as [n' [Fb Rn]]. destruct (IH r0 eq_refl) as [r' [Om Rr]].
    rewrite Fb, Om. eexists. split; [reflexivity|]. constructor; assumption.
Qed.

(* (a) the rated chart denotes the scaled chart *)
Theorem chart_rated_denote r c c' a : ~ r == 0 -> chart_rated r c c' -> chart_denote c = Some a ->
  exists a', chart_denote c' = Some a' /\ Forall2 (note_rated r) (d_notes a) (d_notes a') /\
             Forall2 (bpm_rated r) (d_bpms a) (d_bpms a') /\ Forall2 (sv_rated r) (d_svs a) (d_svs a') /\
             d_meta a' = d_meta a.
Proof.
  intros Hr (Fh & Fl & Fb & Fs & Fm) D. unfold chart_denote in *. rewrite Fm.
  destruct (omap hit_row_denote (f_rows (c_hits c))) as [h|] eqn:Eh; [|discriminate].
  destruct (omap hold_row_denote (f_rows (c_holds c))) as [l|] eqn:El; [|discriminate].
  destruct (omap (point_row_denote N_bpm) (f_rows (c_bpms c))) as [b|] eqn:Eb; [|discriminate].
  destruct (omap (point_row_denote N_multiplier) (f_rows (c_svs c))) as [s|] eqn:Es; [|discriminate].
  destruct (Nat.eqb (length (c_meta c)) (length ref_meta_table)); [|discriminate]. inversion D; subst a. clear D.
  destruct (omap_rated hit_row_denote (row_rated r) (note_rated r) (hit_row_rated r) _ _ _ (proj2 Fh) Eh) as [h' [Eh' Rh]].
  destruct (omap_rated hold_row_denote (row_rated r) (note_rated r) (fun a b n => hold_row_rated r a b n Hr) _ _ _ (proj2 Fl) El) as [l' [El' Rl]].
  destruct (omap_rated _ (row_rated r) (bpm_rated r) (bpm_row_rated r) _ _ _ (proj2 Fb) Eb) as [b' [Eb' Rb]].
  destruct (omap_rated _ (row_rated r) (sv_rated r) (sv_row_rated r) _ _ _ (proj2 Fs) Es) as [s' [Es' Rs]].
  rewrite Eh', El', Eb', Es'. eexists. split; [reflexivity|]. cbn [d_notes d_bpms d_svs d_meta].
  split; [apply Forall2_app; assumption|]. auto.
Qed.

(* element-wise: written element close to the rated chart's element, which is the scaled element of the source chart *)
Lemma note_survives r n y z : ~ r == 0 -> note_closeb n y = true -> note_rated r z y ->
  note_lt1 (tn_of_qua n) (tn_scale r (tn_of_qua z)) /\ note_extra n z.
Proof.
  intros Hr C (Rl & Rs & Re & Rk). unfold note_closeb in C.
  apply andb_true_iff in C. destruct C as [C Ck]. apply andb_true_iff in C. destruct C as [C Ce].
  apply andb_true_iff in C. destruct C as [Cl Cs]. apply Z.eqb_eq in Cl. apply lt1_true in Cs.
  split; [|split; [congruence|rewrite <- Rk; exact Ck]].
  unfold tn_of_qua, note_lt1, tn_end.
  destruct (n_end n) as [e|], (n_end y) as [ey|]; try discriminate; destruct (n_end z) as [ez|]; try contradiction;
    cbn [tn_scale tn_hold tn_col tn_time tn_len].
  - apply lt1_true in Ce. split; [reflexivity|]. split; [congruence|]. split.
    + eapply qabs_lt1_compat; [reflexivity|symmetry; exact Rs|exact Cs].
    + eapply (qabs_lt1_compat _ e _ ey); [ring| |exact Ce]. rewrite Re. field. exact Hr.
  - split; [reflexivity|]. split; [congruence|]. split.
    + eapply qabs_lt1_compat; [reflexivity|symmetry; exact Rs|exact Cs].
    + eapply (qabs_lt1_compat _ (n_start n) _ (n_start y)); [ring| |exact Cs]. rewrite Rs. field. exact Hr.
Qed.
Lemma bpm_survives r p y z : pt_closeb p y = true -> bpm_rated r z y -> tempo_lt1 p (tp_scale r z).
Proof.
  intros C [R1 R2]. unfold pt_closeb in C. apply andb_true_iff in C. destruct C as [C1 C2].
  apply lt1_true in C1. apply Qeq_bool_iff in C2. unfold tempo_lt1, tp_scale. cbn [fst snd]. split.
  - eapply qabs_lt1_compat; [reflexivity|symmetry; exact R1|exact C1].
  - rewrite C2. exact R2.
Qed.
Lemma sv_survives r p y z : pt_closeb p y = true -> sv_rated r z y -> sv_scaled r p z.
Proof.
  intros C [R1 R2]. unfold pt_closeb in C. apply andb_true_iff in C. destruct C as [C1 C2].
  apply lt1_true in C1. apply Qeq_bool_iff in C2. unfold sv_scaled. split.
  - eapply qabs_lt1_compat; [reflexivity|symmetry; exact R1|exact C1].
  - rewrite C2. exact R2.
Qed.

(* what "the written document is the rated chart" means *)
Definition survives (r : Q) (c : chart) (out : option ytree) : Prop :=
  exists d e a, out = Some d /\ wf_qua_docb d = true /\ qua_denote d = Some e /\ chart_denote c = Some a /\
    timeline_lt1 (tl_of_qua e) (tl_scale r (tl_of_qua a)) /\
    Forall2 note_extra (d_notes e) (d_notes a) /\ Forall2 (sv_scaled r) (d_svs e) (d_svs a) /\
    meta_refinesb (d_meta e) (map Some (c_meta c)) = true /\ all_declared (d_meta e) = true.

Lemma chart_denote_meta c a : chart_denote c = Some a -> d_meta a = map Some (c_meta c).
Proof.
  unfold chart_denote. destruct (omap hit_row_denote _); [|discriminate]. destruct (omap hold_row_denote _); [|discriminate].
  destruct (omap (point_row_denote N_bpm) _); [|discriminate]. destruct (omap (point_row_denote N_multiplier) _); [|discriminate].
  destruct (Nat.eqb _ _); [|discriminate]. intro H. inversion H. reflexivity.
Qed.

(* (a) + (b): for ANY representation c' of the rated chart that is in the writer's domain *)
Theorem qua_rated_survives_write r c c' : ~ r == 0 -> wf_chartb false c = true -> wf_chartb false c' = true ->
  chart_rated r c c' -> survives r c (Live.write c').
Proof.
  intros Hr Wc Wc' R.
  pose proof (qua_write_live_ok c Wc) as S0. unfold write_specb in S0.
  destruct (Live.write c) as [d0|]; [|discriminate]. apply andb_true_iff in S0. destruct S0 as [_ S0].
  destruct (qua_denote d0) as [e0|]; [|discriminate]. destruct (chart_denote c) as [a|] eqn:Da; [|discriminate]. clear S0.
  destruct (chart_rated_denote r c c' a Hr R Da) as [a' [Da' [Rn [Rb [Rs Rm]]]]].
  pose proof (qua_write_live_ok c' Wc') as S. unfold write_specb in S.
  destruct (Live.write c') as [d|]; [|discriminate]. apply andb_true_iff in S. destruct S as [Wd S].
  destruct (qua_denote d) as [e|] eqn:De; [|discriminate]. rewrite Da' in S.
  apply andb_true_iff in S. destruct S as [S Sall]. unfold den_closeb in S.
  apply andb_true_iff in S. destruct S as [S Sm]. apply andb_true_iff in S. destruct S as [S Ss].
  apply andb_true_iff in S. destruct S as [Sn Sb].
  exists d, e, a. split; [reflexivity|]. split; [exact Wd|]. split; [exact De|]. split; [exact Da|].
  assert (Fn : Forall2 (fun n z => note_lt1 (tn_of_qua n) (tn_scale r (tn_of_qua z)) /\ note_extra n z) (d_notes e) (d_notes a)).
  { eapply Forall2_impl'; [|apply (Forall2_compose _ _ _ _ _ (all2_Forall2 _ (fun x y => note_closeb x y = true) (fun _ _ H => H) _ _ Sn) Rn)].
    intros n z [y [C Ry]]. apply (note_survives r n y z Hr C Ry). }
  apply Forall2_and in Fn. destruct Fn as [Fn1 Fn2].
  split; [split|].
  - unfold tl_of_qua, tl_scale. cbn [tl_notes]. rewrite map_map. apply Forall2_map2. exact Fn1.
  - unfold tl_of_qua, tl_scale. cbn [tl_tempo].
    rewrite <- (map_id (d_bpms e)). apply Forall2_map2.
    eapply Forall2_impl'; [|apply (Forall2_compose _ _ _ _ _ (all2_Forall2 _ (fun x y => pt_closeb x y = true) (fun _ _ H => H) _ _ Sb) Rb)].
    intros p z [y [C Ry]]. apply (bpm_survives r p y z C Ry).
  - split; [exact Fn2|]. split.
    + eapply Forall2_impl'; [|apply (Forall2_compose _ _ _ _ _ (all2_Forall2 _ (fun x y => pt_closeb x y = true) (fun _ _ H => H) _ _ Ss) Rs)].
      intros p z [y [C Ry]]. apply (sv_survives r p y z C Ry).
    + split; [|exact Sall]. rewrite <- (chart_denote_meta c a Da), <- Rm. exact Sm.
Qed.

(* ---- the canonical rated chart ---- *)
Lemma cell_rated_canon r k v : cell_rated r k v (rate_cell r k v).
Proof.
  unfold cell_rated, rate_cell. destruct (num v) as [q|] eqn:N.
  - destruct (is_time_col k || (k =? N_bpm)%Z) eqn:E.
    + eexists. split; [reflexivity|]. apply Qred_correct.
    + exists q. split; [exact N|]. unfold scale_q. apply orb_false_iff in E. destruct E as [E1 E2]. rewrite E1, E2. reflexivity.
  - destruct (is_time_col k || (k =? N_bpm)%Z); reflexivity.
Qed.
Lemma frame_rated_canon r f : frame_rated r f (rate_frame r f).
Proof.
  split; [reflexivity|]. cbn [rate_frame f_rows]. induction (f_rows f) as [|row rows IH]; cbn [map]; constructor; [|exact IH].
  unfold row_rated, rate_row. induction row as [|[k v] row IHr]; cbn [map]; constructor; [|exact IHr].
  cbn [fst snd]. split; [reflexivity|apply cell_rated_canon].
Qed.
Theorem qua_rate_is_rated r c : chart_rated r c (qua_rate r c).
Proof. unfold chart_rated, qua_rate. cbn [c_hits c_holds c_bpms c_svs c_meta]. repeat split; try apply frame_rated_canon. Qed.

Lemma listZ_eqb_refl l : listZ_eqb l l = true.
Proof. induction l as [|x l IH]; [reflexivity|]. cbn [listZ_eqb]. rewrite Z.eqb_refl. exact IH. Qed.

Lemma frame_okb_rate r decl f :
  (forall k p v, assoc k decl = Some p -> p v = true -> p (rate_cell r k v) = true) ->
  frame_okb decl false f = true -> frame_okb decl false (rate_frame r f) = true.
Proof.
  intros Hp H. destruct (frame_ok_inv decl f H) as (_ & _ & _ & Hrows).
  unfold frame_okb in *. cbn [rate_frame f_cols f_rows].
  apply andb_true_iff in H. destruct H as [H _]. rewrite H. cbn [andb].
  rewrite forallb_forall. intros row' Hin. apply in_map_iff in Hin. destruct Hin as [row [<- Hin]].
  rewrite Forall_forall in Hrows. destruct (Hrows row Hin) as [Ek Ht].
  apply andb_true_iff. split.
  - assert (Em : map fst (rate_row r row) = map fst row) by (unfold rate_row; rewrite map_map; apply map_ext; reflexivity).
    rewrite Em, Ek. apply listZ_eqb_refl.
  - rewrite forallb_forall. intros kv' Hkv. unfold rate_row in Hkv. apply in_map_iff in Hkv.
    destruct Hkv as [[k v] [<- Hkv]]. cbn [fst snd]. destruct (Ht k v Hkv) as [p [Ap Pv]]. rewrite Ap. apply (Hp k p v Ap Pv).
Qed.

Lemma is_num_rate r k v : is_num v = true -> is_num (rate_cell r k v) = true.
Proof. unfold rate_cell. destruct v; try discriminate; intros _; cbn [num]; destruct (is_time_col k || (k =? N_bpm)%Z); reflexivity. Qed.

Ltac decl_cases Hk :=
  cbn [assoc hit_decl hold_decl bpm_decl sv_decl] in Hk;
  repeat match type of Hk with
         | (if (?k =? ?c)%Z then _ else _) = _ =>
             let E := fresh "E" in destruct (k =? c)%Z eqn:E; [apply Z.eqb_eq in E; subst k; inversion Hk; subst; clear Hk|]
         end; try discriminate.

Lemma decl_rate_hit r k p v : assoc k (hit_decl false) = Some p -> p v = true -> p (rate_cell r k v) = true.
Proof. intros Hk Pv. decl_cases Hk; try (apply is_num_rate; exact Pv); exact Pv. Qed.
Lemma decl_rate_hold r k p v : assoc k (hold_decl false) = Some p -> p v = true -> p (rate_cell r k v) = true.
Proof. intros Hk Pv. decl_cases Hk; try (apply is_num_rate; exact Pv); exact Pv. Qed.
Lemma decl_rate_bpm r k p v : assoc k bpm_decl = Some p -> p v = true -> p (rate_cell r k v) = true.
Proof. intros Hk Pv. decl_cases Hk; try (apply is_num_rate; exact Pv); exact Pv. Qed.
Lemma decl_rate_sv r k p v : assoc k sv_decl = Some p -> p v = true -> p (rate_cell r k v) = true.
Proof. intros Hk Pv. decl_cases Hk; try (apply is_num_rate; exact Pv); exact Pv. Qed.

Theorem qua_rate_wf r c : wf_chartb false c = true -> wf_chartb false (qua_rate r c) = true.
Proof.
  unfold wf_chartb, qua_rate. cbn [c_hits c_holds c_bpms c_svs c_meta]. intro H.
  do 4 (apply andb_true_iff in H; destruct H as [H ?]).
  rewrite (frame_okb_rate r _ _ (decl_rate_hit r) H), (frame_okb_rate r _ _ (decl_rate_hold r) H3),
          (frame_okb_rate r _ _ (decl_rate_bpm r) H2), (frame_okb_rate r _ _ (decl_rate_sv r) H1), H0. reflexivity.
Qed.

(* C13 for Quaver: for every chart of the writer's strict domain and every rate r <> 0 the rated chart is written, the
   written document is well-formed and denotes: the same number of notes in the same order, each with its kind, lane and
   key sounds, start and end within less than 1 ms of time / r; the same number of timing points, each within less than
   1 ms of time / r with bpm * r exactly; scroll velocities at time / r with their multiplier; the metadata *)
Theorem qua_rate_survives_write r c : ~ r == 0 -> wf_chartb false c = true -> survives r c (Live.write (qua_rate r c)).
Proof. intros Hr W. apply qua_rated_survives_write; [exact Hr|exact W|apply qua_rate_wf; exact W|apply qua_rate_is_rated]. Qed.

(* ... in the vocabulary of C09: the timelines agree at resolution 1 ms with equal tempo values *)
Corollary qua_rate_survives_write_timeline r c : ~ r == 0 -> wf_chartb false c = true ->
  exists d e a, Live.write (qua_rate r c) = Some d /\ qua_denote d = Some e /\ chart_denote c = Some a /\
                timeline_close 1 0 (tl_of_qua e) (tl_scale r (tl_of_qua a)) /\
                length (tl_notes (tl_of_qua e)) = length (tl_notes (tl_of_qua a)) /\
                length (tl_tempo (tl_of_qua e)) = length (tl_tempo (tl_of_qua a)).
Proof.
  intros Hr W. destruct (qua_rate_survives_write r c Hr W) as (d & e & a & E1 & _ & E2 & E3 & T & _).
  exists d, e, a. split; [exact E1|]. split; [exact E2|]. split; [exact E3|]. split; [apply timeline_lt1_close; exact T|].
  destruct T as [Tn Tt]. apply Forall2_len in Tn, Tt. unfold tl_scale in Tn, Tt. cbn [tl_notes tl_tempo] in Tn, Tt.
  rewrite map_length in Tn, Tt. split; assumption.
Qed.

(* ... and reading the written document back gives a chart that denotes what the document denotes (C06) *)
Theorem qua_rate_read_back r c : wf_chartb false c = true ->
  exists d c', Live.write (qua_rate r c) = Some d /\ Live.read d = Some c' /\ ReadSpec d (Some c') /\ wf_chartb false c' = true.
Proof.
  intro W. destruct (qua_read_after_write (qua_rate r c) (qua_rate_wf r c W)) as (d & c' & E1 & E2 & _ & R & W').
  exists d, c'. auto.
Qed.
End QuaRateProofs.

(* ================================================================== osu!mania *)
From Coq Require String.
From RV Require Base.Text Formats.Osu Formats.OsuSpec Proofs.OsuProofs Proofs.OsuWrite Proofs.OsuWhole.
Module OsuRateProofs.
Import String.
Import List ListNotations.
Import Osu OsuSpec OsuRate.
Local Open Scope Q_scope.

(* the list part of OsuSpec.denotes for a written text: what C01's write oracle (write_specb) says about the five lists *)
Definition lists_written (d : dchart) (c : chart) : bool :=
  perm_match (sample_close 0) (d_samples d) (map trunc_sample (c_samples c))
  && perm_match (bpm_close 0) (d_bpms d) (c_bpms c)
  && perm_match (sv_close 0) (d_svs d) (c_svs c)
  && perm_match (note_close 0) (d_hits d) (map (trunc_note false) (c_hits c))
  && perm_match (note_close 0) (d_holds d) (map (trunc_note true) (c_holds c)).

Lemma write_specb_lists c ut ua written : write_specb 0 c ut ua written = true ->
  exists d, osu_denote written = Some d /\ wf_osu_text written = true /\ lists_written d c = true.
Proof.
  unfold write_specb. intro H. apply andb_true_iff in H. destruct H as [W H].
  destruct (osu_denote written) as [d|]; [|discriminate]. exists d. split; [reflexivity|]. split; [exact W|].
  apply andb_true_iff in H. destruct H as [_ H]. unfold denotes, written_chart in H.
  cbn [c_meta c_bg c_samples c_bpms c_svs c_hits c_holds] in H.
  repeat (apply andb_true_iff in H; destruct H as [H ?]). unfold lists_written.
  repeat (apply andb_true_iff; split); assumption.
Qed.

Lemma remove_first_perm {A} (p : A -> bool) l l' : remove_first p l = Some l' ->
  exists y, p y = true /\ Permutation l (y :: l').
Proof.
  revert l'. induction l as [|y l IH]; intros l' H; [discriminate|]. cbn [remove_first] in H.
  destruct (p y) eqn:E.
  - inversion H; subst. exists y. split; [exact E|apply Permutation_refl].
  - destruct (remove_first p l) as [l0|]; [|discriminate]. inversion H; subst.
    destruct (IH l0 eq_refl) as [z [Pz Hp]]. exists z. split; [exact Pz|].
    apply Permutation_trans with (y :: z :: l0); [apply perm_skip; exact Hp|apply perm_swap].
Qed.
Lemma perm_match_sound {A} (r : A -> A -> bool) a b : perm_match r a b = true ->
  exists b', Permutation b b' /\ Forall2 (fun x y => r x y = true) a b'.
Proof.
  revert b. induction a as [|x a IH]; intros b H; cbn [perm_match] in H.
  - destruct b; [|discriminate]. exists []. split; [apply Permutation_refl|constructor].
  - destruct (remove_first (r x) b) as [b0|] eqn:E; [|discriminate].
    destruct (remove_first_perm _ _ _ E) as [y [Ry Hp]]. destruct (IH b0 H) as [b1 [Hp1 F]].
    exists (y :: b1). split; [apply Permutation_trans with (y :: b0); [exact Hp|apply perm_skip; exact Hp1]|].
    constructor; assumption.
Qed.
(* transport of a multiset relation through maps on the reference side *)
Lemma msr_map {A B C} (R : A -> C -> Prop) (S : A -> B -> Prop) (f : B -> C) a b :
  (forall x y, R x (f y) -> S x y) -> msr R a (map f b) -> msr S a b.
Proof.
  intros H [b' [Hp F]]. symmetry in Hp. destruct (Permutation_map_inv _ _ Hp) as [b0 [E Hp0]]. subst b'.
  exists b0. split; [exact Hp0|]. clear Hp Hp0. revert F. generalize b0. clear b0.
  induction a as [|x a IH]; intros b0 F; destruct b0; inversion F; subst; constructor; auto.
Qed.
Lemma msr_of_perm_match {A} (r : A -> A -> bool) a b : perm_match r a b = true -> msr (fun x y => r x y = true) a b.
Proof. exact (perm_match_sound r a b). Qed.
Lemma msr_app {A B} (R : A -> B -> Prop) a1 a2 b1 b2 : msr R a1 b1 -> msr R a2 b2 -> msr R (a1 ++ a2) (b1 ++ b2).
Proof.
  intros [c1 [P1 F1]] [c2 [P2 F2]]. exists (c1 ++ c2). split; [apply Permutation_app; assumption|apply Forall2_app; assumption].
Qed.
Lemma msr_maps {A B A' B'} (R : A -> B -> Prop) (S : A' -> B' -> Prop) (f : A -> A') (g : B -> B') a b :
  (forall x y, R x y -> S (f x) (g y)) -> msr R a b -> msr S (map f a) (map g b).
Proof.
  intros H [b' [Hp F]]. exists (map g b'). split; [apply Permutation_map; exact Hp|].
  apply Forall2_map2. exact (Forall2_impl' R (fun x y => S (f x) (g y)) a b' H F).
Qed.

Lemma q_close0 a b : OsuSpec.q_close 0 a b = true -> a == b.
Proof.
  unfold OsuSpec.q_close. intro H. apply Qle_bool_iff in H.
  assert (Z0 : 0 * (1 + Qabs a) == 0) by ring. rewrite Z0 in H.
  apply Qabs_Qle_condition in H. destruct H as [H1 H2]. lra.
Qed.
Lemma q_close_meta a b : OsuSpec.q_close (qmax 0 META_TOL) a b = true -> Qabs (a - b) <= META_TOL * (1 + Qabs a).
Proof. unfold OsuSpec.q_close. intro H. apply Qle_bool_iff in H. exact H. Qed.

Lemma trunc_lt1 x : Qabs (inject_Z (qtrunc x) - x) < 1.
Proof.
  pose proof (QuaProofs.qtrunc_lt1 x) as H. rewrite <- Qabs_opp.
  setoid_replace (- (inject_Z (qtrunc x) - x)) with (x - inject_Z (qtrunc x)) by ring. exact H.
Qed.

(* element-wise *)
Ltac andbs H := repeat (apply andb_true_iff in H; let H' := fresh "C" in destruct H as [H H']).
Ltac norm_close :=
  repeat match goal with
         | H : OsuSpec.q_close 0 _ _ = true |- _ => apply q_close0 in H
         | H : OsuSpec.q_close (qmax 0 META_TOL) _ _ = true |- _ => apply q_close_meta in H
         | H : (_ =? _)%Z = true |- _ => apply Z.eqb_eq in H
         | H : Text.text_eqb _ _ = true |- _ => apply Text.text_eqb_eq in H
         end.
Lemma trunc_of_scaled a x r : a == inject_Z (qtrunc (Qred (x / r))) -> Qabs (a - x / r) < 1.
Proof.
  intro H. eapply (qabs_lt1_compat _ (inject_Z (qtrunc (Qred (x / r)))) _ (Qred (x / r)));
    [exact H|rewrite Qred_correct; reflexivity|apply trunc_lt1].
Qed.

Lemma hit_survives r x n : ~ r == 0 -> note_close 0 x (trunc_note false (note_rate r n)) = true ->
  note_lt1 (mkTN false (n_col x) (n_off x) 0) (tn_scale r (mkTN false (n_col n) (n_off n) 0)).
Proof.
  intros Hr H. unfold note_close in H. andbs H. cbn [trunc_note note_rate n_off n_col n_len] in *. norm_close.
  unfold note_lt1, tn_end, tn_scale. cbn [tn_hold tn_col tn_time tn_len].
  split; [reflexivity|]. split; [assumption|].
  assert (T : Qabs (n_off x - n_off n / r) < 1) by (apply trunc_of_scaled; assumption).
  split; [exact T|]. eapply qabs_lt1_compat; [| |exact T]; [ring|field; exact Hr].
Qed.
Lemma hold_survives r x n : ~ r == 0 -> note_close 0 x (trunc_note true (note_rate r n)) = true ->
  note_lt1 (mkTN true (n_col x) (n_off x) (n_len x)) (tn_scale r (mkTN true (n_col n) (n_off n) (n_len n))).
Proof.
  intros Hr H. unfold note_close in H. andbs H. cbn [trunc_note note_rate n_off n_col n_len] in *. norm_close.
  unfold note_lt1, tn_end, tn_scale. cbn [tn_hold tn_col tn_time tn_len].
  split; [reflexivity|]. split; [assumption|]. split; [apply trunc_of_scaled; assumption|].
  set (A := inject_Z (qtrunc (Qred (n_off n / r)))) in *.
  set (B := inject_Z (qtrunc (Qred (n_off n / r) + Qred (n_len n / r)))) in *.
  match goal with Ho : n_off x == A, Hl : n_len x == _ |- _ =>
    eapply (qabs_lt1_compat _ B _ (Qred (n_off n / r) + Qred (n_len n / r)));
      [rewrite Ho, Hl, (Qred_correct (B - A)); ring|rewrite !Qred_correct; reflexivity|apply trunc_lt1] end.
Qed.
Lemma bpm_survives r x b : bpm_close 0 x (bpm_rate r b) = true ->
  tempo_osu (b_off x, b_bpm x) (tp_scale r (b_off b, b_bpm b)).
Proof.
  intro H. unfold bpm_close in H. andbs H. cbn [bpm_rate b_off b_bpm] in *. norm_close.
  unfold tempo_osu, tp_scale. cbn [fst snd].
  match goal with Ho : b_off x == _, Hb : Qabs (b_bpm x - _) <= _ |- _ =>
    split; [rewrite Ho; apply Qred_correct|rewrite Qred_correct in Hb; exact Hb] end.
Qed.
Lemma sv_survives r x s : sv_close 0 x (sv_rate r s) = true -> sv_osu r x s.
Proof.
  intro H. unfold sv_close in H. andbs H. cbn [sv_rate s_off s_mul] in *. norm_close.
  unfold sv_osu. match goal with Ho : s_off x == _ |- _ => split; [rewrite Ho; apply Qred_correct|assumption] end.
Qed.
Lemma sample_survives r x s : sample_close 0 x (trunc_sample (sample_rate r s)) = true -> sample_scaled r x s.
Proof.
  intro H. unfold sample_close in H. andbs H. cbn [trunc_sample sample_rate sm_off sm_file sm_vol] in *. norm_close.
  unfold sample_scaled. split; [apply trunc_of_scaled; assumption|split; assumption].
Qed.

(* what "the written text is the rated chart" means for osu *)
Definition survives (r : Q) (c : chart) (d : dchart) : Prop :=
  msr note_lt1 (tl_notes (tl_of_osu d)) (tl_notes (tl_scale r (tl_of_chart c))) /\
  msr tempo_osu (tl_tempo (tl_of_osu d)) (tl_tempo (tl_scale r (tl_of_chart c))) /\
  msr (sample_scaled r) (d_samples d) (c_samples c) /\ msr (sv_osu r) (d_svs d) (c_svs c).

(* the five lists of the written text of the rated chart are the rated lists *)
Theorem osu_rated_lists_survive r c d : ~ r == 0 -> lists_written d (osu_chart_rate r c) = true -> survives r c d.
Proof.
  intros Hr H. unfold lists_written in H. repeat (apply andb_true_iff in H; destruct H as [H ?]).
  cbn [osu_chart_rate c_samples c_bpms c_svs c_hits c_holds] in *. rewrite !map_map in *.
  apply msr_of_perm_match in H, H0, H1, H2, H3.
  unfold survives, tl_of_osu, tl_of_chart, tl_scale. cbn [tl_notes tl_tempo]. rewrite map_app. repeat split.
  - apply msr_app.
    + rewrite map_map. apply msr_maps with (R := fun x n => note_close 0 x (trunc_note false (note_rate r n)) = true).
      * intros x n Hx. apply hit_survives; assumption.
      * eapply msr_map; [|exact H1]. auto.
    + rewrite map_map. apply msr_maps with (R := fun x n => note_close 0 x (trunc_note true (note_rate r n)) = true).
      * intros x n Hx. apply hold_survives; assumption.
      * eapply msr_map; [|exact H0]. auto.
  - rewrite map_map. apply msr_maps with (R := fun x b => bpm_close 0 x (bpm_rate r b) = true).
    + intros x b Hx. apply (bpm_survives r x b Hx).
    + eapply msr_map; [|exact H3]. auto.
  - eapply msr_map; [|exact H]. intros x s Hx. apply sample_survives. exact Hx.
  - eapply msr_map; [|exact H2]. intros x s Hx. apply sv_survives. exact Hx.
Qed.

(* C13 for osu, PARTIAL: against C01's write oracle.  IF the text written for the rated chart satisfies OsuSpec.write_specb
   (C01's whole-file writer statement: proved line by line, evaluated on every run on reamber's output, not yet a theorem
   for all charts) THEN it is well-formed and denotes the rated timeline: the same notes up to order with kind and column,
   start and end within less than 1 ms of time / r; the tempo points at exactly time / r with bpm * r (up to the oracle's
   1e-9 relative allowance for float printing); sample events within less than 1 ms of time / r with file and volume;
   scroll velocities at time / r. *)
Theorem osu_rate_survives_write_partial r c ut ua written : ~ r == 0 ->
  write_specb 0 (osu_chart_rate r c) ut ua written = true ->
  exists d, osu_denote written = Some d /\ wf_osu_text written = true /\ survives r c d.
Proof.
  intros Hr H. destruct (write_specb_lists _ _ _ _ H) as [d [D [W L]]]. exists d. split; [exact D|]. split; [exact W|].
  apply osu_rated_lists_survive; assumption.
Qed.

(* what the writer prints for the preview point of the rated chart: int(preview / r), and -1 for the marker *)
Theorem osu_rate_preview_line r c ut ua : (length (c_meta c) > 2)%nat ->
  In [WT (Text.t "PreviewTime: "%string ++ Text.show_int (qtrunc (RateFile.osu_preview_rate r (meta_num (c_meta c) IX_PREVIEW))))]
     (write_meta (osu_chart_rate r c) ut ua).
Proof.
  intro L. unfold write_meta. apply in_or_app. left. cbn [osu_chart_rate c_meta].
  assert (E : meta_num (set_nth (c_meta c) IX_PREVIEW (MNum (RateFile.osu_preview_rate r (meta_num (c_meta c) IX_PREVIEW)))) 2
              = RateFile.osu_preview_rate r (meta_num (c_meta c) IX_PREVIEW)).
  { unfold meta_num at 1, IX_PREVIEW. destruct (c_meta c) as [|m0 [|m1 [|m2 m]]]; cbn [length] in L; try lia. reflexivity. }
  rewrite E. do 5 right. left. reflexivity.
Qed.

(* a concrete chart through the whole model pipeline (writer -> text -> reference semantics): 7 keys, a sample event,
   fractional and negative note times, a hold, one tempo point, one SV, NO preview point (PreviewTime -1) *)
Definition wit_chart : chart :=
  mkChart OsuProofs.example_meta (Text.t "bg.png"%string)
          [mkSample (24565 # 2) (34%Z :: Text.t "clap.wav"%string ++ [34%Z]) 70%Z]
          [mkBpm (1000#1) (120#1) 4%Z 2%Z 1%Z 60%Z false]
          [mkSv (2000#1) (2#1) 2%Z 1%Z 60%Z true]
          [mkNote (1000#1) 6%Z 0 0%Z 0%Z 0%Z 0%Z 0%Z []; mkNote ((-7)#2) 0%Z 0 2%Z 1%Z 3%Z 7%Z 40%Z (Text.t "a.wav"%string)]
          [mkNote (2001#2) 3%Z (21#2) 0%Z 0%Z 0%Z 0%Z 0%Z []].
Definition sample_scaledb (r : Q) (a b : sample) : bool :=
  Qlt_bool (Qabs (sm_off a - sm_off b / r)) 1 && Text.text_eqb (sm_file a) (sm_file b) && (sm_vol a =? sm_vol b)%Z.
Theorem osu_example_survives :
  meta_num (c_meta wit_chart) IX_PREVIEW = -1 /\
  match osu_write (osu_chart_rate 2 wit_chart) (Text.t "Re:Zero"%string) [] with
  | Some wl =>
      let written := file_lines (OsuProofs.render wl) in
      write_specb 0 (osu_chart_rate 2 wit_chart) (Text.t "Re:Zero"%string) [] written = true
      /\ match osu_denote written with
         | Some d => lists_written d (osu_chart_rate 2 wit_chart) = true
                     /\ timeline_closeb 1 0 (tl_of_osu d) (tl_scale 2 (tl_of_chart wit_chart)) = true
                     /\ nth IX_PREVIEW (d_meta d) None = Some (MNum (-1))          (* still "no preview point" *)
         | None => False end
  | None => False
  end.
Proof. vm_compute. repeat split; reflexivity. Qed.
(* the same chart with a preview point at 12345 ms: the writer prints int(6172.5) = 6172 and C01's write oracle (whose
   written_chart truncates PreviewTime like every written time) accepts the text *)
Definition wit_chart_pv : chart :=
  mkChart (set_nth (c_meta wit_chart) IX_PREVIEW (MNum 12345)) (c_bg wit_chart) (c_samples wit_chart) (c_bpms wit_chart)
          (c_svs wit_chart) (c_hits wit_chart) (c_holds wit_chart).
Theorem osu_example_fractional_preview :
  match osu_write (osu_chart_rate 2 wit_chart_pv) (Text.t "Re:Zero"%string) [] with
  | Some wl =>
      let written := file_lines (OsuProofs.render wl) in
      write_specb 0 (osu_chart_rate 2 wit_chart_pv) (Text.t "Re:Zero"%string) [] written = true
      /\ match osu_denote written with
         | Some d => lists_written d (osu_chart_rate 2 wit_chart_pv) = true
                     /\ nth IX_PREVIEW (d_meta d) None = Some (MNum 6172)
         | None => False end
  | None => False
  end.
Proof. vm_compute. repeat split; reflexivity. Qed.

(* ---- composition with C01's whole-file writer theorem (Proofs/OsuWhole.v osu_write_denotes; the float / int printers are
   oracle parameters: any printer whose output parses back to the printed value on the numbers it is asked to print) ---- *)
Section Whole.
  Variable show_num show_inum : Q -> Text.text.
  Variable printable iprintable : Q -> bool.
  Hypothesis show_num_reads : forall q, printable q = true -> Text.parse_dec (show_num q) = Some (Qred q).
  Hypothesis show_inum_reads : forall q, iprintable q = true -> Text.parse_int (show_inum q) = Some (Qfloor q).

  Theorem osu_rate_survives_write r c ut ua : ~ r == 0 ->
    OsuWrite.wdom printable iprintable (osu_chart_rate r c) ut ua = true ->
    exists text d, OsuWrite.written show_num show_inum (osu_chart_rate r c) ut ua = Some text /\
                   osu_denote text = Some d /\ wf_osu_text text = true /\ all_present d = true /\ survives r c d.
  Proof.
    intros Hr D.
    destruct (OsuWhole.osu_write_denotes show_num show_inum printable iprintable show_num_reads show_inum_reads _ ut ua D)
      as (text & d & W & E & A & _ & S).
    destruct (osu_rate_survives_write_partial r c ut ua text Hr S) as (d' & E' & Wf & Sv).
    rewrite E in E'. inversion E'; subst d'. exists text, d. auto.
  Qed.
End Whole.
(* the hypothesis-free instance: six-decimal fixed point for floats, str(int) for ints *)
Theorem osu_rate_survives_write_dec6 r c ut ua : ~ r == 0 -> OsuWhole.wdom6 (osu_chart_rate r c) ut ua = true ->
  exists text d, OsuWhole.written6 (osu_chart_rate r c) ut ua = Some text /\
                 osu_denote text = Some d /\ wf_osu_text text = true /\ all_present d = true /\ survives r c d.
Proof.
  exact (osu_rate_survives_write OsuWhole.show_dec6 OsuWhole.show_intq OsuWhole.dec6_printable OsuWhole.any_q
           OsuWhole.show_dec6_reads OsuWhole.show_intq_reads r c ut ua).
Qed.
(* non-vacuity: both example charts, rated by 2, are in the domain of the instance *)
Theorem osu_example_in_domain :
  OsuWhole.wdom6 (osu_chart_rate 2 wit_chart) (Text.t "Re:Zero"%string) [] = true /\
  OsuWhole.wdom6 (osu_chart_rate 2 wit_chart_pv) (Text.t "Re:Zero"%string) [] = true.
Proof. vm_compute. split; reflexivity. Qed.
End OsuRateProofs.

(* ------------------------------------------------------------------ more list facts *)
Lemma Forall2_trans' {A B C} (P : A -> B -> Prop) (R : B -> C -> Prop) l1 l2 l3 :
  Forall2 P l1 l2 -> Forall2 R l2 l3 -> Forall2 (fun x z => exists y, P x y /\ R y z) l1 l3.
Proof.
  intro H. revert l3. induction H as [|x y l1 l2 Hxy _ IH]; intros l3 H3; inversion H3; subst; constructor.
  - exists y. split; assumption.
  - apply IH. assumption.
Qed.
Lemma Forall2_map_r {A B C} (P : A -> C -> Prop) (f : B -> C) l m : Forall2 P l (map f m) -> Forall2 (fun x y => P x (f y)) l m.
Proof. revert l. induction m as [|y m IH]; intros l H; inversion H; subst; constructor; auto. Qed.
Lemma Forall2_map_l {A B C} (P : C -> B -> Prop) (f : A -> C) l m : Forall2 P (map f l) m -> Forall2 (fun x y => P (f x) y) l m.
Proof. revert m. induction l as [|x l IH]; intros m H; inversion H; subst; constructor; auto. Qed.

(* ================================================================== StepMania *)
From RV Require Formats.SMText Formats.SM Formats.SMSpec Formats.SMWriteDom Proofs.SMProofs Proofs.SMWriteWholeFile Proofs.SMWriteWholeEx.
Module SMRateProofs.
Import String.
Import List ListNotations.
Import SMText SM SMSpec SMWriteDom SMProofs SMWriteWholeFile SMRate.
Local Open Scope Q_scope.

Definition rated4 (r : Q) (a b : note4) : Prop :=
  fst (fst a) = fst (fst b) /\ snd (fst a) == snd (fst b) / r /\ snd a == snd b / r.

Lemma simple4_rate r l : Forall2 (rated4 r) (simple4 (map (simple_rate r) l)) (simple4 l).
Proof.
  unfold simple4. induction l as [|n l IH]; cbn [map]; constructor; [|exact IH].
  unfold rated4, simple_rate. cbn [fst snd]. split; [reflexivity|]. split; [apply Qred_correct|unfold Qdiv; ring].
Qed.
Lemma hold4_rate r l : Forall2 (rated4 r) (hold4 (map (long_rate r) l)) (hold4 l).
Proof.
  unfold hold4. induction l as [|n l IH]; cbn [map]; constructor; [|exact IH].
  unfold rated4, long_rate. cbn [fst snd]. split; [reflexivity|]. split; apply Qred_correct.
Qed.
(* the object lists of the rated chart are the source's lists, element by element at time / r with length / r *)
Lemma chart_list_rate r c k : Forall2 (rated4 r) (chart_list (sm_chart_rate r c) k) (chart_list c k).
Proof.
  destruct k; cbn [chart_list sm_chart_rate c_hits c_holds c_rolls c_mines c_lifts c_fakes c_keys];
    first [apply simple4_rate|apply hold4_rate].
Qed.

Lemma perm_eqv_rated r a c k : perm_eqv a (chart_list (sm_chart_rate r c) k) -> msr (note4_scaled r) a (chart_list c k).
Proof.
  intros [a' [Hp F]].
  pose proof (Forall2_trans' _ _ _ _ _ F (chart_list_rate r c k)) as F2.
  destruct (Permutation_Forall2 (Permutation_sym Hp) F2) as [c' [Hpc F3]].
  exists c'. split; [exact Hpc|]. eapply Forall2_impl'; [|exact F3].
  intros x z [y [(E1 & E2 & E3) (R1 & R2 & R3)]]. unfold note4_scaled. split; [congruence|]. split.
  - rewrite E2. exact R2.
  - rewrite E3. exact R3.
Qed.

Lemma sm_q_close0 a b : SMSpec.q_close 0 a b = true -> a == b.
Proof.
  unfold SMSpec.q_close. intro H. apply Qle_bool_iff in H. apply Qabs_Qle_condition in H. destruct H as [H1 H2]. lra.
Qed.

Lemma header_rated r s d : header_roundtrip 0 (sm_set_rate r s) d = true ->
  header_survives r s d /\
  forallb2 (fun tag v => match lookup_last tag (d_items d) None with Some x => text_eqb x v | None => false end)
           text_field_tags (s_txt s) = true /\
  match lookup_last (tx "#SELECTABLE"%string) (d_items d) None with
  | Some x => text_eqb x (tx (if s_sel s then "YES" else "NO")%string) | None => false end = true.
Proof.
  unfold header_roundtrip. cbn [sm_set_rate s_txt s_offset s_sstart s_slen s_sel]. intro H.
  apply andb_true_iff in H. destruct H as [H Hsel]. apply andb_true_iff in H. destruct H as [H Hlen].
  apply andb_true_iff in H. destruct H as [H Hst]. apply andb_true_iff in H. destruct H as [Htx Hoff].
  split; [|split; assumption]. unfold header_survives. split; [|split].
  - destruct (s_offset s) as [o|]; [|discriminate]. apply sm_q_close0 in Hoff. rewrite Hoff. apply Qred_correct.
  - destruct (field_num d "#SAMPLESTART"%string) as [x|]; [|discriminate]. exists x. split; [reflexivity|].
    apply sm_q_close0 in Hst. rewrite Hst. apply Qred_correct.
  - destruct (field_num d "#SAMPLELENGTH"%string) as [x|]; [|discriminate]. exists x. split; [reflexivity|].
    apply sm_q_close0 in Hlen. rewrite Hlen. apply Qred_correct.
Qed.

(* C13 for StepMania, by composition with C03's whole-file writer theorem (sm_write_denotes).  For every mapset s and
   rate r such that the RATED mapset lies in C03's exact domain c03_domb (decidable): SMMapSet.write of the rated mapset
   succeeds, and every exact rendering of the written tokens is a well-formed .sm text whose header carries beat 0 at
   offset / r and the sample window at start / r, length / r, the 16 text fields and SELECTABLE unchanged, and whose charts
   are, in order, the source's charts: header fields equal and for every kind of object the denoted objects are the
   source's up to order, each in its column at EXACTLY time / r with length / r (the exact domain is the row grid: nothing
   moves); and whose tempo list (C03's sm_write_tempo) has one point per tempo row, at offset / r with bpm * r. *)
Lemma tempo_rated r s d init l :
  match s_maps (sm_set_rate r s) with
  | c0 :: _ => tempo_script_of live_conf (c_bpms c0) = Some (init, l) /\ tempo_denotes d (c_bpms c0) init l
  | [] => False end -> tempo_survives r s d.
Proof.
  unfold tempo_survives. cbn [sm_set_rate s_maps]. destruct (s_maps s) as [|c0 cs]; cbn [map]; [tauto|].
  intros [_ [L H]]. cbn [sm_chart_rate c_bpms] in *. rewrite map_length in L. split; [exact L|].
  intros b Hb. destruct (H (tempo_rate r b) (in_map _ _ _ Hb)) as [tp [I [_ [B M]]]]. exists tp. split; [exact I|].
  unfold tempo_rate in B, M. cbn [fst snd] in B, M. split.
  - rewrite M. apply Qred_correct.
  - rewrite B. apply Qred_correct.
Qed.

Theorem sm_rate_survives_write r s : c03_domb (sm_set_rate r s) = true ->
  exists toks, sm_write live_conf current (sm_set_rate r s) = Some toks /\
    forall txt, match_toks 0 toks txt = true ->
      exists d, sm_denote txt = Some d /\ header_survives r s d /\
                Forall2 (chart_survives r) (d_charts d) (s_maps s) /\
                forallb2 (fun tag v => match lookup_last tag (d_items d) None with Some x => text_eqb x v | None => false end)
                         text_field_tags (s_txt s) = true /\
                tempo_survives r s d.
Proof.
  intro Hd. destruct (sm_write_denotes _ Hd) as [toks [W H]]. destruct (sm_write_tempo _ Hd) as [toks' [W' H']].
  rewrite W in W'. inversion W'; subst toks'. exists toks. split; [exact W|].
  intros txt M. destruct (H txt M) as [d [D [Hh Hc]]]. destruct (H' txt M) as [d' [D' [init [l T]]]].
  rewrite D in D'. inversion D'; subst d'. exists d. split; [exact D|].
  destruct (header_rated r s d Hh) as [H1 [H2 _]]. split; [exact H1|]. split; [|split; [exact H2|exact (tempo_rated r s d init l T)]].
  cbn [sm_set_rate s_maps] in Hc. apply Forall2_map_r in Hc. eapply Forall2_impl'; [|exact Hc].
  intros dc c [Hm Hk]. split; [exact Hm|]. intro k. apply perm_eqv_rated. apply Hk.
Qed.

(* the timeline of one chart (taps and holds, C09's adapter): the written chart's notes are the source's at time / r *)
Corollary sm_rate_survives_write_notes r dc c : chart_survives r dc c ->
  msr (note4_scaled r) (dnotes_of KHit (d_notes dc)) (simple4 (c_hits c)) /\
  msr (note4_scaled r) (dnotes_of KHold (d_notes dc)) (hold4 (c_holds c)).
Proof. intros [_ H]. split; [exact (H KHit)|exact (H KHold)]. Qed.
End SMRateProofs.

(* ================================================================== BMS *)
From RV Require Formats.BMSText Formats.BMS Formats.BMSSpec Proofs.BMSWriteFinalProofs Timing.Snap Timing.Snapper Generated.Tables.
Module BMSRateProofs.
Import Snap BMSText BMS BMSSpec BMSRate.
Local Open Scope Q_scope.

Lemma written_rated tbl dflt r c l d : written_denotes tbl dflt (bms_chart_rate r c) l d -> BMSRate.survives tbl dflt r c l d.
Proof.
  intros (Hh & Hl & Ht & _). unfold BMSRate.survives.
  destruct Hh as [hs [Ph Fh]]. destruct Hl as [ls [Pl Fl]].
  cbn [bms_chart_rate w_hits w_holds w_bpms w_samples] in *.
  apply Forall2_map_l in Fh. apply Forall2_map_l in Fl. apply Forall2_map_l in Ht.
  split; [|split; [|split; [|split]]].
  - exists hs. split; [apply Permutation_sym; exact Ph|]. eapply Forall2_impl'; [|exact Fh].
    intros h s (A & B & C). cbn [hit_rate h_col h_off h_sample] in *. auto.
  - exists ls. split; [apply Permutation_sym; exact Pl|]. eapply Forall2_impl'; [|exact Fl].
    intros h s (A & B & C & D). cbn [hold_rate ho_col ho_off ho_len ho_sample] in *. auto.
  - eapply Forall2_impl'; [|exact Ht]. intros b tb [A B]. cbn [bco_rate bo_off bo_bpm] in *. split.
    + rewrite A. apply Qred_correct.
    + rewrite B. apply Qred_correct.
  - rewrite <- (Permutation_length Ph). symmetry. exact (Forall2_len _ _ _ Fh).
  - rewrite <- (Permutation_length Pl). symmetry. exact (Forall2_len _ _ _ Fl).
Qed.

(* C13 for BMS, by composition with C05's whole-file writer theorem (bms_write_denotes).  For every layout, chart c and
   rate r such that the RATED chart lies in C05's write domain write_dom (decidable; it contains "every tempo is printed
   by ':.3f' without loss", which rating can break: 133.333 * 1.1), whatever str(float) prints for '#BPM': BMSMap.write of
   the rated chart succeeds, the reference interpreter accepts the lines, and they denote the rated chart. *)
Theorem bms_rate_survives_write tbl (Hok : Snapper.table_ok (1 # 96) tbl = true) mk lay dflt r c (rd : Q -> text) :
  write_dom tbl mk lay dflt (bms_chart_rate r c) = true -> (forall q, parse_decimal (rd q) <> None) ->
  exists ls l d, bms_write tbl lay dflt (bms_chart_rate r c) = Some ls /\ wscript tbl (bms_chart_rate r c) = Some l
    /\ bms_denote lay (map (render_with rd) ls) = Some d /\ BMSRate.survives tbl dflt r c l d.
Proof.
  intros Hd Hr. destruct (BMSWriteFinalProofs.bms_write_denotes tbl Hok mk lay dflt _ rd Hd Hr) as [ls [l [d [E1 [E2 [E3 E4]]]]]].
  exists ls, l, d. split; [exact E1|]. split; [exact E2|]. split; [exact E3|]. apply written_rated. exact E4.
Qed.
End BMSRateProofs.

(* ================================================================== the format-level rate functions ARE Map.rate *)
(* embed (rate_F r c) = the stacker model's rate (Map/Rate.v, Map/RateFile.v: the definitions the runner compares with the
   implementation on every run) applied to embed c.  So the statements above are about the modelled OsuMap.rate /
   SMMapSet.rate / Map.rate, not about a scaling function of their own. *)
From RV Require Frame.Frame Map.Stacker Map.StackerSpec Map.Rate Map.RateFile Proofs.RateProofs.
Module EmbedProofs.
Import Frame Stacker StackerSpec Rate RateFile RateProofs Embed.
Local Open Scope Q_scope.

Lemma rows_len {A} (f : A -> row) (n : nat) l : (forall x, length (f x) = n) ->
  forallb (fun r => Nat.eqb (length r) n) (map f l) = true.
Proof. intro H. induction l as [|x l IH]; [reflexivity|]. cbn [map forallb]. rewrite H, Nat.eqb_refl. exact IH. Qed.

(* ---- osu ---- *)
Lemma osu_embed_wf c : wf_osu_file (osu_file_of c) = true.
Proof.
  unfold wf_osu_file, wf_samples, osu_file_of, wf_ulist. cbn [of_lists of_samples forallb u_cols u_rows].
  rewrite (rows_len osu_hit_row 8), (rows_len osu_hold_row 9), (rows_len osu_bpm_row 7), (rows_len osu_sv_row 6),
          (rows_len osu_sample_row 3) by reflexivity. reflexivity.
Qed.
Lemma meta_rest_set m x : meta_rest (Osu.set_nth m 2 x) = meta_rest m.
Proof. unfold meta_rest. destruct m as [|a [|b [|c m]]]; reflexivity. Qed.
Lemma meta_num_set m q : (length m > 2)%nat -> Osu.meta_num (Osu.set_nth m 2 (Osu.MNum q)) 2 = q.
Proof. intro L. destruct m as [|a [|b [|c m]]]; cbn [length] in L; try lia. reflexivity. Qed.

Theorem osu_embed_scaled r c : (length (Osu.c_meta c) > 2)%nat ->
  osu_file_of (OsuRate.osu_chart_rate r c) = osu_file_scaled r (osu_file_of c).
Proof.
  intro L. unfold osu_file_of, OsuRate.osu_chart_rate, osu_file_scaled, OsuRate.IX_PREVIEW.
  cbn [Osu.c_meta Osu.c_bg Osu.c_samples Osu.c_bpms Osu.c_svs Osu.c_hits Osu.c_holds of_lists of_samples of_preview of_meta].
  rewrite meta_rest_set, (meta_num_set _ _ L). unfold rate_spec, scale_ulist. cbn [map u_cols u_rows].
  rewrite !map_map. repeat f_equal; apply map_ext; intro; reflexivity.
Qed.
(* OsuRate.osu_chart_rate is OsuMap.rate of the stacker model *)
Theorem osu_embed_rate r c : (length (Osu.c_meta c) > 2)%nat ->
  osu_file_of (OsuRate.osu_chart_rate r c) = osu_rate r (osu_file_of c).
Proof. intro L. rewrite (osu_rate_scaled r _ (osu_embed_wf c)). apply osu_embed_scaled. exact L. Qed.

(* ---- StepMania ---- *)
Lemma sm_chart_wf c : forallb wf_ulist (sm_chart_lists c) = true.
Proof.
  unfold sm_chart_lists, wf_ulist. cbn [forallb u_cols u_rows].
  rewrite (rows_len sm_tempo_row 3), !(rows_len sm_simple_row 2), !(rows_len sm_long_row 3) by reflexivity. reflexivity.
Qed.
Lemma sm_embed_wf s : wf_sm_file (sm_file_of s) = true.
Proof.
  unfold wf_sm_file, sm_file_of. cbn [sf_charts]. induction (SM.s_maps s) as [|c l IH]; [reflexivity|].
  cbn [map forallb]. rewrite sm_chart_wf. exact IH.
Qed.
Lemma sm_chart_scaled r c : sm_chart_lists (SMRate.sm_chart_rate r c) = rate_spec r (sm_chart_lists c).
Proof.
  unfold sm_chart_lists, SMRate.sm_chart_rate, rate_spec, scale_ulist.
  cbn [SM.c_bpms SM.c_hits SM.c_holds SM.c_rolls SM.c_mines SM.c_lifts SM.c_fakes SM.c_keys map u_cols u_rows].
  rewrite !map_map. repeat f_equal; apply map_ext; intro; reflexivity.
Qed.
Theorem sm_embed_scaled r s : sm_file_of (SMRate.sm_set_rate r s) = sm_file_scaled r (sm_file_of s).
Proof.
  unfold sm_file_of, SMRate.sm_set_rate, sm_file_scaled.
  cbn [SM.s_maps SM.s_offset SM.s_sstart SM.s_slen SM.s_sel SM.s_txt sf_charts sf_offset sf_sample_start sf_sample_length sf_meta].
  rewrite !map_map. f_equal. apply map_ext. intro c. apply sm_chart_scaled.
Qed.
(* SMRate.sm_set_rate is SMMapSet.rate of the stacker model *)
Theorem sm_embed_rate r s : sm_file_of (SMRate.sm_set_rate r s) = sm_mapset_rate r (sm_file_of s).
Proof. rewrite (sm_rate_scaled r _ (sm_embed_wf s)). apply sm_embed_scaled. Qed.

(* ---- BMS ---- *)
Theorem bms_embed_rate r c : bms_lists (BMSRate.bms_chart_rate r c) = rate_lists r (bms_lists c).
Proof.
  assert (W : forallb wf_ulist (bms_lists c) = true).
  { unfold bms_lists, wf_ulist. cbn [forallb u_cols u_rows].
    rewrite (rows_len _ 3 (BMS.w_hits c)), (rows_len _ 4 (BMS.w_holds c)), (rows_len _ 3 (BMS.w_bpms c)) by reflexivity. reflexivity. }
  rewrite (rate_scales r _ W). unfold bms_lists, BMSRate.bms_chart_rate, rate_spec, scale_ulist.
  cbn [BMS.w_hits BMS.w_holds BMS.w_bpms map u_cols u_rows]. rewrite !map_map.
  repeat f_equal; apply map_ext; intro; reflexivity.
Qed.

(* ---- Quaver ---- *)
Lemma qua_cell_rate r k v : scale_cell r (qua_col_id k) (qua_cell v) = qua_cell (QuaRate.rate_cell r k v).
Proof.
  unfold QuaRate.rate_cell, QuaRate.is_time_col, QuaRate.scale_q, qua_col_id.
  destruct (k =? Qua.N_offset)%Z eqn:E1.
  { apply Z.eqb_eq in E1. subst k. destruct v; reflexivity. }
  destruct (k =? Qua.N_column)%Z eqn:E2.
  { apply Z.eqb_eq in E2. subst k. destruct v; reflexivity. }
  destruct (k =? Qua.N_length)%Z eqn:E3.
  { apply Z.eqb_eq in E3. subst k. destruct v; reflexivity. }
  destruct (k =? Qua.N_bpm)%Z eqn:E4.
  { apply Z.eqb_eq in E4. subst k. destruct v; reflexivity. }
  destruct (k =? Qua.N_metronome)%Z eqn:E5.
  { apply Z.eqb_eq in E5. subst k. destruct v; reflexivity. }
  destruct (k =? Qua.N_multiplier)%Z eqn:E6.
  { apply Z.eqb_eq in E6. subst k. destruct v; reflexivity. }
  cbn [orb]. unfold scale_cell, COL_OFFSET, COL_LENGTH, COL_BPM.
  assert (A : (1000 <= 1000 + Z.abs k)%Z) by lia.
  destruct (1000 + Z.abs k =? 0)%Z eqn:F0; [apply Z.eqb_eq in F0; lia|].
  destruct (1000 + Z.abs k =? 2)%Z eqn:F2; [apply Z.eqb_eq in F2; lia|].
  destruct (1000 + Z.abs k =? 3)%Z eqn:F3; [apply Z.eqb_eq in F3; lia|].
  cbn [orb]. destruct (qua_cell v); reflexivity.
Qed.
Lemma qua_row_rate r row :
  scale_row r (map qua_col_id (map fst row)) (map (fun kv : Z * Qua.ytree => qua_cell (snd kv)) row)
  = map (fun kv : Z * Qua.ytree => qua_cell (snd kv)) (QuaRate.rate_row r row).
Proof.
  induction row as [|[k v] row IH]; [reflexivity|]. cbn [map fst snd scale_row QuaRate.rate_row].
  rewrite qua_cell_rate. f_equal. exact IH.
Qed.
Lemma qua_frame_rate r f : qua_rows_keyed f ->
  qua_frame_ulist (QuaRate.rate_frame r f) = scale_ulist r (qua_frame_ulist f).
Proof.
  unfold qua_rows_keyed, qua_frame_ulist, QuaRate.rate_frame, scale_ulist. cbn [Qua.f_cols Qua.f_rows u_cols u_rows].
  intro K. f_equal. rewrite !map_map. induction (Qua.f_rows f) as [|row rows IH]; [reflexivity|].
  inversion K as [|? ? Kr Krs]; subst. cbn [map]. f_equal; [|apply IH; exact Krs]. rewrite <- Kr. symmetry. apply qua_row_rate.
Qed.
Lemma qua_frame_wf f : NoDup (map qua_col_id (Qua.f_cols f)) -> qua_rows_keyed f -> wf_ulist (qua_frame_ulist f) = true.
Proof.
  intros Nd K. unfold wf_ulist, qua_frame_ulist. cbn [u_cols u_rows]. apply andb_true_iff. split.
  - clear K. induction (map qua_col_id (Qua.f_cols f)) as [|x l IH]; [reflexivity|]. inversion Nd; subst. cbn [nodupb].
    rewrite IH by assumption. rewrite andb_true_r. apply negb_true_iff. apply not_true_is_false. intro E.
    apply existsb_exists in E. destruct E as [y [Hy Ey]]. apply Z.eqb_eq in Ey. subst y. contradiction.
  - rewrite forallb_forall. intros row' Hin. apply in_map_iff in Hin. destruct Hin as [row [<- Hin]].
    unfold qua_rows_keyed in K. rewrite Forall_forall in K. rewrite !map_length, <- (K row Hin), map_length. apply Nat.eqb_refl.
Qed.
(* QuaRate.qua_rate is Map.rate of the stacker model, for every chart whose rows carry their frame's columns in order
   (implied by QuaSpec.wf_chartb) and whose columns stay distinct under the embedding *)
Theorem qua_embed_rate r c :
  qua_rows_keyed (Qua.c_hits c) -> qua_rows_keyed (Qua.c_holds c) -> qua_rows_keyed (Qua.c_bpms c) -> qua_rows_keyed (Qua.c_svs c) ->
  forallb wf_ulist (qua_lists c) = true ->
  qua_lists (QuaRate.qua_rate r c) = rate_lists r (qua_lists c).
Proof.
  intros K1 K2 K3 K4 W. rewrite (rate_scales r _ W). unfold qua_lists, QuaRate.qua_rate, rate_spec.
  cbn [Qua.c_hits Qua.c_holds Qua.c_bpms Qua.c_svs map].
  rewrite (qua_frame_rate r _ K1), (qua_frame_rate r _ K2), (qua_frame_rate r _ K3), (qua_frame_rate r _ K4). reflexivity.
Qed.
Lemma qua_wf_keyed decl f : QuaSpec.frame_okb decl false f = true -> qua_rows_keyed f.
Proof.
  intro H. destruct (QuaProofs.frame_ok_inv decl f H) as (_ & _ & _ & R). unfold qua_rows_keyed.
  eapply Forall_impl; [|exact R]. intros row [E _]. exact E.
Qed.
Corollary qua_embed_rate_wf r c : QuaSpec.wf_chartb false c = true -> forallb wf_ulist (qua_lists c) = true ->
  qua_lists (QuaRate.qua_rate r c) = rate_lists r (qua_lists c).
Proof.
  intros H W. unfold QuaSpec.wf_chartb in H. do 4 (apply andb_true_iff in H; destruct H as [H ?]).
  apply qua_embed_rate; try exact W; eapply qua_wf_keyed; eassumption.
Qed.
End EmbedProofs.

(* ================================================================== non-vacuity: concrete charts through each pipeline *)
Module Examples.
Local Open Scope Q_scope.

(* Quaver: two hits (one int-typed time), a hold with a fractional start, a tempo point, a scroll velocity *)
Definition qua_ex : Qua.chart :=
  let N := Qua.mkFrame in
  Qua.mkChart
    (N [Qua.N_offset; Qua.N_column; Qua.N_keysounds]%Z
       [[(Qua.N_offset, Qua.YInt 1001); (Qua.N_column, Qua.YInt 0); (Qua.N_keysounds, Qua.YList [])];
        [(Qua.N_offset, Qua.YFloat (2501 # 2)); (Qua.N_column, Qua.YFloat 3); (Qua.N_keysounds, Qua.YList [])]])
    (N [Qua.N_keysounds; Qua.N_length; Qua.N_column; Qua.N_offset]%Z
       [[(Qua.N_keysounds, Qua.YList []); (Qua.N_length, Qua.YFloat (1501 # 2)); (Qua.N_column, Qua.YInt 2);
         (Qua.N_offset, Qua.YFloat (4001 # 4))]])
    (N [Qua.N_bpm; Qua.N_metronome; Qua.N_offset]%Z
       [[(Qua.N_bpm, Qua.YInt 150); (Qua.N_metronome, Qua.YFloat 4); (Qua.N_offset, Qua.YInt 500)]])
    (N [Qua.N_multiplier; Qua.N_offset]%Z [[(Qua.N_multiplier, Qua.YFloat (3 # 2)); (Qua.N_offset, Qua.YInt 3000)]])
    (map (fun kd : Z * Qua.ytree => if (fst kd =? Qua.K_InitialScrollVelocity)%Z then Qua.YFloat 1 else snd kd) Qua.Live.meta_defaults).
Theorem qua_example :
  QuaSpec.wf_chartb false qua_ex = true /\
  match Qua.Live.write (QuaRate.qua_rate 2 qua_ex), QuaSpec.chart_denote qua_ex with
  | Some d, Some a =>
      match QuaSpec.qua_denote d with
      | Some e => timeline_closeb 1 0 (tl_of_qua e) (tl_scale 2 (tl_of_qua a)) = true
                  /\ map (fun n => (tn_hold n, tn_col n, tn_time n, tn_len n)) (tl_notes (tl_of_qua e))
                     = [(false, 0%Z, 500, 0); (false, 3%Z, 625, 0); (true, 2%Z, 500, 375)]
                  /\ tl_tempo (tl_of_qua e) = [(250, 300)]
      | None => False end
  | _, _ => False
  end.
Proof. vm_compute. repeat split; reflexivity. Qed.

(* StepMania: C03's exact-domain example (two charts, two tempo rows, every kind of object) rated by 2 and by 3/4 is again
   in the exact domain, so sm_rate_survives_write applies to it *)
Theorem sm_example :
  SMWriteWholeFile.c03_domb (SMRate.sm_set_rate 2 SMWriteWholeEx.c03_ex_set) = true /\
  SMWriteWholeFile.c03_domb (SMRate.sm_set_rate (3 # 4) SMWriteWholeEx.c03_ex_set) = true /\
  SM.s_offset SMWriteWholeEx.c03_ex_set <> Some 0 /\ length (SM.s_maps SMWriteWholeEx.c03_ex_set) = 2%nat.
Proof. vm_compute. repeat split; try reflexivity. discriminate. Qed.

(* BMS: C05's non-vacuity chart (two tempo points, thirds / 96ths / sevenths, an off-grid hit, two holds, samples) rated by 2
   and by 1/2 is in C05's write domain, so bms_rate_survives_write applies to it *)
Section BmsEx.
Import BMSText BMS BMSSpec Snap.
Definition bms_ex : wchart := (mkW [(mkHit 0%Z (0#1) (tx[L[107;46;119;97;118]])%Z); (mkHit 1%Z (500#3) (tx[])%Z); (mkHit 1%Z (250#1) (tx[L[120]])%Z); (mkHit 5%Z (48625#24) (tx[L[107;46;119;97;118]])%Z); (mkHit 3%Z (2777#1) (tx[])%Z); (mkHit 7%Z (4400#1) (tx[L[107;46;119;97;118]])%Z)] [(mkHold 2%Z (1000#1) (750#1) (tx[L[107;46;119;97;118]])%Z); (mkHold 2%Z (4400#1) (617#5) (tx[])%Z)] [(mkBco (120#1) 4 (0#1)); (mkBco (150#1) 4 (4000#1))] [((tx[L[48;65]])%Z, (tx[L[107;46;119;97;118]])%Z)] (tx[L[90;90]])%Z (tx[L[116]])%Z (tx[L[97]])%Z (tx[L[49]])%Z [((tx[L[71;69;78;82;69]])%Z, (tx[L[103]])%Z)]).
Theorem bms_example :
  write_dom Tables.Tables.snapper_table Tables.Tables.bms.max_keys Tables.Tables.bms.layout_BME [48;49]%Z (BMSRate.bms_chart_rate 2 bms_ex) = true /\
  write_dom Tables.Tables.snapper_table Tables.Tables.bms.max_keys Tables.Tables.bms.layout_BME [48;49]%Z (BMSRate.bms_chart_rate (1 # 2) bms_ex) = true /\
  length (w_hits bms_ex) = 6%nat /\ length (w_holds bms_ex) = 2%nat /\ length (w_bpms bms_ex) = 2%nat.
Proof. vm_compute. repeat split; reflexivity. Qed.
End BmsEx.
Theorem table_ok_live : Snapper.table_ok (1 # 96) Tables.Tables.snapper_table = true.
Proof. vm_compute. reflexivity. Qed.
End Examples.
